import SdnsVerif.Model.Work
/-!
Helper lemmas for C12 (bounded work per request): invariants of the ledger's
atomic-step transition system, the attempt guard, the measure of one `resolve`
frame and the potential of the request tree.
-/
namespace SdnsVerif.Lemmas.Work
open SdnsVerif.Model.Work

theorem KTab.get_set {α : Type} (t : KTab α) (k k' : Kind) (v : α) :
    (t.set k v).get k' = if k' = k then v else t.get k' := by
  cases k <;> cases k' <;> simp [KTab.set, KTab.get]

theorem KTab.get_set_same {α : Type} (t : KTab α) (k : Kind) (v : α) : (t.set k v).get k = v := by
  rw [KTab.get_set]; simp

theorem KTab.get_set_ne {α : Type} (t : KTab α) (k k' : Kind) (v : α) (h : k' ≠ k) :
    (t.set k v).get k' = t.get k' := by
  rw [KTab.get_set]; simp [h]

theorem KTab.get_const {α : Type} (v : α) (k : Kind) : (KTab.const v).get k = v := by
  cases k <;> rfl

theorem setPC_same (pc : Nat → PC) (t : Nat) (v : PC) : setPC pc t v t = v := by simp [setPC]
theorem setPC_ne (pc : Nat → PC) (t x : Nat) (v : PC) (h : x ≠ t) : setPC pc t v x = pc x := by simp [setPC, h]

/-- invariant of the enforce-mode ledger over atomic steps. -/
structure EnfInv (p : Policy) (s : LState) : Prop where
  le : ∀ k, s.sh.ctr.get k ≤ p.caps.get k
  acc : ∀ k, s.sh.acc.get k = s.sh.ctr.get k
  loaded : ∀ t k u l, s.pc t = .loaded k u l → u < p.caps.get k

theorem enfInv_init (p : Policy) : EnfInv p {} := by
  constructor
  · intro k; simp [KTab.get_const]
  · intro k; simp [KTab.get_const]
  · intro t k u l h; simp at h

/-- a step that only moves one thread's program counter. -/
theorem enfInv_pc {p : Policy} {s : LState} (h : EnfInv p s) (t : Nat) (v : PC)
    (hv : ∀ k u l, v = .loaded k u l → u < p.caps.get k) :
    EnfInv p { s with pc := setPC s.pc t v } := by
  refine ⟨h.le, h.acc, ?_⟩
  intro t' k u l hpc
  simp only [setPC] at hpc
  split at hpc
  · exact hv _ _ _ hpc
  · exact h.loaded _ _ _ _ hpc

/-- a step that only touches `exhausted` / `first` and one program counter. -/
theorem enfInv_mark {p : Policy} {s : LState} (h : EnfInv p s) (t : Nat) (v : PC) (e : KTab Bool) (f : Nat)
    (hv : ∀ k u l, v = .loaded k u l → u < p.caps.get k) :
    EnfInv p { sh := { s.sh with exh := e, first := f }, pc := setPC s.pc t v } := by
  refine ⟨h.le, h.acc, ?_⟩
  intro t' k u l hpc
  simp only [setPC] at hpc
  split at hpc
  · exact hv _ _ _ hpc
  · exact h.loaded _ _ _ _ hpc

/-- a successful `CompareAndSwap(used, used+1)` with `used < limit`. -/
theorem enfInv_cas {p : Policy} {s : LState} (h : EnfInv p s) (t : Nat) (k : Kind) (used : Nat)
    (hc : s.sh.ctr.get k = used) (hu : used < p.caps.get k) :
    EnfInv p { sh := { s.sh with ctr := s.sh.ctr.set k (used + 1), acc := s.sh.acc.set k (s.sh.acc.get k + 1) },
               pc := setPC s.pc t (.done .ok) } := by
  refine ⟨?_, ?_, ?_⟩
  · intro k'
    simp only [KTab.get_set]
    split
    · rename_i hk; subst hk; omega
    · exact h.le k'
  · intro k'
    simp only [KTab.get_set]
    split
    · rename_i hk; subst hk; rw [h.acc, hc]
    · exact h.acc k'
  · intro t' k' u l hpc
    simp only [setPC] at hpc
    split at hpc
    · cases hpc
    · exact h.loaded _ _ _ _ hpc

theorem enfInv_step (p : Policy) (hm : p.mode = .enforce) (s : LState) (l : Label)
    (h : EnfInv p s) : EnfInv p (lstep p s l) := by
  have hen : p.enabled = true := by simp [Policy.enabled, hm]
  cases l with
  | start t k latch =>
    simp only [lstep]
    split
    · by_cases hagg : k.isAggregate = true
      · simp only [hen, hagg, Bool.not_true, Bool.or_self, Bool.false_eq_true, if_false, hm, reduceCtorEq]
        split
        · exact enfInv_pc h t _ (by intro k u l hh; cases hh)
        · rename_i hlt
          exact enfInv_pc h t _ (by intro k' u l hh; cases hh; omega)
      · simp only [hen, hagg, Bool.not_true, Bool.not_false, Bool.or_true, if_true]
        exact enfInv_pc h t _ (by intro k u l hh; cases hh)
    · exact h
  | tick t =>
    simp only [lstep]
    split
    · rename_i k used latch hpc
      split
      · rename_i hc
        exact enfInv_cas h t k used hc (h.loaded _ _ _ _ hpc)
      · split
        · exact enfInv_pc h t _ (by intro k u l hh; cases hh)
        · exact enfInv_pc h t _ (by intro k' u l hh; cases hh; omega)
    · exact enfInv_mark h t _ _ _ (by intro k u l hh; cases hh)
    · exact enfInv_mark h t _ _ _ (by intro k u l hh; cases hh)
    · exact enfInv_mark h t _ _ _ (by intro k u l hh; cases hh)
    · exact h
  | reset t =>
    simp only [lstep]
    split
    · exact enfInv_pc h t _ (by intro k u l hh; cases hh)
    · exact h
  | mark k latch =>
    simp only [lstep, hen, Bool.not_true, Bool.false_eq_true, if_false]
    exact ⟨h.le, h.acc, h.loaded⟩

theorem enfInv_run (p : Policy) (hm : p.mode = .enforce) (ls : List Label) (s : LState)
    (h : EnfInv p s) : EnfInv p (lrun p s ls) := by
  induction ls generalizing s with
  | nil => exact h
  | cons l t ih => exact ih _ (enfInv_step p hm s l h)


/-! ### counters never decrease; `first` is write-once -/

theorem ctr_mono_step (p : Policy) (s : LState) (l : Label) (k : Kind) :
    s.sh.ctr.get k ≤ (lstep p s l).sh.ctr.get k := by
  cases l with
  | start t k' latch =>
    simp only [lstep]
    split
    · split
      · exact Nat.le_refl _
      · split
        · split <;> (simp only [KTab.get_set]; split
                     · rename_i hk; subst hk; omega
                     · exact Nat.le_refl _)
        · split <;> exact Nat.le_refl _
    · exact Nat.le_refl _
  | tick t =>
    simp only [lstep]
    split
    · split
      · rename_i hc
        simp only [KTab.get_set]; split
        · rename_i hk; subst hk; omega
        · exact Nat.le_refl _
      · split <;> exact Nat.le_refl _
    all_goals exact Nat.le_refl _
  | reset t =>
    simp only [lstep]
    split <;> exact Nat.le_refl _
  | mark k' latch =>
    simp only [lstep]
    split <;> exact Nat.le_refl _

theorem ctr_mono_run (p : Policy) (ls : List Label) (s : LState) (k : Kind) :
    s.sh.ctr.get k ≤ (lrun p s ls).sh.ctr.get k := by
  induction ls generalizing s with
  | nil => exact Nat.le_refl _
  | cons l t ih => exact Nat.le_trans (ctr_mono_step p s l k) (ih _)

theorem first_once_step (p : Policy) (s : LState) (l : Label) (h : s.sh.first ≠ 0) :
    (lstep p s l).sh.first = s.sh.first := by
  cases l with
  | start t k' latch =>
    simp only [lstep]
    split
    · split
      · rfl
      · split
        · split <;> rfl
        · split <;> rfl
    · rfl
  | tick t =>
    simp only [lstep]
    split
    · split
      · rfl
      · split <;> rfl
    · rfl
    · rfl
    · simp [h]
    · rfl
  | reset t =>
    simp only [lstep]
    split <;> rfl
  | mark k' latch =>
    simp only [lstep]
    split
    · rfl
    · simp [h]

theorem first_once_run (p : Policy) (ls : List Label) (s : LState) (h : s.sh.first ≠ 0) :
    (lrun p s ls).sh.first = s.sh.first := by
  induction ls generalizing s with
  | nil => rfl
  | cons l t ih =>
    have e := first_once_step p s l h
    show (lrun p (lstep p s l) t).sh.first = s.sh.first
    rw [ih _ (by rw [e]; exact h), e]


/-! ### shadow / off: nothing is ever rejected, nothing is ever latched -/

/-- program counters reachable when the mode is not enforce. -/
def benign : PC → Prop
  | .idle => True
  | .added _ _ => True
  | .done .ok => True
  | _ => False

structure SoftInv (s : LState) : Prop where
  pcs : ∀ t, benign (s.pc t)
  first : s.sh.first = 0

theorem softInv_init : SoftInv {} := ⟨fun _ => trivial, rfl⟩

theorem softInv_pc {s : LState} (h : SoftInv s) (t : Nat) (v : PC) (hv : benign v) (sh : Shared)
    (hf : sh.first = 0) : SoftInv { sh := sh, pc := setPC s.pc t v } := by
  refine ⟨?_, hf⟩
  intro t'
  simp only [setPC]
  split
  · exact hv
  · exact h.pcs t'

theorem softInv_step (p : Policy) (hm : p.mode ≠ .enforce) (s : LState) (l : Label)
    (h : SoftInv s) : SoftInv (lstep p s l) := by
  cases l with
  | start t k latch =>
    simp only [lstep]
    split
    · split
      · exact softInv_pc h t _ (by simp [benign]) _ h.first
      · split
        · split
          · exact softInv_pc h t _ (by simp [benign]) _ h.first
          · exact softInv_pc h t _ (by simp [benign]) _ h.first
        · rename_i hs
          -- enabled and not shadow would be enforce
          exfalso
          rename_i hen
          cases hmode : p.mode with
          | off => simp [Policy.enabled, hmode] at hen
          | shadow => exact hs hmode
          | enforce => exact hm hmode
    · exact h
  | tick t =>
    simp only [lstep]
    have hb := h.pcs t
    split
    · rename_i hpc; rw [hpc] at hb; exact hb.elim
    · exact softInv_pc h t _ (by simp [benign]) _ h.first
    · rename_i hpc; rw [hpc] at hb; exact hb.elim
    · rename_i hpc; rw [hpc] at hb; exact hb.elim
    · exact h
  | reset t =>
    simp only [lstep]
    split
    · exact softInv_pc h t _ (by simp [benign]) _ h.first
    · exact h
  | mark k latch =>
    simp only [lstep]
    split
    · exact h
    · refine ⟨h.pcs, ?_⟩
      have : (p.mode == Mode.enforce) = false := by
        cases hmode : p.mode <;> simp_all
      simp [this, h.first]

theorem softInv_run (p : Policy) (hm : p.mode ≠ .enforce) (ls : List Label) (s : LState)
    (h : SoftInv s) : SoftInv (lrun p s ls) := by
  induction ls generalizing s with
  | nil => exact h
  | cons l t ih => exact ih _ (softInv_step p hm s l h)

/-- `first` is always 0 or a kind index + 1. -/
def FirstOk (s : LState) : Prop := s.sh.first = 0 ∨ ∃ k : Kind, s.sh.first = k.idx + 1

theorem firstOk_step (p : Policy) (s : LState) (l : Label) (h : FirstOk s) : FirstOk (lstep p s l) := by
  by_cases h0 : s.sh.first = 0
  · cases l with
    | start t k latch =>
      simp only [lstep]
      split
      · split
        · exact h
        · split
          · split <;> exact h
          · split <;> exact h
      · exact h
    | tick t =>
      simp only [lstep]
      split
      · split
        · exact h
        · split <;> exact h
      · exact h
      · exact h
      · rename_i k latch _
        show FirstOk _
        unfold FirstOk
        simp only
        split
        · exact Or.inr ⟨k, rfl⟩
        · exact h
      · exact h
    | reset t =>
      simp only [lstep]
      split <;> exact h
    | mark k latch =>
      simp only [lstep]
      split
      · exact h
      · unfold FirstOk
        simp only
        split
        · exact Or.inr ⟨k, rfl⟩
        · exact h
  · unfold FirstOk
    rw [first_once_step p s l h0]
    exact h

theorem firstOk_run (p : Policy) (ls : List Label) (s : LState) (h : FirstOk s) : FirstOk (lrun p s ls) := by
  induction ls generalizing s with
  | nil => exact h
  | cons l t ih => exact ih _ (firstOk_step p s l h)

theorem ofIdx_idx (k : Kind) : Kind.ofIdx k.idx = some k := by cases k <;> rfl


/-! ### attempt guard -/

theorem count_bump (g : Guard) (key key' : Nat) :
    (g.bump key).count key' = if key' = key then g.count key + 1 else g.count key' := by
  induction g with
  | nil =>
    simp only [Guard.bump, Guard.count]
    by_cases h : key' = key
    · subst h; simp
    · have : ¬ key = key' := fun e => h e.symm
      simp [h, this]
  | cons x t ih =>
    obtain ⟨k, c⟩ := x
    simp only [Guard.bump]
    by_cases hk : k = key
    · subst hk
      simp only [if_true, Guard.count]
      by_cases h : key' = k
      · subst h; simp
      · have : ¬ k = key' := fun e => h e.symm
        simp [h, this]
    · simp only [hk, if_false, Guard.count]
      by_cases h2 : k = key'
      · subst h2
        have : ¬ k = key := hk
        simp [this]
      · simp only [h2, if_false]
        exact ih

/-- run a history of `begin` calls; the result lists (key, admitted). -/
def guardRun (n : Nat) : Guard → List Nat → Guard × List (Nat × Bool)
  | g, [] => (g, [])
  | g, k :: t =>
    let (g1, ok) := Guard.begin n g k
    let (g2, out) := guardRun n g1 t
    (g2, (k, ok) :: out)

def admitted (out : List (Nat × Bool)) (key : Nat) : Nat :=
  (out.filter fun x => x.1 == key && x.2).length

theorem guardRun_spec (n : Nat) (keys : List Nat) (g : Guard) (key : Nat) (h : g.count key ≤ n) :
    (guardRun n g keys).1.count key ≤ n ∧
    (guardRun n g keys).1.count key = g.count key + admitted (guardRun n g keys).2 key := by
  induction keys generalizing g with
  | nil => simp [guardRun, admitted, h]
  | cons k t ih =>
    simp only [guardRun]
    unfold Guard.begin
    by_cases hfull : g.count k ≥ n
    · simp only [hfull, if_true]
      have := ih g h
      refine ⟨this.1, ?_⟩
      rw [this.2]
      simp [admitted]
    · simp only [hfull, if_false]
      have hc : (g.bump k).count key ≤ n := by
        rw [count_bump]; split
        · rename_i e; subst e; omega
        · exact h
      have := ih (g.bump k) hc
      refine ⟨this.1, ?_⟩
      rw [this.2, count_bump]
      by_cases e : key = k
      · subst e; simp [admitted]; omega
      · have e' : ¬ k = key := fun x => e x.symm
        simp [admitted, e, e']


/-! ### one `resolve` frame: the measure strictly decreases -/

theorem minimized_true {m lb lv : Nat} {nm : Bool} (h : minimized m lb lv nm = true) :
    m ≠ 0 ∧ nm = false ∧ lv < m ∧ lv + 1 < lb := by
  unfold minimized at h
  simp only [Bool.and_eq_true, ne_eq, Bool.not_eq_true', decide_eq_true_eq] at h
  obtain ⟨⟨⟨h1, h2⟩, h3⟩, h4⟩ := h
  exact ⟨h1, h2, h3, h4⟩

theorem fstep_lim {f f' : Frame} (h : FStep f f') : f'.lim = f.lim := by
  cases h <;> rfl

theorem fstep_decreases {f f' : Frame} (h : FStep f f') : f'.mu < f.mu := by
  have hl := fstep_lim h
  cases h with
  | levelUp hm =>
    obtain ⟨_, hn, h3, h4⟩ := minimized_true hm
    have : f.level < f.lim := by unfold Frame.lim; omega
    unfold Frame.mu
    simp only
    unfold Frame.lim at *
    simp only at *
    generalize min f.minLevel (f.labels - 1) = L at *
    generalize f.depth * (2 * (L + 1)) = D
    omega
  | nominRetry hm =>
    obtain ⟨_, hn, _, _⟩ := minimized_true hm
    unfold Frame.mu Frame.lim
    simp only [hn]
    generalize min f.minLevel (f.labels - 1) = L
    generalize f.depth * (2 * (L + 1)) = D
    simp
  | checkHosts hh hm =>
    unfold Frame.mu Frame.lim
    simp only [hh]
    generalize min f.minLevel (f.labels - 1) = L
    generalize f.depth * (2 * (L + 1)) = D
    simp
  | parentRestart hh hosts =>
    unfold Frame.mu Frame.lim
    simp only [hh.2]
    generalize min f.minLevel (f.labels - 1) = L
    generalize f.depth * (2 * (L + 1)) = D
    cases hosts <;> cases f.hosts <;> simp <;> omega
  | descend lvl hosts hd =>
    unfold Frame.mu Frame.lim
    simp only
    generalize min f.minLevel (f.labels - 1) = L
    obtain ⟨d, hd'⟩ : ∃ d, f.depth = d + 1 := ⟨f.depth - 1, by omega⟩
    rw [hd', Nat.add_sub_cancel, Nat.add_mul]
    generalize d * (2 * (L + 1)) = D
    cases hosts <;> cases f.hosts <;> cases f.nomin <;> simp <;> omega
  | cached d hosts hd hlt =>
    unfold Frame.mu Frame.lim
    simp only
    generalize min f.minLevel (f.labels - 1) = L
    obtain ⟨r, hr⟩ : ∃ r, f.depth = r + d := ⟨f.depth - d, by omega⟩
    rw [hr, Nat.add_sub_cancel, Nat.add_mul]
    generalize r * (2 * (L + 1)) = D
    rcases hd with rfl | rfl
    · cases hosts <;> cases f.hosts <;> cases f.nomin <;> simp <;> omega
    · cases hosts <;> cases f.hosts <;> cases f.nomin <;> simp <;> omega

theorem mu_le (f : Frame) : f.mu ≤ (2 * f.depth + 4) * (f.lim + 1) := by
  unfold Frame.mu
  simp only
  generalize f.lim = L
  have e : (2 * f.depth + 4) * (L + 1) = f.depth * (2 * (L + 1)) + 4 * (L + 1) := by
    rw [Nat.add_mul, Nat.mul_comm 2 f.depth, Nat.mul_assoc]
  rw [e]
  generalize f.depth * (2 * (L + 1)) = D
  cases f.nomin <;> cases f.hosts <;> simp <;> omega

/-- `n` consecutive re-entries of `resolve`. -/
inductive FRun : Frame → Nat → Frame → Prop
  | nil (f : Frame) : FRun f 0 f
  | cons {f g h : Frame} {n : Nat} : FStep f g → FRun g n h → FRun f (n + 1) h

theorem frun_measure {f g : Frame} {n : Nat} (h : FRun f n g) : n + g.mu ≤ f.mu := by
  induction h with
  | nil f => omega
  | cons hs _ ih => have := fstep_decreases hs; omega


/-! ### the request tree: the potential strictly decreases -/

theorem weight_pos (c : TreeCfg) (r : Nat) : 0 < c.weight r := by
  cases r <;> simp [TreeCfg.weight] <;> omega

theorem phi_lt_k (c : TreeCfg) (f : Frame) (cr r : Nat) (hmu : f.mu ≤ c.frameCap) (hc : cr ≤ c.fanout) :
    Act.phi c { frame := f, credit := cr, room := r } + 1 ≤ c.k := by
  unfold Act.phi TreeCfg.k
  simp only
  have := Nat.mul_le_mul_right (c.fanout + 1) hmu
  omega

theorem potential_cons (c : TreeCfg) (a : Act) (rest : List Act) :
    potential c (a :: rest) = a.pot c + potential c rest := by
  simp [potential]

theorem tstep_decreases {c : TreeCfg} {st st' : List Act} (h : TStep c st st') :
    potential c st' < potential c st := by
  cases h with
  | frame a f' cr rest hs hc =>
    rw [potential_cons, potential_cons]
    have hmu := fstep_decreases hs
    have hw := weight_pos c a.room
    unfold Act.pot Act.phi
    simp only
    -- phi' + 1 ≤ phi
    have h1 : f'.mu * (c.fanout + 1) + cr + 1 ≤ a.frame.mu * (c.fanout + 1) + a.credit := by
      have : (f'.mu + 1) * (c.fanout + 1) ≤ a.frame.mu * (c.fanout + 1) :=
        Nat.mul_le_mul_right _ hmu
      rw [Nat.add_mul] at this
      omega
    have h2 := Nat.mul_le_mul_right (c.weight a.room) h1
    have h3 : (a.frame.mu * (c.fanout + 1) + a.credit + 1) * c.weight a.room
        = (a.frame.mu * (c.fanout + 1) + a.credit) * c.weight a.room + c.weight a.room := by
      rw [Nat.add_mul, Nat.one_mul]
    omega
  | spawn a child cr rest hcredit hroom hmu hc =>
    rw [potential_cons, potential_cons, potential_cons]
    obtain ⟨r, hr⟩ : ∃ r, a.room = r + 1 := ⟨a.room - 1, by omega⟩
    obtain ⟨q, hq⟩ : ∃ q, a.credit = q + 1 := ⟨a.credit - 1, by omega⟩
    have hk := phi_lt_k c child cr r hmu hc
    unfold Act.pot
    simp only [hr, Nat.add_sub_cancel]
    have hchild : (Act.phi c { frame := child, credit := cr, room := r } + 1) * c.weight r ≤ c.k * c.weight r :=
      Nat.mul_le_mul_right _ hk
    have hw : c.weight (r + 1) = 1 + c.k * c.weight r := rfl
    have hphi : Act.phi c { a with credit := a.credit - 1 } + 1 = Act.phi c a := by
      unfold Act.phi; simp only [hq, Nat.add_sub_cancel]; omega
    have hpar : (Act.phi c a + 1) * c.weight (r + 1)
        = (Act.phi c { a with credit := a.credit - 1 } + 1) * c.weight (r + 1) + c.weight (r + 1) := by
      rw [hphi, Nat.add_mul, Nat.one_mul]
    have hroom' : ({ a with credit := a.credit - 1 } : Act).room = a.room := rfl
    simp only [Act.phi] at *
    omega
  | refused a rest hcredit =>
    rw [potential_cons, potential_cons]
    obtain ⟨q, hq⟩ : ∃ q, a.credit = q + 1 := ⟨a.credit - 1, by omega⟩
    have hw := weight_pos c a.room
    unfold Act.pot Act.phi
    simp only [hq, Nat.add_sub_cancel]
    have : (a.frame.mu * (c.fanout + 1) + (q + 1) + 1) * c.weight a.room
        = (a.frame.mu * (c.fanout + 1) + q + 1) * c.weight a.room + c.weight a.room := by
      rw [← Nat.add_assoc, Nat.add_mul _ 1, Nat.one_mul]
    omega
  | ret a rest =>
    rw [potential_cons]
    have hw := weight_pos c a.room
    unfold Act.pot
    have : 0 < (Act.phi c a + 1) * c.weight a.room := Nat.mul_pos (by omega) hw
    omega

/-- `n` consecutive steps of the request tree. -/
inductive TRun (c : TreeCfg) : List Act → Nat → List Act → Prop
  | nil (st : List Act) : TRun c st 0 st
  | cons {a b d : List Act} {n : Nat} : TStep c a b → TRun c b n d → TRun c a (n + 1) d

theorem trun_measure {c : TreeCfg} {a b : List Act} {n : Nat} (h : TRun c a n b) :
    n + potential c b ≤ potential c a := by
  induction h with
  | nil st => omega
  | cons hs _ ih => have := tstep_decreases hs; omega

theorem weight_le_pow (c : TreeCfg) (r : Nat) : c.weight r ≤ (c.k + 1) ^ r := by
  induction r with
  | zero => simp [TreeCfg.weight]
  | succ r ih =>
    have hp : 1 ≤ (c.k + 1) ^ r := Nat.pos_of_ne_zero (by simp)
    show 1 + c.k * c.weight r ≤ (c.k + 1) ^ (r + 1)
    rw [Nat.pow_succ, Nat.mul_comm ((c.k + 1) ^ r), Nat.add_mul, Nat.one_mul]
    have := Nat.mul_le_mul_left c.k ih
    omega

/-! ### DNSSEC: nested local counters -/

theorem tryCands_spec (c : SigCaps) (hit : Option Nat) (rem i used spent : Nat) :
    let r := tryCands true c hit rem i used spent
    used ≤ r.1 ∧ r.1 - used ≤ c.cand - i ∧ r.1 - used ≤ rem ∧ (used ≤ c.rrset → r.1 ≤ c.rrset) ∧
    r.2.1 = spent + (r.1 - used) ∧ (spent ≤ c.budget → r.2.1 ≤ c.budget) := by
  induction rem generalizing i used spent with
  | zero => simp [tryCands]
  | succ n ih =>
    simp only [tryCands]
    by_cases h1 : c.cand ≤ i
    · simp [h1]
    · by_cases h2 : c.rrset ≤ used
      · simp [h1, h2]
      · by_cases h3 : c.budget ≤ spent
        · simp [h1, h2, h3]
        · by_cases h4 : hit = some i
          · simp only [h1, h2, h3, h4, decide_false, Bool.and_false, Bool.false_eq_true, if_false, if_true]
            omega
          · simp only [h1, h2, h3, h4, decide_false, Bool.and_false, Bool.false_eq_true, if_false]
            have := ih (i + 1) (used + 1) (spent + 1)
            simp only at this
            omega

theorem verifyRRset_spec (c : SigCaps) (sigs : List (Nat × Option Nat)) (used spent : Nat) :
    let r := verifyRRset true c sigs used spent
    used ≤ r.1 ∧ (used ≤ c.rrset → r.1 ≤ c.rrset) ∧ r.2.1 = spent + (r.1 - used) ∧
    (spent ≤ c.budget → r.2.1 ≤ c.budget) := by
  induction sigs generalizing used spent with
  | nil => simp [verifyRRset]
  | cons x t ih =>
    obtain ⟨k, hit⟩ := x
    simp only [verifyRRset]
    have h := tryCands_spec c hit k 0 used spent
    simp only at h
    generalize tryCands true c hit k 0 used spent = r at h
    obtain ⟨u, s, o⟩ := r
    simp only at h
    cases o with
    | failed =>
      simp only
      have := ih u s
      simp only at this
      omega
    | verified => simp only; omega
    | work kk => simp only; omega

/-! ### DNSSEC: the DS walk -/

theorem dsCands_spec (anch : Bool) (candCap budget : Nat) (hit : Option Nat) (rem i spent : Nat) (m : Bool) :
    let r := dsCands true anch candCap budget hit rem i spent m
    spent ≤ r.1 ∧ r.1 - spent ≤ candCap - i ∧ r.1 - spent ≤ rem ∧ (spent ≤ budget → r.1 ≤ budget) := by
  induction rem generalizing hit i spent m with
  | zero => simp [dsCands]
  | succ n ih =>
    simp only [dsCands]
    by_cases h1 : candCap ≤ i
    · simp [h1]
    · by_cases h2 : budget ≤ spent
      · simp [h1, h2]
      · by_cases h4 : hit = some i
        · subst h4
          simp only [h1, h2, decide_false, Bool.and_false, Bool.false_eq_true, if_false, if_true]
          cases anch
          · simp only [Bool.false_eq_true, if_false]
            omega
          · simp only [if_true]
            have := ih (some i) (i + 1) (spent + 1) true
            simp only at this
            omega
        · simp only [h1, h2, h4, decide_false, Bool.and_false, Bool.false_eq_true, if_false]
          have := ih hit (i + 1) (spent + 1) m
          simp only at this
          omega

theorem dsWalk_spec (anch : Bool) (candCap budget : Nat) (recs : List (Nat × Option Nat)) (spent : Nat) (any : Bool) :
    let r := dsWalk true anch candCap budget recs spent any
    spent ≤ r.1 ∧ (spent ≤ budget → r.1 ≤ budget) := by
  induction recs generalizing spent any with
  | nil => simp [dsWalk]
  | cons x t ih =>
    obtain ⟨k, hit⟩ := x
    simp only [dsWalk]
    have h := dsCands_spec anch candCap budget hit k 0 spent false
    simp only at h
    generalize dsCands true anch candCap budget hit k 0 spent false = r at h
    obtain ⟨s, mm, e⟩ := r
    simp only at h
    cases e with
    | some e => simp only; omega
    | none =>
      cases mm with
      | true =>
        simp only
        cases anch
        · simp only [Bool.false_eq_true, if_false]; omega
        · simp only [if_true]
          have := ih s true
          simp only at this
          omega
      | false =>
        simp only
        have := ih s any
        simp only at this
        omega

/-! ### the request-lifetime pin: one budget per tree -/

theorem debit_enforce_spec (p : Policy) (hm : p.mode = .enforce) (sh : Shared) (k : Kind) (latch : Bool)
    (hk : k.isAggregate = true) :
    (sh.ctr.get k < p.caps.get k → (debit p sh k latch).2 = .ok ∧
        (debit p sh k latch).1.ctr = sh.ctr.set k (sh.ctr.get k + 1)) ∧
    (p.caps.get k ≤ sh.ctr.get k → (debit p sh k latch).2 = .limit k (p.caps.get k) ∧
        (debit p sh k latch).1.ctr = sh.ctr) := by
  have hen : p.enabled = true := by simp [Policy.enabled, hm]
  constructor
  · intro hlt
    have h1 : ¬ (sh.ctr.get k ≥ p.caps.get k) := by omega
    simp [debit, lrun, lstep, hen, hk, hm, h1, setPC, resultOf]
  · intro hge
    have h1 : sh.ctr.get k ≥ p.caps.get k := hge
    simp [debit, lrun, lstep, hen, hk, hm, h1, setPC, resultOf]

theorem debit_local (p : Policy) (sh : Shared) (k : Kind) (latch : Bool) (hk : k.isAggregate = false) :
    debit p sh k latch = (sh, .ok) := by
  simp [debit, lrun, lstep, hk, setPC, resultOf]

/-- what a sequential enforce-mode debit of `k'` does to the counter of `k` and what it returns. -/
theorem debit_enforce_cases (p : Policy) (hm : p.mode = .enforce) (sh : Shared) (k k' : Kind) (latch : Bool) :
    ((debit p sh k' latch).2 = .ok ∧ k' = k ∧ k.isAggregate = true ∧ sh.ctr.get k < p.caps.get k ∧
        (debit p sh k' latch).1.ctr.get k = sh.ctr.get k + 1) ∨
    ((k' ≠ k ∨ (debit p sh k' latch).2 ≠ .ok ∨ k.isAggregate = false) ∧
        (debit p sh k' latch).1.ctr.get k = sh.ctr.get k) := by
  by_cases hagg : k'.isAggregate = true
  · have sp := debit_enforce_spec p hm sh k' latch hagg
    by_cases hlt : sh.ctr.get k' < p.caps.get k'
    · obtain ⟨h1, h2⟩ := sp.1 hlt
      by_cases e : k' = k
      · subst e
        left
        exact ⟨h1, rfl, hagg, hlt, by rw [h2, KTab.get_set_same]⟩
      · right
        refine ⟨Or.inl e, ?_⟩
        rw [h2, KTab.get_set_ne _ _ _ _ (fun x => e x.symm)]
    · obtain ⟨h1, h2⟩ := sp.2 (by omega)
      right
      refine ⟨Or.inr (Or.inl (by rw [h1]; simp)), by rw [h2]⟩
  · have hl := debit_local p sh k' latch (by simpa using hagg)
    right
    by_cases e : k' = k
    · subst e
      exact ⟨Or.inr (Or.inr (by simpa using hagg)), by rw [hl]⟩
    · exact ⟨Or.inl e, by rw [hl]⟩

def pinCtr : Pin → Kind → Nat
  | .live sh, k => sh.ctr.get k
  | _, _ => 0

theorem finish_ctr (p : Policy) (sh : Shared) : (finish p sh).ctr = sh.ctr := by
  unfold finish release
  split
  · rfl
  · simp only
    split <;> rfl

theorem pin_budget (p : Policy) (hm : p.mode = .enforce) (k : Kind) (hk : k.isAggregate = true)
    (ops : List PinOp) (pin : Pin) (h : pinCtr pin k ≤ p.caps.get k) :
    pinAccepted k ops (pinRun p pin ops).2 + pinCtr pin k ≤ p.caps.get k := by
  have hen : p.enabled = true := by simp [Policy.enabled, hm]
  induction ops generalizing pin with
  | nil => simp [pinAccepted]; exact h
  | cons op t ih =>
    cases op with
    | finish =>
      cases pin with
      | pending => simp only [pinRun, pinStep, pinAccepted]; have := ih .closed (by simp [pinCtr]); simpa [pinCtr] using this
      | closed => simp only [pinRun, pinStep, pinAccepted]; have := ih .closed (by simp [pinCtr]); simpa [pinCtr] using this
      | live sh =>
        simp only [pinRun, pinStep, pinAccepted]
        have := ih (.live (finish p sh)) (by simpa [pinCtr, finish_ctr] using h)
        simpa [pinCtr, finish_ctr] using this
    | debit k' latch =>
      -- the ledger the debit runs against, and the pin it leaves
      have key : ∀ sh : Shared, sh.ctr.get k ≤ p.caps.get k →
          ∀ (mk : Shared → Pin), (∀ s, pinCtr (mk s) k = s.ctr.get k) →
          pinAccepted k (.debit k' latch :: t)
            ((match debit p sh k' latch with
              | (s, .ok) => (mk s, PinRes.ok)
              | (s, .limit a b) => (mk s, PinRes.limit a b)).2 ::
             (pinRun p (match debit p sh k' latch with
              | (s, .ok) => (mk s, PinRes.ok)
              | (s, .limit a b) => (mk s, PinRes.limit a b)).1 t).2) + sh.ctr.get k ≤ p.caps.get k := by
        intro sh hsh mk hmk
        have hc := debit_enforce_cases p hm sh k k' latch
        generalize debit p sh k' latch = d at hc
        obtain ⟨s, r⟩ := d
        simp only at hc
        cases r with
        | ok =>
          simp only [pinAccepted]
          rcases hc with ⟨_, e, _, hlt, hs⟩ | ⟨hne, hs⟩
          · have := ih (mk s) (by rw [hmk]; omega)
            rw [hmk] at this
            simp only [e, if_true]
            omega
          · have := ih (mk s) (by rw [hmk]; omega)
            rw [hmk] at this
            rcases hne with hne | hne | hne
            · simp only [hne, if_false]; omega
            · exact absurd rfl hne
            · rw [hk] at hne; cases hne
        | limit a b =>
          simp only [pinAccepted]
          have hs : s.ctr.get k = sh.ctr.get k := by
            rcases hc with ⟨h1, _⟩ | ⟨_, hs⟩
            · cases h1
            · exact hs
          have := ih (mk s) (by rw [hmk]; omega)
          rw [hmk] at this
          omega
      cases pin with
      | closed =>
        simp only [pinRun, pinStep, pinAccepted]
        have := ih .closed (by simp [pinCtr])
        simpa [pinCtr] using this
      | pending =>
        simp only [pinRun, pinStep, hen, if_true]
        have hk0 := key {} (by simp [KTab.get_const]) Pin.live (fun s => rfl)
        have e0 : ({} : Shared).ctr.get k = 0 := by simp [KTab.get_const]
        rw [e0] at hk0
        exact hk0
      | live sh =>
        simp only [pinRun, pinStep]
        exact key sh h Pin.live (fun s => rfl)

/-! ### forwarder mode -/

theorem apiStep_outbound (p : Policy) (hm : p.mode = .enforce) (sh : Shared) (op : ApiOp) :
    ((apiStep p sh op).2 = .ok ∧ op.isOutboundDebit = true ∧ sh.ctr.get .outbound < p.caps.get .outbound ∧
        (apiStep p sh op).1.ctr.get .outbound = sh.ctr.get .outbound + 1) ∨
    ((op.isOutboundDebit = false ∨ (apiStep p sh op).2 ≠ .ok) ∧
        (apiStep p sh op).1.ctr.get .outbound = sh.ctr.get .outbound) := by
  cases op with
  | debit k latch =>
    simp only [apiStep]
    by_cases hagg : k.isAggregate = true
    · simp only [hagg, if_true]
      rcases debit_enforce_cases p hm sh .outbound k latch with ⟨h1, e, _, hlt, hs⟩ | ⟨hne, hs⟩
      · subst e
        left
        exact ⟨h1, rfl, hlt, hs⟩
      · right
        refine ⟨?_, hs⟩
        rcases hne with hne | hne | hne
        · left
          cases k <;> first | rfl | exact absurd rfl hne
        · exact Or.inr hne
        · cases hne
    · have : k.isAggregate = false := by simpa using hagg
      simp only [this, Bool.false_eq_true, if_false]
      right
      constructor
      · left
        cases k <;> first | rfl | exact absurd rfl hagg
      · trivial
  | check k used latch =>
    right
    refine ⟨Or.inl rfl, ?_⟩
    simp only [apiStep]
    split
    · rfl
    · unfold checkLocal markExhausted
      split
      · rfl
      · split
        · rfl
        · split
          · split <;> rfl
          · rfl
  | reject k latch =>
    right
    refine ⟨Or.inl rfl, ?_⟩
    simp only [apiStep]
    split
    · rfl
    · unfold reject markExhausted
      split
      · rfl
      · split <;> rfl
  | enf => right; exact ⟨Or.inl rfl, rfl⟩

theorem runOps_outbound (p : Policy) (hm : p.mode = .enforce) (ops : List ApiOp) (sh : Shared)
    (h : sh.ctr.get .outbound ≤ p.caps.get .outbound) :
    (runOps p sh ops).2.1 + sh.ctr.get .outbound ≤ p.caps.get .outbound := by
  induction ops generalizing sh with
  | nil => simpa [runOps] using h
  | cons op t ih =>
    simp only [runOps]
    have hc := apiStep_outbound p hm sh op
    generalize apiStep p sh op = r at hc
    obtain ⟨sh', res⟩ := r
    simp only at hc
    cases res with
    | ok =>
      simp only
      rcases hc with ⟨_, ho, hlt, hs⟩ | ⟨hne, hs⟩
      · have := ih sh' (by omega)
        simp only [ho, if_true]
        omega
      · have := ih sh' (by omega)
        rcases hne with hne | hne
        · simp only [hne, Bool.false_eq_true, if_false]; omega
        · exact absurd rfl hne
    | limit a b => simp only; omega

/-! ### hashed denial: NSEC3 hash accounting -/

theorem debit_n3_cases (p : Policy) (hm : p.mode = .enforce) (sh : Shared) :
    ((debit p sh .nsec3Hash true).2 = .ok ∧ sh.ctr.get .nsec3Hash < p.caps.get .nsec3Hash ∧
        (debit p sh .nsec3Hash true).1.ctr.get .nsec3Hash = sh.ctr.get .nsec3Hash + 1) ∨
    ((debit p sh .nsec3Hash true).2 = .limit .nsec3Hash (p.caps.get .nsec3Hash) ∧
        p.caps.get .nsec3Hash ≤ sh.ctr.get .nsec3Hash ∧
        (debit p sh .nsec3Hash true).1.ctr.get .nsec3Hash = sh.ctr.get .nsec3Hash) := by
  have sp := debit_enforce_spec p hm sh .nsec3Hash true rfl
  by_cases hlt : sh.ctr.get .nsec3Hash < p.caps.get .nsec3Hash
  · obtain ⟨h1, h2⟩ := sp.1 hlt
    left
    exact ⟨h1, hlt, by rw [h2, KTab.get_set_same]⟩
  · obtain ⟨h1, h2⟩ := sp.2 (by omega)
    right
    exact ⟨h1, by omega, by rw [h2]⟩

/-- one hash request in enforce mode: either free (memo hit), or paid (+1, below the cap), or refused at the cap. -/
theorem n3Hash_cases (p : Policy) (hm : p.mode = .enforce) (mc : Nat) (sh : Shared) (memo : N3Memo) (key : String) :
    ((n3Hash p mc sh memo key).2.2 = .ok ∧ (n3Hash p mc sh memo key).1.ctr.get .nsec3Hash = sh.ctr.get .nsec3Hash ∧
      (∃ m, memo = some m ∧ key ∈ m)) ∨
    ((n3Hash p mc sh memo key).2.2 = .ok ∧ sh.ctr.get .nsec3Hash < p.caps.get .nsec3Hash ∧
      (n3Hash p mc sh memo key).1.ctr.get .nsec3Hash = sh.ctr.get .nsec3Hash + 1) ∨
    ((n3Hash p mc sh memo key).2.2 = .limit .nsec3Hash (p.caps.get .nsec3Hash) ∧ p.caps.get .nsec3Hash ≤ sh.ctr.get .nsec3Hash ∧
      (n3Hash p mc sh memo key).1.ctr.get .nsec3Hash = sh.ctr.get .nsec3Hash) := by
  have hd := debit_n3_cases p hm sh
  generalize hdeb : debit p sh .nsec3Hash true = d at hd
  obtain ⟨d1, d2⟩ := d
  simp only at hd
  cases memo with
  | none =>
    rcases hd with ⟨h1, h2, h3⟩ | ⟨h1, h2, h3⟩
    · right; left
      subst h1
      exact ⟨by simp [n3Hash, hdeb], h2, by simp [n3Hash, hdeb, h3]⟩
    · right; right
      subst h1
      exact ⟨by simp [n3Hash, hdeb], h2, by simp [n3Hash, hdeb, h3]⟩
  | some m =>
    by_cases hc : key ∈ m
    · left
      exact ⟨by simp [n3Hash, hc], by simp [n3Hash, hc], m, rfl, hc⟩
    · rcases hd with ⟨h1, h2, h3⟩ | ⟨h1, h2, h3⟩
      · right; left
        subst h1
        exact ⟨by simp [n3Hash, hc, hdeb], h2, by simp [n3Hash, hc, hdeb, h3]⟩
      · right; right
        subst h1
        exact ⟨by simp [n3Hash, hc, hdeb], h2, by simp [n3Hash, hc, hdeb, h3]⟩

/-- a proof's hash requests never take the tree's NSEC3 counter past its cap, and never lower it. -/
theorem n3Run_bounds (p : Policy) (hm : p.mode = .enforce) (mc : Nat) (names : List String) :
    ∀ (seen : List String) (sh : Shared) (memo : N3Memo),
      sh.ctr.get .nsec3Hash ≤ (n3Run p mc names seen sh memo).1.ctr.get .nsec3Hash ∧
      (sh.ctr.get .nsec3Hash ≤ p.caps.get .nsec3Hash →
        (n3Run p mc names seen sh memo).1.ctr.get .nsec3Hash ≤ p.caps.get .nsec3Hash) := by
  induction names with
  | nil => intro seen sh memo; simp [n3Run]
  | cons n t ih =>
    intro seen sh memo
    by_cases hs : n ∈ seen
    · simp only [n3Run, List.contains_eq_mem, hs, decide_true, if_true]
      exact ih seen sh memo
    · have hc := n3Hash_cases p hm mc sh memo n
      generalize hh : n3Hash p mc sh memo n = r at hc
      obtain ⟨s1, m1, r1⟩ := r
      simp only at hc
      simp only [n3Run, List.contains_eq_mem, hs, decide_false, hh, Bool.false_eq_true, ↓reduceIte]
      rcases hc with ⟨h1, h2, _⟩ | ⟨h1, h2, h3⟩ | ⟨h1, h2, h3⟩
      · subst h1
        have := ih (n :: seen) s1 m1
        simp only
        constructor
        · omega
        · intro hle; exact this.2 (by omega)
      · subst h1
        have := ih (n :: seen) s1 m1
        simp only
        constructor
        · omega
        · intro hle; exact this.2 (by omega)
      · subst h1
        simp only
        constructor
        · omega
        · intro hle; omega


/-- without a memo every name the evaluator has not seen is paid for: the exact cost of a proof. -/
theorem n3Run_none_spec (p : Policy) (hm : p.mode = .enforce) (mc : Nat) (names : List String) :
    ∀ (seen : List String) (sh : Shared), names.Nodup → (∀ n ∈ names, n ∉ seen) →
      sh.ctr.get .nsec3Hash ≤ p.caps.get .nsec3Hash →
      (sh.ctr.get .nsec3Hash + names.length ≤ p.caps.get .nsec3Hash →
        (n3Run p mc names seen sh none).2.2 = .ok ∧
        (n3Run p mc names seen sh none).1.ctr.get .nsec3Hash = sh.ctr.get .nsec3Hash + names.length) ∧
      (p.caps.get .nsec3Hash < sh.ctr.get .nsec3Hash + names.length →
        (n3Run p mc names seen sh none).2.2 = .limit .nsec3Hash (p.caps.get .nsec3Hash) ∧
        (n3Run p mc names seen sh none).1.ctr.get .nsec3Hash = p.caps.get .nsec3Hash) := by
  induction names with
  | nil => intro seen sh _ _ hle; simp [n3Run]; omega
  | cons n t ih =>
    intro seen sh hnd hdis hle
    have hs : n ∉ seen := hdis n (by simp)
    have hnd' : t.Nodup := (List.nodup_cons.mp hnd).2
    have hnt : n ∉ t := (List.nodup_cons.mp hnd).1
    have hdis' : ∀ x ∈ t, x ∉ n :: seen := by
      intro x hx hmem
      rcases List.mem_cons.mp hmem with e | e
      · exact hnt (e ▸ hx)
      · exact hdis x (by simp [hx]) e
    have hc := n3Hash_cases p hm mc sh none n
    generalize hh : n3Hash p mc sh none n = r at hc
    obtain ⟨s1, m1, r1⟩ := r
    have hm1 : m1 = none := by
      have : (n3Hash p mc sh none n).2.1 = none := by simp [n3Hash]
      rw [hh] at this; exact this
    subst hm1
    simp only at hc
    simp only [n3Run, List.contains_eq_mem, hs, decide_false, hh, Bool.false_eq_true, ↓reduceIte, List.length_cons]
    rcases hc with ⟨_, _, m, hmm, _⟩ | ⟨h1, h2, h3⟩ | ⟨h1, h2, h3⟩
    · cases hmm
    · subst h1
      have := ih (n :: seen) s1 hnd' hdis' (by omega)
      simp only
      constructor
      · intro hfit
        obtain ⟨a, b⟩ := this.1 (by omega)
        exact ⟨a, by omega⟩
      · intro hover
        exact this.2 (by omega)
    · subst h1
      simp only
      constructor
      · intro hfit; omega
      · intro _; exact ⟨trivial, by omega⟩

theorem n3Suffixes_head (base : String) (labels : List String) :
    ∃ rest, n3Suffixes base labels = n3Full base labels :: rest := by
  cases labels <;> simp [n3Suffixes, n3Full]

theorem n3Plan_head (nodata : Bool) (ring : List String) (full : String) (rest : List String) :
    ∃ t, (n3Plan nodata ring (full :: rest)).1 = full :: t := by
  unfold n3Plan
  by_cases hc : full ∈ ring
  · simp [hc]
  · simp only [List.contains_eq_mem, hc, decide_false, n3Climb, Bool.false_eq_true, ↓reduceIte]
    cases (n3Climb ring rest).2 <;> simp

/-- the first name of a proof, when the memo does not hold it, is paid for before any verdict. -/
theorem n3Run_head_paid (p : Policy) (hm : p.mode = .enforce) (mc : Nat) (n : String) (t : List String)
    (sh : Shared) (memo : N3Memo) (hfresh : ∀ m, memo = some m → n ∉ m)
    (hok : (n3Run p mc (n :: t) [] sh memo).2.2 = .ok) :
    sh.ctr.get .nsec3Hash < (n3Run p mc (n :: t) [] sh memo).1.ctr.get .nsec3Hash := by
  have hc := n3Hash_cases p hm mc sh memo n
  generalize hh : n3Hash p mc sh memo n = r at hc
  obtain ⟨s1, m1, r1⟩ := r
  simp only at hc
  simp only [n3Run, List.contains_nil, hh, Bool.false_eq_true, ↓reduceIte] at hok ⊢
  rcases hc with ⟨_, _, m, hmm, hin⟩ | ⟨h1, h2, h3⟩ | ⟨h1, h2, h3⟩
  · exact absurd hin (hfresh m hmm)
  · subst h1
    have := (n3Run_bounds p hm mc t [n] s1 m1).1
    simp only at hok ⊢
    omega
  · subst h1
    simp at hok

end SdnsVerif.Lemmas.Work
