import SdnsVerif.Model.Dnssec
/-! Helper lemmas for the C01 property theorems (core Lean only). -/
namespace SdnsVerif.Lemmas.Dnssec
open SdnsVerif.Model.Dnssec

/-! ### sorting keeps the elements -/

theorem mem_insertBy {α : Type} (f : α → Nat) (x a : α) (l : List α) :
    a ∈ insertBy f x l ↔ a = x ∨ a ∈ l := by
  induction l with
  | nil => simp [insertBy]
  | cons y t ih =>
    unfold insertBy
    split
    · simp
    · simp [ih]; constructor
      · rintro (h | h | h) <;> simp [h]
      · rintro (h | h | h) <;> simp [h]

theorem mem_sortBy {α : Type} (f : α → Nat) (a : α) (l : List α) : a ∈ sortBy f l ↔ a ∈ l := by
  induction l with
  | nil => simp [sortBy]
  | cons x t ih => simp [sortBy, mem_insertBy, ih]

/-! ### names -/

theorem nameInZone_iff (n z : Name) : nameInZone n z = true ↔ ∃ rest, n = z ++ rest := by
  unfold nameInZone
  rw [List.isPrefixOf_iff_prefix]
  constructor
  · rintro ⟨t, h⟩; exact ⟨t, h.symm⟩
  · rintro ⟨t, h⟩; exact ⟨t, h.symm⟩

/-! ### one signature -/

/-- everything `verifyOneSig` checked before it trusted the public-key operation. -/
structure Bound (now : Int) (k : Key) (s : Sig) (set : List RR) : Prop where
  tag : k.tag = s.tag
  alg : k.alg = s.alg
  cls : k.cls = s.cls
  owner : k.owner = s.signer
  proto : k.proto = 3
  zone : zoneFlag k.flags = true
  window : inWindow now s = true
  algOk : supportedAlg s.alg = true
  fits : sigMatchesRRset s set = true

theorem verifyOneSig_ok {sv : Key → Sig → List RR → Bool} {now : Int} {keys : List Key} {set : List RR} {s : Sig}
    (h : verifyOneSig sv now keys set s = .ok) :
    ∃ k ∈ keys, Bound now k s set ∧ sv k s set = true := by
  unfold verifyOneSig at h
  simp only at h
  split at h; · cases h
  split at h; · cases h
  split at h; · cases h
  split at h; · cases h
  split at h; · cases h
  split at h; · cases h
  split at h
  · rename_i hw ha hm _ hany
    rw [List.any_eq_true] at hany
    obtain ⟨k, hk, hsv⟩ := hany
    rw [List.mem_filter] at hk
    obtain ⟨hk, hus⟩ := hk
    rw [List.mem_filter] at hk
    unfold usableSigCandidate at hus
    simp only [Bool.and_eq_true, beq_iff_eq, and_assoc] at hus
    obtain ⟨h1, h2, h3, h4, h5, h6⟩ := hus
    refine ⟨k, hk.1, ⟨h1, h2, h3, h4, h5, h6, ?_, ?_, ?_⟩, hsv⟩
    · simpa using hw
    · simpa using ha
    · simpa using hm
  · cases h

theorem trySigs_ok {sv : Key → Sig → List RR → Bool} {now : Int} {keys : List Key} {set : List RR} :
    ∀ (l : List Sig) (e : Err), trySigs sv now keys set l e = .ok →
      ∃ s ∈ l, verifyOneSig sv now keys set s = .ok := by
  intro l
  induction l with
  | nil => intro e h; simp [trySigs] at h
  | cons s t ih =>
    intro e h
    unfold trySigs at h
    split at h
    · rename_i hok; exact ⟨s, by simp, hok⟩
    · obtain ⟨s', hs', h'⟩ := ih _ h
      exact ⟨s', by simp [hs'], h'⟩

theorem checkGroup_ok {sv : Key → Sig → List RR → Bool} {now : Int} {keys : List Key} {sigs : List Sig} {g : Group}
    (h : checkGroup sv now keys sigs g = .ok) :
    ∃ s ∈ sigs, (s.owner = g.key.1 ∧ s.covered = g.key.2.1 ∧ s.cls = g.key.2.2) ∧
      verifyOneSig sv now keys g.set s = .ok := by
  unfold checkGroup at h
  simp only at h
  split at h; · cases h
  split at h; · cases h
  obtain ⟨s, hs, hok⟩ := trySigs_ok _ _ h
  rw [mem_sortBy] at hs
  unfold sigsFor at hs
  rw [List.mem_filter] at hs
  simp only [Bool.and_eq_true, beq_iff_eq] at hs
  exact ⟨s, hs.1, ⟨hs.2.1.1, hs.2.1.2, hs.2.2⟩, hok⟩

theorem checkGroups_ok {sv : Key → Sig → List RR → Bool} {now : Int} {keys : List Key} {sigs : List Sig} :
    ∀ gs : List Group, checkGroups sv now keys sigs gs = .ok → ∀ g ∈ gs, checkGroup sv now keys sigs g = .ok := by
  intro gs
  induction gs with
  | nil => intro _ g hg; simp at hg
  | cons g t ih =>
    intro h g' hg'
    unfold checkGroups at h
    split at h
    · rename_i hok
      rcases List.mem_cons.mp hg' with rfl | hin
      · exact hok
      · exact ih h g' hin
    · cases h

/-! ### the RRset map -/

theorem groupsAux_complete (all : List RR) :
    ∀ (l : List RR) (seen : List GKey) (r : RR), r ∈ l →
      keyOf r ∈ seen ∨ ∃ g ∈ groupsAux all l seen, g.key = keyOf r ∧ g.set = rrsetOf all (keyOf r) := by
  intro l
  induction l with
  | nil => intro _ r hr; simp at hr
  | cons x t ih =>
    intro seen r hr
    unfold groupsAux
    by_cases hc : seen.contains (keyOf x) = true
    · simp only [hc, if_true]
      rcases List.mem_cons.mp hr with rfl | hin
      · left; simpa using hc
      · exact ih seen r hin
    · simp only [hc]
      rcases List.mem_cons.mp hr with rfl | hin
      · right; exact ⟨{ rank := r.rank, key := keyOf r, set := rrsetOf all (keyOf r) }, by simp, rfl, rfl⟩
      · rcases ih (keyOf x :: seen) r hin with hs | ⟨g, hg, h1, h2⟩
        · rcases List.mem_cons.mp hs with heq | hs'
          · right
            exact ⟨{ rank := x.rank, key := keyOf x, set := rrsetOf all (keyOf x) }, by simp, by simp [heq], by simp [heq]⟩
          · left; exact hs'
        · right; exact ⟨g, by simp [hg], h1, h2⟩

theorem groups_complete (coll : List RR) (r : RR) (hr : r ∈ coll) :
    ∃ g ∈ groups coll, g.key = keyOf r ∧ g.set = rrsetOf coll (keyOf r) := by
  rcases groupsAux_complete coll coll [] r hr with h | h
  · simp at h
  · exact h

theorem mem_rrsetOf (coll : List RR) (k : GKey) (x : RR) : x ∈ rrsetOf coll k ↔ x ∈ coll ∧ keyOf x = k := by
  unfold rrsetOf; simp [List.mem_filter]

/-- what a matching signature says about the RRset key it was checked against. -/
theorem sigMatches_key {s : Sig} {coll : List RR} {k : GKey} (h : sigMatchesRRset s (rrsetOf coll k) = true) :
    s.owner = k.1 ∧ s.covered = k.2.1 ∧ s.cls = k.2.2 ∧ s.labels ≤ k.1.length ∧ nameInZone k.1 s.signer = true ∧
      isRRset (rrsetOf coll k) = true ∧ expandedDenial s k.1 = false := by
  unfold sigMatchesRRset at h
  split at h
  · cases h
  · rename_i hd tl heq
    have hmem : hd ∈ rrsetOf coll k := by rw [heq]; simp
    have hk := ((mem_rrsetOf coll k hd).mp hmem).2
    simp only [Bool.and_eq_true, beq_iff_eq, decide_eq_true_eq, and_assoc, Bool.not_eq_true'] at h
    obtain ⟨hx, h0, h1, h2, h3, h4, h5⟩ := h
    unfold keyOf at hk
    subst hk
    exact ⟨h4.symm, h2.symm, h1.symm, h3, h5, heq ▸ h0, hx⟩

/-! ### DS -/

theorem dsStep_none {dm : Key → DS → Bool} {keys : List Key} {d : DS} (h : dsStep dm keys d = none) :
    ∃ k ∈ keys, usableDSCandidate d k = true ∧ d.digestOk = true ∧ dm k d = true := by
  unfold dsStep at h
  simp only at h
  split at h; · cases h
  split at h; · cases h
  split at h; · cases h
  split at h
  · rename_i _ _ hd hany
    rw [List.any_eq_true] at hany
    obtain ⟨k, hk, hdm⟩ := hany
    rw [List.mem_filter] at hk
    obtain ⟨hk, hus⟩ := hk
    rw [List.mem_filter] at hk
    exact ⟨k, hk.1, hus, by simpa using hd, hdm⟩
  · cases h

theorem dsLoop_none {dm : Key → DS → Bool} {keys : List Key} :
    ∀ (l : List DS) (last : Option Err), dsLoop dm keys l last = none →
      ∃ d ∈ l, supportedDS d = true ∧ dsStep dm keys d = none := by
  intro l
  induction l with
  | nil => intro last h; simp [dsLoop] at h
  | cons d t ih =>
    intro last h
    unfold dsLoop at h
    split at h
    · obtain ⟨d', hd', h'⟩ := ih _ h
      exact ⟨d', by simp [hd'], h'⟩
    · rename_i hs
      split at h
      · rename_i hstep
        exact ⟨d, by simp, by simpa using hs, hstep⟩
      · obtain ⟨d', hd', h'⟩ := ih _ h
        exact ⟨d', by simp [hd'], h'⟩

theorem dsLoop_unsupported {dm : Key → DS → Bool} {keys : List Key} :
    ∀ (l : List DS) (last : Option Err), (∀ d ∈ l, supportedDS d = false) → dsLoop dm keys l last = some last := by
  intro l
  induction l with
  | nil => intro last _; simp [dsLoop]
  | cons d t ih =>
    intro last h
    unfold dsLoop
    have hd := h d (by simp)
    simp only [hd, Bool.not_false, if_true]
    exact ih last (fun x hx => h x (by simp [hx]))

theorem mem_anchoredKeys (dm : Key → DS → Bool) (keys : List Key) (dss : List DS) (k : Key) :
    k ∈ anchoredKeys dm keys dss ↔
      k ∈ keys ∧ ∃ d ∈ dss, supportedDS d = true ∧ usableDSCandidate d k = true ∧ d.digestOk = true ∧ dm k d = true := by
  unfold anchoredKeys
  rw [List.mem_filter, List.any_eq_true]
  constructor
  · rintro ⟨hk, d, hd, h⟩
    simp only [Bool.and_eq_true, and_assoc] at h
    exact ⟨hk, d, hd, h.1, h.2.1, h.2.2.1, h.2.2.2⟩
  · rintro ⟨hk, d, hd, h1, h2, h3, h4⟩
    exact ⟨hk, d, hd, by simp [h1, h2, h3, h4]⟩

/-! ### the per-signer loop -/

theorem answerLoop_insecure (q : Name) :
    ∀ (cs : List Cand) (e : Err), answerLoop q cs e = .acceptedInsecure →
      ∃ c ∈ cs, validateSigner c.signerEmpty c.signer q = true ∧ c.findDS = some [] ∧ c.zoneSecure = false := by
  intro cs
  induction cs with
  | nil => intro e h; simp [answerLoop] at h
  | cons c t ih =>
    intro e h
    unfold answerLoop at h
    split at h
    · obtain ⟨c', hc', h'⟩ := ih _ h; exact ⟨c', by simp [hc'], h'⟩
    · rename_i hv
      split at h
      · obtain ⟨c', hc', h'⟩ := ih _ h; exact ⟨c', by simp [hc'], h'⟩
      · rename_i ds hds
        split at h
        · rename_i hempty
          split at h
          · obtain ⟨c', hc', h'⟩ := ih _ h; exact ⟨c', by simp [hc'], h'⟩
          · rename_i hzs
            refine ⟨c, by simp, by simpa using hv, ?_, by simpa using hzs⟩
            have : ds = [] := by simpa using hempty
            rw [hds, this]
        · split at h
          · obtain ⟨c', hc', h'⟩ := ih _ h; exact ⟨c', by simp [hc'], h'⟩
          · cases h
          · split at h <;> cases h

theorem answerLoop_validated (q : Name) :
    ∀ (cs : List Cand) (e : Err) (ad : Bool), answerLoop q cs e = .validated ad →
      ∃ c ∈ cs, validateSigner c.signerEmpty c.signer q = true ∧
        (∃ ds, c.findDS = some ds ∧ ds ≠ []) ∧
        ((c.verify = .verified ∧ c.wildcard = .ok ∧ ad = c.wildcardSecure) ∨ (c.verify = .insecure ∧ ad = false)) := by
  intro cs
  induction cs with
  | nil => intro e ad h; simp [answerLoop] at h
  | cons c t ih =>
    intro e ad h
    unfold answerLoop at h
    split at h
    · obtain ⟨c', hc', h'⟩ := ih _ _ h; exact ⟨c', by simp [hc'], h'⟩
    · rename_i hv
      split at h
      · obtain ⟨c', hc', h'⟩ := ih _ _ h; exact ⟨c', by simp [hc'], h'⟩
      · rename_i ds hds
        split at h
        · split at h
          · obtain ⟨c', hc', h'⟩ := ih _ _ h; exact ⟨c', by simp [hc'], h'⟩
          · cases h
        · rename_i hne
          have hne' : ds ≠ [] := by simpa using hne
          split at h
          · obtain ⟨c', hc', h'⟩ := ih _ _ h; exact ⟨c', by simp [hc'], h'⟩
          · rename_i hver
            injection h with h
            exact ⟨c, by simp, by simpa using hv, ⟨ds, hds, hne'⟩, Or.inr ⟨hver, h.symm⟩⟩
          · rename_i hver
            split at h
            · cases h
            · rename_i hw
              injection h with h
              exact ⟨c, by simp, by simpa using hv, ⟨ds, hds, hne'⟩, Or.inl ⟨hver, hw, h.symm⟩⟩

/-! ### AD -/

theorem chaseAD_true (outer : Bool) (hops : List Bool) :
    chaseAD outer hops = true ↔ outer = true ∧ ∀ h ∈ hops, h = true := by
  unfold chaseAD
  induction hops generalizing outer with
  | nil => simp
  | cons h t ih =>
    simp only [List.foldl_cons, List.mem_cons, forall_eq_or_imp]
    rw [ih]
    cases outer <;> cases h <;> simp

end SdnsVerif.Lemmas.Dnssec
