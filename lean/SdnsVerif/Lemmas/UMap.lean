import SdnsVerif.Model.UMap
/-!
Helper lemmas for C16 (open addressing with linear probing and backward-shift
deletion).  Plan: DESIGN.md Appendix A.1.  Cyclic distance is piecewise
(`dist`), never `%`, so the arithmetic leaves are closed by `grind`/`omega`.
-/
namespace SdnsVerif.Lemmas.UMap
open SdnsVerif.Model.UMap

variable {V : Type} [Inhabited V]

/-! ### slot arrays as functions -/

omit [Inhabited V] in
theorem size_wr (a : Slots V) (i : Nat) (x : Nat × V) : (wr a i x).size = a.size := by
  simp [wr]

theorem rd_wr (a : Slots V) (i j : Nat) (x : Nat × V) :
    rd (wr a i x) j = if i = j ∧ i < a.size then x else rd a j := by
  simp only [rd, wr, Array.getD_eq_getD_getElem?, Array.getElem?_setIfInBounds]
  grind

theorem rd_wr_same (a : Slots V) (i : Nat) (x : Nat × V) (h : i < a.size) : rd (wr a i x) i = x := by
  rw [rd_wr]; simp [h]

theorem rd_wr_ne (a : Slots V) (i j : Nat) (x : Nat × V) (h : i ≠ j) : rd (wr a i x) j = rd a j := by
  rw [rd_wr]; simp [h]

theorem rd_oob (a : Slots V) (i : Nat) (h : a.size ≤ i) : rd a i = (0, default) := by
  simp [rd, Array.getD_eq_getD_getElem?, Array.getElem?_eq_none h]

theorem rd_replicate (n i : Nat) : rd (Array.replicate n ((0, default) : Nat × V)) i = (0, default) := by
  simp only [rd, Array.getD_eq_getD_getElem?, Array.getElem?_replicate]
  split <;> rfl

/-- key stored in slot `i` (0 = empty) -/
def key (a : Slots V) (i : Nat) : Nat := (rd a i).1

/-! ### cyclic arithmetic -/

/-- number of `next` steps from `a` to `b` in a ring of `n` slots. -/
def dist (n a b : Nat) : Nat := if a ≤ b then b - a else b + n - a

theorem dist_self (n a : Nat) : dist n a a = 0 := by simp [dist]

theorem dist_lt {n a b : Nat} (ha : a < n) (_hb : b < n) : dist n a b < n := by grind [dist]

theorem dist_inj {n h x y : Nat} (hh : h < n) (hx : x < n) (hy : y < n)
    (e : dist n h x = dist n h y) : x = y := by grind [dist]

theorem dist_eq_zero {n a b : Nat} (ha : a < n) (hb : b < n) (e : dist n a b = 0) : a = b := by
  grind [dist]

theorem next_lt {n i : Nat} (hn : 0 < n) : next n i < n := by grind [next]

theorem dist_next {n h c : Nat} (hh : h < n) (hc : c < n) (h1 : dist n h c + 1 < n) :
    dist n h (next n c) = dist n h c + 1 := by grind [dist, next]

theorem dist_next_self {n c : Nat} (hc : c < n) (h1 : 1 < n) : dist n c (next n c) = 1 := by
  grind [dist, next]

/-- the Go test of `backwardShiftDelete` is "`k` lies cyclically in `(i, j]`". -/
theorem goBetween_iff {n i k j : Nat} (hi : i < n) (hk : k < n) (hj : j < n) :
    goBetween i k j = true ↔ (0 < dist n i k ∧ dist n i k ≤ dist n i j) := by
  unfold goBetween
  split <;> simp only [decide_eq_true_eq] <;> grind [dist]

/-- transfer of distances between two origins on the same arc. -/
theorem dist_add {n a b c : Nat} (ha : a < n) (hb : b < n) (hc : c < n)
    (h : dist n a b ≤ dist n a c) : dist n a c = dist n a b + dist n b c := by grind [dist]

/-! ### the invariant -/

/-- `I₁ ∧ I₂ ∧ free slot` of Appendix A.1 for a slot array and an index function. -/
structure SInv (idx : Nat → Nat → Nat) (a : Slots V) : Prop where
  nodup : ∀ i j, i < a.size → j < a.size → key a i ≠ 0 → key a i = key a j → i = j
  path : ∀ j, j < a.size → key a j ≠ 0 → ∀ x, x < a.size →
    dist a.size (idx a.size (key a j)) x < dist a.size (idx a.size (key a j)) j → key a x ≠ 0
  free : ∃ e, e < a.size ∧ key a e = 0

/-- `I₂` with the hole `i` read as occupied. -/
def PathH (idx : Nat → Nat → Nat) (a : Slots V) (i : Nat) : Prop :=
  ∀ j, j < a.size → key a j ≠ 0 → ∀ x, x < a.size →
    dist a.size (idx a.size (key a j)) x < dist a.size (idx a.size (key a j)) j → key a x ≠ 0 ∨ x = i

/-- the index function stays inside the table -/
def IdxOk (idx : Nat → Nat → Nat) : Prop := ∀ n k, 0 < n → idx n k < n

/-! ### probing -/

theorem probe_aux (a : Slots V) (k h : Nat) (hh : h < a.size) :
    ∀ f c t, t + f = a.size → (0 < f → c < a.size ∧ dist a.size h c = t) →
      (∀ x, x < a.size → dist a.size h x < t → key a x ≠ 0 ∧ key a x ≠ k) →
      (∀ i, probe a k f c = .found i → i < a.size ∧ key a i = k) ∧
      (∀ e, probe a k f c = .empty e → e < a.size ∧ key a e = 0 ∧ k ≠ 0 ∧
        ∀ x, x < a.size → dist a.size h x < dist a.size h e → key a x ≠ 0 ∧ key a x ≠ k) ∧
      (probe a k f c = .full → ∀ x, x < a.size → key a x ≠ 0 ∧ key a x ≠ k) := by
  intro f
  induction f with
  | zero =>
    intro c t ht _ hall
    refine ⟨by simp [probe], by simp [probe], ?_⟩
    intro _ x hx
    exact hall x hx (by have := dist_lt hh hx; omega)
  | succ f ih =>
    intro c t ht hc hall
    obtain ⟨hcn, hdc⟩ := hc (by omega)
    unfold probe
    by_cases h1 : (rd a c).1 = k
    · simp only [h1, if_true]
      refine ⟨?_, by simp, by simp⟩
      intro i hi
      injection hi with hi
      subst hi
      exact ⟨hcn, h1⟩
    · simp only [h1, if_false]
      by_cases h2 : (rd a c).1 = 0
      · simp only [h2, if_true]
        refine ⟨by simp, ?_, by simp⟩
        intro e he
        injection he with he
        subst he
        refine ⟨hcn, h2, ?_, ?_⟩
        · intro hk0; exact h1 (by rw [h2, hk0])
        · intro x hx hlt; exact hall x hx (by omega)
      · simp only [h2, if_false]
        have hall' : ∀ x, x < a.size → dist a.size h x < t + 1 → key a x ≠ 0 ∧ key a x ≠ k := by
          intro x hx hlt
          by_cases hxt : dist a.size h x < t
          · exact hall x hx hxt
          · have : x = c := dist_inj hh hx hcn (by omega)
            subst this
            exact ⟨h2, h1⟩
        have := ih (next a.size c) (t + 1) (by omega)
          (by intro hf; exact ⟨next_lt (by omega), by rw [dist_next hh hcn (by omega), hdc]⟩) hall'
        exact this

/-- **Probing finds exactly the stored key.** Under the invariant, the probe
from the ideal slot with `len` steps of fuel returns the slot of `k` when `k`
is stored, and otherwise the first empty slot of `k`'s path; it never runs out
of fuel. -/
theorem probe_spec {idx : Nat → Nat → Nat} {a : Slots V} (hi : IdxOk idx) (inv : SInv idx a)
    (k : Nat) (hk : k ≠ 0) :
    (∀ i, probe a k a.size (idx a.size k) = .found i → i < a.size ∧ key a i = k) ∧
    (∀ e, probe a k a.size (idx a.size k) = .empty e → e < a.size ∧ key a e = 0 ∧
        (∀ x, x < a.size → dist a.size (idx a.size k) x < dist a.size (idx a.size k) e → key a x ≠ 0) ∧
        ∀ p, p < a.size → key a p ≠ k) ∧
    probe a k a.size (idx a.size k) ≠ .full := by
  obtain ⟨e0, he0, hke0⟩ := inv.free
  have hn : 0 < a.size := by omega
  have hh := hi a.size k hn
  have aux := probe_aux a k (idx a.size k) hh a.size (idx a.size k) 0 (by omega)
    (by intro _; exact ⟨hh, dist_self _ _⟩) (by intro x _ hlt; omega)
  refine ⟨aux.1, ?_, ?_⟩
  · intro e he
    obtain ⟨hen, hke, _, hpath⟩ := aux.2.1 e he
    refine ⟨hen, hke, fun x hx hlt => (hpath x hx hlt).1, ?_⟩
    intro p hp hkp
    -- k stored at p: its path is occupied, so the empty slot e is not before p; but everything before e differs from k
    have hocc := inv.path p hp (by rw [hkp]; exact hk)
    rw [hkp] at hocc
    by_cases hlt : dist a.size (idx a.size k) p < dist a.size (idx a.size k) e
    · exact (hpath p hp hlt).2 hkp
    · by_cases heq : dist a.size (idx a.size k) p = dist a.size (idx a.size k) e
      · have : p = e := dist_inj hh hp hen heq
        subst this
        rw [hke] at hkp; exact hk hkp.symm
      · exact hocc e hen (by omega) hke
  · intro hfull
    exact (aux.2.2 hfull e0 he0).1 hke0

/-- converse: a stored key is found at its (unique) slot. -/
theorem probe_found {idx : Nat → Nat → Nat} {a : Slots V} (hi : IdxOk idx) (inv : SInv idx a)
    (p : Nat) (hp : p < a.size) (hk : key a p ≠ 0) :
    probe a (key a p) a.size (idx a.size (key a p)) = .found p := by
  obtain ⟨h1, h2, h3⟩ := probe_spec hi inv (key a p) hk
  cases hpr : probe a (key a p) a.size (idx a.size (key a p)) with
  | found i =>
    obtain ⟨hin, hki⟩ := h1 i hpr
    have : i = p := inv.nodup i p hin hp (by rw [hki]; exact hk) hki
    rw [this]
  | empty e => exact absurd rfl ((h2 e hpr).2.2.2 p hp)
  | full => exact absurd hpr h3


/-! ### counting occupied slots -/

/-- number of occupied slots -/
def occ (a : Slots V) : Nat := a.countP (fun p => p.1 != 0)

theorem rd_eq_getElem (a : Slots V) (i : Nat) (h : i < a.size) : rd a i = a[i] := by
  simp [rd, Array.getD_eq_getD_getElem?, h]

theorem occ_wr (a : Slots V) (i : Nat) (x : Nat × V) (h : i < a.size) :
    occ (wr a i x) + (if key a i ≠ 0 then 1 else 0) = occ a + (if x.1 ≠ 0 then 1 else 0) := by
  have hle := Array.boole_getElem_le_countP (p := fun p : Nat × V => p.1 != 0) (xs := a) h
  unfold occ wr key
  rw [rd_eq_getElem a i h]
  simp only [Array.setIfInBounds, h, dite_true, Array.countP_set h]
  simp only [bne_iff_ne, ne_eq] at hle ⊢
  split <;> split <;> simp_all <;> omega

theorem occ_le_size (a : Slots V) : occ a ≤ a.size := Array.countP_le_size

theorem occ_replicate (n : Nat) : occ (Array.replicate n ((0, default) : Nat × V)) = 0 := by
  simp [occ, Array.countP_replicate]

/-- pigeonhole: fewer occupied slots than slots leaves an empty slot. -/
theorem exists_free (a : Slots V) (h : occ a < a.size) : ∃ e, e < a.size ∧ key a e = 0 := by
  apply Classical.byContradiction
  intro hne
  have : occ a = a.size := by
    unfold occ
    rw [Array.countP_eq_size]
    intro x hx
    obtain ⟨i, hi, rfl⟩ := Array.mem_iff_getElem.mp hx
    simp only [bne_iff_ne, ne_eq]
    intro h0
    exact hne ⟨i, hi, by unfold key; rw [rd_eq_getElem a i hi]; exact h0⟩
  omega

/-- an occupied slot makes the count positive -/
theorem occ_pos (a : Slots V) (i : Nat) (h : i < a.size) (hk : key a i ≠ 0) : 0 < occ a := by
  unfold occ
  rw [Array.countP_pos_iff]
  exact ⟨a[i], Array.getElem_mem h, by unfold key at hk; rw [rd_eq_getElem a i h] at hk; simpa using hk⟩

/-! ### the abstraction: a naive scan -/

/-- the pair `(k, v)` sits in some slot -/
def Has (a : Slots V) (k : Nat) (v : V) : Prop := ∃ p, p < a.size ∧ rd a p = (k, v)

/-- value found by a linear scan of all slots (the reference meaning of a table) -/
def lookup (a : Slots V) (k : Nat) : Option V := (a.toList.find? (fun p => p.1 == k)).map (·.2)

theorem lookup_eq_some_iff (a : Slots V) (k : Nat) (v : V)
    (nodup : ∀ i j, i < a.size → j < a.size → key a i = k → key a j = k → i = j) :
    lookup a k = some v ↔ Has a k v := by
  unfold lookup Has
  constructor
  · intro h
    simp only [Option.map_eq_some_iff] at h
    obtain ⟨x, hx, hv⟩ := h
    have hp := List.find?_some hx
    have hm := List.mem_of_find?_eq_some hx
    obtain ⟨i, hi, hxi⟩ := List.mem_iff_getElem.mp hm
    simp only [Array.length_toList] at hi
    refine ⟨i, hi, ?_⟩
    rw [rd_eq_getElem a i hi]
    simp only [Array.getElem_toList] at hxi
    rw [hxi]
    simp only [beq_iff_eq] at hp
    rw [← hp, ← hv]
  · rintro ⟨p, hp, hrd⟩
    cases hf : a.toList.find? (fun p => p.1 == k) with
    | none =>
      rw [List.find?_eq_none] at hf
      have := hf a[p] (by simp)
      rw [← rd_eq_getElem a p hp, hrd] at this
      simp at this
    | some x =>
      have hpx := List.find?_some hf
      have hm := List.mem_of_find?_eq_some hf
      obtain ⟨i, hi, hxi⟩ := List.mem_iff_getElem.mp hm
      simp only [Array.length_toList] at hi
      simp only [Array.getElem_toList] at hxi
      simp only [beq_iff_eq] at hpx
      have hki : key a i = k := by unfold key; rw [rd_eq_getElem a i hi, hxi]; exact hpx
      have hkp : key a p = k := by unfold key; rw [hrd]
      have : i = p := nodup i p hi hp hki hkp
      subst this
      rw [← rd_eq_getElem a i hi, hrd] at hxi
      simp [← hxi]

theorem lookup_eq_none_iff (a : Slots V) (k : Nat) :
    lookup a k = none ↔ ∀ p, p < a.size → key a p ≠ k := by
  unfold lookup
  simp only [Option.map_eq_none_iff, List.find?_eq_none, beq_iff_eq]
  constructor
  · intro h p hp hk
    exact h a[p] (by simp) (by unfold key at hk; rw [rd_eq_getElem a p hp] at hk; exact hk)
  · intro h x hx hxk
    obtain ⟨i, hi, hxi⟩ := List.mem_iff_getElem.mp hx
    simp only [Array.length_toList] at hi
    simp only [Array.getElem_toList] at hxi
    exact h i hi (by unfold key; rw [rd_eq_getElem a i hi, hxi]; exact hxk)

/-- two tables holding the same pairs have the same meaning -/
theorem lookup_congr (a b : Slots V) (k : Nat) (hk : k ≠ 0)
    (na : ∀ i j, i < a.size → j < a.size → key a i ≠ 0 → key a i = key a j → i = j)
    (nb : ∀ i j, i < b.size → j < b.size → key b i ≠ 0 → key b i = key b j → i = j)
    (h : ∀ v, Has a k v ↔ Has b k v) : lookup a k = lookup b k := by
  have na' : ∀ i j, i < a.size → j < a.size → key a i = k → key a j = k → i = j := by
    intro i j hi hj h1 h2; exact na i j hi hj (by rw [h1]; exact hk) (by rw [h1, h2])
  have nb' : ∀ i j, i < b.size → j < b.size → key b i = k → key b j = k → i = j := by
    intro i j hi hj h1 h2; exact nb i j hi hj (by rw [h1]; exact hk) (by rw [h1, h2])
  cases ha : lookup a k with
  | none =>
    cases hb : lookup b k with
    | none => rfl
    | some v =>
      have := (h v).mpr ((lookup_eq_some_iff b k v nb').mp hb)
      rw [← lookup_eq_some_iff a k v na', ha] at this
      cases this
  | some v =>
    have := (h v).mp ((lookup_eq_some_iff a k v na').mp ha)
    rw [← lookup_eq_some_iff b k v nb'] at this
    rw [this]

end SdnsVerif.Lemmas.UMap
