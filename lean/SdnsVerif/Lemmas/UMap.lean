import SdnsVerif.Model.UMap
/-!
Helper lemmas for C16 (open addressing with linear probing and backward-shift
deletion).  Plan: DESIGN.md Appendix A.1.  Cyclic distance is piecewise
(`dist`), never `%`, so the arithmetic leaves are closed by `grind`/`omega`.
-/
set_option linter.unusedSectionVars false
set_option linter.unusedVariables false
set_option linter.unusedSimpArgs false

namespace SdnsVerif.Lemmas.UMap
open SdnsVerif.Model.UMap

variable {V : Type} [Inhabited V]

/-! ### slot arrays as functions -/

theorem size_wr (a : Slots V) (i : Nat) (x : Nat × V) : (wr a i x).size = a.size := by
  simp [wr]

theorem rd_wr (a : Slots V) (i j : Nat) (x : Nat × V) :
    rd (wr a i x) j = if i = j ∧ i < a.size then x else rd a j := by
  simp only [rd, wr, Array.getD_eq_getD_getElem?, Array.getElem?_setIfInBounds]
  grind

theorem rd_wr_same (a : Slots V) (i : Nat) (x : Nat × V) (h : i < a.size) : rd (wr a i x) i = x := by
  rw [rd_wr]; simp [h]

theorem rd_wr_ne (a : Slots V) (i j : Nat) (x : Nat × V) (h : i ≠ j) : rd (wr a i x) j = rd a j := by
  rw [rd_wr]; simp [h]

theorem rd_oob (a : Slots V) (i : Nat) (h : a.size ≤ i) : rd a i = (0, default) := by
  simp [rd, Array.getD_eq_getD_getElem?, Array.getElem?_eq_none h]

theorem rd_replicate (n i : Nat) : rd (Array.replicate n ((0, default) : Nat × V)) i = (0, default) := by
  simp only [rd, Array.getD_eq_getD_getElem?, Array.getElem?_replicate]
  split <;> rfl

/-- key stored in slot `i` (0 = empty) -/
def key (a : Slots V) (i : Nat) : Nat := (rd a i).1

/-! ### cyclic arithmetic -/

/-- number of `next` steps from `a` to `b` in a ring of `n` slots. -/
def dist (n a b : Nat) : Nat := if a ≤ b then b - a else b + n - a

theorem dist_self (n a : Nat) : dist n a a = 0 := by simp [dist]

theorem dist_lt {n a b : Nat} (ha : a < n) (_hb : b < n) : dist n a b < n := by grind [dist]

theorem dist_inj {n h x y : Nat} (hh : h < n) (hx : x < n) (hy : y < n)
    (e : dist n h x = dist n h y) : x = y := by grind [dist]

theorem dist_eq_zero {n a b : Nat} (ha : a < n) (hb : b < n) (e : dist n a b = 0) : a = b := by
  grind [dist]

theorem next_lt {n i : Nat} (hn : 0 < n) : next n i < n := by grind [next]

theorem dist_next {n h c : Nat} (hh : h < n) (hc : c < n) (h1 : dist n h c + 1 < n) :
    dist n h (next n c) = dist n h c + 1 := by grind [dist, next]

theorem dist_next_self {n c : Nat} (hc : c < n) (h1 : 1 < n) : dist n c (next n c) = 1 := by
  grind [dist, next]

/-- the Go test of `backwardShiftDelete` is "`k` lies cyclically in `(i, j]`". -/
theorem goBetween_iff {n i k j : Nat} (hi : i < n) (hk : k < n) (hj : j < n) :
    goBetween i k j = true ↔ (0 < dist n i k ∧ dist n i k ≤ dist n i j) := by
  unfold goBetween
  split <;> simp only [decide_eq_true_eq] <;> grind [dist]

/-- transfer of distances between two origins on the same arc. -/
theorem dist_add {n a b c : Nat} (ha : a < n) (hb : b < n) (hc : c < n)
    (h : dist n a b ≤ dist n a c) : dist n a c = dist n a b + dist n b c := by grind [dist]

/-- four small facts about positions on the ring, kept free of any other
hypotheses so that their proof terms stay small. -/
theorem cyc_next {n i0 i j j' : Nat} (h1 : i0 < n) (h3 : i < n) (h4 : j < n) (hn : j' < n)
    (h5 : dist n i0 i ≤ dist n i0 j) (hd : dist n i0 j' = dist n i0 j + 1) :
    dist n i j' = dist n i j + 1 := by grind [dist]

theorem cyc_inside {n x p h : Nat} (hp : p < n) (hx : x < n) (hh : h < n)
    (hlt : dist n h x < dist n h p) (hb1 : 0 < dist n x h) (hb2 : dist n x h ≤ dist n x p) : False := by
  grind [dist]

theorem cyc_beyond {n x p j j' h : Nat} (hp : p < n) (hx : x < n) (hh : h < n) (hj : j < n) (hj' : j' < n)
    (hlt : dist n h x < dist n h p) (hr : ¬ (0 < dist n x p ∧ dist n x p ≤ dist n x j))
    (hpx : p ≠ x) (hpj : p ≠ j') (hdi : dist n x j' = dist n x j + 1) :
    dist n h j' < dist n h p := by grind [dist]

theorem cyc_moved {n i x j' h : Nat} (hi : i < n) (hx : x < n) (hh : h < n) (hj' : j' < n)
    (hlt : dist n h x < dist n h i) (hb : ¬ (0 < dist n i h ∧ dist n i h ≤ dist n i j')) (hij : i ≠ j') :
    dist n h x < dist n h j' := by grind [dist]

theorem cyc_advance {n c x : Nat} (hc : c < n) (hx : x < n) (hxc : x ≠ c) :
    dist n (next n c) x + 1 = dist n c x := by grind [dist, next]

/-! ### the invariant -/

/-- `I₁ ∧ I₂ ∧ free slot` of Appendix A.1 for a slot array and an index function. -/
structure SInv (idx : Nat → Nat → Nat) (a : Slots V) : Prop where
  nodup : ∀ i j, i < a.size → j < a.size → key a i ≠ 0 → key a i = key a j → i = j
  path : ∀ j, j < a.size → key a j ≠ 0 → ∀ x, x < a.size →
    dist a.size (idx a.size (key a j)) x < dist a.size (idx a.size (key a j)) j → key a x ≠ 0
  free : ∃ e, e < a.size ∧ key a e = 0

/-- `I₂` with the hole `i` read as occupied. -/
def PathH (idx : Nat → Nat → Nat) (a : Slots V) (i : Nat) : Prop :=
  ∀ j, j < a.size → key a j ≠ 0 → ∀ x, x < a.size →
    dist a.size (idx a.size (key a j)) x < dist a.size (idx a.size (key a j)) j → key a x ≠ 0 ∨ x = i

/-- the index function stays inside the table -/
def IdxOk (idx : Nat → Nat → Nat) : Prop := ∀ n k, 0 < n → idx n k < n

/-! ### probing -/

theorem probe_aux (a : Slots V) (k h : Nat) (hh : h < a.size) :
    ∀ f c t, t + f = a.size → (0 < f → c < a.size ∧ dist a.size h c = t) →
      (∀ x, x < a.size → dist a.size h x < t → key a x ≠ 0 ∧ key a x ≠ k) →
      (∀ i, probe a k f c = .found i → i < a.size ∧ key a i = k) ∧
      (∀ e, probe a k f c = .empty e → e < a.size ∧ key a e = 0 ∧ k ≠ 0 ∧
        ∀ x, x < a.size → dist a.size h x < dist a.size h e → key a x ≠ 0 ∧ key a x ≠ k) ∧
      (probe a k f c = .full → ∀ x, x < a.size → key a x ≠ 0 ∧ key a x ≠ k) := by
  intro f
  induction f with
  | zero =>
    intro c t ht _ hall
    refine ⟨by simp [probe], by simp [probe], ?_⟩
    intro _ x hx
    exact hall x hx (by have := dist_lt hh hx; omega)
  | succ f ih =>
    intro c t ht hc hall
    obtain ⟨hcn, hdc⟩ := hc (by omega)
    unfold probe
    by_cases h1 : (rd a c).1 = k
    · simp only [h1, if_true]
      refine ⟨?_, by simp, by simp⟩
      intro i hi
      injection hi with hi
      subst hi
      exact ⟨hcn, h1⟩
    · simp only [h1, if_false]
      by_cases h2 : (rd a c).1 = 0
      · simp only [h2, if_true]
        refine ⟨by simp, ?_, by simp⟩
        intro e he
        injection he with he
        subst he
        refine ⟨hcn, h2, ?_, ?_⟩
        · intro hk0; exact h1 (by rw [h2, hk0])
        · intro x hx hlt; exact hall x hx (by omega)
      · simp only [h2, if_false]
        have hall' : ∀ x, x < a.size → dist a.size h x < t + 1 → key a x ≠ 0 ∧ key a x ≠ k := by
          intro x hx hlt
          by_cases hxt : dist a.size h x < t
          · exact hall x hx hxt
          · have : x = c := dist_inj hh hx hcn (by omega)
            subst this
            exact ⟨h2, h1⟩
        have := ih (next a.size c) (t + 1) (by omega)
          (by intro hf; exact ⟨next_lt (by omega), by rw [dist_next hh hcn (by omega), hdc]⟩) hall'
        exact this

/-- **Probing finds exactly the stored key.** Under the invariant, the probe
from the ideal slot with `len` steps of fuel returns the slot of `k` when `k`
is stored, and otherwise the first empty slot of `k`'s path; it never runs out
of fuel. -/
theorem probe_spec {idx : Nat → Nat → Nat} {a : Slots V} (hi : IdxOk idx) (inv : SInv idx a)
    (k : Nat) (hk : k ≠ 0) :
    (∀ i, probe a k a.size (idx a.size k) = .found i → i < a.size ∧ key a i = k) ∧
    (∀ e, probe a k a.size (idx a.size k) = .empty e → e < a.size ∧ key a e = 0 ∧
        (∀ x, x < a.size → dist a.size (idx a.size k) x < dist a.size (idx a.size k) e → key a x ≠ 0) ∧
        ∀ p, p < a.size → key a p ≠ k) ∧
    probe a k a.size (idx a.size k) ≠ .full := by
  obtain ⟨e0, he0, hke0⟩ := inv.free
  have hn : 0 < a.size := by omega
  have hh := hi a.size k hn
  have aux := probe_aux a k (idx a.size k) hh a.size (idx a.size k) 0 (by omega)
    (by intro _; exact ⟨hh, dist_self _ _⟩) (by intro x _ hlt; omega)
  refine ⟨aux.1, ?_, ?_⟩
  · intro e he
    obtain ⟨hen, hke, _, hpath⟩ := aux.2.1 e he
    refine ⟨hen, hke, fun x hx hlt => (hpath x hx hlt).1, ?_⟩
    intro p hp hkp
    -- k stored at p: its path is occupied, so the empty slot e is not before p; but everything before e differs from k
    have hocc := inv.path p hp (by rw [hkp]; exact hk)
    rw [hkp] at hocc
    by_cases hlt : dist a.size (idx a.size k) p < dist a.size (idx a.size k) e
    · exact (hpath p hp hlt).2 hkp
    · by_cases heq : dist a.size (idx a.size k) p = dist a.size (idx a.size k) e
      · have : p = e := dist_inj hh hp hen heq
        subst this
        rw [hke] at hkp; exact hk hkp.symm
      · exact hocc e hen (by omega) hke
  · intro hfull
    exact (aux.2.2 hfull e0 he0).1 hke0

/-- converse: a stored key is found at its (unique) slot. -/
theorem probe_found {idx : Nat → Nat → Nat} {a : Slots V} (hi : IdxOk idx) (inv : SInv idx a)
    (p : Nat) (hp : p < a.size) (hk : key a p ≠ 0) :
    probe a (key a p) a.size (idx a.size (key a p)) = .found p := by
  obtain ⟨h1, h2, h3⟩ := probe_spec hi inv (key a p) hk
  cases hpr : probe a (key a p) a.size (idx a.size (key a p)) with
  | found i =>
    obtain ⟨hin, hki⟩ := h1 i hpr
    have : i = p := inv.nodup i p hin hp (by rw [hki]; exact hk) hki
    rw [this]
  | empty e => exact absurd rfl ((h2 e hpr).2.2.2 p hp)
  | full => exact absurd hpr h3


/-! ### counting occupied slots -/

/-- number of occupied slots -/
def occ (a : Slots V) : Nat := a.countP (fun p => p.1 != 0)

theorem rd_eq_getElem (a : Slots V) (i : Nat) (h : i < a.size) : rd a i = a[i] := by
  simp [rd, Array.getD_eq_getD_getElem?, h]

theorem occ_wr (a : Slots V) (i : Nat) (x : Nat × V) (h : i < a.size) :
    occ (wr a i x) + (if key a i ≠ 0 then 1 else 0) = occ a + (if x.1 ≠ 0 then 1 else 0) := by
  have hle := Array.boole_getElem_le_countP (p := fun p : Nat × V => p.1 != 0) (xs := a) h
  unfold occ wr key
  rw [rd_eq_getElem a i h]
  simp only [Array.setIfInBounds, h, dite_true, Array.countP_set h]
  simp only [bne_iff_ne, ne_eq] at hle ⊢
  split <;> split <;> simp_all <;> omega

theorem occ_le_size (a : Slots V) : occ a ≤ a.size := Array.countP_le_size

theorem occ_replicate (n : Nat) : occ (Array.replicate n ((0, default) : Nat × V)) = 0 := by
  simp [occ, Array.countP_replicate]

/-- pigeonhole: fewer occupied slots than slots leaves an empty slot. -/
theorem exists_free (a : Slots V) (h : occ a < a.size) : ∃ e, e < a.size ∧ key a e = 0 := by
  apply Classical.byContradiction
  intro hne
  have : occ a = a.size := by
    unfold occ
    rw [Array.countP_eq_size]
    intro x hx
    obtain ⟨i, hi, rfl⟩ := Array.mem_iff_getElem.mp hx
    simp only [bne_iff_ne, ne_eq]
    intro h0
    exact hne ⟨i, hi, by unfold key; rw [rd_eq_getElem a i hi]; exact h0⟩
  omega

/-- an occupied slot makes the count positive -/
theorem occ_pos (a : Slots V) (i : Nat) (h : i < a.size) (hk : key a i ≠ 0) : 0 < occ a := by
  unfold occ
  rw [Array.countP_pos_iff]
  exact ⟨a[i], Array.getElem_mem h, by unfold key at hk; rw [rd_eq_getElem a i h] at hk; simpa using hk⟩

/-! ### the abstraction: a naive scan -/

/-- the pair `(k, v)` sits in some slot -/
def Has (a : Slots V) (k : Nat) (v : V) : Prop := ∃ p, p < a.size ∧ rd a p = (k, v)

/-- value found by a linear scan of all slots (the reference meaning of a table) -/
def lookup (a : Slots V) (k : Nat) : Option V := (a.toList.find? (fun p => p.1 == k)).map (·.2)

theorem lookup_eq_some_iff (a : Slots V) (k : Nat) (v : V)
    (nodup : ∀ i j, i < a.size → j < a.size → key a i = k → key a j = k → i = j) :
    lookup a k = some v ↔ Has a k v := by
  unfold lookup Has
  constructor
  · intro h
    simp only [Option.map_eq_some_iff] at h
    obtain ⟨x, hx, hv⟩ := h
    have hp := List.find?_some hx
    have hm := List.mem_of_find?_eq_some hx
    obtain ⟨i, hi, hxi⟩ := List.mem_iff_getElem.mp hm
    simp only [Array.length_toList] at hi
    refine ⟨i, hi, ?_⟩
    rw [rd_eq_getElem a i hi]
    simp only [Array.getElem_toList] at hxi
    rw [hxi]
    simp only [beq_iff_eq] at hp
    rw [← hp, ← hv]
  · rintro ⟨p, hp, hrd⟩
    cases hf : a.toList.find? (fun p => p.1 == k) with
    | none =>
      rw [List.find?_eq_none] at hf
      have := hf a[p] (by simp)
      rw [← rd_eq_getElem a p hp, hrd] at this
      simp at this
    | some x =>
      have hpx := List.find?_some hf
      have hm := List.mem_of_find?_eq_some hf
      obtain ⟨i, hi, hxi⟩ := List.mem_iff_getElem.mp hm
      simp only [Array.length_toList] at hi
      simp only [Array.getElem_toList] at hxi
      simp only [beq_iff_eq] at hpx
      have hki : key a i = k := by unfold key; rw [rd_eq_getElem a i hi, hxi]; exact hpx
      have hkp : key a p = k := by unfold key; rw [hrd]
      have : i = p := nodup i p hi hp hki hkp
      subst this
      rw [← rd_eq_getElem a i hi, hrd] at hxi
      simp [← hxi]

theorem lookup_eq_none_iff (a : Slots V) (k : Nat) :
    lookup a k = none ↔ ∀ p, p < a.size → key a p ≠ k := by
  unfold lookup
  simp only [Option.map_eq_none_iff, List.find?_eq_none, beq_iff_eq]
  constructor
  · intro h p hp hk
    exact h a[p] (by simp) (by unfold key at hk; rw [rd_eq_getElem a p hp] at hk; exact hk)
  · intro h x hx hxk
    obtain ⟨i, hi, hxi⟩ := List.mem_iff_getElem.mp hx
    simp only [Array.length_toList] at hi
    simp only [Array.getElem_toList] at hxi
    exact h i hi (by unfold key; rw [rd_eq_getElem a i hi, hxi]; exact hxk)

/-- two tables holding the same pairs have the same meaning -/
theorem lookup_congr (a b : Slots V) (k : Nat) (hk : k ≠ 0)
    (na : ∀ i j, i < a.size → j < a.size → key a i ≠ 0 → key a i = key a j → i = j)
    (nb : ∀ i j, i < b.size → j < b.size → key b i ≠ 0 → key b i = key b j → i = j)
    (h : ∀ v, Has a k v ↔ Has b k v) : lookup a k = lookup b k := by
  have na' : ∀ i j, i < a.size → j < a.size → key a i = k → key a j = k → i = j := by
    intro i j hi hj h1 h2; exact na i j hi hj (by rw [h1]; exact hk) (by rw [h1, h2])
  have nb' : ∀ i j, i < b.size → j < b.size → key b i = k → key b j = k → i = j := by
    intro i j hi hj h1 h2; exact nb i j hi hj (by rw [h1]; exact hk) (by rw [h1, h2])
  cases ha : lookup a k with
  | none =>
    cases hb : lookup b k with
    | none => rfl
    | some v =>
      have := (h v).mpr ((lookup_eq_some_iff b k v nb').mp hb)
      rw [← lookup_eq_some_iff a k v na', ha] at this
      cases this
  | some v =>
    have := (h v).mp ((lookup_eq_some_iff a k v na').mp ha)
    rw [← lookup_eq_some_iff b k v nb'] at this
    rw [this]


/-! ### insertion -/

/-- the invariant only looks at keys -/
theorem sinv_congr {idx : Nat → Nat → Nat} {a b : Slots V} (hs : b.size = a.size)
    (hk : ∀ x, key b x = key a x) (inv : SInv idx a) : SInv idx b := by
  refine ⟨?_, ?_, ?_⟩
  · intro i j hi hj h0 he
    rw [hs] at hi hj
    rw [hk] at h0
    rw [hk, hk] at he
    exact inv.nodup i j hi hj h0 he
  · intro j hj h0 x hx hlt
    rw [hs] at hj hx hlt
    rw [hk] at h0 hlt ⊢
    exact inv.path j hj h0 x hx hlt
  · obtain ⟨e, he, hke⟩ := inv.free
    exact ⟨e, by omega, by rw [hk]; exact hke⟩

theorem key_wr (a : Slots V) (i j : Nat) (x : Nat × V) :
    key (wr a i x) j = if i = j ∧ i < a.size then x.1 else key a j := by
  unfold key; rw [rd_wr]; split <;> rfl

/-- overwriting the value of a stored key keeps the invariant -/
theorem sinv_update {idx : Nat → Nat → Nat} {a : Slots V} (inv : SInv idx a) (i : Nat) (v : V) :
    SInv idx (wr a i (key a i, v)) := by
  apply sinv_congr (size_wr _ _ _) _ inv
  intro x
  rw [key_wr]
  split
  · rename_i h; rw [h.1]
  · rfl

/-- **Insertion into the first empty slot of the key's path keeps the invariant.** -/
theorem sinv_insert {idx : Nat → Nat → Nat} {a : Slots V} (hi : IdxOk idx) (inv : SInv idx a)
    (k : Nat) (v : V) (e : Nat) (hk : k ≠ 0) (he : e < a.size) (hke : key a e = 0)
    (hpath : ∀ x, x < a.size → dist a.size (idx a.size k) x < dist a.size (idx a.size k) e → key a x ≠ 0)
    (habs : ∀ p, p < a.size → key a p ≠ k) (hroom : occ a + 1 < a.size) :
    SInv idx (wr a e (k, v)) := by
  have hs := size_wr a e (k, v)
  have hkey : ∀ x, key (wr a e (k, v)) x = if e = x then k else key a x := by
    intro x; rw [key_wr]; simp [he]
  refine ⟨?_, ?_, ?_⟩
  · intro i j hi' hj h0 heq
    rw [hs] at hi' hj
    rw [hkey] at h0
    rw [hkey, hkey] at heq
    by_cases h1 : e = i <;> by_cases h2 : e = j
    · omega
    · rw [if_pos h1, if_neg h2] at heq
      exact absurd heq.symm (habs j hj)
    · rw [if_neg h1, if_pos h2] at heq
      exact absurd heq (habs i hi')
    · rw [if_neg h1, if_neg h2] at heq
      rw [if_neg h1] at h0
      exact inv.nodup i j hi' hj h0 heq
  · intro j hj h0 x hx hlt
    rw [hs] at hj hx hlt
    rw [hkey] at h0 hlt
    rw [hkey]
    by_cases h1 : e = j
    · rw [if_pos h1] at hlt
      subst h1
      have hxe : e ≠ x := by intro h; subst h; omega
      rw [if_neg hxe]
      exact hpath x hx hlt
    · rw [if_neg h1] at hlt h0
      by_cases h2 : e = x
      · rw [if_pos h2]; exact hk
      · rw [if_neg h2]
        exact inv.path j hj h0 x hx hlt
  · apply exists_free
    have := occ_wr a e (k, v) he
    rw [hs]
    simp only [hke, ne_eq, not_true_eq_false, if_false, hk, not_false_eq_true, if_true] at this
    omega

/-- after an insertion exactly the new pair was added -/
theorem has_insert (a : Slots V) (e k : Nat) (v : V) (he : e < a.size) (hke : key a e = 0)
    (k' : Nat) (hk' : k' ≠ 0) (v' : V) :
    Has (wr a e (k, v)) k' v' ↔ (k' = k ∧ v' = v) ∨ Has a k' v' := by
  unfold Has
  rw [size_wr]
  constructor
  · rintro ⟨p, hp, hrd⟩
    rw [rd_wr] at hrd
    by_cases h : e = p
    · simp only [h, true_and, hp, if_true, Prod.mk.injEq] at hrd
      exact Or.inl ⟨hrd.1.symm, hrd.2.symm⟩
    · simp only [h, false_and, if_false] at hrd
      exact Or.inr ⟨p, hp, hrd⟩
  · rintro (⟨rfl, rfl⟩ | ⟨p, hp, hrd⟩)
    · exact ⟨e, he, rd_wr_same a e _ he⟩
    · have : e ≠ p := by
        intro h; subst h
        unfold key at hke; rw [hrd] at hke; exact hk' hke
      exact ⟨p, hp, by rw [rd_wr_ne a e p _ this]; exact hrd⟩

/-- after an update exactly the value of that key changed -/
theorem has_update (a : Slots V) (i : Nat) (v : V) (hi : i < a.size)
    (nodup : ∀ i j, i < a.size → j < a.size → key a i ≠ 0 → key a i = key a j → i = j)
    (hk : key a i ≠ 0) (k' : Nat) (v' : V) :
    Has (wr a i (key a i, v)) k' v' ↔ (k' = key a i ∧ v' = v) ∨ (k' ≠ key a i ∧ Has a k' v') := by
  unfold Has
  rw [size_wr]
  constructor
  · rintro ⟨p, hp, hrd⟩
    rw [rd_wr] at hrd
    by_cases h : i = p
    · simp only [h, true_and, hp, if_true, Prod.mk.injEq] at hrd
      exact Or.inl ⟨by rw [h]; exact hrd.1.symm, hrd.2.symm⟩
    · simp only [h, false_and, if_false] at hrd
      refine Or.inr ⟨?_, p, hp, hrd⟩
      intro hkk
      have hkp : key a p = k' := by unfold key; rw [hrd]
      exact h (nodup i p hi hp hk (by rw [hkp, hkk]))
  · rintro (⟨rfl, rfl⟩ | ⟨hne, p, hp, hrd⟩)
    · exact ⟨i, hi, rd_wr_same a i _ hi⟩
    · have : i ≠ p := by
        intro h; subst h
        unfold key at hne; rw [hrd] at hne; exact hne rfl
      exact ⟨p, hp, by rw [rd_wr_ne a i p _ this]; exact hrd⟩


/-! ### backward-shift deletion -/

/-- loop invariant of `backwardShiftDelete`: hole `i`, cursor `j`; `i0` is the
slot that was cleared, `e0` an empty slot ahead of the cursor. -/
structure BSInv (idx : Nat → Nat → Nat) (n : Nat) (a : Slots V) (i0 e0 i j : Nat) : Prop where
  sz : a.size = n
  hi0 : i0 < n
  he0 : e0 < n
  hi : i < n
  hj : j < n
  hole : key a i = 0
  e0_empty : key a e0 = 0
  /-- everything scanned since the hole is occupied and starts after the hole -/
  range : ∀ p, p < n → 0 < dist n i p → dist n i p ≤ dist n i j →
    key a p ≠ 0 ∧ 0 < dist n i (idx n (key a p)) ∧ dist n i (idx n (key a p)) ≤ dist n i p
  /-- `I₂` with the hole read as occupied -/
  pathH : ∀ p, p < n → key a p ≠ 0 → ∀ x, x < n →
    dist n (idx n (key a p)) x < dist n (idx n (key a p)) p → key a x ≠ 0 ∨ x = i
  nodup : ∀ x y, x < n → y < n → key a x ≠ 0 → key a x = key a y → x = y
  order : dist n i0 i ≤ dist n i0 j
  ahead : dist n i0 j < dist n i0 e0

/-- what `backwardShiftDelete` establishes -/
structure BSPost (idx : Nat → Nat → Nat) (n : Nat) (a a' : Slots V) (i0 e0 : Nat) : Prop where
  sz : a'.size = n
  nodup : ∀ x y, x < n → y < n → key a' x ≠ 0 → key a' x = key a' y → x = y
  path : ∀ p, p < n → key a' p ≠ 0 → ∀ x, x < n →
    dist n (idx n (key a' p)) x < dist n (idx n (key a' p)) p → key a' x ≠ 0
  e0_empty : key a' e0 = 0
  has : ∀ k v, k ≠ 0 → (Has a' k v ↔ Has a k v)
  occ : occ a' = occ a
  /-- entries only move towards the cleared slot, never past it -/
  moved : ∀ x, x < n → key a' x ≠ 0 → ∃ y, y < n ∧ rd a y = rd a' x ∧ dist n i0 x ≤ dist n i0 y

theorem bs_next {idx : Nat → Nat → Nat} {n : Nat} {a : Slots V} {i0 e0 i j : Nat}
    (I : BSInv idx n a i0 e0 i j) :
    next n j < n ∧ dist n i0 (next n j) = dist n i0 j + 1 ∧ dist n i (next n j) = dist n i j + 1 := by
  have h1 := I.hi0; have h2 := I.he0; have h3 := I.hi; have h4 := I.hj
  have h5 := I.order; have h6 := I.ahead
  have hlt := dist_lt h1 h2
  have hn : next n j < n := next_lt (by omega)
  have hd : dist n i0 (next n j) = dist n i0 j + 1 := dist_next h1 h4 (by omega)
  exact ⟨hn, hd, cyc_next h1 h3 h4 hn h5 hd⟩

theorem bs_done {idx : Nat → Nat → Nat} {n : Nat} {a : Slots V} {i0 e0 i j : Nat} (hidx : IdxOk idx)
    (I : BSInv idx n a i0 e0 i j) (hz : key a (next n j) = 0) : BSPost idx n a a i0 e0 := by
  obtain ⟨hn, hd0, hdi⟩ := bs_next I
  refine ⟨I.sz, I.nodup, ?_, I.e0_empty, fun _ _ _ => Iff.rfl, rfl, fun x hx _ => ⟨x, hx, rfl, Nat.le_refl _⟩⟩
  intro p hp hkp x hx hlt
  rcases I.pathH p hp hkp x hx hlt with h | h
  · exact h
  · subst h
    exfalso
    have hh : idx n (key a p) < n := hidx n _ (by omega)
    have h3 := I.hi; have h4 := I.hj
    by_cases hr : 0 < dist n x p ∧ dist n x p ≤ dist n x j
    · obtain ⟨_, hb1, hb2⟩ := I.range p hp hr.1 hr.2
      exact cyc_inside hp hx hh hlt hb1 hb2
    · have hpi : p ≠ x := by intro h; subst h; exact hkp I.hole
      have hpj : p ≠ next n j := by intro h; subst h; exact hkp hz
      have : dist n (idx n (key a p)) (next n j) < dist n (idx n (key a p)) p :=
        cyc_beyond hp hx hh h4 hn hlt hr hpi hpj hdi
      rcases I.pathH p hp hkp (next n j) hn this with h | h
      · exact h hz
      · rw [h, dist_self] at hdi; omega


theorem bs_skip {idx : Nat → Nat → Nat} {n : Nat} {a : Slots V} {i0 e0 i j : Nat} (hidx : IdxOk idx)
    (I : BSInv idx n a i0 e0 i j) (hnz : key a (next n j) ≠ 0)
    (hb : goBetween i (idx n (key a (next n j))) (next n j) = true) :
    BSInv idx n a i0 e0 i (next n j) := by
  obtain ⟨hn, hd0, hdi⟩ := bs_next I
  have hh : idx n (key a (next n j)) < n := hidx n _ (by omega)
  rw [goBetween_iff I.hi hh hn] at hb
  refine { I with hj := hn, range := ?_, order := by have := I.order; omega, ahead := ?_ }
  · intro p hp h0 hle
    by_cases hpj : dist n i p ≤ dist n i j
    · exact I.range p hp h0 hpj
    · have : p = next n j := dist_inj I.hi hp hn (by omega)
      subst this
      exact ⟨hnz, hb.1, hb.2⟩
  · have h1 := I.ahead
    have hne : next n j ≠ e0 := by intro h; rw [h] at hnz; exact hnz I.e0_empty
    have : dist n i0 (next n j) ≠ dist n i0 e0 := fun h => hne (dist_inj I.hi0 hn I.he0 h)
    omega

theorem bs_move {idx : Nat → Nat → Nat} {n : Nat} {a : Slots V} {i0 e0 i j : Nat} (hidx : IdxOk idx)
    (I : BSInv idx n a i0 e0 i j) (hnz : key a (next n j) ≠ 0)
    (hb : ¬ goBetween i (idx n (key a (next n j))) (next n j) = true) :
    BSInv idx n (wr (wr a i (rd a (next n j))) (next n j) (0, default)) i0 e0 (next n j) (next n j) := by
  obtain ⟨hn, hd0, hdi⟩ := bs_next I
  have hh : idx n (key a (next n j)) < n := hidx n _ (by omega)
  rw [goBetween_iff I.hi hh hn] at hb
  have hsz := I.sz
  have hij : i ≠ next n j := by intro h; rw [← h] at hnz; exact hnz I.hole
  have hne0 : next n j ≠ e0 := by intro h; rw [h] at hnz; exact hnz I.e0_empty
  have hie0 : i ≠ e0 := by
    intro h; have := I.order; have := I.ahead; rw [h] at *; omega
  -- keys of the new array
  have hkey : ∀ x, key (wr (wr a i (rd a (next n j))) (next n j) (0, default)) x =
      if x = next n j then 0 else if x = i then key a (next n j) else key a x := by
    intro x
    rw [key_wr, size_wr, hsz]
    by_cases h1 : x = next n j
    · rw [if_pos ⟨h1.symm, hn⟩, if_pos h1]
    · rw [if_neg (by intro h; exact h1 h.1.symm), if_neg h1, key_wr, hsz]
      by_cases h2 : x = i
      · rw [if_pos ⟨h2.symm, I.hi⟩, if_pos h2]; rfl
      · rw [if_neg (by intro h; exact h2 h.1.symm), if_neg h2]
  refine ⟨by rw [size_wr, size_wr]; exact hsz, I.hi0, I.he0, hn, hn, ?_, ?_, ?_, ?_, ?_, Nat.le_refl _, ?_⟩
  · rw [hkey]; simp
  · rw [hkey, if_neg (Ne.symm hne0), if_neg (Ne.symm hie0)]; exact I.e0_empty
  · intro p hp h0 hle; rw [dist_self] at hle; omega
  · -- pathH with the new hole
    intro p hp hkp x hx hlt
    rw [hkey] at hkp hlt ⊢
    by_cases hpj : p = next n j
    · rw [if_pos hpj] at hkp; exact absurd rfl hkp
    · rw [if_neg hpj] at hkp hlt
      by_cases hxj : x = next n j
      · exact Or.inr hxj
      · rw [if_neg hxj]
        left
        by_cases hpi : p = i
        · -- the moved entry: its path ends before the old hole
          rw [if_pos hpi] at hkp hlt
          subst hpi
          have hxp : x ≠ p := by intro h; subst h; omega
          rw [if_neg hxp]
          have hlt' : dist n (idx n (key a (next n j))) x < dist n (idx n (key a (next n j))) (next n j) :=
            cyc_moved I.hi hx hh hn hlt hb hij
          rcases I.pathH (next n j) hn hnz x hx hlt' with h | h
          · exact h
          · exact absurd h hxp
        · rw [if_neg hpi] at hkp hlt
          by_cases hxi : x = i
          · rw [if_pos hxi]; exact hnz
          · rw [if_neg hxi]
            rcases I.pathH p hp hkp x hx hlt with h | h
            · exact h
            · exact absurd h hxi
  · -- no duplicates
    intro x y hx hy h0 heq
    rw [hkey] at h0
    rw [hkey, hkey] at heq
    by_cases hxj : x = next n j
    · rw [if_pos hxj] at h0; exact absurd rfl h0
    · rw [if_neg hxj] at h0 heq
      by_cases hyj : y = next n j
      · rw [if_pos hyj] at heq; exact absurd heq h0
      · rw [if_neg hyj] at heq
        by_cases hxi : x = i <;> by_cases hyi : y = i
        · omega
        · rw [if_pos hxi, if_neg hyi] at heq
          exact absurd (I.nodup (next n j) y hn hy hnz heq) (Ne.symm hyj)
        · rw [if_neg hxi, if_pos hyi] at heq
          rw [if_neg hxi] at h0
          exact absurd (I.nodup x (next n j) hx hn h0 heq) hxj
        · rw [if_neg hxi, if_neg hyi] at heq
          rw [if_neg hxi] at h0
          exact I.nodup x y hx hy h0 heq
  · have h1 := I.ahead
    have : dist n i0 (next n j) ≠ dist n i0 e0 := fun h => hne0 (dist_inj I.hi0 hn I.he0 h)
    omega


/-- what one move of `backwardShiftDelete` does to the contents -/
theorem move_rel {n : Nat} (a : Slots V) (i j' : Nat) (hsz : a.size = n) (hi : i < n) (hj : j' < n)
    (hij : i ≠ j') (hole : key a i = 0) (hnz : key a j' ≠ 0) :
    let a' := wr (wr a i (rd a j')) j' (0, default)
    (∀ k v, k ≠ 0 → (Has a' k v ↔ Has a k v)) ∧ occ a' = occ a ∧
    (∀ x, x < n → key a' x ≠ 0 → (x = i ∧ rd a' x = rd a j') ∨ (x ≠ i ∧ x ≠ j' ∧ rd a' x = rd a x)) := by
  intro a'
  have hrd : ∀ x, rd a' x = if x = j' then (0, default) else if x = i then rd a j' else rd a x := by
    intro x
    show rd (wr (wr a i (rd a j')) j' (0, default)) x = _
    rw [rd_wr, size_wr, hsz]
    by_cases h1 : x = j'
    · rw [if_pos ⟨h1.symm, hj⟩, if_pos h1]
    · rw [if_neg (by intro h; exact h1 h.1.symm), if_neg h1, rd_wr, hsz]
      by_cases h2 : x = i
      · rw [if_pos ⟨h2.symm, hi⟩, if_pos h2]
      · rw [if_neg (by intro h; exact h2 h.1.symm), if_neg h2]
  have hsz' : a'.size = n := by show (wr (wr a i (rd a j')) j' (0, default)).size = n; rw [size_wr, size_wr, hsz]
  refine ⟨?_, ?_, ?_⟩
  · intro k v hk
    unfold Has
    rw [hsz', hsz]
    constructor
    · rintro ⟨p, hp, h⟩
      rw [hrd] at h
      by_cases h1 : p = j'
      · rw [if_pos h1] at h; simp only [Prod.mk.injEq] at h; exact absurd h.1.symm hk
      · rw [if_neg h1] at h
        by_cases h2 : p = i
        · rw [if_pos h2] at h; exact ⟨j', hj, h⟩
        · rw [if_neg h2] at h; exact ⟨p, hp, h⟩
    · rintro ⟨p, hp, h⟩
      have hpi : p ≠ i := by intro e; subst e; unfold key at hole; rw [h] at hole; exact hk hole
      by_cases h1 : p = j'
      · subst h1
        exact ⟨i, hi, by rw [hrd, if_neg hij, if_pos rfl]; exact h⟩
      · exact ⟨p, hp, by rw [hrd, if_neg h1, if_neg hpi]; exact h⟩
  · have h1 := occ_wr a i (rd a j') (by omega)
    have h2 := occ_wr (wr a i (rd a j')) j' (0, default) (by rw [size_wr]; omega)
    have hk2 : key (wr a i (rd a j')) j' = key a j' := by rw [key_wr, if_neg (by intro h; exact hij h.1)]
    rw [hk2] at h2
    have hk3 : (rd a j').1 ≠ 0 := hnz
    simp only [hole, hnz, hk3, ne_eq, not_true_eq_false, not_false_eq_true, if_true, if_false] at h1 h2
    show occ (wr (wr a i (rd a j')) j' (0, default)) = occ a
    omega
  · intro x hx hk
    unfold key at hk
    rw [hrd] at hk ⊢
    by_cases h1 : x = j'
    · rw [if_pos h1] at hk; exact absurd rfl hk
    · rw [if_neg h1] at hk ⊢
      by_cases h2 : x = i
      · rw [if_pos h2]; exact Or.inl ⟨h2, rfl⟩
      · rw [if_neg h2]; exact Or.inr ⟨h2, h1, rfl⟩

/-- **Backward-shift deletion restores the probe-path invariant** and keeps
every stored pair. -/
theorem backShift_spec {idx : Nat → Nat → Nat} (hidx : IdxOk idx) {n i0 e0 : Nat} :
    ∀ (f : Nat) (a : Slots V) (i j : Nat), BSInv idx n a i0 e0 i j → dist n i0 e0 ≤ dist n i0 j + f →
      BSPost idx n a (backShift idx n a f i j) i0 e0 := by
  intro f
  induction f with
  | zero => intro a i j I hf; have := I.ahead; omega
  | succ f ih =>
    intro a i j I hf
    obtain ⟨hn, hd0, hdi⟩ := bs_next I
    unfold backShift
    simp only
    by_cases hz : (rd a (next n j)).1 = 0
    · rw [if_pos hz]; exact bs_done hidx I hz
    · rw [if_neg hz]
      by_cases hb : goBetween i (idx n (rd a (next n j)).1) (next n j) = true
      · rw [if_pos hb]
        exact ih a i (next n j) (bs_skip hidx I hz hb) (by omega)
      · rw [if_neg hb]
        have I' := bs_move hidx I hz hb
        have hij : i ≠ next n j := by intro h; rw [← h] at hz; exact hz I.hole
        have P := ih _ (next n j) (next n j) I' (by omega)
        obtain ⟨hhas, hocc, hmov⟩ := move_rel a i (next n j) I.sz I.hi hn hij I.hole hz
        refine ⟨P.sz, P.nodup, P.path, P.e0_empty, ?_, by rw [P.occ]; exact hocc, ?_⟩
        · intro k v hk; rw [P.has k v hk]; exact hhas k v hk
        · intro x hx hkx
          obtain ⟨y, hy, hrdy, hdy⟩ := P.moved x hx hkx
          have hky : key (wr (wr a i (rd a (next n j))) (next n j) (0, default)) y ≠ 0 := by
            unfold key at hkx ⊢; rw [hrdy]; exact hkx
          rcases hmov y hy hky with ⟨hyi, hr⟩ | ⟨_, _, hr⟩
          · refine ⟨next n j, hn, by rw [← hrdy, hr], ?_⟩
            have := I.order
            rw [hyi] at hdy
            omega
          · exact ⟨y, hy, by rw [← hrdy, hr], hdy⟩


/-- clearing an occupied slot and shifting back: the slot-level meaning of
`Del` / one eviction. -/
theorem delAt_slots {idx : Nat → Nat → Nat} (hidx : IdxOk idx) {a : Slots V} (inv : SInv idx a)
    (i0 : Nat) (hi0 : i0 < a.size) (hk : key a i0 ≠ 0) :
    let a' := backShift idx a.size (wr a i0 (0, default)) a.size i0 i0
    SInv idx a' ∧ a'.size = a.size ∧ occ a' + 1 = occ a ∧
    (∀ k v, k ≠ 0 → (Has a' k v ↔ (k ≠ key a i0 ∧ Has a k v))) ∧
    (∀ x, x < a.size → key a' x ≠ 0 → ∃ y, y < a.size ∧ y ≠ i0 ∧ rd a y = rd a' x ∧
      dist a.size i0 x ≤ dist a.size i0 y) := by
  intro a'
  obtain ⟨e0, he0, hke0⟩ := inv.free
  have hne : e0 ≠ i0 := by intro h; subst h; exact hk hke0
  have hk1 : ∀ x, key (wr a i0 (0, default)) x = if x = i0 then 0 else key a x := by
    intro x
    rw [key_wr]
    by_cases h : x = i0
    · rw [if_pos ⟨h.symm, hi0⟩, if_pos h]
    · rw [if_neg (by intro h'; exact h h'.1.symm), if_neg h]
  have hr1 : ∀ x, x ≠ i0 → rd (wr a i0 (0, default)) x = rd a x := fun x hx => rd_wr_ne a i0 x _ (Ne.symm hx)
  have I : BSInv idx a.size (wr a i0 (0, default)) i0 e0 i0 i0 := by
    refine ⟨size_wr _ _ _, hi0, he0, hi0, hi0, ?_, ?_, ?_, ?_, ?_, Nat.le_refl _, ?_⟩
    · rw [hk1, if_pos rfl]
    · rw [hk1, if_neg hne]; exact hke0
    · intro p _ h0 hle; rw [dist_self] at hle; omega
    · intro p hp hkp x hx hlt
      rw [hk1] at hkp hlt ⊢
      by_cases hp0 : p = i0
      · rw [if_pos hp0] at hkp; exact absurd rfl hkp
      · rw [if_neg hp0] at hkp hlt
        by_cases hx0 : x = i0
        · exact Or.inr hx0
        · rw [if_neg hx0]; exact Or.inl (inv.path p hp hkp x hx hlt)
    · intro x y hx hy h0 heq
      rw [hk1] at h0
      rw [hk1, hk1] at heq
      by_cases hx0 : x = i0
      · rw [if_pos hx0] at h0; exact absurd rfl h0
      · rw [if_neg hx0] at h0 heq
        by_cases hy0 : y = i0
        · rw [if_pos hy0] at heq; exact absurd heq h0
        · rw [if_neg hy0] at heq; exact inv.nodup x y hx hy h0 heq
    · rw [dist_self]
      have : dist a.size i0 e0 ≠ 0 := fun h => hne (dist_eq_zero hi0 he0 h).symm
      omega
  have P := backShift_spec hidx a.size (wr a i0 (0, default)) i0 i0 I
    (by have := dist_lt hi0 he0; omega)
  refine ⟨⟨?_, ?_, ?_⟩, P.sz, ?_, ?_, ?_⟩
  · intro x y hx hy; rw [P.sz] at hx hy; exact P.nodup x y hx hy
  · intro p hp hkp x hx; rw [P.sz] at hp hx ⊢; exact P.path p hp hkp x hx
  · exact ⟨e0, by rw [P.sz]; exact he0, P.e0_empty⟩
  · have := occ_wr a i0 (0, default) hi0
    simp only [hk, ne_eq, not_false_eq_true, if_true, not_true_eq_false, if_false] at this
    have := P.occ
    show occ (backShift idx a.size (wr a i0 (0, default)) a.size i0 i0) + 1 = occ a
    omega
  · intro k v hk0
    show Has (backShift idx a.size (wr a i0 (0, default)) a.size i0 i0) k v ↔ _
    rw [P.has k v hk0]
    unfold Has
    rw [size_wr]
    constructor
    · rintro ⟨p, hp, h⟩
      have hp0 : p ≠ i0 := by
        intro e; subst e; rw [rd_wr_same a p _ hi0] at h
        simp only [Prod.mk.injEq] at h; exact hk0 h.1.symm
      rw [hr1 p hp0] at h
      refine ⟨?_, p, hp, h⟩
      intro hkk
      have : key a p = key a i0 := by unfold key at hkk ⊢; rw [h]; exact hkk
      exact hp0 (inv.nodup p i0 hp hi0 (by rw [this]; exact hk) this)
    · rintro ⟨hkk, p, hp, h⟩
      have hp0 : p ≠ i0 := by intro e; subst e; unfold key at hkk; rw [h] at hkk; exact hkk rfl
      exact ⟨p, hp, by rw [hr1 p hp0]; exact h⟩
  · intro x hx hkx
    obtain ⟨y, hy, hrd, hd⟩ := P.moved x hx hkx
    have hy0 : y ≠ i0 := by
      intro e; subst e
      rw [rd_wr_same a y _ hi0] at hrd
      have hkx' : (rd (backShift idx a.size (wr a y (0, default)) a.size y y) x).1 ≠ 0 := hkx
      rw [← hrd] at hkx'; exact hkx' rfl
    exact ⟨y, hy, hy0, by rw [← hr1 y hy0]; exact hrd, hd⟩


/-! ### growth -/

theorem ceilPow2Go_ge (x : Nat) : ∀ f s, x ≤ s * 2 ^ f → x ≤ ceilPow2Go x f s := by
  intro f
  induction f with
  | zero => intro s h; simpa [ceilPow2Go] using h
  | succ f ih =>
    intro s h
    unfold ceilPow2Go
    split
    · apply ih
      rw [Nat.pow_succ] at h
      have e : 2 * s * 2 ^ f = s * (2 ^ f * 2) := by rw [Nat.mul_comm 2 s, Nat.mul_assoc, Nat.mul_comm 2]
      rw [e]; exact h
    · omega

theorem le_ceilPow2 (x : Nat) : x ≤ ceilPow2 x := by
  unfold ceilPow2
  apply ceilPow2Go_ge
  have := @Nat.lt_two_pow_self x
  omega

theorem lt_growLen (n : Nat) (h : 0 < n) : n < growLen n := by
  unfold growLen
  have := le_ceilPow2 (if n ≥ 1048576 then n + n / 2 else n * 2)
  by_cases hc : n ≥ 1048576 <;> simp only [hc, if_true, if_false] at this ⊢ <;> omega

theorem le_growAt_growLen (n : Nat) (h : 0 < n) : n ≤ growAtOf (growLen n) := by
  unfold growLen growAtOf
  have := le_ceilPow2 (if n ≥ 1048576 then n + n / 2 else n * 2)
  by_cases hc : n ≥ 1048576 <;> simp only [hc, if_true, if_false] at this ⊢ <;> omega

theorem growAtOf_lt (n : Nat) (h : 0 < n) : growAtOf n < n := by
  unfold growAtOf; omega

theorem key_oob (a : Slots V) (i : Nat) (h : a.size ≤ i) : key a i = 0 := by
  unfold key; rw [rd_oob a i h]

theorem probeEmpty_probe (a : Slots V) (k : Nat) (habs : ∀ p, key a p ≠ k) :
    ∀ f c, probe a k f c = match probeEmpty a f c with | some e => .empty e | none => .full := by
  intro f
  induction f with
  | zero => intro c; simp [probe, probeEmpty]
  | succ f ih =>
    intro c
    unfold probe probeEmpty
    have := habs c
    unfold key at this
    rw [if_neg this]
    split
    · rfl
    · exact ih _

/-- `SInv` without the free slot (used while a fresh table is being filled) -/
theorem mem_toList_iff (a : Slots V) (k : Nat) (v : V) : (k, v) ∈ a.toList ↔ Has a k v := by
  unfold Has
  rw [List.mem_iff_getElem]
  simp only [Array.length_toList, Array.getElem_toList]
  constructor
  · rintro ⟨i, hi, h⟩; exact ⟨i, hi, by rw [rd_eq_getElem a i hi]; exact h⟩
  · rintro ⟨i, hi, h⟩; exact ⟨i, hi, by rw [← rd_eq_getElem a i hi]; exact h⟩

theorem toList_pairwise {idx : Nat → Nat → Nat} (a : Slots V) (inv : SInv idx a) :
    a.toList.Pairwise (fun p q => p.1 ≠ 0 → p.1 ≠ q.1) := by
  rw [List.pairwise_iff_getElem]
  intro i j hi hj hij h0 heq
  simp only [Array.length_toList] at hi hj
  simp only [Array.getElem_toList] at h0 heq
  have := inv.nodup i j hi hj (by unfold key; rw [rd_eq_getElem a i hi]; exact h0)
    (by unfold key; rw [rd_eq_getElem a i hi, rd_eq_getElem a j hj]; exact heq)
  omega

theorem reinsert_fold {idx : Nat → Nat → Nat} (hidx : IdxOk idx) (N : Nat) :
    ∀ (l : List (Nat × V)) (b : Slots V) (c : Nat), b.size = N → SInv idx b →
      occ b + l.countP (fun p => p.1 != 0) < N →
      (∀ p ∈ l, p.1 ≠ 0 → ∀ x, x < N → key b x ≠ p.1) →
      l.Pairwise (fun p q => p.1 ≠ 0 → p.1 ≠ q.1) →
      (l.foldl (UMap.reinsert idx) (b, c)).1.size = N ∧ SInv idx (l.foldl (UMap.reinsert idx) (b, c)).1 ∧
      occ (l.foldl (UMap.reinsert idx) (b, c)).1 = occ b + l.countP (fun p => p.1 != 0) ∧
      (l.foldl (UMap.reinsert idx) (b, c)).2 = c + l.countP (fun p => p.1 != 0) ∧
      ∀ k v, k ≠ 0 → (Has (l.foldl (UMap.reinsert idx) (b, c)).1 k v ↔ Has b k v ∨ (k, v) ∈ l) := by
  intro l
  induction l with
  | nil => intro b c hs inv _ _ _; simp [hs, inv]
  | cons p l ih =>
    intro b c hs inv hroom hdisj hpw
    rw [List.foldl_cons]
    rw [List.pairwise_cons] at hpw
    by_cases hp0 : p.1 = 0
    · have hr : UMap.reinsert idx (b, c) p = (b, c) := by unfold UMap.reinsert; rw [if_pos hp0]
      rw [hr]
      have hc : (p :: l).countP (fun p => p.1 != 0) = l.countP (fun p => p.1 != 0) := by
        rw [List.countP_cons]; simp [hp0]
      rw [hc] at hroom ⊢
      obtain ⟨h1, h2, h3, h4, h5⟩ := ih b c hs inv hroom
        (fun q hq => hdisj q (List.mem_cons_of_mem _ hq)) hpw.2
      refine ⟨h1, h2, h3, h4, ?_⟩
      intro k v hk
      rw [h5 k v hk, List.mem_cons]
      constructor
      · rintro (h | h); exact Or.inl h; exact Or.inr (Or.inr h)
      · rintro (h | h | h)
        · exact Or.inl h
        · rw [← h] at hp0; exact absurd hp0 hk
        · exact Or.inr h
    · have hc : (p :: l).countP (fun p => p.1 != 0) = l.countP (fun p => p.1 != 0) + 1 := by
        rw [List.countP_cons]; simp [hp0]
      rw [hc] at hroom ⊢
      have habs : ∀ x, x < b.size → key b x ≠ p.1 := by
        intro x hx; rw [hs] at hx; exact hdisj p (List.mem_cons_self ..) hp0 x hx
      have habs' : ∀ x, key b x ≠ p.1 := by
        intro x
        by_cases hx : x < b.size
        · exact habs x hx
        · rw [key_oob b x (by omega)]; exact Ne.symm hp0
      obtain ⟨_, hE, hF⟩ := probe_spec hidx inv p.1 hp0
      have hpe := probeEmpty_probe b p.1 habs' b.size (idx b.size p.1)
      cases hq : probeEmpty b b.size (idx b.size p.1) with
      | none => rw [hq] at hpe; exact absurd hpe hF
      | some e =>
        rw [hq] at hpe
        obtain ⟨he, hke, hpath, _⟩ := hE e hpe
        have hr : UMap.reinsert idx (b, c) p = (wr b e p, c + 1) := by
          unfold UMap.reinsert; rw [if_neg hp0]; simp only [hq]
        rw [hr]
        have hpp : p = (p.1, p.2) := rfl
        have inv' : SInv idx (wr b e p) := by
          rw [hpp]; exact sinv_insert hidx inv p.1 p.2 e hp0 he hke hpath habs (by omega)
        have hocc : occ (wr b e p) = occ b + 1 := by
          have := occ_wr b e p he
          simp only [hke, hp0, ne_eq, not_true_eq_false, not_false_eq_true, if_true, if_false] at this
          omega
        have hkeyb : ∀ x, key (wr b e p) x = if e = x then p.1 else key b x := by
          intro x; rw [key_wr]; simp [he]
        obtain ⟨h1, h2, h3, h4, h5⟩ := ih (wr b e p) (c + 1) (by rw [size_wr]; exact hs) inv'
          (by omega)
          (by
            intro q hq hq0 x hx
            rw [hkeyb]
            split
            · exact hpw.1 q hq hp0
            · exact hdisj q (List.mem_cons_of_mem _ hq) hq0 x hx)
          hpw.2
        refine ⟨h1, h2, by omega, by omega, ?_⟩
        intro k v hk
        rw [h5 k v hk, List.mem_cons]
        have := has_insert b e p.1 p.2 he hke k hk v
        rw [← hpp] at this
        rw [this]
        constructor
        · rintro ((⟨h1, h2⟩ | h) | h)
          · right; left; rw [hpp, h1, h2]
          · left; exact h
          · right; right; exact h
        · rintro (h | h | h)
          · left; right; exact h
          · left; left; rw [hpp] at h; simp only [Prod.mk.injEq] at h; exact h
          · right; exact h


/-! ### the map-level invariant and abstraction -/

/-- invariant of a `UInt64Map`: probe structure, `size` accounting, load below
the growth threshold, threshold below the table length. -/
structure Inv (idx : Nat → Nat → Nat) (m : UMap V) : Prop where
  slots : SInv idx m.data
  size_eq : m.size = occ m.data + (if m.zero.isSome then 1 else 0)
  load : occ m.data ≤ m.growAt
  room : m.growAt < m.data.size

/-- abstraction: the partial map a table denotes (naive scan + out-of-band zero key). -/
def abs (m : UMap V) (k : Nat) : Option V := if k = 0 then m.zero else lookup m.data k

theorem nodup_key {idx : Nat → Nat → Nat} {a : Slots V} (inv : SInv idx a) (k : Nat) (hk : k ≠ 0) :
    ∀ i j, i < a.size → j < a.size → key a i = k → key a j = k → i = j := by
  intro i j hi hj h1 h2
  exact inv.nodup i j hi hj (by rw [h1]; exact hk) (by rw [h1, h2])

theorem has_iff_lookup {idx : Nat → Nat → Nat} {a : Slots V} (inv : SInv idx a) (k : Nat) (hk : k ≠ 0) (v : V) :
    Has a k v ↔ lookup a k = some v := (lookup_eq_some_iff a k v (nodup_key inv k hk)).symm

theorem lookup_eq_of_has {idx : Nat → Nat → Nat} {a : Slots V} (inv : SInv idx a) (k : Nat) (hk : k ≠ 0)
    (o : Option V) (h : ∀ v, Has a k v ↔ o = some v) : lookup a k = o := by
  cases o with
  | none =>
    rw [lookup_eq_none_iff]
    intro p hp hkp
    have : Has a k (rd a p).2 := ⟨p, hp, by unfold key at hkp; rw [← hkp]⟩
    exact absurd ((h _).mp this) (by simp)
  | some v => exact (has_iff_lookup inv k hk v).mp ((h v).mpr rfl)

/-- **`Get` refines the abstract map.** -/
theorem get_eq_abs {idx : Nat → Nat → Nat} (hidx : IdxOk idx) {m : UMap V} (inv : Inv idx m) (k : Nat) :
    m.get idx k = abs m k := by
  unfold UMap.get abs
  by_cases hk : k = 0
  · rw [if_pos hk, if_pos hk]
  · rw [if_neg hk, if_neg hk]
    obtain ⟨hF, hE, hN⟩ := probe_spec hidx inv.slots k hk
    cases hp : probe m.data k m.data.size (idx m.data.size k) with
    | found i =>
      obtain ⟨hi, hki⟩ := hF i hp
      simp only
      symm
      rw [← has_iff_lookup inv.slots k hk]
      exact ⟨i, hi, by unfold key at hki; rw [← hki]⟩
    | empty e =>
      simp only
      symm
      rw [lookup_eq_none_iff]
      exact (hE e hp).2.2.2
    | full => exact absurd hp hN

theorem has_eq_abs {idx : Nat → Nat → Nat} (hidx : IdxOk idx) {m : UMap V} (inv : Inv idx m) (k : Nat) :
    m.has idx k = (abs m k).isSome := by
  rw [← get_eq_abs hidx inv]
  unfold UMap.has UMap.get
  split
  · rfl
  · split <;> rfl

theorem sinv_replicate (idx : Nat → Nat → Nat) (n : Nat) (hn : 0 < n) :
    SInv idx (Array.replicate n ((0, default) : Nat × V)) := by
  have hk : ∀ x, key (Array.replicate n ((0, default) : Nat × V)) x = 0 := by
    intro x; unfold key; rw [rd_replicate]
  refine ⟨?_, ?_, ⟨0, by simpa using hn, hk 0⟩⟩
  · intro i j _ _ h0; exact absurd (hk i) h0
  · intro j _ h0; exact absurd (hk j) h0

theorem not_has_replicate (n k : Nat) (v : V) (hk : k ≠ 0) :
    ¬ Has (Array.replicate n ((0, default) : Nat × V)) k v := by
  rintro ⟨p, _, h⟩
  rw [rd_replicate] at h
  simp only [Prod.mk.injEq] at h
  exact hk h.1.symm

/-- **Growth keeps the invariant and the meaning**, and leaves the load
strictly below the new threshold. -/
theorem grow_spec {idx : Nat → Nat → Nat} (hidx : IdxOk idx) {m : UMap V} (inv : Inv idx m) :
    Inv idx (m.grow idx) ∧ (∀ k, abs (m.grow idx) k = abs m k) ∧ (m.grow idx).size = m.size ∧
    occ (m.grow idx).data < (m.grow idx).growAt ∧ (m.grow idx).data.size = growLen m.data.size := by
  have hn : 0 < m.data.size := by have := inv.room; omega
  have hN := lt_growLen m.data.size hn
  have hocc : m.data.toList.countP (fun p => p.1 != 0) = occ m.data := by
    unfold occ; rw [Array.countP_toList]
  have F := reinsert_fold hidx (growLen m.data.size) m.data.toList
    (Array.replicate (growLen m.data.size) (0, default)) 0 (by simp)
    (sinv_replicate idx _ (by omega))
    (by rw [occ_replicate, hocc]; have := inv.load; have := inv.room; omega)
    (by intro p _ hp0 x _; unfold key; rw [rd_replicate]; exact Ne.symm hp0)
    (toList_pairwise m.data inv.slots)
  obtain ⟨h1, h2, h3, h4, h5⟩ := F
  rw [occ_replicate, hocc] at h3
  rw [hocc] at h4
  have hdata : (m.grow idx).data = (m.data.toList.foldl (UMap.reinsert idx)
      (Array.replicate (growLen m.data.size) (0, default), 0)).1 := rfl
  have hsize : (m.grow idx).size = (m.data.toList.foldl (UMap.reinsert idx)
      (Array.replicate (growLen m.data.size) (0, default), 0)).2 + (if m.zero.isSome then 1 else 0) := rfl
  have hzero : (m.grow idx).zero = m.zero := rfl
  have hga : (m.grow idx).growAt = growAtOf (growLen m.data.size) := rfl
  have hle := le_growAt_growLen m.data.size hn
  have hroom := inv.room
  have hload := inv.load
  refine ⟨⟨by rw [hdata]; exact h2, ?_, ?_, ?_⟩, ?_, ?_, ?_, by rw [hdata]; exact h1⟩
  · rw [hsize, hdata, hzero, h3, h4]
  · rw [hdata, hga, h3]; omega
  · rw [hdata, hga, h1]; exact growAtOf_lt _ (by omega)
  · intro k
    unfold abs
    rw [hzero]
    by_cases hk : k = 0
    · rw [if_pos hk, if_pos hk]
    · rw [if_neg hk, if_neg hk, hdata]
      apply lookup_congr _ _ k hk h2.nodup inv.slots.nodup
      intro v
      rw [h5 k v hk, mem_toList_iff]
      constructor
      · rintro (h | h)
        · exact absurd h (not_has_replicate _ k v hk)
        · exact h
      · exact Or.inr
  · rw [hsize, h4, inv.size_eq]; omega
  · rw [hdata, hga, h3]; omega


/-! ### Put -/

/-- result of storing `(k, v)` at the slot the probe returned -/
theorem store_spec {idx : Nat → Nat → Nat} (hidx : IdxOk idx) {m : UMap V} (inv : Inv idx m)
    (hlt : occ m.data < m.growAt) (k : Nat) (hk : k ≠ 0) (v : V) :
    (∀ i, probe m.data k m.data.size (idx m.data.size k) = .found i →
      Inv idx { m with data := wr m.data i (k, v) } ∧
      ∀ k', abs { m with data := wr m.data i (k, v) } k' = if k' = k then some v else abs m k') ∧
    (∀ e, probe m.data k m.data.size (idx m.data.size k) = .empty e →
      Inv idx { m with data := wr m.data e (k, v), size := m.size + 1 } ∧
      ∀ k', abs { m with data := wr m.data e (k, v), size := m.size + 1 } k' = if k' = k then some v else abs m k') ∧
    probe m.data k m.data.size (idx m.data.size k) ≠ .full := by
  obtain ⟨hF, hE, hN⟩ := probe_spec hidx inv.slots k hk
  have hroom := inv.room
  have hsz := inv.size_eq
  refine ⟨?_, ?_, hN⟩
  · intro i hp
    obtain ⟨hi, hki⟩ := hF i hp
    have hkk : (k, v) = (key m.data i, v) := by rw [hki]
    have inv' : SInv idx (wr m.data i (k, v)) := by rw [hkk]; exact sinv_update inv.slots i v
    have hocc : occ (wr m.data i (k, v)) = occ m.data := by
      have := occ_wr m.data i (k, v) hi
      simp only [hki, hk, ne_eq, not_false_eq_true, if_true] at this
      omega
    refine ⟨⟨inv', ?_, ?_, ?_⟩, ?_⟩
    · show m.size = occ (wr m.data i (k, v)) + (if m.zero.isSome then 1 else 0); rw [hocc]; exact hsz
    · show occ (wr m.data i (k, v)) ≤ m.growAt; rw [hocc]; exact inv.load
    · show m.growAt < (wr m.data i (k, v)).size; rw [size_wr]; exact hroom
    · intro k'
      unfold abs
      show (if k' = 0 then m.zero else lookup (wr m.data i (k, v)) k') = _
      by_cases hk' : k' = 0
      · rw [if_pos hk', if_pos hk', if_neg (by rw [hk']; exact Ne.symm hk)]
      · rw [if_neg hk', if_neg hk']
        apply lookup_eq_of_has inv' k' hk'
        intro v'
        rw [hkk, has_update m.data i v hi inv.slots.nodup (by rw [hki]; exact hk) k' v', hki]
        by_cases hkk' : k' = k
        · rw [if_pos hkk']
          constructor
          · rintro (⟨_, h⟩ | ⟨h, _⟩); rw [h]; exact absurd hkk' h
          · intro h; injection h with h; exact Or.inl ⟨hkk', h.symm⟩
        · rw [if_neg hkk', ← has_iff_lookup inv.slots k' hk']
          constructor
          · rintro (⟨h, _⟩ | ⟨_, h⟩); exact absurd h hkk'; exact h
          · intro h; exact Or.inr ⟨hkk', h⟩
  · intro e hp
    obtain ⟨he, hke, hpath, habs⟩ := hE e hp
    have inv' : SInv idx (wr m.data e (k, v)) :=
      sinv_insert hidx inv.slots k v e hk he hke hpath habs (by omega)
    have hocc : occ (wr m.data e (k, v)) = occ m.data + 1 := by
      have := occ_wr m.data e (k, v) he
      simp only [hke, hk, ne_eq, not_true_eq_false, not_false_eq_true, if_true, if_false] at this
      omega
    refine ⟨⟨inv', ?_, ?_, ?_⟩, ?_⟩
    · show m.size + 1 = occ (wr m.data e (k, v)) + (if m.zero.isSome then 1 else 0); rw [hocc, hsz]; omega
    · show occ (wr m.data e (k, v)) ≤ m.growAt; rw [hocc]; omega
    · show m.growAt < (wr m.data e (k, v)).size; rw [size_wr]; exact hroom
    · intro k'
      unfold abs
      show (if k' = 0 then m.zero else lookup (wr m.data e (k, v)) k') = _
      by_cases hk' : k' = 0
      · rw [if_pos hk', if_pos hk', if_neg (by rw [hk']; exact Ne.symm hk)]
      · rw [if_neg hk', if_neg hk']
        apply lookup_eq_of_has inv' k' hk'
        intro v'
        rw [has_insert m.data e k v he hke k' hk' v']
        by_cases hkk' : k' = k
        · rw [if_pos hkk']
          constructor
          · rintro (⟨_, h⟩ | ⟨p, hp', hrd⟩)
            · rw [h]
            · exact absurd (by unfold key; rw [hrd]; exact hkk') (habs p hp')
          · intro h; injection h with h; exact Or.inl ⟨hkk', h.symm⟩
        · rw [if_neg hkk', ← has_iff_lookup inv.slots k' hk']
          constructor
          · rintro (⟨h, _⟩ | h); exact absurd h hkk'; exact h
          · exact Or.inr

/-- the state after the growth check of `Put` -/
theorem growCheck_spec {idx : Nat → Nat → Nat} (hidx : IdxOk idx) {m : UMap V} (inv : Inv idx m) :
    Inv idx (if m.size ≥ m.growAt then m.grow idx else m) ∧
    (∀ k, abs (if m.size ≥ m.growAt then m.grow idx else m) k = abs m k) ∧
    (if m.size ≥ m.growAt then m.grow idx else m).size = m.size ∧
    occ (if m.size ≥ m.growAt then m.grow idx else m).data <
      (if m.size ≥ m.growAt then m.grow idx else m).growAt := by
  by_cases h : m.size ≥ m.growAt
  · rw [if_pos h]
    obtain ⟨h1, h2, h3, h4, _⟩ := grow_spec hidx inv
    exact ⟨h1, h2, h3, h4⟩
  · rw [if_neg h]
    refine ⟨inv, fun _ => rfl, rfl, ?_⟩
    have := inv.size_eq
    omega

/-- **`Put` keeps the invariant and is the abstract update.** -/
theorem put_spec {idx : Nat → Nat → Nat} (hidx : IdxOk idx) {m : UMap V} (inv : Inv idx m) (k : Nat) (v : V) :
    Inv idx (m.put idx k v) ∧ (∀ k', abs (m.put idx k v) k' = if k' = k then some v else abs m k') ∧
    (m.put idx k v).size = m.size + (if (abs m k).isSome then 0 else 1) := by
  unfold UMap.put
  by_cases hk : k = 0
  · rw [if_pos hk]
    subst hk
    refine ⟨⟨inv.slots, ?_, inv.load, inv.room⟩, ?_, ?_⟩
    · have := inv.size_eq
      show (if m.zero.isSome then m.size else m.size + 1) = occ m.data + 1
      split <;> simp_all
    · intro k'
      by_cases hk' : k' = 0
      · simp only [abs, hk', if_true]
      · simp only [abs, hk', if_false]
    · show (if m.zero.isSome then m.size else m.size + 1) = _
      simp only [abs, if_true]
      split <;> simp_all
  · rw [if_neg hk]
    obtain ⟨inv1, habs1, hsz1, hlt1⟩ := growCheck_spec hidx inv
    generalize (if m.size ≥ m.growAt then m.grow idx else m) = m1 at *
    obtain ⟨hF, hE, hN⟩ := store_spec hidx inv1 hlt1 k hk v
    have hget := get_eq_abs hidx inv1 k
    unfold UMap.get at hget
    rw [if_neg hk] at hget
    simp only
    unfold UMap.putProbe
    cases hp : probe m1.data k m1.data.size (idx m1.data.size k) with
    | found i =>
      simp only
      obtain ⟨h1, h2⟩ := hF i hp
      refine ⟨h1, fun k' => by rw [h2 k', habs1 k'], ?_⟩
      rw [hp] at hget
      rw [← habs1 k, ← hget]
      simp [hsz1]
    | empty e =>
      simp only
      obtain ⟨h1, h2⟩ := hE e hp
      refine ⟨h1, fun k' => by rw [h2 k', habs1 k'], ?_⟩
      rw [hp] at hget
      rw [← habs1 k, ← hget]
      simp [hsz1]
    | full => exact absurd hp hN


/-- **`PutIfNotExists`** stores only when the key is absent and reports the value now present. -/
theorem putIfNotExists_spec {idx : Nat → Nat → Nat} (hidx : IdxOk idx) {m : UMap V} (inv : Inv idx m)
    (k : Nat) (v : V) :
    Inv idx (m.putIfNotExists idx k v).1 ∧
    (∀ k', abs (m.putIfNotExists idx k v).1 k' =
      if k' = k then some ((abs m k).getD v) else abs m k') ∧
    (m.putIfNotExists idx k v).2.1 = (abs m k).getD v ∧
    (m.putIfNotExists idx k v).2.2 = (abs m k).isNone ∧
    (m.putIfNotExists idx k v).1.size = m.size + (if (abs m k).isSome then 0 else 1) := by
  unfold UMap.putIfNotExists
  by_cases hk : k = 0
  · rw [if_pos hk]
    subst hk
    have hz : abs m 0 = m.zero := by simp [abs]
    rw [hz]
    cases hzz : m.zero with
    | some z =>
      simp only [Option.getD_some, Option.isNone_some, Option.isSome_some, if_true, Nat.add_zero, and_true]
      refine ⟨inv, ?_⟩
      intro k'
      by_cases hk' : k' = 0
      · rw [if_pos hk', hk', hz, hzz]
      · rw [if_neg hk']
    | none =>
      simp only [Option.getD_none, Option.isNone_none, Option.isSome_none, and_true]
      refine ⟨⟨inv.slots, ?_, inv.load, inv.room⟩, ?_, by simp⟩
      · have := inv.size_eq; rw [hzz] at this
        show m.size + 1 = occ m.data + 1
        simpa using this
      · intro k'
        by_cases hk' : k' = 0
        · simp only [abs, hk', if_true]
        · simp only [abs, hk', if_false]
  · rw [if_neg hk]
    obtain ⟨inv1, habs1, hsz1, hlt1⟩ := growCheck_spec hidx inv
    generalize (if m.size ≥ m.growAt then m.grow idx else m) = m1 at *
    obtain ⟨hF, hE, hN⟩ := store_spec hidx inv1 hlt1 k hk v
    have hget := get_eq_abs hidx inv1 k
    unfold UMap.get at hget
    rw [if_neg hk] at hget
    simp only
    cases hp : probe m1.data k m1.data.size (idx m1.data.size k) with
    | found i =>
      simp only
      rw [hp] at hget
      simp only at hget
      have ha : abs m k = some (rd m1.data i).2 := by rw [← habs1 k, ← hget]
      rw [ha]
      refine ⟨inv1, ?_, by simp, by simp, by simp [hsz1]⟩
      intro k'
      by_cases hk' : k' = k
      · rw [if_pos hk', hk', ← hget]; rfl
      · rw [if_neg hk', habs1]
    | empty e =>
      simp only
      rw [hp] at hget
      simp only at hget
      obtain ⟨h1, h2⟩ := hE e hp
      have ha : abs m k = none := by rw [← habs1 k, ← hget]
      rw [ha]
      refine ⟨h1, ?_, by simp, by simp, by simp [hsz1]⟩
      intro k'
      rw [h2 k']
      by_cases hk' : k' = k
      · rw [if_pos hk', if_pos hk']; rfl
      · rw [if_neg hk', if_neg hk', habs1]
    | full => exact absurd hp hN

/-! ### Del -/

/-- clearing slot `i` with backward shift at the map level -/
theorem delAt_spec {idx : Nat → Nat → Nat} (hidx : IdxOk idx) {m : UMap V} (inv : Inv idx m)
    (i : Nat) (hi : i < m.data.size) (hk : key m.data i ≠ 0) :
    Inv idx (m.delAt idx i) ∧
    (∀ k', abs (m.delAt idx i) k' = if k' = key m.data i then none else abs m k') ∧
    (m.delAt idx i).size + 1 = m.size ∧ (m.delAt idx i).data.size = m.data.size ∧
    (m.delAt idx i).zero = m.zero ∧ (m.delAt idx i).growAt = m.growAt ∧
    (∀ x, x < m.data.size → key (m.delAt idx i).data x ≠ 0 → ∃ y, y < m.data.size ∧ y ≠ i ∧
      rd m.data y = rd (m.delAt idx i).data x ∧ dist m.data.size i x ≤ dist m.data.size i y) := by
  obtain ⟨h1, h2, h3, h4, h5⟩ := delAt_slots hidx inv.slots i hi hk
  have hsz := inv.size_eq
  have hd : (m.delAt idx i).data = backShift idx m.data.size (wr m.data i (0, default)) m.data.size i i := rfl
  refine ⟨⟨by rw [hd]; exact h1, ?_, ?_, ?_⟩, ?_, ?_, by rw [hd]; exact h2, rfl, rfl, by rw [hd]; exact h5⟩
  · show m.size - 1 = occ (m.delAt idx i).data + (if m.zero.isSome then 1 else 0)
    rw [hd]; omega
  · show occ (m.delAt idx i).data ≤ m.growAt
    have := inv.load; rw [hd]; omega
  · show m.growAt < (m.delAt idx i).data.size
    rw [hd, h2]; exact inv.room
  · intro k'
    unfold abs
    show (if k' = 0 then m.zero else lookup (m.delAt idx i).data k') = _
    by_cases hk' : k' = 0
    · rw [if_pos hk', if_pos hk', if_neg (by rw [hk']; exact Ne.symm hk)]
    · rw [if_neg hk', if_neg hk', hd]
      apply lookup_eq_of_has h1 k' hk'
      intro v'
      rw [h4 k' v' hk']
      by_cases hkk : k' = key m.data i
      · rw [if_pos hkk]
        constructor
        · rintro ⟨h, _⟩; exact absurd hkk h
        · intro h; cases h
      · rw [if_neg hkk, ← has_iff_lookup inv.slots k' hk']
        exact ⟨fun h => h.2, fun h => ⟨hkk, h⟩⟩
  · show m.size - 1 + 1 = m.size
    omega

/-- **`Del` keeps the invariant and is the abstract erase**; no other key is
lost, duplicated or miscounted. -/
theorem del_spec {idx : Nat → Nat → Nat} (hidx : IdxOk idx) {m : UMap V} (inv : Inv idx m) (k : Nat) :
    Inv idx (m.del idx k).1 ∧ (∀ k', abs (m.del idx k).1 k' = if k' = k then none else abs m k') ∧
    (m.del idx k).2 = (abs m k).isSome ∧
    (m.del idx k).1.size + (if (abs m k).isSome then 1 else 0) = m.size := by
  unfold UMap.del
  by_cases hk : k = 0
  · rw [if_pos hk]
    subst hk
    have hz : abs m 0 = m.zero := by simp [abs]
    rw [hz]
    have hsz := inv.size_eq
    by_cases hzz : m.zero.isSome
    · rw [if_pos hzz]
      simp only [hzz, if_true, true_and]
      refine ⟨⟨inv.slots, ?_, inv.load, inv.room⟩, ?_, ?_⟩
      · show m.size - 1 = occ m.data + 0
        rw [hzz] at hsz; simp only [if_true] at hsz; omega
      · intro k'
        by_cases hk' : k' = 0
        · simp only [abs, hk', if_true]
        · simp only [abs, hk', if_false]
      · show m.size - 1 + 1 = m.size
        rw [hzz] at hsz; simp only [if_true] at hsz; omega
    · rw [if_neg hzz]
      refine ⟨inv, ?_, by simpa using hzz, by simp [hzz]⟩
      intro k'
      by_cases hk' : k' = 0
      · rw [if_pos hk', hk', hz]; simpa using hzz
      · rw [if_neg hk']
  · rw [if_neg hk]
    obtain ⟨hF, hE, hN⟩ := probe_spec hidx inv.slots k hk
    have hget := get_eq_abs hidx inv k
    unfold UMap.get at hget
    rw [if_neg hk] at hget
    cases hp : probe m.data k m.data.size (idx m.data.size k) with
    | found i =>
      simp only
      rw [hp] at hget
      simp only at hget
      obtain ⟨hi, hki⟩ := hF i hp
      obtain ⟨h1, h2, h3, _⟩ := delAt_spec hidx inv i hi (by rw [hki]; exact hk)
      rw [hki] at h2
      rw [← hget]
      simp only [Option.isSome_some, if_true, true_and]
      exact ⟨h1, h2, h3⟩
    | empty e =>
      simp only
      rw [hp] at hget
      simp only at hget
      rw [← hget]
      refine ⟨inv, ?_, by simp, by simp⟩
      intro k'
      by_cases hk' : k' = k
      · rw [if_pos hk', hk', ← hget]
      · rw [if_neg hk']
    | full => exact absurd hp hN

/-! ### Clear, New -/

theorem clear_spec {idx : Nat → Nat → Nat} {m : UMap V} (inv : Inv idx m) :
    Inv idx m.clear ∧ (∀ k, abs m.clear k = none) ∧ m.clear.size = 0 := by
  have hn : 0 < m.data.size := by have := inv.room; omega
  refine ⟨⟨sinv_replicate idx _ hn, ?_, ?_, ?_⟩, ?_, rfl⟩
  · show 0 = occ (Array.replicate m.data.size (0, default)) + 0
    rw [occ_replicate]
  · show occ (Array.replicate m.data.size (0, default)) ≤ m.growAt
    rw [occ_replicate]; omega
  · show m.growAt < (Array.replicate m.data.size ((0, default) : Nat × V)).size
    simpa using inv.room
  · intro k
    unfold abs
    show (if k = 0 then none else lookup (Array.replicate m.data.size (0, default)) k) = none
    split
    · rfl
    · rename_i hk
      rw [lookup_eq_none_iff]
      intro p _
      unfold key; rw [rd_replicate]; exact Ne.symm hk

theorem new_spec (idx : Nat → Nat → Nat) (capacity : Nat) :
    Inv idx (UMap.new capacity : UMap V) ∧ (∀ k, abs (UMap.new capacity : UMap V) k = none) ∧
    (UMap.new capacity : UMap V).size = 0 := by
  have hpos : 0 < (if capacity > 8 then ceilPow2 (capacity * 4 / 3) else 8) := by
    split
    · have := le_ceilPow2 (capacity * 4 / 3); omega
    · omega
  generalize hN : (if capacity > 8 then ceilPow2 (capacity * 4 / 3) else 8) = N at hpos
  have hd : (UMap.new capacity : UMap V).data = Array.replicate N (0, default) := by
    unfold UMap.new; simp only [hN]
  have hg : (UMap.new capacity : UMap V).growAt = growAtOf N := by
    unfold UMap.new; simp only [hN]
  refine ⟨⟨by rw [hd]; exact sinv_replicate idx _ hpos, ?_, ?_, ?_⟩, ?_, rfl⟩
  · rw [hd, occ_replicate]; rfl
  · rw [hd, occ_replicate]; omega
  · rw [hd, hg]; simpa using growAtOf_lt N hpos
  · intro k
    unfold abs
    rw [hd]
    show (if k = 0 then none else _) = none
    split
    · rfl
    · rename_i hk
      rw [lookup_eq_none_iff]
      intro p _
      unfold key; rw [rd_replicate]; exact Ne.symm hk


/-! ### EvictKeysAt -/

theorem occ_of_inv {idx : Nat → Nat → Nat} {m : UMap V} (inv : Inv idx m) :
    occ m.data = m.size - (if m.zero.isSome then 1 else 0) := by
  have := inv.size_eq; omega

/-- safety of the scan loop: only deletions, never `skip`, never more than `n`. -/
theorem evictLoop_spec {idx : Nat → Nat → Nat} (hidx : IdxOk idx) (skip n : Nat) :
    ∀ (f : Nat) (m : UMap V) (c s d : Nat), Inv idx m → d ≤ n →
      Inv idx (UMap.evictLoop idx skip n m f c s d).1 ∧
      (UMap.evictLoop idx skip n m f c s d).1.data.size = m.data.size ∧
      (UMap.evictLoop idx skip n m f c s d).1.zero = m.zero ∧
      (UMap.evictLoop idx skip n m f c s d).1.growAt = m.growAt ∧
      d ≤ (UMap.evictLoop idx skip n m f c s d).2 ∧ (UMap.evictLoop idx skip n m f c s d).2 ≤ n ∧
      (UMap.evictLoop idx skip n m f c s d).1.size + ((UMap.evictLoop idx skip n m f c s d).2 - d) = m.size ∧
      ((UMap.evictLoop idx skip n m f c s d).2 = d → (UMap.evictLoop idx skip n m f c s d).1 = m) ∧
      ∀ k, abs (UMap.evictLoop idx skip n m f c s d).1 k = abs m k ∨
        (abs (UMap.evictLoop idx skip n m f c s d).1 k = none ∧ k ≠ skip ∧ k ≠ 0) := by
  intro f
  induction f with
  | zero =>
    intro m c s d inv hd
    have e : UMap.evictLoop idx skip n m 0 c s d = (m, d) := rfl
    rw [e]
    exact ⟨inv, rfl, rfl, rfl, Nat.le_refl _, hd, by simp, fun _ => rfl, fun _ => Or.inl rfl⟩
  | succ f ih =>
    intro m c s d inv hd
    unfold UMap.evictLoop
    by_cases hc : s < m.data.size ∧ d < n
    · rw [if_pos hc]
      by_cases hk : (rd m.data c).1 = 0 ∨ (rd m.data c).1 = skip
      · rw [if_pos hk]
        exact ih m _ _ d inv hd
      · rw [if_neg hk]
        have hk0 : key m.data c ≠ 0 := fun h => hk (Or.inl h)
        have hks : key m.data c ≠ skip := fun h => hk (Or.inr h)
        have hcs : c < m.data.size := by
          apply Classical.byContradiction; intro h
          exact hk0 (key_oob m.data c (by omega))
        obtain ⟨i1, a1, s1, z1, e1, g1, _⟩ := delAt_spec hidx inv c hcs hk0
        obtain ⟨h1, h2, h3, h4, h5, h6, h7, h8, h9⟩ := ih (m.delAt idx c) c s (d + 1) i1 (by omega)
        refine ⟨h1, by rw [h2, z1], by rw [h3, e1], by rw [h4, g1], by omega, h6, by omega, by omega, ?_⟩
        intro k
        rcases h9 k with h | h
        · rw [h, a1 k]
          by_cases hkk : k = key m.data c
          · rw [if_pos hkk]; exact Or.inr ⟨rfl, by rw [hkk]; exact hks, by rw [hkk]; exact hk0⟩
          · rw [if_neg hkk]; exact Or.inl rfl
        · exact Or.inr h
    · rw [if_neg hc]
      exact ⟨inv, rfl, rfl, rfl, Nat.le_refl _, hd, by simp, fun _ => rfl, fun _ => Or.inl rfl⟩

/-- completeness of the scan loop: if it stops short of its quota, nothing
evictable is left in the slots. -/
theorem evictLoop_complete {idx : Nat → Nat → Nat} (hidx : IdxOk idx) (skip n : Nat) :
    ∀ (f : Nat) (m : UMap V) (c s d : Nat), Inv idx m → c < m.data.size → s ≤ m.data.size →
      (∀ x, x < m.data.size → m.data.size ≤ dist m.data.size c x + s →
        key m.data x = 0 ∨ key m.data x = skip) →
      (m.data.size - s) + occ m.data < f →
      (UMap.evictLoop idx skip n m f c s d).2 < n →
      ∀ x, x < m.data.size → key (UMap.evictLoop idx skip n m f c s d).1.data x = 0 ∨
        key (UMap.evictLoop idx skip n m f c s d).1.data x = skip := by
  intro f
  induction f with
  | zero => intro m c s d _ _ _ _ hf; omega
  | succ f ih =>
    intro m c s d inv hc hs hscan hf
    unfold UMap.evictLoop
    by_cases hcond : s < m.data.size ∧ d < n
    · rw [if_pos hcond]
      by_cases hk : (rd m.data c).1 = 0 ∨ (rd m.data c).1 = skip
      · rw [if_pos hk]
        have hn : next m.data.size c < m.data.size := next_lt (by omega)
        apply ih m (next m.data.size c) (s + 1) d inv hn (by omega) _ (by omega)
        intro x hx hreg
        by_cases hxc : x = c
        · rw [hxc]; exact hk
        · apply hscan x hx
          have : dist m.data.size (next m.data.size c) x + 1 = dist m.data.size c x :=
            cyc_advance hc hx hxc
          omega
      · rw [if_neg hk]
        have hk0 : key m.data c ≠ 0 := fun h => hk (Or.inl h)
        obtain ⟨i1, _, s1, z1, e1, _, mv⟩ := delAt_spec hidx inv c hc hk0
        have hocc : occ (m.delAt idx c).data + 1 = occ m.data := by
          rw [occ_of_inv i1, occ_of_inv inv, e1]
          have := inv.size_eq
          have := occ_pos m.data c hc hk0
          omega
        intro hlt
        have := ih (m.delAt idx c) c s (d + 1) i1 (by rw [z1]; exact hc) (by rw [z1]; exact hs)
          (by
            intro x hx hreg
            rw [z1] at hx hreg
            by_cases hkx : key (m.delAt idx c).data x = 0
            · exact Or.inl hkx
            · obtain ⟨y, hy, _, hrd, hd⟩ := mv x hx hkx
              have hyk : key m.data y = key (m.delAt idx c).data x := by unfold key; rw [hrd]
              rcases hscan y hy (by omega) with h | h
              · rw [hyk] at h; exact absurd h hkx
              · rw [hyk] at h; exact Or.inr h)
          (by rw [z1]; omega) hlt
        intro x hx
        exact this x (by rw [z1]; exact hx)
    · rw [if_neg hcond]
      intro hlt x hx
      exact hscan x hx (by simp only at hlt; omega)

/-- **`EvictKeysAt`** removes at most `n` keys, never `skip`, keeps the value
of every key it leaves, keeps the invariant, and accounts for each removal. -/
theorem evict_spec {idx : Nat → Nat → Nat} (hidx : IdxOk idx) {m : UMap V} (inv : Inv idx m)
    (offset n skip : Nat) :
    Inv idx (m.evictKeysAt idx offset n skip).1 ∧
    (m.evictKeysAt idx offset n skip).2 ≤ n ∧
    (m.evictKeysAt idx offset n skip).1.size + (m.evictKeysAt idx offset n skip).2 = m.size ∧
    ((m.evictKeysAt idx offset n skip).2 = 0 → (m.evictKeysAt idx offset n skip).1 = m) ∧
    (∀ k, abs (m.evictKeysAt idx offset n skip).1 k = abs m k ∨
      (abs (m.evictKeysAt idx offset n skip).1 k = none ∧ k ≠ skip)) := by
  unfold UMap.evictKeysAt
  by_cases h0 : n = 0 ∨ m.data.size = 0
  · rw [if_pos h0]
    exact ⟨inv, by simp, by simp, fun _ => rfl, fun _ => Or.inl rfl⟩
  · rw [if_neg h0]
    obtain ⟨h1, h2, h3, h4, h5, h6, h7, h8, h9⟩ :=
      evictLoop_spec hidx skip n (2 * m.data.size + 1) m (offset % m.data.size) 0 0 inv (by omega)
    generalize UMap.evictLoop idx skip n m (2 * m.data.size + 1) (offset % m.data.size) 0 0 = r at *
    simp only
    by_cases hz : r.2 < n ∧ r.1.zero.isSome ∧ skip ≠ 0
    · rw [if_pos hz]
      have hsz := h1.size_eq
      rw [hz.2.1] at hsz
      simp only [if_true] at hsz
      refine ⟨⟨h1.slots, ?_, h1.load, h1.room⟩, by show r.2 + 1 ≤ n; omega, ?_, ?_, ?_⟩
      · show r.1.size - 1 = occ r.1.data + 0; omega
      · show r.1.size - 1 + (r.2 + 1) = m.size; omega
      · intro h; exact absurd h (by show r.2 + 1 ≠ 0; omega)
      · intro k
        by_cases hk : k = 0
        · right; subst hk; exact ⟨by simp [abs], Ne.symm hz.2.2⟩
        · rcases h9 k with h | h
          · left; rw [← h]; simp only [abs, hk, if_false]
          · right; refine ⟨?_, h.2.1⟩; rw [← h.1]; simp only [abs, hk, if_false]
    · rw [if_neg hz]
      refine ⟨h1, h6, by omega, fun h => h8 (by omega), ?_⟩
      intro k
      rcases h9 k with h | h
      · exact Or.inl h
      · exact Or.inr ⟨h.1, h.2.1⟩

/-- completeness: stopping short of the quota means only `skip` is left. -/
theorem evict_complete {idx : Nat → Nat → Nat} (hidx : IdxOk idx) {m : UMap V} (inv : Inv idx m)
    (offset n skip : Nat) (hlt : (m.evictKeysAt idx offset n skip).2 < n) :
    ∀ k, abs (m.evictKeysAt idx offset n skip).1 k ≠ none → k = skip := by
  have hn : 0 < m.data.size := by have := inv.room; omega
  unfold UMap.evictKeysAt at hlt ⊢
  have h0 : ¬ (n = 0 ∨ m.data.size = 0) := by omega
  rw [if_neg h0] at hlt ⊢
  obtain ⟨h1, h2, h3, _⟩ :=
    evictLoop_spec hidx skip n (2 * m.data.size + 1) m (offset % m.data.size) 0 0 inv (by omega)
  have hcomp := evictLoop_complete hidx skip n (2 * m.data.size + 1) m (offset % m.data.size) 0 0 inv
    (Nat.mod_lt _ hn) (by omega) (by intro x hx h; have := dist_lt (Nat.mod_lt offset hn) hx; omega)
    (by have := occ_le_size m.data; omega)
  generalize UMap.evictLoop idx skip n m (2 * m.data.size + 1) (offset % m.data.size) 0 0 = r at *
  simp only at hlt ⊢
  have hslots : r.2 < n → ∀ k, k ≠ 0 → lookup r.1.data k ≠ none → k = skip := by
    intro hr k hk hl
    apply Classical.byContradiction
    intro hks
    apply hl
    rw [lookup_eq_none_iff]
    intro p hp hkp
    rcases hcomp hr p (by rw [← h2]; exact hp) with h | h
    · rw [hkp] at h; exact hk h
    · rw [hkp] at h; exact hks h
  by_cases hz : r.2 < n ∧ r.1.zero.isSome ∧ skip ≠ 0
  · rw [if_pos hz] at hlt ⊢
    intro k hk
    by_cases hk0 : k = 0
    · subst hk0; simp [abs] at hk
    · apply hslots hz.1 k hk0
      simpa only [abs, hk0, if_false] using hk
  · rw [if_neg hz] at hlt ⊢
    intro k hk
    by_cases hk0 : k = 0
    · subst hk0
      simp only [abs, if_true] at hk
      apply Classical.byContradiction
      intro hs
      have hsome : r.1.zero.isSome = true := by
        cases h : r.1.zero with
        | none => exact absurd h hk
        | some _ => rfl
      exact hz ⟨hlt, hsome, fun h => hs h.symm⟩
    · apply hslots hlt k hk0
      simpa only [abs, hk0, if_false] using hk

/-- progress: with a positive quota and an evictable key present, at least one key goes. -/
theorem evict_progress {idx : Nat → Nat → Nat} (hidx : IdxOk idx) {m : UMap V} (inv : Inv idx m)
    (offset n skip : Nat) (hn : 0 < n) (k : Nat) (hk : k ≠ skip) (hp : abs m k ≠ none) :
    1 ≤ (m.evictKeysAt idx offset n skip).2 := by
  apply Classical.byContradiction
  intro h
  have h0 : (m.evictKeysAt idx offset n skip).2 = 0 := by omega
  have heq := (evict_spec hidx inv offset n skip).2.2.2.1 h0
  have := evict_complete hidx inv offset n skip (by omega) k (by rw [heq]; exact hp)
  exact hk this


/-! ### the segmented table -/

/-- the mixers stay in range -/
structure HashOk (H : Hashes) : Prop where
  idx : IdxOk H.idx
  seg : ∀ n k, 0 < n → H.seg n k < n

/-- sum of the per-segment sizes -/
def total (m : SegMap V) : Int := (m.segs.toList.map (fun s => (s.size : Int))).sum

/-- abstraction of the segmented table: the key's home segment decides -/
def sabs (H : Hashes) (m : SegMap V) (k : Nat) : Option V := abs (m.segAt (SegMap.segOf H m k)) k

structure SegInv (H : Hashes) (m : SegMap V) : Prop where
  nseg : 0 < m.segs.size
  segs : ∀ i, i < m.segs.size → Inv H.idx (m.segAt i)
  /-- a segment only holds keys that hash to it -/
  home : ∀ i, i < m.segs.size → ∀ k, abs (m.segAt i) k ≠ none → H.seg m.segs.size k = i
  /-- the atomic counter equals the number of stored entries -/
  count : m.count = total m

theorem segAt_set (m : SegMap V) (i j : Nat) (s : UMap V) (c : Int) :
    SegMap.segAt { segs := m.segs.setIfInBounds i s, count := c } j =
      if i = j ∧ i < m.segs.size then s else m.segAt j := by
  simp only [SegMap.segAt, Array.getD_eq_getD_getElem?, Array.getElem?_setIfInBounds]
  grind

theorem sum_set (l : List (UMap V)) (i : Nat) (s : UMap V) (h : i < l.length) :
    ((l.set i s).map (fun s => (s.size : Int))).sum =
      (l.map (fun s => (s.size : Int))).sum - (l[i].size : Int) + (s.size : Int) := by
  induction l generalizing i with
  | nil => simp at h
  | cons x t ih =>
    cases i with
    | zero => simp only [List.set_cons_zero, List.map_cons, List.sum_cons, List.getElem_cons_zero]; omega
    | succ i =>
      simp only [List.set_cons_succ, List.map_cons, List.sum_cons, List.getElem_cons_succ]
      rw [ih i (by simpa using h)]
      omega

theorem segAt_eq_getElem (m : SegMap V) (i : Nat) (h : i < m.segs.size) : m.segAt i = m.segs[i] := by
  simp [SegMap.segAt, Array.getD_eq_getD_getElem?, h]

theorem total_set (m : SegMap V) (i : Nat) (s : UMap V) (c : Int) (h : i < m.segs.size) :
    total { segs := m.segs.setIfInBounds i s, count := c } = total m - ((m.segAt i).size : Int) + (s.size : Int) := by
  unfold total
  simp only [Array.toList_setIfInBounds]
  rw [sum_set _ i s (by simpa using h), segAt_eq_getElem m i h]
  simp

/-- replacing one segment by a table that still only holds its own keys -/
theorem seginv_set {H : Hashes} {m : SegMap V} (inv : SegInv H m) (i : Nat) (hi : i < m.segs.size)
    (s : UMap V) (c : Int) (hs : Inv H.idx s)
    (hhome : ∀ k, abs s k ≠ none → H.seg m.segs.size k = i)
    (hc : c = m.count - ((m.segAt i).size : Int) + (s.size : Int)) :
    SegInv H { segs := m.segs.setIfInBounds i s, count := c } := by
  have hsz : ({ segs := m.segs.setIfInBounds i s, count := c } : SegMap V).segs.size = m.segs.size := by simp
  refine ⟨by rw [hsz]; exact inv.nseg, ?_, ?_, ?_⟩
  · intro j hj
    rw [hsz] at hj
    rw [segAt_set]
    split
    · exact hs
    · exact inv.segs j hj
  · intro j hj k hk
    rw [hsz] at hj ⊢
    rw [segAt_set] at hk
    split at hk
    · rename_i h; rw [← h.1]; exact hhome k hk
    · exact inv.home j hj k hk
  · rw [total_set m i s c hi, ← inv.count]; exact hc

theorem sabs_set {H : Hashes} (m : SegMap V) (i : Nat) (hi : i < m.segs.size) (s : UMap V) (c : Int) (k : Nat) :
    sabs H { segs := m.segs.setIfInBounds i s, count := c } k =
      if SegMap.segOf H m k = i then abs s k else sabs H m k := by
  unfold sabs SegMap.segOf
  simp only [Array.size_setIfInBounds]
  rw [segAt_set]
  by_cases h : H.seg m.segs.size k = i
  · rw [if_pos h, if_pos ⟨h.symm, hi⟩]
  · rw [if_neg h, if_neg (by intro h'; exact h h'.1.symm)]

theorem segOf_lt {H : Hashes} (hH : HashOk H) {m : SegMap V} (inv : SegInv H m) (k : Nat) :
    SegMap.segOf H m k < m.segs.size := hH.seg _ k inv.nseg

theorem home' {H : Hashes} {m : SegMap V} (inv : SegInv H m) (i : Nat) (hi : i < m.segs.size) (k : Nat)
    (hk : abs (m.segAt i) k ≠ none) : SegMap.segOf H m k = i := inv.home i hi k hk

theorem seg_get_eq {H : Hashes} (hH : HashOk H) {m : SegMap V} (inv : SegInv H m) (k : Nat) :
    m.get H k = sabs H m k := by
  unfold SegMap.get sabs
  exact get_eq_abs hH.idx (inv.segs _ (segOf_lt hH inv k)) k

/-- **`Set`** is the abstract update and counts a new key exactly once. -/
theorem seg_set_spec {H : Hashes} (hH : HashOk H) {m : SegMap V} (inv : SegInv H m) (k : Nat) (v : V) :
    SegInv H (m.set H k v) ∧ (∀ k', sabs H (m.set H k v) k' = if k' = k then some v else sabs H m k') ∧
    (m.set H k v).count = m.count + (if (sabs H m k).isSome then 0 else 1) := by
  have hi := segOf_lt hH inv k
  obtain ⟨p1, p2, p3⟩ := put_spec hH.idx (inv.segs _ hi) k v
  have hcount : (m.set H k v).count = m.count + (if (sabs H m k).isSome then 0 else 1) := by
    show (if ((m.segAt (SegMap.segOf H m k)).put H.idx k v).len > (m.segAt (SegMap.segOf H m k)).len then m.count + 1 else m.count) = _
    unfold UMap.len sabs
    rw [p3]
    split <;> split <;> omega
  refine ⟨?_, ?_, hcount⟩
  · apply seginv_set inv _ hi _ _ p1
    · intro k' hk'
      rw [p2 k'] at hk'
      by_cases h : k' = k
      · rw [h]; rfl
      · rw [if_neg h] at hk'; exact inv.home _ hi k' hk'
    · refine hcount.trans ?_
      unfold sabs
      rw [p3]
      split <;> omega
  · intro k'
    show sabs H { segs := m.segs.setIfInBounds (SegMap.segOf H m k) _, count := _ } k' = _
    rw [sabs_set m _ hi]
    by_cases hk' : k' = k
    · rw [if_pos hk', hk', if_pos rfl, p2 k, if_pos rfl]
    · rw [if_neg hk']
      split
      · rename_i h
        rw [p2 k', if_neg hk']
        unfold sabs; rw [h]
      · rfl

/-- **`Del`** is the abstract erase and uncounts exactly a stored key. -/
theorem seg_del_spec {H : Hashes} (hH : HashOk H) {m : SegMap V} (inv : SegInv H m) (k : Nat) :
    SegInv H (m.del H k).1 ∧ (∀ k', sabs H (m.del H k).1 k' = if k' = k then none else sabs H m k') ∧
    (m.del H k).2 = (sabs H m k).isSome ∧
    (m.del H k).1.count = m.count - (if (sabs H m k).isSome then 1 else 0) := by
  have hi := segOf_lt hH inv k
  obtain ⟨p1, p2, p3, p4⟩ := del_spec hH.idx (inv.segs _ hi) k
  have hcount : (m.del H k).1.count = m.count - (if (sabs H m k).isSome then 1 else 0) := by
    show (if ((m.segAt (SegMap.segOf H m k)).del H.idx k).2 then m.count - 1 else m.count) = _
    unfold sabs
    rw [p3]
    split <;> simp_all
  refine ⟨?_, ?_, p3, hcount⟩
  · apply seginv_set inv _ hi _ _ p1
    · intro k' hk'
      rw [p2 k'] at hk'
      by_cases h : k' = k
      · rw [h]; rfl
      · rw [if_neg h] at hk'; exact inv.home _ hi k' hk'
    · refine hcount.trans ?_
      unfold sabs
      split at p4 <;> simp_all <;> omega
  · intro k'
    show sabs H { segs := m.segs.setIfInBounds (SegMap.segOf H m k) _, count := _ } k' = _
    rw [sabs_set m _ hi]
    by_cases hk' : k' = k
    · rw [if_pos hk', hk', if_pos rfl, p2 k, if_pos rfl]
    · rw [if_neg hk']
      split
      · rename_i h
        rw [p2 k', if_neg hk']
        unfold sabs; rw [h]
      · rfl


/-! ### SetWithCap -/

theorem exists_key_of_size_pos {idx : Nat → Nat → Nat} {s : UMap V} (inv : Inv idx s) (h : 0 < s.size) :
    ∃ k, abs s k ≠ none := by
  by_cases hz : s.zero.isSome
  · refine ⟨0, ?_⟩
    simp only [abs, if_true]
    intro h0; rw [h0] at hz; cases hz
  · have hsz := inv.size_eq
    rw [if_neg hz] at hsz
    have hpos : 0 < occ s.data := by omega
    unfold occ at hpos
    rw [Array.countP_pos_iff] at hpos
    obtain ⟨x, hx, hx0⟩ := hpos
    obtain ⟨p, hp, hxp⟩ := Array.mem_iff_getElem.mp hx
    have hk : x.1 ≠ 0 := by simpa using hx0
    refine ⟨x.1, ?_⟩
    simp only [abs, hk, if_false]
    intro hnone
    rw [lookup_eq_none_iff] at hnone
    exact hnone p hp (by unfold key; rw [rd_eq_getElem _ p hp, hxp])

theorem size_zero_of_empty {idx : Nat → Nat → Nat} {s : UMap V} (inv : Inv idx s)
    (h : ∀ k, abs s k = none) : s.size = 0 := by
  apply Classical.byContradiction
  intro hne
  obtain ⟨k, hk⟩ := exists_key_of_size_pos inv (by omega)
  exact hk (h k)

/-- a table whose only key is `k` has at most one entry -/
theorem size_le_one_of_only {idx : Nat → Nat → Nat} (hidx : IdxOk idx) {s : UMap V} (inv : Inv idx s) (k : Nat)
    (h : ∀ k', abs s k' ≠ none → k' = k) : s.size ≤ 1 := by
  obtain ⟨d1, d2, _, d4⟩ := del_spec hidx inv k
  have : (s.del idx k).1.size = 0 := by
    apply size_zero_of_empty d1
    intro k'
    rw [d2 k']
    by_cases hk : k' = k
    · rw [if_pos hk]
    · rw [if_neg hk]
      apply Classical.byContradiction
      intro hne; exact hk (h k' hne)
  split at d4 <;> omega

/-- one eviction call on segment `j`, as done by `SetWithCap` -/
def evictSeg (H : Hashes) (m : SegMap V) (j offset n skip : Nat) : SegMap V :=
  { segs := m.segs.setIfInBounds j ((m.segAt j).evictKeysAt H.idx offset n skip).1
    count := m.count - (((m.segAt j).evictKeysAt H.idx offset n skip).2 : Nat) }

def evictCnt (H : Hashes) (m : SegMap V) (j offset n skip : Nat) : Nat :=
  ((m.segAt j).evictKeysAt H.idx offset n skip).2

theorem spill_succ (H : Hashes) (k : Nat) (cap : Int) (si offset : Nat) (m : SegMap V) (f i deficit : Nat) :
    SegMap.spill H k cap si offset m (f + 1) i deficit =
      if i < m.segs.size ∧ deficit > 0 then
        if m.count ≤ cap then m else
          SegMap.spill H k cap si offset (evictSeg H m ((si + i) % m.segs.size) offset deficit k) f (i + 1)
            (deficit - evictCnt H m ((si + i) % m.segs.size) offset deficit k)
      else m := rfl

theorem evictSeg_size (H : Hashes) (m : SegMap V) (j offset n skip : Nat) :
    (evictSeg H m j offset n skip).segs.size = m.segs.size := by simp [evictSeg]

theorem evictSeg_count (H : Hashes) (m : SegMap V) (j offset n skip : Nat) :
    (evictSeg H m j offset n skip).count = m.count - (evictCnt H m j offset n skip : Nat) := rfl

theorem seg_evict_step {H : Hashes} (hH : HashOk H) {m : SegMap V} (inv : SegInv H m) (j : Nat)
    (hj : j < m.segs.size) (offset n skip : Nat) :
    SegInv H (evictSeg H m j offset n skip) ∧
    (∀ k', sabs H (evictSeg H m j offset n skip) k' = sabs H m k' ∨
      (sabs H (evictSeg H m j offset n skip) k' = none ∧ k' ≠ skip)) := by
  obtain ⟨e1, e2, e3, e4, e5⟩ := evict_spec hH.idx (inv.segs j hj) offset n skip
  refine ⟨?_, ?_⟩
  · apply seginv_set inv j hj _ _ e1
    · intro k' hk'
      rcases e5 k' with h | h
      · rw [h] at hk'; exact inv.home j hj k' hk'
      · exact absurd h.1 hk'
    · omega
  · intro k'
    unfold evictSeg
    rw [sabs_set m j hj]
    split
    · rename_i hh
      rcases e5 k' with h | h
      · left; rw [h]; unfold sabs; rw [hh]
      · right; exact h
    · left; rfl

/-- the spill loop only evicts: invariant kept, counter never grows, the key being written is never touched. -/
theorem spill_spec {H : Hashes} (hH : HashOk H) (k : Nat) (cap : Int) (si offset : Nat) :
    ∀ (f : Nat) (m : SegMap V) (i deficit : Nat), SegInv H m →
      SegInv H (SegMap.spill H k cap si offset m f i deficit) ∧
      (SegMap.spill H k cap si offset m f i deficit).count ≤ m.count ∧
      (SegMap.spill H k cap si offset m f i deficit).segs.size = m.segs.size ∧
      ∀ k', sabs H (SegMap.spill H k cap si offset m f i deficit) k' = sabs H m k' ∨
        (sabs H (SegMap.spill H k cap si offset m f i deficit) k' = none ∧ k' ≠ k) := by
  intro f
  induction f with
  | zero => intro m i deficit inv; exact ⟨inv, Int.le_refl _, rfl, fun _ => Or.inl rfl⟩
  | succ f ih =>
    intro m i deficit inv
    rw [spill_succ]
    by_cases hc : i < m.segs.size ∧ deficit > 0
    · rw [if_pos hc]
      by_cases hcap : m.count ≤ cap
      · rw [if_pos hcap]; exact ⟨inv, Int.le_refl _, rfl, fun _ => Or.inl rfl⟩
      · rw [if_neg hcap]
        have hni : (si + i) % m.segs.size < m.segs.size := Nat.mod_lt _ inv.nseg
        obtain ⟨s1, s2⟩ := seg_evict_step hH inv _ hni offset deficit k
        obtain ⟨h1, h2, h3, h4⟩ := ih _ (i + 1)
          (deficit - evictCnt H m ((si + i) % m.segs.size) offset deficit k) s1
        refine ⟨h1, ?_, by rw [h3, evictSeg_size], ?_⟩
        · rw [evictSeg_count] at h2
          have : (0 : Int) ≤ (evictCnt H m ((si + i) % m.segs.size) offset deficit k : Nat) := Int.natCast_nonneg _
          omega
        · intro k'
          rcases h4 k' with h | h
          · rcases s2 k' with h' | h'
            · left; rw [h, h']
            · right; rw [h]; exact h'
          · right; exact h
    · rw [if_neg hc]; exact ⟨inv, Int.le_refl _, rfl, fun _ => Or.inl rfl⟩

theorem add_mod_cases (a b n : Nat) (ha : a < n) (hb : b < n) :
    (a + b) % n = if a + b < n then a + b else a + b - n := by
  split
  · rename_i h; exact Nat.mod_eq_of_lt h
  · rename_i h
    rw [Nat.mod_eq_sub_mod (by omega), Nat.mod_eq_of_lt (by omega)]

/-- the spill loop finds a victim if any other segment holds an entry -/
theorem spill_progress {H : Hashes} (hH : HashOk H) (k : Nat) (cap : Int) (si offset : Nat) :
    ∀ (f : Nat) (m : SegMap V) (i deficit : Nat), SegInv H m → SegMap.segOf H m k = si →
      0 < deficit → cap < m.count → m.segs.size ≤ f + i → 1 ≤ i →
      (∀ i', 1 ≤ i' → i' < i → (m.segAt ((si + i') % m.segs.size)).size = 0) →
      (SegMap.spill H k cap si offset m f i deficit).count < m.count ∨
      (∀ i', 1 ≤ i' → i' < m.segs.size → (m.segAt ((si + i') % m.segs.size)).size = 0) := by
  intro f
  induction f with
  | zero =>
    intro m i deficit inv hsi hd hcap hf hi hz
    right; intro i' h1 h2; exact hz i' h1 (by omega)
  | succ f ih =>
    intro m i deficit inv hsi hd hcap hf hi hz
    rw [spill_succ]
    by_cases hc : i < m.segs.size ∧ deficit > 0
    · rw [if_pos hc, if_neg (by omega)]
      have hsin : si < m.segs.size := by rw [← hsi]; exact segOf_lt hH inv k
      have hni : (si + i) % m.segs.size < m.segs.size := Nat.mod_lt _ inv.nseg
      have hne : (si + i) % m.segs.size ≠ si := by
        rw [add_mod_cases si i _ hsin hc.1]; split <;> omega
      obtain ⟨s1, s2⟩ := seg_evict_step hH inv _ hni offset deficit k
      obtain ⟨e1, e2, e3, e4, e5⟩ := evict_spec hH.idx (inv.segs _ hni) offset deficit k
      by_cases hd0 : evictCnt H m ((si + i) % m.segs.size) offset deficit k = 0
      · -- nothing evicted: the segment was empty and nothing changed
        have hsame := e4 hd0
        have hempty : (m.segAt ((si + i) % m.segs.size)).size = 0 := by
          apply Classical.byContradiction
          intro hpos
          obtain ⟨k', hk'⟩ := exists_key_of_size_pos (inv.segs _ hni) (by omega)
          have hhome := home' inv _ hni k' hk'
          have hkk : k' ≠ k := by intro h; rw [h, hsi] at hhome; exact hne hhome.symm
          have := evict_progress hH.idx (inv.segs _ hni) offset deficit k hd k' hkk hk'
          unfold evictCnt at hd0
          omega
        have hseg : ∀ j, (evictSeg H m ((si + i) % m.segs.size) offset deficit k).segAt j = m.segAt j := by
          intro j
          unfold evictSeg
          rw [segAt_set]
          split
          · rename_i h; rw [hsame, h.1]
          · rfl
        have hcnt : (evictSeg H m ((si + i) % m.segs.size) offset deficit k).count = m.count := by
          rw [evictSeg_count, hd0]; simp
        have := ih _ (i + 1) (deficit - evictCnt H m ((si + i) % m.segs.size) offset deficit k)
          s1 (by unfold SegMap.segOf at hsi ⊢; rw [evictSeg_size]; exact hsi) (by omega)
          (by rw [hcnt]; exact hcap) (by rw [evictSeg_size]; omega) (by omega)
          (by
            intro i' h1 h2
            rw [hseg, evictSeg_size]
            by_cases hlt : i' < i
            · exact hz i' h1 hlt
            · have : i' = i := by omega
              rw [this]; exact hempty)
        rcases this with h | h
        · left; rw [hcnt] at h; exact h
        · right
          intro i' h1 h2
          have := h i' h1 (by rw [evictSeg_size]; exact h2)
          rw [hseg, evictSeg_size] at this
          exact this
      · left
        obtain ⟨_, h2, _⟩ := spill_spec hH k cap si offset f _ (i + 1)
          (deficit - evictCnt H m ((si + i) % m.segs.size) offset deficit k) s1
        rw [evictSeg_count] at h2
        omega
    · rw [if_neg hc]
      right; intro i' h1 h2; exact hz i' h1 (by omega)


theorem sum_zero (l : List (UMap V)) (hz : ∀ j (hj : j < l.length), l[j].size = 0) :
    (l.map (fun s => (s.size : Int))).sum = 0 := by
  induction l with
  | nil => rfl
  | cons x t ih =>
    simp only [List.map_cons, List.sum_cons]
    have h0 := hz 0 (by simp)
    simp only [List.getElem_cons_zero] at h0
    rw [ih (fun j hj => by have h := hz (j + 1) (by simp; omega); rw [List.getElem_cons_succ] at h; exact h), h0]; rfl

theorem sum_single (l : List (UMap V)) (i : Nat) (hi : i < l.length)
    (hz : ∀ j (hj : j < l.length), j ≠ i → l[j].size = 0) :
    (l.map (fun s => (s.size : Int))).sum = (l[i].size : Int) := by
  induction l generalizing i with
  | nil => simp at hi
  | cons x t ih =>
    simp only [List.map_cons, List.sum_cons]
    cases i with
    | zero =>
      rw [sum_zero t (fun j hj => by have h := hz (j + 1) (by simp; omega) (by omega); rw [List.getElem_cons_succ] at h; exact h)]
      simp
    | succ i =>
      have h0 := hz 0 (by simp) (by omega)
      simp only [List.getElem_cons_zero] at h0
      rw [ih i (by simpa using hi) (fun j hj hne => by have h := hz (j + 1) (by simp; omega) (by omega); rw [List.getElem_cons_succ] at h; exact h), h0]
      simp

theorem total_eq_single (m : SegMap V) (si : Nat) (hsi : si < m.segs.size)
    (hz : ∀ i', 1 ≤ i' → i' < m.segs.size → (m.segAt ((si + i') % m.segs.size)).size = 0) :
    total m = ((m.segAt si).size : Int) := by
  unfold total
  rw [sum_single m.segs.toList si (by simpa using hsi)]
  · rw [segAt_eq_getElem m si hsi]; simp
  · intro j hj hne
    simp only [Array.length_toList] at hj
    simp only [Array.getElem_toList]
    rw [← segAt_eq_getElem m j hj]
    by_cases hlt : si < j
    · have := hz (j - si) (by omega) (by omega)
      rw [add_mod_cases si (j - si) _ hsi (by omega)] at this
      rw [if_pos (by omega)] at this
      rw [show si + (j - si) = j by omega] at this
      exact this
    · have := hz (j + m.segs.size - si) (by omega) (by omega)
      rw [add_mod_cases si (j + m.segs.size - si) _ hsi (by omega)] at this
      rw [if_neg (by omega)] at this
      rw [show si + (j + m.segs.size - si) - m.segs.size = j by omega] at this
      exact this

theorem set_set (a : Array (UMap V)) (i : Nat) (x y : UMap V) :
    (a.setIfInBounds i x).setIfInBounds i y = a.setIfInBounds i y := by
  apply Array.ext_getElem?
  intro j
  simp only [Array.getElem?_setIfInBounds, Array.size_setIfInBounds]
  split <;> rfl

/-- `SetWithCap` is `Set` followed by the toll -/
theorem setWithCap_eq {H : Hashes} (m : SegMap V) (k : Nat) (v : V) (cap : Int)
    (hsi : SegMap.segOf H m k < m.segs.size) :
    m.setWithCap H k v cap =
      if (m.set H k v).count > cap then
        if 2 - evictCnt H (m.set H k v) (SegMap.segOf H m k) (H.off k) 2 k = 0 then
          evictSeg H (m.set H k v) (SegMap.segOf H m k) (H.off k) 2 k
        else
          SegMap.spill H k cap (SegMap.segOf H m k) (H.off k)
            (evictSeg H (m.set H k v) (SegMap.segOf H m k) (H.off k) 2 k)
            m.segs.size 1 (2 - evictCnt H (m.set H k v) (SegMap.segOf H m k) (H.off k) 2 k)
      else m.set H k v := by
  have hseg : (m.set H k v).segAt (SegMap.segOf H m k) = (m.segAt (SegMap.segOf H m k)).put H.idx k v := by
    unfold SegMap.set
    rw [segAt_set, if_pos ⟨rfl, hsi⟩]
  unfold SegMap.setWithCap evictSeg evictCnt
  rw [hseg]
  simp only [SegMap.set, set_set, Array.size_setIfInBounds]

/-- **`SetWithCap`**: the written key is stored and is never a victim; every
other key keeps its value or is evicted; executed alone, the counter ends at
or below `max cap (count before)`. -/
theorem setWithCap_spec {H : Hashes} (hH : HashOk H) {m : SegMap V} (inv : SegInv H m)
    (k : Nat) (v : V) (cap : Int) :
    SegInv H (m.setWithCap H k v cap) ∧ sabs H (m.setWithCap H k v cap) k = some v ∧
    (∀ k', k' ≠ k → sabs H (m.setWithCap H k v cap) k' = sabs H m k' ∨
      sabs H (m.setWithCap H k v cap) k' = none) ∧
    (1 ≤ cap → (m.setWithCap H k v cap).count ≤ max cap m.count) := by
  have hsi := segOf_lt hH inv k
  obtain ⟨i0, a0, c0⟩ := seg_set_spec hH inv k v
  have hc0 : (m.set H k v).count ≤ m.count + 1 := by rw [c0]; split <;> omega
  have hsz0 : (m.set H k v).segs.size = m.segs.size := by simp [SegMap.set]
  have hsi0 : SegMap.segOf H m k < (m.set H k v).segs.size := by rw [hsz0]; exact hsi
  have hsk : sabs H (m.set H k v) k = some v := by rw [a0 k, if_pos rfl]
  have hother : ∀ k', k' ≠ k → sabs H (m.set H k v) k' = sabs H m k' := by
    intro k' h; rw [a0 k', if_neg h]
  rw [setWithCap_eq m k v cap hsi]
  by_cases hover : (m.set H k v).count > cap
  · rw [if_pos hover]
    obtain ⟨i1, a1⟩ := seg_evict_step hH i0 _ hsi0 (H.off k) 2 k
    have hk1 : sabs H (evictSeg H (m.set H k v) (SegMap.segOf H m k) (H.off k) 2 k) k = some v := by
      rcases a1 k with h | h
      · rw [h, hsk]
      · exact absurd rfl h.2
    have ho1 : ∀ k', k' ≠ k → sabs H (evictSeg H (m.set H k v) (SegMap.segOf H m k) (H.off k) 2 k) k' = sabs H m k' ∨
        sabs H (evictSeg H (m.set H k v) (SegMap.segOf H m k) (H.off k) 2 k) k' = none := by
      intro k' hk'
      rcases a1 k' with h | h
      · left; rw [h, hother k' hk']
      · right; exact h.1
    have hcnt1 := evictSeg_count H (m.set H k v) (SegMap.segOf H m k) (H.off k) 2 k
    by_cases hdef : 2 - evictCnt H (m.set H k v) (SegMap.segOf H m k) (H.off k) 2 k = 0
    · rw [if_pos hdef]
      refine ⟨i1, hk1, ho1, ?_⟩
      intro _
      rw [hcnt1]
      omega
    · rw [if_neg hdef]
      obtain ⟨i2, c2, _, a2⟩ := spill_spec hH k cap (SegMap.segOf H m k) (H.off k) m.segs.size
        (evictSeg H (m.set H k v) (SegMap.segOf H m k) (H.off k) 2 k) 1
        (2 - evictCnt H (m.set H k v) (SegMap.segOf H m k) (H.off k) 2 k) i1
      refine ⟨i2, ?_, ?_, ?_⟩
      · rcases a2 k with h | h
        · rw [h, hk1]
        · exact absurd rfl h.2
      · intro k' hk'
        rcases a2 k' with h | h
        · rw [h]; exact ho1 k' hk'
        · right; exact h.1
      · intro hcap
        by_cases hd1 : 1 ≤ evictCnt H (m.set H k v) (SegMap.segOf H m k) (H.off k) 2 k
        · rw [hcnt1] at c2; omega
        · -- own segment yielded nothing: the spill loop must find a victim
          have hd0 : evictCnt H (m.set H k v) (SegMap.segOf H m k) (H.off k) 2 k = 0 := by omega
          have hcnt : (evictSeg H (m.set H k v) (SegMap.segOf H m k) (H.off k) 2 k).count = (m.set H k v).count := by
            rw [hcnt1, hd0]; simp
          have hszE := evictSeg_size H (m.set H k v) (SegMap.segOf H m k) (H.off k) 2 k
          have P := spill_progress hH k cap (SegMap.segOf H m k) (H.off k) m.segs.size
            (evictSeg H (m.set H k v) (SegMap.segOf H m k) (H.off k) 2 k) 1
            (2 - evictCnt H (m.set H k v) (SegMap.segOf H m k) (H.off k) 2 k) i1
            (by show H.seg (evictSeg H (m.set H k v) (SegMap.segOf H m k) (H.off k) 2 k).segs.size k = H.seg m.segs.size k; rw [hszE, hsz0]) (by omega) (by rw [hcnt]; exact hover)
            (by rw [hszE, hsz0]; omega) (Nat.le_refl _) (by intro i' h1 h2; omega)
          rcases P with h | h
          · rw [hcnt] at h; omega
          · exfalso
            have htot := total_eq_single _ (SegMap.segOf H m k) (by rw [hszE]; exact hsi0) h
            rw [← i1.count, hcnt] at htot
            -- the own segment holds only k
            have hcomp := evict_complete hH.idx (i0.segs _ hsi0) (H.off k) 2 k (by unfold evictCnt at hd0; omega)
            have hle := size_le_one_of_only hH.idx (i1.segs _ (by rw [hszE]; exact hsi0)) k (by
              intro k' hk'
              apply hcomp k'
              unfold evictSeg at hk'
              rw [segAt_set, if_pos ⟨rfl, hsi0⟩] at hk'
              exact hk')
            omega
  · rw [if_neg hover]
    refine ⟨i0, hsk, fun k' hk' => Or.inl (hother k' hk'), ?_⟩
    intro _; omega


/-! ### reachable entries, construction -/

theorem umap_toList_length {idx : Nat → Nat → Nat} {s : UMap V} (inv : Inv idx s) : s.toList.length = s.size := by
  unfold UMap.toList
  rw [List.length_append, inv.size_eq]
  have : (s.data.toList.filter (fun p => p.1 ≠ 0)).length = occ s.data := by
    unfold occ
    rw [← Array.countP_toList, List.countP_eq_length_filter]
    congr 1
    apply List.filter_congr
    intro x _
    by_cases hx : x.1 = 0 <;> simp [hx]
  rw [this]
  cases s.zero <;> simp <;> omega

theorem flatMap_length (l : List (UMap V)) (h : ∀ s ∈ l, s.toList.length = s.size) :
    ((l.flatMap UMap.toList).length : Int) = (l.map (fun s => (s.size : Int))).sum := by
  induction l with
  | nil => rfl
  | cons x t ih =>
    simp only [List.flatMap_cons, List.length_append, List.map_cons, List.sum_cons]
    rw [← ih (fun s hs => h s (List.mem_cons_of_mem _ hs)), h x (List.mem_cons_self ..)]
    omega

/-- **Quiescent length.** The counter equals the number of entries iteration reaches. -/
theorem len_eq_reachable {H : Hashes} {m : SegMap V} (inv : SegInv H m) : m.len = (m.reachable : Int) := by
  unfold SegMap.len SegMap.reachable SegMap.toList
  rw [inv.count, flatMap_length]
  · rfl
  · intro s hs
    obtain ⟨i, hi, rfl⟩ := List.mem_iff_getElem.mp hs
    simp only [Array.length_toList] at hi
    simp only [Array.getElem_toList]
    rw [← segAt_eq_getElem m i hi]
    exact umap_toList_length (inv.segs i hi)

theorem segmap_new_spec (H : Hashes) (pow cap : Nat) :
    SegInv H (SegMap.new pow cap : SegMap V) ∧ (∀ k, sabs H (SegMap.new pow cap : SegMap V) k = none) ∧
    (SegMap.new pow cap : SegMap V).count = 0 := by
  generalize hp : (if pow < 4 then 4 else if pow > 8 then 8 else pow) = p
  generalize hsc : (if cap / 2 ^ p < 8 then 8 else cap / 2 ^ p) = sc
  have hnew : (SegMap.new pow cap : SegMap V) = { segs := Array.replicate (2 ^ p) (UMap.new sc), count := 0 } := by
    unfold SegMap.new; simp only [hp, hsc]
  rw [hnew]
  have hseg : ∀ j, SegMap.segAt ({ segs := Array.replicate (2 ^ p) (UMap.new sc), count := 0 } : SegMap V) j =
      UMap.new sc ∨ SegMap.segAt ({ segs := Array.replicate (2 ^ p) (UMap.new sc), count := 0 } : SegMap V) j = default := by
    intro j
    simp only [SegMap.segAt, Array.getD_eq_getD_getElem?, Array.getElem?_replicate]
    split
    · left; rfl
    · right; rfl
  have hsegin : ∀ j, j < 2 ^ p → SegMap.segAt ({ segs := Array.replicate (2 ^ p) (UMap.new sc), count := 0 } : SegMap V) j =
      UMap.new sc := by
    intro j hj
    simp only [SegMap.segAt, Array.getD_eq_getD_getElem?, Array.getElem?_replicate, hj, if_true, Option.getD_some]
  obtain ⟨n1, n2, n3⟩ := new_spec (V := V) H.idx sc
  refine ⟨⟨by simp; exact Nat.two_pow_pos _, ?_, ?_, ?_⟩, ?_, rfl⟩
  · intro i hi
    rw [hsegin i (by simpa using hi)]; exact n1
  · intro i hi k hk
    rw [hsegin i (by simpa using hi), n2 k] at hk
    exact absurd rfl hk
  · show (0 : Int) = total _
    unfold total
    rw [sum_zero]
    intro j hj
    simp only [Array.toList_replicate, List.getElem_replicate]
    exact n3
  · intro k
    unfold sabs
    rcases hseg (SegMap.segOf H ({ segs := Array.replicate (2 ^ p) (UMap.new sc), count := 0 } : SegMap V) k) with h | h
    · rw [h]; exact n2 k
    · rw [h]
      show abs (default : UMap V) k = none
      unfold abs
      split
      · rfl
      · rw [lookup_eq_none_iff]; intro p hp
        have h0 : (default : UMap V).data.size = 0 := rfl
        omega

/-! ### cache.Cache -/

section casSection
variable [DecidableEq V]

/-- **`CompareAndSwap`** acts exactly when the identical value is current. -/
theorem cas_spec {H : Hashes} (hH : HashOk H) {c : Cache V} (inv : SegInv H c.data) (k : Nat) (old new : V) :
    SegInv H (c.compareAndSwap H k old new).1.data ∧
    ((c.compareAndSwap H k old new).2 = true ↔ sabs H c.data k = some old) ∧
    ((c.compareAndSwap H k old new).2 = true →
      (∀ k', sabs H (c.compareAndSwap H k old new).1.data k' = if k' = k then some new else sabs H c.data k') ∧
      (c.compareAndSwap H k old new).1.data.count = c.data.count) ∧
    ((c.compareAndSwap H k old new).2 = false → (c.compareAndSwap H k old new).1 = c) ∧
    (c.compareAndSwap H k old new).1.maxSize = c.maxSize := by
  have hi := segOf_lt hH inv k
  have hget := get_eq_abs hH.idx (inv.segs _ hi) k
  unfold Cache.compareAndSwap
  simp only
  have hs : sabs H c.data k = abs (c.data.segAt (SegMap.segOf H c.data k)) k := rfl
  rw [hs, ← hget]
  cases hg : (c.data.segAt (SegMap.segOf H c.data k)).get H.idx k with
  | none => simp [inv]
  | some cur =>
    simp only
    by_cases hc : cur = old
    · rw [if_pos hc]
      obtain ⟨p1, p2, p3⟩ := put_spec hH.idx (inv.segs _ hi) k new
      have hsome : (abs (c.data.segAt (SegMap.segOf H c.data k)) k).isSome = true := by
        rw [← hget, hg]; rfl
      rw [hsome] at p3
      simp only [if_true, Nat.add_zero] at p3
      refine ⟨?_, by simp [hc], ?_, by simp, rfl⟩
      · apply seginv_set inv _ hi _ _ p1
        · intro k' hk'
          rw [p2 k'] at hk'
          by_cases h : k' = k
          · rw [h]; rfl
          · rw [if_neg h] at hk'; exact inv.home _ hi k' hk'
        · rw [p3]; omega
      · intro _
        refine ⟨?_, rfl⟩
        intro k'
        show sabs H { segs := c.data.segs.setIfInBounds (SegMap.segOf H c.data k) _, count := _ } k' = _
        rw [sabs_set c.data _ hi]
        by_cases hk' : k' = k
        · rw [if_pos hk', hk', if_pos rfl, p2 k, if_pos rfl]
        · rw [if_neg hk']
          split
          · rename_i h
            rw [p2 k', if_neg hk']
            unfold sabs; rw [h]
          · rfl
    · rw [if_neg hc]
      refine ⟨inv, ?_, by simp, by simp, rfl⟩
      simp only [Bool.false_eq_true, Option.some.injEq, false_iff]
      exact hc

/-- **`CompareAndDelete`** removes exactly when the identical value is current. -/
theorem cad_spec {H : Hashes} (hH : HashOk H) {c : Cache V} (inv : SegInv H c.data) (k : Nat) (old : V) :
    SegInv H (c.compareAndDelete H k old).1.data ∧
    ((c.compareAndDelete H k old).2 = true ↔ sabs H c.data k = some old) ∧
    ((c.compareAndDelete H k old).2 = true →
      (∀ k', sabs H (c.compareAndDelete H k old).1.data k' = if k' = k then none else sabs H c.data k') ∧
      (c.compareAndDelete H k old).1.data.count = c.data.count - 1) ∧
    ((c.compareAndDelete H k old).2 = false → (c.compareAndDelete H k old).1 = c) ∧
    (c.compareAndDelete H k old).1.maxSize = c.maxSize := by
  have hi := segOf_lt hH inv k
  have hget := get_eq_abs hH.idx (inv.segs _ hi) k
  unfold Cache.compareAndDelete
  simp only
  have hs : sabs H c.data k = abs (c.data.segAt (SegMap.segOf H c.data k)) k := rfl
  rw [hs, ← hget]
  cases hg : (c.data.segAt (SegMap.segOf H c.data k)).get H.idx k with
  | none => simp [inv]
  | some cur =>
    simp only
    by_cases hc : cur = old
    · rw [if_pos hc]
      obtain ⟨p1, p2, p3, p4⟩ := del_spec hH.idx (inv.segs _ hi) k
      have hsome : (abs (c.data.segAt (SegMap.segOf H c.data k)) k).isSome = true := by
        rw [← hget, hg]; rfl
      rw [hsome] at p3 p4
      simp only [if_true] at p4
      rw [if_pos p3]
      refine ⟨?_, by simp [hc], ?_, by simp, rfl⟩
      · apply seginv_set inv _ hi _ _ p1
        · intro k' hk'
          rw [p2 k'] at hk'
          by_cases h : k' = k
          · rw [h]; rfl
          · rw [if_neg h] at hk'; exact inv.home _ hi k' hk'
        · omega
      · intro _
        refine ⟨?_, rfl⟩
        intro k'
        show sabs H { segs := c.data.segs.setIfInBounds (SegMap.segOf H c.data k) _, count := _ } k' = _
        rw [sabs_set c.data _ hi]
        by_cases hk' : k' = k
        · rw [if_pos hk', hk', if_pos rfl, p2 k, if_pos rfl]
        · rw [if_neg hk']
          split
          · rename_i h
            rw [p2 k', if_neg hk']
            unfold sabs; rw [h]
          · rfl
    · rw [if_neg hc]
      refine ⟨inv, ?_, by simp, by simp, rfl⟩
      simp only [Bool.false_eq_true, Option.some.injEq, false_iff]
      exact hc


end casSection

/-! ### histories -/

/-- operations on one `UInt64Map` -/
inductive Op (V : Type) where
  | put (k : Nat) (v : V)
  | pine (k : Nat) (v : V)
  | del (k : Nat)
  | evict (offset n skip : Nat)
  | grow
  | clear

def step (idx : Nat → Nat → Nat) (m : UMap V) : Op V → UMap V
  | .put k v => m.put idx k v
  | .pine k v => (m.putIfNotExists idx k v).1
  | .del k => (m.del idx k).1
  | .evict o n s => (m.evictKeysAt idx o n s).1
  | .grow => m.grow idx
  | .clear => m.clear

/-- what the property lets an operation do to the abstract map `Key → Option Val` -/
def Allowed (f f' : Nat → Option V) : Op V → Prop
  | .put k v => ∀ k', f' k' = if k' = k then some v else f k'
  | .pine k v => ∀ k', f' k' = if k' = k then some ((f k).getD v) else f k'
  | .del k => ∀ k', f' k' = if k' = k then none else f k'
  | .evict _ _ skip => ∀ k', f' k' = f k' ∨ (f' k' = none ∧ k' ≠ skip)
  | .grow => ∀ k', f' k' = f k'
  | .clear => ∀ k', f' k' = none

/-- a run of the abstract map along an op list -/
inductive Run : (Nat → Option V) → List (Op V) → (Nat → Option V) → Prop
  | nil (f : Nat → Option V) : Run f [] f
  | cons {f f' f'' : Nat → Option V} {op : Op V} {ops : List (Op V)} :
      Allowed f f' op → Run f' ops f'' → Run f (op :: ops) f''

theorem step_spec {idx : Nat → Nat → Nat} (hidx : IdxOk idx) {m : UMap V} (inv : Inv idx m) (op : Op V) :
    Inv idx (step idx m op) ∧ Allowed (abs m) (abs (step idx m op)) op := by
  cases op with
  | put k v => obtain ⟨h1, h2, _⟩ := put_spec hidx inv k v; exact ⟨h1, h2⟩
  | pine k v => obtain ⟨h1, h2, _⟩ := putIfNotExists_spec hidx inv k v; exact ⟨h1, h2⟩
  | del k => obtain ⟨h1, h2, _⟩ := del_spec hidx inv k; exact ⟨h1, h2⟩
  | evict o n s => obtain ⟨h1, _, _, _, h5⟩ := evict_spec hidx inv o n s; exact ⟨h1, h5⟩
  | grow => obtain ⟨h1, h2, _⟩ := grow_spec hidx inv; exact ⟨h1, h2⟩
  | clear => obtain ⟨h1, h2, _⟩ := clear_spec inv; exact ⟨h1, h2⟩

theorem history_spec {idx : Nat → Nat → Nat} (hidx : IdxOk idx) (ops : List (Op V)) :
    ∀ (m : UMap V), Inv idx m → Inv idx (ops.foldl (step idx) m) ∧ Run (abs m) ops (abs (ops.foldl (step idx) m)) := by
  induction ops with
  | nil => intro m inv; exact ⟨inv, Run.nil _⟩
  | cons op ops ih =>
    intro m inv
    obtain ⟨h1, h2⟩ := step_spec hidx inv op
    obtain ⟨h3, h4⟩ := ih _ h1
    exact ⟨h3, Run.cons h2 h4⟩

/-- operations on a `cache.Cache` -/
inductive COp (V : Type) where
  | add (k : Nat) (v : V)
  | remove (k : Nat)
  | cas (k : Nat) (old new : V)
  | cad (k : Nat) (old : V)

section cache
variable [DecidableEq V]

def cstep (H : Hashes) (c : Cache V) : COp V → Cache V
  | .add k v => c.add H k v
  | .remove k => c.remove H k
  | .cas k o n => (c.compareAndSwap H k o n).1
  | .cad k o => (c.compareAndDelete H k o).1

def CAllowed (f f' : Nat → Option V) : COp V → Prop
  | .add k v => f' k = some v ∧ ∀ k', k' ≠ k → f' k' = f k' ∨ f' k' = none
  | .remove k => ∀ k', f' k' = if k' = k then none else f k'
  | .cas k o n => if f k = some o then ∀ k', f' k' = if k' = k then some n else f k' else ∀ k', f' k' = f k'
  | .cad k o => if f k = some o then ∀ k', f' k' = if k' = k then none else f k' else ∀ k', f' k' = f k'

inductive CRun : (Nat → Option V) → List (COp V) → (Nat → Option V) → Prop
  | nil (f : Nat → Option V) : CRun f [] f
  | cons {f f' f'' : Nat → Option V} {op : COp V} {ops : List (COp V)} :
      CAllowed f f' op → CRun f' ops f'' → CRun f (op :: ops) f''

/-- invariant of a cache between operations (no writer in flight) -/
structure CacheInv (H : Hashes) (c : Cache V) : Prop where
  seg : SegInv H c.data
  cap : 1 ≤ c.maxSize
  bound : c.data.count ≤ c.maxSize

theorem cstep_spec {H : Hashes} (hH : HashOk H) {c : Cache V} (inv : CacheInv H c) (op : COp V) :
    CacheInv H (cstep H c op) ∧ (cstep H c op).maxSize = c.maxSize ∧
    CAllowed (sabs H c.data) (sabs H (cstep H c op).data) op := by
  have hcap := inv.cap
  have hb := inv.bound
  cases op with
  | add k v =>
    obtain ⟨h1, h2, h3, h4⟩ := setWithCap_spec hH inv.seg k v (c.maxSize : Int)
    refine ⟨⟨h1, hcap, ?_⟩, rfl, h2, h3⟩
    have := h4 (by omega)
    show (c.data.setWithCap H k v c.maxSize).count ≤ (c.maxSize : Int)
    omega
  | remove k =>
    obtain ⟨h1, h2, _, h4⟩ := seg_del_spec hH inv.seg k
    refine ⟨⟨h1, hcap, ?_⟩, rfl, h2⟩
    show (c.data.del H k).1.count ≤ (c.maxSize : Int)
    rw [h4]; split <;> omega
  | cas k o n =>
    obtain ⟨h1, h2, h3, h4, h5⟩ := cas_spec hH inv.seg k o n
    refine ⟨⟨h1, by show 1 ≤ (c.compareAndSwap H k o n).1.maxSize; rw [h5]; exact hcap, ?_⟩, h5, ?_⟩
    · show (c.compareAndSwap H k o n).1.data.count ≤ ((c.compareAndSwap H k o n).1.maxSize : Int)
      rw [h5]
      cases hr : (c.compareAndSwap H k o n).2 with
      | true => rw [(h3 hr).2]; exact hb
      | false => rw [h4 hr]; exact hb
    · show if sabs H c.data k = some o then _ else _
      cases hr : (c.compareAndSwap H k o n).2 with
      | true => rw [if_pos (h2.mp hr)]; exact (h3 hr).1
      | false =>
        rw [if_neg (by intro h; rw [h2.mpr h] at hr; cases hr)]
        intro k'; show sabs H (c.compareAndSwap H k o n).1.data k' = _; rw [h4 hr]
  | cad k o =>
    obtain ⟨h1, h2, h3, h4, h5⟩ := cad_spec hH inv.seg k o
    refine ⟨⟨h1, by show 1 ≤ (c.compareAndDelete H k o).1.maxSize; rw [h5]; exact hcap, ?_⟩, h5, ?_⟩
    · show (c.compareAndDelete H k o).1.data.count ≤ ((c.compareAndDelete H k o).1.maxSize : Int)
      rw [h5]
      cases hr : (c.compareAndDelete H k o).2 with
      | true => rw [(h3 hr).2]; omega
      | false => rw [h4 hr]; exact hb
    · show if sabs H c.data k = some o then _ else _
      cases hr : (c.compareAndDelete H k o).2 with
      | true => rw [if_pos (h2.mp hr)]; exact (h3 hr).1
      | false =>
        rw [if_neg (by intro h; rw [h2.mpr h] at hr; cases hr)]
        intro k'; show sabs H (c.compareAndDelete H k o).1.data k' = _; rw [h4 hr]

theorem cache_history_spec {H : Hashes} (hH : HashOk H) (ops : List (COp V)) :
    ∀ (c : Cache V), CacheInv H c →
      CacheInv H (ops.foldl (cstep H) c) ∧ (ops.foldl (cstep H) c).maxSize = c.maxSize ∧
      CRun (sabs H c.data) ops (sabs H (ops.foldl (cstep H) c).data) := by
  induction ops with
  | nil => intro c inv; exact ⟨inv, rfl, CRun.nil _⟩
  | cons op ops ih =>
    intro c inv
    obtain ⟨h1, h2, h3⟩ := cstep_spec hH inv op
    obtain ⟨h4, h5, h6⟩ := ih _ h1
    exact ⟨h4, by rw [List.foldl_cons, h5, h2], CRun.cons h3 h6⟩

theorem cache_new_inv (H : Hashes) (size : Nat) : CacheInv H (Cache.new size : Cache V) ∧
    (Cache.new size : Cache V).maxSize = max size 1 ∧ ∀ k, sabs H (Cache.new size : Cache V).data k = none := by
  unfold Cache.new
  simp only
  obtain ⟨h1, h2, h3⟩ := segmap_new_spec (V := V) H 8
    (2 ^ (if (if size < 1 then 1 else size) ≤ 1024 then 8 else if (if size < 1 then 1 else size) ≤ 10000 then 10
      else if (if size < 1 then 1 else size) ≤ 100000 then 12 else if (if size < 1 then 1 else size) ≤ 500000 then 14 else 16))
  refine ⟨⟨h1, ?_, ?_⟩, ?_, h2⟩
  · show 1 ≤ (if size < 1 then 1 else size); split <;> omega
  · rw [h3]; show (0 : Int) ≤ ((if size < 1 then 1 else size : Nat) : Int); omega
  · show (if size < 1 then 1 else size) = max size 1; split <;> omega

end cache

/-! ### counter-level transition system for concurrent writers -/

/-- the atomic counter and the number of writers between their insert and the end of their toll -/
structure CState where
  count : Int
  owing : Nat

/-- lock-atomic sections of `SetWithCap`, `Del`, `CompareAndDelete` seen from the counter. -/
inductive CStep (cap : Int) : CState → CState → Prop
  /-- `Put` + `count.Add(1)` under the segment lock (`b`: the key was new) -/
  | insert (s : CState) (b : Bool) : CStep cap s ⟨s.count + (if b then 1 else 0), s.owing + 1⟩
  /-- the writer reads `count <= capacity` and returns -/
  | observe (s : CState) : 0 < s.owing → s.count ≤ cap → CStep cap s ⟨s.count, s.owing - 1⟩
  /-- the writer's toll removed `d ≥ 1` entries (own segment or spill) and it returns -/
  | pay (s : CState) (d : Nat) : 0 < s.owing → 1 ≤ d → CStep cap s ⟨s.count - d, s.owing - 1⟩
  /-- any further removal (more toll, `Del`, `CompareAndDelete`, `Remove`) -/
  | remove (s : CState) (d : Nat) : CStep cap s ⟨s.count - d, s.owing⟩

inductive CReach (cap : Int) : CState → CState → Prop
  | refl (s : CState) : CReach cap s s
  | step {s t u : CState} : CReach cap s t → CStep cap t u → CReach cap s u

theorem creach_bound (cap : Int) (s t : CState) (h : CReach cap s t) (h0 : s.count ≤ cap + s.owing) :
    t.count ≤ cap + t.owing := by
  induction h with
  | refl => exact h0
  | step _ st ih =>
    cases st with
    | insert b => simp only; split <;> omega
    | observe h1 h2 => simp only; omega
    | pay d h1 h2 => simp only; omega
    | remove d => simp only; omega

/-- the counter-level system extended with the one real step `CStep` leaves out:
a writer that returns unpaid after a fruitless walk (`giveUp`), counted in `gave` -/
structure CState2 where
  count : Int
  owing : Nat
  gave : Nat

inductive CStep2 (cap : Int) : CState2 → CState2 → Prop
  | insert (s : CState2) (b : Bool) : CStep2 cap s ⟨s.count + (if b then 1 else 0), s.owing + 1, s.gave⟩
  | observe (s : CState2) : 0 < s.owing → s.count ≤ cap → CStep2 cap s ⟨s.count, s.owing - 1, s.gave⟩
  | pay (s : CState2) (d : Nat) : 0 < s.owing → 1 ≤ d → CStep2 cap s ⟨s.count - d, s.owing - 1, s.gave⟩
  | remove (s : CState2) (d : Nat) : CStep2 cap s ⟨s.count - d, s.owing, s.gave⟩
  | giveUp (s : CState2) : 0 < s.owing → CStep2 cap s ⟨s.count, s.owing - 1, s.gave + 1⟩

inductive CReach2 (cap : Int) : CState2 → CState2 → Prop
  | refl (s : CState2) : CReach2 cap s s
  | step {s t u : CState2} : CReach2 cap s t → CStep2 cap t u → CReach2 cap s u

theorem creach2_bound (cap : Int) (s t : CState2) (h : CReach2 cap s t) (h0 : s.count ≤ cap + s.owing + s.gave) :
    t.count ≤ cap + t.owing + t.gave ∧ s.gave ≤ t.gave := by
  induction h with
  | refl => exact ⟨h0, Nat.le_refl _⟩
  | step _ st ih =>
    obtain ⟨i1, i2⟩ := ih
    cases st with
    | insert b => simp only; refine ⟨?_, i2⟩; split <;> omega
    | observe h1 h2 => simp only; exact ⟨by omega, i2⟩
    | pay d h1 h2 => simp only; exact ⟨by omega, i2⟩
    | remove d => simp only; exact ⟨by omega, i2⟩
    | giveUp h1 => simp only; exact ⟨by omega, by omega⟩

/-! ### LimiterStore -/

/-- invariant of the limiter store between calls -/
structure LimInv (s : Lim) : Prop where
  nodup : s.keys.Nodup
  bound : s.ents.length ≤ max s.maxSize 1

theorem oldest_none {l : List (Nat × Nat)} : Lim.oldest l = none ↔ l = [] := by
  cases l with
  | nil => simp [Lim.oldest]
  | cons e t =>
    simp only [Lim.oldest]
    cases Lim.oldest t with
    | none => simp
    | some o => simp only; split <;> simp

theorem oldest_spec {l : List (Nat × Nat)} {o : Nat × Nat} (h : Lim.oldest l = some o) :
    o ∈ l ∧ ∀ e ∈ l, o.2 ≤ e.2 := by
  induction l generalizing o with
  | nil => simp [Lim.oldest] at h
  | cons e t ih =>
    simp only [Lim.oldest] at h
    cases ht : Lim.oldest t with
    | none =>
      rw [ht] at h
      simp only [Option.some.injEq] at h
      subst h
      have : t = [] := oldest_none.mp ht
      subst this
      simp
    | some o' =>
      rw [ht] at h
      obtain ⟨hm, hmin⟩ := ih ht
      simp only at h
      split at h
      · rename_i hlt
        simp only [Option.some.injEq] at h
        subst h
        refine ⟨List.mem_cons_of_mem _ hm, ?_⟩
        intro x hx
        rcases List.mem_cons.mp hx with rfl | hx
        · omega
        · exact hmin x hx
      · rename_i hge
        simp only [Option.some.injEq] at h
        subst h
        refine ⟨List.mem_cons_self .., ?_⟩
        intro x hx
        rcases List.mem_cons.mp hx with rfl | hx
        · omega
        · have := hmin x hx; omega

theorem filter_ne_length (l : List (Nat × Nat)) (w : Nat) (hn : (l.map (·.1)).Nodup) (hw : w ∈ l.map (·.1)) :
    (l.filter (fun e => e.1 != w)).length + 1 = l.length := by
  induction l with
  | nil => simp at hw
  | cons e t ih =>
    simp only [List.map_cons, List.nodup_cons] at hn
    by_cases he : e.1 = w
    · have hnot : w ∉ t.map (·.1) := by rw [← he]; exact hn.1
      have hall : t.filter (fun e => e.1 != w) = t := by
        rw [List.filter_eq_self]
        intro x hx
        simp only [bne_iff_ne, ne_eq]
        intro hxw
        exact hnot (List.mem_map.mpr ⟨x, hx, hxw⟩)
      simp [List.filter_cons, he, hall]
    · have hw' : w ∈ t.map (·.1) := by
        simp only [List.map_cons, List.mem_cons] at hw
        rcases hw with h | h
        · exact absurd h.symm he
        · exact h
      have := ih hn.2 hw'
      simp [List.filter_cons, he]
      omega

theorem keys_remove (s : Lim) (w : Nat) : (s.remove w).keys = s.keys.filter (fun k => k != w) := by
  unfold Lim.remove Lim.keys
  simp only
  induction s.ents with
  | nil => rfl
  | cons e t ih =>
    simp only [List.filter_cons, List.map_cons]
    split <;> simp [ih]

/-- `evictOne` on a non-empty store removes exactly one stored entry: the least
recently seen one up to 1000 entries, the iteration's first key above. -/
theorem evictOne_spec (s : Lim) (first : Option Nat) (hn : s.keys.Nodup) (hne : s.ents ≠ [])
    (hfirst : 1000 < s.ents.length → ∃ w, first = some w ∧ w ∈ s.keys) :
    ∃ w, w ∈ s.keys ∧ s.evictOne first = s.remove w ∧ (s.evictOne first).ents.length + 1 = s.ents.length ∧
      (s.ents.length ≤ 1000 → ∃ t, (w, t) ∈ s.ents ∧ ∀ e ∈ s.ents, t ≤ e.2) := by
  unfold Lim.evictOne
  by_cases hbig : s.ents.length > 1000
  · rw [if_pos hbig]
    obtain ⟨w, hw, hmem⟩ := hfirst hbig
    rw [hw]
    refine ⟨w, hmem, rfl, filter_ne_length s.ents w hn hmem, fun h => by omega⟩
  · rw [if_neg hbig]
    cases ho : Lim.oldest s.ents with
    | none => exact absurd (oldest_none.mp ho) hne
    | some o =>
      obtain ⟨hm, hmin⟩ := oldest_spec ho
      have hk : o.1 ∈ s.keys := List.mem_map.mpr ⟨o, hm, rfl⟩
      exact ⟨o.1, hk, rfl, filter_ne_length s.ents o.1 hn hk, fun _ => ⟨o.2, hm, hmin⟩⟩

/-- **`LimiterStore.Get`** keeps the store duplicate-free and within
`max maxSize 1`, stores the requested key, never evicts it, and evicts at most
one other key. -/
theorem lim_get_spec (s : Lim) (k now : Nat) (first : Option Nat) (inv : LimInv s)
    (hfirst : 1000 < s.ents.length → ∃ w, first = some w ∧ w ∈ s.keys) :
    LimInv (s.get k now first) ∧ (k, now) ∈ (s.get k now first).ents ∧
    (s.get k now first).maxSize = s.maxSize ∧
    ∃ victim : Option Nat, victim ≠ some k ∧
      ∀ k', k' ∈ s.keys → k' ∈ (s.get k now first).keys ∨ victim = some k' := by
  unfold Lim.get
  by_cases hk : k ∈ s.keys
  · rw [if_pos hk]
    have hkeys : (s.ents.map (fun e => if e.1 = k then (k, now) else e)).map (·.1) = s.ents.map (·.1) := by
      rw [List.map_map]
      apply List.map_congr_left
      intro e _
      simp only [Function.comp]
      split
      · rename_i h; exact h.symm
      · rfl
    have hkeys' : Lim.keys { s with ents := s.ents.map (fun e => if e.1 = k then (k, now) else e) } = s.keys := hkeys
    refine ⟨⟨?_, ?_⟩, ?_, rfl, none, by simp, ?_⟩
    · rw [hkeys']; exact inv.nodup
    · show (s.ents.map (fun e => if e.1 = k then (k, now) else e)).length ≤ _
      rw [List.length_map]; exact inv.bound
    · obtain ⟨e, he, hek⟩ := List.mem_map.mp hk
      exact List.mem_map.mpr ⟨e, he, by rw [if_pos hek]⟩
    · intro k' hk'
      left
      rw [hkeys']; exact hk'
  · rw [if_neg hk]
    simp only
    by_cases hfull : s.ents.length ≥ s.maxSize
    · rw [if_pos hfull]
      by_cases hnil : s.ents = []
      · -- nothing to evict (maxSize 0): the store grows to one entry
        have he : s.evictOne first = s := by
          unfold Lim.evictOne Lim.remove
          rw [hnil]; simp [Lim.oldest]
        rw [he]
        refine ⟨⟨?_, ?_⟩, by simp, rfl, none, by simp, ?_⟩
        · show (List.map (fun e : Nat × Nat => e.1) ((k, now) :: s.ents)).Nodup; rw [hnil]; simp
        · show ((k, now) :: s.ents).length ≤ _; rw [hnil]; simp; omega
        · intro k' hk'; unfold Lim.keys at hk'; rw [hnil] at hk'; simp at hk'
      · obtain ⟨w, hw, heq, hlen, _⟩ := evictOne_spec s first inv.nodup hnil hfirst
        have hwk : w ≠ k := by intro h; rw [h] at hw; exact hk hw
        rw [heq]
        have hkeys := keys_remove s w
        refine ⟨⟨?_, ?_⟩, by simp, rfl, some w, by simpa using hwk, ?_⟩
        · show (List.map (fun e : Nat × Nat => e.1) ((k, now) :: (s.remove w).ents)).Nodup
          rw [List.map_cons, List.nodup_cons]
          refine ⟨?_, ?_⟩
          · intro hin
            have : k ∈ (s.remove w).keys := hin
            rw [hkeys] at this
            exact hk (List.mem_filter.mp this).1
          · show (s.remove w).keys.Nodup
            rw [hkeys]; exact inv.nodup.sublist List.filter_sublist
        · show ((k, now) :: (s.remove w).ents).length ≤ _
          rw [heq] at hlen
          have := inv.bound
          simp only [List.length_cons]
          show _ ≤ max s.maxSize 1
          omega
        · intro k' hk'
          by_cases hkw : k' = w
          · right; rw [hkw]
          · left
            show k' ∈ List.map (fun e : Nat × Nat => e.1) ((k, now) :: (s.remove w).ents)
            rw [List.map_cons]
            apply List.mem_cons_of_mem
            show k' ∈ (s.remove w).keys
            rw [hkeys]
            exact List.mem_filter.mpr ⟨hk', by simpa using hkw⟩
    · rw [if_neg hfull]
      refine ⟨⟨?_, ?_⟩, by simp, rfl, none, by simp, ?_⟩
      · show (List.map (fun e : Nat × Nat => e.1) ((k, now) :: s.ents)).Nodup
        rw [List.map_cons, List.nodup_cons]
        exact ⟨hk, inv.nodup⟩
      · show ((k, now) :: s.ents).length ≤ _
        simp only [List.length_cons]; omega
      · intro k' hk'; left
        show k' ∈ List.map (fun e : Nat × Nat => e.1) ((k, now) :: s.ents)
        rw [List.map_cons]; exact List.mem_cons_of_mem _ hk'

/-- `Cleanup` keeps exactly the entries seen at or after the cutoff. -/
theorem lim_cleanup_spec (s : Lim) (cutoff : Nat) (inv : LimInv s) :
    LimInv (s.cleanup cutoff) ∧ ∀ e, e ∈ (s.cleanup cutoff).ents ↔ e ∈ s.ents ∧ cutoff ≤ e.2 := by
  refine ⟨⟨?_, ?_⟩, ?_⟩
  · show (List.map (fun e : Nat × Nat => e.1) (s.ents.filter _)).Nodup
    exact inv.nodup.sublist (List.filter_sublist.map _)
  · show (s.ents.filter _).length ≤ _
    have := List.length_filter_le (fun e : Nat × Nat => !(decide (e.2 < cutoff))) s.ents
    have := inv.bound
    show _ ≤ max s.maxSize 1
    omega
  · intro e
    show e ∈ s.ents.filter _ ↔ _
    rw [List.mem_filter]
    simp

/-! ### lock footprint of SetWithCap -/

theorem spillTrace_succ (H : Hashes) (k : Nat) (cap : Int) (si offset : Nat) (m : SegMap V) (f i deficit : Nat) :
    SegMap.spillTrace H k cap si offset m (f + 1) i deficit =
      if i < m.segs.size ∧ deficit > 0 then
        if m.count ≤ cap then [] else
          ((si + i) % m.segs.size) ::
            SegMap.spillTrace H k cap si offset (evictSeg H m ((si + i) % m.segs.size) offset deficit k) f (i + 1)
              (deficit - evictCnt H m ((si + i) % m.segs.size) offset deficit k)
      else [] := rfl

theorem evictSeg_segAt_ne (H : Hashes) (m : SegMap V) (j j' offset n skip : Nat) (h : j ≠ j') :
    (evictSeg H m j offset n skip).segAt j' = m.segAt j' := by
  unfold evictSeg
  rw [segAt_set, if_neg (by intro h'; exact h h'.1)]

/-- the spill loop changes no segment it did not lock -/
theorem spill_frame (H : Hashes) (k : Nat) (cap : Int) (si offset : Nat) :
    ∀ (f : Nat) (m : SegMap V) (i deficit : Nat) (j : Nat),
      j ∉ SegMap.spillTrace H k cap si offset m f i deficit →
      (SegMap.spill H k cap si offset m f i deficit).segAt j = m.segAt j := by
  intro f
  induction f with
  | zero => intro m i deficit j _; rfl
  | succ f ih =>
    intro m i deficit j hj
    rw [spill_succ]
    rw [spillTrace_succ] at hj
    by_cases hc : i < m.segs.size ∧ deficit > 0
    · rw [if_pos hc] at hj ⊢
      by_cases hcap : m.count ≤ cap
      · rw [if_pos hcap]
      · rw [if_neg hcap] at hj ⊢
        rw [List.mem_cons, not_or] at hj
        rw [ih _ _ _ j hj.2, evictSeg_segAt_ne H m _ j offset deficit k (Ne.symm hj.1)]
    · rw [if_neg hc]

theorem lockTrace_eq {H : Hashes} (m : SegMap V) (k : Nat) (v : V) (cap : Int)
    (hsi : SegMap.segOf H m k < m.segs.size) :
    m.lockTrace H k v cap =
      if (m.set H k v).count > cap then
        if 2 - evictCnt H (m.set H k v) (SegMap.segOf H m k) (H.off k) 2 k = 0 then [SegMap.segOf H m k]
        else
          SegMap.segOf H m k :: SegMap.spillTrace H k cap (SegMap.segOf H m k) (H.off k)
            (evictSeg H (m.set H k v) (SegMap.segOf H m k) (H.off k) 2 k)
            m.segs.size 1 (2 - evictCnt H (m.set H k v) (SegMap.segOf H m k) (H.off k) 2 k)
      else [SegMap.segOf H m k] := by
  have hseg : (m.set H k v).segAt (SegMap.segOf H m k) = (m.segAt (SegMap.segOf H m k)).put H.idx k v := by
    unfold SegMap.set
    rw [segAt_set, if_pos ⟨rfl, hsi⟩]
  unfold SegMap.lockTrace evictSeg evictCnt
  rw [hseg]
  simp only [SegMap.set, set_set, Array.size_setIfInBounds]

/-- **Lock footprint.** `SetWithCap` changes only segments whose lock it takes
(`lockTrace`): its own, and the ones its toll walk enters. -/
theorem setWithCap_frame {H : Hashes} (hH : HashOk H) {m : SegMap V} (inv : SegInv H m)
    (k : Nat) (v : V) (cap : Int) (j : Nat) (hj : j ∉ m.lockTrace H k v cap) :
    (m.setWithCap H k v cap).segAt j = m.segAt j := by
  have hsi := segOf_lt hH inv k
  rw [lockTrace_eq m k v cap hsi] at hj
  rw [setWithCap_eq m k v cap hsi]
  have hset : ∀ j, j ≠ SegMap.segOf H m k → (m.set H k v).segAt j = m.segAt j := by
    intro j hne
    unfold SegMap.set
    rw [segAt_set, if_neg (by intro h; exact hne h.1.symm)]
  by_cases hover : (m.set H k v).count > cap
  · rw [if_pos hover] at hj ⊢
    by_cases hdef : 2 - evictCnt H (m.set H k v) (SegMap.segOf H m k) (H.off k) 2 k = 0
    · rw [if_pos hdef] at hj ⊢
      have hne : j ≠ SegMap.segOf H m k := by simpa using hj
      rw [evictSeg_segAt_ne H _ _ j _ _ _ (Ne.symm hne), hset j hne]
    · rw [if_neg hdef] at hj ⊢
      rw [List.mem_cons, not_or] at hj
      rw [spill_frame H k cap _ _ _ _ _ _ j hj.2, evictSeg_segAt_ne H _ _ j _ _ _ (Ne.symm hj.1), hset j hj.1]
  · rw [if_neg hover] at hj ⊢
    have hne : j ≠ SegMap.segOf H m k := by simpa using hj
    exact hset j hne

/-- when the own segment pays the toll (or the table is not over capacity)
the writer takes exactly one lock -/
theorem lockTrace_local {H : Hashes} (hH : HashOk H) {m : SegMap V} (inv : SegInv H m)
    (k : Nat) (v : V) (cap : Int)
    (h : (m.set H k v).count ≤ cap ∨ evictCnt H (m.set H k v) (SegMap.segOf H m k) (H.off k) 2 k = 2) :
    m.lockTrace H k v cap = [SegMap.segOf H m k] := by
  rw [lockTrace_eq m k v cap (segOf_lt hH inv k)]
  rcases h with h | h
  · rw [if_neg (by omega)]
  · split
    · rw [if_pos (by omega)]
    · rfl


/-! ### iteration -/

/-- iteration yields exactly the pairs of the abstract map -/
theorem mem_umap_toList_iff {idx : Nat → Nat → Nat} {s : UMap V} (inv : Inv idx s) (k : Nat) (v : V) :
    (k, v) ∈ s.toList ↔ abs s k = some v := by
  unfold UMap.toList abs
  rw [List.mem_append, List.mem_filter]
  by_cases hk : k = 0
  · subst hk
    rw [if_pos rfl]
    cases s.zero with
    | none => simp
    | some z =>
      simp only [List.mem_singleton, Prod.mk.injEq, true_and, ne_eq, not_true_eq_false, decide_false,
        Bool.false_eq_true, and_false, or_false, Option.some.injEq]
      exact eq_comm
  · rw [if_neg hk]
    have h2 : ((k, v) ∈ s.data.toList ∧ decide ((k, v).1 ≠ 0) = true) ↔ lookup s.data k = some v := by
      rw [mem_toList_iff s.data k v, has_iff_lookup inv.slots k hk]
      simp [hk]
    rw [h2]
    cases s.zero with
    | none => simp
    | some z =>
      simp only [List.mem_singleton, Prod.mk.injEq]
      constructor
      · rintro (h | h)
        · exact absurd h.1 hk
        · exact h
      · exact Or.inr

/-- **Iteration under concurrent writers.** Whatever writers do between the
moments the segments are read-locked (`ms i` = the table when segment `i` is
read), the sweep delivers every pair that is stored when its home segment is
read — in particular every entry that stays untouched during the sweep — and
delivers nothing that was not stored at that moment. -/
theorem sweep_spec {H : Hashes} (hH : HashOk H) (n : Nat) (ms : Nat → SegMap V)
    (hinv : ∀ i, i < n → SegInv H (ms i) ∧ (ms i).segs.size = n) (k : Nat) (v : V) :
    (k, v) ∈ SegMap.sweep n ms ↔ (0 < n ∧ sabs H (ms (H.seg n k)) k = some v) := by
  unfold SegMap.sweep
  rw [List.mem_flatMap]
  constructor
  · rintro ⟨i, hi, hmem⟩
    have hin : i < n := List.mem_range.mp hi
    obtain ⟨inv, hsz⟩ := hinv i hin
    have hseg := inv.segs i (by rw [hsz]; exact hin)
    have habs := (mem_umap_toList_iff hseg k v).mp hmem
    have hhome : H.seg n k = i := by
      have := inv.home i (by rw [hsz]; exact hin) k (by rw [habs]; simp)
      rw [hsz] at this; exact this
    refine ⟨by omega, ?_⟩
    rw [hhome]
    unfold sabs SegMap.segOf
    rw [hsz, hhome]; exact habs
  · rintro ⟨hn, habs⟩
    have hlt := hH.seg n k hn
    obtain ⟨inv, hsz⟩ := hinv _ hlt
    refine ⟨H.seg n k, List.mem_range.mpr hlt, ?_⟩
    have hseg := inv.segs _ (by rw [hsz]; exact hlt)
    rw [mem_umap_toList_iff hseg]
    unfold sabs SegMap.segOf at habs
    rw [hsz] at habs; exact habs

theorem flatMap_range_getD (l : List (UMap V)) :
    (List.range l.length).flatMap (fun i => (l[i]?.getD default).toList) = l.flatMap UMap.toList := by
  induction l with
  | nil => rfl
  | cons x t ih =>
    rw [List.length_cons, List.range_succ_eq_map, List.flatMap_cons, List.flatMap_map, List.flatMap_cons]
    simp only [List.getElem?_cons_zero, Option.getD_some, Function.comp, List.getElem?_cons_succ]
    rw [ih]

/-- a quiescent sweep is `toList` -/
theorem sweep_const (m : SegMap V) : SegMap.sweep m.segs.size (fun _ => m) = m.toList := by
  unfold SegMap.sweep SegMap.toList
  have hf : (fun i => (m.segAt i).toList) = fun i => (m.segs.toList[i]?.getD default).toList := by
    funext i
    simp [SegMap.segAt, Array.getD_eq_getD_getElem?]
  rw [hf, ← flatMap_range_getD m.segs.toList, Array.length_toList]

/-! ### remaining operations of the segmented table -/

/-- **`PutIfNotExists`** on the segmented table -/
theorem seg_pine_spec {H : Hashes} (hH : HashOk H) {m : SegMap V} (inv : SegInv H m) (k : Nat) (v : V) :
    SegInv H (m.putIfNotExists H k v).1 ∧
    (∀ k', sabs H (m.putIfNotExists H k v).1 k' = if k' = k then some ((sabs H m k).getD v) else sabs H m k') ∧
    (m.putIfNotExists H k v).2.1 = (sabs H m k).getD v ∧ (m.putIfNotExists H k v).2.2 = (sabs H m k).isNone ∧
    (m.putIfNotExists H k v).1.count = m.count + (if (sabs H m k).isSome then 0 else 1) := by
  have hi := segOf_lt hH inv k
  obtain ⟨p1, p2, p3, p4, p5⟩ := putIfNotExists_spec hH.idx (inv.segs _ hi) k v
  have hcount : (m.putIfNotExists H k v).1.count = m.count + (if (sabs H m k).isSome then 0 else 1) := by
    show (if ((m.segAt (SegMap.segOf H m k)).putIfNotExists H.idx k v).2.2 then m.count + 1 else m.count) = _
    unfold sabs
    rw [p4]
    cases abs (m.segAt (SegMap.segOf H m k)) k <;> simp
  refine ⟨?_, ?_, p3, p4, hcount⟩
  · apply seginv_set inv _ hi _ _ p1
    · intro k' hk'
      rw [p2 k'] at hk'
      by_cases h : k' = k
      · rw [h]; rfl
      · rw [if_neg h] at hk'; exact inv.home _ hi k' hk'
    · refine hcount.trans ?_
      unfold sabs
      rw [p5]
      split <;> omega
  · intro k'
    show sabs H { segs := m.segs.setIfInBounds (SegMap.segOf H m k) _, count := _ } k' = _
    rw [sabs_set m _ hi]
    by_cases hk' : k' = k
    · rw [if_pos hk', hk', if_pos rfl, p2 k, if_pos rfl]; rfl
    · rw [if_neg hk']
      split
      · rename_i h
        rw [p2 k', if_neg hk']
        unfold sabs; rw [h]
      · rfl

/-- **`ClearSegment`**: the segment is emptied, its entries are uncounted, all others untouched -/
theorem seg_clearSegment_spec {H : Hashes} (hH : HashOk H) {m : SegMap V} (inv : SegInv H m) (i : Nat) :
    SegInv H (m.clearSegment i) ∧
    (∀ k, sabs H (m.clearSegment i) k = if SegMap.segOf H m k = i ∧ i < m.segs.size then none else sabs H m k) ∧
    (m.clearSegment i).count = m.count - (if i < m.segs.size then ((m.segAt i).size : Int) else 0) := by
  unfold SegMap.clearSegment
  by_cases hi : i < m.segs.size
  · rw [if_pos hi]
    obtain ⟨c1, c2, c3⟩ := clear_spec (inv.segs i hi)
    refine ⟨?_, ?_, by simp [hi, UMap.len]⟩
    · apply seginv_set inv i hi _ _ c1
      · intro k hk; rw [c2 k] at hk; exact absurd rfl hk
      · rw [c3]; simp [UMap.len]
    · intro k
      rw [sabs_set m i hi]
      by_cases h : SegMap.segOf H m k = i
      · rw [if_pos h, if_pos ⟨h, hi⟩, c2 k]
      · rw [if_neg h, if_neg (by intro h'; exact h h'.1)]
  · rw [if_neg hi]
    refine ⟨inv, ?_, by simp [hi]⟩
    intro k
    rw [if_neg (by intro h; exact hi h.2)]


/-! ### interleavings of lock-atomic sections -/

/-- what a thread may do to ONE segment's table while it holds that segment's write lock -/
inductive SegOp (V : Type) where
  | put (k : Nat) (v : V)
  | pine (k : Nat) (v : V)
  | del (k : Nat)
  | evict (offset n skip : Nat)
  | clear

def SegOp.apply (H : Hashes) (s : UMap V) : SegOp V → UMap V
  | .put k v => s.put H.idx k v
  | .pine k v => (s.putIfNotExists H.idx k v).1
  | .del k => (s.del H.idx k).1
  | .evict o n sk => (s.evictKeysAt H.idx o n sk).1
  | .clear => s.clear

/-- a key is only ever written to its home segment (`getSegment(key)`) -/
def SegOp.home (H : Hashes) (nseg i : Nat) : SegOp V → Prop
  | .put k _ => H.seg nseg k = i
  | .pine k _ => H.seg nseg k = i
  | _ => True

theorem segop_spec {H : Hashes} (hH : HashOk H) {s : UMap V} (inv : Inv H.idx s) (op : SegOp V) :
    Inv H.idx (op.apply H s) ∧
    ∀ k, abs (op.apply H s) k ≠ none → abs s k ≠ none ∨ (match op with | .put k' _ => k = k' | .pine k' _ => k = k' | _ => False) := by
  cases op with
  | put k' v =>
    obtain ⟨h1, h2, _⟩ := put_spec hH.idx inv k' v
    refine ⟨h1, ?_⟩
    intro k hk
    have hk : abs (s.put H.idx k' v) k ≠ none := hk
    rw [h2 k] at hk
    by_cases h : k = k'
    · right; exact h
    · rw [if_neg h] at hk; left; exact hk
  | pine k' v =>
    obtain ⟨h1, h2, _⟩ := putIfNotExists_spec hH.idx inv k' v
    refine ⟨h1, ?_⟩
    intro k hk
    have hk : abs (s.putIfNotExists H.idx k' v).1 k ≠ none := hk
    rw [h2 k] at hk
    by_cases h : k = k'
    · right; exact h
    · rw [if_neg h] at hk; left; exact hk
  | del k' =>
    obtain ⟨h1, h2, _⟩ := del_spec hH.idx inv k'
    refine ⟨h1, ?_⟩
    intro k hk
    have hk : abs (s.del H.idx k').1 k ≠ none := hk
    rw [h2 k] at hk
    left
    by_cases h : k = k'
    · rw [if_pos h] at hk; exact absurd rfl hk
    · rw [if_neg h] at hk; exact hk
  | evict o n sk =>
    obtain ⟨h1, _, _, _, h5⟩ := evict_spec hH.idx inv o n sk
    refine ⟨h1, ?_⟩
    intro k hk
    left
    rcases h5 k with h | h
    · rw [← h]; exact hk
    · exact absurd h.1 hk
  | clear =>
    obtain ⟨h1, h2, _⟩ := clear_spec inv
    exact ⟨h1, fun k hk => absurd (h2 k) hk⟩

/-- the shared table, and per thread the amount by which the atomic counter is
still ahead of the table because of it (entries it removed under a lock and
has not yet subtracted) -/
structure CSt (V : Type) where
  m : SegMap V
  pend : List Int

/-- one lock-atomic section or one atomic counter update of some thread.
`secAdd`: a section that also adjusts the counter by exactly its size change
(Set, PutIfNotExists, Del, CompareAndDelete, CompareAndSwap, the own-segment
part of SetWithCap).  `secDefer`: a section whose counter update comes after
the unlock (the spill evictions of SetWithCap, ClearSegment).  `flush`: that
later `count.Add`.  Which operation, which quota, whether a writer thinks the
table is over capacity — all free: every schedule of the real code maps to a
sequence of these steps. -/
inductive IStep (H : Hashes) : CSt V → CSt V → Prop
  | secAdd (st : CSt V) (i : Nat) (op : SegOp V) : i < st.m.segs.size → op.home H st.m.segs.size i →
      IStep H st
        { m := { segs := st.m.segs.setIfInBounds i (op.apply H (st.m.segAt i)),
                 count := st.m.count + (((op.apply H (st.m.segAt i)).size : Int) - ((st.m.segAt i).size : Int)) },
          pend := st.pend }
  | secDefer (st : CSt V) (t i : Nat) (op : SegOp V) : i < st.m.segs.size → op.home H st.m.segs.size i →
      t < st.pend.length → (op.apply H (st.m.segAt i)).size ≤ (st.m.segAt i).size →
      IStep H st
        { m := { segs := st.m.segs.setIfInBounds i (op.apply H (st.m.segAt i)), count := st.m.count },
          pend := st.pend.set t (st.pend.getD t 0 - (((op.apply H (st.m.segAt i)).size : Int) - ((st.m.segAt i).size : Int))) }
  | flush (st : CSt V) (t : Nat) : t < st.pend.length →
      IStep H st { m := { st.m with count := st.m.count - st.pend.getD t 0 }, pend := st.pend.set t 0 }

inductive IReach (H : Hashes) : CSt V → CSt V → Prop
  | refl (s : CSt V) : IReach H s s
  | step {s t u : CSt V} : IReach H s t → IStep H t u → IReach H s u

/-- structure of every segment, and `counter + not yet subtracted = stored entries` -/
structure IInv (H : Hashes) (st : CSt V) : Prop where
  struct : SegInv H { st.m with count := total st.m }
  acct : st.m.count = total st.m + st.pend.sum

theorem int_sum_set (l : List Int) (t : Nat) (x : Int) (h : t < l.length) :
    (l.set t x).sum = l.sum - l.getD t 0 + x := by
  induction l generalizing t with
  | nil => simp at h
  | cons a r ih =>
    cases t with
    | zero => simp; omega
    | succ t =>
      simp only [List.set_cons_succ, List.sum_cons, List.getD_cons_succ]
      rw [ih t (by simpa using h)]
      omega

theorem total_count_irrel (m : SegMap V) (c : Int) : total { m with count := c } = total m := rfl

theorem istep_inv {H : Hashes} (hH : HashOk H) {s u : CSt V} (inv : IInv H s) (h : IStep H s u) : IInv H u := by
  have hsegAt : ∀ j, SegMap.segAt { s.m with count := total s.m } j = s.m.segAt j := fun _ => rfl
  have upd : ∀ (i : Nat) (op : SegOp V) (c : Int), i < s.m.segs.size → op.home H s.m.segs.size i →
      SegInv H { segs := s.m.segs.setIfInBounds i (op.apply H (s.m.segAt i)),
                 count := total s.m - ((s.m.segAt i).size : Int) + ((op.apply H (s.m.segAt i)).size : Int) } ∧
      total ({ segs := s.m.segs.setIfInBounds i (op.apply H (s.m.segAt i)), count := c } : SegMap V) =
        total s.m - ((s.m.segAt i).size : Int) + ((op.apply H (s.m.segAt i)).size : Int) := by
    intro i op c hi hhome
    obtain ⟨o1, o2⟩ := segop_spec hH (inv.struct.segs i hi) op
    refine ⟨?_, total_set s.m i _ c hi⟩
    apply seginv_set inv.struct i hi _ _ o1
    · intro k hk
      rcases o2 k hk with h' | h'
      · exact inv.struct.home i hi k h'
      · cases op with
        | put k' v => simp only at h'; rw [h']; exact hhome
        | pine k' v => simp only at h'; rw [h']; exact hhome
        | del _ => exact absurd h' id
        | evict _ _ _ => exact absurd h' id
        | clear => exact absurd h' id
    · rfl
  cases h with
  | secAdd i op hi hhome =>
    obtain ⟨u1, u2⟩ := upd i op (s.m.count + (((op.apply H (s.m.segAt i)).size : Int) - ((s.m.segAt i).size : Int))) hi hhome
    refine ⟨?_, ?_⟩
    · show SegInv H { segs := _, count := total _ }
      rw [u2]; exact u1
    · show s.m.count + _ = total _ + s.pend.sum
      rw [u2, inv.acct]; omega
  | secDefer t i op hi hhome ht _ =>
    obtain ⟨u1, u2⟩ := upd i op s.m.count hi hhome
    refine ⟨?_, ?_⟩
    · show SegInv H { segs := _, count := total _ }
      rw [u2]; exact u1
    · show s.m.count = total _ + (s.pend.set t _).sum
      rw [u2, int_sum_set _ _ _ ht, inv.acct]; omega
  | flush t ht =>
    refine ⟨inv.struct, ?_⟩
    show s.m.count - s.pend.getD t 0 = total s.m + (s.pend.set t 0).sum
    rw [int_sum_set _ _ _ ht, inv.acct]; omega

theorem ireach_inv {H : Hashes} (hH : HashOk H) {s u : CSt V} (inv : IInv H s) (h : IReach H s u) : IInv H u := by
  induction h with
  | refl => exact inv
  | step _ st ih => exact istep_inv hH ih st

theorem sum_all_zero (l : List Int) (h : ∀ t, l.getD t 0 = 0) : l.sum = 0 := by
  induction l with
  | nil => rfl
  | cons a r ih =>
    have h0 := h 0
    simp only [List.getD_cons_zero] at h0
    rw [List.sum_cons, h0, ih (fun t => by simpa using h (t + 1))]; rfl

/-- quiescent states of the interleaved system: the counter is exact -/
theorem ireach_quiescent {H : Hashes} (hH : HashOk H) {m0 : SegMap V} (inv0 : SegInv H m0) (threads : Nat)
    {st : CSt V} (h : IReach H ⟨m0, List.replicate threads 0⟩ st) (hq : ∀ t, st.pend.getD t 0 = 0) :
    SegInv H st.m ∧ st.m.len = (st.m.reachable : Int) := by
  have i0 : IInv H (⟨m0, List.replicate threads 0⟩ : CSt V) := by
    refine ⟨?_, ?_⟩
    · show SegInv H { m0 with count := total m0 }
      rw [← inv0.count]; exact inv0
    · show m0.count = total m0 + (List.replicate threads (0 : Int)).sum
      rw [inv0.count]
      have : (List.replicate threads (0 : Int)).sum = 0 := by
        apply sum_all_zero; intro t; simp [List.getD_eq_getElem?_getD, List.getElem?_replicate]; split <;> rfl
      omega
  have inv := ireach_inv hH i0 h
  have hc : st.m.count = total st.m := by rw [inv.acct, sum_all_zero _ hq]; omega
  have hs : SegInv H st.m := by
    have := inv.struct
    rw [← hc] at this
    exact this
  exact ⟨hs, len_eq_reachable hs⟩

/-- `Set` is one lock-atomic section of the interleaved system -/
theorem set_is_step {H : Hashes} (hH : HashOk H) {m : SegMap V} (inv : SegInv H m) (k : Nat) (v : V)
    (pend : List Int) : IStep H ⟨m, pend⟩ ⟨m.set H k v, pend⟩ := by
  have hi := segOf_lt hH inv k
  obtain ⟨_, _, p3⟩ := put_spec hH.idx (inv.segs _ hi) k v
  have h := IStep.secAdd (H := H) ⟨m, pend⟩ (SegMap.segOf H m k) (SegOp.put k v) hi rfl
  refine cast ?_ h
  congr 2
  unfold SegMap.set SegOp.apply UMap.len
  simp only
  rw [p3]
  congr 1
  split <;> split <;> omega

/-- `Del` is one lock-atomic section -/
theorem del_is_step {H : Hashes} (hH : HashOk H) {m : SegMap V} (inv : SegInv H m) (k : Nat)
    (pend : List Int) : IStep H ⟨m, pend⟩ ⟨(m.del H k).1, pend⟩ := by
  have hi := segOf_lt hH inv k
  obtain ⟨_, _, p3, p4⟩ := del_spec hH.idx (inv.segs _ hi) k
  have h := IStep.secAdd (H := H) ⟨m, pend⟩ (SegMap.segOf H m k) (SegOp.del k) hi trivial
  refine cast ?_ h
  congr 2
  unfold SegMap.del SegOp.apply
  simp only
  rw [p3]
  congr 1
  split at p4 <;> simp_all <;> omega

/-- one spill eviction of `SetWithCap` (evict under the neighbour's lock,
`count.Add(-d)` after the unlock) is a deferred section followed by its flush -/
theorem spill_is_two_steps {H : Hashes} (hH : HashOk H) {m : SegMap V} (inv : SegInv H m) (j offset n skip t : Nat)
    (hj : j < m.segs.size) (pend : List Int) (ht : t < pend.length) (h0 : pend.getD t 0 = 0) :
    ∃ mid, IStep H ⟨m, pend⟩ mid ∧ IStep H mid ⟨evictSeg H m j offset n skip, pend⟩ := by
  obtain ⟨_, _, e3, _, _⟩ := evict_spec hH.idx (inv.segs j hj) offset n skip
  refine ⟨_, IStep.secDefer ⟨m, pend⟩ t j (SegOp.evict offset n skip) hj trivial ht
    (by show (UMap.evictKeysAt H.idx (m.segAt j) offset n skip).1.size ≤ (m.segAt j).size; omega), ?_⟩
  have hf := IStep.flush (H := H) (V := V)
    ⟨{ segs := m.segs.setIfInBounds j ((SegOp.evict offset n skip).apply H (m.segAt j)), count := m.count },
     pend.set t (pend.getD t 0 - ((((SegOp.evict offset n skip).apply H (m.segAt j)).size : Int) - ((m.segAt j).size : Int)))⟩
    t (by simpa using ht)
  refine cast ?_ hf
  have hg : (pend.set t (pend.getD t 0 - ((((SegOp.evict offset n skip).apply H (m.segAt j)).size : Int) - ((m.segAt j).size : Int)))).getD t 0 =
      pend.getD t 0 - ((((SegOp.evict offset n skip).apply H (m.segAt j)).size : Int) - ((m.segAt j).size : Int)) := by
    rw [List.getD_eq_getElem?_getD, List.getElem?_set]
    simp [ht]
  have hset : (pend.set t (pend.getD t 0 - ((((SegOp.evict offset n skip).apply H (m.segAt j)).size : Int) - ((m.segAt j).size : Int)))).set t 0 = pend := by
    rw [List.set_set]
    apply List.ext_getElem?
    intro i
    rw [List.getElem?_set]
    split
    · rename_i h; subst h
      rw [List.getD_eq_getElem?_getD] at h0
      cases hp : pend[t]? with
      | none => have := List.getElem?_eq_none_iff.mp hp; omega
      | some x =>
        rw [hp] at h0; simp only [Option.getD_some] at h0
        rw [h0]
    · rfl
  rw [hset, hg, h0]
  congr 2
  unfold evictSeg SegOp.apply
  simp only
  congr 1
  omega


/-! ### table lengths are powers of two: `& mask` is `% len` -/

def Pow2 (n : Nat) : Prop := ∃ k, n = 2 ^ k

theorem ceilPow2Go_pow2 (x : Nat) : ∀ f s, Pow2 s → Pow2 (ceilPow2Go x f s) := by
  intro f
  induction f with
  | zero => intro s h; exact h
  | succ f ih =>
    intro s h
    unfold ceilPow2Go
    split
    · apply ih
      obtain ⟨k, hk⟩ := h
      exact ⟨k + 1, by rw [hk, Nat.pow_succ, Nat.mul_comm]⟩
    · exact h

theorem ceilPow2_pow2 (x : Nat) : Pow2 (ceilPow2 x) := ceilPow2Go_pow2 x x 1 ⟨0, rfl⟩

theorem growLen_pow2 (n : Nat) : Pow2 (growLen n) := ceilPow2_pow2 _

/-- the code's `x & mask` (mask = len-1) is the model's `x % len` -/
theorem mask_eq_mod {n : Nat} (h : Pow2 n) (x : Nat) : x &&& (n - 1) = x % n := by
  obtain ⟨k, rfl⟩ := h
  exact Nat.and_two_pow_sub_one_eq_mod x k

/-- the code's `(i + 1) & mask` is the model's `next` -/
theorem next_eq_mask {n i : Nat} (h : Pow2 n) (hi : i < n) : next n i = (i + 1) &&& (n - 1) := by
  rw [mask_eq_mod h]
  unfold next
  split
  · rename_i h1; rw [Nat.mod_eq_of_lt h1]
  · have : i + 1 = n := by omega
    rw [this, Nat.mod_self]

theorem new_size_pow2 (capacity : Nat) : Pow2 (UMap.new capacity : UMap V).data.size := by
  unfold UMap.new
  simp only [Array.size_replicate]
  split
  · exact ceilPow2_pow2 _
  · exact ⟨3, rfl⟩

theorem put_size {idx : Nat → Nat → Nat} (hidx : IdxOk idx) {m : UMap V} (inv : Inv idx m) (k : Nat) (v : V) :
    (m.put idx k v).data.size = m.data.size ∨ (m.put idx k v).data.size = growLen m.data.size := by
  unfold UMap.put
  by_cases hk : k = 0
  · rw [if_pos hk]; exact Or.inl rfl
  · rw [if_neg hk]
    obtain ⟨inv1, _, _, hlt1⟩ := growCheck_spec hidx inv
    have hsz : (if m.size ≥ m.growAt then m.grow idx else m).data.size = m.data.size ∨
        (if m.size ≥ m.growAt then m.grow idx else m).data.size = growLen m.data.size := by
      split
      · exact Or.inr (grow_spec hidx inv).2.2.2.2
      · exact Or.inl rfl
    generalize (if m.size ≥ m.growAt then m.grow idx else m) = m1 at *
    obtain ⟨_, _, hN⟩ := store_spec hidx inv1 hlt1 k hk v
    simp only
    unfold UMap.putProbe
    cases hp : probe m1.data k m1.data.size (idx m1.data.size k) with
    | found i => simp only; show (wr m1.data i (k, v)).size = _ ∨ _; rw [size_wr]; exact hsz
    | empty e => simp only; show (wr m1.data e (k, v)).size = _ ∨ _; rw [size_wr]; exact hsz
    | full => exact absurd hp hN

theorem pine_size {idx : Nat → Nat → Nat} (hidx : IdxOk idx) {m : UMap V} (inv : Inv idx m) (k : Nat) (v : V) :
    (m.putIfNotExists idx k v).1.data.size = m.data.size ∨
    (m.putIfNotExists idx k v).1.data.size = growLen m.data.size := by
  unfold UMap.putIfNotExists
  by_cases hk : k = 0
  · rw [if_pos hk]; cases m.zero <;> exact Or.inl rfl
  · rw [if_neg hk]
    obtain ⟨inv1, _, _, hlt1⟩ := growCheck_spec hidx inv
    have hsz : (if m.size ≥ m.growAt then m.grow idx else m).data.size = m.data.size ∨
        (if m.size ≥ m.growAt then m.grow idx else m).data.size = growLen m.data.size := by
      split
      · exact Or.inr (grow_spec hidx inv).2.2.2.2
      · exact Or.inl rfl
    generalize (if m.size ≥ m.growAt then m.grow idx else m) = m1 at *
    obtain ⟨_, _, hN⟩ := store_spec hidx inv1 hlt1 k hk v
    simp only
    cases hp : probe m1.data k m1.data.size (idx m1.data.size k) with
    | found i => exact hsz
    | empty e => simp only; show (wr m1.data e (k, v)).size = _ ∨ _; rw [size_wr]; exact hsz
    | full => exact absurd hp hN

theorem del_size {idx : Nat → Nat → Nat} (hidx : IdxOk idx) {m : UMap V} (inv : Inv idx m) (k : Nat) :
    (m.del idx k).1.data.size = m.data.size := by
  unfold UMap.del
  by_cases hk : k = 0
  · rw [if_pos hk]; split <;> rfl
  · rw [if_neg hk]
    obtain ⟨hF, _, _⟩ := probe_spec hidx inv.slots k hk
    cases hp : probe m.data k m.data.size (idx m.data.size k) with
    | found i =>
      obtain ⟨hi, hki⟩ := hF i hp
      exact (delAt_spec hidx inv i hi (by rw [hki]; exact hk)).2.2.2.1
    | empty e => rfl
    | full => rfl

theorem evict_size {idx : Nat → Nat → Nat} (hidx : IdxOk idx) {m : UMap V} (inv : Inv idx m) (o n sk : Nat) :
    (m.evictKeysAt idx o n sk).1.data.size = m.data.size := by
  unfold UMap.evictKeysAt
  split
  · rfl
  · have := (evictLoop_spec hidx sk n (2 * m.data.size + 1) m (o % m.data.size) 0 0 inv (by omega)).2.1
    simp only
    split
    · exact this
    · exact this

/-- every operation keeps the table length a power of two -/
theorem step_pow2 {idx : Nat → Nat → Nat} (hidx : IdxOk idx) {m : UMap V} (inv : Inv idx m) (op : Op V)
    (h : Pow2 m.data.size) : Pow2 (step idx m op).data.size := by
  cases op with
  | put k v => rcases put_size hidx inv k v with e | e <;> (show Pow2 (m.put idx k v).data.size; rw [e])
               · exact h
               · exact growLen_pow2 _
  | pine k v => rcases pine_size hidx inv k v with e | e <;> (show Pow2 (m.putIfNotExists idx k v).1.data.size; rw [e])
                · exact h
                · exact growLen_pow2 _
  | del k => show Pow2 (m.del idx k).1.data.size; rw [del_size hidx inv]; exact h
  | evict o n s => show Pow2 (m.evictKeysAt idx o n s).1.data.size; rw [evict_size hidx inv]; exact h
  | grow => show Pow2 (m.grow idx).data.size; rw [(grow_spec hidx inv).2.2.2.2]; exact growLen_pow2 _
  | clear => show Pow2 (Array.replicate m.data.size ((0, default) : Nat × V)).size; simpa using h

theorem history_pow2 {idx : Nat → Nat → Nat} (hidx : IdxOk idx) (ops : List (Op V)) :
    ∀ (m : UMap V), Inv idx m → Pow2 m.data.size → Pow2 (ops.foldl (step idx) m).data.size := by
  induction ops with
  | nil => intro m _ h; exact h
  | cons op ops ih =>
    intro m inv h
    exact ih _ (step_spec hidx inv op).1 (step_pow2 hidx inv op h)


/-- **`Clear`** of the segmented table (run alone): every segment emptied, counter zero -/
theorem seg_clear_spec {H : Hashes} {m : SegMap V} (inv : SegInv H m) :
    SegInv H m.clear ∧ (∀ k, sabs H m.clear k = none) ∧ m.clear.count = 0 := by
  have hsz : m.clear.segs.size = m.segs.size := by simp [SegMap.clear]
  have hseg : ∀ i, i < m.segs.size → m.clear.segAt i = (m.segAt i).clear := by
    intro i hi
    simp [SegMap.clear, SegMap.segAt, Array.getD_eq_getD_getElem?, hi]
  have hout : ∀ i, m.segs.size ≤ i → m.clear.segAt i = default := by
    intro i hi
    simp [SegMap.clear, SegMap.segAt, Array.getD_eq_getD_getElem?, Array.getElem?_eq_none (by simpa using hi)]
  refine ⟨⟨by rw [hsz]; exact inv.nseg, ?_, ?_, ?_⟩, ?_, rfl⟩
  · intro i hi
    rw [hsz] at hi
    rw [hseg i hi]; exact (clear_spec (inv.segs i hi)).1
  · intro i hi k hk
    rw [hsz] at hi
    rw [hseg i hi, (clear_spec (inv.segs i hi)).2.1 k] at hk
    exact absurd rfl hk
  · show (0 : Int) = total m.clear
    unfold total
    rw [sum_zero]
    intro j hj
    have hj' : j < m.segs.size := by simpa [SegMap.clear] using hj
    have := hseg j hj'
    rw [segAt_eq_getElem m.clear j (by rw [hsz]; exact hj')] at this
    simp only [Array.getElem_toList]
    rw [this]; rfl
  · intro k
    unfold sabs
    by_cases hi : SegMap.segOf H m.clear k < m.segs.size
    · rw [hseg _ hi]; exact (clear_spec (inv.segs _ hi)).2.1 k
    · rw [hout _ (by omega)]
      show abs (default : UMap V) k = none
      unfold abs
      split
      · rfl
      · rw [lookup_eq_none_iff]; intro p hp
        have h0 : (default : UMap V).data.size = 0 := rfl
        omega

/-- at every state an interleaving can reach, a lookup returns the abstract map of that state -/
theorem ireach_get_exact {H : Hashes} (hH : HashOk H) {m0 : SegMap V} (inv0 : SegInv H m0) (threads : Nat)
    {st : CSt V} (h : IReach H ⟨m0, List.replicate threads 0⟩ st) (k : Nat) :
    st.m.get H k = sabs H st.m k ∧ st.m.has H k = (sabs H st.m k).isSome := by
  have i0 : IInv H (⟨m0, List.replicate threads 0⟩ : CSt V) := by
    refine ⟨?_, ?_⟩
    · show SegInv H { m0 with count := total m0 }
      rw [← inv0.count]; exact inv0
    · show m0.count = total m0 + (List.replicate threads (0 : Int)).sum
      rw [inv0.count]
      have : (List.replicate threads (0 : Int)).sum = 0 := by
        apply sum_all_zero; intro t; simp [List.getD_eq_getElem?_getD, List.getElem?_replicate]; split <;> rfl
      omega
  have inv := (ireach_inv hH i0 h).struct
  have hi := segOf_lt hH inv k
  exact ⟨get_eq_abs hH.idx (inv.segs _ hi) k, has_eq_abs hH.idx (inv.segs _ hi) k⟩


/-! ### limiter store histories (every method is one critical section of the single lock) -/

inductive LimOp where
  | get (k now : Nat) (first : Option Nat)
  | cleanup (cutoff : Nat)

def limStep (s : Lim) : LimOp → Lim
  | .get k now first => s.get k now first
  | .cleanup c => s.cleanup c

/-- the iteration witness of an op is admissible in state `s` -/
def LimOp.ok (s : Lim) : LimOp → Prop
  | .get _ _ first => 1000 < s.ents.length → ∃ w, first = some w ∧ w ∈ s.keys
  | .cleanup _ => True

def limRun : Lim → List LimOp → Prop
  | _, [] => True
  | s, op :: ops => op.ok s ∧ limRun (limStep s op) ops

theorem lim_cleanup_maxSize (s : Lim) (c : Nat) : (s.cleanup c).maxSize = s.maxSize := rfl

theorem lim_history (ops : List LimOp) : ∀ (s : Lim), LimInv s → limRun s ops →
    LimInv (ops.foldl limStep s) ∧ (ops.foldl limStep s).maxSize = s.maxSize := by
  induction ops with
  | nil => intro s inv _; exact ⟨inv, rfl⟩
  | cons op ops ih =>
    intro s inv hrun
    obtain ⟨hok, hrest⟩ := hrun
    cases op with
    | get k now first =>
      obtain ⟨h1, _, h3, _⟩ := lim_get_spec s k now first inv hok
      obtain ⟨i1, i2⟩ := ih _ h1 hrest
      exact ⟨i1, i2.trans h3⟩
    | cleanup c =>
      obtain ⟨h1, _⟩ := lim_cleanup_spec s c inv
      obtain ⟨i1, i2⟩ := ih _ h1 hrest
      exact ⟨i1, i2.trans rfl⟩

/-- a key looked up at `now` survives every Cleanup whose cutoff is not later than `now` -/
theorem cleanup_keeps_fresh (s : Lim) (k now cutoff : Nat) (first : Option Nat) (inv : LimInv s)
    (hfirst : 1000 < s.ents.length → ∃ w, first = some w ∧ w ∈ s.keys) (h : cutoff ≤ now) :
    (k, now) ∈ ((s.get k now first).cleanup cutoff).ents := by
  obtain ⟨h1, h2, _, _⟩ := lim_get_spec s k now first inv hfirst
  exact ((lim_cleanup_spec _ cutoff h1).2 (k, now)).mpr ⟨h2, h⟩

/-- the deferred counter adjustments are never negative: only removals are deferred -/
theorem ireach_pend_nonneg {H : Hashes} {s u : CSt V} (h : IReach H s u) (h0 : ∀ t, 0 ≤ s.pend.getD t 0) :
    ∀ t, 0 ≤ u.pend.getD t 0 := by
  induction h with
  | refl => exact h0
  | step _ st ih =>
    cases st with
    | secAdd i op _ _ => exact ih
    | secDefer t i op _ _ ht hle =>
      intro t'
      simp only
      rw [List.getD_eq_getElem?_getD, List.getElem?_set]
      split
      · rename_i h; subst h
        simp only [ht, if_true, Option.getD_some]
        have := ih t
        omega
      · have := ih t'; rw [List.getD_eq_getElem?_getD] at this; exact this
    | flush t ht =>
      intro t'
      simp only
      rw [List.getD_eq_getElem?_getD, List.getElem?_set]
      split
      · rename_i h; subst h; simp [ht]
      · have := ih t'; rw [List.getD_eq_getElem?_getD] at this; exact this

theorem sum_nonneg_of_all (l : List Int) (h : ∀ t, 0 ≤ l.getD t 0) : 0 ≤ l.sum := by
  induction l with
  | nil => simp
  | cons a r ih =>
    have h0 := h 0
    simp only [List.getD_cons_zero] at h0
    have := ih (fun t => by simpa using h (t + 1))
    rw [List.sum_cons]; omega

/-- **the counter never under-reports**: in every state of every interleaving the
number of stored entries is at most the atomic counter -/
theorem ireach_total_le_count {H : Hashes} (hH : HashOk H) {m0 : SegMap V} (inv0 : SegInv H m0) (threads : Nat)
    {st : CSt V} (h : IReach H ⟨m0, List.replicate threads 0⟩ st) :
    (st.m.reachable : Int) ≤ st.m.count := by
  have i0 : IInv H (⟨m0, List.replicate threads 0⟩ : CSt V) := by
    refine ⟨?_, ?_⟩
    · show SegInv H { m0 with count := total m0 }
      rw [← inv0.count]; exact inv0
    · show m0.count = total m0 + (List.replicate threads (0 : Int)).sum
      rw [inv0.count]
      have : (List.replicate threads (0 : Int)).sum = 0 := by
        apply sum_all_zero; intro t; simp [List.getD_eq_getElem?_getD, List.getElem?_replicate]; split <;> rfl
      omega
  have inv := ireach_inv hH i0 h
  have hp := ireach_pend_nonneg h (by
    intro t; show 0 ≤ (List.replicate threads (0 : Int)).getD t 0
    simp [List.getD_eq_getElem?_getD, List.getElem?_replicate]; split <;> simp)
  have hs := sum_nonneg_of_all _ hp
  have hr : (st.m.reachable : Int) = total st.m := by
    have := len_eq_reachable inv.struct
    show ((SegMap.reachable st.m : Nat) : Int) = total st.m
    exact this.symm
  rw [hr, inv.acct]; omega

/-- a toll visit that evicts nothing saw a segment holding no key but (possibly) the writer's own -/
theorem fruitless_visit {H : Hashes} (hH : HashOk H) {m : SegMap V} (inv : SegInv H m) (j offset deficit k : Nat)
    (hj : j < m.segs.size) (hd : 0 < deficit) (h0 : evictCnt H m j offset deficit k = 0) :
    ∀ k', abs (m.segAt j) k' ≠ none → k' = k := by
  intro k' hk'
  have hsame := (evict_spec hH.idx (inv.segs j hj) offset deficit k).2.2.2.1 h0
  have := evict_complete hH.idx (inv.segs j hj) offset deficit k (by unfold evictCnt at h0; omega) k'
  rw [hsame] at this
  exact this hk'

section ansSection
variable [DecidableEq V]

/-! ### the answer caches (PositiveCache / NegativeCache) -/

/-- `Get` of an answer cache: a live entry is returned and nothing changes; an
expired one is removed (only that key) and reported as a miss. -/
theorem ansGet_spec {H : Hashes} (hH : HashOk H) (expired : V → Bool) {c : Cache V} (inv : SegInv H c.data) (k : Nat) :
    SegInv H (c.ansGet H expired k).1.data ∧
    (c.ansGet H expired k).2 = (match sabs H c.data k with
      | some e => if expired e then none else some e
      | none => none) ∧
    (∀ k', sabs H (c.ansGet H expired k).1.data k' =
      if k' = k ∧ (match sabs H c.data k with | some e => expired e | none => false) = true then none
      else sabs H c.data k') := by
  unfold Cache.ansGet Cache.get
  rw [seg_get_eq hH inv k]
  cases hs : sabs H c.data k with
  | none => simp only; exact ⟨inv, trivial, fun k' => by simp⟩
  | some e =>
    simp only
    by_cases hx : expired e = true
    · rw [if_pos hx]
      obtain ⟨d1, d2, d3, _, _⟩ := cad_spec hH inv k e
      have ht : (c.compareAndDelete H k e).2 = true := d2.mpr hs
      refine ⟨d1, by simp [hx], ?_⟩
      intro k'
      rw [(d3 ht).1 k']
      by_cases hk : k' = k
      · simp [hk, hx]
      · simp [hk]
    · rw [if_neg hx]
      refine ⟨inv, by simp [hx], ?_⟩
      intro k'
      have : expired e = false := by simpa using hx
      simp [this]

/-- **A key yields the value most recently stored under it**, at the answer-cache
level: after `Set(k, e)` a `Get(k)` returns `e` if it is live and a miss if it
is already expired — never an older value. -/
theorem ansSet_then_get {H : Hashes} (hH : HashOk H) (expired : V → Bool) {c : Cache V} (inv : SegInv H c.data)
    (k : Nat) (e : V) :
    ((c.ansSet H k e).ansGet H expired k).2 = (if expired e then none else some e) := by
  obtain ⟨i1, s1, _, _⟩ := setWithCap_spec hH inv k e (c.maxSize : Int)
  have i1' : SegInv H (c.ansSet H k e).data := i1
  have s1' : sabs H (c.ansSet H k e).data k = some e := s1
  rw [(ansGet_spec hH expired i1' k).2.1, s1']
end ansSection


/-! ### FailureCache: the read–compute–CAS / CAD retry loops -/

/-- what `record` must leave under the key, as a function of what was there -/
def failSpec (init maxT now : Nat) : Option (Nat × Nat) → Nat × Nat
  | none => (1, now + init)
  | some cur => if now < cur.2 then cur else failNext init maxT now cur

/-- **`FailureCache.record`** (run without interference) needs one pass of its
retry loop and publishes exactly `failSpec`: a first generation for an absent
key, nothing for an active entry, the next generation — by `CompareAndSwap`
on the identical current entry — for an expired one; for a stored key no
other key and not the counter change. -/
theorem failRecord_spec {H : Hashes} (hH : HashOk H) (init maxT now k fuel : Nat) {c : Cache (Nat × Nat)}
    (inv : SegInv H c.data) :
    SegInv H (c.failRecord H init maxT now k (fuel + 1)).1.data ∧
    (c.failRecord H init maxT now k (fuel + 1)).2 = failSpec init maxT now (sabs H c.data k) ∧
    sabs H (c.failRecord H init maxT now k (fuel + 1)).1.data k = some (failSpec init maxT now (sabs H c.data k)) ∧
    ((sabs H c.data k).isSome → (∀ k', k' ≠ k →
        sabs H (c.failRecord H init maxT now k (fuel + 1)).1.data k' = sabs H c.data k') ∧
      (c.failRecord H init maxT now k (fuel + 1)).1.len = c.len) := by
  unfold Cache.failRecord Cache.get
  rw [seg_get_eq hH inv k]
  cases hs : sabs H c.data k with
  | none =>
    simp only
    obtain ⟨i1, s1, _, _⟩ := setWithCap_spec hH inv k (1, now + init) (c.maxSize : Int)
    exact ⟨i1, rfl, s1, fun h => by simp at h⟩
  | some cur =>
    simp only
    by_cases hact : now < cur.2
    · rw [if_pos hact]
      refine ⟨inv, by simp [failSpec, hact], by simp [failSpec, hact, hs], fun _ => ⟨fun _ _ => rfl, rfl⟩⟩
    · rw [if_neg hact]
      obtain ⟨c1, c2, c3, _, _⟩ := cas_spec hH inv k cur (failNext init maxT now cur)
      have ht : (c.compareAndSwap H k cur (failNext init maxT now cur)).2 = true := c2.mpr hs
      rw [if_pos ht]
      obtain ⟨c31, c32⟩ := c3 ht
      refine ⟨c1, by simp [failSpec, hact], by rw [c31 k, if_pos rfl]; simp [failSpec, hact], fun _ => ⟨?_, ?_⟩⟩
      · intro k' hk'; rw [c31 k', if_neg hk']
      · exact c32

/-- **`ResetQuestion` / `ResetZone`**: one pass; the key is gone iff it was stored, nothing else changes. -/
theorem failReset_spec {H : Hashes} (hH : HashOk H) (k fuel : Nat) {c : Cache (Nat × Nat)} (inv : SegInv H c.data) :
    SegInv H (c.failReset H k (fuel + 1)).1.data ∧
    (c.failReset H k (fuel + 1)).2 = (sabs H c.data k).isSome ∧
    (∀ k', sabs H (c.failReset H k (fuel + 1)).1.data k' = if k' = k then none else sabs H c.data k') := by
  unfold Cache.failReset Cache.get
  rw [seg_get_eq hH inv k]
  cases hs : sabs H c.data k with
  | none =>
    simp only
    refine ⟨inv, rfl, ?_⟩
    intro k'
    by_cases h : k' = k
    · rw [if_pos h, h, hs]
    · rw [if_neg h]
  | some cur =>
    simp only
    obtain ⟨d1, d2, d3, _, _⟩ := cad_spec hH inv k cur
    have ht : (c.compareAndDelete H k cur).2 = true := d2.mpr hs
    rw [if_pos ht]
    exact ⟨d1, rfl, (d3 ht).1⟩

theorem failLookup_spec {H : Hashes} (hH : HashOk H) (now k : Nat) {c : Cache (Nat × Nat)} (inv : SegInv H c.data) :
    c.failLookup H now k = (match sabs H c.data k with
      | some e => if now < e.2 then some e else none
      | none => none) := by
  unfold Cache.failLookup Cache.get
  rw [seg_get_eq hH inv k]
  cases sabs H c.data k <;> rfl


/-- **`ResetMatching` / `PurgeQuestion`**: a reset of each listed key in turn
removes exactly the listed keys, keeps everything else, and counts the states
that were stored. -/
theorem failResetAll_spec {H : Hashes} (hH : HashOk H) : ∀ (ks : List Nat) {c : Cache (Nat × Nat)},
    SegInv H c.data → ks.Nodup →
    SegInv H (c.failResetAll H ks).1.data ∧
    (∀ k', sabs H (c.failResetAll H ks).1.data k' = if k' ∈ ks then none else sabs H c.data k') ∧
    (c.failResetAll H ks).2 = (ks.filter (fun k => (sabs H c.data k).isSome)).length := by
  intro ks
  induction ks with
  | nil => intro c inv _; exact ⟨inv, fun k' => by simp [Cache.failResetAll], rfl⟩
  | cons k ks ih =>
    intro c inv hnd
    rw [List.nodup_cons] at hnd
    obtain ⟨r1, r2, r3⟩ := failReset_spec hH k 3 inv
    obtain ⟨i1, i2, i3⟩ := ih r1 hnd.2
    unfold Cache.failResetAll
    simp only
    refine ⟨i1, ?_, ?_⟩
    · intro k'
      rw [i2 k', r3 k']
      by_cases hk : k' = k
      · simp [hk]
      · simp [hk]
    · rw [i3, r2, List.filter_cons]
      have hsame : ks.filter (fun x => (sabs H (c.failReset H k 4).1.data x).isSome) =
          ks.filter (fun x => (sabs H c.data x).isSome) := by
        apply List.filter_congr
        intro x hx
        rw [r3 x, if_neg (by intro h; rw [h] at hx; exact hnd.1 hx)]
      rw [hsame]
      cases (sabs H c.data k).isSome <;> simp <;> omega

/-- **`Lookup`**: the exact state while active, else the closest active ancestor-zone state. -/
theorem failLookupZ_spec {H : Hashes} (hH : HashOk H) (now qk : Nat) (zs : List Nat) {c : Cache (Nat × Nat)}
    (inv : SegInv H c.data) :
    c.failLookupZ H now qk zs =
      (let act := fun k => match sabs H c.data k with
        | some e => if now < e.2 then some e else none
        | none => none
       match act qk with
       | some e => some e
       | none => zs.findSome? act) := by
  unfold Cache.failLookupZ
  rw [failLookup_spec hH now qk inv]
  have : (fun z => c.failLookup H now z) = fun k => match sabs H c.data k with
        | some e => if now < e.2 then some e else none
        | none => none := by
    funext z; exact failLookup_spec hH now z inv
  rw [this]
  rfl

/-! ### the real mixers are admissible instances -/

theorem realIdx_ok : IdxOk realIdx := fun n _ hn => Nat.mod_lt _ hn

theorem realHashes_ok : HashOk realHashes := ⟨realIdx_ok, fun n _ hn => Nat.mod_lt _ hn⟩

/-- a hash that makes every key collide on the last slot (wrap-around chains); used for non-vacuity examples -/
def lastSlot (n _k : Nat) : Nat := n - 1

theorem lastSlot_ok : IdxOk lastSlot := fun n _ hn => by unfold lastSlot; omega

end SdnsVerif.Lemmas.UMap
