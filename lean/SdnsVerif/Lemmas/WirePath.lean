import SdnsVerif.Model.WirePath
/-!
Helper lemmas for C05 (`Props/C05.lean`): bit-field algebra of the flag word,
list decomposition of what `walkName` / `walkOpts` consume, length arithmetic
of the byte-built OPT.
-/
namespace SdnsVerif.Lemmas.WirePath
open SdnsVerif.Model.WirePath

/-! ### flag word -/

theorem testBit_bit (b : Bool) (k i : Nat) : (bit b k).testBit i = (b && decide (k = i)) := by
  unfold bit; cases b <;> simp [Nat.testBit_two_pow]

/-- every bit position of a 16-bit word, or beyond -/
theorem bit_cases (i : Nat) : i = 0 ∨ i = 1 ∨ i = 2 ∨ i = 3 ∨ i = 4 ∨ i = 5 ∨ i = 6 ∨ i = 7 ∨ i = 8 ∨ i = 9 ∨
    i = 10 ∨ i = 11 ∨ i = 12 ∨ i = 13 ∨ i = 14 ∨ i = 15 ∨ 16 ≤ i := by omega

theorem testBit_high {w i : Nat} (hw : w < 2 ^ 16) (hi : 16 ≤ i) : w.testBit i = false :=
  Nat.testBit_lt_two_pow (Nat.lt_of_lt_of_le hw (Nat.pow_le_pow_right (by decide) hi))

/-- `ApplyReply` on any 16-bit word is the header record with QR set, the
opcode replaced, RD/CD replaced and AA cleared — every other field kept. -/
theorem applyReply_eq_encode (w op : Nat) (rd cd : Bool) (hw : w < 2 ^ 16) :
    applyReply w op rd cd = (setReplyAlways (Hdr.decode w) op rd cd).encode := by
  apply Nat.eq_of_testBit_eq
  intro i
  have hi := @testBit_high w i hw
  simp only [applyReply, Hdr.encode, setReplyAlways, Hdr.decode, andNot, FlagQR, FlagAA, FlagRD, FlagCD,
    FlagOpcodeMsk, FlagOpcodeSh, u16max]
  cases rd <;> cases cd <;>
  simp only [Nat.testBit_or, Nat.testBit_and, Nat.testBit_xor, Nat.testBit_two_pow, Nat.testBit_two_pow_sub_one,
    Nat.testBit_shiftLeft, Nat.testBit_mod_two_pow, testBit_bit, if_true, if_false, Bool.false_eq_true] <;>
  (rcases bit_cases i with rfl | rfl | rfl | rfl | rfl | rfl | rfl | rfl | rfl | rfl | rfl | rfl | rfl | rfl | rfl | rfl | h16
   all_goals first
     | (simp [Nat.testBit_mod_two_pow, Nat.testBit_shiftRight] <;> decide)
     | (have := hi h16
        simp [this, show ¬(15 = i) by omega, show ¬(10 = i) by omega, show ¬(i - 11 < 4) by omega,
          show ¬(9 = i) by omega, show ¬(8 = i) by omega, show ¬(7 = i) by omega, show ¬(6 = i) by omega,
          show ¬(5 = i) by omega, show ¬(4 = i) by omega, show ¬ (i < 16) by omega, show ¬ (i < 4) by omega]))


/- closes a goal `testBit lhs i = testBit rhs i` about 16-bit words after the
bit lemmas have been pushed inside; `hi` is `16 ≤ i → w.testBit i = false`. -/
set_option hygiene false in
macro "bits16_cases" i:ident hi:ident : tactic => `(tactic|
  (rcases bit_cases $i with rfl | rfl | rfl | rfl | rfl | rfl | rfl | rfl | rfl | rfl | rfl | rfl | rfl | rfl | rfl | rfl | h16
   all_goals first
     | (simp [Nat.testBit_mod_two_pow, Nat.testBit_shiftRight] <;> decide)
     | (have hh := $hi h16
        simp [hh, show ¬(15 = $i) by omega, show ¬(10 = $i) by omega, show ¬($i - 11 < 4) by omega,
          show ¬(9 = $i) by omega, show ¬(8 = $i) by omega, show ¬(7 = $i) by omega, show ¬(6 = $i) by omega,
          show ¬(5 = $i) by omega, show ¬(4 = $i) by omega, show ¬ ($i < 16) by omega, show ¬ ($i < 4) by omega])))

theorem encode_decode (w : Nat) (hw : w < 2 ^ 16) : (Hdr.decode w).encode = w := by
  apply Nat.eq_of_testBit_eq
  intro i
  have hi := @testBit_high w i hw
  simp only [Hdr.encode, Hdr.decode, Nat.testBit_or, Nat.testBit_shiftLeft, Nat.testBit_mod_two_pow, testBit_bit]
  bits16_cases i hi

theorem clearAD_eq_encode (w : Nat) (hw : w < 2 ^ 16) :
    clearAD w = ({ Hdr.decode w with ad := false } : Hdr).encode := by
  apply Nat.eq_of_testBit_eq
  intro i
  have hi := @testBit_high w i hw
  simp only [clearAD, andNot, FlagAD, u16max, Hdr.encode, Hdr.decode, Nat.testBit_or, Nat.testBit_and, Nat.testBit_xor,
    Nat.testBit_two_pow, Nat.testBit_two_pow_sub_one, Nat.testBit_shiftLeft, Nat.testBit_mod_two_pow, testBit_bit]
  bits16_cases i hi

theorem setAD_eq_encode (w : Nat) (hw : w < 2 ^ 16) :
    setAD w = ({ Hdr.decode w with ad := true } : Hdr).encode := by
  apply Nat.eq_of_testBit_eq
  intro i
  have hi := @testBit_high w i hw
  simp only [setAD, FlagAD, Hdr.encode, Hdr.decode, Nat.testBit_or, Nat.testBit_two_pow,
    Nat.testBit_shiftLeft, Nat.testBit_mod_two_pow, testBit_bit]
  bits16_cases i hi

theorem setRA_eq_encode (w : Nat) (hw : w < 2 ^ 16) :
    setRA w = ({ Hdr.decode w with ra := true } : Hdr).encode := by
  apply Nat.eq_of_testBit_eq
  intro i
  have hi := @testBit_high w i hw
  simp only [setRA, FlagRA, Hdr.encode, Hdr.decode, Nat.testBit_or, Nat.testBit_two_pow,
    Nat.testBit_shiftLeft, Nat.testBit_mod_two_pow, testBit_bit]
  bits16_cases i hi

theorem setRcode_eq_encode (w rc : Nat) (hw : w < 2 ^ 16) :
    setRcode w rc = ({ Hdr.decode w with rcode := rc % 2 ^ 4 } : Hdr).encode := by
  apply Nat.eq_of_testBit_eq
  intro i
  have hi := @testBit_high w i hw
  simp only [setRcode, andNot, u16max, Hdr.encode, Hdr.decode, Nat.testBit_or, Nat.testBit_and, Nat.testBit_xor,
    Nat.testBit_two_pow, Nat.testBit_two_pow_sub_one, Nat.testBit_shiftLeft, Nat.testBit_mod_two_pow, testBit_bit]
  bits16_cases i hi


/-! ### bytes -/

theorem be16_u16 (a b : Nat) (ha : a < 256) (hb : b < 256) : be16 (u16 a b) = [a, b] := by
  unfold be16 u16
  have h1 : (a * 256 + b) / 256 % 256 = a := by omega
  have h2 : (a * 256 + b) % 256 = b := by omega
  rw [h1, h2]

theorem take_drop_len (t : Bytes) (c : Nat) (h : ¬ t.length < c) :
    (t.take c).length = c ∧ t = t.take c ++ t.drop c := by
  refine ⟨?_, (List.take_append_drop c t).symm⟩
  rw [List.length_take]; omega

/-- no compression pointer / reserved label type: a length octet below 64 -/
theorem label_len_lt_64 (c : Nat) (hc : c < 256) (h : c &&& 0xC0 = 0) : c < 64 := by
  have h6 : (c &&& 0xC0).testBit 6 = false := by rw [h]; simp
  have h7 : (c &&& 0xC0).testBit 7 = false := by rw [h]; simp
  rw [Nat.testBit_and] at h6 h7
  have e6 : Nat.testBit 0xC0 6 = true := by decide
  have e7 : Nat.testBit 0xC0 7 = true := by decide
  rw [e6, Bool.and_true, Nat.testBit_eq_decide_div_mod_eq] at h6
  rw [e7, Bool.and_true, Nat.testBit_eq_decide_div_mod_eq] at h7
  simp only [decide_eq_false_iff_not] at h6 h7
  omega

/-! ### `walkName` -/

theorem walkName_spec : ∀ (fuel : Nat) (l : Bytes) (ls : List Bytes) (r : Bytes),
    walkName fuel l = some (ls, r) → (∀ x ∈ l, x < 256) →
    l = encName ls ++ r ∧ (∀ lab ∈ ls, 1 ≤ lab.length ∧ lab.length ≤ 63) := by
  intro fuel
  induction fuel with
  | zero => intro l ls r h; simp [walkName] at h
  | succ n ih =>
    intro l ls r h hb
    cases l with
    | nil => simp [walkName] at h
    | cons c t =>
      unfold walkName at h
      by_cases hc0 : c = 0
      · simp only [hc0, if_true, Option.some.injEq, Prod.mk.injEq] at h
        obtain ⟨rfl, rfl⟩ := h
        simp [encName, hc0]
      · simp only [hc0, if_false] at h
        by_cases hmask : c &&& 0xC0 ≠ 0
        · simp [hmask] at h
        · simp only [hmask, if_false] at h
          by_cases hlen : t.length < c
          · simp [hlen] at h
          · simp only [hlen, if_false] at h
            cases hrec : walkName n (t.drop c) with
            | none => simp [hrec] at h
            | some p =>
              obtain ⟨ls', r'⟩ := p
              simp only [hrec, Option.some.injEq, Prod.mk.injEq] at h
              obtain ⟨rfl, rfl⟩ := h
              have hbt : ∀ x ∈ t.drop c, x < 256 := fun x hx => hb x (List.mem_cons_of_mem _ (List.mem_of_mem_drop hx))
              obtain ⟨hrest, hlabs⟩ := ih _ _ _ hrec hbt
              obtain ⟨htl, hsplit⟩ := take_drop_len t c hlen
              refine ⟨?_, ?_⟩
              · simp only [encName, htl, List.cons_append, List.append_assoc]
                rw [← hrest, ← hsplit]
              · intro lab hlab
                rcases List.mem_cons.mp hlab with rfl | hl
                · rw [htl]
                  have hc256 : c < 256 := hb c (List.mem_cons_self ..)
                  have := label_len_lt_64 c hc256 (by simpa using hmask)
                  omega
                · exact hlabs lab hl

end SdnsVerif.Lemmas.WirePath
