import SdnsVerif.Model.WirePath
/-!
Helper lemmas for C05 (`Props/C05.lean`): bit-field algebra of the flag word,
list decomposition of what `walkName` / `walkOpts` consume, length arithmetic
of the byte-built OPT.
-/
namespace SdnsVerif.Lemmas.WirePath
open SdnsVerif.Model.WirePath

/-! ### flag word -/

theorem testBit_bit (b : Bool) (k i : Nat) : (bit b k).testBit i = (b && decide (k = i)) := by
  unfold bit; cases b <;> simp [Nat.testBit_two_pow]

/-- every bit position of a 16-bit word, or beyond -/
theorem bit_cases (i : Nat) : i = 0 ∨ i = 1 ∨ i = 2 ∨ i = 3 ∨ i = 4 ∨ i = 5 ∨ i = 6 ∨ i = 7 ∨ i = 8 ∨ i = 9 ∨
    i = 10 ∨ i = 11 ∨ i = 12 ∨ i = 13 ∨ i = 14 ∨ i = 15 ∨ 16 ≤ i := by omega

theorem testBit_high {w i : Nat} (hw : w < 2 ^ 16) (hi : 16 ≤ i) : w.testBit i = false :=
  Nat.testBit_lt_two_pow (Nat.lt_of_lt_of_le hw (Nat.pow_le_pow_right (by decide) hi))

/- closes a goal `testBit lhs i = testBit rhs i` about 16-bit words after the
bit lemmas have been pushed inside; `hi` is `16 ≤ i → w.testBit i = false`. -/
set_option hygiene false in
macro "bits16_cases" i:ident hi:ident : tactic => `(tactic|
  (rcases bit_cases $i with rfl | rfl | rfl | rfl | rfl | rfl | rfl | rfl | rfl | rfl | rfl | rfl | rfl | rfl | rfl | rfl | h16
   all_goals first
     | (simp [Nat.testBit_mod_two_pow, Nat.testBit_shiftRight] <;> decide)
     | (have hh := $hi h16
        simp [hh, show ¬(15 = $i) by omega, show ¬(10 = $i) by omega, show ¬($i - 11 < 4) by omega,
          show ¬(9 = $i) by omega, show ¬(8 = $i) by omega, show ¬(7 = $i) by omega, show ¬(6 = $i) by omega,
          show ¬(5 = $i) by omega, show ¬(4 = $i) by omega, show ¬ ($i < 16) by omega, show ¬ ($i < 4) by omega])))

/-- `ApplyReply` on any 16-bit word is the header record with QR set, the
opcode replaced, RD/CD replaced and AA cleared — every other field kept. -/
theorem applyReply_eq_encode (w op : Nat) (rd cd : Bool) (hw : w < 2 ^ 16) :
    applyReply w op rd cd = (setReplyAlways (Hdr.decode w) op rd cd).encode := by
  apply Nat.eq_of_testBit_eq
  intro i
  have hi := @testBit_high w i hw
  simp only [applyReply, Hdr.encode, setReplyAlways, Hdr.decode, andNot, FlagQR, FlagAA, FlagRD, FlagCD,
    FlagOpcodeMsk, FlagOpcodeSh, u16max]
  cases rd <;> cases cd <;>
  simp only [Nat.testBit_or, Nat.testBit_and, Nat.testBit_xor, Nat.testBit_two_pow, Nat.testBit_two_pow_sub_one,
    Nat.testBit_shiftLeft, Nat.testBit_mod_two_pow, testBit_bit, if_true, if_false, Bool.false_eq_true] <;>
  bits16_cases i hi

theorem encode_decode (w : Nat) (hw : w < 2 ^ 16) : (Hdr.decode w).encode = w := by
  apply Nat.eq_of_testBit_eq
  intro i
  have hi := @testBit_high w i hw
  simp only [Hdr.encode, Hdr.decode, Nat.testBit_or, Nat.testBit_shiftLeft, Nat.testBit_mod_two_pow, testBit_bit]
  bits16_cases i hi

theorem clearAD_eq_encode (w : Nat) (hw : w < 2 ^ 16) :
    clearAD w = ({ Hdr.decode w with ad := false } : Hdr).encode := by
  apply Nat.eq_of_testBit_eq
  intro i
  have hi := @testBit_high w i hw
  simp only [clearAD, andNot, FlagAD, u16max, Hdr.encode, Hdr.decode, Nat.testBit_or, Nat.testBit_and, Nat.testBit_xor,
    Nat.testBit_two_pow, Nat.testBit_two_pow_sub_one, Nat.testBit_shiftLeft, Nat.testBit_mod_two_pow, testBit_bit]
  bits16_cases i hi

theorem setAD_eq_encode (w : Nat) (hw : w < 2 ^ 16) :
    setAD w = ({ Hdr.decode w with ad := true } : Hdr).encode := by
  apply Nat.eq_of_testBit_eq
  intro i
  have hi := @testBit_high w i hw
  simp only [setAD, FlagAD, Hdr.encode, Hdr.decode, Nat.testBit_or, Nat.testBit_two_pow,
    Nat.testBit_shiftLeft, Nat.testBit_mod_two_pow, testBit_bit]
  bits16_cases i hi

theorem setRA_eq_encode (w : Nat) (hw : w < 2 ^ 16) :
    setRA w = ({ Hdr.decode w with ra := true } : Hdr).encode := by
  apply Nat.eq_of_testBit_eq
  intro i
  have hi := @testBit_high w i hw
  simp only [setRA, FlagRA, Hdr.encode, Hdr.decode, Nat.testBit_or, Nat.testBit_two_pow,
    Nat.testBit_shiftLeft, Nat.testBit_mod_two_pow, testBit_bit]
  bits16_cases i hi

theorem setRcode_eq_encode (w rc : Nat) (hw : w < 2 ^ 16) :
    setRcode w rc = ({ Hdr.decode w with rcode := rc % 2 ^ 4 } : Hdr).encode := by
  apply Nat.eq_of_testBit_eq
  intro i
  have hi := @testBit_high w i hw
  simp only [setRcode, andNot, u16max, Hdr.encode, Hdr.decode, Nat.testBit_or, Nat.testBit_and, Nat.testBit_xor,
    Nat.testBit_two_pow_sub_one, Nat.testBit_shiftLeft, Nat.testBit_mod_two_pow, testBit_bit]
  bits16_cases i hi


/-! ### bytes -/

theorem be16_u16 (a b : Nat) (ha : a < 256) (hb : b < 256) : be16 (u16 a b) = [a, b] := by
  unfold be16 u16
  have h1 : (a * 256 + b) / 256 % 256 = a := by omega
  have h2 : (a * 256 + b) % 256 = b := by omega
  rw [h1, h2]

theorem take_drop_len (t : Bytes) (c : Nat) (h : ¬ t.length < c) :
    (t.take c).length = c ∧ t = t.take c ++ t.drop c := by
  refine ⟨?_, (List.take_append_drop c t).symm⟩
  rw [List.length_take]; omega

/-- no compression pointer / reserved label type: a length octet below 64 -/
theorem label_len_lt_64 (c : Nat) (hc : c < 256) (h : c &&& 0xC0 = 0) : c < 64 := by
  have h6 : (c &&& 0xC0).testBit 6 = false := by rw [h]; simp
  have h7 : (c &&& 0xC0).testBit 7 = false := by rw [h]; simp
  rw [Nat.testBit_and] at h6 h7
  have e6 : Nat.testBit 0xC0 6 = true := by decide
  have e7 : Nat.testBit 0xC0 7 = true := by decide
  rw [e6, Bool.and_true, Nat.testBit_eq_decide_div_mod_eq] at h6
  rw [e7, Bool.and_true, Nat.testBit_eq_decide_div_mod_eq] at h7
  simp only [decide_eq_false_iff_not] at h6 h7
  omega

/-! ### `walkName` -/

theorem walkName_spec : ∀ (fuel : Nat) (l : Bytes) (ls : List Bytes) (r : Bytes),
    walkName fuel l = some (ls, r) → (∀ x ∈ l, x < 256) →
    l = encName ls ++ r ∧ (∀ lab ∈ ls, 1 ≤ lab.length ∧ lab.length ≤ 63) := by
  intro fuel
  induction fuel with
  | zero => intro l ls r h; simp [walkName] at h
  | succ n ih =>
    intro l ls r h hb
    cases l with
    | nil => simp [walkName] at h
    | cons c t =>
      unfold walkName at h
      by_cases hc0 : c = 0
      · simp only [hc0, if_true, Option.some.injEq, Prod.mk.injEq] at h
        obtain ⟨rfl, rfl⟩ := h
        simp [encName, hc0]
      · simp only [hc0, if_false] at h
        by_cases hmask : c &&& 0xC0 ≠ 0
        · simp [hmask] at h
        · simp only [hmask, if_false] at h
          by_cases hlen : t.length < c
          · simp [hlen] at h
          · simp only [hlen, if_false] at h
            cases hrec : walkName n (t.drop c) with
            | none => simp [hrec] at h
            | some p =>
              obtain ⟨ls', r'⟩ := p
              simp only [hrec, Option.some.injEq, Prod.mk.injEq] at h
              obtain ⟨rfl, rfl⟩ := h
              have hbt : ∀ x ∈ t.drop c, x < 256 := fun x hx => hb x (List.mem_cons_of_mem _ (List.mem_of_mem_drop hx))
              obtain ⟨hrest, hlabs⟩ := ih _ _ _ hrec hbt
              obtain ⟨htl, hsplit⟩ := take_drop_len t c hlen
              refine ⟨?_, ?_⟩
              · simp only [encName, htl, List.cons_append, List.append_assoc]
                rw [← hrest, ← hsplit]
              · intro lab hlab
                rcases List.mem_cons.mp hlab with rfl | hl
                · rw [htl]
                  have hc256 : c < 256 := hb c (List.mem_cons_self ..)
                  have := label_len_lt_64 c hc256 (by simpa using hmask)
                  omega
                · exact hlabs lab hl


/-! ### options -/

/-- what one accepted option does to the facts -/
structure ArmRel (code : Nat) (data : Bytes) (f f' : OptFacts) : Prop where
  udp : f'.udpSize = f.udpSize
  ver : f'.version = f.version
  dok : f'.dnssecOK = f.dnssecOK
  ecs : f'.hasECS = (f.hasECS || code == 8)
  nsid : f'.hasNSID = (f.hasNSID || code == 3)
  ka : f'.hasKeepalive = (f.hasKeepalive || code == 11)
  ck10 : code = 10 → f.cookie = [] ∧ f'.cookie = data ∧ data ≠ []
  ckn : code ≠ 10 → f'.cookie = f.cookie

theorem optionArm_spec (code n : Nat) (data : Bytes) (f f' : OptFacts)
    (h : optionArm code n data f = some f') (hlen : data.length = n) :
    SOption.ok ⟨code, data⟩ ∧ ArmRel code data f f' := by
  unfold optionArm at h
  by_cases h10 : code = 10
  · subst h10
    simp only [if_true] at h
    by_cases hbad : n < 8 ∨ n > 40 ∨ f.cookie ≠ []
    · simp [hbad] at h
    · simp only [hbad, if_false, Option.some.injEq] at h
      subst h
      have hck : f.cookie = [] := by
        by_cases hc : f.cookie = []
        · exact hc
        · exact absurd (Or.inr (Or.inr hc)) hbad
      have hne : data ≠ [] := by
        intro he; rw [he] at hlen; simp at hlen; omega
      refine ⟨Or.inl ⟨rfl, by simp only; omega, by simp only; omega⟩, ?_⟩
      constructor <;> simp [hck, hne]
  · simp only [h10, if_false] at h
    by_cases h3 : code = 3
    · subst h3
      simp only [if_true, Option.some.injEq] at h
      subst h
      refine ⟨Or.inr (Or.inl rfl), ?_⟩
      constructor <;> simp
    · simp only [h3, if_false] at h
      by_cases h8 : code = 8
      · subst h8
        simp only [if_true] at h
        by_cases hl4 : n < 4
        · simp [hl4] at h
        · simp only [hl4, if_false] at h
          have okECS : ∀ (hok : (u16 (data.getD 0 0) (data.getD 1 0) = 0 ∧ data.getD 2 0 = 0) ∨
              (u16 (data.getD 0 0) (data.getD 1 0) = 1 ∧ data.getD 2 0 ≤ 32 ∧ data.getD 3 0 ≤ 32) ∨
              (u16 (data.getD 0 0) (data.getD 1 0) = 2 ∧ data.getD 2 0 ≤ 128 ∧ data.getD 3 0 ≤ 128))
              (hf : f' = { f with hasECS := true }), SOption.ok ⟨8, data⟩ ∧ ArmRel 8 data f f' := by
            intro hok hf
            subst hf
            refine ⟨Or.inr (Or.inr (Or.inr (Or.inr ⟨rfl, by simp only; omega, hok⟩))), ?_⟩
            constructor <;> simp
          by_cases hf0 : u16 (data.getD 0 0) (data.getD 1 0) = 0
          · simp only [hf0, if_true] at h
            by_cases hm : data.getD 2 0 ≠ 0
            · rw [if_pos hm] at h; cases h
            · simp only [hm, if_false, Option.some.injEq] at h
              exact okECS (Or.inl ⟨hf0, by simpa using hm⟩) h.symm
          · simp only [hf0, if_false] at h
            by_cases hf1 : u16 (data.getD 0 0) (data.getD 1 0) = 1
            · simp only [hf1, if_true] at h
              by_cases hm : data.getD 2 0 > 32 ∨ data.getD 3 0 > 32
              · rw [if_pos hm] at h; cases h
              · simp only [hm, if_false, Option.some.injEq] at h
                exact okECS (Or.inr (Or.inl ⟨hf1, by omega, by omega⟩)) h.symm
            · simp only [hf1, if_false] at h
              by_cases hf2 : u16 (data.getD 0 0) (data.getD 1 0) = 2
              · simp only [hf2, if_true] at h
                by_cases hm : data.getD 2 0 > 128 ∨ data.getD 3 0 > 128
                · rw [if_pos hm] at h; cases h
                · simp only [hm, if_false, Option.some.injEq] at h
                  exact okECS (Or.inr (Or.inr ⟨hf2, by omega, by omega⟩)) h.symm
              · rw [if_neg hf2] at h; cases h
      · simp only [h8, if_false] at h
        by_cases h12 : code = 12
        · subst h12
          simp only [if_true, Option.some.injEq] at h
          subst h
          refine ⟨Or.inr (Or.inr (Or.inl rfl)), ?_⟩
          constructor <;> simp
        · simp only [h12, if_false] at h
          by_cases h11 : code = 11
          · subst h11
            simp only [if_true] at h
            by_cases hbad : n ≠ 0 ∧ n ≠ 2
            · simp [hbad] at h
            · simp only [hbad, if_false, Option.some.injEq] at h
              subst h
              refine ⟨Or.inr (Or.inr (Or.inr (Or.inl ⟨rfl, by simp only; omega⟩))), ?_⟩
              constructor <;> simp
          · simp [h11] at h

/-- What the option loop accepted is the encoding of a list of acceptable
options, and the facts it reports are the specification's reading of that
list (`f0` = facts before the loop). -/
theorem walkOpts_spec : ∀ (fuel : Nat) (l : Bytes) (f0 f : OptFacts),
    walkOpts fuel l f0 = some f → (∀ x ∈ l, x < 256) →
    ∃ os : List SOption, encOptions os = l ∧ (∀ o ∈ os, o.ok) ∧
      f.udpSize = f0.udpSize ∧ f.version = f0.version ∧ f.dnssecOK = f0.dnssecOK ∧
      f.hasECS = (f0.hasECS || os.any (fun x => x.code == 8)) ∧
      f.hasNSID = (f0.hasNSID || os.any (fun x => x.code == 3)) ∧
      f.hasKeepalive = (f0.hasKeepalive || os.any (fun x => x.code == 11)) ∧
      (f0.cookie = [] → f.cookie = cookieOf os ∧ countCookies os ≤ 1) ∧
      (f0.cookie ≠ [] → f.cookie = f0.cookie ∧ countCookies os = 0) := by
  intro fuel
  induction fuel with
  | zero => intro l f0 f h; simp [walkOpts] at h
  | succ n ih =>
    intro l f0 f h hb
    match l, h, hb with
    | [], h, _ =>
      simp only [walkOpts, Option.some.injEq] at h
      subst h
      exact ⟨[], rfl, by simp, rfl, rfl, rfl, by simp, by simp, by simp,
        fun hc => ⟨by simp [cookieOf, hc], by simp [countCookies]⟩, fun _ => ⟨rfl, by simp [countCookies]⟩⟩
    | [_], h, _ => simp [walkOpts] at h
    | [_, _], h, _ => simp [walkOpts] at h
    | [_, _, _], h, _ => simp [walkOpts] at h
    | c1 :: c0 :: l1 :: l0 :: t, h, hb =>
      simp only [walkOpts] at h
      by_cases hlen : t.length < u16 l1 l0
      · simp [hlen] at h
      · simp only [hlen, if_false] at h
        cases harm : optionArm (u16 c1 c0) (u16 l1 l0) (t.take (u16 l1 l0)) f0 with
        | none => simp [harm] at h
        | some f1 =>
          simp only [harm] at h
          obtain ⟨htl, hsplit⟩ := take_drop_len t (u16 l1 l0) hlen
          obtain ⟨hok, rel⟩ := optionArm_spec _ _ _ _ _ harm htl
          have hbt : ∀ x ∈ t.drop (u16 l1 l0), x < 256 := fun x hx =>
            hb x (by simp only [List.mem_cons]; right; right; right; right; exact List.mem_of_mem_drop hx)
          obtain ⟨os, henc, hall, hu, hv, hd, he, hn, hk, hc0, hc1⟩ := ih _ _ _ h hbt
          have b1 : c1 < 256 := hb c1 (by simp)
          have b0 : c0 < 256 := hb c0 (by simp)
          have bl1 : l1 < 256 := hb l1 (by simp)
          have bl0 : l0 < 256 := hb l0 (by simp)
          refine ⟨⟨u16 c1 c0, t.take (u16 l1 l0)⟩ :: os, ?_, ?_, ?_, ?_, ?_, ?_, ?_, ?_, ?_, ?_⟩
          · simp only [encOptions, htl, be16_u16 c1 c0 b1 b0, be16_u16 l1 l0 bl1 bl0, henc, List.cons_append,
              List.nil_append]
            rw [← hsplit]
          · intro o ho
            rcases List.mem_cons.mp ho with rfl | ho'
            · exact hok
            · exact hall o ho'
          · rw [hu, rel.udp]
          · rw [hv, rel.ver]
          · rw [hd, rel.dok]
          · rw [he, rel.ecs]; simp [Bool.or_assoc]
          · rw [hn, rel.nsid]; simp [Bool.or_assoc]
          · rw [hk, rel.ka]; simp [Bool.or_assoc]
          · intro hf0
            by_cases h10 : u16 c1 c0 = 10
            · obtain ⟨_, hck, hne⟩ := rel.ck10 h10
              have hne1 : f1.cookie ≠ [] := by rw [hck]; exact hne
              obtain ⟨hfc, hcnt⟩ := hc1 hne1
              refine ⟨?_, ?_⟩
              · simp [cookieOf, h10, hfc, hck]
              · simp [countCookies, h10, hcnt]
            · have := rel.ckn h10
              obtain ⟨hfc, hcnt⟩ := hc0 (by rw [this]; exact hf0)
              refine ⟨?_, ?_⟩
              · simp [cookieOf, h10, hfc]
              · simp [countCookies, h10]; exact hcnt
          · intro hf0
            by_cases h10 : u16 c1 c0 = 10
            · exact absurd (rel.ck10 h10).1 hf0
            · have := rel.ckn h10
              obtain ⟨hfc, hcnt⟩ := hc1 (by rw [this]; exact hf0)
              refine ⟨by rw [hfc, this], ?_⟩
              simp [countCookies, h10, hcnt]


theorem and_two_pow_ne_zero_iff (x k : Nat) : x &&& 2 ^ k ≠ 0 ↔ x.testBit k = true := by
  constructor
  · intro h
    by_cases ht : x.testBit k = true
    · exact ht
    · exfalso
      apply h
      apply Nat.eq_of_testBit_eq
      intro i
      simp only [Nat.testBit_and, Nat.testBit_two_pow, Nat.zero_testBit]
      by_cases hki : k = i
      · subst hki; simp at ht; simp [ht]
      · simp [hki]
  · intro ht h0
    have : (x &&& 2 ^ k).testBit k = true := by
      simp [Nat.testBit_and, ht]
    rw [h0] at this
    simp at this

/-- `parseWireOPT` accepted: the bytes are the encoding of a well-formed OPT
and the reported facts are the specification's reading of it. -/
theorem parseWireOPT_spec (rest : Bytes) (o : OptFacts) (h : parseWireOPT rest = some o)
    (hb : ∀ x ∈ rest, x < 256) :
    ∃ so : SOPT, encOPT so = rest ∧ (∀ x ∈ so.options, x.ok) ∧ countCookies so.options ≤ 1 ∧ optFactsOf so = o := by
  unfold parseWireOPT at h
  split at h
  · rename_i n t1 t0 s1 s0 xr ver z1 z0 l1 l0 rd
    by_cases hn : n ≠ 0
    · simp [hn] at h
    · simp only [hn, if_false] at h
      by_cases ht : u16 t1 t0 ≠ 41
      · simp [ht] at h
      · simp only [ht, if_false] at h
        by_cases hl : rd.length ≠ u16 l1 l0
        · simp [hl] at h
        · simp only [hl, if_false] at h
          by_cases hx : xr ≠ 0
          · simp [hx] at h
          · simp only [hx, if_false] at h
            have hbrd : ∀ x ∈ rd, x < 256 := fun x hx => hb x (by simp [hx])
            obtain ⟨os, henc, hall, hu, hv, hd, he, hns, hk, hc0, _⟩ := walkOpts_spec _ _ _ _ h hbrd
            obtain ⟨hck, hcnt⟩ := hc0 rfl
            have b : ∀ y, y ∈ [n, t1, t0, s1, s0, xr, ver, z1, z0, l1, l0] → y < 256 := fun y hy =>
              hb y (by have := List.mem_append_left rd hy; simpa using this)
            have hn0 : n = 0 := by simpa using hn
            have hx0 : xr = 0 := by simpa using hx
            have ht41 : u16 t1 t0 = 41 := by simpa using ht
            have hlen : rd.length = u16 l1 l0 := by simpa using hl
            refine ⟨{ udpSize := u16 s1 s0, version := ver, zflags := u16 z1 z0, options := os }, ?_, hall, hcnt, ?_⟩
            · simp only [encOPT, henc, hlen]
              rw [← ht41, be16_u16 t1 t0 (b _ (by simp)) (b _ (by simp)), be16_u16 s1 s0 (b _ (by simp)) (b _ (by simp)),
                be16_u16 z1 z0 (b _ (by simp)) (b _ (by simp)), be16_u16 l1 l0 (b _ (by simp)) (b _ (by simp)), hn0, hx0]
              rfl
            · have hdo : decide (u16 z1 z0 &&& 0x8000 ≠ 0) = decide (u16 z1 z0 / 2 ^ 15 % 2 = 1) := by
                have := and_two_pow_ne_zero_iff (u16 z1 z0) 15
                rw [Nat.testBit_eq_decide_div_mod_eq] at this
                simp only [decide_eq_true_eq] at this
                exact decide_eq_decide.mpr this
              cases o with
              | mk ou ov od oe on ok oc =>
                simp only at hu hv hd he hns hk hck
                simp only [optFactsOf, OptFacts.mk.injEq]
                refine ⟨hu.symm, hv.symm, ?_, ?_, ?_, ?_, hck.symm⟩
                · rw [hd, hdo]
                · rw [he]; simp
                · rw [hns]; simp
                · rw [hk]; simp
  · cases h


/-! ### OPT encoding -/

theorem appendOptions_eq_encOptions (os : List SOption) : appendOptions os = encOptions os := by
  induction os with
  | nil => rfl
  | cons o t ih => simp [appendOptions, encOptions, appendOption, ih]

theorem encOptions_length_append (a b : List SOption) :
    (encOptions (a ++ b)).length = (encOptions a).length + (encOptions b).length := by
  induction a with
  | nil => simp [encOptions]
  | cons o t ih => simp [encOptions, ih]; omega

/-! ### byte-serve steps: an induction principle over the early returns -/

/-- A property that every early return, every limiter refusal and every
commit outcome (for rung `R`) has, with at most one token spent. -/
structure StepInv (P : Step → Prop) (R : Rung) : Prop where
  decl : ∀ t, t ≤ 1 → P (declineWith t)
  drop : P droppedStep
  commit : ∀ t c, t ≤ 1 → P (commitStep R t c)

theorem gate_inv {P : Step → Prop} {R : Rung} (hP : StepInv P R) (t : Nat) (ht : t ≤ 1) (ok : Bool) (k : Step)
    (hk : P k) : P (gate t ok k) := by
  unfold gate; cases ok <;> simp [hk, hP.decl t ht]

theorem charge_inv {P : Step → Prop} {R : Rung} (hP : StepInv P R) (s : ServeFacts) (k : Nat → Step)
    (hk : ∀ t, t ≤ 1 → P (k t)) : P (charge s k) := by
  unfold charge
  split
  · exact hP.drop
  · apply hk; split <;> omega

theorem serveHit_inv {P : Step → Prop} (hP : StepInv P .exact) (s : ServeFacts) : P (serveHitFromWire s) := by
  unfold serveHitFromWire serveChaseHit
  repeat (first
    | apply gate_inv hP _ (by omega)
    | apply charge_inv hP
    | (intro t ht)
    | exact hP.commit _ _ (by omega)
    | split)

theorem serveCut_inv {P : Step → Prop} (hP : StepInv P .cut) (s : ServeFacts) : P (serveCutHitFromWire s) := by
  unfold serveCutHitFromWire
  repeat (first
    | apply gate_inv hP _ (by omega)
    | exact hP.commit _ _ (by omega))

theorem serveFailure_inv {P : Step → Prop} (hP : StepInv P .failure) (s : ServeFacts) : P (serveFailureFromWire s) := by
  unfold serveFailureFromWire
  repeat (first
    | apply gate_inv hP _ (by omega)
    | exact hP.commit _ _ (by omega))

theorem wireLadder_inv {P : Step → Prop} (h1 : StepInv P .exact) (h2 : StepInv P .cut) (h3 : StepInv P .failure)
    (q : Req) (l : Lookups) (s : ServeFacts) : P (wireLadder q l s) := by
  unfold wireLadder serveCompositeFromWire
  repeat (first
    | exact serveHit_inv h1 s
    | exact serveCut_inv h2 s
    | exact serveFailure_inv h3 s
    | exact h1.decl 0 (by omega)
    | apply gate_inv h1 _ (by omega)
    | split)


/-! ### edns: wire branch vs decoded body -/

theorem setEdns0Cookie_single (c : Bytes) : setEdns0Cookie [c] [] = if c.length ≥ 8 then c.take 8 else [] := by
  simp [setEdns0Cookie]

/-- at most one cookie option (of ≥ 8 octets): the payload list is what `cookieOf` reads -/
theorem cookiePayloads_of_le_one : ∀ (os : List SOption), (∀ o ∈ os, o.ok) → countCookies os ≤ 1 →
    cookiePayloads os = (if cookieOf os = [] then [] else [cookieOf os]) ∧
    (countCookies os = 0 → cookieOf os = [])
  | [], _, _ => by simp [cookiePayloads, cookieOf]
  | o :: t, hok, hc => by
    have ih := cookiePayloads_of_le_one t (fun x hx => hok x (List.mem_cons_of_mem _ hx))
    by_cases h10 : o.code = 10
    · have hcnt : countCookies t = 0 := by simp [countCookies, h10] at hc; omega
      obtain ⟨ih1, ih2⟩ := ih (by omega)
      have hlen : 8 ≤ o.data.length := by
        rcases hok o (List.mem_cons_self ..) with h | h | h | h | h
        · exact h.2.1
        all_goals (simp [h10] at h)
      have hne : o.data ≠ [] := by intro he; rw [he] at hlen; simp at hlen
      refine ⟨?_, ?_⟩
      · simp [cookiePayloads, cookieOf, h10, hne, ih1, ih2 hcnt]
      · intro h0; simp [countCookies, h10] at h0
    · have hc' : countCookies t ≤ 1 := by simpa [countCookies, h10] using hc
      obtain ⟨ih1, ih2⟩ := ih hc'
      refine ⟨by simp [cookiePayloads, cookieOf, h10, ih1], ?_⟩
      intro h0
      simp [countCookies, h10] at h0
      simp [cookieOf, h10, ih2 h0]

theorem dreqOfFacts_factsOf (m : SMsg) (hwf : m.WF) : dreqOfFacts (factsOf m) = dreqOf m := by
  cases hopt : m.opt with
  | none => simp [dreqOfFacts, dreqOf, factsOf, hopt]
  | some o =>
    obtain ⟨hall, hcnt⟩ := hwf.optsOK o hopt
    have := (cookiePayloads_of_le_one o.options hall hcnt).1
    simp [dreqOfFacts, dreqOf, factsOf, hopt, optFactsOf, this]

/-! ### as112 -/

theorem findZone_spec (zones : List (List String)) : ∀ (l : List String) (i j : Nat) (z : List String),
    findZone zones i l = some (j, z) → i ≤ j ∧ z = l.drop (j - i) ∧ z.length + (j - i) = l.length ∧ z ∈ zones
  | [], i, j, z, h => by simp [findZone] at h
  | a :: t, i, j, z, h => by
    unfold findZone at h
    by_cases hm : (a :: t) ∈ zones
    · simp only [hm, if_true, Option.some.injEq, Prod.mk.injEq] at h
      obtain ⟨rfl, rfl⟩ := h
      simp [hm]
    · simp only [hm, if_false] at h
      obtain ⟨h1, h2, h3, h4⟩ := findZone_spec zones t (i + 1) j z h
      refine ⟨by omega, ?_, ?_, h4⟩
      · have : j - i = (j - (i + 1)) + 1 := by omega
        rw [this, List.drop_succ_cons]; exact h2
      · simp only [List.length_cons]; omega

theorem findZone_shift (zones : List (List String)) : ∀ (l : List String) (i k : Nat),
    findZone zones (i + k) l = (findZone zones i l).map (fun p => (p.1 + k, p.2))
  | [], i, k => by simp [findZone]
  | a :: t, i, k => by
    unfold findZone
    by_cases hm : (a :: t) ∈ zones
    · simp [hm]
    · simp only [hm, if_false]
      have := findZone_shift zones t (i + 1) k
      rw [show i + k + 1 = i + 1 + k by omega]; exact this


/-! ### alias chase -/

/-- a hop the composer may use: cached, live at age `el`, NOERROR alias or terminal without baggage -/
def UsableHop (cache : List Hop) (el : Nat) (id : Nat) : Prop :=
  ∃ h, cache[id]? = some h ∧ el < h.ttl * 1000 ∧ (h.kind = .cname ∨ h.kind = .terminal)

theorem walkChase_spec (cache : List Hop) (qtOK : Bool) (el : Nat) :
    ∀ (fuel cur : Nat) (visited acc ids : List Nat),
      walkChase cache qtOK el fuel cur visited acc = some ids →
      ids.length ≤ maxWireChaseHops ∧ acc.length < ids.length ∧
      (∀ id ∈ ids, id ∈ acc ∨ UsableHop cache el id) ∧
      (∃ last h, ids.getLast? = some last ∧ cache[last]? = some h ∧ h.kind = .terminal ∧ qtOK = true) := by
  intro fuel
  induction fuel with
  | zero => intro cur visited acc ids h; simp [walkChase] at h
  | succ n ih =>
    intro cur visited acc ids h
    unfold walkChase at h
    by_cases hlen : acc.length ≥ maxWireChaseHops
    · simp [hlen] at h
    · rw [if_neg hlen] at h
      cases hc : cache[cur]? with
      | none => simp [hc] at h
      | some hop =>
        simp only [hc] at h
        by_cases hexp : hop.ttl * 1000 ≤ el
        · simp [hexp] at h
        · rw [if_neg hexp] at h
          have hlive : el < hop.ttl * 1000 := by omega
          cases hk : hop.kind with
          | terminal =>
            simp only [hk] at h
            cases qtOK with
            | false => simp at h
            | true =>
              simp only [if_true, Option.some.injEq] at h
              subst h
              refine ⟨by simp; omega, by simp, ?_, cur, hop, by simp, hc, hk, rfl⟩
              intro id hid
              rcases List.mem_append.mp hid with h1 | h1
              · exact Or.inl h1
              · simp at h1; subst h1
                exact Or.inr ⟨hop, hc, hlive, Or.inr hk⟩
          | cname =>
            simp only [hk] at h
            by_cases ht0 : hop.target = 0
            · simp [ht0] at h
            · rw [if_neg ht0] at h
              by_cases hv : hop.target ∈ visited
              · simp [hv] at h
              · rw [if_neg hv] at h
                obtain ⟨h1, h2, h3, h4⟩ := ih _ _ _ _ h
                refine ⟨h1, by simp at h2; omega, ?_, h4⟩
                intro id hid
                rcases h3 id hid with h5 | h5
                · rcases List.mem_append.mp h5 with h6 | h6
                  · exact Or.inl h6
                  · simp at h6; subst h6
                    exact Or.inr ⟨hop, hc, hlive, Or.inl hk⟩
                · exact Or.inr h5
          | nxdomain => simp [hk] at h
          | nodata => simp [hk] at h
          | baggage => simp [hk] at h
          | missing => simp [hk] at h

theorem foldl_and_eq_all (l : List Hop) (b : Bool) : l.foldl (fun acc h => acc && h.ad) b = (b && l.all (·.ad)) := by
  induction l generalizing b with
  | nil => simp
  | cons h t ih => simp [List.foldl, ih, Bool.and_assoc]

/-! ### hostsfile keys -/

theorem map_lower_joinDots : ∀ (ls : List Str), (joinDots ls).map lowerChar = joinDots (ls.map (·.map lowerChar))
  | [] => rfl
  | [l] => rfl
  | l :: m :: t => by
    have ih := map_lower_joinDots (m :: t)
    have hdot : lowerChar '.' = '.' := by decide
    simp only [joinDots, List.map_cons, List.map_append, hdot] at ih ⊢
    rw [ih]

end SdnsVerif.Lemmas.WirePath
