import SdnsVerif.Model.Nsec3
import SdnsVerif.Lemmas.Nsec
/-! Helper lemmas for the NSEC3 part of C02: what a successful ring lookup
and a successful `prepareNSEC3Set` guarantee. -/
namespace SdnsVerif.Lemmas.Nsec3
open SdnsVerif.Spec.Zone SdnsVerif.Model.Nsec SdnsVerif.Model.Nsec3 SdnsVerif.Lemmas.Nsec

/-! ### lookup -/

theorem lookupHash_ok {entries : List Entry3} {v : Hash} {m c : Option Entry3}
    (h : lookupHash entries v = .ok (m, c)) :
    (∀ e, m = some e → e ∈ entries ∧ e.ownerHash = v) ∧
    (∀ e, c = some e → e ∈ entries ∧ e.ownerHash ≠ v ∧ covers3 e.ownerHash e.nextHash v = true ∧
        m = none ∧
        ∀ e' ∈ entries, e'.ownerHash ≠ v → covers3 e'.ownerHash e'.nextHash v = true → e' = e) := by
  unfold lookupHash at h
  simp only at h
  split at h
  · rename_i hcs
    simp only [Except.ok.injEq, Prod.mk.injEq] at h
    obtain ⟨rfl, rfl⟩ := h
    refine ⟨?_, (fun e he => nomatch he)⟩
    intro e he
    exact ⟨List.mem_of_find?_eq_some he, by simpa using List.find?_some he⟩
  · rename_i c' hcs
    split at h
    · cases h
    · rename_i hm
      simp only [Except.ok.injEq, Prod.mk.injEq] at h
      obtain ⟨rfl, rfl⟩ := h
      refine ⟨(fun e he => nomatch he), ?_⟩
      intro e he
      simp only [Option.some.injEq] at he
      subst he
      have hc : c' ∈ entries.filter fun e => e.ownerHash != v && covers3 e.ownerHash e.nextHash v := by
        rw [hcs]; exact List.mem_singleton.mpr rfl
      rw [List.mem_filter] at hc
      simp only [Bool.and_eq_true, bne_iff_ne, ne_eq] at hc
      refine ⟨hc.1, hc.2.1, hc.2.2, rfl, ?_⟩
      intro e' he' hne hcov
      have : e' ∈ entries.filter fun e => e.ownerHash != v && covers3 e.ownerHash e.nextHash v := by
        rw [List.mem_filter]; simp only [Bool.and_eq_true, bne_iff_ne, ne_eq]; exact ⟨he', hne, hcov⟩
      rw [hcs] at this
      exact List.mem_singleton.mp this
  · cases h

/-- **Unique match, unique cover, never both** (`nsec3RingEvaluator.lookup`). -/
theorem lookupHash_exclusive {entries : List Entry3} {v : Hash} {m c : Option Entry3}
    (h : lookupHash entries v = .ok (m, c)) : ¬(m.isSome = true ∧ c.isSome = true) := by
  rintro ⟨hm, hc⟩
  obtain ⟨e, rfl⟩ := Option.isSome_iff_exists.mp hc
  have := ((lookupHash_ok h).2 e rfl).2.2.2.1
  rw [this] at hm; cases hm

theorem findCoverer_ok {H : HashFn} {ring : Ring} {name : Name} {c : Entry3}
    (h : findCoverer H ring name = .ok c) :
    ring.zone <+: name ∧ ∃ v, H name = some v ∧ c ∈ ring.entries ∧ covers3 c.ownerHash c.nextHash v = true := by
  unfold findCoverer at h
  split at h
  · rename_i m c' hl
    simp only [Except.ok.injEq] at h
    subst h
    unfold lookup at hl
    split at hl
    · cases hl
    · rename_i hz
      split at hl
      · cases hl
      · rename_i v hv
        have := ((lookupHash_ok hl).2 c' rfl)
        exact ⟨List.isPrefixOf_iff_prefix.mp (by simpa using hz), v, hv, this.1, this.2.2.1⟩
  · cases h
  · cases h

theorem findMatching_ok {H : HashFn} {ring : Ring} {name : Name} {m : Entry3}
    (h : findMatching H ring name = .ok m) :
    ring.zone <+: name ∧ ∃ v, H name = some v ∧ m ∈ ring.entries ∧ m.ownerHash = v := by
  unfold findMatching at h
  split at h
  · rename_i m' c' hl
    simp only [Except.ok.injEq] at h
    subst h
    unfold lookup at hl
    split at hl
    · cases hl
    · rename_i hz
      split at hl
      · cases hl
      · rename_i v hv
        have := ((lookupHash_ok hl).1 m' rfl)
        exact ⟨List.isPrefixOf_iff_prefix.mp (by simpa using hz), v, hv, this.1, this.2⟩
  · cases h
  · cases h

/-- the closest-encloser walk returns a matched candidate that is a prefix of
the name with at least one label and inside the ring's zone. -/
theorem walk_ok {H : HashFn} {ring : Ring} {name : Name} : ∀ (fuel k : Nat) (m : Entry3),
    walk H ring name fuel = some (k, m) →
    1 ≤ k ∧ k ≤ fuel ∧ findMatching H ring (name.take k) = .ok m := by
  intro fuel
  induction fuel with
  | zero => intro k m h; simp [walk] at h
  | succ f ih =>
    intro k m h
    unfold walk at h
    split at h
    · rename_i m' hm
      simp only [Option.some.injEq, Prod.mk.injEq] at h
      obtain ⟨rfl, rfl⟩ := h
      exact ⟨by omega, by omega, hm⟩
    · obtain ⟨h1, h2, h3⟩ := ih k m h
      exact ⟨h1, by omega, h3⟩

/-! ### prepareNSEC3Set -/

theorem dedupe_subset : ∀ (l acc : List Nsec3) (r : Nsec3), r ∈ dedupe acc l → r ∈ acc ∨ r ∈ l := by
  intro l
  induction l with
  | nil => intro acc r h; simp only [dedupe, List.mem_reverse] at h; exact Or.inl h
  | cons x t ih =>
    intro acc r h
    unfold dedupe at h
    split at h
    · rcases ih acc r h with h1 | h1
      · exact Or.inl h1
      · exact Or.inr (List.mem_cons_of_mem _ h1)
    · rcases ih (x :: acc) r h with h1 | h1
      · rcases List.mem_cons.mp h1 with rfl | h2
        · exact Or.inr (List.mem_cons_self ..)
        · exact Or.inl h2
      · exact Or.inr (List.mem_cons_of_mem _ h1)

theorem sameIdentity_iff (a b : Nsec3) : sameIdentity a b = true ↔
    (a.owner = b.owner ∧ a.cls = b.cls ∧ a.alg = b.alg ∧ a.flags = b.flags ∧ a.iter = b.iter ∧
     a.salt = b.salt ∧ a.next = b.next ∧ sortNat a.types = sortNat b.types ∧ a.ownerHash = b.ownerHash) := by
  unfold sameIdentity
  simp only [Bool.and_eq_true, beq_iff_eq, and_assoc]

theorem sameIdentity_trans {a b c : Nsec3} (h1 : sameIdentity a b = true) (h2 : sameIdentity b c = true) :
    sameIdentity a c = true := by
  rw [sameIdentity_iff] at *
  obtain ⟨a1, a2, a3, a4, a5, a6, a7, a8, a9⟩ := h1
  obtain ⟨b1, b2, b3, b4, b5, b6, b7, b8, b9⟩ := h2
  exact ⟨a1.trans b1, a2.trans b2, a3.trans b3, a4.trans b4, a5.trans b5, a6.trans b6, a7.trans b7,
    a8.trans b8, a9.trans b9⟩

theorem sameIdentity_refl (a : Nsec3) : sameIdentity a a = true := by
  rw [sameIdentity_iff]; exact ⟨rfl, rfl, rfl, rfl, rfl, rfl, rfl, rfl, rfl⟩

/-- every record of the input has a representative with the same identity in
the de-duplicated list. -/
theorem dedupe_repr : ∀ (l acc : List Nsec3),
    (∀ a ∈ acc, ∃ b ∈ dedupe acc l, sameIdentity a b = true) ∧
    (∀ r ∈ l, ∃ b ∈ dedupe acc l, sameIdentity r b = true) := by
  intro l
  induction l with
  | nil =>
    intro acc
    refine ⟨?_, fun r h => by cases h⟩
    intro a ha
    exact ⟨a, by simp [dedupe, ha], sameIdentity_refl a⟩
  | cons x t ih =>
    intro acc
    unfold dedupe
    split
    · rename_i hany
      obtain ⟨i1, i2⟩ := ih acc
      refine ⟨i1, ?_⟩
      intro r hr
      rcases List.mem_cons.mp hr with rfl | hr
      · obtain ⟨a, ha, hs⟩ := List.any_eq_true.mp hany
        obtain ⟨b, hb, hab⟩ := i1 a ha
        exact ⟨b, hb, sameIdentity_trans hs hab⟩
      · exact i2 r hr
    · obtain ⟨i1, i2⟩ := ih (x :: acc)
      refine ⟨fun a ha => i1 a (List.mem_cons_of_mem _ ha), ?_⟩
      intro r hr
      rcases List.mem_cons.mp hr with rfl | hr
      · exact i1 r (List.mem_cons_self ..)
      · exact i2 r hr

theorem mem_insertE (x y : Entry3) : ∀ l, y ∈ insertE x l ↔ y = x ∨ y ∈ l := by
  intro l
  induction l with
  | nil => simp [insertE]
  | cons z t ih =>
    unfold insertE
    split
    · simp only [List.mem_cons, ih]
      constructor
      · rintro (h | h | h)
        · exact Or.inr (Or.inl h)
        · exact Or.inl h
        · exact Or.inr (Or.inr h)
      · rintro (h | h | h)
        · exact Or.inr (Or.inl h)
        · exact Or.inl h
        · exact Or.inr (Or.inr h)
    · simp only [List.mem_cons]

theorem mem_sortE (y : Entry3) : ∀ l, y ∈ sortE l ↔ y ∈ l := by
  intro l
  induction l with
  | nil => simp [sortE]
  | cons x t ih => simp only [sortE, mem_insertE, ih, List.mem_cons]

theorem sameParams_trans {a b f : Nsec3} (h1 : sameParams a f = true) (h2 : sameParams b f = true) :
    sameParams a b = true := by
  unfold sameParams at *
  simp only [Bool.and_eq_true, beq_iff_eq] at *
  exact ⟨⟨h1.1.1.trans h2.1.1.symm, h1.1.2.trans h2.1.2.symm⟩, h1.2.trans h2.2.symm⟩

theorem prepareFrom_ok {us : List Nsec3} {zone : Name} {ring : Ring} (h : prepareFrom zone us = .ok ring) :
    ring.zone = zone ∧
    (∀ b ∈ us, b.cls = ring.cls ∧ recordOk zone b = true) ∧
    (∀ b₁ ∈ us, ∀ b₂ ∈ us, sameParams b₁ b₂ = true) ∧
    (∀ e ∈ ring.entries, ∃ b ∈ us, e = toEntry (0, b)) := by
  unfold prepareFrom at h
  split at h
  · cases h
  · rename_i f rest
    split at h
    · cases h
    · rename_i hrec
      split at h
      · cases h
      · rename_i hpar
        split at h
        · cases h
        · simp only [Except.ok.injEq] at h
          subst h
          have hrecOk : ∀ b ∈ f :: rest, recordOk zone b = true := by
            intro b hb
            cases hb' : recordOk zone b with
            | true => rfl
            | false =>
              exfalso; apply hrec
              rw [List.any_eq_true]; exact ⟨b, hb, by simp [hb']⟩
          have hparOk : ∀ b ∈ f :: rest, b.cls = f.cls ∧ sameParams b f = true := by
            intro b hb
            constructor
            · cases hc : (b.cls != f.cls) with
              | false => simpa using hc
              | true => exfalso; apply hpar; rw [List.any_eq_true]; exact ⟨b, hb, by simp [hc]⟩
            · cases hc : sameParams b f with
              | true => rfl
              | false => exfalso; apply hpar; rw [List.any_eq_true]; exact ⟨b, hb, by simp [hc]⟩
          refine ⟨rfl, fun b hb => ⟨(hparOk b hb).1, hrecOk b hb⟩,
            fun b₁ h₁ b₂ h₂ => sameParams_trans (hparOk b₁ h₁).2 (hparOk b₂ h₂).2, ?_⟩
          intro e he
          have he' : e ∈ sortE ((f :: rest).map fun r => toEntry (0, r)) := he
          rw [mem_sortE, List.mem_map] at he'
          obtain ⟨b, hb, rfl⟩ := he'
          exact ⟨b, hb, rfl⟩

theorem sameIdentity_fields {a b : Nsec3} (h : sameIdentity a b = true) :
    a.owner = b.owner ∧ a.cls = b.cls ∧ a.alg = b.alg ∧ a.iter = b.iter ∧ a.salt = b.salt := by
  rw [sameIdentity_iff] at h
  obtain ⟨s1, s2, s3, _, s5, s6, _⟩ := h
  exact ⟨s1, s2, s3, s5, s6⟩

/-- **`prepareNSEC3Set` admits one chain only.**  If it succeeds then every
usable record of the input (algorithm 1, iterations ≤ 150, flags 0/1) has the
ring's class and an owner exactly one label below the signer, any two usable
records carry the same (algorithm, iterations, salt), and every ring entry
is one of the usable input records with decodable hash fields. -/
theorem prepare_ok {records : List Nsec3} {zone : Name} {ring : Ring} (h : prepare records zone = .ok ring) :
    ring.zone = zone ∧
    (∀ r ∈ records, usable r = true → r.cls = ring.cls ∧ ownerInZone zone r = true) ∧
    (∀ r₁ ∈ records, ∀ r₂ ∈ records, usable r₁ = true → usable r₂ = true → sameParams r₁ r₂ = true) ∧
    (∀ e ∈ ring.entries, ∃ r ∈ records, usable r = true ∧ recordOk zone r = true ∧ e = toEntry (0, r)) := by
  unfold prepare at h
  obtain ⟨h1, h2, h3, h4⟩ := prepareFrom_ok h
  have hrepr : ∀ r ∈ records, usable r = true →
      ∃ b ∈ dedupe [] (records.filter usable), sameIdentity r b = true := by
    intro r hr hu
    exact (dedupe_repr (records.filter usable) []).2 r (by simp [List.mem_filter, hr, hu])
  have hparams : ∀ {a b : Nsec3}, sameIdentity a b = true → sameParams a b = true := by
    intro a b hs
    obtain ⟨_, _, s3, s5, s6⟩ := sameIdentity_fields hs
    unfold sameParams; simp [s3, s5, s6]
  have hsymm : ∀ {a b : Nsec3}, sameParams a b = true → sameParams b a = true := by
    intro a b hs
    unfold sameParams at *
    simp only [Bool.and_eq_true, beq_iff_eq] at *
    exact ⟨⟨hs.1.1.symm, hs.1.2.symm⟩, hs.2.symm⟩
  refine ⟨h1, ?_, ?_, ?_⟩
  · intro r hr hu
    obtain ⟨b, hb, hs⟩ := hrepr r hr hu
    obtain ⟨s1, s2, _⟩ := sameIdentity_fields hs
    obtain ⟨hc, hok⟩ := h2 b hb
    refine ⟨s2.trans hc, ?_⟩
    unfold recordOk at hok
    simp only [Bool.and_eq_true] at hok
    unfold ownerInZone
    rw [s1, Bool.and_eq_true]
    exact hok.1.1.1.2
  · intro r₁ hr₁ r₂ hr₂ hu₁ hu₂
    obtain ⟨b₁, hb₁, hs₁⟩ := hrepr r₁ hr₁ hu₁
    obtain ⟨b₂, hb₂, hs₂⟩ := hrepr r₂ hr₂ hu₂
    have e1 := hparams hs₁
    have e2 := hparams hs₂
    have e3 := h3 b₁ hb₁ b₂ hb₂
    exact sameParams_trans (sameParams_trans e1 (hsymm e3)) e2
  · intro e he
    obtain ⟨b, hb, rfl⟩ := h4 e he
    rcases dedupe_subset _ _ b hb with hh | hh
    · cases hh
    · rw [List.mem_filter] at hh
      exact ⟨b, hh.1, hh.2, (h2 b hb).2, rfl⟩


/-! ### the genuine ring, abstractly; name-error soundness for an arbitrary hash -/

/-- What being a record of the zone's genuine NSEC3 ring means for denial, for
an ARBITRARY hash `H` (no injectivity): `hashed` are the names the ring was
built from (owners and empty non-terminals, minus opted-out insecure
delegations), `all` the whole tree.  No hashed name hashes strictly inside
the record's span; if the record does not carry Opt-Out, no name of the tree
at all does. -/
structure RecGenuine (all hashed : List Name) (H : Name → Hash) (r : Nsec3) : Prop where
  gap : ∀ oh nh, r.ownerHash = some oh → r.next = some nh → ∀ n ∈ hashed, covers3 oh nh (H n) = false
  gapAll : r.flags % 2 = 0 → ∀ oh nh, r.ownerHash = some oh → r.next = some nh →
    ∀ n ∈ all, covers3 oh nh (H n) = false

theorem recordOk_hashes {zone : Name} {r : Nsec3} (h : recordOk zone r = true) :
    ∃ oh nh, r.ownerHash = some oh ∧ r.next = some nh := by
  unfold recordOk at h
  simp only [Bool.and_eq_true] at h
  obtain ⟨⟨⟨_, h1⟩, h2⟩, _⟩ := h
  cases ho : r.ownerHash with
  | none => rw [ho] at h1; cases h1
  | some oh =>
    cases hn : r.next with
    | none => rw [hn] at h2; cases h2
    | some nh => exact ⟨oh, nh, rfl, rfl⟩

theorem take_length_le {β : Type} (l : List β) {k : Nat} (hk : k ≤ l.length) : (l.take k).length = k := by
  rw [List.length_take]; omega

/-- **`VerifyNameErrorForZoneWithWork`, arbitrary hash.**  If the validator
accepts NXDOMAIN over usable records that are all genuine, then there is a
closest-encloser length `k` inside the signer zone, the next-closer name
`q.take (k+1)` is strictly covered by a ring entry, `secure` is exactly "that
entry has no Opt-Out flag", and when `secure` holds the name is not in the
zone's tree (no owner, no empty non-terminal, no delegation — opted-out or
not — at or above it below the closest encloser). -/
theorem verifyNameError_sound {all hashed : List Name} {H : Name → Hash} {records : List Nsec3}
    (hgen : ∀ r ∈ records, usable r = true → RecGenuine all hashed H r)
    {signer q : Name} {qclass : Nat}
    (hclosed : ∀ n ∈ all, ∀ j, signer.length ≤ j → j ≤ n.length → n.take j ∈ all)
    {secure : Bool}
    (h : verifyNameError (fun n => some (H n)) records signer q qclass = .ok secure) :
    ∃ ring k nc, prepare records signer = .ok ring ∧ ring.cls = qclass ∧
      signer.length ≤ k ∧ k < q.length ∧
      findCoverer (fun n => some (H n)) ring (q.take (k + 1)) = .ok nc ∧
      secure = (nc.flags % 2 == 0) ∧ (secure = true → q ∉ all) := by
  unfold verifyNameError at h
  split at h
  · cases h
  · rename_i ring hprep
    obtain ⟨hzone, _, _, hent⟩ := prepare_ok hprep
    split at h
    · cases h
    · rename_i hcls
      split at h
      · cases h
      · rename_i k m hce
        have hwalk : walk (fun n => some (H n)) ring q q.length = some (k, m) := by
          unfold validateCE at hce
          split at hce
          · cases hce
          · rename_i k' m' hcl
            split at hce
            · cases hce
            · simp only [Except.ok.injEq, Prod.mk.injEq] at hce
              obtain ⟨rfl, rfl⟩ := hce
              exact hcl
        obtain ⟨hk1, hk2, hmatch⟩ := walk_ok q.length k m hwalk
        obtain ⟨hzk, vm, hvm, hmm, hmo⟩ := findMatching_ok hmatch
        have hzlen : signer.length ≤ k := by
          have := hzk.length_le
          rw [take_length_le q hk2, hzone] at this
          exact this
        split at h
        · cases h
        · rename_i nc hnc
          split at h
          · cases h
          · simp only [Except.ok.injEq] at h
            obtain ⟨_, v, hv, hncm, hcov⟩ := findCoverer_ok hnc
            simp only [Option.some.injEq] at hv hvm
            -- the closest encloser is a proper ancestor: a matched name is never covered
            have hklt : k < q.length := by
              rcases Nat.lt_or_ge k q.length with hlt | hge
              · exact hlt
              · exfalso
                have hkeq : k = q.length := by omega
                have hnx : nextCloser q k = q := by unfold nextCloser; simp [hge]
                rw [hnx] at hnc
                rw [hkeq, List.take_length] at hmatch
                unfold findCoverer at hnc
                unfold findMatching at hmatch
                split at hnc
                · rename_i m1 c1 hl1
                  rw [hl1] at hmatch
                  unfold lookup at hl1
                  split at hl1
                  · cases hl1
                  · simp only at hl1
                    have := lookupHash_exclusive hl1
                    cases m1 with
                    | none => simp at hmatch
                    | some _ => exact this ⟨rfl, rfl⟩
                · cases hnc
                · cases hnc
            have hnx : nextCloser q k = q.take (k + 1) := by unfold nextCloser; simp [Nat.not_le.mpr hklt]
            rw [hnx] at hnc hv
            refine ⟨ring, k, nc, hprep, by simpa using hcls, hzlen, hklt, hnc, h.symm, ?_⟩
            intro hsec hq
            obtain ⟨r, hr, hu, hrok, hre⟩ := hent nc hncm
            obtain ⟨oh, nh, hoh, hnh⟩ := recordOk_hashes hrok
            have hfl : r.flags % 2 = 0 := by
              rw [← h] at hsec
              have : nc.flags = r.flags := by rw [hre]; rfl
              rw [this] at hsec
              simpa using hsec
            have hin : q.take (k + 1) ∈ all := hclosed q hq (k + 1) (by omega) (by omega)
            have := (hgen r hr hu).gapAll hfl oh nh hoh hnh _ hin
            have e1 : nc.ownerHash = oh := by rw [hre]; simp [toEntry, hoh]
            have e2 : nc.nextHash = nh := by rw [hre]; simp [toEntry, hnh]
            rw [e1, e2, ← hv] at hcov
            rw [hcov] at this
            cases this


/-! ### a ring built by sorting hashes has the gap property (any hash function) -/

def hashNode (h : Hash) : Node := { name := [h], types := [] }

/-- the NSEC3 ring over a set of owner hashes: sorted, each entry points to
its successor, the last one wraps to the first (RFC 5155 §7.1). -/
def ringOf (hs : List Hash) : List Nsec :=
  match sortNodes (hs.map hashNode) with
  | [] => []
  | n :: t => mkChain 1 n.name (n :: t)

theorem cmpName_single (a b : Hash) : cmpName [a] [b] = cmpLabel a b := by
  unfold cmpName
  cases h : cmpLabel a b <;> simp [cmpList, h]

theorem ringOf_cover_excludes (hs : List Hash) (hd : hs.Pairwise (· ≠ ·)) (r : Nsec) (hr : r ∈ ringOf hs)
    (o n : Hash) (ho : r.owner = [o]) (hn : r.next = [n]) (h : Hash)
    (hc : covers3 o n h = true) : h ∉ hs := by
  intro hh
  unfold ringOf at hr
  have hnd : (hs.map hashNode).Pairwise fun a b => a.name ≠ b.name := by
    rw [List.pairwise_map]
    exact hd.imp (fun hne e => hne (by simpa [hashNode] using e))
  have hsorted := sortNodes_sorted _ hnd
  cases hs' : sortNodes (hs.map hashNode) with
  | nil => rw [hs'] at hr; cases hr
  | cons f t =>
    rw [hs'] at hr hsorted
    simp only at hr
    have hmem : hashNode h ∈ f :: t := by
      rw [← hs', mem_sortNodes]; exact List.mem_map.mpr ⟨h, hh, rfl⟩
    have hmin : ∀ m ∈ f :: t, cmpName m.name f.name ≠ .lt := by
      intro m hm
      rcases List.mem_cons.mp hm with rfl | hm
      · exact lawful_cmpName.lt_irrefl _
      · exact lawful_cmpName.lt_asymm ((List.pairwise_cons.mp hsorted).1 m hm)
    obtain ⟨a, ha, hao, _, _, hcase⟩ := mkChain_spec 1 f.name (f :: t) hsorted r hr
    unfold covers3 at hc
    simp only at hc
    have e1 : cmpName a.name [h] = cmpLabel o h := by rw [← hao, ho, cmpName_single]
    have hho : cmpLabel h o = cmpName [h] a.name := by rw [← hao, ho, cmpName_single]
    rcases hcase with ⟨b, hb, hnx, hab, hbetween⟩ | ⟨hnx, hlast⟩
    · have hon : cmpLabel o n = .lt := by
        rw [← cmpName_single, ← ho, ← hn, hao, hnx]; exact hab
      simp only [hon, reduceCtorEq, if_false, if_true, Bool.and_eq_true, decide_eq_true_eq] at hc
      apply hbetween (hashNode h) hmem
      constructor
      · show cmpName a.name [h] = .lt
        rw [← hao, ho, cmpName_single]
        exact (lawful_cmpLabel.gt_iff _ _).mp hc.1
      · show cmpName [h] b.name = .lt
        rw [← hnx, hn, cmpName_single]
        exact hc.2
    · -- last record: nothing is after the owner, nothing before the first name
      have h1 : cmpName a.name [h] ≠ .lt := hlast (hashNode h) hmem
      have h2 : cmpName [h] f.name ≠ .lt := hmin (hashNode h) hmem
      rw [← hao, ho, cmpName_single] at h1
      rw [← hnx, hn, cmpName_single] at h2
      by_cases heq : cmpLabel o n = .eq
      · simp only [heq, if_true, bne_iff_ne, ne_eq] at hc
        -- o = n: the owner is both the least and the greatest, so h = o
        have hon : o = n := (lawful_cmpLabel.eq_iff _ _).mp heq
        rcases lawful_cmpLabel.total o h with h3 | h3 | h3
        · exact h1 h3
        · exact hc (by rw [h3, lawful_cmpLabel.refl])
        · rw [← hon] at h2; exact h2 h3
      · by_cases hlt : cmpLabel o n = .lt
        · simp only [hlt, reduceCtorEq, if_false, if_true, Bool.and_eq_true, decide_eq_true_eq] at hc
          exact h1 ((lawful_cmpLabel.gt_iff _ _).mp hc.1)
        · simp only [heq, hlt, if_false, Bool.or_eq_true, decide_eq_true_eq] at hc
          rcases hc with hc | hc
          · exact h1 ((lawful_cmpLabel.gt_iff _ _).mp hc)
          · exact h2 hc


/-- **`VerifyNODATAForZoneWithWork` without a matching record, arbitrary hash**
(wildcard NODATA, RFC 5155 §8.7): a SECURE verdict means the next-closer name
of a validated closest encloser is covered by a span without Opt-Out, so the
question name is not in the zone's tree (its data, if any, can only come from
the wildcard the proof also names). -/
theorem verifyNODATA_nomatch_sound {all hashed : List Name} {H : Name → Hash} {records : List Nsec3}
    (hgen : ∀ r ∈ records, usable r = true → RecGenuine all hashed H r)
    {signer q : Name} {t qclass : Nat}
    (hclosed : ∀ n ∈ all, ∀ j, signer.length ≤ j → j ≤ n.length → n.take j ∈ all)
    {ring : Ring} (hprep : prepare records signer = .ok ring)
    (hnomatch : ∀ m, findMatching (fun n => some (H n)) ring q ≠ .ok m)
    (h : verifyNODATA (fun n => some (H n)) records signer q t qclass = .ok true) : q ∉ all := by
  obtain ⟨hzone, _, _, hent⟩ := prepare_ok hprep
  unfold verifyNODATA at h
  rw [hprep] at h
  simp only at h
  split at h
  · cases h
  · split at h
    · rename_i m hm; exact absurd hm (hnomatch m)
    · split at h
      · cases h
      · rename_i k m hce
        have hwalk : walk (fun n => some (H n)) ring q q.length = some (k, m) := by
          unfold validateCE at hce
          split at hce
          · cases hce
          · rename_i k' m' hcl
            split at hce
            · cases hce
            · simp only [Except.ok.injEq, Prod.mk.injEq] at hce
              obtain ⟨rfl, rfl⟩ := hce
              exact hcl
        obtain ⟨hk1, hk2, hmatch⟩ := walk_ok q.length k m hwalk
        obtain ⟨hzk, _⟩ := findMatching_ok hmatch
        have hzlen : signer.length ≤ k := by
          have := hzk.length_le
          rw [take_length_le q hk2, hzone] at this
          exact this
        have hklt : k < q.length := by
          rcases Nat.lt_or_ge k q.length with hlt | hge
          · exact hlt
          · exfalso
            have hkeq : k = q.length := by omega
            rw [hkeq, List.take_length] at hmatch
            exact hnomatch m hmatch
        split at h
        · cases h
        · rename_i nc hnc
          have hnx : nextCloser q k = q.take (k + 1) := by unfold nextCloser; simp [Nat.not_le.mpr hklt]
          rw [hnx] at hnc
          obtain ⟨_, v, hv, hncm, hcov⟩ := findCoverer_ok hnc
          simp only [Option.some.injEq] at hv
          -- secure = true forces the non-DS branch with a cover that has no Opt-Out flag
          have hfl : nc.flags % 2 = 0 := by
            split at h
            · split at h
              · simp at h
              · cases h
            · split at h
              · cases h
              · split at h
                · cases h
                · simp only [Except.ok.injEq, Bool.not_eq_true', beq_eq_false_iff_ne, ne_eq] at h
                  have := Nat.mod_two_eq_zero_or_one nc.flags
                  omega
          intro hq
          obtain ⟨r, hr, hu, hrok, hre⟩ := hent nc hncm
          obtain ⟨oh, nh, hoh, hnh⟩ := recordOk_hashes hrok
          have hfl' : r.flags % 2 = 0 := by
            have : nc.flags = r.flags := by rw [hre]; rfl
            rw [← this]; exact hfl
          have hin : q.take (k + 1) ∈ all := hclosed q hq (k + 1) (by omega) (by omega)
          have := (hgen r hr hu).gapAll hfl' oh nh hoh hnh _ hin
          have e1 : nc.ownerHash = oh := by rw [hre]; simp [toEntry, hoh]
          have e2 : nc.nextHash = nh := by rw [hre]; simp [toEntry, hnh]
          rw [e1, e2, ← hv] at hcov
          rw [hcov] at this
          cases this

/-- the record is (a copy of) a record of the ring obtained by sorting the
hashes of `names` — flags and bitmap are free. -/
def FromRing (names : List Name) (H : Name → Hash) (r : Nsec3) : Prop :=
  ∃ x ∈ ringOf (names.map H), ∃ o n, x.owner = [o] ∧ x.next = [n] ∧ r.ownerHash = some o ∧ r.next = some n

/-- **Records of the sorted ring are genuine** (no Opt-Out omission: every
name of the tree is hashed): this discharges the abstract `RecGenuine`
hypothesis of the NSEC3 soundness theorems from the ring's construction, for
any hash function that is collision-free on the zone's own names. -/
theorem fromRing_genuine (names : List Name) (H : Name → Hash) (hd : (names.map H).Pairwise (· ≠ ·))
    (r : Nsec3) (hr : FromRing names H r) : RecGenuine names names H r := by
  obtain ⟨x, hx, o, n, ho, hn, hro, hrn⟩ := hr
  have key : ∀ y ∈ names, covers3 o n (H y) = false := by
    intro y hy
    cases hc : covers3 o n (H y) with
    | false => rfl
    | true =>
      exact absurd (List.mem_map.mpr ⟨y, hy, rfl⟩) (ringOf_cover_excludes _ hd x hx o n ho hn (H y) hc)
  constructor
  · intro oh nh h1 h2 y hy
    rw [hro] at h1; rw [hrn] at h2
    simp only [Option.some.injEq] at h1 h2
    subst h1 h2
    exact key y hy
  · intro _ oh nh h1 h2 y hy
    rw [hro] at h1; rw [hrn] at h2
    simp only [Option.some.injEq] at h1 h2
    subst h1 h2
    exact key y hy

/-! ### EvaluateAggressiveNSEC3: NXDOMAIN soundness for an arbitrary hash -/

/-- an admitted aggressive entry mirrors one of the caller's records. -/
def EntryOf (records : List Nsec3) (e : Entry3) : Prop :=
  ∃ r ∈ records, r.ownerHash = some e.ownerHash ∧ r.next = some e.nextHash ∧ e.flags = r.flags

theorem addEntry3_ok {qclass : Nat} {zone : Name} {first : Nsec3} {acc acc' : List Entry3} {p : Nat × Nsec3}
    (h : addEntry3 qclass zone first acc p = .ok acc') :
    ∀ x ∈ acc', x ∈ acc ∨ (p.2.ownerHash = some x.ownerHash ∧ p.2.next = some x.nextHash ∧ x.flags = p.2.flags) := by
  unfold addEntry3 at h
  simp only at h
  split at h
  · cases h
  · split at h
    · cases h
    · split at h
      · cases h
      · split at h
        · cases h
        · split at h
          · rename_i oh nh ho hn
            split at h
            · cases h
            · split at h
              · split at h
                · cases h
                · cases h; exact fun x hx => Or.inl hx
              · cases h
                intro x hx
                rcases List.mem_append.mp hx with hx | hx
                · exact Or.inl hx
                · rw [List.mem_singleton] at hx
                  subst hx
                  exact Or.inr ⟨ho, hn, rfl⟩
          · cases h

theorem indexed3_mem {p : Nat × Nsec3} : ∀ (l : List Nsec3) (i : Nat), p ∈ indexed3 i l → p.2 ∈ l := by
  intro l
  induction l with
  | nil => intro i h; simp [indexed3] at h
  | cons r t ih =>
    intro i h
    simp only [indexed3, List.mem_cons] at h
    rcases h with rfl | h
    · exact List.mem_cons_self ..
    · exact List.mem_cons_of_mem _ (ih (i + 1) h)

theorem addEntries3_ok {qclass : Nat} {zone : Name} {first : Nsec3} {records : List Nsec3} :
    ∀ (l : List (Nat × Nsec3)) (acc es : List Entry3), (∀ p ∈ l, p.2 ∈ records) →
      (∀ x ∈ acc, EntryOf records x) → addEntries3 qclass zone first acc l = .ok es →
      ∀ x ∈ es, EntryOf records x := by
  intro l
  induction l with
  | nil => intro acc es _ hacc h; simp only [addEntries3, Except.ok.injEq] at h; subst h; exact hacc
  | cons p t ih =>
    intro acc es hl hacc h
    unfold addEntries3 at h
    split at h
    · cases h
    · rename_i acc' hadd
      refine ih acc' es (fun q hq => hl q (List.mem_cons_of_mem _ hq)) ?_ h
      intro x hx
      rcases addEntry3_ok hadd x hx with h1 | ⟨h1, h2, h3⟩
      · exact hacc x h1
      · exact ⟨p.2, hl p (List.mem_cons_self ..), h1, h2, h3⟩

theorem newEntries3_ok {records : List Nsec3} {qclass : Nat} {zone : Name} {es : List Entry3}
    (h : newEntries3 records qclass zone = .ok es) : ∀ x ∈ es, EntryOf records x := by
  unfold newEntries3 at h
  split at h
  · cases h
  · rename_i f rest
    exact addEntries3_ok _ [] es (fun p hp => indexed3_mem _ 0 hp) (fun x hx => nomatch hx) h

theorem walkAgg_ok {H : HashFn} {es : List Entry3} {q : Name} {zoneLen : Nat} : ∀ (fuel k : Nat) (m : Entry3),
    walkAgg H es q zoneLen fuel = .ok (k, m) → zoneLen ≤ k ∧ k < fuel := by
  intro fuel
  induction fuel with
  | zero => intro k m h; simp [walkAgg] at h
  | succ f ih =>
    intro k m h
    unfold walkAgg at h
    split at h
    · cases h
    · rename_i hz
      split at h
      · cases h
      · simp only [Except.ok.injEq, Prod.mk.injEq] at h
        obtain ⟨rfl, _⟩ := h
        exact ⟨by omega, by omega⟩
      · obtain ⟨h1, h2⟩ := ih k m h
        exact ⟨h1, by omega⟩

/-- **`EvaluateAggressiveNSEC3`, arbitrary hash.**  A synthesised NXDOMAIN
means: some proper ancestor length `k` inside the signer zone, the next-closer
name `q.take (k+1)` strictly covered by a record WITHOUT Opt-Out — hence not a
name of the zone's tree, and so neither is the question name. -/
theorem evaluateAggressiveNSEC3_nx_sound {all hashed : List Name} {H : Name → Hash} {records : List Nsec3}
    (hgen : ∀ r ∈ records, RecGenuine all hashed H r)
    {signer q : Name} {t qclass : Nat}
    (hclosed : ∀ n ∈ all, ∀ j, signer.length ≤ j → j ≤ n.length → n.take j ∈ all)
    {p : List Nat}
    (h : evaluateAggressiveNSEC3 (fun n => some (H n)) q t qclass signer records = .ok (.nxdomain, p)) :
    q ∉ all := by
  unfold evaluateAggressiveNSEC3 at h
  split at h
  · cases h
  · split at h
    · cases h
    · rename_i es hes
      have hent := newEntries3_ok hes
      split at h
      · cases h
      · -- exact match: only NODATA or an error can come out
        split at h
        · cases h
        · split at h
          · cases h
          · simp only [Except.ok.injEq, Prod.mk.injEq] at h; exact nomatch h.1
      · split at h
        · cases h
        · split at h
          · cases h
          · rename_i k ce hwalk
            obtain ⟨hk1, hk2⟩ := walkAgg_ok q.length k ce hwalk
            split at h
            · cases h
            · split at h
              · cases h
              · cases h
              · cases h
              · rename_i nc hnc
                split at h
                · cases h
                · rename_i hflag
                  intro hq
                  -- the next-closer cover is a genuine, non-opt-out span
                  unfold lookupAgg at hnc
                  simp only at hnc
                  obtain ⟨hncm, _, hcov, _, _⟩ := (lookupHash_ok hnc).2 nc rfl
                  obtain ⟨r, hr, hoh, hnh, hfl⟩ := hent nc hncm
                  have hfl0 : r.flags % 2 = 0 := by
                    have : ¬ (nc.flags % 2 == 1) = true := hflag
                    rw [hfl] at this
                    have := Nat.mod_two_eq_zero_or_one r.flags
                    rcases this with h0 | h1
                    · exact h0
                    · exfalso; apply ‹¬ (r.flags % 2 == 1) = true›; simp [h1]
                  have hin : q.take (k + 1) ∈ all := hclosed q hq (k + 1) (by omega) (by omega)
                  have := (hgen r hr).gapAll hfl0 _ _ hoh hnh _ hin
                  rw [hcov] at this
                  cases this

end SdnsVerif.Lemmas.Nsec3
