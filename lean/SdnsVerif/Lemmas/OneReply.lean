import SdnsVerif.Model.OneReply
/-!
Helper lemmas for C11 (`Props/C11.lean` holds the property theorems).

* writer: the written marker and the transport-call ghost move together;
* wait group: every step changes the generation table by `GensStep`
  (old generations evolve by `GRel`, at most one pristine generation is
  appended), from which the per-generation invariants follow for every
  step list; validity of every token the wait group hands out;
* dedup process: reply accounting (`OutInv`) and iteration accounting
  (`LoopInv`) for an arbitrary observation stream;
* composed system: `SInv`.
-/
namespace SdnsVerif.Lemmas.OneReply
open SdnsVerif.Model.OneReply

/-! ## responseWriter -/

def WInv (w : Writer) : Prop := (w.written = true → w.tx.length = 1) ∧ (w.written = false → w.tx = [])

theorem winv_reset (w : Writer) (d i : Bool) : WInv (w.reset d i) := by
  simp [WInv, Writer.reset]

theorem winv_call (w : Writer) (c : Call) (h : WInv w) : WInv (w.call c).1 := by
  obtain ⟨h1, h2⟩ := h
  cases hw : w.written
  · have := h2 hw
    cases c <;> simp [Writer.call, hw, WInv, this] <;> (try split) <;> simp_all [WInv]
    all_goals (try split) <;> simp_all
  · cases c <;> simp_all [Writer.call, WInv]

theorem winv_run (w : Writer) (cs : List Call) (h : WInv w) : WInv (w.run cs) := by
  induction cs generalizing w with
  | nil => exact h
  | cons c cs ih => exact ih _ (winv_call w c h)

theorem refused (w : Writer) (c : Call) (hw : w.written = true) (hc : c.isWrite = true) :
    w.call c = (w, .already) := by
  cases c <;> simp_all [Writer.call, Call.isWrite]

theorem any_sends (w : Writer) (cs : List Call) (h : WInv w) :
    (w.run cs).tx.length = if w.written || cs.any Call.sends then 1 else 0 := by
  induction cs generalizing w with
  | nil =>
    obtain ⟨h1, h2⟩ := h
    cases hw : w.written <;> simp_all [Writer.run]
  | cons c cs ih =>
    rw [Writer.run, ih _ (winv_call w c h)]
    cases hw : w.written
    · cases c <;> simp [Writer.call, hw, Call.sends]
      all_goals (try split) <;> simp_all
      all_goals (try split) <;> simp_all
    · cases c <;> simp_all [Writer.call, Call.sends]

/-! ## WaitGroup -/


/-- how a single generation may change in one step -/
inductive GRel : Gen → Gen → Prop
  | refl (g : Gen) : GRel g g
  | setNext (g : Gen) (n : Nat) : g.next = none → GRel g { g with next := some n }
  | done (g : Gen) : ¬ g.dups > 1 →
      GRel g { g with ctx := if g.ctx = .live then .canceled else g.ctx, leaderDone := true }
  | dec (g : Gen) : g.dups > 1 → GRel g { g with dups := g.dups - 1 }
  | timeout (g : Gen) : g.ctx = .live → GRel g { g with ctx := .deadline, timerFired := true }

def fresh (k : Nat) : Gen := { key := k }

/-- effect of a step on the generation table: old entries evolve by `GRel`,
and the only possible new entry is a pristine one at the next index. -/
def GensStep (a b : List Gen) : Prop :=
  (∀ (j : Nat) (g : Gen), a[j]? = some g → ∃ g', b[j]? = some g' ∧ GRel g g') ∧
  (∀ (j : Nat) (g' : Gen), a.length ≤ j → b[j]? = some g' → j = a.length ∧ ∃ k, g' = fresh k)

theorem lt_of_get? {a : List Gen} {j : Nat} {g : Gen} (h : a[j]? = some g) : j < a.length := by
  rcases List.getElem?_eq_some_iff.mp h with ⟨hp, _⟩; exact hp

theorem gensStep_refl (a : List Gen) : GensStep a a :=
  ⟨fun j g h => ⟨g, h, GRel.refl g⟩, fun j g' hj h => by
    rw [List.getElem?_eq_none hj] at h; cases h⟩

theorem gensStep_set (a : List Gen) (p : Nat) (g g' : Gen) (h : a[p]? = some g) (r : GRel g g') :
    GensStep a (a.set p g') := by
  have hp := lt_of_get? h
  constructor
  · intro j x hx
    by_cases hj : p = j
    · subst hj
      rw [h] at hx; cases hx
      exact ⟨g', by simp [List.getElem?_set, hp], r⟩
    · exact ⟨x, by simp [List.getElem?_set, hj, hx], GRel.refl x⟩
  · intro j x hj hx
    rw [List.getElem?_eq_none (by simpa using hj)] at hx; cases hx

theorem fresh_tail (a : List Gen) (k j : Nat) (x : Gen) (hj : a.length ≤ j)
    (hx : (a ++ [fresh k])[j]? = some x) : j = a.length ∧ ∃ k, x = fresh k := by
  by_cases hjl : j = a.length
  · subst hjl
    rw [List.getElem?_concat_length] at hx; cases hx
    exact ⟨rfl, k, rfl⟩
  · rw [List.getElem?_eq_none (by simp; omega)] at hx; cases hx

theorem gensStep_create (a : List Gen) (k : Nat) : GensStep a (a ++ [fresh k]) := by
  constructor
  · intro j g h
    have hj := lt_of_get? h
    exact ⟨g, by rw [List.getElem?_append_left hj]; exact h, GRel.refl g⟩
  · intro j x hj hx
    exact fresh_tail a k j x hj hx

theorem gensStep_create_setNext (a : List Gen) (k p : Nat) (g : Gen) (h : a[p]? = some g) (hn : g.next = none) :
    GensStep a ((a ++ [fresh k]).set p { g with next := some a.length }) := by
  have hp := lt_of_get? h
  constructor
  · intro j x hx
    have hj := lt_of_get? hx
    by_cases hpj : p = j
    · subst hpj
      rw [h] at hx; cases hx
      refine ⟨_, ?_, GRel.setNext g a.length hn⟩
      simp [List.getElem?_set]; omega
    · refine ⟨x, ?_, GRel.refl x⟩
      rw [List.getElem?_set_ne hpj, List.getElem?_append_left hj]; exact hx
  · intro j x hj hx
    have hpj : p ≠ j := by omega
    rw [List.getElem?_set_ne hpj] at hx
    exact fresh_tail a k j x hj hx

theorem create_gens (w : WG) (k : Nat) : (w.create k).gens = w.gens ++ [fresh k] := rfl

theorem step_gens (w : WG) (op : Op) : GensStep w.gens (w.step op).1.gens := by
  cases op with
  | join k =>
    simp only [WG.step, WG.join]
    cases hk : w.groups k with
    | some g => simpa using gensStep_refl _
    | none => simpa [create_gens] using gensStep_create _ k
  | regroup k prev =>
    simp only [WG.step]
    cases prev with
    | none =>
      simp only [WG.regroup, WG.join]
      cases hk : w.groups k with
      | some g => simpa using gensStep_refl _
      | none => simpa [create_gens] using gensStep_create _ k
    | some p =>
      simp only [WG.regroup]
      cases hp : w.gens[p]? with
      | none => simpa using gensStep_refl _
      | some gp =>
        simp only
        by_cases hd : gp.ctx = .deadline
        · simpa [hd] using gensStep_refl _
        · simp only [hd, if_false]
          cases hn : gp.next with
          | some n => simpa using gensStep_refl _
          | none =>
            simp only
            have hp' := lt_of_get? hp
            have hcreate : GensStep w.gens ((w.create k).setNext p w.gens.length).gens := by
              have : (w.create k).gens[p]? = some gp := by
                rw [create_gens, List.getElem?_append_left hp']; exact hp
              simp only [WG.setNext, this]
              simpa [create_gens] using gensStep_create_setNext w.gens k p gp hp hn
            cases hk : w.groups k with
            | none => simpa using hcreate
            | some cur =>
              simp only
              by_cases hc : cur = p
              · simpa [hc] using hcreate
              · simp only [ne_eq, hc, not_false_eq_true, if_true]
                simp only [WG.setNext, hp]
                exact gensStep_set _ _ _ _ hp (GRel.setNext gp cur hn)
  | done k g =>
    simp only [WG.step, WG.done]
    cases hg : w.gens[g]? with
    | none => simpa using gensStep_refl _
    | some gg =>
      simp only
      by_cases hd : gg.dups > 1
      · simp only [hd, if_true]
        exact gensStep_set _ _ _ _ hg (GRel.dec gg hd)
      · simp only [hd, if_false]
        have := gensStep_set _ _ _ _ hg (GRel.done gg hd)
        split <;> simpa [WG.setGroup] using this
  | timeout g =>
    simp only [WG.step, WG.timeout]
    cases hg : w.gens[g]? with
    | none => simpa using gensStep_refl _
    | some gg =>
      simp only
      by_cases hl : gg.ctx = .live
      · simp only [hl, if_true]
        exact gensStep_set _ _ _ _ hg (GRel.timeout gg hl)
      · simpa [hl] using gensStep_refl _

/-! ### per-generation invariants -/

/-- the channel followers select on is closed exactly when the leader
finished or the bounded wait expired; the generation API never shares a
generation between leaders (`dups = 1`). -/
def GInv (g : Gen) : Prop :=
  ((g.leaderDone = true ∨ g.timerFired = true) ↔ g.closed = true) ∧ g.dups = 1

theorem ginv_fresh (k : Nat) : GInv (fresh k) := by
  simp [GInv, fresh, Gen.closed]

theorem ginv_rel {g g' : Gen} (r : GRel g g') (h : GInv g) : GInv g' := by
  obtain ⟨h1, h2⟩ := h
  cases r with
  | refl => exact ⟨h1, h2⟩
  | setNext n hn => exact ⟨by simpa [Gen.closed] using h1, h2⟩
  | done hd =>
    refine ⟨?_, h2⟩
    cases hc : g.ctx <;> simp [Gen.closed, hc]
  | dec hd => omega
  | timeout hl => exact ⟨by simp [Gen.closed], h2⟩

theorem next_rel {g g' : Gen} (r : GRel g g') {n : Nat} (h : g.next = some n) : g'.next = some n := by
  cases r with
  | refl => exact h
  | setNext m hn => rw [hn] at h; cases h
  | done hd => exact h
  | dec hd => exact h
  | timeout hl => exact h

theorem leaderDone_rel {g g' : Gen} (r : GRel g g') (h : g.leaderDone = true) : g'.leaderDone = true := by
  cases r <;> simp_all

theorem key_rel {g g' : Gen} (r : GRel g g') : g'.key = g.key := by
  cases r <;> rfl

theorem deadline_rel {g g' : Gen} (r : GRel g g') (h : g.ctx = .deadline) : g'.ctx = .deadline := by
  cases r <;> simp_all

def AllG (P : Gen → Prop) (l : List Gen) : Prop := ∀ (j : Nat) (g : Gen), l[j]? = some g → P g

theorem allG_step {P : Gen → Prop} (hf : ∀ k, P (fresh k)) (hr : ∀ g g', GRel g g' → P g → P g')
    {a b : List Gen} (s : GensStep a b) (h : AllG P a) : AllG P b := by
  intro j g' hj
  by_cases hlt : j < a.length
  · have : a[j]? = some a[j] := List.getElem?_eq_getElem hlt
    obtain ⟨g'', hg'', r⟩ := s.1 j _ this
    rw [hj] at hg''; cases hg''
    exact hr _ _ r (h j _ this)
  · obtain ⟨_, k, hk⟩ := s.2 j g' (by omega) hj
    rw [hk]; exact hf k

theorem length_mono {a b : List Gen} (s : GensStep a b) : a.length ≤ b.length := by
  by_cases h : a.length = 0
  · omega
  · have hlt : a.length - 1 < a.length := by omega
    obtain ⟨g', hg', _⟩ := s.1 (a.length - 1) _ (List.getElem?_eq_getElem hlt)
    have := lt_of_get? hg'
    omega

theorem length_le_succ {a b : List Gen} (s : GensStep a b) : b.length ≤ a.length + 1 := by
  by_cases h : b.length ≤ a.length + 1
  · exact h
  · have hlt : a.length + 1 < b.length := by omega
    obtain ⟨h1, _⟩ := s.2 (a.length + 1) _ (by omega) (List.getElem?_eq_getElem hlt)
    omega

/-! ### runs -/

theorem run_cons (w : WG) (o : Op) (os : List Op) :
    WG.run w (o :: os) = ((WG.run (w.step o).1 os).1, (w.step o).2 :: (WG.run (w.step o).1 os).2) := rfl

theorem run_append (w : WG) (xs ys : List Op) :
    (WG.run w (xs ++ ys)).1 = (WG.run (WG.run w xs).1 ys).1 := by
  induction xs generalizing w with
  | nil => rfl
  | cons x xs ih => simp only [List.cons_append, run_cons]; exact ih _

/-- anything preserved by `GRel` and true of fresh generations holds after any run -/
theorem allG_run {P : Gen → Prop} (hf : ∀ k, P (fresh k)) (hr : ∀ g g', GRel g g' → P g → P g')
    (w : WG) (ops : List Op) (h : AllG P w.gens) : AllG P (WG.run w ops).1.gens := by
  induction ops generalizing w with
  | nil => exact h
  | cons o os ih =>
    rw [run_cons]
    exact ih _ (allG_step hf hr (step_gens w o) h)

/-- a generation's properties that `GRel` transports survive any run -/
theorem gen_run {P : Gen → Prop} (hr : ∀ g g', GRel g g' → P g → P g')
    (w : WG) (ops : List Op) (j : Nat) (g : Gen) (hj : w.gens[j]? = some g) (hp : P g) :
    ∃ g', (WG.run w ops).1.gens[j]? = some g' ∧ P g' := by
  induction ops generalizing w g with
  | nil => exact ⟨g, hj, hp⟩
  | cons o os ih =>
    rw [run_cons]
    obtain ⟨g', hg', r⟩ := (step_gens w o).1 j g hj
    exact ih _ g' hg' (hr _ _ r hp)

/-! ### Regroup -/

theorem regroup_sets_next (w : WG) (k p : Nat) (gp : Gen) (hp : w.gens[p]? = some gp)
    (hd : gp.ctx ≠ .deadline) :
    ∃ g', (w.regroup k (some p)).1.gens[p]? = some g' ∧ g'.next = some (w.regroup k (some p)).2.1 := by
  have hp' := lt_of_get? hp
  simp only [WG.regroup, hp, hd, if_false]
  cases hn : gp.next with
  | some n => exact ⟨gp, hp, hn⟩
  | none =>
    simp only
    have hcreate : ∃ g', ((w.create k).setNext p w.gens.length).gens[p]? = some g' ∧ g'.next = some w.gens.length := by
      have : (w.create k).gens[p]? = some gp := by
        rw [create_gens, List.getElem?_append_left hp']; exact hp
      simp only [WG.setNext, this]
      refine ⟨{ gp with next := some w.gens.length }, ?_, rfl⟩
      simp [create_gens, List.getElem?_set]; omega
    cases hk : w.groups k with
    | none => simpa using hcreate
    | some cur =>
      simp only
      by_cases hc : cur = p
      · simpa [hc] using hcreate
      · simp only [ne_eq, hc, not_false_eq_true, if_true]
        simp only [WG.setNext, hp]
        exact ⟨{ gp with next := some cur }, by simp [List.getElem?_set, hp'], rfl⟩

theorem regroup_of_next (w : WG) (k p n : Nat) (gp : Gen) (hp : w.gens[p]? = some gp)
    (hd : gp.ctx ≠ .deadline) (hn : gp.next = some n) :
    w.regroup k (some p) = (w, n, false) := by
  simp [WG.regroup, hp, hd, hn]

theorem regroup_tombstone (w : WG) (k p : Nat) (gp : Gen) (hp : w.gens[p]? = some gp)
    (hd : gp.ctx = .deadline) : w.regroup k (some p) = (w, p, false) := by
  simp [WG.regroup, hp, hd]

/-! ### leadership outputs -/

theorem step_leader (w : WG) (op : Op) :
    match (w.step op).2 with
    | some (g, true) => g = w.gens.length ∧ (w.step op).1.gens.length = w.gens.length + 1
    | _ => (w.step op).1.gens.length = w.gens.length := by
  cases op with
  | join k =>
    simp only [WG.step, WG.join]
    cases hk : w.groups k <;> simp [create_gens]
  | regroup k prev =>
    simp only [WG.step]
    cases prev with
    | none =>
      simp only [WG.regroup, WG.join]
      cases hk : w.groups k <;> simp [create_gens]
    | some p =>
      simp only [WG.regroup]
      cases hp : w.gens[p]? with
      | none => simp
      | some gp =>
        simp only
        by_cases hd : gp.ctx = .deadline
        · simp [hd]
        · simp only [hd, if_false]
          cases hn : gp.next with
          | some n => simp
          | none =>
            simp only
            have hp' := lt_of_get? hp
            have hlen : ((w.create k).setNext p w.gens.length).gens.length = w.gens.length + 1 := by
              have : (w.create k).gens[p]? = some gp := by
                rw [create_gens, List.getElem?_append_left hp']; exact hp
              simp only [WG.setNext, this]
              simp [create_gens]
            cases hk : w.groups k with
            | none => simpa using hlen
            | some cur =>
              simp only
              by_cases hc : cur = p
              · simpa [hc] using hlen
              · simp [hc, WG.setNext, hp]
  | done k g =>
    have := length_mono (step_gens w (.done k g))
    have := length_le_succ (step_gens w (.done k g))
    simp only [WG.step, WG.done]
    cases hg : w.gens[g]? with
    | none => simp
    | some gg =>
      simp only
      split
      · simp
      · split <;> simp [WG.setGroup]
  | timeout g =>
    simp only [WG.step, WG.timeout]
    cases hg : w.gens[g]? with
    | none => simp
    | some gg =>
      simp only
      split <;> simp

theorem leaders_run (w : WG) (ops : List Op) :
    leaders (WG.run w ops).2 = List.range' w.gens.length ((WG.run w ops).1.gens.length - w.gens.length) := by
  induction ops generalizing w with
  | nil => simp [WG.run, leaders]
  | cons o os ih =>
    rw [run_cons]
    have hs := step_leader w o
    have ih' := ih (w.step o).1
    have hmono : ∀ (w : WG) (os : List Op), w.gens.length ≤ (WG.run w os).1.gens.length := by
      intro w os
      induction os generalizing w with
      | nil => exact Nat.le_refl _
      | cons o os ih => rw [run_cons]; exact Nat.le_trans (length_mono (step_gens w o)) (ih _)
    have hm := hmono (w.step o).1 os
    simp only [leaders, List.filterMap_cons] at ih' ⊢
    cases hout : (w.step o).2 with
    | none =>
      rw [hout] at hs
      simp only at hs
      simp only [ih', hs]
    | some r =>
      obtain ⟨g, b⟩ := r
      cases b with
      | false =>
        rw [hout] at hs
        simp only at hs
        simp only [ih', hs]
      | true =>
        rw [hout] at hs
        simp only at hs
        obtain ⟨hg, hl⟩ := hs
        simp only [ih', hl, hg]
        have : (WG.run (w.step o).1 os).1.gens.length - w.gens.length
            = ((WG.run (w.step o).1 os).1.gens.length - (w.gens.length + 1)) + 1 := by omega
        rw [this, List.range'_succ]

/-! ### tokens handed out are always valid -/

def NextOK (N : Nat) (g : Gen) : Prop := ∀ n, g.next = some n → n < N

/-- every registered generation and every `next` link points into the table -/
def WGValid (w : WG) : Prop :=
  (∀ k g, w.groups k = some g → g < w.gens.length) ∧ AllG (NextOK w.gens.length) w.gens

theorem allG_append {P : Gen → Prop} {a : List Gen} {x : Gen} (h : AllG P a) (hx : P x) : AllG P (a ++ [x]) := by
  intro j g hj
  by_cases hlt : j < a.length
  · rw [List.getElem?_append_left hlt] at hj; exact h j g hj
  · by_cases he : j = a.length
    · subst he; rw [List.getElem?_concat_length] at hj; cases hj; exact hx
    · rw [List.getElem?_eq_none (by simp; omega)] at hj; cases hj

theorem allG_set {P : Gen → Prop} {a : List Gen} {p : Nat} {x : Gen} (h : AllG P a) (hx : P x) : AllG P (a.set p x) := by
  intro j g hj
  by_cases hpj : p = j
  · subst hpj
    rw [List.getElem?_set] at hj
    simp only [if_true] at hj
    split at hj
    · cases hj; exact hx
    · cases hj
  · rw [List.getElem?_set_ne hpj] at hj; exact h j g hj

theorem allG_mono {P Q : Gen → Prop} {a : List Gen} (h : AllG P a) (hpq : ∀ g, P g → Q g) : AllG Q a :=
  fun j g hj => hpq g (h j g hj)

theorem nextOK_mono {N M : Nat} (h : N ≤ M) (g : Gen) (hg : NextOK N g) : NextOK M g :=
  fun n hn => Nat.lt_of_lt_of_le (hg n hn) h

theorem valid_init : WGValid {} := by
  constructor
  · intro k g h; cases h
  · intro j g h; simp at h

theorem valid_create (w : WG) (k : Nat) (h : WGValid w) : WGValid (w.create k) := by
  obtain ⟨h1, h2⟩ := h
  constructor
  · intro k' g hg
    simp only [WG.create] at hg ⊢
    simp only [List.length_append, List.length_cons, List.length_nil]
    split at hg
    · cases hg; omega
    · have := h1 k' g hg; omega
  · rw [create_gens]
    simp only [List.length_append, List.length_cons, List.length_nil]
    exact allG_append (allG_mono h2 (nextOK_mono (by omega))) (by intro n hn; simp [fresh] at hn)

theorem valid_setNext (w : WG) (p n : Nat) (hn : n < w.gens.length) (h : WGValid w) : WGValid (w.setNext p n) := by
  obtain ⟨h1, h2⟩ := h
  simp only [WG.setNext]
  cases hp : w.gens[p]? with
  | none => exact ⟨h1, h2⟩
  | some g =>
    constructor
    · intro k g' hg; simpa using h1 k g' hg
    · simp only [List.length_set]
      exact allG_set h2 (by intro m hm; simp at hm; omega)

theorem valid_set_sameNext (w : WG) (p : Nat) (g g' : Gen) (hp : w.gens[p]? = some g) (hn : g'.next = g.next)
    (h : WGValid w) : WGValid { w with gens := w.gens.set p g' } := by
  obtain ⟨h1, h2⟩ := h
  constructor
  · intro k x hx; simpa using h1 k x hx
  · simp only [List.length_set]
    exact allG_set h2 (by intro m hm; rw [hn] at hm; exact h2 p g hp m hm)

theorem valid_setGroup_none (w : WG) (k : Nat) (h : WGValid w) : WGValid (w.setGroup k none) := by
  obtain ⟨h1, h2⟩ := h
  constructor
  · intro k' g hg
    simp only [WG.setGroup] at hg ⊢
    split at hg
    · cases hg
    · exact h1 k' g hg
  · exact h2

theorem valid_join (w : WG) (k : Nat) (h : WGValid w) :
    WGValid (w.join k).1 ∧ (w.join k).2.1 < (w.join k).1.gens.length := by
  simp only [WG.join]
  cases hk : w.groups k with
  | some g => exact ⟨h, h.1 k g hk⟩
  | none => exact ⟨valid_create w k h, by simp [create_gens]⟩

theorem valid_regroup (w : WG) (k : Nat) (prev : Option Nat) (h : WGValid w)
    (hprev : ∀ p, prev = some p → p < w.gens.length) :
    WGValid (w.regroup k prev).1 ∧ (w.regroup k prev).2.1 < (w.regroup k prev).1.gens.length := by
  cases prev with
  | none => exact valid_join w k h
  | some p =>
    have hp' := hprev p rfl
    have hp : w.gens[p]? = some w.gens[p] := List.getElem?_eq_getElem hp'
    simp only [WG.regroup, hp]
    by_cases hd : w.gens[p].ctx = .deadline
    · simpa [hd] using ⟨h, hp'⟩
    · simp only [hd, if_false]
      cases hn : w.gens[p].next with
      | some n => exact ⟨h, h.2 p _ hp n hn⟩
      | none =>
        simp only
        have hcreate : WGValid ((w.create k).setNext p w.gens.length) ∧
            w.gens.length < ((w.create k).setNext p w.gens.length).gens.length := by
          have hl : (w.create k).gens.length = w.gens.length + 1 := by simp [create_gens]
          refine ⟨valid_setNext _ _ _ (by omega) (valid_create w k h), ?_⟩
          have : ((w.create k).setNext p w.gens.length).gens.length = (w.create k).gens.length := by
            simp only [WG.setNext]; split <;> simp
          omega
        cases hk : w.groups k with
        | none => simpa using hcreate
        | some cur =>
          simp only
          by_cases hc : cur = p
          · simpa [hc] using hcreate
          · simp only [ne_eq, hc, not_false_eq_true, if_true]
            have hcur := h.1 k cur hk
            refine ⟨valid_setNext _ _ _ hcur h, ?_⟩
            simp only [WG.setNext]; split <;> simpa using hcur

theorem valid_done (w : WG) (k g : Nat) (h : WGValid w) : WGValid (w.done k g) := by
  simp only [WG.done]
  cases hg : w.gens[g]? with
  | none => exact h
  | some gg =>
    simp only
    split
    · exact valid_set_sameNext w g gg _ hg rfl h
    · have hv := valid_set_sameNext w g gg
        { gg with ctx := if gg.ctx = .live then .canceled else gg.ctx, leaderDone := true } hg rfl h
      split
      · exact valid_setGroup_none _ k hv
      · exact hv

theorem valid_timeout (w : WG) (g : Nat) (h : WGValid w) : WGValid (w.timeout g) := by
  simp only [WG.timeout]
  cases hg : w.gens[g]? with
  | none => exact h
  | some gg =>
    simp only
    split
    · exact valid_set_sameNext w g gg _ hg rfl h
    · exact h

/-! ### DoneGeneration and the registration table -/

theorem done_keeps_other (w : WG) (k g k' : Nat) (h : k' ≠ k) : (w.done k g).groups k' = w.groups k' := by
  simp only [WG.done]
  cases hg : w.gens[g]? with
  | none => rfl
  | some gg =>
    simp only
    split
    · rfl
    · split
      · simp [WG.setGroup, h]
      · rfl

theorem done_keeps_newer (w : WG) (k g g' : Nat) (h : w.groups k = some g') (hne : g' ≠ g) :
    (w.done k g).groups k = some g' := by
  simp only [WG.done]
  cases hg : w.gens[g]? with
  | none => exact h
  | some gg =>
    simp only
    split
    · exact h
    · have : ¬ (w.groups k = some g) := by rw [h]; intro e; cases e; exact hne rfl
      rw [if_neg this]; exact h

theorem done_closes (w : WG) (k g : Nat) (gg : Gen) (hg : w.gens[g]? = some gg) (hd : gg.dups = 1) :
    ∃ g', (w.done k g).gens[g]? = some g' ∧ g'.leaderDone = true ∧ g'.closed = true := by
  have hl := lt_of_get? hg
  simp only [WG.done, hg]
  have : ¬ gg.dups > 1 := by omega
  simp only [this, if_false]
  refine ⟨{ gg with ctx := if gg.ctx = .live then .canceled else gg.ctx, leaderDone := true }, ?_, rfl, ?_⟩
  · split <;> simp [WG.setGroup, List.getElem?_set, hl]
  · cases hc : gg.ctx <;> simp [Gen.closed, hc]

/-! ## the dedup loop as a process -/

def OutOK (p : Proc) (o : Outcome) : Prop :=
  p.writes = o.writes ∧ (o = .canceled → p.ctx = .canceled) ∧ (o = .timeoutFail → p.ctx = .deadline)

/-- the reply accounting of a request -/
def OutInv (p : Proc) : Prop :=
  match p.pc with
  | .terminated o => OutOK p o
  | .finishing _ o => OutOK p o
  | _ => p.writes = 0

theorem outOK_stop (q : Proc) (c : CtxErr) (hw : q.writes = (stopCanceled c).writes) (hq : q.ctx = c)
    (hc : c ≠ .none) : OutOK q (stopCanceled c) := by
  cases c <;> simp_all [OutOK, stopCanceled, Outcome.writes]

theorem outInv_step (limit : Nat) (p : Proc) (o : Obs) (h : OutInv p) : OutInv (p.step limit o) := by
  unfold Proc.step
  cases hpc : p.pc with
  | start =>
    simp only [OutInv, hpc] at h
    simp only
    split
    · simpa [OutInv] using h
    · split
      · simp [OutInv, Proc.finish, OutOK, Outcome.writes, h]
      · split <;> simpa [OutInv] using h
  | waiting g =>
    simp only [OutInv, hpc] at h
    simp only
    split
    · simpa [OutInv, hpc] using h
    · split
      · rename_i hc
        have hc' : p.ctx ≠ .none := by simp at hc; exact hc.1
        exact outOK_stop _ p.ctx (by simp [Proc.finish, h]) rfl hc'
      · split
        · rename_i hc
          exact outOK_stop _ p.ctx (by simp [Proc.finish, h]) rfl hc
        · split
          · simp [OutInv, Proc.finish, OutOK, Outcome.writes, h]
          · split
            · simp [OutInv, Proc.finish, OutOK, Outcome.writes, h]
            · split
              · simpa [OutInv] using h
              · split
                · simp [OutInv, Proc.finish, OutOK, Outcome.writes, h]
                · simpa [OutInv] using h
  | leading g =>
    simp only [OutInv, hpc] at h
    simp only
    split
    · rename_i hc
      exact outOK_stop _ p.ctx (by simp [h]) rfl hc
    · simp [OutInv, OutOK, Outcome.writes, h]
  | finishing g oc =>
    simp only [OutInv, hpc] at h
    simpa [OutInv, OutOK] using h
  | terminated oc =>
    simpa [OutInv, hpc] using h

theorem outInv_endCtx (p : Proc) (d : Bool) (h : OutInv p) : OutInv (p.endCtx d) := by
  unfold Proc.endCtx
  split
  · rename_i hn
    unfold OutInv at h ⊢
    cases hpc : p.pc <;> simp_all [OutOK]
  · exact h

/-- the iteration accounting of the dedup loop -/
def LoopInv (limit : Nat) (p : Proc) : Prop :=
  p.regroups ≤ limit ∧ (p.previous.isSome = true → p.failureProbe = true) ∧
  p.calls ≤ p.regroups + 1 ∧ p.heads ≤ p.calls + 1 ∧ (p.terminated = false → p.heads ≤ p.calls) ∧
  (p.pc = .start → p.previous = none → p.heads = 0 ∧ p.calls = 0 ∧ p.regroups = 0) ∧
  (p.pc = .start → p.previous.isSome = true → p.calls = p.regroups + 1) ∧
  (∀ g, p.pc = .waiting g → p.calls = p.regroups + 1)

theorem loopInv_init (limit key : Nat) (probe internal : Bool) :
    LoopInv limit { key := key, failureProbe := probe, internal := internal } := by
  simp [LoopInv, Proc.terminated]

theorem loopInv_endCtx (limit : Nat) (p : Proc) (d : Bool) (h : LoopInv limit p) : LoopInv limit (p.endCtx d) := by
  unfold Proc.endCtx
  split
  · exact h
  · exact h

theorem loopInv_step (limit : Nat) (p : Proc) (o : Obs) (h : LoopInv limit p) : LoopInv limit (p.step limit o) := by
  obtain ⟨h1, h2, h3, h4, h5, h6, h7, h8⟩ := h
  unfold Proc.step
  cases hpc : p.pc with
  | start =>
    have h5' : p.heads ≤ p.calls := h5 (by simp [Proc.terminated, hpc])
    have h6' := h6 hpc
    have h7' := h7 hpc
    simp only
    split
    · refine ⟨h1, h2, h3, h4, fun _ => h5', ?_, ?_, fun _ hh => by simp at hh⟩ <;> intro hh <;> cases hh
    · cases hprev : p.previous with
      | none =>
        obtain ⟨a, b, c⟩ := h6' hprev
        have hc : p.headCall limit = some (.join p.key) := by simp [Proc.headCall, hprev]
        simp only [hc]
        split
        · refine ⟨h1, by simp [hprev], by simp [b, c], by simp [a, b], fun _ => by simp [a, b], ?_, ?_, fun _ hh => by simp at hh⟩ <;>
            intro hh <;> cases hh
        · refine ⟨h1, by simp [hprev], by simp [b, c], by simp [a, b], fun _ => by simp [a, b], ?_, ?_,
            fun _ _ => by simp [b, c]⟩ <;> intro hh <;> cases hh
      | some g =>
        have hfp := h2 (by simp [hprev])
        have hcalls := h7' (by simp [hprev])
        by_cases hlim : p.regroups ≥ limit
        · have hc : p.headCall limit = none := by simp [Proc.headCall, hprev, hfp, hlim]
          simp only [hc]
          refine ⟨h1, by simp [Proc.finish, hfp], by simp [Proc.finish]; omega, by simp [Proc.finish]; omega,
            fun hh => by simp [Proc.finish, Proc.terminated] at hh, ?_, ?_, fun _ hh => by simp [Proc.finish] at hh⟩ <;>
            intro hh <;> simp [Proc.finish] at hh
        · have hc : p.headCall limit = some (.regroup p.key (some g)) := by
            simp [Proc.headCall, hprev, hfp, hlim]
          simp only [hc]
          split
          · refine ⟨by simp; omega, by simp [hfp], by simp; omega, by simp; omega, fun _ => by simp; omega, ?_, ?_, fun _ hh => by simp at hh⟩ <;>
              intro hh <;> cases hh
          · refine ⟨by simp; omega, by simp [hfp], by simp; omega, by simp; omega, fun _ => by simp; omega, ?_, ?_,
              fun _ _ => by simp; omega⟩ <;> intro hh <;> cases hh
  | waiting g =>
    have h5' : p.heads ≤ p.calls := h5 (by simp [Proc.terminated, hpc])
    have base : LoopInv limit p := ⟨h1, h2, h3, h4, h5, h6, h7, h8⟩
    have hw := h8 g hpc
    have fin : ∀ oc, LoopInv limit (p.finish oc) := fun oc =>
      ⟨h1, h2, h3, h4, fun hh => by simp [Proc.finish, Proc.terminated] at hh,
        fun hh => by simp [Proc.finish] at hh, fun hh => by simp [Proc.finish] at hh,
        fun _ hh => by simp [Proc.finish] at hh⟩
    simp only
    split
    · exact base
    · split
      · exact fin _
      · split
        · exact fin _
        · split
          · exact fin _
          · split
            · exact fin _
            · split
              · refine ⟨h1, h2, h3, h4, fun _ => h5', ?_, ?_, fun _ hh => by simp at hh⟩ <;> intro hh <;> cases hh
              · split
                · exact ⟨h1, fun _ => rfl, h3, h4, fun hh => by simp [Proc.finish, Proc.terminated] at hh,
                    fun hh => by simp [Proc.finish] at hh, fun hh => by simp [Proc.finish] at hh,
                    fun _ hh => by simp [Proc.finish] at hh⟩
                · exact ⟨h1, fun _ => rfl, h3, h4, fun _ => h5', fun _ hh => by simp at hh, fun _ _ => hw,
                    fun _ hh => by simp at hh⟩
  | leading g =>
    have h5' : p.heads ≤ p.calls := h5 (by simp [Proc.terminated, hpc])
    simp only
    split
    · refine ⟨h1, h2, h3, h4, fun _ => h5', ?_, ?_, fun _ hh => by simp at hh⟩ <;> intro hh <;> cases hh
    · refine ⟨h1, h2, h3, h4, fun _ => h5', ?_, ?_, fun _ hh => by simp at hh⟩ <;> intro hh <;> cases hh
  | finishing g oc =>
    have h5' : p.heads ≤ p.calls := h5 (by simp [Proc.terminated, hpc])
    refine ⟨h1, h2, h3, h4, fun hh => by simp [Proc.terminated] at hh, ?_, ?_, fun _ hh => by simp at hh⟩ <;> intro hh <;> cases hh
  | terminated oc =>
    exact ⟨h1, h2, h3, h4, h5, h6, h7, h8⟩

/-- both accountings hold along every event stream -/
theorem loopInv_events (limit : Nat) (p : Proc) (evs : List PEvent) (h : LoopInv limit p) :
    LoopInv limit (evs.foldl (Proc.apply limit) p) := by
  induction evs generalizing p with
  | nil => exact h
  | cons e es ih =>
    simp only [List.foldl_cons]
    apply ih
    cases e with
    | obs o => exact loopInv_step limit p o h
    | ctxEnd d => exact loopInv_endCtx limit p d h

theorem outInv_events (limit : Nat) (p : Proc) (evs : List PEvent) (h : OutInv p) :
    OutInv (evs.foldl (Proc.apply limit) p) := by
  induction evs generalizing p with
  | nil => exact h
  | cons e es ih =>
    simp only [List.foldl_cons]
    apply ih
    cases e with
    | obs o => exact outInv_step limit p o h
    | ctxEnd d => exact outInv_endCtx p d h

/-! ## the composed system -/

/-- the request is the leader of `g` and still owes its deferred DoneGeneration -/
def Leads (p : Proc) (g : Nat) : Prop := p.pc = .leading (some g) ∨ ∃ o, p.pc = .finishing (some g) o

/-- tokens a request holds are tokens the wait group handed out -/
def TokOK (n : Nat) (p : Proc) : Prop :=
  (∀ g, p.pc = .waiting g → g < n) ∧ (∀ g, p.previous = some g → g < n)

structure SInv (s : Sys) : Prop where
  valid : WGValid s.wg
  ginv : AllG GInv s.wg.gens
  len : s.leaderOf.length = s.wg.gens.length
  lead : ∀ (g q : Nat), s.leaderOf[g]? = some q →
    ∃ p gg, s.procs[q]? = some p ∧ s.wg.gens[g]? = some gg ∧ (Leads p g ∨ gg.leaderDone = true)
  tok : ∀ (i : Nat) (p : Proc), s.procs[i]? = some p → TokOK s.wg.gens.length p

theorem sinv_init : SInv {} := by
  refine ⟨valid_init, ?_, rfl, ?_, ?_⟩
  · intro j g h; simp at h
  · intro g q h; simp at h
  · intro i p h; simp at h

theorem tok_mono {n m : Nat} (h : n ≤ m) {p : Proc} (t : TokOK n p) : TokOK m p :=
  ⟨fun g hg => Nat.lt_of_lt_of_le (t.1 g hg) h, fun g hg => Nat.lt_of_lt_of_le (t.2 g hg) h⟩

theorem step_len_of_none (w : WG) (op : Op) (h : (w.step op).2 = none) :
    (w.step op).1.gens.length = w.gens.length := by
  have := step_leader w op
  rw [h] at this
  exact this

theorem step_valid (w : WG) (op : Op) (hv : WGValid w)
    (hprev : ∀ k p, op = .regroup k (some p) → p < w.gens.length) :
    WGValid (w.step op).1 ∧ ∀ r, (w.step op).2 = some r → r.1 < (w.step op).1.gens.length := by
  cases op with
  | join k =>
    have := valid_join w k hv
    refine ⟨this.1, fun r h => ?_⟩
    simp only [WG.step, Option.some.injEq] at h
    subst h; exact this.2
  | regroup k prev =>
    have := valid_regroup w k prev hv (fun p hp => hprev k p (by rw [hp]))
    refine ⟨this.1, fun r h => ?_⟩
    simp only [WG.step, Option.some.injEq] at h
    subst h; exact this.2
  | done k g => exact ⟨valid_done w k g hv, fun r h => by simp [WG.step] at h⟩
  | timeout g => exact ⟨valid_timeout w g hv, fun r h => by simp [WG.step] at h⟩

/-- what one `run` step of process `p` guarantees -/
structure RunSpec (limit : Nat) (w : WG) (p : Proc) (o0 : Obs) : Prop where
  gens : GensStep w.gens (interact limit w p o0).1.gens
  valid : WGValid (interact limit w p o0).1
  newLeader : (interact limit w p o0).2.2 = true →
    (interact limit w p o0).1.gens.length = w.gens.length + 1 ∧
    (p.step limit (interact limit w p o0).2.1).pc = .leading (some w.gens.length)
  noLeader : (interact limit w p o0).2.2 = false → (interact limit w p o0).1.gens.length = w.gens.length
  tok : TokOK (interact limit w p o0).1.gens.length (p.step limit (interact limit w p o0).2.1)
  lead : ∀ g gg, w.gens[g]? = some gg → gg.dups = 1 → Leads p g →
    Leads (p.step limit (interact limit w p o0).2.1) g ∨
    ∃ gg', (interact limit w p o0).1.gens[g]? = some gg' ∧ gg'.leaderDone = true

theorem not_leads_of {p : Proc} {g : Nat} (h : ∀ og, p.pc ≠ .leading og) (h' : ∀ og o, p.pc ≠ .finishing og o) :
    ¬ Leads p g := by
  rintro (hl | ⟨o, hf⟩)
  · exact h _ hl
  · exact h' _ _ hf

theorem run_spec (limit : Nat) (w : WG) (p : Proc) (o0 : Obs) (hv : WGValid w) (ht : TokOK w.gens.length p) :
    RunSpec limit w p o0 := by
  cases hpc : p.pc with
  | start =>
    have nl : ∀ g, ¬ Leads p g := fun g => not_leads_of (by simp [hpc]) (by simp [hpc])
    by_cases hint : p.internal = true
    · have hi : interact limit w p o0 = (w, o0, false) := by simp [interact, hpc, hint]
      have hs : p.step limit o0 = { p with pc := .leading none } := by simp [Proc.step, hpc, hint]
      refine ⟨by rw [hi]; exact gensStep_refl _, by rw [hi]; exact hv, by rw [hi]; simp, by rw [hi]; simp, ?_,
        fun g gg _ _ hl => absurd hl (nl g)⟩
      rw [hi, hs]
      exact ⟨fun g hg => by simp at hg, ht.2⟩
    · cases hc : p.headCall limit with
      | none =>
        have hi : interact limit w p o0 = (w, o0, false) := by simp [interact, hpc, hint, hc]
        have hs : p.step limit o0 = ({ p with heads := p.heads + 1 }).finish .probeLimit := by
          simp [Proc.step, hpc, hint, hc]
        refine ⟨by rw [hi]; exact gensStep_refl _, by rw [hi]; exact hv, by rw [hi]; simp, by rw [hi]; simp, ?_,
          fun g gg _ _ hl => absurd hl (nl g)⟩
        rw [hi, hs]
        exact ⟨fun g hg => by simp [Proc.finish] at hg, ht.2⟩
      | some op =>
        have hop : ∀ k q, op = .regroup k (some q) → q < w.gens.length := by
          intro k q hq
          subst hq
          unfold Proc.headCall at hc
          split at hc
          · split at hc
            · cases hc
            · simp only [Option.some.injEq, Op.regroup.injEq] at hc
              exact ht.2 q hc.2
          · cases hc
        have hsv := step_valid w op hv hop
        have hout : ∃ g l, (w.step op).2 = some (g, l) := by
          unfold Proc.headCall at hc
          split at hc
          · split at hc
            · cases hc
            · cases hc; exact ⟨_, _, rfl⟩
          · cases hc; exact ⟨_, _, rfl⟩
        obtain ⟨g, l, hgl⟩ := hout
        have hi : interact limit w p o0 = ((w.step op).1, { o0 with gen := g, leader := l }, l) := by
          simp [interact, hpc, hint, hc, hgl]
        have hlead := step_leader w op
        rw [hgl] at hlead
        have hgv : g < (w.step op).1.gens.length := hsv.2 (g, l) hgl
        cases l with
        | true =>
          simp only at hlead
          have hs : (p.step limit { o0 with gen := g, leader := true }).pc = .leading (some g) := by
            simp [Proc.step, hpc, hint, hc]
          have hprev : (p.step limit { o0 with gen := g, leader := true }).previous = p.previous := by
            simp [Proc.step, hpc, hint, hc]
          refine ⟨by rw [hi]; exact step_gens w op, by rw [hi]; exact hsv.1,
            by rw [hi]; intro _; exact ⟨hlead.2, by rw [hs, hlead.1]⟩, by rw [hi]; simp, ?_,
            fun g' gg _ _ hl => absurd hl (nl g')⟩
          rw [hi]
          exact ⟨fun g' hg' => (by rw [hs] at hg'; cases hg'),
            fun g' hg' => (by rw [hprev] at hg'; have := ht.2 g' hg'; show g' < (w.step op).1.gens.length; omega)⟩
        | false =>
          simp only at hlead
          have hs : (p.step limit { o0 with gen := g, leader := false }).pc = .waiting g := by
            simp [Proc.step, hpc, hint, hc]
          have hprev : (p.step limit { o0 with gen := g, leader := false }).previous = p.previous := by
            simp [Proc.step, hpc, hint, hc]
          refine ⟨by rw [hi]; exact step_gens w op, by rw [hi]; exact hsv.1,
            by rw [hi]; simp, by rw [hi]; intro _; exact hlead, ?_,
            fun g' gg _ _ hl => absurd hl (nl g')⟩
          rw [hi]
          exact ⟨fun g' hg' => (by rw [hs] at hg'; cases hg'; exact hgv),
            fun g' hg' => (by rw [hprev] at hg'; have := ht.2 g' hg'; show g' < (w.step op).1.gens.length; omega)⟩
  | waiting g =>
    have nl : ∀ g, ¬ Leads p g := fun g => not_leads_of (by simp [hpc]) (by simp [hpc])
    have hg := ht.1 g hpc
    have hi : interact limit w p o0 =
        (w, { o0 with genClosed := genClosed w g, genTimedOut := genTimedOut w g }, false) := by
      simp [interact, hpc]
    refine ⟨by rw [hi]; exact gensStep_refl _, by rw [hi]; exact hv, by rw [hi]; simp, by rw [hi]; simp, ?_,
      fun g gg _ _ hl => absurd hl (nl g)⟩
    rw [hi]
    simp only [Proc.step, hpc]
    constructor
    · intro g' hg'
      repeat' split at hg'
      all_goals first
        | (simp [Proc.finish] at hg'; done)
        | (rw [hpc] at hg'; cases hg'; exact hg)
        | (cases hg')
    · intro g' hg'
      repeat' split at hg'
      all_goals first
        | (simp only [Proc.finish] at hg'; exact ht.2 g' hg')
        | (simp only at hg'; cases hg'; exact hg)
        | exact ht.2 g' hg'
  | leading og =>
    have hi : interact limit w p o0 = (w, o0, false) := by simp [interact, hpc]
    refine ⟨by rw [hi]; exact gensStep_refl _, by rw [hi]; exact hv, by rw [hi]; simp, by rw [hi]; simp, ?_, ?_⟩
    · rw [hi]
      simp only [Proc.step, hpc]
      split <;> exact ⟨fun g hg => by simp at hg, ht.2⟩
    · intro g gg _ _ hl
      left
      rw [hi]
      rcases hl with hl | ⟨o, hf⟩
      · rw [hpc] at hl; cases hl
        simp only [Proc.step, hpc]
        split <;> exact Or.inr ⟨_, rfl⟩
      · rw [hpc] at hf; cases hf
  | finishing og oc =>
    cases og with
    | none =>
      have nl : ∀ g, ¬ Leads p g := by
        rintro g (hl | ⟨o, hf⟩)
        · rw [hpc] at hl; cases hl
        · rw [hpc] at hf; cases hf
      have hi : interact limit w p o0 = (w, o0, false) := by simp [interact, hpc]
      refine ⟨by rw [hi]; exact gensStep_refl _, by rw [hi]; exact hv, by rw [hi]; simp, by rw [hi]; simp, ?_,
        fun g gg _ _ hl => absurd hl (nl g)⟩
      rw [hi]
      simp only [Proc.step, hpc]
      exact ⟨fun g hg => by simp at hg, ht.2⟩
    | some g =>
      have hi : interact limit w p o0 = (w.done p.key g, o0, false) := by simp [interact, hpc]
      have hlen : (w.done p.key g).gens.length = w.gens.length :=
        step_len_of_none w (.done p.key g) rfl
      refine ⟨by rw [hi]; exact step_gens w (.done p.key g), by rw [hi]; exact valid_done w _ _ hv,
        by rw [hi]; simp, by rw [hi]; intro _; exact hlen, ?_, ?_⟩
      · rw [hi]
        simp only [Proc.step, hpc, hlen]
        exact ⟨fun g hg => by simp at hg, ht.2⟩
      · intro g' gg hgg hd hl
        right
        rw [hi]
        rcases hl with hl | ⟨o, hf⟩
        · rw [hpc] at hl; cases hl
        · rw [hpc] at hf; cases hf
          obtain ⟨gg', h1, h2, _⟩ := done_closes w p.key g gg hgg hd
          exact ⟨gg', h1, h2⟩
  | terminated oc =>
    have nl : ∀ g, ¬ Leads p g := fun g => not_leads_of (by simp [hpc]) (by simp [hpc])
    have hi : interact limit w p o0 = (w, o0, false) := by simp [interact, hpc]
    refine ⟨by rw [hi]; exact gensStep_refl _, by rw [hi]; exact hv, by rw [hi]; simp, by rw [hi]; simp, ?_,
      fun g gg _ _ hl => absurd hl (nl g)⟩
    rw [hi]
    simp only [Proc.step, hpc]
    exact ht

theorem lt_of_getP? {a : List Proc} {j : Nat} {p : Proc} (h : a[j]? = some p) : j < a.length := by
  rcases List.getElem?_eq_some_iff.mp h with ⟨hp, _⟩; exact hp

theorem lt_of_getN? {a : List Nat} {j : Nat} {p : Nat} (h : a[j]? = some p) : j < a.length := by
  rcases List.getElem?_eq_some_iff.mp h with ⟨hp, _⟩; exact hp

theorem leads_congr {p p' : Proc} (h : p'.pc = p.pc) (g : Nat) : Leads p' g ↔ Leads p g := by
  simp [Leads, h]

theorem tok_congr {n : Nat} {p p' : Proc} (h : p'.pc = p.pc) (h' : p'.previous = p.previous) (t : TokOK n p) : TokOK n p' :=
  ⟨fun g hg => t.1 g (by rw [← h]; exact hg), fun g hg => t.2 g (by rw [← h']; exact hg)⟩

theorem endCtx_pc (p : Proc) (d : Bool) : (p.endCtx d).pc = p.pc := by
  unfold Proc.endCtx; split <;> rfl

theorem endCtx_previous (p : Proc) (d : Bool) : (p.endCtx d).previous = p.previous := by
  unfold Proc.endCtx; split <;> rfl

theorem sinv_step (limit : Nat) (s : Sys) (l : Label) (h : SInv s) : SInv (s.step limit l) := by
  cases l with
  | spawn key probe internal =>
    simp only [Sys.step]
    refine ⟨h.valid, h.ginv, h.len, ?_, ?_⟩
    · intro g q hq
      obtain ⟨p, gg, hp, hg, hl⟩ := h.lead g q hq
      exact ⟨p, gg, by simp only; rw [List.getElem?_append_left (lt_of_getP? hp)]; exact hp, hg, hl⟩
    · intro i p hp
      simp only at hp
      by_cases hi : i < s.procs.length
      · rw [List.getElem?_append_left hi] at hp; exact h.tok i p hp
      · by_cases he : i = s.procs.length
        · subst he
          rw [List.getElem?_concat_length] at hp; cases hp
          exact ⟨fun g hg => by simp at hg, fun g hg => by simp at hg⟩
        · rw [List.getElem?_eq_none (by simp; omega)] at hp; cases hp
  | ctxEnd i d =>
    simp only [Sys.step]
    cases hpi : s.procs[i]? with
    | none => exact h
    | some pi =>
      have hil := lt_of_getP? hpi
      simp only
      refine ⟨h.valid, h.ginv, h.len, ?_, ?_⟩
      · intro g q hq
        obtain ⟨p, gg, hp, hg, hl⟩ := h.lead g q hq
        by_cases hqi : i = q
        · subst hqi
          rw [hpi] at hp; cases hp
          refine ⟨pi.endCtx d, gg, by simp [List.getElem?_set, hil], hg, ?_⟩
          rcases hl with hl | hl
          · exact Or.inl ((leads_congr (endCtx_pc pi d) g).mpr hl)
          · exact Or.inr hl
        · exact ⟨p, gg, by simp only; rw [List.getElem?_set_ne hqi]; exact hp, hg, hl⟩
      · intro j p hp
        simp only at hp
        by_cases hji : i = j
        · subst hji
          rw [List.getElem?_set] at hp
          simp only [if_true, hil] at hp
          cases hp
          exact tok_congr (endCtx_pc pi d) (endCtx_previous pi d) (h.tok i pi hpi)
        · rw [List.getElem?_set_ne hji] at hp; exact h.tok j p hp
  | timeout g =>
    simp only [Sys.step]
    have hs := step_gens s.wg (.timeout g)
    have hlen : (s.wg.timeout g).gens.length = s.wg.gens.length := step_len_of_none s.wg (.timeout g) rfl
    refine ⟨valid_timeout _ _ h.valid, allG_step ginv_fresh (fun _ _ => ginv_rel) hs h.ginv, by simp only; rw [hlen]; exact h.len, ?_, ?_⟩
    · intro g' q hq
      obtain ⟨p, gg, hp, hg, hl⟩ := h.lead g' q hq
      obtain ⟨gg', hgg', r⟩ := hs.1 g' gg hg
      refine ⟨p, gg', hp, hgg', ?_⟩
      rcases hl with hl | hl
      · exact Or.inl hl
      · exact Or.inr (leaderDone_rel r hl)
    · intro i p hp
      simp only; rw [hlen]; exact h.tok i p hp
  | run i preferCtx hit retry retryKey =>
    simp only [Sys.step]
    cases hpi : s.procs[i]? with
    | none => exact h
    | some pi =>
      have hil := lt_of_getP? hpi
      simp only
      generalize ho : ({ preferCtx := preferCtx, hit := hit, retry := retry, retryKey := retryKey } : Obs) = o0
      have rs := run_spec limit s.wg pi o0 h.valid (h.tok i pi hpi)
      have hmono := length_mono rs.gens
      refine ⟨rs.valid, allG_step ginv_fresh (fun _ _ => ginv_rel) rs.gens h.ginv, ?_, ?_, ?_⟩
      · simp only
        split
        · rename_i hnl
          simp only [List.length_append, List.length_cons, List.length_nil, (rs.newLeader hnl).1, h.len]
        · rename_i hnl
          rw [rs.noLeader (by simpa using hnl)]; exact h.len
      · intro g q hq
        simp only at hq
        -- an already recorded generation?
        by_cases hold : g < s.leaderOf.length
        · have hq' : s.leaderOf[g]? = some q := by
            split at hq
            · rw [List.getElem?_append_left hold] at hq; exact hq
            · exact hq
          obtain ⟨p, gg, hp, hg, hl⟩ := h.lead g q hq'
          obtain ⟨gg', hgg', r⟩ := rs.gens.1 g gg hg
          by_cases hqi : i = q
          · subst hqi
            rw [hpi] at hp; cases hp
            refine ⟨pi.step limit (interact limit s.wg pi o0).2.1, ?_⟩
            rcases hl with hl | hl
            · rcases rs.lead g gg hg (h.ginv g gg hg).2 hl with hl' | ⟨gg'', h1, h2⟩
              · exact ⟨gg', by simp [List.getElem?_set, hil], hgg', Or.inl hl'⟩
              · exact ⟨gg'', by simp [List.getElem?_set, hil], h1, Or.inr h2⟩
            · exact ⟨gg', by simp [List.getElem?_set, hil], hgg', Or.inr (leaderDone_rel r hl)⟩
          · refine ⟨p, gg', by simp only; rw [List.getElem?_set_ne hqi]; exact hp, hgg', ?_⟩
            rcases hl with hl | hl
            · exact Or.inl hl
            · exact Or.inr (leaderDone_rel r hl)
        · -- the generation created by this very step
          split at hq
          · rename_i hnl
            have hg : g = s.leaderOf.length := by
              have := lt_of_getN? hq
              simp at this; omega
            subst hg
            rw [List.getElem?_concat_length] at hq; cases hq
            obtain ⟨hlen, hpc⟩ := rs.newLeader hnl
            have hex : s.leaderOf.length < (interact limit s.wg pi o0).1.gens.length := by rw [hlen, h.len]; omega
            refine ⟨pi.step limit (interact limit s.wg pi o0).2.1, _, by simp [List.getElem?_set, hil],
              List.getElem?_eq_getElem hex, Or.inl (Or.inl ?_)⟩
            rw [hpc, h.len]
          · exact absurd (lt_of_getN? hq) hold
      · intro j p hp
        simp only at hp ⊢
        by_cases hji : i = j
        · subst hji
          rw [List.getElem?_set] at hp
          simp only [if_true, hil] at hp
          cases hp
          exact rs.tok
        · rw [List.getElem?_set_ne hji] at hp
          exact tok_mono hmono (h.tok j p hp)

theorem sys_run_cons (limit : Nat) (s : Sys) (l : Label) (ls : List Label) :
    Sys.run limit s (l :: ls) = Sys.run limit (s.step limit l) ls := rfl

theorem sinv_run (limit : Nat) (s : Sys) (ls : List Label) (h : SInv s) : SInv (Sys.run limit s ls) := by
  induction ls generalizing s with
  | nil => exact h
  | cons l ls ih => rw [sys_run_cons]; exact ih _ (sinv_step limit s l h)

/-- every request in the composed system moves only by `Proc.step` / `Proc.endCtx` -/
def AllP (P : Proc → Prop) (s : Sys) : Prop := ∀ (i : Nat) (p : Proc), s.procs[i]? = some p → P p

theorem allP_step {P : Proc → Prop} (limit : Nat)
    (hinit : ∀ key probe internal, P { key := key, failureProbe := probe, internal := internal })
    (hstep : ∀ p o, P p → P (p.step limit o)) (hctx : ∀ p d, P p → P (p.endCtx d))
    (s : Sys) (l : Label) (h : AllP P s) : AllP P (s.step limit l) := by
  cases l with
  | spawn key probe internal =>
    intro i p hp
    simp only [Sys.step] at hp
    by_cases hi : i < s.procs.length
    · rw [List.getElem?_append_left hi] at hp; exact h i p hp
    · by_cases he : i = s.procs.length
      · subst he
        rw [List.getElem?_concat_length] at hp; cases hp
        exact hinit key probe internal
      · rw [List.getElem?_eq_none (by simp; omega)] at hp; cases hp
  | ctxEnd i d =>
    simp only [Sys.step]
    cases hpi : s.procs[i]? with
    | none => exact h
    | some pi =>
      intro j p hp
      simp only at hp
      by_cases hji : i = j
      · subst hji
        rw [List.getElem?_set] at hp
        simp only [if_true, lt_of_getP? hpi] at hp
        cases hp
        exact hctx _ _ (h i pi hpi)
      · rw [List.getElem?_set_ne hji] at hp; exact h j p hp
  | timeout g => exact h
  | run i preferCtx hit retry retryKey =>
    simp only [Sys.step]
    cases hpi : s.procs[i]? with
    | none => exact h
    | some pi =>
      intro j p hp
      simp only at hp
      by_cases hji : i = j
      · subst hji
        rw [List.getElem?_set] at hp
        simp only [if_true, lt_of_getP? hpi] at hp
        cases hp
        exact hstep _ _ (h i pi hpi)
      · rw [List.getElem?_set_ne hji] at hp; exact h j p hp

theorem allP_run {P : Proc → Prop} (limit : Nat)
    (hinit : ∀ key probe internal, P { key := key, failureProbe := probe, internal := internal })
    (hstep : ∀ p o, P p → P (p.step limit o)) (hctx : ∀ p d, P p → P (p.endCtx d))
    (s : Sys) (ls : List Label) (h : AllP P s) : AllP P (Sys.run limit s ls) := by
  induction ls generalizing s with
  | nil => exact h
  | cons l ls ih => rw [sys_run_cons]; exact ih _ (allP_step limit hinit hstep hctx s l h)

/-! ## tcpStream drain side -/

/-- at most once and in order, always; bytes are held exactly while replies are staged -/
def DInv (d : Drain) (ids : List Nat) : Prop :=
  (d.wire ++ d.staged).Sublist ids ∧ (d.held = 0 → d.staged = [])

theorem dinv_flush (d : Drain) (ids : List Nat) (h : DInv d ids) :
    DInv d.flush.1 ids ∧ (d.flush.2 = true → d.flush.1.staged = []) := by
  obtain ⟨h1, h2⟩ := h
  unfold Drain.flush
  by_cases hw : d.werr = true
  · rw [if_pos hw]
    exact ⟨⟨h1, h2⟩, fun hf => by cases hf⟩
  · rw [if_neg hw]
    by_cases hh : d.held = 0
    · rw [if_pos hh]
      exact ⟨⟨h1, h2⟩, fun _ => h2 hh⟩
    · rw [if_neg hh]
      by_cases hb : d.broken = true
      · rw [if_pos hb]
        refine ⟨⟨?_, fun _ => rfl⟩, fun hf => by cases hf⟩
        show (d.wire ++ []).Sublist ids
        rw [List.append_nil]
        exact (List.sublist_append_left d.wire d.staged).trans h1
      · rw [if_neg hb]
        refine ⟨⟨?_, fun _ => rfl⟩, fun _ => rfl⟩
        show (d.wire ++ d.staged ++ []).Sublist ids
        rw [List.append_nil]
        exact h1

theorem dinv_grow (d : Drain) (ids : List Nat) (id : Nat) (h : DInv d ids) : DInv d (ids ++ [id]) :=
  ⟨h.1.trans (List.sublist_append_left ids [id]), h.2⟩

theorem dinv_stage (ds mm : Nat) (d : Drain) (ids : List Nat) (id len : Nat) (h : DInv d ids) :
    DInv (d.stage ds mm id len).1 (ids ++ [id]) := by
  unfold Drain.stage
  by_cases hw : d.werr = true
  · simpa [hw] using dinv_grow d ids id h
  · by_cases hl : len > mm
    · simpa [hw, hl] using dinv_grow d ids id h
    · obtain ⟨hf, hnil⟩ := dinv_flush d ids h
      by_cases hbig : len + 2 > ds
      · simp only [hw, hl, hbig, if_true, if_false, Bool.false_eq_true]
        by_cases hok : d.flush.2 = true
        · have hs := hnil hok
          simp only [hok, Bool.not_true, Bool.false_eq_true, if_false]
          by_cases hb : d.flush.1.broken = true
          · simp only [hb, if_true]
            exact dinv_grow _ ids id ⟨hf.1, hf.2⟩
          · simp only [hb, Bool.false_eq_true, if_false]
            refine ⟨?_, fun _ => hs⟩
            have : (d.flush.1.wire ++ [id] ++ d.flush.1.staged) = (d.flush.1.wire ++ d.flush.1.staged) ++ [id] := by
              rw [hs]; simp
            simp only
            rw [this]
            exact List.Sublist.append hf.1 (List.Sublist.refl _)
        · have hok' : d.flush.2 = false := by simpa using hok
          simp only [hok', Bool.not_false, if_true]
          exact dinv_grow _ ids id hf
      · simp only [hw, hl, hbig, if_false, Bool.false_eq_true]
        by_cases hfull : d.held + (len + 2) > ds
        · simp only [hfull, if_true]
          by_cases hok : d.flush.2 = true
          · simp only [hok, Bool.not_true, Bool.false_eq_true, if_false]
            refine ⟨?_, fun h0 => absurd h0 (by simp only; omega)⟩
            have : d.flush.1.wire ++ (d.flush.1.staged ++ [id]) = (d.flush.1.wire ++ d.flush.1.staged) ++ [id] := by simp
            simp only
            rw [this]
            exact List.Sublist.append hf.1 (List.Sublist.refl _)
          · have hok' : d.flush.2 = false := by simpa using hok
            simp only [hok', Bool.not_false, if_true]
            exact dinv_grow _ ids id hf
        · simp only [hfull, if_false, Bool.not_true, Bool.false_eq_true]
          refine ⟨?_, fun h0 => absurd h0 (by simp only; omega)⟩
          have : d.wire ++ (d.staged ++ [id]) = (d.wire ++ d.staged) ++ [id] := by simp
          simp only
          rw [this]
          exact List.Sublist.append h.1 (List.Sublist.refl _)

theorem drain_run_cons (ds mm : Nat) (d : Drain) (o : DOp) (os : List DOp) :
    Drain.run ds mm d (o :: os) = ((Drain.run ds mm (d.step ds mm o).1 os).1, (d.step ds mm o).2 :: (Drain.run ds mm (d.step ds mm o).1 os).2) := rfl

theorem dinv_run (ds mm : Nat) (d : Drain) (ids : List Nat) (ops : List DOp) (h : DInv d ids) :
    DInv (Drain.run ds mm d ops).1 (ids ++ stagedIds ops) := by
  induction ops generalizing d ids with
  | nil => simpa [Drain.run, stagedIds] using h
  | cons o os ih =>
    rw [drain_run_cons]
    cases o with
    | stage id len =>
      have := ih _ _ (dinv_stage ds mm d ids id len h)
      simpa [Drain.step, stagedIds, List.append_assoc] using this
    | flush =>
      have := ih _ _ (dinv_flush d ids h).1
      simpa [Drain.step, stagedIds] using this
    | «break» =>
      have : DInv ({ d with broken := true } : Drain) ids := ⟨h.1, h.2⟩
      have := ih _ _ this
      simpa [Drain.step, stagedIds] using this

/-- no write error ever: everything staged is on the wire or still staged, nothing else -/
def DEq (d : Drain) (ids : List Nat) : Prop :=
  d.wire ++ d.staged = ids ∧ d.werr = false ∧ d.broken = false ∧ (d.held = 0 → d.staged = [])

theorem deq_flush (d : Drain) (ids : List Nat) (h : DEq d ids) :
    DEq d.flush.1 ids ∧ d.flush.2 = true ∧ d.flush.1.staged = [] ∧ d.flush.1.held = 0 := by
  obtain ⟨h1, h2, h3, h4⟩ := h
  unfold Drain.flush
  simp only [h2, Bool.false_eq_true, if_false, h3]
  by_cases hh : d.held = 0
  · rw [if_pos hh]
    exact ⟨⟨h1, h2, h3, h4⟩, rfl, h4 hh, hh⟩
  · rw [if_neg hh]
    refine ⟨⟨?_, (by first | assumption | rfl | simp_all), (by first | assumption | rfl | simp_all), fun _ => rfl⟩, rfl, rfl, rfl⟩
    show d.wire ++ d.staged ++ [] = ids
    rw [List.append_nil]; exact h1

theorem deq_stage (ds : Nat) (d : Drain) (ids : List Nat) (id len : Nat) (hl : len ≤ 65535) (h : DEq d ids) :
    DEq (d.stage ds 65535 id len).1 (ids ++ [id]) ∧ (d.stage ds 65535 id len).2 = true := by
  obtain ⟨hf, hok, hnil, hheld⟩ := deq_flush d ids h
  obtain ⟨h1, h2, h3, h4⟩ := h
  unfold Drain.stage
  have hl' : ¬ len > 65535 := by omega
  simp only [h2, Bool.false_eq_true, if_false, hl']
  by_cases hbig : len + 2 > ds
  · rw [if_pos hbig]
    simp only [hok, Bool.not_true, Bool.false_eq_true, if_false, hf.2.2.1]
    refine ⟨⟨?_, (by first | assumption | rfl | exact hf.2.1 | exact hf.2.2.1 | simp_all), (by first | assumption | rfl | exact hf.2.1 | exact hf.2.2.1 | simp_all), fun _ => hnil⟩, by trivial⟩
    show d.flush.1.wire ++ [id] ++ d.flush.1.staged = ids ++ [id]
    rw [hnil, List.append_nil, ← hf.1, hnil, List.append_nil]
  · rw [if_neg hbig]
    by_cases hfull : d.held + (len + 2) > ds
    · rw [if_pos hfull]
      simp only [hok, Bool.not_true, Bool.false_eq_true, if_false]
      refine ⟨⟨?_, (by first | assumption | rfl | exact hf.2.1 | exact hf.2.2.1 | simp_all), (by first | assumption | rfl | exact hf.2.1 | exact hf.2.2.1 | simp_all), fun h0 => absurd h0 (by simp only; omega)⟩, by trivial⟩
      show d.flush.1.wire ++ (d.flush.1.staged ++ [id]) = ids ++ [id]
      rw [← List.append_assoc, hf.1]
    · rw [if_neg hfull]
      simp only [Bool.not_true, Bool.false_eq_true, if_false]
      refine ⟨⟨?_, (by first | assumption | rfl | exact hf.2.1 | exact hf.2.2.1 | simp_all), (by first | assumption | rfl | exact hf.2.1 | exact hf.2.2.1 | simp_all), fun h0 => absurd h0 (by simp only; omega)⟩, by trivial⟩
      show d.wire ++ (d.staged ++ [id]) = ids ++ [id]
      rw [← List.append_assoc, h1]

theorem deq_run (ds : Nat) (d : Drain) (ids : List Nat) (ops : List DOp) (hn : noBreak ops = true) (h : DEq d ids) :
    DEq (Drain.run ds 65535 d ops).1 (ids ++ stagedIds ops) ∧ ∀ b ∈ (Drain.run ds 65535 d ops).2, b = true := by
  induction ops generalizing d ids with
  | nil => exact ⟨by simpa [Drain.run, stagedIds] using h, by simp [Drain.run]⟩
  | cons o os ih =>
    rw [drain_run_cons]
    cases o with
    | stage id len =>
      simp only [noBreak, Bool.and_eq_true, decide_eq_true_eq] at hn
      obtain ⟨hs, hok⟩ := deq_stage ds d ids id len hn.1 h
      obtain ⟨i1, i2⟩ := ih _ _ hn.2 hs
      refine ⟨by simpa [Drain.step, stagedIds, List.append_assoc] using i1, ?_⟩
      intro b hb
      simp only [Drain.step, List.mem_cons] at hb
      rcases hb with rfl | hb
      · exact hok
      · exact i2 b hb
    | flush =>
      simp only [noBreak] at hn
      obtain ⟨hs, hok, _, _⟩ := deq_flush d ids h
      obtain ⟨i1, i2⟩ := ih _ _ hn hs
      refine ⟨by simpa [Drain.step, stagedIds] using i1, ?_⟩
      intro b hb
      simp only [Drain.step, List.mem_cons] at hb
      rcases hb with rfl | hb
      · exact hok
      · exact i2 b hb
    | «break» => simp [noBreak] at hn

/-! ## the writer stack -/

theorem winv_stackCall (cl : Bool) (c : EdnsCfg) (w : Writer) (x : SCall) (h : WInv w) :
    WInv (stackCall cl c w x).1 := by
  cases x with
  | writeMsg p t => exact winv_call w _ h
  | writeWire b t =>
    simp only [stackCall]
    split
    · exact h
    · split
      · exact h
      · exact winv_call w _ h
  | commitWire b t =>
    simp only [stackCall]
    split
    · exact h
    · split
      · exact h
      · exact winv_call w _ h

theorem winv_stackRun (cl : Bool) (c : EdnsCfg) (w : Writer) (xs : List SCall) (h : WInv w) :
    WInv (stackRun cl c w xs) := by
  induction xs generalizing w with
  | nil => exact h
  | cons x xs ih => exact ih _ (winv_stackCall cl c w x h)

end SdnsVerif.Lemmas.OneReply
