import SdnsVerif.Spec.Zone
import SdnsVerif.Model.Nsec
/-! Helper lemmas for C02: canonical order, prefix blocks, the genuine NSEC
chain, gaps, closest enclosers. -/
namespace SdnsVerif.Lemmas.Nsec
open SdnsVerif.Spec.Zone SdnsVerif.Model.Nsec

/-! ### A. lawful comparisons and the lexicographic order -/

structure LawfulCmp {α : Type} (c : α → α → Ordering) : Prop where
  eq_iff : ∀ a b, c a b = .eq ↔ a = b
  gt_iff : ∀ a b, c a b = .gt ↔ c b a = .lt
  trans : ∀ a b d, c a b = .lt → c b d = .lt → c a d = .lt

theorem lawful_cmpNat : LawfulCmp cmpNat where
  eq_iff := by
    intro a b; unfold cmpNat
    by_cases h1 : a < b
    · simp [h1]; omega
    · by_cases h2 : a = b <;> simp [h1, h2]
  gt_iff := by
    intro a b; unfold cmpNat
    by_cases h1 : a < b
    · have : ¬ b < a := by omega
      have : ¬ b = a := by omega
      simp [*]
    · by_cases h2 : a = b
      · subst h2; simp
      · have : b < a := by omega
        simp [*]
  trans := by
    intro a b d; unfold cmpNat
    by_cases h1 : a < b <;> by_cases h2 : b < d <;> by_cases h3 : a < d <;>
      by_cases h4 : a = b <;> by_cases h5 : b = d <;> simp [*] <;> omega

variable {α : Type} {c : α → α → Ordering}

theorem LawfulCmp.refl (h : LawfulCmp c) (a : α) : c a a = .eq := (h.eq_iff a a).mpr rfl

theorem LawfulCmp.lt_irrefl (h : LawfulCmp c) (a : α) : c a a ≠ .lt := by
  rw [h.refl]; decide

theorem LawfulCmp.lt_asymm (h : LawfulCmp c) {a b : α} (h1 : c a b = .lt) : c b a ≠ .lt := by
  intro h2
  have := h.trans a b a h1 h2
  exact h.lt_irrefl a this

theorem LawfulCmp.total (h : LawfulCmp c) (a b : α) : c a b = .lt ∨ a = b ∨ c b a = .lt := by
  cases hc : c a b with
  | lt => exact Or.inl rfl
  | eq => exact Or.inr (Or.inl ((h.eq_iff a b).mp hc))
  | gt => exact Or.inr (Or.inr ((h.gt_iff a b).mp hc))

theorem LawfulCmp.ne_gt_iff (h : LawfulCmp c) (a b : α) : c a b ≠ .gt ↔ (c a b = .lt ∨ a = b) := by
  constructor
  · intro hne
    cases hc : c a b with
    | lt => exact Or.inl rfl
    | eq => exact Or.inr ((h.eq_iff a b).mp hc)
    | gt => exact absurd hc hne
  · rintro (hl | rfl)
    · rw [hl]; decide
    · rw [h.refl]; decide

theorem LawfulCmp.not_lt_iff (h : LawfulCmp c) (a b : α) : c a b ≠ .lt ↔ (c b a = .lt ∨ a = b) := by
  constructor
  · intro hne
    rcases h.total a b with h1 | h1 | h1
    · exact absurd h1 hne
    · exact Or.inr h1
    · exact Or.inl h1
  · rintro (hl | rfl)
    · exact h.lt_asymm hl
    · exact h.lt_irrefl a

theorem LawfulCmp.lt_of_lt_of_le (h : LawfulCmp c) {a b d : α} (h1 : c a b = .lt) (h2 : c b d ≠ .gt) :
    c a d = .lt := by
  rcases (h.ne_gt_iff b d).mp h2 with h2 | rfl
  · exact h.trans a b d h1 h2
  · exact h1

theorem LawfulCmp.lt_of_le_of_lt (h : LawfulCmp c) {a b d : α} (h1 : c a b ≠ .gt) (h2 : c b d = .lt) :
    c a d = .lt := by
  rcases (h.ne_gt_iff a b).mp h1 with h1 | rfl
  · exact h.trans a b d h1 h2
  · exact h2

theorem cmpList_nil_left (l : List α) : cmpList c [] l ≠ .gt := by
  cases l <;> simp [cmpList]

theorem lawful_cmpList (h : LawfulCmp c) : LawfulCmp (cmpList c) where
  eq_iff := by
    intro a
    induction a with
    | nil => intro b; cases b <;> simp [cmpList]
    | cons x xs ih =>
      intro b
      cases b with
      | nil => simp [cmpList]
      | cons y ys =>
        simp only [cmpList]
        cases hc : c x y with
        | eq =>
          have := (h.eq_iff x y).mp hc
          subst this
          simp [ih ys]
        | lt =>
          have : x ≠ y := fun e => by rw [e, h.refl] at hc; cases hc
          simp [this]
        | gt =>
          have : x ≠ y := fun e => by rw [e, h.refl] at hc; cases hc
          simp [this]
  gt_iff := by
    intro a
    induction a with
    | nil => intro b; cases b <;> simp [cmpList]
    | cons x xs ih =>
      intro b
      cases b with
      | nil => simp [cmpList]
      | cons y ys =>
        simp only [cmpList]
        cases hc : c x y with
        | eq =>
          have := (h.eq_iff x y).mp hc
          subst this
          simp [h.refl, ih ys]
        | lt =>
          have hyx : c y x = .gt := (h.gt_iff y x).mpr hc
          simp [hyx]
        | gt =>
          have hyx : c y x = .lt := (h.gt_iff x y).mp hc
          simp [hyx]
  trans := by
    intro a
    induction a with
    | nil =>
      intro b d h1 h2
      cases b with
      | nil => simp [cmpList] at h1
      | cons y ys => cases d <;> simp_all [cmpList]
    | cons x xs ih =>
      intro b d h1 h2
      cases b with
      | nil => simp [cmpList] at h1
      | cons y ys =>
        cases d with
        | nil => simp [cmpList] at h2
        | cons w ws =>
          simp only [cmpList] at h1 h2 ⊢
          cases hxy : c x y with
          | gt => simp [hxy] at h1
          | lt =>
            cases hyw : c y w with
            | gt => simp [hyw] at h2
            | lt => simp [h.trans x y w hxy hyw]
            | eq =>
              have := (h.eq_iff y w).mp hyw
              subst this
              simp [hxy]
          | eq =>
            have := (h.eq_iff x y).mp hxy
            subst this
            cases hyw : c x w with
            | gt => simp [hyw] at h2
            | lt => simp
            | eq =>
              simp only [hxy] at h1
              simp only [hyw] at h2
              simp [ih ys ws h1 h2]

theorem lawful_cmpLabel : LawfulCmp cmpLabel := lawful_cmpList lawful_cmpNat
theorem lawful_cmpName : LawfulCmp cmpName := lawful_cmpList lawful_cmpLabel

/-- a prefix never sorts after the list it is a prefix of. -/
theorem cmpList_prefix (h : LawfulCmp c) : ∀ (p s : List α), cmpList c p (p ++ s) = if s = [] then .eq else .lt := by
  intro p
  induction p with
  | nil => intro s; cases s <;> simp [cmpList]
  | cons x xs ih => intro s; simp only [List.cons_append, cmpList, h.refl]; exact ih s

/-- a common prefix does not take part in the comparison. -/
theorem cmpList_append_left (h : LawfulCmp c) : ∀ (p a b : List α), cmpList c (p ++ a) (p ++ b) = cmpList c a b := by
  intro p
  induction p with
  | nil => intro a b; rfl
  | cons x xs ih => intro a b; simp only [List.cons_append, cmpList, h.refl]; exact ih a b

theorem cmpList_prefix_ne_gt (h : LawfulCmp c) {p a : List α} (hp : p <+: a) : cmpList c p a ≠ .gt := by
  obtain ⟨s, rfl⟩ := hp
  rw [cmpList_prefix h]; split <;> decide

theorem cmpList_prefix_lt (h : LawfulCmp c) {p a : List α} (hp : p <+: a) (hne : p ≠ a) : cmpList c p a = .lt := by
  obtain ⟨s, rfl⟩ := hp
  rw [cmpList_prefix h]
  have : s ≠ [] := fun e => hne (by simp [e])
  simp [this]

/-- **Prefix blocks are order-convex**: the lists having a given prefix form
an interval of the lexicographic order. -/
theorem prefix_convex (h : LawfulCmp c) : ∀ (p a b d : List α), p <+: a → p <+: d →
    cmpList c a b ≠ .gt → cmpList c b d ≠ .gt → p <+: b := by
  intro p
  induction p with
  | nil => intro a b d _ _ _ _; exact List.nil_prefix
  | cons x xs ih =>
    intro a b d ha hd hab hbd
    obtain ⟨sa, rfl⟩ := ha
    obtain ⟨sd, rfl⟩ := hd
    cases b with
    | nil => simp [cmpList] at hab
    | cons y ys =>
      simp only [List.cons_append, cmpList] at hab hbd
      have hxy : c x y ≠ .gt := by
        intro e; rw [e] at hab; exact hab rfl
      have hyx : c y x ≠ .gt := by
        intro e; rw [e] at hbd; exact hbd rfl
      have heq : x = y := by
        rcases (h.ne_gt_iff x y).mp hxy with h1 | h1
        · rcases (h.ne_gt_iff y x).mp hyx with h2 | h2
          · exact absurd h2 (h.lt_asymm h1)
          · exact h2.symm
        · exact h1
      subst heq
      simp only [h.refl] at hab hbd
      rw [List.cons_prefix_cons]
      exact ⟨rfl, ih (xs ++ sa) ys (xs ++ sd) (List.prefix_append _ _) (List.prefix_append _ _) hab hbd⟩

/-! ### longest common prefix -/

theorem lcp_take_prefix_left : ∀ (q o : Name), q.take (lcp q o) <+: q := fun _ _ => List.take_prefix _ _

theorem lcp_take_prefix_right : ∀ (q o : Name), q.take (lcp q o) <+: o := by
  intro q
  induction q with
  | nil => intro o; simp
  | cons x xs ih =>
    intro o
    cases o with
    | nil => simp [lcp]
    | cons y ys =>
      unfold lcp
      by_cases hxy : x = y
      · subst hxy
        simp only [if_true, List.take_succ_cons, List.cons_prefix_cons, true_and]
        exact ih ys
      · simp [hxy]

theorem lcp_ge_of_common_prefix : ∀ (p q o : Name), p <+: q → p <+: o → p.length ≤ lcp q o := by
  intro p
  induction p with
  | nil => intros; simp
  | cons x xs ih =>
    intro q o hq ho
    obtain ⟨sq, rfl⟩ := hq
    obtain ⟨so, rfl⟩ := ho
    simp only [List.cons_append, lcp, if_true, List.length_cons]
    have := ih (xs ++ sq) (xs ++ so) (List.prefix_append _ _) (List.prefix_append _ _)
    omega

theorem lcp_le_left : ∀ (q o : Name), lcp q o ≤ q.length := by
  intro q
  induction q with
  | nil => intro o; simp [lcp]
  | cons x xs ih =>
    intro o
    cases o with
    | nil => simp [lcp]
    | cons y ys =>
      unfold lcp
      split
      · have := ih ys; simp; omega
      · simp


/-! ### B. sorting and the chain -/

abbrev nlt (a b : Node) : Prop := cmpName a.name b.name = .lt

theorem mem_insertNode (x y : Node) : ∀ l, y ∈ insertNode x l ↔ y = x ∨ y ∈ l := by
  intro l
  induction l with
  | nil => simp [insertNode]
  | cons z t ih =>
    unfold insertNode
    split
    · simp only [List.mem_cons, ih]
      constructor
      · rintro (h | h | h)
        · exact Or.inr (Or.inl h)
        · exact Or.inl h
        · exact Or.inr (Or.inr h)
      · rintro (h | h | h)
        · exact Or.inr (Or.inl h)
        · exact Or.inl h
        · exact Or.inr (Or.inr h)
    · simp only [List.mem_cons]

theorem mem_sortNodes (y : Node) : ∀ l, y ∈ sortNodes l ↔ y ∈ l := by
  intro l
  induction l with
  | nil => simp [sortNodes]
  | cons x t ih => simp only [sortNodes, mem_insertNode, ih, List.mem_cons]

theorem insertNode_sorted (x : Node) : ∀ l, l.Pairwise nlt → (∀ y ∈ l, y.name ≠ x.name) →
    (insertNode x l).Pairwise nlt := by
  intro l
  induction l with
  | nil => intro _ _; simp [insertNode]
  | cons z t ih =>
    intro hp hne
    have hz := List.pairwise_cons.mp hp
    unfold insertNode
    split
    · rename_i hgt
      refine List.pairwise_cons.mpr ⟨?_, ih hz.2 (fun y hy => hne y (List.mem_cons_of_mem _ hy))⟩
      intro w hw
      rcases (mem_insertNode x w t).mp hw with rfl | hw
      · exact (lawful_cmpName.gt_iff _ _).mp hgt
      · exact hz.1 w hw
    · rename_i hngt
      have hxz : nlt x z := by
        rcases (lawful_cmpName.ne_gt_iff _ _).mp hngt with h | h
        · exact h
        · exact absurd h.symm (hne z (List.mem_cons_self ..))
      refine List.pairwise_cons.mpr ⟨?_, hp⟩
      intro w hw
      rcases List.mem_cons.mp hw with rfl | hw
      · exact hxz
      · exact lawful_cmpName.trans _ _ _ hxz (hz.1 w hw)

theorem sortNodes_sorted : ∀ l : List Node, l.Pairwise (fun a b => a.name ≠ b.name) →
    (sortNodes l).Pairwise nlt := by
  intro l
  induction l with
  | nil => intro _; simp [sortNodes]
  | cons x t ih =>
    intro hp
    have hx := List.pairwise_cons.mp hp
    unfold sortNodes
    refine insertNode_sorted x _ (ih hx.2) ?_
    intro y hy
    exact (hx.1 y ((mem_sortNodes y t).mp hy)).symm

/-- what a record of `mkChain` over a sorted list says. -/
theorem mkChain_spec (cls : Nat) (first : Name) : ∀ (l : List Node), l.Pairwise nlt → ∀ r ∈ mkChain cls first l,
    ∃ a ∈ l, r.owner = a.name ∧ r.types = a.types ∧ r.cls = cls ∧
      ((∃ b ∈ l, r.next = b.name ∧ nlt a b ∧ ∀ m ∈ l, ¬(nlt a m ∧ nlt m b)) ∨
       (r.next = first ∧ ∀ m ∈ l, ¬ nlt a m)) := by
  intro l
  induction l with
  | nil => intro _ r hr; simp [mkChain] at hr
  | cons n t ih =>
    intro hp r hr
    have hn := List.pairwise_cons.mp hp
    cases t with
    | nil =>
      simp only [mkChain, List.mem_singleton] at hr
      subst hr
      refine ⟨n, List.mem_cons_self .., rfl, rfl, rfl, Or.inr ⟨rfl, ?_⟩⟩
      intro m hm
      rw [List.mem_singleton] at hm
      subst hm
      exact lawful_cmpName.lt_irrefl _
    | cons m t' =>
      simp only [mkChain, List.mem_cons] at hr
      rcases hr with rfl | hr
      · refine ⟨n, List.mem_cons_self .., rfl, rfl, rfl, Or.inl ⟨m, by simp, rfl, hn.1 m (List.mem_cons_self ..), ?_⟩⟩
        intro x hx ⟨h1, h2⟩
        rcases List.mem_cons.mp hx with rfl | hx
        · exact lawful_cmpName.lt_irrefl _ h1
        · rcases List.mem_cons.mp hx with rfl | hx
          · exact lawful_cmpName.lt_irrefl _ h2
          · have := (List.pairwise_cons.mp hn.2).1 x hx
            exact lawful_cmpName.lt_asymm this h2
      · obtain ⟨a, ha, ho, ht, hc, hcase⟩ := ih hn.2 r (by simpa [mkChain] using hr)
        refine ⟨a, List.mem_cons_of_mem _ ha, ho, ht, hc, ?_⟩
        have hna : nlt n a := hn.1 a ha
        rcases hcase with ⟨b, hb, hnx, hab, hbetween⟩ | ⟨hnx, hlast⟩
        · refine Or.inl ⟨b, List.mem_cons_of_mem _ hb, hnx, hab, ?_⟩
          intro x hx ⟨h1, h2⟩
          rcases List.mem_cons.mp hx with rfl | hx
          · exact lawful_cmpName.lt_asymm hna h1
          · exact hbetween x hx ⟨h1, h2⟩
        · refine Or.inr ⟨hnx, ?_⟩
          intro x hx h1
          rcases List.mem_cons.mp hx with rfl | hx
          · exact lawful_cmpName.lt_asymm hna h1
          · exact hlast x hx h1


/-! ### C. zones: authoritative names, the genuine chain -/

theorem prefix_antisymm {β : Type} {a b : List β} (h1 : a <+: b) (h2 : b <+: a) : a = b :=
  h1.eq_of_length (Nat.le_antisymm h1.length_le h2.length_le)

theorem occluded_iff (z : Zone) (q : Name) :
    z.occluded q = true ↔ ∃ n ∈ z.nodes, cutTypes n.types = true ∧ n.name <+: q ∧ n.name ≠ q := by
  unfold Zone.occluded
  simp only [List.any_eq_true, Bool.and_eq_true, List.isPrefixOf_iff_prefix, bne_iff_ne, ne_eq]
  constructor
  · rintro ⟨n, hn, ⟨h1, h2⟩, h3⟩; exact ⟨n, hn, h1, h2, h3⟩
  · rintro ⟨n, hn, h1, h2, h3⟩; exact ⟨n, hn, ⟨h1, h2⟩, h3⟩

theorem mem_auth (z : Zone) (n : Node) : n ∈ z.auth ↔ n ∈ z.nodes ∧ z.occluded n.name = false := by
  unfold Zone.auth
  simp [List.mem_filter]

theorem mem_authNames (z : Zone) (m : Name) : m ∈ z.authNames ↔ ∃ n ∈ z.auth, n.name = m := by
  unfold Zone.authNames
  simp [List.mem_map]

theorem auth_in_zone {z : Zone} (hz : z.WF) {m : Name} (hm : m ∈ z.authNames) : z.apex <+: m := by
  obtain ⟨n, hn, rfl⟩ := (mem_authNames z m).mp hm
  exact hz.in_zone n ((mem_auth z n).mp hn).1

theorem apex_auth {z : Zone} (hz : z.WF) : z.apex ∈ z.authNames := by
  obtain ⟨n, hn, hname, _⟩ := hz.apex_soa
  refine (mem_authNames z _).mpr ⟨n, (mem_auth z n).mpr ⟨hn, ?_⟩, hname⟩
  cases hocc : z.occluded n.name with
  | false => rfl
  | true =>
    obtain ⟨c, hc, _, hpre, hne⟩ := (occluded_iff z _).mp hocc
    have := hz.in_zone c hc
    rw [hname] at hpre hne
    exact absurd (prefix_antisymm hpre this) hne

theorem auth_nodup {z : Zone} (hz : z.WF) : z.auth.Pairwise fun a b => a.name ≠ b.name := by
  unfold Zone.auth
  exact hz.nodup.filter _

theorem pairwise_name_unique {a b : Node} : ∀ (l : List Node), l.Pairwise (fun a b => a.name ≠ b.name) →
    a ∈ l → b ∈ l → a.name = b.name → a = b := by
  intro l
  induction l with
  | nil => intro _ ha; cases ha
  | cons x t ih =>
    intro hp ha hb h
    have hx := List.pairwise_cons.mp hp
    rcases List.mem_cons.mp ha with rfl | ha' <;> rcases List.mem_cons.mp hb with rfl | hb'
    · rfl
    · exact absurd h (hx.1 b hb')
    · exact absurd h.symm (hx.1 a ha')
    · exact ih hx.2 ha' hb' h

/-- a node is determined by its name. -/
theorem node_unique {z : Zone} (hz : z.WF) {a b : Node} (ha : a ∈ z.nodes) (hb : b ∈ z.nodes)
    (h : a.name = b.name) : a = b := pairwise_name_unique z.nodes hz.nodup ha hb h

/-- a record of the genuine chain, as far as the denial rules need it. -/
structure Genuine (z : Zone) (r : Nsec) : Prop where
  node : ∃ a ∈ z.auth, a.name = r.owner ∧ a.types = r.types
  cls : r.cls = z.cls
  gap : (r.next ∈ z.authNames ∧ cmpName r.owner r.next = .lt ∧
          ∀ m ∈ z.authNames, ¬(cmpName r.owner m = .lt ∧ cmpName m r.next = .lt))
        ∨ (r.next = z.apex ∧ ∀ m ∈ z.authNames, cmpName r.owner m ≠ .lt)

theorem chain_genuine {z : Zone} (hz : z.WF) {r : Nsec} (hr : r ∈ z.chain) : Genuine z r := by
  unfold Zone.chain at hr
  have hsorted := sortNodes_sorted z.auth (auth_nodup hz)
  cases hs : sortNodes z.auth with
  | nil => rw [hs] at hr; cases hr
  | cons n t =>
    rw [hs] at hr hsorted
    simp only at hr
    have hmem : ∀ a, a ∈ n :: t ↔ a ∈ z.auth := by
      intro a; rw [← hs]; exact mem_sortNodes a z.auth
    -- the first owner is the apex
    have hfirst : n.name = z.apex := by
      obtain ⟨ap, hap, hapn⟩ := (mem_authNames z _).mp (apex_auth hz)
      have hn_in : z.apex <+: n.name := auth_in_zone hz ((mem_authNames z _).mpr ⟨n, (hmem n).mp (List.mem_cons_self ..), rfl⟩)
      rcases List.mem_cons.mp ((hmem ap).mpr hap) with rfl | hin
      · exact hapn
      · have h1 : cmpName n.name ap.name = .lt := (List.pairwise_cons.mp hsorted).1 ap hin
        rw [hapn] at h1
        have h2 := cmpList_prefix_ne_gt lawful_cmpLabel hn_in
        exact absurd ((lawful_cmpName.gt_iff _ _).mpr h1) h2
    obtain ⟨a, ha, ho, ht, hc, hcase⟩ := mkChain_spec z.cls n.name (n :: t) hsorted r hr
    refine ⟨⟨a, (hmem a).mp ha, ho.symm, ht.symm⟩, hc, ?_⟩
    rcases hcase with ⟨b, hb, hnx, hab, hbetween⟩ | ⟨hnx, hlast⟩
    · left
      refine ⟨(mem_authNames z _).mpr ⟨b, (hmem b).mp hb, hnx.symm⟩, by rw [ho, hnx]; exact hab, ?_⟩
      intro m hm
      obtain ⟨x, hx, rfl⟩ := (mem_authNames z m).mp hm
      rw [ho, hnx]
      exact hbetween x ((hmem x).mpr hx)
    · right
      refine ⟨by rw [hnx, hfirst], ?_⟩
      intro m hm
      obtain ⟨x, hx, rfl⟩ := (mem_authNames z m).mp hm
      rw [ho]
      exact hlast x ((hmem x).mpr hx)


/-! ### D. gaps -/

theorem find_eq_none_iff (z : Zone) (q : Name) : z.find q = none ↔ q ∉ z.authNames := by
  unfold Zone.find
  rw [List.find?_eq_none, mem_authNames]
  simp only [beq_iff_eq]
  constructor
  · intro h ⟨n, hn, he⟩; exact h n hn he
  · intro h n hn he; exact h ⟨n, hn, he⟩

theorem find_some {z : Zone} {q : Name} {a : Node} (h : z.find q = some a) : a ∈ z.auth ∧ a.name = q := by
  unfold Zone.find at h
  exact ⟨List.mem_of_find?_eq_some h, by simpa using List.find?_some h⟩

theorem find_of_mem {z : Zone} (hz : z.WF) {a : Node} (ha : a ∈ z.auth) : z.find a.name = some a := by
  cases hf : z.find a.name with
  | none => exact absurd ((mem_authNames z _).mpr ⟨a, ha, rfl⟩) ((find_eq_none_iff z _).mp hf)
  | some b =>
    obtain ⟨hb, hn⟩ := find_some hf
    rw [pairwise_name_unique z.auth (auth_nodup hz) hb ha hn]

/-- in the tree = in the zone and at or above an authoritative name. -/
theorem inTree_iff {z : Zone} (hz : z.WF) (p : Name) :
    z.inTree p = true ↔ z.apex <+: p ∧ ∃ m ∈ z.authNames, p <+: m := by
  unfold Zone.inTree
  constructor
  · intro h
    rcases Bool.or_eq_true_iff.mp h with h | h
    · obtain ⟨a, ha⟩ := Option.isSome_iff_exists.mp h
      obtain ⟨hmem, hn⟩ := find_some ha
      have : p ∈ z.authNames := (mem_authNames z p).mpr ⟨a, hmem, hn⟩
      exact ⟨auth_in_zone hz this, p, this, List.prefix_refl p⟩
    · unfold Zone.isENT at h
      simp only [Bool.and_eq_true, List.isPrefixOf_iff_prefix, List.any_eq_true, bne_iff_ne] at h
      obtain ⟨⟨hin, _⟩, n, hn, hpre, _⟩ := h
      exact ⟨hin, n.name, (mem_authNames z _).mpr ⟨n, hn, rfl⟩, hpre⟩
  · rintro ⟨hin, m, hm, hpre⟩
    cases hf : z.find p with
    | some a => simp
    | none =>
      have hp : p ∉ z.authNames := (find_eq_none_iff z p).mp hf
      obtain ⟨n, hn, rfl⟩ := (mem_authNames z m).mp hm
      have hne : n.name ≠ p := fun e => hp (e ▸ hm)
      simp only [Option.isSome_none, Bool.false_or]
      unfold Zone.isENT
      simp only [Bool.and_eq_true, List.isPrefixOf_iff_prefix, List.any_eq_true, bne_iff_ne, hf,
        Option.isNone_none, and_true]
      exact ⟨hin, n, hn, hpre, hne⟩

/-- a name below a cut is below an *authoritative* cut (the topmost one). -/
theorem occluded_has_auth_cut (z : Zone) : ∀ (k : Nat) (q : Name), q.length ≤ k → z.occluded q = true →
    ∃ c ∈ z.auth, cutTypes c.types = true ∧ c.name <+: q ∧ c.name ≠ q := by
  intro k
  induction k with
  | zero =>
    intro q hk hocc
    obtain ⟨c, _, _, hpre, hne⟩ := (occluded_iff z q).mp hocc
    have : q = [] := List.eq_nil_of_length_eq_zero (by omega)
    subst this
    exact absurd (List.prefix_nil.mp hpre) hne
  | succ k ih =>
    intro q hk hocc
    obtain ⟨c, hc, hcut, hpre, hne⟩ := (occluded_iff z q).mp hocc
    cases hco : z.occluded c.name with
    | false => exact ⟨c, (mem_auth z c).mpr ⟨hc, hco⟩, hcut, hpre, hne⟩
    | true =>
      have hlen : c.name.length < q.length := by
        rcases Nat.lt_or_ge c.name.length q.length with h | h
        · exact h
        · exact absurd (hpre.eq_of_length (Nat.le_antisymm hpre.length_le h)) hne
      obtain ⟨c', hc', hcut', hpre', hne'⟩ := ih c.name (by omega) hco
      refine ⟨c', hc', hcut', hpre'.trans hpre, ?_⟩
      intro e
      have := hpre'.length_le
      rw [e] at this
      omega

/-- `q` lies strictly inside the span that follows owner `o` (next name `n`)
of the genuine chain: every authoritative name is on one side of it. -/
structure InGap (z : Zone) (o n q : Name) : Prop where
  owner : o ∈ z.authNames
  next : n ∈ z.authNames
  lt : cmpName o q = .lt
  side : ∀ m ∈ z.authNames, cmpName m o ≠ .gt ∨
    (cmpName o n = .lt ∧ cmpName n m ≠ .gt ∧ cmpName q n = .lt)

theorem Genuine.owner_mem {z : Zone} {r : Nsec} (g : Genuine z r) : r.owner ∈ z.authNames := by
  obtain ⟨a, ha, hn, _⟩ := g.node
  exact (mem_authNames z _).mpr ⟨a, ha, hn⟩

theorem Genuine.next_mem {z : Zone} (hz : z.WF) {r : Nsec} (g : Genuine z r) : r.next ∈ z.authNames := by
  rcases g.gap with ⟨h, _⟩ | ⟨h, _⟩
  · exact h
  · rw [h]; exact apex_auth hz

/-- a genuine record that strictly brackets `q` (normal span), or is the last
record with `q` after it, puts `q` in its gap. -/
theorem Genuine.inGap {z : Zone} (hz : z.WF) {r : Nsec} (g : Genuine z r) {q : Name}
    (hlt : cmpName r.owner q = .lt)
    (hnext : cmpName r.owner r.next = .lt → cmpName q r.next = .lt) : InGap z r.owner r.next q := by
  refine ⟨g.owner_mem, g.next_mem hz, hlt, ?_⟩
  intro m hm
  rcases g.gap with ⟨_, hon, hbetween⟩ | ⟨_, hlast⟩
  · rcases lawful_cmpName.total m r.owner with h | h | h
    · left; rw [h]; decide
    · left; rw [h, lawful_cmpName.refl]; decide
    · right
      refine ⟨hon, ?_, hnext hon⟩
      have : cmpName m r.next ≠ .lt := fun e => hbetween m hm ⟨h, e⟩
      rcases (lawful_cmpName.not_lt_iff _ _).mp this with h' | h'
      · rw [h']; decide
      · rw [h', lawful_cmpName.refl]; decide
  · left
    rcases (lawful_cmpName.not_lt_iff _ _).mp (hlast m hm) with h' | h'
    · rw [h']; decide
    · rw [← h', lawful_cmpName.refl]; decide

/-- `dnssec.nsecCovers` with a genuine record and an in-zone name. -/
theorem covers_inGap {z : Zone} (hz : z.WF) {r : Nsec} (g : Genuine z r) {q : Name} (hq : z.apex <+: q)
    (hc : nsecCovers r.owner r.next q = true) : InGap z r.owner r.next q := by
  unfold nsecCovers at hc
  simp only at hc
  have hge : cmpName z.apex q ≠ .gt := cmpList_prefix_ne_gt lawful_cmpLabel hq
  rcases g.gap with ⟨_, hon, _⟩ | ⟨hnx, hlast⟩
  · simp only [hon, reduceCtorEq, if_false, if_true, Bool.and_eq_true, decide_eq_true_eq] at hc
    exact g.inGap hz ((lawful_cmpName.gt_iff _ _).mp hc.1) (fun _ => hc.2)
  · have hnotlt : cmpName r.owner r.next ≠ .lt := by
      rw [hnx]; exact hlast _ (apex_auth hz)
    refine g.inGap hz ?_ (fun h => absurd h hnotlt)
    by_cases heq : cmpName r.owner r.next = .eq
    · simp only [heq, if_true, bne_iff_ne, ne_eq] at hc
      have ho : r.owner = z.apex := by rw [← hnx]; exact (lawful_cmpName.eq_iff _ _).mp heq
      rw [ho]
      refine cmpList_prefix_lt lawful_cmpLabel hq ?_
      intro e
      rw [ho, ← e, lawful_cmpName.refl] at hc
      exact hc rfl
    · simp only [heq, hnotlt, if_false, Bool.or_eq_true, decide_eq_true_eq] at hc
      rcases hc with hc | hc
      · exact (lawful_cmpName.gt_iff _ _).mp hc
      · rw [hnx] at hc
        exact absurd ((lawful_cmpName.gt_iff _ _).mpr hc) hge

theorem InGap.not_auth {z : Zone} {o n q : Name} (h : InGap z o n q) : q ∉ z.authNames := by
  intro hq
  rcases h.side q hq with h1 | ⟨_, h2, h3⟩
  · exact h1 ((lawful_cmpName.gt_iff _ _).mpr h.lt)
  · exact h2 ((lawful_cmpName.gt_iff _ _).mpr h3)

theorem InGap.find_none {z : Zone} {o n q : Name} (h : InGap z o n q) : z.find q = none :=
  (find_eq_none_iff z q).mpr h.not_auth

theorem InGap.ne_apex {z : Zone} (hz : z.WF) {o n q : Name} (h : InGap z o n q) : q ≠ z.apex :=
  fun e => h.not_auth (e ▸ apex_auth hz)

/-- a name in a gap that lies below a cut lies below the *owner* of the
span, and that owner is the cut. -/
theorem InGap.occluded {z : Zone} (_hz : z.WF) {o n q : Name} (h : InGap z o n q)
    (hocc : z.occluded q = true) :
    ∃ a ∈ z.auth, a.name = o ∧ cutTypes a.types = true ∧ o <+: q ∧ o ≠ q := by
  obtain ⟨c, hc, hcut, hpre, hne⟩ := occluded_has_auth_cut z q.length q (Nat.le_refl _) hocc
  have hcm : c.name ∈ z.authNames := (mem_authNames z _).mpr ⟨c, hc, rfl⟩
  have hcq : cmpName c.name q = .lt := cmpList_prefix_lt lawful_cmpLabel hpre hne
  have hco : cmpName c.name o ≠ .gt := by
    rcases h.side c.name hcm with h1 | ⟨_, h2, h3⟩
    · exact h1
    · exact absurd (lawful_cmpName.trans _ _ _ hcq h3) (fun e => h2 ((lawful_cmpName.gt_iff _ _).mpr e))
  have hoq : cmpName o q ≠ .gt := by rw [h.lt]; decide
  have hpo : c.name <+: o := prefix_convex lawful_cmpLabel c.name c.name o q (List.prefix_refl _) hpre hco hoq
  by_cases hceq : c.name = o
  · exact ⟨c, hc, hceq, hcut, hceq ▸ hpre, hceq ▸ hne⟩
  · -- then `o` would itself be occluded
    obtain ⟨a, ha, han⟩ := (mem_authNames z o).mp h.owner
    have hao := ((mem_auth z a).mp ha).2
    have : z.occluded a.name = true :=
      (occluded_iff z _).mpr ⟨c, ((mem_auth z c).mp hc).1, hcut, han ▸ hpo, han ▸ hceq⟩
    rw [hao] at this; cases this

theorem isStrictSub_iff (name parent : Name) :
    isStrictSub name parent = true ↔ parent <+: name ∧ parent ≠ name := by
  unfold isStrictSub
  simp only [Bool.and_eq_true, List.isPrefixOf_iff_prefix, decide_eq_true_eq]
  constructor
  · rintro ⟨h1, h2⟩; exact ⟨h1, fun e => by rw [e] at h2; omega⟩
  · rintro ⟨h1, h2⟩
    refine ⟨h1, ?_⟩
    rcases Nat.lt_or_ge parent.length name.length with h | h
    · exact h
    · exact absurd (h1.eq_of_length (Nat.le_antisymm h1.length_le h)) h2

/-- in a gap, "empty non-terminal" is exactly "the next name is below `q`"
(RFC 8198 Appendix B). -/
theorem InGap.isENT_iff {z : Zone} (_hz : z.WF) {o n q : Name} (h : InGap z o n q) (hq : z.apex <+: q) :
    z.isENT q = true ↔ isStrictSub n q = true := by
  rw [isStrictSub_iff]
  unfold Zone.isENT
  simp only [Bool.and_eq_true, List.isPrefixOf_iff_prefix, List.any_eq_true, bne_iff_ne, h.find_none,
    Option.isNone_none, and_true]
  constructor
  · rintro ⟨_, m, hm, hpre, hne⟩
    have hmm : m.name ∈ z.authNames := (mem_authNames z _).mpr ⟨m, hm, rfl⟩
    have hqm : cmpName q m.name = .lt := cmpList_prefix_lt lawful_cmpLabel hpre (fun e => hne e.symm)
    rcases h.side m.name hmm with h1 | ⟨_, h2, h3⟩
    · exact absurd (lawful_cmpName.trans _ _ _ (lawful_cmpName.lt_of_le_of_lt h1 h.lt) hqm)
        (lawful_cmpName.lt_irrefl _)
    · have hqn : cmpName q n ≠ .gt := by rw [h3]; decide
      refine ⟨prefix_convex lawful_cmpLabel q q n m.name (List.prefix_refl _) hpre hqn h2, ?_⟩
      intro e; rw [e, lawful_cmpName.refl] at h3; cases h3
  · rintro ⟨hpre, hne⟩
    obtain ⟨a, ha, han⟩ := (mem_authNames z n).mp h.next
    exact ⟨hq, a, ha, han ▸ hpre, han ▸ (fun e => hne e.symm)⟩

/-! ### closest encloser -/

theorem ceLen_eq (z : Zone) (q : Name) (K : Nat) (hin : z.inTree (q.take K) = true) :
    ∀ fuel, K < fuel → (∀ k, K < k → k < fuel → z.inTree (q.take k) = false) → z.ceLen q fuel = K := by
  intro fuel
  induction fuel with
  | zero => intro h; omega
  | succ f ih =>
    intro hK hnot
    unfold Zone.ceLen
    by_cases hf : f = K
    · subst hf; simp [hin]
    · have := hnot f (by omega) (by omega)
      simp only [this, Bool.false_eq_true, if_false]
      exact ih (by omega) (fun k h1 h2 => hnot k h1 (by omega))

/-- what `ceLen` returns, independently of any NSEC: the longest proper
ancestor (among those with fewer than `fuel` labels) that is in the tree. -/
theorem ceLen_spec (z : Zone) (q : Name) : ∀ fuel,
    (∀ k, z.ceLen q fuel < k → k < fuel → z.inTree (q.take k) = false) ∧
    (z.inTree (q.take (z.ceLen q fuel)) = true ∨ z.ceLen q fuel = 0) ∧ z.ceLen q fuel ≤ fuel - 1 := by
  intro fuel
  induction fuel with
  | zero => exact ⟨fun k _ h => by omega, Or.inr rfl, by simp [Zone.ceLen]⟩
  | succ f ih =>
    unfold Zone.ceLen
    by_cases hin : z.inTree (q.take f) = true
    · rw [if_pos hin]
      exact ⟨fun k h1 h2 => by omega, Or.inl hin, by omega⟩
    · simp only [hin, Bool.false_eq_true, if_false]
      refine ⟨?_, ih.2.1, by have := ih.2.2; omega⟩
      intro k h1 h2
      by_cases hk : k = f
      · subst hk; simpa using hin
      · exact ih.1 k h1 (by omega)

/-- the cap-and-max expression both Go closest-encloser helpers compute. -/
def ceK (q o n : Name) : Nat :=
  let l := max (lcp q o) (lcp q n)
  if l ≥ q.length then q.length - 1 else l

theorem InGap.ce_bounds {z : Zone} (hz : z.WF) {o n q : Name} (h : InGap z o n q) (hq : z.apex <+: q) :
    z.apex.length ≤ ceK q o n ∧ ceK q o n < q.length ∧ (ceK q o n ≤ lcp q o ∨ ceK q o n ≤ lcp q n) := by
  have hqne := h.ne_apex hz
  have hlen : z.apex.length < q.length := by
    rcases Nat.lt_or_ge z.apex.length q.length with h' | h'
    · exact h'
    · exact absurd (hq.eq_of_length (Nat.le_antisymm hq.length_le h')).symm hqne
  have hapo : z.apex.length ≤ lcp q o := lcp_ge_of_common_prefix z.apex q o hq (auth_in_zone hz h.owner)
  unfold ceK; simp only
  split <;> omega

/-- the name the Go helpers compute is in the zone's tree … -/
theorem InGap.ce_inTree {z : Zone} (hz : z.WF) {o n q : Name} (h : InGap z o n q) (hq : z.apex <+: q) :
    z.inTree (q.take (ceK q o n)) = true := by
  obtain ⟨hKge, _, hKle⟩ := h.ce_bounds hz hq
  rw [inTree_iff hz]
  constructor
  · rw [List.prefix_take_iff]; exact ⟨hq, hKge⟩
  · rcases hKle with hk | hk
    · exact ⟨o, h.owner, (List.take_prefix_take_left hk).trans (lcp_take_prefix_right q o)⟩
    · exact ⟨n, h.next, (List.take_prefix_take_left hk).trans (lcp_take_prefix_right q n)⟩

/-- … and no longer proper ancestor of `q` is. -/
theorem InGap.ce_longest {z : Zone} (hz : z.WF) {o n q : Name} (h : InGap z o n q) :
    ∀ k, ceK q o n < k → k < q.length → z.inTree (q.take k) = false := by
  intro k hk1 hk2
  cases hin : z.inTree (q.take k) with
  | false => rfl
  | true =>
    exfalso
    obtain ⟨_, m, hm, hpre⟩ := (inTree_iff hz _).mp hin
    have hpq : q.take k <+: q := List.take_prefix _ _
    have hplen : (q.take k).length = k := by rw [List.length_take]; omega
    have hL : max (lcp q o) (lcp q n) < k := by
      unfold ceK at hk1; simp only at hk1
      split at hk1 <;> omega
    rcases h.side m hm with h1 | ⟨_, h2, h3⟩
    · have hoq : cmpName o q ≠ .gt := by rw [h.lt]; decide
      have := prefix_convex lawful_cmpLabel (q.take k) m o q hpre hpq h1 hoq
      have := lcp_ge_of_common_prefix _ q o hpq this
      omega
    · have hqn : cmpName q n ≠ .gt := by rw [h3]; decide
      have := prefix_convex lawful_cmpLabel (q.take k) q n m hpq hpre hqn h2
      have := lcp_ge_of_common_prefix _ q n hpq this
      omega

/-- **Closest encloser from a covering NSEC**: in a gap of the genuine chain
the longest proper ancestor of `q` that is in the zone's tree has exactly
`max (lcp q owner) (lcp q next)` labels (capped to a proper ancestor). -/
theorem InGap.closestEncloser {z : Zone} (hz : z.WF) {o n q : Name} (h : InGap z o n q) (hq : z.apex <+: q) :
    z.closestEncloser q = q.take (ceK q o n) := by
  unfold Zone.closestEncloser
  congr 1
  exact ceLen_eq z q (ceK q o n) (h.ce_inTree hz hq) q.length (h.ce_bounds hz hq).2.1 (h.ce_longest hz)

theorem closestEncloserFromNSEC_eq (q : Name) (r : Nsec) :
    closestEncloserFromNSEC q r = q.take (ceK q r.owner r.next) := rfl

theorem closestEncloserFromAggressiveNSEC_eq (q : Name) (r : Nsec) (hq : q.length ≠ 0) :
    closestEncloserFromAggressiveNSEC q r = some (q.take (ceK q r.owner r.next)) := by
  unfold closestEncloserFromAggressiveNSEC
  simp [hq, ceK]


/-! ### E. bitmaps, answer classes -/

theorem typesSet_iff (b ts : List Nat) : typesSet b ts = true ↔ ∃ x ∈ b, x ∈ ts := by
  unfold typesSet
  simp [List.any_eq_true]

theorem typesSet_single (b : List Nat) (x : Nat) : typesSet b [x] = b.contains x := by
  rw [Bool.eq_iff_iff, typesSet_iff]
  simp

theorem typesSet_pair_false (b : List Nat) (x y : Nat) :
    typesSet b [x, y] = false ↔ x ∉ b ∧ y ∉ b := by
  rw [← Bool.not_eq_true, typesSet_iff]
  simp only [List.mem_cons, List.not_mem_nil, or_false, not_exists, not_and, not_or]
  constructor
  · intro h
    exact ⟨fun hx => (h x hx).1 rfl, fun hy => (h y hy).2 rfl⟩
  · rintro ⟨h1, h2⟩ w hw
    exact ⟨fun e => h1 (e ▸ hw), fun e => h2 (e ▸ hw)⟩

theorem aggDeleg_eq (b : List Nat) : aggressiveDelegationBitmap b = delegTypes b := by
  unfold aggressiveDelegationBitmap delegTypes
  rw [typesSet_single, typesSet_single]

theorem cutBitmap_eq (b : List Nat) :
    (aggressiveDelegationBitmap b || typesSet b [tDNAME]) = cutTypes b := by
  unfold cutTypes
  rw [aggDeleg_eq, typesSet_single]

theorem Genuine.types_of_node {z : Zone} (hz : z.WF) {r : Nsec} (g : Genuine z r) {a : Node}
    (ha : a ∈ z.auth) (hn : a.name = r.owner) : a.types = r.types := by
  obtain ⟨b, hb, hbn, hbt⟩ := g.node
  rw [pairwise_name_unique z.auth (auth_nodup hz) ha hb (hn.trans hbn.symm)]
  exact hbt

theorem answerClass_nxdomain (z : Zone) (q : Name) (t : Nat) (hq : z.apex <+: q) (hne : q ≠ z.apex)
    (hocc : z.occluded q = false) (hfind : z.find q = none) (hent : z.isENT q = false)
    (hw : z.find (z.closestEncloser q ++ [star]) = none)
    (hwe : z.isENT (z.closestEncloser q ++ [star]) = false) : z.answerClass q t = .nxdomain := by
  unfold Zone.answerClass
  have h1 : z.apex.isPrefixOf q = true := List.isPrefixOf_iff_prefix.mpr hq
  have h2 : (q == z.apex) = false := by simpa using hne
  simp [h1, h2, hocc, hfind, hent, hw, hwe]

theorem answerClass_ent (z : Zone) (q : Name) (t : Nat) (hq : z.apex <+: q) (hne : q ≠ z.apex)
    (hocc : z.occluded q = false) (hfind : z.find q = none) (hent : z.isENT q = true) :
    z.answerClass q t = .nodata := by
  unfold Zone.answerClass
  have h1 : z.apex.isPrefixOf q = true := List.isPrefixOf_iff_prefix.mpr hq
  have h2 : (q == z.apex) = false := by simpa using hne
  simp [h1, h2, hocc, hfind, hent]

theorem answerAt_nodata (a : Node) (t : Nat) (h1 : t ∉ a.types)
    (h2 : tCNAME ∉ a.types) : answerAt a t = .nodata := by
  unfold answerAt; simp [h1, h2]

theorem answerClass_wild (z : Zone) (q : Name) (t : Nat) (hq : z.apex <+: q) (hne : q ≠ z.apex)
    (hocc : z.occluded q = false) (hfind : z.find q = none) (hent : z.isENT q = false) {a : Node}
    (hw : z.find (z.closestEncloser q ++ [star]) = some a) : z.answerClass q t = answerAt a t := by
  unfold Zone.answerClass
  have h1 : z.apex.isPrefixOf q = true := List.isPrefixOf_iff_prefix.mpr hq
  have h2 : (q == z.apex) = false := by simpa using hne
  simp [h1, h2, hocc, hfind, hent, hw]

theorem answerClass_wild_ent (z : Zone) (q : Name) (t : Nat) (hq : z.apex <+: q) (hne : q ≠ z.apex)
    (hocc : z.occluded q = false) (hfind : z.find q = none) (hent : z.isENT q = false)
    (hw : z.find (z.closestEncloser q ++ [star]) = none)
    (hwe : z.isENT (z.closestEncloser q ++ [star]) = true) : z.answerClass q t = .nodata := by
  unfold Zone.answerClass
  have h1 : z.apex.isPrefixOf q = true := List.isPrefixOf_iff_prefix.mpr hq
  have h2 : (q == z.apex) = false := by simpa using hne
  simp [h1, h2, hocc, hfind, hent, hw, hwe]

/-- NODATA at an authoritative owner whose bitmap lacks the type and CNAME,
respecting the DS/SOA parent-side rule and not a delegation point (unless
the question is DS). -/
theorem answerClass_exact_nodata {z : Zone} (hz : z.WF) {a : Node} (ha : a ∈ z.auth) (t : Nat)
    (h1 : t ∉ a.types) (h2 : tCNAME ∉ a.types)
    (hds : t = tDS → tSOA ∉ a.types)
    (hdel : t = tDS ∨ delegTypes a.types = false) : z.answerClass a.name t = .nodata := by
  have hin : z.apex <+: a.name := hz.in_zone a ((mem_auth z a).mp ha).1
  have hocc := ((mem_auth z a).mp ha).2
  have hfind := find_of_mem hz ha
  unfold Zone.answerClass
  have e1 : z.apex.isPrefixOf a.name = true := List.isPrefixOf_iff_prefix.mpr hin
  have e2 : (a.name == z.apex && t == tDS) = false := by
    cases hda : (a.name == z.apex && t == tDS) with
    | false => rfl
    | true =>
      exfalso
      simp only [Bool.and_eq_true, beq_iff_eq] at hda
      obtain ⟨n, hn, hname, hsoa⟩ := hz.apex_soa
      have : a = n := node_unique hz ((mem_auth z a).mp ha).1 hn (hda.1.trans hname.symm)
      subst this
      exact hds hda.2 hsoa
  have e3 : (delegTypes a.types && t != tDS) = false := by
    rcases hdel with rfl | h
    · simp
    · simp [h]
  simp only [e1, Bool.not_true, Bool.false_eq_true, if_false, e2, hocc, hfind, e3]
  exact answerAt_nodata a t h1 h2


theorem InGap.not_ent {z : Zone} (hz : z.WF) {o n q : Name} (gap : InGap z o n q) (hq : z.apex <+: q)
    (hsub : isStrictSub n q = false) : z.isENT q = false := by
  cases he : z.isENT q with
  | false => rfl
  | true => rw [(gap.isENT_iff hz hq).mp he] at hsub; cases hsub


/-! ### F. the exact validators over genuine records -/

/-- the record sets the property quantifies over: any sub-multiset of the
zone's genuine chain, in any order, polluted with records that are not the
signer zone's (owner or next name outside it). -/
def SetOK (z : Zone) (s : List Nsec) : Prop :=
  ∀ r ∈ s, r ∈ z.chain ∨ ¬(z.apex <+: r.owner ∧ z.apex <+: r.next)

theorem filter_genuine {z : Zone} (hz : z.WF) {s : List Nsec} (hs : SetOK z s) :
    ∀ r ∈ filterToZone z.apex s, Genuine z r := by
  intro r hr
  unfold filterToZone at hr
  simp only [List.mem_filter, nameInZone, Bool.and_eq_true, List.isPrefixOf_iff_prefix] at hr
  rcases hs r hr.1 with h | h
  · exact chain_genuine hz h
  · exact absurd hr.2 h

theorem apex_prefix_take {z : Zone} {q : Name} (hq : z.apex <+: q) {k : Nat} (hk : z.apex.length ≤ k) :
    z.apex <+: q.take k := by
  rw [List.prefix_take_iff]; exact ⟨hq, hk⟩

theorem InGap.lcp_le_ceK {z : Zone} {o n q : Name} (h : InGap z o n q) : lcp q o ≤ ceK q o n := by
  have := lcp_le_left q o
  unfold ceK; simp only
  split
  · rcases Nat.lt_or_ge (lcp q o) q.length with h1 | h1
    · omega
    · exfalso
      have hfull : lcp q o = q.length := by omega
      have hpre : q <+: o := by
        have := lcp_take_prefix_right q o
        rwa [hfull, List.take_length] at this
      have := cmpList_prefix_ne_gt lawful_cmpLabel hpre
      exact this ((lawful_cmpName.gt_iff _ _).mpr h.lt)
  · omega

/-- the wildcard at the closest encloser is an in-zone name. -/
theorem InGap.wild_in_zone {z : Zone} (hz : z.WF) {o n q : Name} (h : InGap z o n q) (hq : z.apex <+: q) :
    z.apex <+: q.take (ceK q o n) ++ [star] := by
  exact (apex_prefix_take hq (h.ce_bounds hz hq).1).trans (List.prefix_append _ _)

theorem nsecMisusedFor_false {r : Nsec} {name : Name} (h : nsecMisusedFor r name = false) :
    ¬(isStrictSub name r.owner = true ∧ cutTypes r.types = true) := by
  rintro ⟨h1, h2⟩
  unfold nsecMisusedFor at h
  rw [cutBitmap_eq, h1, h2] at h
  cases h

/-- **`VerifyNameErrorNSEC` over genuine records** (full strength; the
function itself now refuses a covering record that is an ancestor delegation
/ DNAME of the name or whose next name lies below it, RFC 6840 §4.1 and
RFC 8198 App. B). -/
theorem nameError_core {z : Zone} (hz : z.WF) (hroot : z.apex = [] → z.inTree [star] = false) {s : List Nsec}
    (hg : ∀ r ∈ s, Genuine z r) {q : Name} (hq : z.apex <+: q)
    (t : Nat) (hok : verifyNameErrorNSEC q s = .ok ()) : z.answerClass q t = .nxdomain := by
  unfold verifyNameErrorNSEC at hok
  split at hok
  · cases hok
  · split at hok
    · cases hok
    · rename_i c hfind
      have hcm := List.mem_of_find?_eq_some hfind
      have hcc : nsecCovers c.owner c.next q = true :=
        List.find?_some (p := fun (r : Nsec) => nsecCovers r.owner r.next q) hfind
      split at hok
      · cases hok
      · rename_i hmisq
        split at hok
        · cases hok
        · rename_i hentq
          have gap := covers_inGap hz (hg c hcm) hq hcc
          have hce : z.closestEncloser q = closestEncloserFromNSEC q c := by
            rw [closestEncloserFromNSEC_eq]; exact gap.closestEncloser hz hq
          have hwz : z.apex <+: closestEncloserFromNSEC q c ++ [star] := by
            rw [closestEncloserFromNSEC_eq]; exact gap.wild_in_zone hz hq
          have hmis := nsecMisusedFor_false (by simpa using hmisq)
          have hocc : z.occluded q = false := by
            cases ho : z.occluded q with
            | false => rfl
            | true =>
              exfalso
              obtain ⟨a, ha, han, hcut, hpre, hne⟩ := gap.occluded hz ho
              have hty := (hg c hcm).types_of_node hz ha han
              exact hmis ⟨(isStrictSub_iff q c.owner).mpr ⟨hpre, hne⟩, hty ▸ hcut⟩
          have hent : z.isENT q = false :=
            gap.not_ent hz hq (by unfold nsecProvesENT at hentq; simpa using hentq)
          by_cases hcn : closestEncloserFromNSEC q c = []
          · -- closest encloser is the root: only possible in the root zone, where the
            -- function skips the wildcard proof; the hypothesis supplies "no `*.`"
            have hapex : z.apex = [] := by
              have := apex_prefix_take hq (gap.ce_bounds hz hq).1
              rw [← closestEncloserFromNSEC_eq, hcn] at this
              exact List.prefix_nil.mp this
            have hst := hroot hapex
            unfold Zone.inTree at hst
            simp only [Bool.or_eq_false_iff] at hst
            have hfn : z.find [star] = none := by
              cases hf : z.find [star] with
              | none => rfl
              | some a => rw [hf] at hst; cases hst.1
            have e : z.closestEncloser q ++ [star] = [star] := by rw [hce, hcn]; rfl
            exact answerClass_nxdomain z q t hq (gap.ne_apex hz) hocc gap.find_none hent
              (by rw [e]; exact hfn) (by rw [e]; exact hst.2)
          simp only [hcn, if_false] at hok
          split at hok
          · cases hok
          · rename_i r hrfind
            have hr := List.mem_of_find?_eq_some hrfind
            have hrc : nsecCovers r.owner r.next (closestEncloserFromNSEC q c ++ [star]) = true :=
              List.find?_some (p := fun (r : Nsec) => nsecCovers r.owner r.next (closestEncloserFromNSEC q c ++ [star])) hrfind
            split at hok
            · cases hok
            · split at hok
              · cases hok
              · rename_i hentw
                have gapw := covers_inGap hz (hg r hr) hwz hrc
                have hwent : z.isENT (closestEncloserFromNSEC q c ++ [star]) = false :=
                  gapw.not_ent hz hwz (by unfold nsecProvesENT at hentw; simpa using hentw)
                exact answerClass_nxdomain z q t hq (gap.ne_apex hz) hocc gap.find_none hent
                  (hce ▸ gapw.find_none) (hce ▸ hwent)

theorem nodataBitmap_ok {t : Nat} {b : List Nat} (h : nodataBitmap t b = .ok ()) :
    t ∉ b ∧ tCNAME ∉ b ∧ (t = tDS → tSOA ∉ b) := by
  unfold nodataBitmap at h
  split at h
  · cases h
  · rename_i h1
    have h1' := (typesSet_pair_false b t tCNAME).mp (by simpa using h1)
    split at h
    · cases h
    · rename_i h2
      refine ⟨h1'.1, h1'.2, ?_⟩
      intro ht hs
      apply h2
      simp only [Bool.and_eq_true, decide_eq_true_eq]
      exact ⟨ht, (typesSet_iff b [tSOA]).mpr ⟨tSOA, hs, by simp⟩⟩

theorem nodataBitmapExact_ok {t : Nat} {b : List Nat} (h : nodataBitmapExact t b = .ok ()) :
    t ∉ b ∧ tCNAME ∉ b ∧ (t = tDS → tSOA ∉ b) ∧ (t = tDS ∨ delegTypes b = false) := by
  unfold nodataBitmapExact at h
  split at h
  · cases h
  · rename_i h1
    have h1' := (typesSet_pair_false b t tCNAME).mp (by simpa using h1)
    split at h
    · cases h
    · rename_i h2
      split at h
      · cases h
      · rename_i h3
        refine ⟨h1'.1, h1'.2, ?_, ?_⟩
        · intro ht hs
          apply h2
          simp only [Bool.and_eq_true, decide_eq_true_eq]
          exact ⟨ht, (typesSet_iff b [tSOA]).mpr ⟨tSOA, hs, by simp⟩⟩
        · by_cases ht : t = tDS
          · exact Or.inl ht
          · right
            rw [← aggDeleg_eq]
            simp only [Bool.and_eq_true, decide_eq_true_eq, not_and, Bool.not_eq_true] at h3
            exact h3 ht

/-- **`VerifyNODATANSEC` over genuine records** (full strength; the function
itself now refuses a delegation point's record for any type but DS). -/
theorem nodata_core {z : Zone} (hz : z.WF) {s : List Nsec}
    (hg : ∀ r ∈ s, Genuine z r) {q : Name} (hq : z.apex <+: q) (t : Nat)
    (hok : verifyNODATANSEC q t s = .ok ()) : z.answerClass q t = .nodata := by
  unfold verifyNODATANSEC at hok
  split at hok
  · cases hok
  · split at hok
    · -- exact owner
      rename_i r hfind
      have hrm := List.mem_of_find?_eq_some hfind
      have hro : r.owner = q := by simpa using List.find?_some hfind
      obtain ⟨h1, h2, h3, h4⟩ := nodataBitmapExact_ok hok
      obtain ⟨a, ha, han, hat⟩ := (hg r hrm).node
      have := answerClass_exact_nodata hz ha t (hat ▸ h1) (hat ▸ h2) (fun e => hat ▸ h3 e) (hat ▸ h4)
      rwa [han, hro] at this
    · -- wildcard NODATA
      split at hok
      · cases hok
      · rename_i c hfind
        have hcm := List.mem_of_find?_eq_some hfind
        have hcc : nsecCovers c.owner c.next q = true :=
          List.find?_some (p := fun (r : Nsec) => nsecCovers r.owner r.next q) hfind
        have gap := covers_inGap hz (hg c hcm) hq hcc
        have hce : z.closestEncloser q = closestEncloserFromNSEC q c := by
          rw [closestEncloserFromNSEC_eq]; exact gap.closestEncloser hz hq
        split at hok
        · cases hok
        · rename_i hmisq
          simp only at hok
          split at hok
          · rename_i w hwfind
            have hwm := List.mem_of_find?_eq_some hwfind
            have hwo : w.owner = closestEncloserFromNSEC q c ++ [star] := by simpa using List.find?_some hwfind
            obtain ⟨h1, h2, _⟩ := nodataBitmap_ok hok
            obtain ⟨a, ha, han, hat⟩ := (hg w hwm).node
            have hfw : z.find (z.closestEncloser q ++ [star]) = some a := by
              rw [hce, ← hwo, ← han]; exact find_of_mem hz ha
            have hmis := nsecMisusedFor_false (by simpa using hmisq)
            have hocc : z.occluded q = false := by
              cases ho : z.occluded q with
              | false => rfl
              | true =>
                exfalso
                obtain ⟨cn, hcn, hcnn, hcut, hpre, hne⟩ := gap.occluded hz ho
                have hty := (hg c hcm).types_of_node hz hcn hcnn
                exact hmis ⟨(isStrictSub_iff q c.owner).mpr ⟨hpre, hne⟩, hty ▸ hcut⟩
            cases hent : z.isENT q with
            | true => exact answerClass_ent z q t hq (gap.ne_apex hz) hocc gap.find_none hent
            | false =>
              rw [answerClass_wild z q t hq (gap.ne_apex hz) hocc gap.find_none hent hfw]
              exact answerAt_nodata a t (hat ▸ h1) (hat ▸ h2)
          · cases hok

/-- **`VerifyDelegationNSEC` over genuine records** (full strength). -/
theorem delegation_core {z : Zone} {s : List Nsec} (hg : ∀ r ∈ s, Genuine z r) {d : Name}
    (hok : verifyDelegationNSEC d s = .ok ()) :
    ∃ a ∈ z.auth, a.name = d ∧ delegTypes a.types = true ∧ tDS ∉ a.types := by
  unfold verifyDelegationNSEC at hok
  split at hok
  · cases hok
  · rename_i r hfind
    have hrm := List.mem_of_find?_eq_some hfind
    have hro : r.owner = d := by simpa using List.find?_some hfind
    split at hok
    · cases hok
    · rename_i hns
      split at hok
      · cases hok
      · rename_i hds
        obtain ⟨a, ha, han, hat⟩ := (hg r hrm).node
        refine ⟨a, ha, han.trans hro, ?_, ?_⟩
        · rw [hat]
          have h2 := (typesSet_pair_false r.types tDS tSOA).mp (by simpa using hds)
          unfold delegTypes
          rw [typesSet_single] at hns
          simp only [Bool.not_eq_true, Bool.not_eq_false'] at hns
          simp [List.contains_iff_mem.mp hns, h2.2]
        · rw [hat]
          exact ((typesSet_pair_false r.types tDS tSOA).mp (by simpa using hds)).1


/-! ### G. the RFC 8198 classifier -/

theorem addEntry_ok {qclass : Nat} {zone : Name} {acc acc' : List Entry} {e : Entry}
    (h : addEntry qclass zone acc e = .ok acc') :
    (∀ x ∈ acc', x ∈ acc ∨ x = e) ∧ e.r.cls = qclass ∧
      nameInZone e.r.owner zone = true ∧ nameInZone e.r.next zone = true := by
  unfold addEntry at h
  split at h
  · cases h
  · rename_i hc
    split at h
    · cases h
    · rename_i hz
      split at h
      · cases h
      · have hcls : e.r.cls = qclass := by simpa using hc
        have hzz : nameInZone e.r.owner zone = true ∧ nameInZone e.r.next zone = true := by
          simpa using hz
        split at h
        · split at h
          · cases h
          · cases h; exact ⟨fun x hx => Or.inl hx, hcls, hzz⟩
        · cases h
          refine ⟨?_, hcls, hzz⟩
          intro x hx
          rcases List.mem_append.mp hx with hx | hx
          · exact Or.inl hx
          · exact Or.inr (List.mem_singleton.mp hx)

theorem addEntries_ok {qclass : Nat} {zone : Name} : ∀ (l acc es : List Entry),
    addEntries qclass zone acc l = .ok es →
    ∀ x ∈ es, x ∈ acc ∨ (x ∈ l ∧ x.r.cls = qclass ∧
      nameInZone x.r.owner zone = true ∧ nameInZone x.r.next zone = true) := by
  intro l
  induction l with
  | nil => intro acc es h x hx; simp only [addEntries, Except.ok.injEq] at h; subst h; exact Or.inl hx
  | cons e t ih =>
    intro acc es h x hx
    unfold addEntries at h
    split at h
    · cases h
    · rename_i acc' hadd
      obtain ⟨hsub, hc, ho, hn⟩ := addEntry_ok hadd
      rcases ih acc' es h x hx with h1 | ⟨h1, h2⟩
      · rcases hsub x h1 with h3 | rfl
        · exact Or.inl h3
        · exact Or.inr ⟨List.mem_cons_self .., hc, ho, hn⟩
      · exact Or.inr ⟨List.mem_cons_of_mem _ h1, h2⟩

theorem indexed_mem {e : Entry} : ∀ (l : List Nsec) (i : Nat), e ∈ indexed i l → e.r ∈ l := by
  intro l
  induction l with
  | nil => intro i h; simp [indexed] at h
  | cons r t ih =>
    intro i h
    simp only [indexed, List.mem_cons] at h
    rcases h with rfl | h
    · exact List.mem_cons_self ..
    · exact List.mem_cons_of_mem _ (ih (i + 1) h)

theorem newEntries_ok {records : List Nsec} {qclass : Nat} {zone : Name} {es : List Entry}
    (h : newEntries records qclass zone = .ok es) :
    ∀ e ∈ es, e.r ∈ records ∧ e.r.cls = qclass ∧
      nameInZone e.r.owner zone = true ∧ nameInZone e.r.next zone = true := by
  unfold newEntries at h
  split at h
  · cases h
  · intro e he
    rcases addEntries_ok _ _ _ h e he with h1 | ⟨h1, h2⟩
    · cases h1
    · exact ⟨indexed_mem records 0 h1, h2⟩

theorem classify_ok {name : Name} {es : List Entry} {st : NState} {x : Entry}
    (h : classify name es = .ok (st, x)) :
    x ∈ es ∧ (∀ e ∈ es, ¬(isStrictSub name e.r.owner = true ∧ cutTypes e.r.types = true)) ∧
      ((st = .exact ∧ x.r.owner = name) ∨ classifyInterval name x.r = some st) := by
  unfold classify at h
  split at h
  · cases h
  · rename_i hany
    have hno : ∀ e ∈ es, ¬(isStrictSub name e.r.owner = true ∧ cutTypes e.r.types = true) := by
      intro e he ⟨h1, h2⟩
      apply hany
      rw [List.any_eq_true]
      exact ⟨e, he, by rw [cutBitmap_eq, h1, h2]; rfl⟩
    simp only at h
    split at h
    · rename_i x' hex _
      simp only [Except.ok.injEq, Prod.mk.injEq] at h
      obtain ⟨rfl, rfl⟩ := h
      have : x' ∈ es.filter fun e => e.r.owner == name := by rw [hex]; exact List.mem_singleton.mpr rfl
      rw [List.mem_filter] at this
      exact ⟨this.1, hno, Or.inl ⟨rfl, by simpa using this.2⟩⟩
    · rename_i c _ hcov
      have hc : c ∈ es.filter fun e => e.r.owner != name && (classifyInterval name e.r).isSome := by
        rw [hcov]; exact List.mem_singleton.mpr rfl
      rw [List.mem_filter] at hc
      split at h
      · rename_i st' hci
        simp only [Except.ok.injEq, Prod.mk.injEq] at h
        obtain ⟨rfl, rfl⟩ := h
        exact ⟨hc.1, hno, Or.inr hci⟩
      · cases h
    · cases h

theorem classifyInterval_inGap {z : Zone} (hz : z.WF) {r : Nsec} (g : Genuine z r) {q : Name} {st : NState}
    (h : classifyInterval q r = some st) :
    InGap z r.owner r.next q ∧
      ((st = .ent ∧ isStrictSub r.next q = true) ∨ (st = .absent ∧ isStrictSub r.next q = false)) := by
  unfold classifyInterval at h
  split at h
  · cases h
  · rename_i h1
    simp only [Bool.or_eq_true, bne_iff_ne, ne_eq, beq_iff_eq, not_or, Decidable.not_not] at h1
    have hlt : cmpName r.owner q = .lt := (lawful_cmpName.gt_iff _ _).mp h1.1
    split at h
    · cases h
    · rename_i h2
      have hnext : cmpName r.owner r.next = .lt → cmpName q r.next = .lt := by
        intro hon
        have : cmpName r.next r.owner = .gt := (lawful_cmpName.gt_iff _ _).mpr hon
        unfold beyondNext at h2
        simp only [this, if_true, bne_iff_ne, ne_eq, Decidable.not_not] at h2
        exact h2
      refine ⟨g.inGap hz hlt hnext, ?_⟩
      split at h
      · rename_i h3
        simp only [Option.some.injEq] at h
        exact Or.inl ⟨h.symm, h3⟩
      · rename_i h3
        simp only [Option.some.injEq] at h
        exact Or.inr ⟨h.symm, by simpa using h3⟩

theorem validateExact_ok {t : Nat} {b : List Nat} (h : validateAggressiveExactNODATA t b = .ok ()) :
    t ∉ b ∧ tCNAME ∉ b ∧ (t = tDS → tSOA ∉ b) ∧ (t = tDS ∨ delegTypes b = false) := by
  unfold validateAggressiveExactNODATA at h
  split at h
  · cases h
  · rename_i h1
    have h1' := (typesSet_pair_false b t tCNAME).mp (by simpa using h1)
    split at h
    · cases h
    · rename_i h2
      split at h
      · cases h
      · rename_i h3
        refine ⟨h1'.1, h1'.2, ?_, ?_⟩
        · intro ht hs
          apply h2
          simp only [Bool.and_eq_true, decide_eq_true_eq]
          exact ⟨ht, (typesSet_iff b [tSOA]).mpr ⟨tSOA, hs, by simp⟩⟩
        · by_cases ht : t = tDS
          · exact Or.inl ht
          · right
            rw [← aggDeleg_eq]
            simp only [Bool.and_eq_true, decide_eq_true_eq, not_and, Bool.not_eq_true] at h3
            exact h3 ht

/-- a name classified ENT/absent by the classifier over genuine records. -/
theorem classify_gap {z : Zone} (hz : z.WF) {es : List Entry} (hes : ∀ e ∈ es, Genuine z e.r)
    {name : Name} {st : NState} {x : Entry}
    (h : classify name es = .ok (st, x)) (hci : classifyInterval name x.r = some st) :
    InGap z x.r.owner x.r.next name ∧ z.occluded name = false ∧
      ((st = .ent ∧ isStrictSub x.r.next name = true) ∨ (st = .absent ∧ isStrictSub x.r.next name = false)) := by
  obtain ⟨hx, hno, _⟩ := classify_ok h
  obtain ⟨gap, hst⟩ := classifyInterval_inGap hz (hes x hx) hci
  refine ⟨gap, ?_, hst⟩
  cases ho : z.occluded name with
  | false => rfl
  | true =>
    exfalso
    obtain ⟨a, ha, han, hcut, hpre, hne⟩ := gap.occluded hz ho
    have hty := (hes x hx).types_of_node hz ha han
    exact hno x hx ⟨(isStrictSub_iff name x.r.owner).mpr ⟨hpre, hne⟩, hty ▸ hcut⟩

theorem classifyInterval_not_exact {name : Name} {r : Nsec} : classifyInterval name r ≠ some .exact := by
  unfold classifyInterval
  split
  · simp
  · split
    · simp
    · split <;> simp

theorem classify_exact_owner {name : Name} {es : List Entry} {x : Entry}
    (h : classify name es = .ok (.exact, x)) : x ∈ es ∧ x.r.owner = name := by
  obtain ⟨hx, _, hcase⟩ := classify_ok h
  rcases hcase with ⟨_, hown⟩ | hci
  · exact ⟨hx, hown⟩
  · exact absurd hci classifyInterval_not_exact

theorem classify_ent_gap {z : Zone} (hz : z.WF) {es : List Entry} (hes : ∀ e ∈ es, Genuine z e.r)
    {name : Name} {x : Entry} (h : classify name es = .ok (.ent, x)) :
    InGap z x.r.owner x.r.next name ∧ z.occluded name = false ∧ isStrictSub x.r.next name = true := by
  obtain ⟨_, _, hcase⟩ := classify_ok h
  have hci : classifyInterval name x.r = some .ent := by
    rcases hcase with ⟨hst, _⟩ | hci
    · cases hst
    · exact hci
  obtain ⟨gap, hocc, hst⟩ := classify_gap hz hes h hci
  refine ⟨gap, hocc, ?_⟩
  rcases hst with ⟨_, hs⟩ | ⟨hst, _⟩
  · exact hs
  · cases hst

theorem classify_absent_gap {z : Zone} (hz : z.WF) {es : List Entry} (hes : ∀ e ∈ es, Genuine z e.r)
    {name : Name} {x : Entry} (h : classify name es = .ok (.absent, x)) :
    InGap z x.r.owner x.r.next name ∧ z.occluded name = false ∧ isStrictSub x.r.next name = false := by
  obtain ⟨_, _, hcase⟩ := classify_ok h
  have hci : classifyInterval name x.r = some .absent := by
    rcases hcase with ⟨hst, _⟩ | hci
    · cases hst
    · exact hci
  obtain ⟨gap, hocc, hst⟩ := classify_gap hz hes h hci
  refine ⟨gap, hocc, ?_⟩
  rcases hst with ⟨hst, _⟩ | ⟨_, hs⟩
  · cases hst
  · exact hs

/-- **Soundness of `evaluateAggressiveNSECEntries` over genuine records.** -/
theorem evaluateEntries_sound {z : Zone} (hz : z.WF) {es : List Entry} (hes : ∀ e ∈ es, Genuine z e.r)
    {q : Name} {t : Nat} (hq : z.apex <+: q) {rc : Rcode} {p : List Nat}
    (h : evaluateEntries q t z.apex es = .ok (rc, p)) :
    (rc = .nxdomain → z.answerClass q t = .nxdomain) ∧
    (rc = .nodata → z.answerClass q t = .nodata ∧ aggressiveNODATAType t = true) := by
  unfold evaluateEntries at h
  split at h
  · cases h
  · -- exact owner
    rename_i x hcl
    obtain ⟨hx, hown⟩ := classify_exact_owner hcl
    split at h
    · cases h
    · rename_i hty
      split at h
      · cases h
      · rename_i hval
        simp only [Except.ok.injEq, Prod.mk.injEq] at h
        obtain ⟨rfl, _⟩ := h
        refine ⟨(fun e => nomatch e), fun _ => ⟨?_, by simpa using hty⟩⟩
        obtain ⟨h1, h2, h3, h4⟩ := validateExact_ok hval
        obtain ⟨a, ha, han, hat⟩ := (hes x hx).node
        have := answerClass_exact_nodata hz ha t (hat ▸ h1) (hat ▸ h2) (fun e => hat ▸ h3 e) (hat ▸ h4)
        rwa [han, hown] at this
  · -- empty non-terminal
    rename_i x hcl
    obtain ⟨gap, hocc, hsub⟩ := classify_ent_gap hz hes hcl
    split at h
    · cases h
    · rename_i hty
      simp only [Except.ok.injEq, Prod.mk.injEq] at h
      obtain ⟨rfl, _⟩ := h
      refine ⟨(fun e => nomatch e), fun _ => ⟨?_, by simpa using hty⟩⟩
      exact answerClass_ent z q t hq (gap.ne_apex hz) hocc gap.find_none ((gap.isENT_iff hz hq).mpr hsub)
  · -- absent: wildcard stage
    rename_i c hcl
    obtain ⟨gap, hocc, hsub⟩ := classify_absent_gap hz hes hcl
    have hent := gap.not_ent hz hq hsub
    have hqlen : q.length ≠ 0 := by
      intro e
      have : q = [] := List.eq_nil_of_length_eq_zero e
      subst this
      exact gap.ne_apex hz (List.prefix_nil.mp hq).symm
    split at h
    · cases h
    · rw [closestEncloserFromAggressiveNSEC_eq q c.r hqlen] at h
      simp only at h
      split at h
      · cases h
      · have hce : z.closestEncloser q = q.take (ceK q c.r.owner c.r.next) := gap.closestEncloser hz hq
        have hwz : z.apex <+: q.take (ceK q c.r.owner c.r.next) ++ [star] := gap.wild_in_zone hz hq
        split at h
        · cases h
        · -- wildcard owner exists
          rename_i w hclw
          obtain ⟨hw, hwown⟩ := classify_exact_owner hclw
          split at h
          · cases h
          · rename_i hty
            split at h
            · cases h
            · split at h
              · cases h
              · rename_i hval
                simp only [Except.ok.injEq, Prod.mk.injEq] at h
                obtain ⟨rfl, _⟩ := h
                have hty' : aggressiveNODATAType t = true := by
                  simp only [Bool.or_eq_true, Bool.not_eq_true', beq_iff_eq, not_or] at hty
                  simpa using hty.1
                refine ⟨(fun e => nomatch e), fun _ => ⟨?_, hty'⟩⟩
                obtain ⟨h1, h2, _, _⟩ := validateExact_ok hval
                obtain ⟨a, ha, han, hat⟩ := (hes w hw).node
                have hfw : z.find (z.closestEncloser q ++ [star]) = some a := by
                  rw [hce, ← hwown, ← han]; exact find_of_mem hz ha
                rw [answerClass_wild z q t hq (gap.ne_apex hz) hocc gap.find_none hent hfw]
                exact answerAt_nodata a t (hat ▸ h1) (hat ▸ h2)
        · -- wildcard is an empty non-terminal
          rename_i w hclw
          obtain ⟨gapw, _, hsubw⟩ := classify_ent_gap hz hes hclw
          split at h
          · cases h
          · rename_i hty
            simp only [Except.ok.injEq, Prod.mk.injEq] at h
            obtain ⟨rfl, _⟩ := h
            have hty' : aggressiveNODATAType t = true := by
              simp only [Bool.or_eq_true, Bool.not_eq_true', beq_iff_eq, not_or] at hty
              simpa using hty.1
            refine ⟨(fun e => nomatch e), fun _ => ⟨?_, hty'⟩⟩
            exact answerClass_wild_ent z q t hq (gap.ne_apex hz) hocc gap.find_none hent
              (hce ▸ gapw.find_none) (hce ▸ (gapw.isENT_iff hz hwz).mpr hsubw)
        · -- wildcard absent: NXDOMAIN
          rename_i w hclw
          obtain ⟨gapw, _, hsubw⟩ := classify_absent_gap hz hes hclw
          simp only [Except.ok.injEq, Prod.mk.injEq] at h
          obtain ⟨rfl, _⟩ := h
          refine ⟨fun _ => ?_, (fun e => nomatch e)⟩
          exact answerClass_nxdomain z q t hq (gap.ne_apex hz) hocc gap.find_none hent
            (hce ▸ gapw.find_none) (hce ▸ gapw.not_ent hz hwz hsubw)

theorem evaluateEntries_has_entry {q : Name} {t : Nat} {signer : Name} {es : List Entry} {v : Rcode × List Nat}
    (h : evaluateEntries q t signer es = .ok v) : ∃ x, x ∈ es := by
  unfold evaluateEntries at h
  split at h
  · cases h
  · rename_i x hcl; exact ⟨x, (classify_ok hcl).1⟩
  · rename_i x hcl; exact ⟨x, (classify_ok hcl).1⟩
  · rename_i x hcl; exact ⟨x, (classify_ok hcl).1⟩

/-- **`EvaluateAggressiveNSEC` over any selection of the genuine chain plus
out-of-zone pollution.** -/
theorem aggressive_core {z : Zone} (hz : z.WF) {s : List Nsec} (hs : SetOK z s) {q : Name} {t qclass : Nat}
    {rc : Rcode} {p : List Nat} (h : evaluateAggressiveNSEC q t qclass z.apex s = .ok (rc, p)) :
    qclass = z.cls ∧ z.apex <+: q ∧
    (rc = .nxdomain → z.answerClass q t = .nxdomain) ∧
    (rc = .nodata → z.answerClass q t = .nodata ∧ aggressiveNODATAType t = true) := by
  unfold evaluateAggressiveNSEC at h
  split at h
  · cases h
  · rename_i hvq
    have hq : z.apex <+: q := by
      unfold validQuestion at hvq
      simp only [Bool.not_eq_true, Bool.not_eq_false', Bool.and_eq_true, nameInZone,
        List.isPrefixOf_iff_prefix] at hvq
      exact hvq.2
    split at h
    · cases h
    · rename_i es hes
      have hgen : ∀ e ∈ es, Genuine z e.r := by
        intro e he
        obtain ⟨hmem, _, ho, hn⟩ := newEntries_ok hes e he
        simp only [nameInZone, List.isPrefixOf_iff_prefix] at ho hn
        rcases hs e.r hmem with h1 | h1
        · exact chain_genuine hz h1
        · exact absurd ⟨ho, hn⟩ h1
      obtain ⟨x, hx⟩ := evaluateEntries_has_entry h
      have hcls : qclass = z.cls := by
        rw [← (newEntries_ok hes x hx).2.1]; exact (hgen x hx).cls
      exact ⟨hcls, hq, evaluateEntries_sound hz hgen hq h⟩

end SdnsVerif.Lemmas.Nsec
