import SdnsVerif.Spec.Zone
import SdnsVerif.Model.Nsec
/-! Helper lemmas for C02: canonical order, prefix blocks, the genuine NSEC
chain, gaps, closest enclosers. -/
namespace SdnsVerif.Lemmas.Nsec
open SdnsVerif.Spec.Zone SdnsVerif.Model.Nsec

/-! ### A. lawful comparisons and the lexicographic order -/

structure LawfulCmp {α : Type} (c : α → α → Ordering) : Prop where
  eq_iff : ∀ a b, c a b = .eq ↔ a = b
  gt_iff : ∀ a b, c a b = .gt ↔ c b a = .lt
  trans : ∀ a b d, c a b = .lt → c b d = .lt → c a d = .lt

theorem lawful_cmpNat : LawfulCmp cmpNat where
  eq_iff := by
    intro a b; unfold cmpNat
    by_cases h1 : a < b
    · simp [h1]; omega
    · by_cases h2 : a = b <;> simp [h1, h2]
  gt_iff := by
    intro a b; unfold cmpNat
    by_cases h1 : a < b
    · have : ¬ b < a := by omega
      have : ¬ b = a := by omega
      simp [*]
    · by_cases h2 : a = b
      · subst h2; simp
      · have : b < a := by omega
        simp [*]
  trans := by
    intro a b d; unfold cmpNat
    by_cases h1 : a < b <;> by_cases h2 : b < d <;> by_cases h3 : a < d <;>
      by_cases h4 : a = b <;> by_cases h5 : b = d <;> simp [*] <;> omega

variable {α : Type} {c : α → α → Ordering}

theorem LawfulCmp.refl (h : LawfulCmp c) (a : α) : c a a = .eq := (h.eq_iff a a).mpr rfl

theorem LawfulCmp.lt_irrefl (h : LawfulCmp c) (a : α) : c a a ≠ .lt := by
  rw [h.refl]; decide

theorem LawfulCmp.lt_asymm (h : LawfulCmp c) {a b : α} (h1 : c a b = .lt) : c b a ≠ .lt := by
  intro h2
  have := h.trans a b a h1 h2
  exact h.lt_irrefl a this

theorem LawfulCmp.total (h : LawfulCmp c) (a b : α) : c a b = .lt ∨ a = b ∨ c b a = .lt := by
  cases hc : c a b with
  | lt => exact Or.inl rfl
  | eq => exact Or.inr (Or.inl ((h.eq_iff a b).mp hc))
  | gt => exact Or.inr (Or.inr ((h.gt_iff a b).mp hc))

theorem LawfulCmp.ne_gt_iff (h : LawfulCmp c) (a b : α) : c a b ≠ .gt ↔ (c a b = .lt ∨ a = b) := by
  constructor
  · intro hne
    cases hc : c a b with
    | lt => exact Or.inl rfl
    | eq => exact Or.inr ((h.eq_iff a b).mp hc)
    | gt => exact absurd hc hne
  · rintro (hl | rfl)
    · rw [hl]; decide
    · rw [h.refl]; decide

theorem LawfulCmp.not_lt_iff (h : LawfulCmp c) (a b : α) : c a b ≠ .lt ↔ (c b a = .lt ∨ a = b) := by
  constructor
  · intro hne
    rcases h.total a b with h1 | h1 | h1
    · exact absurd h1 hne
    · exact Or.inr h1
    · exact Or.inl h1
  · rintro (hl | rfl)
    · exact h.lt_asymm hl
    · exact h.lt_irrefl a

theorem LawfulCmp.lt_of_lt_of_le (h : LawfulCmp c) {a b d : α} (h1 : c a b = .lt) (h2 : c b d ≠ .gt) :
    c a d = .lt := by
  rcases (h.ne_gt_iff b d).mp h2 with h2 | rfl
  · exact h.trans a b d h1 h2
  · exact h1

theorem LawfulCmp.lt_of_le_of_lt (h : LawfulCmp c) {a b d : α} (h1 : c a b ≠ .gt) (h2 : c b d = .lt) :
    c a d = .lt := by
  rcases (h.ne_gt_iff a b).mp h1 with h1 | rfl
  · exact h.trans a b d h1 h2
  · exact h2

theorem cmpList_nil_left (l : List α) : cmpList c [] l ≠ .gt := by
  cases l <;> simp [cmpList]

theorem lawful_cmpList (h : LawfulCmp c) : LawfulCmp (cmpList c) where
  eq_iff := by
    intro a
    induction a with
    | nil => intro b; cases b <;> simp [cmpList]
    | cons x xs ih =>
      intro b
      cases b with
      | nil => simp [cmpList]
      | cons y ys =>
        simp only [cmpList]
        cases hc : c x y with
        | eq =>
          have := (h.eq_iff x y).mp hc
          subst this
          simp [ih ys]
        | lt =>
          have : x ≠ y := fun e => by rw [e, h.refl] at hc; cases hc
          simp [this]
        | gt =>
          have : x ≠ y := fun e => by rw [e, h.refl] at hc; cases hc
          simp [this]
  gt_iff := by
    intro a
    induction a with
    | nil => intro b; cases b <;> simp [cmpList]
    | cons x xs ih =>
      intro b
      cases b with
      | nil => simp [cmpList]
      | cons y ys =>
        simp only [cmpList]
        cases hc : c x y with
        | eq =>
          have := (h.eq_iff x y).mp hc
          subst this
          simp [h.refl, ih ys]
        | lt =>
          have hyx : c y x = .gt := (h.gt_iff y x).mpr hc
          simp [hyx]
        | gt =>
          have hyx : c y x = .lt := (h.gt_iff x y).mp hc
          simp [hyx]
  trans := by
    intro a
    induction a with
    | nil =>
      intro b d h1 h2
      cases b with
      | nil => simp [cmpList] at h1
      | cons y ys => cases d <;> simp_all [cmpList]
    | cons x xs ih =>
      intro b d h1 h2
      cases b with
      | nil => simp [cmpList] at h1
      | cons y ys =>
        cases d with
        | nil => simp [cmpList] at h2
        | cons w ws =>
          simp only [cmpList] at h1 h2 ⊢
          cases hxy : c x y with
          | gt => simp [hxy] at h1
          | lt =>
            cases hyw : c y w with
            | gt => simp [hyw] at h2
            | lt => simp [h.trans x y w hxy hyw]
            | eq =>
              have := (h.eq_iff y w).mp hyw
              subst this
              simp [hxy]
          | eq =>
            have := (h.eq_iff x y).mp hxy
            subst this
            cases hyw : c x w with
            | gt => simp [hyw] at h2
            | lt => simp
            | eq =>
              simp only [hxy] at h1
              simp only [hyw] at h2
              simp [ih ys ws h1 h2]

theorem lawful_cmpLabel : LawfulCmp cmpLabel := lawful_cmpList lawful_cmpNat
theorem lawful_cmpName : LawfulCmp cmpName := lawful_cmpList lawful_cmpLabel

/-- a prefix never sorts after the list it is a prefix of. -/
theorem cmpList_prefix (h : LawfulCmp c) : ∀ (p s : List α), cmpList c p (p ++ s) = if s = [] then .eq else .lt := by
  intro p
  induction p with
  | nil => intro s; cases s <;> simp [cmpList]
  | cons x xs ih => intro s; simp only [List.cons_append, cmpList, h.refl]; exact ih s

theorem cmpList_prefix_ne_gt (h : LawfulCmp c) {p a : List α} (hp : p <+: a) : cmpList c p a ≠ .gt := by
  obtain ⟨s, rfl⟩ := hp
  rw [cmpList_prefix h]; split <;> decide

theorem cmpList_prefix_lt (h : LawfulCmp c) {p a : List α} (hp : p <+: a) (hne : p ≠ a) : cmpList c p a = .lt := by
  obtain ⟨s, rfl⟩ := hp
  rw [cmpList_prefix h]
  have : s ≠ [] := fun e => hne (by simp [e])
  simp [this]

/-- **Prefix blocks are order-convex**: the lists having a given prefix form
an interval of the lexicographic order. -/
theorem prefix_convex (h : LawfulCmp c) : ∀ (p a b d : List α), p <+: a → p <+: d →
    cmpList c a b ≠ .gt → cmpList c b d ≠ .gt → p <+: b := by
  intro p
  induction p with
  | nil => intro a b d _ _ _ _; exact List.nil_prefix
  | cons x xs ih =>
    intro a b d ha hd hab hbd
    obtain ⟨sa, rfl⟩ := ha
    obtain ⟨sd, rfl⟩ := hd
    cases b with
    | nil => simp [cmpList] at hab
    | cons y ys =>
      simp only [List.cons_append, cmpList] at hab hbd
      have hxy : c x y ≠ .gt := by
        intro e; rw [e] at hab; exact hab rfl
      have hyx : c y x ≠ .gt := by
        intro e; rw [e] at hbd; exact hbd rfl
      have heq : x = y := by
        rcases (h.ne_gt_iff x y).mp hxy with h1 | h1
        · rcases (h.ne_gt_iff y x).mp hyx with h2 | h2
          · exact absurd h2 (h.lt_asymm h1)
          · exact h2.symm
        · exact h1
      subst heq
      simp only [h.refl] at hab hbd
      rw [List.cons_prefix_cons]
      exact ⟨rfl, ih (xs ++ sa) ys (xs ++ sd) (List.prefix_append _ _) (List.prefix_append _ _) hab hbd⟩

/-! ### longest common prefix -/

theorem lcp_take_prefix_left : ∀ (q o : Name), q.take (lcp q o) <+: q := fun q o => List.take_prefix _ _

theorem lcp_take_prefix_right : ∀ (q o : Name), q.take (lcp q o) <+: o := by
  intro q
  induction q with
  | nil => intro o; simp
  | cons x xs ih =>
    intro o
    cases o with
    | nil => simp [lcp]
    | cons y ys =>
      unfold lcp
      by_cases hxy : x = y
      · subst hxy
        simp only [if_true, List.take_succ_cons, List.cons_prefix_cons, true_and]
        exact ih ys
      · simp [hxy]

theorem lcp_ge_of_common_prefix : ∀ (p q o : Name), p <+: q → p <+: o → p.length ≤ lcp q o := by
  intro p
  induction p with
  | nil => intros; simp
  | cons x xs ih =>
    intro q o hq ho
    obtain ⟨sq, rfl⟩ := hq
    obtain ⟨so, rfl⟩ := ho
    simp only [List.cons_append, lcp, if_true, List.length_cons]
    have := ih (xs ++ sq) (xs ++ so) (List.prefix_append _ _) (List.prefix_append _ _)
    omega

theorem lcp_le_left : ∀ (q o : Name), lcp q o ≤ q.length := by
  intro q
  induction q with
  | nil => intro o; simp [lcp]
  | cons x xs ih =>
    intro o
    cases o with
    | nil => simp [lcp]
    | cons y ys =>
      unfold lcp
      split
      · have := ih ys; simp; omega
      · simp


/-! ### B. sorting and the chain -/

abbrev nlt (a b : Node) : Prop := cmpName a.name b.name = .lt

theorem mem_insertNode (x y : Node) : ∀ l, y ∈ insertNode x l ↔ y = x ∨ y ∈ l := by
  intro l
  induction l with
  | nil => simp [insertNode]
  | cons z t ih =>
    unfold insertNode
    split
    · simp only [List.mem_cons, ih]
      constructor
      · rintro (h | h | h)
        · exact Or.inr (Or.inl h)
        · exact Or.inl h
        · exact Or.inr (Or.inr h)
      · rintro (h | h | h)
        · exact Or.inr (Or.inl h)
        · exact Or.inl h
        · exact Or.inr (Or.inr h)
    · simp only [List.mem_cons]

theorem mem_sortNodes (y : Node) : ∀ l, y ∈ sortNodes l ↔ y ∈ l := by
  intro l
  induction l with
  | nil => simp [sortNodes]
  | cons x t ih => simp only [sortNodes, mem_insertNode, ih, List.mem_cons]

theorem insertNode_sorted (x : Node) : ∀ l, l.Pairwise nlt → (∀ y ∈ l, y.name ≠ x.name) →
    (insertNode x l).Pairwise nlt := by
  intro l
  induction l with
  | nil => intro _ _; simp [insertNode]
  | cons z t ih =>
    intro hp hne
    have hz := List.pairwise_cons.mp hp
    unfold insertNode
    split
    · rename_i hgt
      refine List.pairwise_cons.mpr ⟨?_, ih hz.2 (fun y hy => hne y (List.mem_cons_of_mem _ hy))⟩
      intro w hw
      rcases (mem_insertNode x w t).mp hw with rfl | hw
      · exact (lawful_cmpName.gt_iff _ _).mp hgt
      · exact hz.1 w hw
    · rename_i hngt
      have hxz : nlt x z := by
        rcases (lawful_cmpName.ne_gt_iff _ _).mp hngt with h | h
        · exact h
        · exact absurd h.symm (hne z (List.mem_cons_self ..))
      refine List.pairwise_cons.mpr ⟨?_, hp⟩
      intro w hw
      rcases List.mem_cons.mp hw with rfl | hw
      · exact hxz
      · exact lawful_cmpName.trans _ _ _ hxz (hz.1 w hw)

theorem sortNodes_sorted : ∀ l : List Node, l.Pairwise (fun a b => a.name ≠ b.name) →
    (sortNodes l).Pairwise nlt := by
  intro l
  induction l with
  | nil => intro _; simp [sortNodes]
  | cons x t ih =>
    intro hp
    have hx := List.pairwise_cons.mp hp
    unfold sortNodes
    refine insertNode_sorted x _ (ih hx.2) ?_
    intro y hy
    exact (hx.1 y ((mem_sortNodes y t).mp hy)).symm

/-- what a record of `mkChain` over a sorted list says. -/
theorem mkChain_spec (cls : Nat) (first : Name) : ∀ (l : List Node), l.Pairwise nlt → ∀ r ∈ mkChain cls first l,
    ∃ a ∈ l, r.owner = a.name ∧ r.types = a.types ∧ r.cls = cls ∧
      ((∃ b ∈ l, r.next = b.name ∧ nlt a b ∧ ∀ m ∈ l, ¬(nlt a m ∧ nlt m b)) ∨
       (r.next = first ∧ ∀ m ∈ l, ¬ nlt a m)) := by
  intro l
  induction l with
  | nil => intro _ r hr; simp [mkChain] at hr
  | cons n t ih =>
    intro hp r hr
    have hn := List.pairwise_cons.mp hp
    cases t with
    | nil =>
      simp only [mkChain, List.mem_singleton] at hr
      subst hr
      refine ⟨n, List.mem_cons_self .., rfl, rfl, rfl, Or.inr ⟨rfl, ?_⟩⟩
      intro m hm
      rw [List.mem_singleton] at hm
      subst hm
      exact lawful_cmpName.lt_irrefl _
    | cons m t' =>
      simp only [mkChain, List.mem_cons] at hr
      rcases hr with rfl | hr
      · refine ⟨n, List.mem_cons_self .., rfl, rfl, rfl, Or.inl ⟨m, by simp, rfl, hn.1 m (List.mem_cons_self ..), ?_⟩⟩
        intro x hx ⟨h1, h2⟩
        rcases List.mem_cons.mp hx with rfl | hx
        · exact lawful_cmpName.lt_irrefl _ h1
        · rcases List.mem_cons.mp hx with rfl | hx
          · exact lawful_cmpName.lt_irrefl _ h2
          · have := (List.pairwise_cons.mp hn.2).1 x hx
            exact lawful_cmpName.lt_asymm this h2
      · obtain ⟨a, ha, ho, ht, hc, hcase⟩ := ih hn.2 r (by simpa [mkChain] using hr)
        refine ⟨a, List.mem_cons_of_mem _ ha, ho, ht, hc, ?_⟩
        have hna : nlt n a := hn.1 a ha
        rcases hcase with ⟨b, hb, hnx, hab, hbetween⟩ | ⟨hnx, hlast⟩
        · refine Or.inl ⟨b, List.mem_cons_of_mem _ hb, hnx, hab, ?_⟩
          intro x hx ⟨h1, h2⟩
          rcases List.mem_cons.mp hx with rfl | hx
          · exact lawful_cmpName.lt_asymm hna h1
          · exact hbetween x hx ⟨h1, h2⟩
        · refine Or.inr ⟨hnx, ?_⟩
          intro x hx h1
          rcases List.mem_cons.mp hx with rfl | hx
          · exact lawful_cmpName.lt_asymm hna h1
          · exact hlast x hx h1


/-! ### C. zones: authoritative names, the genuine chain -/

theorem prefix_antisymm {β : Type} {a b : List β} (h1 : a <+: b) (h2 : b <+: a) : a = b :=
  h1.eq_of_length (Nat.le_antisymm h1.length_le h2.length_le)

theorem occluded_iff (z : Zone) (q : Name) :
    z.occluded q = true ↔ ∃ n ∈ z.nodes, cutTypes n.types = true ∧ n.name <+: q ∧ n.name ≠ q := by
  unfold Zone.occluded
  simp only [List.any_eq_true, Bool.and_eq_true, List.isPrefixOf_iff_prefix, bne_iff_ne, ne_eq]
  constructor
  · rintro ⟨n, hn, ⟨h1, h2⟩, h3⟩; exact ⟨n, hn, h1, h2, h3⟩
  · rintro ⟨n, hn, h1, h2, h3⟩; exact ⟨n, hn, ⟨h1, h2⟩, h3⟩

theorem mem_auth (z : Zone) (n : Node) : n ∈ z.auth ↔ n ∈ z.nodes ∧ z.occluded n.name = false := by
  unfold Zone.auth
  simp [List.mem_filter]

theorem mem_authNames (z : Zone) (m : Name) : m ∈ z.authNames ↔ ∃ n ∈ z.auth, n.name = m := by
  unfold Zone.authNames
  simp [List.mem_map]

theorem auth_in_zone {z : Zone} (hz : z.WF) {m : Name} (hm : m ∈ z.authNames) : z.apex <+: m := by
  obtain ⟨n, hn, rfl⟩ := (mem_authNames z m).mp hm
  exact hz.in_zone n ((mem_auth z n).mp hn).1

theorem apex_auth {z : Zone} (hz : z.WF) : z.apex ∈ z.authNames := by
  obtain ⟨n, hn, hname, _⟩ := hz.apex_soa
  refine (mem_authNames z _).mpr ⟨n, (mem_auth z n).mpr ⟨hn, ?_⟩, hname⟩
  cases hocc : z.occluded n.name with
  | false => rfl
  | true =>
    obtain ⟨c, hc, _, hpre, hne⟩ := (occluded_iff z _).mp hocc
    have := hz.in_zone c hc
    rw [hname] at hpre hne
    exact absurd (prefix_antisymm hpre this) hne

theorem auth_nodup {z : Zone} (hz : z.WF) : z.auth.Pairwise fun a b => a.name ≠ b.name := by
  unfold Zone.auth
  exact hz.nodup.filter _

theorem pairwise_name_unique {a b : Node} : ∀ (l : List Node), l.Pairwise (fun a b => a.name ≠ b.name) →
    a ∈ l → b ∈ l → a.name = b.name → a = b := by
  intro l
  induction l with
  | nil => intro _ ha; cases ha
  | cons x t ih =>
    intro hp ha hb h
    have hx := List.pairwise_cons.mp hp
    rcases List.mem_cons.mp ha with rfl | ha' <;> rcases List.mem_cons.mp hb with rfl | hb'
    · rfl
    · exact absurd h (hx.1 b hb')
    · exact absurd h.symm (hx.1 a ha')
    · exact ih hx.2 ha' hb' h

/-- a node is determined by its name. -/
theorem node_unique {z : Zone} (hz : z.WF) {a b : Node} (ha : a ∈ z.nodes) (hb : b ∈ z.nodes)
    (h : a.name = b.name) : a = b := pairwise_name_unique z.nodes hz.nodup ha hb h

/-- a record of the genuine chain, as far as the denial rules need it. -/
structure Genuine (z : Zone) (r : Nsec) : Prop where
  node : ∃ a ∈ z.auth, a.name = r.owner ∧ a.types = r.types
  cls : r.cls = z.cls
  gap : (r.next ∈ z.authNames ∧ cmpName r.owner r.next = .lt ∧
          ∀ m ∈ z.authNames, ¬(cmpName r.owner m = .lt ∧ cmpName m r.next = .lt))
        ∨ (r.next = z.apex ∧ ∀ m ∈ z.authNames, cmpName r.owner m ≠ .lt)

theorem chain_genuine {z : Zone} (hz : z.WF) {r : Nsec} (hr : r ∈ z.chain) : Genuine z r := by
  unfold Zone.chain at hr
  have hsorted := sortNodes_sorted z.auth (auth_nodup hz)
  cases hs : sortNodes z.auth with
  | nil => rw [hs] at hr; cases hr
  | cons n t =>
    rw [hs] at hr hsorted
    simp only at hr
    have hmem : ∀ a, a ∈ n :: t ↔ a ∈ z.auth := by
      intro a; rw [← hs]; exact mem_sortNodes a z.auth
    -- the first owner is the apex
    have hfirst : n.name = z.apex := by
      obtain ⟨ap, hap, hapn⟩ := (mem_authNames z _).mp (apex_auth hz)
      have hn_in : z.apex <+: n.name := auth_in_zone hz ((mem_authNames z _).mpr ⟨n, (hmem n).mp (List.mem_cons_self ..), rfl⟩)
      rcases List.mem_cons.mp ((hmem ap).mpr hap) with rfl | hin
      · exact hapn
      · have h1 : cmpName n.name ap.name = .lt := (List.pairwise_cons.mp hsorted).1 ap hin
        rw [hapn] at h1
        have h2 := cmpList_prefix_ne_gt lawful_cmpLabel hn_in
        exact absurd ((lawful_cmpName.gt_iff _ _).mpr h1) h2
    obtain ⟨a, ha, ho, ht, hc, hcase⟩ := mkChain_spec z.cls n.name (n :: t) hsorted r hr
    refine ⟨⟨a, (hmem a).mp ha, ho.symm, ht.symm⟩, hc, ?_⟩
    rcases hcase with ⟨b, hb, hnx, hab, hbetween⟩ | ⟨hnx, hlast⟩
    · left
      refine ⟨(mem_authNames z _).mpr ⟨b, (hmem b).mp hb, hnx.symm⟩, by rw [ho, hnx]; exact hab, ?_⟩
      intro m hm
      obtain ⟨x, hx, rfl⟩ := (mem_authNames z m).mp hm
      rw [ho, hnx]
      exact hbetween x ((hmem x).mpr hx)
    · right
      refine ⟨by rw [hnx, hfirst], ?_⟩
      intro m hm
      obtain ⟨x, hx, rfl⟩ := (mem_authNames z m).mp hm
      rw [ho]
      exact hlast x ((hmem x).mpr hx)

end SdnsVerif.Lemmas.Nsec
