import SdnsVerif.Model.Chain
/-! Helper lemmas for the chain-dispatch theorems of C17. -/
namespace SdnsVerif.Lemmas.Chain
open SdnsVerif.Model.Chain

theorem weight_get (hs : List Script) (p : Nat) (s : Script) (h : hs[p]? = some s) :
    weight hs p = s.length + weight hs (p + 1) := by
  have hp : p < hs.length := by
    rcases Nat.lt_or_ge p hs.length with hlt | hge
    · exact hlt
    · rw [List.getElem?_eq_none hge] at h; cases h
  have hs' : hs[p] = s := by
    rw [List.getElem?_eq_getElem hp] at h; exact Option.some.inj h
  unfold weight
  rw [List.drop_eq_getElem_cons hp, hs']
  simp

theorem weight_succ_le (hs : List Script) (p : Nat) : weight hs (p + 1) ≤ weight hs p := by
  cases h : hs[p]? with
  | some s => rw [weight_get hs p s h]; omega
  | none =>
    have hge : hs.length ≤ p := by
      rcases Nat.lt_or_ge p hs.length with hlt | hge
      · rw [List.getElem?_eq_getElem hlt] at h; cases h
      · exact hge
    unfold weight
    rw [List.drop_eq_nil_of_le (by omega), List.drop_eq_nil_of_le hge]
    simp

theorem weight_anti (hs : List Script) {p q : Nat} (h : p ≤ q) : weight hs q ≤ weight hs p := by
  induction q with
  | zero => have : p = 0 := by omega
            subst this; exact Nat.le_refl _
  | succ q ih =>
    rcases Nat.lt_or_ge p (q + 1) with hlt | hge
    · exact Nat.le_trans (weight_succ_le hs q) (ih (by omega))
    · have : p = q + 1 := by omega
      subst this; exact Nat.le_refl _

/-- With enough fuel for the calls still ahead, `exec` never runs out, and the
position only moves forward. -/
theorem exec_fuel_ok (hs : List Script) :
    ∀ (fuel self : Nat) (acts : Script) (st : St),
      st.oof = false → acts.length + weight hs st.pos ≤ fuel →
      (exec hs fuel self acts st).oof = false ∧ st.pos ≤ (exec hs fuel self acts st).pos := by
  intro fuel
  induction fuel with
  | zero =>
    intro self acts st hoof hle
    cases acts with
    | nil => simp [exec, hoof]
    | cons a as => simp at hle
  | succ fuel ih =>
    intro self acts st hoof hle
    cases acts with
    | nil => simp [exec, hoof]
    | cons a as =>
      cases a with
      | cancel =>
        simp only [exec]
        have := ih self as { st with count := 0 } hoof (by simp at hle ⊢; omega)
        simpa using this
      | write =>
        simp only [exec]
        have := ih self as { st with writer := firstWriter st.writer self } hoof (by simp at hle ⊢; omega)
        simpa using this
      | next =>
        simp only [exec]
        by_cases hc : st.count = 0
        · simp only [hc, if_true]
          exact ih self as st hoof (by simp at hle ⊢; omega)
        · simp only [hc, if_false]
          cases hg : hs[st.pos]? with
          | none =>
            simp only
            exact ih self as st hoof (by simp at hle ⊢; omega)
          | some s =>
            simp only
            have hw := weight_get hs st.pos s hg
            have h1 := ih st.pos s
              { st with pos := st.pos + 1, count := st.count - 1, ran := st.ran ++ [st.pos] }
              hoof (by simp at hle ⊢; omega)
            obtain ⟨ho1, hp1⟩ := h1
            have hanti := weight_anti hs (p := st.pos) (q := (exec hs fuel st.pos s
              { st with pos := st.pos + 1, count := st.count - 1, ran := st.ran ++ [st.pos] }).pos)
              (by simp at hp1; omega)
            have h2 := ih self as _ ho1 (by simp at hle ⊢; omega)
            obtain ⟨ho2, hp2⟩ := h2
            refine ⟨ho2, ?_⟩
            simp at hp1
            omega

/-- Once `count` is zero nothing is invoked any more. -/
theorem exec_count_zero (hs : List Script) :
    ∀ (fuel self : Nat) (acts : Script) (st : St), st.count = 0 →
      (exec hs fuel self acts st).ran = st.ran ∧ (exec hs fuel self acts st).count = 0 ∧
      (exec hs fuel self acts st).pos = st.pos := by
  intro fuel
  induction fuel with
  | zero =>
    intro self acts st hc
    cases acts with
    | nil => simp [exec, hc]
    | cons a as => simp [exec]
  | succ fuel ih =>
    intro self acts st hc
    cases acts with
    | nil => simp [exec, hc]
    | cons a as =>
      cases a with
      | cancel =>
        simp only [exec]
        simpa using ih self as { st with count := 0 } rfl
      | write =>
        simp only [exec]
        simpa using ih self as { st with writer := firstWriter st.writer self } hc
      | next =>
        simp only [exec, hc, if_true]
        exact ih self as st hc

/-- What a denied query leaves behind: no accepted write, nothing invoked beyond
handler `k`, and the chain stopped once it got past `k`. -/
def Quiet (k : Nat) (st : St) : Prop :=
  st.writer = none ∧ (∀ i ∈ st.ran, i ≤ k) ∧ (k < st.pos → st.count = 0)

theorem exec_quiet (hs : List Script) (k : Nat)
    (hk : hs[k]? = some [Act.cancel])
    (hpre : ∀ p s, p < k → hs[p]? = some s → Act.write ∉ s) :
    ∀ (fuel self : Nat) (acts : Script) (st : St),
      Quiet k st → Act.write ∉ acts → Quiet k (exec hs fuel self acts st) := by
  intro fuel
  induction fuel with
  | zero =>
    intro self acts st hq hw
    cases acts with
    | nil => simpa [exec] using hq
    | cons a as =>
      obtain ⟨h1, h2, _⟩ := hq
      exact ⟨by simp [exec, h1], by simpa [exec] using h2, by simp [exec]⟩
  | succ fuel ih =>
    intro self acts st hq hw
    cases acts with
    | nil => simpa [exec] using hq
    | cons a as =>
      have hwas : Act.write ∉ as := fun h => hw (List.mem_cons_of_mem _ h)
      cases a with
      | write => exact absurd (List.mem_cons_self) hw
      | cancel =>
        simp only [exec]
        obtain ⟨h1, h2, _⟩ := hq
        exact ih self as _ ⟨h1, h2, fun _ => rfl⟩ hwas
      | next =>
        simp only [exec]
        by_cases hc : st.count = 0
        · simp only [hc, if_true]
          exact ih self as st hq hwas
        · simp only [hc, if_false]
          obtain ⟨h1, h2, h3⟩ := hq
          have hpk : st.pos ≤ k := by
            rcases Nat.lt_or_ge k st.pos with hlt | hge
            · exact absurd (h3 hlt) hc
            · exact hge
          cases hg : hs[st.pos]? with
          | none =>
            simp only
            exact ih self as st ⟨h1, h2, h3⟩ hwas
          | some s =>
            simp only
            have hran : ∀ i ∈ st.ran ++ [st.pos], i ≤ k := by
              intro i hi
              rcases List.mem_append.mp hi with hi | hi
              · exact h2 i hi
              · simp at hi; omega
            rcases Nat.lt_or_ge st.pos k with hlt | hge
            · -- an observer ahead of the access list
              have hq1 : Quiet k (exec hs fuel st.pos s
                  { st with pos := st.pos + 1, count := st.count - 1, ran := st.ran ++ [st.pos] }) :=
                ih st.pos s _ ⟨h1, hran, fun h => by simp at h; omega⟩ (hpre st.pos s hlt hg)
              exact ih self as _ hq1 hwas
            · -- the access list itself: its whole script is `cancel`
              have hpos : st.pos = k := by omega
              rw [hpos, hk] at hg
              have hs' : s = [Act.cancel] := (Option.some.inj hg).symm
              subst hs'
              have hq1 : Quiet k (exec hs fuel st.pos [Act.cancel]
                  { st with pos := st.pos + 1, count := st.count - 1, ran := st.ran ++ [st.pos] }) := by
                cases fuel with
                | zero => exact ⟨by simp [exec, h1], by simpa [exec] using hran, by simp [exec]⟩
                | succ f => exact ⟨by simp [exec, h1], by simpa [exec] using hran, by simp [exec]⟩
              exact ih self as _ hq1 hwas

end SdnsVerif.Lemmas.Chain
