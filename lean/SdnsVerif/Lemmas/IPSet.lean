import SdnsVerif.Model.IPSet
/-! Helper lemmas for C17 (stabbing query with running maximum). -/
namespace SdnsVerif.Lemmas.IPSet
open SdnsVerif.Model.IPSet

/-! ### binary search -/

/-- Loop invariant of the binary search: the result `r` of a search started
in a state where everything left of `i` is `≤ k` and everything from `j` on
is `> k` has the same two properties with `i = j = r`. -/
theorem bsearch_spec (get : Nat → Nat) (k n : Nat)
    (mono : ∀ x y, x ≤ y → y < n → get x ≤ get y) :
    ∀ (d i j : Nat), j - i = d → i ≤ j → j ≤ n →
      (∀ x, x < i → get x ≤ k) → (∀ x, j ≤ x → x < n → k < get x) →
      let r := bsearch get k i j
      i ≤ r ∧ r ≤ j ∧ (∀ x, x < r → get x ≤ k) ∧ (∀ x, r ≤ x → x < n → k < get x) := by
  intro d
  induction d using Nat.strongRecOn with
  | _ d ih =>
    intro i j hd hij hjn hl hr
    unfold bsearch
    by_cases h : i < j
    · simp only [h, dite_true]
      by_cases hm : get ((i + j) / 2) ≤ k
      · simp only [hm, if_true]
        have := ih (j - ((i + j) / 2 + 1)) (by omega) ((i + j) / 2 + 1) j rfl (by omega) hjn
          (by
            intro x hx
            exact Nat.le_trans (mono x ((i + j) / 2) (by omega) (by omega)) hm)
          hr
        simp only at this
        refine ⟨by omega, this.2.1, this.2.2.1, this.2.2.2⟩
      · simp only [hm, if_false]
        have := ih ((i + j) / 2 - i) (by omega) i ((i + j) / 2) rfl (by omega) (by omega) hl
          (by
            intro x hx hxn
            have := mono ((i + j) / 2) x hx hxn
            omega)
        simp only at this
        refine ⟨this.1, by omega, this.2.2.1, this.2.2.2⟩
    · simp only [h, dite_false]
      have : i = j := by omega
      subst this
      exact ⟨Nat.le_refl _, Nat.le_refl _, hl, hr⟩

theorem getD_getElem {α} (l : List α) (i : Nat) (d : α) (h : i < l.length) : l.getD i d = l[i] := by
  simp [List.getD_eq_getElem?_getD, h]

/-! ### sorting -/

theorem insertByLo_perm (s : Span) (l : List Span) : (insertByLo s l).Perm (s :: l) := by
  induction l with
  | nil => exact List.Perm.refl _
  | cons x t ih =>
    unfold insertByLo
    split
    · exact List.Perm.refl _
    · exact (List.Perm.cons x ih).trans (List.Perm.swap s x t)

theorem sortByLo_perm (l : List Span) : (sortByLo l).Perm l := by
  induction l with
  | nil => exact List.Perm.refl _
  | cons x t ih =>
    unfold sortByLo
    exact (insertByLo_perm x _).trans (List.Perm.cons x ih)

theorem insertByLo_sorted (s : Span) (l : List Span)
    (h : l.Pairwise (fun a b => a.lo ≤ b.lo)) :
    (insertByLo s l).Pairwise (fun a b => a.lo ≤ b.lo) := by
  induction l with
  | nil => simp [insertByLo]
  | cons x t ih =>
    unfold insertByLo
    have hx := List.pairwise_cons.mp h
    split
    · rename_i hle
      refine List.pairwise_cons.mpr ⟨?_, h⟩
      intro a ha
      rcases List.mem_cons.mp ha with rfl | ha
      · exact hle
      · exact Nat.le_trans hle (hx.1 a ha)
    · rename_i hnle
      refine List.pairwise_cons.mpr ⟨?_, ih hx.2⟩
      intro a ha
      have := (insertByLo_perm s t).mem_iff.mp ha
      rcases List.mem_cons.mp this with rfl | ha'
      · omega
      · exact hx.1 a ha'

theorem sortByLo_sorted (l : List Span) : (sortByLo l).Pairwise (fun a b => a.lo ≤ b.lo) := by
  induction l with
  | nil => simp [sortByLo]
  | cons x t ih => unfold sortByLo; exact insertByLo_sorted x _ ih

/-! ### running maximum -/

theorem runMax_length (m : Nat) (l : List Span) : (runMax m l).length = l.length := by
  induction l generalizing m with
  | nil => rfl
  | cons s t ih => simp [runMax, ih]

/-- Everything about the running maximum that `Contains` needs, by index. -/
theorem runMax_get (m : Nat) (l : List Span) (x : Nat) (hx : x < l.length) :
    ((runMax m l)[x]'(by rw [runMax_length]; exact hx)).lo = (l[x]).lo ∧
    ((runMax m l)[x]'(by rw [runMax_length]; exact hx)).hi = (l[x]).hi ∧
    m ≤ ((runMax m l)[x]'(by rw [runMax_length]; exact hx)).maxHi ∧
    (∀ y (hy : y ≤ x), (l[y]'(by omega)).hi ≤ ((runMax m l)[x]'(by rw [runMax_length]; exact hx)).maxHi) ∧
    (((runMax m l)[x]'(by rw [runMax_length]; exact hx)).maxHi = m ∨
      ∃ y, ∃ (hy : y ≤ x), ((runMax m l)[x]'(by rw [runMax_length]; exact hx)).maxHi = (l[y]'(by omega)).hi) := by
  induction l generalizing m x with
  | nil => simp at hx
  | cons s t ih =>
    cases x with
    | zero =>
      simp only [runMax, List.getElem_cons_zero]
      refine ⟨trivial, trivial, ?_, ?_, ?_⟩
      · split <;> omega
      · intro y hy
        have : y = 0 := by omega
        subst this
        simp only [List.getElem_cons_zero]
        split <;> omega
      · by_cases h : m ≤ s.hi
        · right; exact ⟨0, Nat.le_refl _, by simp [h]⟩
        · left; simp [h]
    | succ x =>
      have hx' : x < t.length := by simpa using hx
      have := ih (if m ≤ s.hi then s.hi else m) x hx'
      simp only [runMax, List.getElem_cons_succ]
      obtain ⟨h1, h2, h3, h4, h5⟩ := this
      refine ⟨h1, h2, ?_, ?_, ?_⟩
      · have : m ≤ (if m ≤ s.hi then s.hi else m) := by split <;> omega
        omega
      · intro y hy
        cases y with
        | zero =>
          simp only [List.getElem_cons_zero]
          have : s.hi ≤ (if m ≤ s.hi then s.hi else m) := by split <;> omega
          omega
        | succ y =>
          simp only [List.getElem_cons_succ]
          exact h4 y (by omega)
      · rcases h5 with h5 | ⟨y, hy, h5⟩
        · by_cases h : m ≤ s.hi
          · right
            refine ⟨0, Nat.zero_le _, ?_⟩
            simp only [List.getElem_cons_zero]
            rw [h5]; simp [h]
          · left; rw [h5]; simp [h]
        · right
          exact ⟨y + 1, by omega, by simpa using h5⟩

end SdnsVerif.Lemmas.IPSet

namespace SdnsVerif.Lemmas.IPSet
open SdnsVerif.Model.IPSet

/-! ### `u128` arithmetic and `bounds` -/

theorem ones_eq (n : Nat) (h : n ≤ 64) : ones (n : Int) = 2 ^ n - 1 := by
  unfold ones
  by_cases h0 : n = 0
  · subst h0; simp
  · have : ¬ ((n : Int) ≤ 0) := by omega
    simp only [this, if_false]
    by_cases h64 : n = 64
    · subst h64; simp
    · have : ¬ ((n : Int) ≥ 64) := by omega
      simp only [this, if_false, Int.toNat_natCast]

theorem or_ones (q h : Nat) : (2 ^ h * q) ||| (2 ^ h - 1) = 2 ^ h * q + (2 ^ h - 1) := by
  have : 2 ^ h - 1 < 2 ^ h := by have := Nat.two_pow_pos h; omega
  exact (Nat.two_pow_add_eq_or_of_lt this q).symm

theorem split_val (a : Nat) : (split a).val = a := by
  unfold split P128.val
  simp only
  have := Nat.div_add_mod a (2 ^ 64)
  rw [Nat.mul_comm] at this
  exact this

theorem mkSpan_spec (width bits a : Nat) (hw : width = 32 ∨ width = 128) (hb : bits ≤ width)
    (_ha : a < 2 ^ width) :
    (mkSpan width bits a).lo = a / 2 ^ (width - bits) * 2 ^ (width - bits) ∧
    (mkSpan width bits a).hi = a / 2 ^ (width - bits) * 2 ^ (width - bits) + (2 ^ (width - bits) - 1) := by
  unfold mkSpan bounds maskAddr
  have hcast : ((width : Int) - (bits : Int)) = ((width - bits : Nat) : Int) := by omega
  rw [hcast]
  generalize hh : width - bits = h
  generalize hq : a / 2 ^ h = q
  have hhw : h ≤ width := by omega
  by_cases hA : width = 32 ∨ ((h : Nat) : Int) < 64
  · simp only [hA, if_true]
    have h64 : h < 64 := by rcases hA with hA | hA <;> omega
    refine ⟨split_val _, ?_⟩
    rw [ones_eq h (by omega)]
    unfold P128.val split
    simp only
    have e : 2 ^ 64 = 2 ^ h * 2 ^ (64 - h) := by rw [← Nat.pow_add]; congr 1; omega
    have hm : q * 2 ^ h % 2 ^ 64 = 2 ^ h * (q % 2 ^ (64 - h)) := by
      rw [Nat.mul_comm q, e, Nat.mul_mod_mul_left]
    rw [hm, or_ones]
    have := Nat.div_add_mod (q * 2 ^ h) (2 ^ 64)
    rw [hm] at this
    rw [Nat.mul_comm (q * 2 ^ h / 2 ^ 64)]
    omega
  · simp only [hA, if_false]
    have hw128 : width = 128 := by rcases hw with hw | hw; exact absurd (Or.inl hw) hA; exact hw
    have h64 : 64 ≤ h := by
      have : ¬ (((h : Nat) : Int) < 64) := fun c => hA (Or.inr c)
      omega
    refine ⟨split_val _, ?_⟩
    have hc2 : ((h : Int) - 64) = ((h - 64 : Nat) : Int) := by omega
    rw [hc2, ones_eq (h - 64) (by omega)]
    unfold P128.val split
    simp only
    have e : 2 ^ h = 2 ^ (h - 64) * 2 ^ 64 := by rw [← Nat.pow_add]; congr 1; omega
    have hd : q * 2 ^ h / 2 ^ 64 = 2 ^ (h - 64) * q := by
      rw [e, ← Nat.mul_assoc, Nat.mul_div_cancel _ (Nat.two_pow_pos 64), Nat.mul_comm]
    rw [hd, or_ones, e]
    have p1 := Nat.two_pow_pos (h - 64)
    have q1 := Nat.two_pow_pos 64
    generalize 2 ^ (h - 64) = P at *
    generalize (2:Nat) ^ 64 = Q at *
    have : (P * q + (P - 1)) * Q = q * (P * Q) + (P - 1) * Q := by
      rw [Nat.add_mul, Nat.mul_assoc, Nat.mul_left_comm]
    rw [this]
    have h2 : (P - 1) * Q + Q = P * Q := by
      rw [← Nat.succ_mul]; congr 1; omega
    generalize (P - 1) * Q = X at *
    generalize P * Q = Y at *
    generalize q * Y = Z at *
    omega

/-- `k / P = q` exactly when `k` lies in the `q`-th block of size `P`. -/
theorem div_eq_iff_block (k q P : Nat) (hP : 0 < P) : k / P = q ↔ q * P ≤ k ∧ k ≤ q * P + (P - 1) := by
  constructor
  · intro h
    subst h
    have e := Nat.div_add_mod k P
    have l := Nat.mod_lt k hP
    rw [Nat.mul_comm (k / P) P]
    constructor <;> omega
  · rintro ⟨h1, h2⟩
    have h3 : k < (q + 1) * P := by rw [Nat.succ_mul]; omega
    have a1 : q ≤ k / P := (Nat.le_div_iff_mul_le hP).mpr h1
    have a2 : k / P < q + 1 := (Nat.div_lt_iff_lt_mul hP).mpr h3
    omega

end SdnsVerif.Lemmas.IPSet
