import SdnsVerif.Model.AutoTA
/-!
Helper lemmas about the `AutoTA` model (phase by phase).
-/
namespace SdnsVerif.Lemmas.AutoTA
open SdnsVerif.Model.AutoTA

/-! ### small facts -/

theorem marker_not_trusted {s : St} (h : isMarker s = true) : isTrusted s = false := by
  cases s <;> simp_all [isMarker, isTrusted]

theorem trusted_not_marker {s : St} (h : isTrusted s = true) : isMarker s = false := by
  cases s <;> simp_all [isMarker, isTrusted]

theorem lookup_mem {cur : List TA} {t : Nat} {ta : TA} (h : lookup cur t = some ta) :
    ta ∈ cur ∧ ta.key.tag = t := by
  unfold lookup at h
  have h1 := List.mem_of_find?_eq_some h
  have h2 := List.find?_some h
  exact ⟨h1, by simpa using h2⟩

theorem sameKey_mat {c r : Key} (h : sameKeyExceptRevoke c r = true) : c.mat = r.mat := by
  unfold sameKeyExceptRevoke at h
  simp only [Bool.and_eq_true, beq_iff_eq] at h
  exact h.1.1.1

/-! ### `NoLive m cur`: every entry of material `m` is a revocation marker -/

def NoLive (m : Nat) (cur : List TA) : Prop :=
  ∀ ta ∈ cur, ta.key.mat = m → isMarker ta.st = true

theorem candidate_excludes {m : Nat} {cur : List TA} (h : NoLive m cur) :
    ∀ k ∈ candidate cur, k.mat ≠ m := by
  intro k hk hm
  unfold candidate at hk
  obtain ⟨ta, hta, rfl⟩ := List.mem_map.mp hk
  obtain ⟨hin, htr⟩ := List.mem_filter.mp hta
  have := h ta hin hm
  rw [marker_not_trusted this] at htr
  cases htr

theorem noLive_filter {m : Nat} {cur : List TA} (p : TA → Bool) (h : NoLive m cur) :
    NoLive m (cur.filter p) := by
  intro ta hta
  exact h ta (List.mem_filter.mp hta).1

/-- `migrate` keeps what was there and adds the material of every marker. -/
theorem migrate_mono (cur : List TA) (tomb : List Nat) (m : Nat) (h : m ∈ tomb) :
    m ∈ migrate cur tomb := by
  unfold migrate
  induction cur generalizing tomb with
  | nil => simpa using h
  | cons ta rest ih =>
    simp only [List.foldl_cons]
    apply ih
    split
    · exact List.mem_append_left _ h
    · exact h

theorem migrate_marker (cur : List TA) (tomb : List Nat) (ta : TA) (hin : ta ∈ cur)
    (hm : isMarker ta.st = true) : ta.key.mat ∈ migrate cur tomb := by
  unfold migrate
  induction cur generalizing tomb with
  | nil => cases hin
  | cons x rest ih =>
    simp only [List.foldl_cons]
    rcases List.mem_cons.mp hin with rfl | hrest
    · have := migrate_mono rest
      unfold migrate at this
      apply this
      by_cases hc : tomb.contains ta.key.mat = true
      · simp only [hm, hc, Bool.not_true, Bool.and_false]
        simpa using hc
      · simp only [hm, Bool.true_and]
        have : (!tomb.contains ta.key.mat) = true := by simpa using hc
        simp only [this, if_true]
        exact List.mem_append_right _ (by simp)
    · exact ih _ hrest

/-- every material `migrate` adds comes from a marker (or was there). -/
theorem migrate_sub (cur : List TA) (tomb : List Nat) (m : Nat) (h : m ∈ migrate cur tomb) :
    m ∈ tomb ∨ ∃ ta ∈ cur, isMarker ta.st = true ∧ ta.key.mat = m := by
  unfold migrate at h
  induction cur generalizing tomb with
  | nil => left; simpa using h
  | cons x rest ih =>
    simp only [List.foldl_cons] at h
    rcases ih _ h with h1 | ⟨ta, hta, hm, hmat⟩
    · split at h1
      · next hc =>
        rcases List.mem_append.mp h1 with h2 | h2
        · exact Or.inl h2
        · right
          refine ⟨x, by simp, ?_, ?_⟩
          · simp only [Bool.and_eq_true] at hc; exact hc.1
          · have := List.mem_singleton.mp h2; exact this.symm
      · exact Or.inl h1
    · exact Or.inr ⟨ta, List.mem_cons_of_mem _ hta, hm, hmat⟩

theorem precedence_noLive {m : Nat} (cur : List TA) (tomb : List Nat) (h : m ∈ tomb) :
    NoLive m (precedence cur tomb) := by
  intro ta hta hm
  unfold precedence at hta
  have := (List.mem_filter.mp hta).2
  simp only [Bool.or_eq_true, Bool.not_eq_eq_eq_not, Bool.not_true] at this
  rcases this with h1 | h1
  · exact h1
  · exfalso
    rw [hm] at h1
    have : tomb.contains m = true := by simpa using h
    rw [this] at h1; cases h1

/-- invariant of the phases after `precedence`: `m` is tombstoned in memory and
no entry of material `m` is anything but a marker. -/
def Excl (m : Nat) (cur : List TA) (tomb : List Nat) : Prop := m ∈ tomb ∧ NoLive m cur

theorem mergeStep_excl {m now : Nat} (acc : List TA × List Nat) (k : Key)
    (h : Excl m acc.1 acc.2) : Excl m (mergeStep now acc k).1 (mergeStep now acc k).2 := by
  unfold mergeStep
  split
  · exact h
  · split
    · exact h
    · split
      · exact h
      · next hc =>
        split
        · exact ⟨List.mem_append_left _ h.1, h.2⟩
        · refine ⟨h.1, ?_⟩
          intro ta hta hm
          rcases List.mem_append.mp hta with h1 | h1
          · exact h.2 ta h1 hm
          · simp only [List.mem_singleton] at h1
            subst h1
            simp only at hm
            exfalso
            apply hc
            rw [hm]
            simpa using h.1

theorem mergeCfg_excl {m now : Nat} (cfg : List Key) (cur : List TA) (tomb : List Nat)
    (h : Excl m cur tomb) : Excl m (mergeCfg cfg cur tomb now).1 (mergeCfg cfg cur tomb now).2 := by
  unfold mergeCfg
  suffices ∀ acc : List TA × List Nat, Excl m acc.1 acc.2 →
      Excl m (cfg.foldl (mergeStep now) acc).1 (cfg.foldl (mergeStep now) acc).2 from this (cur, tomb) h
  induction cfg with
  | nil => intro acc h; simpa using h
  | cons k rest ih =>
    intro acc h
    simp only [List.foldl_cons]
    exact ih _ (mergeStep_excl acc k h)

theorem setRevoked_noLive {m : Nat} (cur : List TA) (t now : Nat) (h : NoLive m cur) :
    NoLive m (setRevoked cur t now) := by
  induction cur with
  | nil => intro ta hta; cases hta
  | cons x rest ih =>
    have hx : ∀ ta ∈ rest, ta.key.mat = m → isMarker ta.st = true :=
      fun ta hta => h ta (List.mem_cons_of_mem _ hta)
    unfold setRevoked
    split
    · intro ta hta hm
      rcases List.mem_cons.mp hta with rfl | h1
      · simp [isMarker]
      · exact hx ta h1 hm
    · intro ta hta hm
      rcases List.mem_cons.mp hta with rfl | h1
      · exact h _ (by simp) hm
      · exact ih hx ta h1 hm

theorem procFetched_excl {m now : Nat} (staged : List Key) (revOnly : Bool) (s : Loop) (k : Key)
    (h : Excl m s.cur s.tomb) :
    Excl m (procFetched staged revOnly now s k).cur (procFetched staged revOnly now s k).tomb := by
  unfold procFetched
  split
  · exact h
  · next hc =>
    split
    · exact h
    · split
      · split
        · split
          · exact ⟨List.mem_append_left _ h.1, setRevoked_noLive _ _ _ h.2⟩
          · exact h
        · exact h
      · split
        · exact h
        · split
          · exact h
          · refine ⟨h.1, ?_⟩
            intro ta hta hm
            rcases List.mem_append.mp hta with h1 | h1
            · exact h.2 ta h1 hm
            · simp only [List.mem_singleton] at h1
              subst h1
              simp only at hm
              exfalso
              apply hc
              rw [hm]
              simpa using h.1

theorem foldl_procFetched_excl {m now : Nat} (staged : List Key) (revOnly : Bool) (ks : List Key) (s : Loop)
    (h : Excl m s.cur s.tomb) :
    Excl m (ks.foldl (procFetched staged revOnly now) s).cur (ks.foldl (procFetched staged revOnly now) s).tomb := by
  induction ks generalizing s with
  | nil => simpa using h
  | cons k rest ih =>
    simp only [List.foldl_cons]
    exact ih _ (procFetched_excl staged revOnly s k h)

/-- what `holdStep` can do to one entry: the key never changes and a marker is
left exactly as it is. -/
theorem holdStep_key {P : Params} {tags : List Nat} {now : Nat} {ta ta' : TA}
    (h : holdStep P tags now ta = some ta') :
    ta'.key = ta.key ∧ (isMarker ta.st = true → ta' = ta) := by
  unfold holdStep at h
  split at h
  · cases hst : ta.st <;> simp only [hst] at h
    · cases h
    · cases h
    · simp only [Option.some.injEq] at h; subst h; simp [isMarker]
    · split at h
      · cases h
      · simp only [Option.some.injEq] at h; subst h; simp
    · simp only [Option.some.injEq] at h; subst h; simp
    · simp only [Option.some.injEq] at h; subst h; simp
  · simp only [Option.some.injEq] at h
    subst h
    cases hst : ta.st <;> simp [isMarker] <;> split <;> simp_all

theorem holdDown_noLive {m : Nat} (P : Params) (tags : List Nat) (now : Nat) (cur : List TA)
    (h : NoLive m cur) : NoLive m (holdDown P tags now cur) := by
  intro ta' hta' hm
  unfold holdDown at hta'
  obtain ⟨ta, hta, hs⟩ := List.mem_filterMap.mp hta'
  obtain ⟨hk, hmk⟩ := holdStep_key hs
  have hmar := h ta hta (by rw [← hk]; exact hm)
  rw [hmk hmar]; exact hmar

theorem process_excl {m now : Nat} (P : Params) (f : Fetch) (revOnly : Bool) (cur : List TA) (tomb : List Nat)
    (h : Excl m cur tomb) :
    Excl m (process P f revOnly now cur tomb).cur (process P f revOnly now cur tomb).tomb := by
  unfold process
  simp only
  have := foldl_procFetched_excl (m := m) (now := now)
    (stage cur tomb f (sortByTag (fetchedMap f.all))) revOnly
    (sortByTag (fetchedMap f.all)) { cur := cur, tomb := tomb } h
  split
  · exact this
  · exact ⟨this.1, holdDown_noLive P _ now _ this.2⟩

theorem prepare_excl {m now : Nat} (cfg : List Key) (cur0 : List TA) (tomb0 : List Nat)
    (h : m ∈ migrate cur0 tomb0) :
    Excl m (prepare cfg cur0 tomb0 now).1 (prepare cfg cur0 tomb0 now).2 := by
  unfold prepare
  exact mergeCfg_excl cfg _ _ ⟨h, precedence_noLive cur0 _ h⟩

/-! ### markers persist until the tombstone write has landed -/

def HasMarker (m : Nat) (cur : List TA) : Prop :=
  ∃ ta ∈ cur, ta.key.mat = m ∧ isMarker ta.st = true

theorem hasMarker_append {m : Nat} {cur : List TA} (x : List TA) (h : HasMarker m cur) :
    HasMarker m (cur ++ x) := by
  obtain ⟨ta, hta, h1, h2⟩ := h
  exact ⟨ta, List.mem_append_left _ hta, h1, h2⟩

theorem precedence_hasMarker {m : Nat} (cur : List TA) (tomb : List Nat) (h : HasMarker m cur) :
    HasMarker m (precedence cur tomb) := by
  obtain ⟨ta, hta, h1, h2⟩ := h
  refine ⟨ta, ?_, h1, h2⟩
  unfold precedence
  exact List.mem_filter.mpr ⟨hta, by simp [h2]⟩

theorem mergeStep_hasMarker {m now : Nat} (acc : List TA × List Nat) (k : Key)
    (h : HasMarker m acc.1) : HasMarker m (mergeStep now acc k).1 := by
  unfold mergeStep
  repeat' split
  all_goals first | exact h | exact hasMarker_append _ h

theorem mergeCfg_hasMarker {m now : Nat} (cfg : List Key) (cur : List TA) (tomb : List Nat)
    (h : HasMarker m cur) : HasMarker m (mergeCfg cfg cur tomb now).1 := by
  unfold mergeCfg
  suffices ∀ acc : List TA × List Nat, HasMarker m acc.1 →
      HasMarker m (cfg.foldl (mergeStep now) acc).1 from this (cur, tomb) h
  induction cfg with
  | nil => intro acc h; simpa using h
  | cons k rest ih =>
    intro acc h
    simp only [List.foldl_cons]
    exact ih _ (mergeStep_hasMarker acc k h)

theorem mergeStep_tomb_mono {now : Nat} (acc : List TA × List Nat) (k : Key) (m : Nat)
    (h : m ∈ acc.2) : m ∈ (mergeStep now acc k).2 := by
  unfold mergeStep
  repeat' split
  all_goals first | exact h | exact List.mem_append_left _ h

theorem mergeCfg_tomb_mono {now : Nat} (cfg : List Key) (cur : List TA) (tomb : List Nat) (m : Nat)
    (h : m ∈ tomb) : m ∈ (mergeCfg cfg cur tomb now).2 := by
  unfold mergeCfg
  suffices ∀ acc : List TA × List Nat, m ∈ acc.2 → m ∈ (cfg.foldl (mergeStep now) acc).2 from this (cur, tomb) h
  induction cfg with
  | nil => intro acc h; simpa using h
  | cons k rest ih =>
    intro acc h
    simp only [List.foldl_cons]
    exact ih _ (mergeStep_tomb_mono acc k m h)

/-- `setRevoked` keeps every entry's key and never un-marks a marker. -/
theorem setRevoked_mem (cur : List TA) (t now : Nat) (ta : TA) (h : ta ∈ cur) :
    ∃ ta' ∈ setRevoked cur t now, ta'.key = ta.key ∧ (isMarker ta.st = true → isMarker ta'.st = true) := by
  induction cur with
  | nil => cases h
  | cons x rest ih =>
    unfold setRevoked
    split
    · rcases List.mem_cons.mp h with rfl | h1
      · exact ⟨{ ta with st := .revoked, firstSeen := now }, by simp, rfl, by intro _; simp [isMarker]⟩
      · exact ⟨ta, List.mem_cons_of_mem _ h1, rfl, id⟩
    · rcases List.mem_cons.mp h with rfl | h1
      · exact ⟨ta, by simp, rfl, id⟩
      · obtain ⟨ta', h2, h3, h4⟩ := ih h1
        exact ⟨ta', List.mem_cons_of_mem _ h2, h3, h4⟩

theorem setRevoked_hasMarker {m : Nat} (cur : List TA) (t now : Nat) (h : HasMarker m cur) :
    HasMarker m (setRevoked cur t now) := by
  obtain ⟨ta, hta, h1, h2⟩ := h
  obtain ⟨ta', h3, h4, h5⟩ := setRevoked_mem cur t now ta hta
  exact ⟨ta', h3, by rw [h4]; exact h1, h5 h2⟩

/-- the entry `lookup` finds is the one `setRevoked` turns into a marker. -/
theorem setRevoked_lookup (cur : List TA) (t now : Nat) (old : TA) (h : lookup cur t = some old) :
    { old with st := .revoked, firstSeen := now } ∈ setRevoked cur t now := by
  induction cur with
  | nil => simp [lookup] at h
  | cons x rest ih =>
    unfold lookup at h
    rw [List.find?_cons] at h
    unfold setRevoked
    split at h
    · next hx =>
      simp only [Option.some.injEq] at h
      subst h
      simp [hx]
    · next hx =>
      have hx' : (x.key.tag == t) = false := by simpa using hx
      simp only [hx', Bool.false_eq_true, if_false]
      exact List.mem_cons_of_mem _ (ih h)

/-- loop invariant: every revocation accepted so far is tombstoned in memory
and has its `StateRevoked` marker in `kskCurrent`. -/
def RevInv (l : Loop) : Prop := ∀ x ∈ l.revoked, x ∈ l.tomb ∧ HasMarker x l.cur

theorem procFetched_revInv {now : Nat} (staged : List Key) (revOnly : Bool) (s : Loop) (k : Key)
    (h : RevInv s) : RevInv (procFetched staged revOnly now s k) := by
  unfold procFetched
  split
  · exact h
  · split
    · exact h
    · split
      · split
        · next old hold =>
          split
          · next hc =>
            simp only [Bool.and_eq_true] at hc
            intro x hx
            rcases List.mem_append.mp hx with h1 | h1
            · obtain ⟨a, b⟩ := h x h1
              exact ⟨List.mem_append_left _ a, setRevoked_hasMarker _ _ _ b⟩
            · simp only [List.mem_singleton] at h1
              subst h1
              refine ⟨List.mem_append_right _ (by simp), ?_⟩
              exact ⟨_, setRevoked_lookup _ _ now old hold, sameKey_mat hc.1.2, by simp [isMarker]⟩
          · exact h
        · exact h
      · split
        · exact h
        · split
          · exact h
          · intro x hx
            obtain ⟨a, b⟩ := h x hx
            exact ⟨a, hasMarker_append _ b⟩

theorem foldl_procFetched_revInv {now : Nat} (staged : List Key) (revOnly : Bool) (ks : List Key) (s : Loop)
    (h : RevInv s) : RevInv (ks.foldl (procFetched staged revOnly now) s) := by
  induction ks generalizing s with
  | nil => simpa using h
  | cons k rest ih =>
    simp only [List.foldl_cons]
    exact ih _ (procFetched_revInv staged revOnly s k h)

theorem holdStep_marker {P : Params} {tags : List Nat} {now : Nat} {ta : TA}
    (h : isMarker ta.st = true) : holdStep P tags now ta = some ta := by
  unfold holdStep
  cases hst : ta.st <;> simp_all [isMarker]

theorem holdDown_hasMarker {m : Nat} (P : Params) (tags : List Nat) (now : Nat) (cur : List TA)
    (h : HasMarker m cur) : HasMarker m (holdDown P tags now cur) := by
  obtain ⟨ta, hta, h1, h2⟩ := h
  refine ⟨ta, ?_, h1, h2⟩
  unfold holdDown
  exact List.mem_filterMap.mpr ⟨ta, hta, holdStep_marker h2⟩

theorem procFetched_hasMarker {m now : Nat} (staged : List Key) (revOnly : Bool) (s : Loop) (k : Key)
    (h : HasMarker m s.cur) : HasMarker m (procFetched staged revOnly now s k).cur := by
  unfold procFetched
  repeat' split
  all_goals first | exact h | exact hasMarker_append _ h | exact setRevoked_hasMarker _ _ _ h

theorem procFetched_tomb_mono {now : Nat} (staged : List Key) (revOnly : Bool) (s : Loop) (k : Key) (m : Nat)
    (h : m ∈ s.tomb) : m ∈ (procFetched staged revOnly now s k).tomb := by
  unfold procFetched
  repeat' split
  all_goals first | exact h | exact List.mem_append_left _ h

theorem foldl_procFetched_keep {m now : Nat} (staged : List Key) (revOnly : Bool) (ks : List Key) (s : Loop) :
    (HasMarker m s.cur → HasMarker m (ks.foldl (procFetched staged revOnly now) s).cur) ∧
    (m ∈ s.tomb → m ∈ (ks.foldl (procFetched staged revOnly now) s).tomb) := by
  induction ks generalizing s with
  | nil => simp
  | cons k rest ih =>
    simp only [List.foldl_cons]
    exact ⟨fun h => (ih _).1 (procFetched_hasMarker staged revOnly s k h),
           fun h => (ih _).2 (procFetched_tomb_mono staged revOnly s k m h)⟩

theorem process_keep {m now : Nat} (P : Params) (f : Fetch) (revOnly : Bool) (cur : List TA) (tomb : List Nat) :
    (HasMarker m cur → HasMarker m (process P f revOnly now cur tomb).cur) ∧
    (m ∈ tomb → m ∈ (process P f revOnly now cur tomb).tomb) := by
  unfold process
  simp only
  have := foldl_procFetched_keep (m := m) (now := now)
    (stage cur tomb f (sortByTag (fetchedMap f.all))) revOnly
    (sortByTag (fetchedMap f.all)) { cur := cur, tomb := tomb }
  split
  · exact this
  · exact ⟨fun h => holdDown_hasMarker P _ now _ (this.1 h), this.2⟩

theorem process_revInv {now : Nat} (P : Params) (f : Fetch) (revOnly : Bool) (cur : List TA) (tomb : List Nat) :
    RevInv (process P f revOnly now cur tomb) := by
  unfold process
  simp only
  have := foldl_procFetched_revInv (now := now)
    (stage cur tomb f (sortByTag (fetchedMap f.all))) revOnly
    (sortByTag (fetchedMap f.all)) { cur := cur, tomb := tomb } (by intro x hx; cases hx)
  split
  · exact this
  · intro x hx
    obtain ⟨a, b⟩ := this x hx
    exact ⟨a, holdDown_hasMarker P _ now _ b⟩

theorem prepare_keep {m now : Nat} (cfg : List Key) (cur0 : List TA) (tomb0 : List Nat) :
    (HasMarker m cur0 → HasMarker m (prepare cfg cur0 tomb0 now).1) ∧
    (m ∈ migrate cur0 tomb0 → m ∈ (prepare cfg cur0 tomb0 now).2) := by
  unfold prepare
  exact ⟨fun h => mergeCfg_hasMarker cfg _ _ (precedence_hasMarker _ _ h),
         fun h => mergeCfg_tomb_mono cfg _ _ m h⟩

/-! ### the persistence tail -/

theorem finish_live_excl {m : Nat} (fl : Faults) (live1 : List Key) (a : Auth) (cand : List Key) (l : Loop)
    (h1 : ∀ k ∈ live1, k.mat ≠ m) (h2 : NoLive m l.cur) :
    ∀ k ∈ (finish fl live1 a cand l).live, k.mat ≠ m := by
  intro k hk
  unfold finish at hk
  simp only at hk
  split at hk
  · cases hk
  · split at hk
    · exact h1 k hk
    · refine candidate_excludes ?_ k hk
      split
      · exact h2
      · exact noLive_filter _ h2

/-- the (at most two) file replacements of a run, in order. -/
theorem finish_writes (fl : Faults) (live1 : List Key) (a : Auth) (cand : List Key) (l : Loop) :
    (finish fl live1 a cand l).writes =
      (if fl.tombWrite then [] else [Write.tomb l.tomb]) ++
      (if fl.stateWrite then [] else
        [Write.state (if fl.tombWrite then l.cur else l.cur.filter (fun ta => !isMarker ta.st))]) := rfl

/-- what a run does when there is no (usable) response: the prepared state. -/
theorem autoTA_none (P : Params) (cfg : List Key) (d : Disk) (live : List Key)
    (fl : Faults) (now : Nat) (tomb0 : List Nat) (hrt : readTomb d fl = .ok tomb0) :
    autoTA P cfg d live none fl now =
      { live := if !live.isEmpty then candidate (prepare cfg (readState d live fl now) tomb0 now).1 else live,
        outcome := .verr,
        cand := candidate (prepare cfg (readState d live fl now) tomb0 now).1,
        curFinal := (prepare cfg (readState d live fl now) tomb0 now).1,
        pre := some (if !live.isEmpty then candidate (prepare cfg (readState d live fl now) tomb0 now).1 else live) } := by
  unfold autoTA
  simp only [hrt]

/-- shape of a run: it either returns early (no write, no revocation, nothing
authenticated, live set = `[]` or the pre-fetch publication) or reaches the
persistence tail. -/
theorem autoTA_inv (P : Params) (cfg : List Key) (d : Disk) (live : List Key) (f : Option Fetch)
    (fl : Faults) (now : Nat) :
    ((autoTA P cfg d live f fl now).writes = [] ∧ (autoTA P cfg d live f fl now).revoked = [] ∧
      (autoTA P cfg d live f fl now).auth = .none ∧
      ((autoTA P cfg d live f fl now).live = [] ∨
        (autoTA P cfg d live f fl now).live = (autoTA P cfg d live none fl now).live)) ∨
    ∃ tomb0 f' a, readTomb d fl = .ok tomb0 ∧ f = some f' ∧
      verifyFetched (candidate (prepare cfg (readState d live fl now) tomb0 now).1) f' = a ∧ a ≠ .none ∧
      autoTA P cfg d live f fl now =
        finish fl (if !live.isEmpty then candidate (prepare cfg (readState d live fl now) tomb0 now).1 else live) a
          (candidate (prepare cfg (readState d live fl now) tomb0 now).1)
          (process P f' (a == .revOnly) now (prepare cfg (readState d live fl now) tomb0 now).1
            (prepare cfg (readState d live fl now) tomb0 now).2) := by
  cases hrt : readTomb d fl with
  | corrupt => left; unfold autoTA; simp [hrt]
  | ok tomb0 =>
    have hnone := autoTA_none P cfg d live fl now tomb0 hrt
    cases f with
    | none => left; rw [hnone]; simp
    | some f' =>
      rw [hnone]
      unfold autoTA
      simp only [hrt]
      generalize hpe : prepare cfg (readState d live fl now) tomb0 now = pr
      obtain ⟨cur, tomb⟩ := pr
      simp only
      cases hv : verifyFetched (candidate cur) f' with
      | none => left; simp
      | full =>
        right
        refine ⟨tomb0, f', .full, rfl, rfl, ?_, by simp, ?_⟩
        · rw [hpe]; exact hv
        · rw [hpe]
      | revOnly =>
        right
        refine ⟨tomb0, f', .revOnly, rfl, rfl, ?_, by simp, ?_⟩
        · rw [hpe]; exact hv
        · rw [hpe]

/-- a tombstone file that does not decode (garbage, truncated, zero length) —
like one that cannot be read — makes `readTombstones` fail closed. -/
theorem readTomb_undecodable (d : Disk) (fl : Faults) (h : d.tomb.undecodable = true) :
    readTomb d fl = .corrupt := by
  unfold readTomb
  split
  · rfl
  · cases htomb : d.tomb <;> simp_all [FileC.undecodable]

theorem readTomb_ok (d : Disk) (fl : Faults) (t : List Nat) (h : readTomb d fl = .ok t) :
    d.tomb.undecodable = false ∧ fl.tombRead = false := by
  unfold readTomb at h
  split at h
  · cases h
  · next hT =>
    refine ⟨?_, by simpa using hT⟩
    cases htomb : d.tomb <;> simp_all [FileC.undecodable]

/-! ### tracking the entries of `kskCurrent` through a run -/

theorem setRevoked_inv (cur : List TA) (t now : Nat) (old : TA) (h : lookup cur t = some old) :
    ∀ ta' ∈ setRevoked cur t now, ta' ∈ cur ∨ ta' = { old with st := .revoked, firstSeen := now } := by
  induction cur with
  | nil => simp [lookup] at h
  | cons x rest ih =>
    unfold lookup at h
    rw [List.find?_cons] at h
    unfold setRevoked
    split at h
    · next hx =>
      simp only [Option.some.injEq] at h
      subst h
      simp only [hx, if_true]
      intro ta' hta'
      rcases List.mem_cons.mp hta' with rfl | h1
      · right; rfl
      · left; exact List.mem_cons_of_mem _ h1
    · next hx =>
      have hx' : (x.key.tag == t) = false := by simpa using hx
      simp only [hx', Bool.false_eq_true, if_false]
      intro ta' hta'
      rcases List.mem_cons.mp hta' with rfl | h1
      · left; simp
      · rcases ih h ta' h1 with h2 | h2
        · left; exact List.mem_cons_of_mem _ h2
        · right; exact h2

/-- the three things one iteration of the fetched-key loop can do. -/
inductive ProcCase (staged : List Key) (revOnly : Bool) (now : Nat) (s : Loop) (k : Key) (s' : Loop) : Prop
  | same : s' = s → ProcCase staged revOnly now s k s'
  | revoke (old : TA) : lookup s.cur (tagSub128 k.tag) = some old → isTrusted old.st = true →
      sameKeyExceptRevoke old.key k = true → staged.contains k = true → k.revoke = true →
      s' = { cur := setRevoked s.cur (tagSub128 k.tag) now, tomb := s.tomb ++ [k.mat],
             revoked := s.revoked ++ [k.mat] } → ProcCase staged revOnly now s k s'
  | add : revOnly = false → k.revoke = false → lookup s.cur k.tag = none →
      s' = { s with cur := s.cur ++ [{ key := k, st := .addPend, firstSeen := now }] } →
      ProcCase staged revOnly now s k s'

theorem procFetched_cases (staged : List Key) (revOnly : Bool) (now : Nat) (s : Loop) (k : Key) :
    ProcCase staged revOnly now s k (procFetched staged revOnly now s k) := by
  unfold procFetched
  split
  · exact .same rfl
  · split
    · exact .same rfl
    · split
      · next hrev =>
        split
        · next old hold =>
          split
          · next hc =>
            simp only [Bool.and_eq_true] at hc
            exact .revoke old hold hc.1.1 hc.1.2 hc.2 hrev rfl
          · exact .same rfl
        · exact .same rfl
      · next hrev =>
        split
        · exact .same rfl
        · next hro =>
          split
          · exact .same rfl
          · next hl =>
            refine .add (by simpa using hro) (by simpa using hrev) ?_ rfl
            cases h : lookup s.cur k.tag with
            | none => rfl
            | some x => simp [h] at hl

/-- an entry predicate that holds initially, for every key the loop may add as
pending and for the revoked form of every entry it may revoke, holds for every
entry at the end of the loop. -/
theorem foldl_procFetched_all (R : TA → Prop) (staged : List Key) (revOnly : Bool) (now : Nat)
    (ks : List Key) (s : Loop)
    (hold : ∀ ta ∈ s.cur, R ta)
    (hrev : ∀ k ∈ ks, ∀ old : TA, R old → isTrusted old.st = true → sameKeyExceptRevoke old.key k = true →
      staged.contains k = true → k.revoke = true → R { old with st := .revoked, firstSeen := now })
    (hadd : ∀ k ∈ ks, revOnly = false → k.revoke = false → R { key := k, st := .addPend, firstSeen := now }) :
    ∀ ta ∈ (ks.foldl (procFetched staged revOnly now) s).cur, R ta := by
  induction ks generalizing s with
  | nil => simpa using hold
  | cons k rest ih =>
    simp only [List.foldl_cons]
    apply ih
    · rcases procFetched_cases staged revOnly now s k with h | ⟨old, hl, ht, hs, hc, hrv, h⟩ | ⟨hro, hr, _, h⟩
      · rw [h]; exact hold
      · rw [h]
        intro ta hta
        rcases setRevoked_inv _ _ now old hl ta hta with h1 | h1
        · exact hold ta h1
        · rw [h1]
          exact hrev k (by simp) old (hold old (lookup_mem hl).1) ht hs hc hrv
      · rw [h]
        intro ta hta
        rcases List.mem_append.mp hta with h1 | h1
        · exact hold ta h1
        · simp only [List.mem_singleton] at h1
          rw [h1]; exact hadd k (by simp) hro hr
    · intro k' hk'; exact hrev k' (List.mem_cons_of_mem _ hk')
    · intro k' hk'; exact hadd k' (List.mem_cons_of_mem _ hk')

/-- every material the loop tombstones is the material of a staged fetched key. -/
theorem foldl_procFetched_tomb (staged : List Key) (revOnly : Bool) (now : Nat) (ks : List Key) (s : Loop) :
    ∀ x ∈ (ks.foldl (procFetched staged revOnly now) s).tomb,
      x ∈ s.tomb ∨ ∃ k ∈ ks, staged.contains k = true ∧ k.mat = x := by
  induction ks generalizing s with
  | nil => intro x hx; exact Or.inl hx
  | cons k rest ih =>
    simp only [List.foldl_cons]
    intro x hx
    rcases ih _ x hx with h1 | ⟨k', hk', h2, h3⟩
    · rcases procFetched_cases staged revOnly now s k with h | ⟨old, _, _, _, hc, _, h⟩ | ⟨_, _, _, h⟩
      · rw [h] at h1; exact Or.inl h1
      · rw [h] at h1
        rcases List.mem_append.mp h1 with h4 | h4
        · exact Or.inl h4
        · simp only [List.mem_singleton] at h4
          exact Or.inr ⟨k, by simp, hc, h4.symm⟩
      · rw [h] at h1; exact Or.inl h1
    · exact Or.inr ⟨k', List.mem_cons_of_mem _ hk', h2, h3⟩

theorem mem_insertByTag (k x : Key) (l : List Key) : x ∈ insertByTag k l ↔ x = k ∨ x ∈ l := by
  induction l with
  | nil => simp [insertByTag]
  | cons y t ih =>
    unfold insertByTag
    split
    · simp
    · simp only [List.mem_cons, ih]
      constructor
      · rintro (h | h | h)
        · exact Or.inr (Or.inl h)
        · exact Or.inl h
        · exact Or.inr (Or.inr h)
      · rintro (h | h | h)
        · exact Or.inr (Or.inl h)
        · exact Or.inl h
        · exact Or.inr (Or.inr h)

theorem mem_sortByTag (x : Key) (l : List Key) : x ∈ sortByTag l ↔ x ∈ l := by
  induction l with
  | nil => simp [sortByTag]
  | cons y t ih =>
    unfold sortByTag
    rw [mem_insertByTag, ih]
    simp

theorem mem_fetchedMap (x : Key) (ks : List Key) (h : x ∈ fetchedMap ks) : x ∈ ks ∧ x.sep = true := by
  unfold fetchedMap at h
  suffices ∀ acc : List Key, x ∈ ks.foldl (fun acc k => if k.sep then acc.filter (fun y => y.tag != k.tag) ++ [k] else acc) acc →
      x ∈ acc ∨ (x ∈ ks ∧ x.sep = true) by
    rcases this [] h with h1 | h1
    · cases h1
    · exact h1
  clear h
  induction ks with
  | nil => intro acc h; exact Or.inl (by simpa using h)
  | cons k rest ih =>
    intro acc h
    simp only [List.foldl_cons] at h
    rcases ih _ h with h1 | ⟨h1, h2⟩
    · split at h1
      · next hsep =>
        rcases List.mem_append.mp h1 with h3 | h3
        · exact Or.inl (List.mem_filter.mp h3).1
        · simp only [List.mem_singleton] at h3
          subst h3
          exact Or.inr ⟨by simp, hsep⟩
      · exact Or.inl h1
    · exact Or.inr ⟨List.mem_cons_of_mem _ h1, h2⟩

/-- a fetched tag belongs to some SEP key of the answer. -/
theorem fetchedTag_origin (ks : List Key) (t : Nat)
    (h : t ∈ (sortByTag (fetchedMap ks)).map (·.tag)) : ∃ q ∈ ks, q.sep = true ∧ q.tag = t := by
  obtain ⟨q, hq, rfl⟩ := List.mem_map.mp h
  obtain ⟨h1, h2⟩ := mem_fetchedMap q ks ((mem_sortByTag q _).mp hq)
  exact ⟨q, h1, h2, rfl⟩

theorem seedFromLive_mem (live : List Key) (now : Nat) (ta : TA) (h : ta ∈ seedFromLive live now) :
    ta.key ∈ live ∧ (ta.st = .valid ∨ ta.st = .revoked) := by
  unfold seedFromLive at h
  suffices ∀ acc : List TA, ta ∈ live.foldl (fun acc k =>
      if k.sep then insertTA acc { key := k, st := if k.revoke then .revoked else .valid, firstSeen := now }
      else acc) acc → ta ∈ acc ∨ (ta.key ∈ live ∧ (ta.st = .valid ∨ ta.st = .revoked)) by
    rcases this [] h with h1 | h1
    · cases h1
    · exact h1
  clear h
  induction live with
  | nil => intro acc h; exact Or.inl (by simpa using h)
  | cons k rest ih =>
    intro acc h
    simp only [List.foldl_cons] at h
    rcases ih _ h with h1 | ⟨h1, h2⟩
    · split at h1
      · unfold insertTA at h1
        rcases List.mem_append.mp h1 with h3 | h3
        · exact Or.inl (List.mem_filter.mp h3).1
        · simp only [List.mem_singleton] at h3
          subst h3
          refine Or.inr ⟨by simp, ?_⟩
          simp only
          split
          · exact Or.inr rfl
          · exact Or.inl rfl
      · exact Or.inl h1
    · exact Or.inr ⟨List.mem_cons_of_mem _ h1, h2⟩

theorem mergeCfg_mem (cfg : List Key) (cur : List TA) (tomb : List Nat) (now : Nat) (ta : TA)
    (h : ta ∈ (mergeCfg cfg cur tomb now).1) : ta ∈ cur ∨ (ta.key ∈ cfg ∧ ta.st = .valid) := by
  unfold mergeCfg at h
  suffices ∀ acc : List TA × List Nat, ta ∈ (cfg.foldl (mergeStep now) acc).1 →
      ta ∈ acc.1 ∨ (ta.key ∈ cfg ∧ ta.st = .valid) from this (cur, tomb) h
  clear h
  induction cfg with
  | nil => intro acc h; exact Or.inl (by simpa using h)
  | cons k rest ih =>
    intro acc h
    simp only [List.foldl_cons] at h
    rcases ih _ h with h1 | ⟨h1, h2⟩
    · unfold mergeStep at h1
      repeat' split at h1
      all_goals first
        | exact Or.inl h1
        | (rcases List.mem_append.mp h1 with h3 | h3
           · exact Or.inl h3
           · simp only [List.mem_singleton] at h3
             subst h3
             exact Or.inr ⟨by simp, rfl⟩)
    · exact Or.inr ⟨List.mem_cons_of_mem _ h1, h2⟩

/-- where the entries of the prepared `kskCurrent` come from. -/
theorem prepare_mem (cfg : List Key) (cur0 : List TA) (tomb0 : List Nat) (now : Nat) (ta : TA)
    (h : ta ∈ (prepare cfg cur0 tomb0 now).1) : ta ∈ cur0 ∨ (ta.key ∈ cfg ∧ ta.st = .valid) := by
  unfold prepare at h
  rcases mergeCfg_mem cfg _ _ now ta h with h1 | h1
  · unfold precedence at h1
    exact Or.inl (List.mem_filter.mp h1).1
  · exact Or.inr h1

theorem candidate_mem (cur : List TA) (k : Key) (h : k ∈ candidate cur) :
    ∃ ta ∈ cur, ta.key = k ∧ isTrusted ta.st = true := by
  unfold candidate at h
  obtain ⟨ta, hta, rfl⟩ := List.mem_map.mp h
  obtain ⟨h1, h2⟩ := List.mem_filter.mp hta
  exact ⟨ta, h1, rfl, h2⟩

theorem mem_candidate (cur : List TA) (ta : TA) (h : ta ∈ cur) (ht : isTrusted ta.st = true) :
    ta.key ∈ candidate cur := by
  unfold candidate
  exact List.mem_map.mpr ⟨ta, List.mem_filter.mpr ⟨h, ht⟩, rfl⟩

theorem setRevoked_fwd (cur : List TA) (t now : Nat) (old ta : TA) (hl : lookup cur t = some old)
    (h : ta ∈ cur) : ta ∈ setRevoked cur t now ∨ ta = old := by
  induction cur with
  | nil => cases h
  | cons x rest ih =>
    unfold lookup at hl
    rw [List.find?_cons] at hl
    unfold setRevoked
    split at hl
    · next hx =>
      simp only [Option.some.injEq] at hl
      subst hl
      simp only [hx, if_true]
      rcases List.mem_cons.mp h with rfl | h1
      · exact Or.inr rfl
      · exact Or.inl (List.mem_cons_of_mem _ h1)
    · next hx =>
      have hx' : (x.key.tag == t) = false := by simpa using hx
      simp only [hx', Bool.false_eq_true, if_false]
      rcases List.mem_cons.mp h with rfl | h1
      · exact Or.inl (by simp)
      · rcases ih hl h1 with h2 | h2
        · exact Or.inl (List.mem_cons_of_mem _ h2)
        · exact Or.inr h2

/-- an entry survives the fetched-key loop unchanged unless the loop revoked
exactly it: a staged fetched key that is its REVOKE form. -/
theorem foldl_procFetched_fwd (staged : List Key) (revOnly : Bool) (now : Nat) (ks : List Key)
    (s : Loop) (ta : TA) (h : ta ∈ s.cur) :
    ta ∈ (ks.foldl (procFetched staged revOnly now) s).cur ∨
    ∃ k ∈ ks, k.revoke = true ∧ staged.contains k = true ∧ sameKeyExceptRevoke ta.key k = true ∧
      isTrusted ta.st = true := by
  induction ks generalizing s with
  | nil => exact Or.inl h
  | cons k rest ih =>
    simp only [List.foldl_cons]
    have lift : ∀ s', ta ∈ s'.cur →
        ta ∈ (rest.foldl (procFetched staged revOnly now) s').cur ∨
        ∃ k' ∈ k :: rest, k'.revoke = true ∧ staged.contains k' = true ∧ sameKeyExceptRevoke ta.key k' = true ∧
          isTrusted ta.st = true := by
      intro s' hs'
      rcases ih s' hs' with h1 | ⟨k', hk', h2⟩
      · exact Or.inl h1
      · exact Or.inr ⟨k', List.mem_cons_of_mem _ hk', h2⟩
    rcases procFetched_cases staged revOnly now s k with h1 | ⟨old, hl, ht, hs, hc, hr, h1⟩ | ⟨_, _, _, h1⟩
    · rw [h1]; exact lift s h
    · rcases setRevoked_fwd s.cur (tagSub128 k.tag) now old ta hl h with h2 | h2
      · rw [h1]; exact lift _ h2
      · subst h2
        exact Or.inr ⟨k, by simp, hr, hc, hs, ht⟩
    · rw [h1]; exact lift _ (List.mem_append_left _ h)

/-- what a staged key is: a REVOKE-flagged fetched key that validly self-signed the set. -/
theorem staged_spec (cur : List TA) (tomb : List Nat) (f : Fetch) (k : Key)
    (h : (stage cur tomb f (sortByTag (fetchedMap f.all))).contains k = true) :
    k ∈ f.all ∧ selfSigned f k = true := by
  have hk : k ∈ stage cur tomb f (sortByTag (fetchedMap f.all)) := by simpa using h
  unfold stage at hk
  obtain ⟨h1, h2⟩ := List.mem_filter.mp hk
  refine ⟨(mem_fetchedMap k _ ((mem_sortByTag k _).mp h1)).1, ?_⟩
  unfold stageOne at h2
  simp only [Bool.and_eq_true] at h2
  obtain ⟨_, h3⟩ := h2
  split at h3
  · simp only [Bool.and_eq_true] at h3; exact h3.2
  · cases h3

/-- the three publication outcomes of the persistence tail. -/
theorem finish_live_cases (fl : Faults) (live1 : List Key) (a : Auth) (cand : List Key) (l : Loop) :
    (finish fl live1 a cand l).live = [] ∨
    ((finish fl live1 a cand l).live = live1 ∧ fl.tombWrite = true ∧ fl.stateWrite = true) ∨
    ((finish fl live1 a cand l).live =
        candidate (if fl.tombWrite then l.cur else l.cur.filter (fun ta => !isMarker ta.st)) ∧
      ¬(fl.tombWrite = true ∧ fl.stateWrite = true)) := by
  unfold finish
  simp only
  cases fl.tombWrite <;> cases fl.stateWrite <;> cases l.revoked <;> simp

/-- a trusted entry of the final `kskCurrent` is in whatever state is written
and in the candidate list built from it. -/
theorem mem_final_candidate (fl : Faults) (l : Loop) (ta : TA) (h : ta ∈ l.cur) (ht : isTrusted ta.st = true) :
    ta.key ∈ candidate (if fl.tombWrite then l.cur else l.cur.filter (fun ta => !isMarker ta.st)) := by
  apply mem_candidate _ ta _ ht
  split
  · exact h
  · exact List.mem_filter.mpr ⟨h, by simp [trusted_not_marker ht]⟩

theorem final_sub (fl : Faults) (l : Loop) (ta : TA)
    (h : ta ∈ (if fl.tombWrite then l.cur else l.cur.filter (fun ta => !isMarker ta.st))) : ta ∈ l.cur := by
  split at h
  · exact h
  · exact (List.mem_filter.mp h).1

theorem finish_live_not_both (fl : Faults) (live1 : List Key) (a : Auth) (cand : List Key) (l : Loop)
    (h : ¬(fl.tombWrite = true ∧ fl.stateWrite = true)) :
    (finish fl live1 a cand l).live =
      candidate (if fl.tombWrite then l.cur else l.cur.filter (fun ta => !isMarker ta.st)) := by
  unfold finish
  revert h
  cases fl.tombWrite <;> cases fl.stateWrite <;> simp

theorem finish_state_write (fl : Faults) (live1 : List Key) (a : Auth) (cand : List Key) (l : Loop)
    (tas : List TA) (h : Write.state tas ∈ (finish fl live1 a cand l).writes) :
    tas = (if fl.tombWrite then l.cur else l.cur.filter (fun ta => !isMarker ta.st)) := by
  rw [finish_writes] at h
  rcases List.mem_append.mp h with h1 | h1
  · split at h1
    · cases h1
    · simp at h1
  · split at h1
    · cases h1
    · simpa using h1

/-- did the state-file replacement of a run that reached its persistence tail
land, given the write faults and the crash point? -/
def stateLanded (fl : Faults) (crash : Option Nat) : Bool :=
  !fl.stateWrite && (match crash with
    | none => true
    | some k => decide ((if fl.tombWrite then 1 else 2) ≤ k))

def writesKept (ws : List Write) : Option Nat → List Write
  | none => ws
  | some k => ws.take k

/-- the process after a run: alive with the published set, or dead. -/
def procKept (live : List Key) : Option Nat → Option (List Key)
  | none => some live
  | some _ => none

theorem step_run_eq (P : Params) (cfg : List Key) (s : Sys) (f : Option Fetch) (fl : Faults)
    (crash : Option Nat) :
    step P cfg s (.run f fl crash) =
      { s with disk := applyWrites s.disk (writesKept (autoTA P cfg s.disk (startLive cfg s) f fl s.now).writes crash),
               proc := procKept (autoTA P cfg s.disk (startLive cfg s) f fl s.now).live crash } := by
  cases crash <;> rfl

theorem finish_disk_state (fl : Faults) (live1 : List Key) (a : Auth) (cand : List Key) (l : Loop)
    (d : Disk) (crash : Option Nat) :
    (applyWrites d (writesKept (finish fl live1 a cand l).writes crash)).state =
      if stateLanded fl crash then
        .ok (if fl.tombWrite then l.cur else l.cur.filter (fun ta => !isMarker ta.st))
      else d.state := by
  rw [finish_writes]
  unfold stateLanded writesKept
  cases crash with
  | none => cases fl.tombWrite <;> cases fl.stateWrite <;> simp [applyWrites, applyWrite]
  | some k =>
    cases fl.tombWrite <;> cases fl.stateWrite <;> rcases k with _ | _ | k <;>
      simp [applyWrites, applyWrite]

/-- every material the loop revokes is the material of a staged fetched key. -/
theorem foldl_procFetched_revoked (staged : List Key) (revOnly : Bool) (now : Nat) (ks : List Key) (s : Loop) :
    ∀ x ∈ (ks.foldl (procFetched staged revOnly now) s).revoked,
      x ∈ s.revoked ∨ ∃ k ∈ ks, staged.contains k = true ∧ k.mat = x := by
  induction ks generalizing s with
  | nil => intro x hx; exact Or.inl hx
  | cons k rest ih =>
    simp only [List.foldl_cons]
    intro x hx
    rcases ih _ x hx with h1 | ⟨k', hk', h2, h3⟩
    · rcases procFetched_cases staged revOnly now s k with h | ⟨old, _, _, _, hc, _, h⟩ | ⟨_, _, _, h⟩
      · rw [h] at h1; exact Or.inl h1
      · rw [h] at h1
        rcases List.mem_append.mp h1 with h4 | h4
        · exact Or.inl h4
        · simp only [List.mem_singleton] at h4
          exact Or.inr ⟨k, by simp, hc, h4.symm⟩
      · rw [h] at h1; exact Or.inl h1
    · exact Or.inr ⟨k', List.mem_cons_of_mem _ hk', h2, h3⟩

/-- everything `stageRevocationSelfSignatures` checked for a staged key. -/
theorem staged_full (cur : List TA) (tomb : List Nat) (f : Fetch) (k : Key)
    (h : (stage cur tomb f (sortByTag (fetchedMap f.all))).contains k = true) :
    k ∈ f.all ∧ k.revoke = true ∧ selfSigned f k = true ∧
    ∃ old ∈ cur, isTrusted old.st = true ∧ sameKeyExceptRevoke old.key k = true := by
  have hk : k ∈ stage cur tomb f (sortByTag (fetchedMap f.all)) := by simpa using h
  unfold stage at hk
  obtain ⟨h1, h2⟩ := List.mem_filter.mp hk
  unfold stageOne at h2
  simp only [Bool.and_eq_true] at h2
  obtain ⟨⟨⟨hr, _⟩, _⟩, h3⟩ := h2
  refine ⟨(mem_fetchedMap k _ ((mem_sortByTag k _).mp h1)).1, hr, ?_⟩
  split at h3
  · next old hold =>
    simp only [Bool.and_eq_true] at h3
    exact ⟨h3.2, old, (lookup_mem hold).1, h3.1.1, h3.1.2⟩
  · cases h3

theorem process_revoked (P : Params) (f : Fetch) (revOnly : Bool) (now : Nat) (cur : List TA) (tomb : List Nat) :
    ∀ x ∈ (process P f revOnly now cur tomb).revoked,
      ∃ k ∈ f.all, k.revoke = true ∧ selfSigned f k = true ∧ k.mat = x ∧
        ∃ old ∈ cur, isTrusted old.st = true ∧ sameKeyExceptRevoke old.key k = true := by
  intro x hx
  have hrev : (process P f revOnly now cur tomb).revoked =
      ((sortByTag (fetchedMap f.all)).foldl
        (procFetched (stage cur tomb f (sortByTag (fetchedMap f.all))) revOnly now)
        { cur := cur, tomb := tomb }).revoked := by
    unfold process
    simp only
    split <;> rfl
  rw [hrev] at hx
  rcases foldl_procFetched_revoked _ revOnly now _ _ x hx with h | ⟨k, _, hc, hm⟩
  · cases h
  · obtain ⟨h1, h2, h3, old, h4, h5, h6⟩ := staged_full cur tomb f k hc
    exact ⟨k, h1, h2, h3, hm, old, h4, h5, h6⟩

/-- `k` may authenticate a fetched answer: a SEP key of the candidate set
(Valid or Missing anchor, never tombstoned), or a REVOKE-flagged DNSKEY of the
answer that is such an anchor with only the REVOKE bit toggled. -/
def Anchoring (cand : List Key) (f : Fetch) (k : Key) : Prop :=
  (k ∈ cand ∧ k.sep = true) ∨
  (k ∈ f.all ∧ k.revoke = true ∧ ∃ c ∈ cand, c.sep = true ∧ sameKeyExceptRevoke c k = true)

/-- `coveredBy`: every RRset of the answer section has a valid RRSIG by a key of `ks`. -/
theorem coveredBy_spec (f : Fetch) (ks : List Key) (h : coveredBy f ks = true) :
    (f.keys ≠ [] → ∃ k ∈ ks, signedBy f.signers k = true) ∧
    ∀ e ∈ f.extras, ∃ k ∈ ks, signedBy e.signers k = true := by
  unfold coveredBy at h
  simp only [Bool.and_eq_true, Bool.or_eq_true, List.all_eq_true] at h
  refine ⟨fun hne => ?_, fun e he => List.any_eq_true.mp (h.2 e he)⟩
  rcases h.1 with h1 | h1
  · exact absurd (List.isEmpty_iff.mp h1) hne
  · exact List.any_eq_true.mp h1

/-- a starting process trusts only configured keys ... -/
theorem startupKeys_sub (cfg : List Key) (d : Disk) (fl : Faults) (k : Key) (h : k ∈ startupKeys cfg d fl) : k ∈ cfg := by
  unfold startupKeys at h
  split at h
  · cases h
  · cases htomb : d.tomb <;> simp only [htomb] at h
    · exact (List.mem_filter.mp h).1
    · cases h
    · cases h
    · exact (List.mem_filter.mp h).1

/-! ### completeness of the revocation path -/

theorem lookup_append_other (cur : List TA) (x : TA) (t : Nat) (h : x.key.tag ≠ t) :
    lookup (cur ++ [x]) t = lookup cur t := by
  unfold lookup
  rw [List.find?_append]
  cases hf : List.find? (fun ta => ta.key.tag == t) cur with
  | some y => simp
  | none =>
    have : (x.key.tag == t) = false := by simpa using h
    simp [List.find?_cons, this]

/-- a fetched key that carries no REVOKE bit and shares no tag / material with the
revocation under way leaves everything that revocation looks at untouched. -/
theorem procFetched_bystander (staged : List Key) (ro : Bool) (now : Nat) (s : Loop) (q k : Key)
    (hq : q.revoke = false) (h1 : q.tag ≠ tagSub128 k.tag) (h2 : q.tag ≠ k.tag) :
    (procFetched staged ro now s q).tomb = s.tomb ∧
    (procFetched staged ro now s q).revoked = s.revoked ∧
    lookup (procFetched staged ro now s q).cur (tagSub128 k.tag) = lookup s.cur (tagSub128 k.tag) ∧
    sameAsExisting (procFetched staged ro now s q).cur k = sameAsExisting s.cur k := by
  rcases procFetched_cases staged ro now s q with h | ⟨_, _, _, _, _, hr, _⟩ | ⟨_, _, _, h⟩
  · rw [h]; exact ⟨rfl, rfl, rfl, rfl⟩
  · rw [hq] at hr; cases hr
  · rw [h]
    refine ⟨rfl, rfl, lookup_append_other _ _ _ h1, ?_⟩
    unfold sameAsExisting
    rw [lookup_append_other _ _ _ h2]

/-- **the loop honours the revocation**: if, when the loop starts, the staged
REVOKE-flagged key `k` matches a Valid or Missing entry at `tag - 128` and no
other fetched key interferes (none carries the REVOKE bit, none has one of the
two tags), the material of `k` is among the revocations of the run. -/
theorem foldl_procFetched_honours (staged : List Key) (ro : Bool) (now : Nat) (ks : List Key) (s : Loop)
    (k : Key) (old : TA) (hk : k ∈ ks)
    (hothers : ∀ q ∈ ks, q ≠ k → q.revoke = false ∧ q.tag ≠ tagSub128 k.tag ∧ q.tag ≠ k.tag)
    (hr : k.revoke = true) (ht : s.tomb.contains k.mat = false) (hne : sameAsExisting s.cur k = false)
    (hl : lookup s.cur (tagSub128 k.tag) = some old) (hst : isTrusted old.st = true)
    (hs : sameKeyExceptRevoke old.key k = true) (hstaged : staged.contains k = true) :
    k.mat ∈ (ks.foldl (procFetched staged ro now) s).revoked := by
  induction ks generalizing s with
  | nil => cases hk
  | cons q rest ih =>
    simp only [List.foldl_cons]
    by_cases hqk : q = k
    · subst hqk
      have hin : q.mat ∈ (procFetched staged ro now s q).revoked := by
        unfold procFetched
        simp only [ht, hne, hr, hl, hst, hs, hstaged, Bool.false_eq_true, if_false, if_true, Bool.and_self]
        exact List.mem_append_right _ (by simp)
      -- revocations only accumulate
      have mono : ∀ (l : List Key) (s' : Loop), q.mat ∈ s'.revoked →
          q.mat ∈ (l.foldl (procFetched staged ro now) s').revoked := by
        intro l
        induction l with
        | nil => intro s' h; exact h
        | cons a t iht =>
          intro s' h
          simp only [List.foldl_cons]
          apply iht
          rcases procFetched_cases staged ro now s' a with h1 | ⟨_, _, _, _, _, _, h1⟩ | ⟨_, _, _, h1⟩
          · rw [h1]; exact h
          · rw [h1]; exact List.mem_append_left _ h
          · rw [h1]; exact h
      exact mono rest _ hin
    · obtain ⟨a1, a2, a3⟩ := hothers q (by simp) hqk
      obtain ⟨b1, _, b3, b4⟩ := procFetched_bystander staged ro now s q k a1 a2 a3
      apply ih
      · rcases List.mem_cons.mp hk with h | h
        · exact absurd h.symm hqk
        · exact h
      · intro q' hq' hne'; exact hothers q' (List.mem_cons_of_mem _ hq') hne'
      · rw [b1]; exact ht
      · rw [b4]; exact hne
      · rw [b3]; exact hl

/-- a SEP key of the answer whose tag no other SEP key of the answer has is in `kskFetched`. -/
theorem mem_fetchedMap_of (ks : List Key) (k : Key) (hk : k ∈ ks) (hsep : k.sep = true)
    (huniq : ∀ q ∈ ks, q.sep = true → q ≠ k → q.tag ≠ k.tag) : k ∈ fetchedMap ks := by
  unfold fetchedMap
  suffices ∀ acc : List Key, (k ∈ acc ∨ k ∈ ks) →
      k ∈ ks.foldl (fun acc q => if q.sep then acc.filter (fun y => y.tag != q.tag) ++ [q] else acc) acc from
    this [] (Or.inr hk)
  clear hk
  induction ks with
  | nil => intro acc h; rcases h with h | h; exact h; cases h
  | cons q rest ih =>
    intro acc h
    simp only [List.foldl_cons]
    apply ih (fun q' hq' => huniq q' (List.mem_cons_of_mem _ hq'))
    by_cases hqk : q = k
    · subst hqk
      left
      simp [hsep]
    · rcases h with h | h
      · left
        by_cases hqs : q.sep = true
        · have := huniq q (by simp) hqs hqk
          simp only [hqs, if_true]
          exact List.mem_append_left _ (List.mem_filter.mpr ⟨h, by simpa using (fun e => this e.symm)⟩)
        · simp only [hqs, Bool.false_eq_true, if_false]; exact h
      · rcases List.mem_cons.mp h with h' | h'
        · exact absurd h'.symm hqk
        · exact Or.inr h'

/-! ### no REVOKE-flagged key is ever tracked as pending or trusted -/

/-- entry predicate: anything but a revocation marker carries no REVOKE bit. -/
def CleanEntry (ta : TA) : Prop := isMarker ta.st = false → ta.key.revoke = false

theorem seedFromLive_clean (live : List Key) (now : Nat) : ∀ ta ∈ seedFromLive live now, CleanEntry ta := by
  unfold seedFromLive
  suffices ∀ acc : List TA, (∀ x ∈ acc, CleanEntry x) → ∀ x ∈ live.foldl (fun acc k =>
      if k.sep then insertTA acc { key := k, st := if k.revoke then .revoked else .valid, firstSeen := now }
      else acc) acc, CleanEntry x from this [] (by intro x hx; cases hx)
  induction live with
  | nil => intro acc hacc x hx; exact hacc x (by simpa using hx)
  | cons k rest ih =>
    intro acc hacc
    simp only [List.foldl_cons]
    apply ih
    intro x hx
    split at hx
    · unfold insertTA at hx
      rcases List.mem_append.mp hx with h1 | h1
      · exact hacc x (List.mem_filter.mp h1).1
      · simp only [List.mem_singleton] at h1
        subst h1
        intro hnm
        cases hr : k.revoke with
        | false => rfl
        | true => simp [hr, isMarker] at hnm
    · exact hacc x hx

theorem mergeCfg_clean (cfg : List Key) (cur : List TA) (tomb : List Nat) (now : Nat)
    (hcur : ∀ x ∈ cur, CleanEntry x) : ∀ x ∈ (mergeCfg cfg cur tomb now).1, CleanEntry x := by
  unfold mergeCfg
  suffices ∀ acc : List TA × List Nat, (∀ x ∈ acc.1, CleanEntry x) →
      ∀ x ∈ (cfg.foldl (mergeStep now) acc).1, CleanEntry x from this (cur, tomb) hcur
  induction cfg with
  | nil => intro acc hacc x hx; exact hacc x (by simpa using hx)
  | cons k rest ih =>
    intro acc hacc
    simp only [List.foldl_cons]
    apply ih
    intro x hx
    unfold mergeStep at hx
    split at hx
    · exact hacc x hx
    · split at hx
      · exact hacc x hx
      · split at hx
        · exact hacc x hx
        · split at hx
          · exact hacc x hx
          · next hr =>
            rcases List.mem_append.mp hx with h3 | h3
            · exact hacc x h3
            · simp only [List.mem_singleton] at h3
              subst h3
              intro _
              simpa using hr

theorem prepare_clean (cfg : List Key) (cur0 : List TA) (tomb0 : List Nat) (now : Nat)
    (h : ∀ x ∈ cur0, CleanEntry x) : ∀ x ∈ (prepare cfg cur0 tomb0 now).1, CleanEntry x := by
  unfold prepare
  apply mergeCfg_clean
  intro x hx
  unfold precedence at hx
  exact h x (List.mem_filter.mp hx).1

theorem holdStep_clean {P : Params} {tags : List Nat} {now : Nat} {ta ta' : TA}
    (h : holdStep P tags now ta = some ta') (hc : CleanEntry ta) : CleanEntry ta' := by
  obtain ⟨hk, hm⟩ := holdStep_key h
  intro hnm
  rw [hk]
  apply hc
  cases hmk : isMarker ta.st with
  | false => rfl
  | true => rw [hm hmk] at hnm; rw [hmk] at hnm; cases hnm

theorem process_clean (P : Params) (f : Fetch) (ro : Bool) (now : Nat) (cur : List TA) (tomb : List Nat)
    (h : ∀ x ∈ cur, CleanEntry x) : ∀ x ∈ (process P f ro now cur tomb).cur, CleanEntry x := by
  have hloop : ∀ x ∈ ((sortByTag (fetchedMap f.all)).foldl
      (procFetched (stage cur tomb f (sortByTag (fetchedMap f.all))) ro now) { cur := cur, tomb := tomb }).cur,
      CleanEntry x := by
    apply foldl_procFetched_all
    · exact h
    · intro k _ old _ _ _ _ _ hnm; simp [isMarker] at hnm
    · intro k _ _ hr _; exact hr
  unfold process
  simp only
  split
  · exact hloop
  · intro x hx
    simp only at hx
    unfold holdDown at hx
    obtain ⟨t0, ht0, hs⟩ := List.mem_filterMap.mp hx
    exact holdStep_clean hs (hloop t0 ht0)

theorem candidate_clean (cur : List TA) (h : ∀ x ∈ cur, CleanEntry x) : ∀ k ∈ candidate cur, k.revoke = false := by
  intro k hk
  obtain ⟨ta, hta, rfl, htr⟩ := candidate_mem cur k hk
  exact h ta hta (trusted_not_marker htr)

theorem startupKeys_clean (cfg : List Key) (d : Disk) (fl : Faults) : ∀ k ∈ startupKeys cfg d fl, k.revoke = false := by
  intro k hk
  unfold startupKeys at hk
  split at hk
  · cases hk
  · cases htomb : d.tomb <;> simp only [htomb] at hk
    · have := (List.mem_filter.mp hk).2
      simp only [Bool.not_eq_eq_eq_not, Bool.not_true, Bool.or_eq_false_iff] at this
      exact this.2
    · cases hk
    · cases hk
    · have := (List.mem_filter.mp hk).2
      simp only [Bool.not_eq_eq_eq_not, Bool.not_true, Bool.or_eq_false_iff] at this
      exact this.2

/-! ## Specification vocabulary of `Props/C09.lean` and the lemmas about it

`Barred`, `HistOK` (revocation records), `RevocationOf` (what a revocation-only
set may complete), `Ghost` / `ghostStep` / `HoldInv` (the RFC 5011 add
hold-down bookkeeping) are the notions the property theorems are stated with;
they live here so that `Props/C09.lean` holds property theorems only. -/

/-- The disk bars material `m` from ever being trusted: its revocation is
recorded in the tombstone file, or by a `StateRevoked`/`StateRemoved` marker in
the state file — or the tombstone file does not decode (corrupt or zero
length: then nothing is trusted). -/
def Barred (d : Disk) (m : Nat) : Prop :=
  d.tomb.undecodable = true ∨ (∃ ms, d.tomb = .ok ms ∧ m ∈ ms) ∨
  (∃ tas, d.state = .ok tas ∧ ∃ ta ∈ tas, ta.key.mat = m ∧ isMarker ta.st = true)

/-- every marker of the state file is backed by the tombstone file. -/
def MarkersCovered (d : Disk) : Prop :=
  ∀ tas, d.state = .ok tas → ∀ ta ∈ tas, isMarker ta.st = true →
    d.tomb.undecodable = true ∨ ∃ ms, d.tomb = .ok ms ∧ ta.key.mat ∈ ms

/-- Read assumption of the `_partial` permanence theorems: the state file is
not lost (read fault / corruption) while it holds the only record of a
revocation. Tombstone read faults, write faults, crashes, restarts, tombstone
corruption and any fetched data are unrestricted. -/
def EvOK (s : Sys) : Ev → Prop
  | .run _ fl _ => fl.stateRead = true → MarkersCovered s.disk
  | .damage .state => MarkersCovered s.disk
  | .damage .stateEmpty => MarkersCovered s.disk
  | .boot fl => fl.stateRead = true → MarkersCovered s.disk
  | _ => True

def HistOK (P : Params) (cfg : List Key) : Sys → List Ev → Prop
  | _, [] => True
  | s, e :: es => EvOK s e ∧ HistOK P cfg (step P cfg s e) es

theorem histOK_append (P : Params) (cfg : List Key) (s : Sys) (e1 e2 : List Ev) :
    HistOK P cfg s (e1 ++ e2) ↔ HistOK P cfg s e1 ∧ HistOK P cfg (runHist P cfg s e1) e2 := by
  induction e1 generalizing s with
  | nil => simp [HistOK, runHist]
  | cons e rest ih =>
    simp only [List.cons_append, HistOK, runHist, List.foldl_cons]
    rw [ih]
    simp [runHist, and_assoc]

/-- the fetched set carries the revocation of anchor `c`: the REVOKE form of
`c` (same material, only the REVOKE bit differs) is in the set and validly
self-signed it. -/
def RevocationOf (f : Fetch) (c : Key) : Prop :=
  ∃ k' ∈ f.all, k'.revoke = true ∧ sameKeyExceptRevoke c k' = true ∧ selfSigned f k' = true

/-- the key tags `kskFetched` is indexed by. -/
def fetchedTags (f : Fetch) : List Nat := (sortByTag (fetchedMap f.all)).map (·.tag)

def thirtyDays : Nat := 30 * 86400

/-- Specification-side bookkeeping (not part of the implementation): for every
key, the start of its current streak of presence in fully authenticated
refreshes whose outcome was recorded, and whether it has ever been present in
a fully authenticated refresh with a streak older than 30 days. -/
structure Ghost where
  since : Key → Option Nat
  earned : Key → Bool

def Ghost.init : Ghost := { since := fun _ => none, earned := fun _ => false }

def sinceAfter (g : Ghost) (f : Fetch) (now : Nat) : Key → Option Nat :=
  fun k => if k ∈ f.all then (match g.since k with | some t0 => some t0 | none => some now) else none

def earnedAfter (g : Ghost) (f : Fetch) (now : Nat) : Key → Bool :=
  fun k => g.earned k || (decide (k ∈ f.all) &&
    (match g.since k with | some t0 => decide (now - t0 > thirtyDays) | none => false))

/-- Only refreshes authenticated by a trusted NON-revoked anchor count
(`auth = full`). A key earns trust when it is in such a refresh and its streak
started more than 30 days earlier; its streak continues when it is in the set,
and is broken when the set omits it (recorded only if the state-file
replacement landed: otherwise the implementation keeps no trace of the run). -/
def ghostStep (P : Params) (cfg : List Key) (s : Sys) (g : Ghost) : Ev → Ghost
  | .run (some f) fl crash =>
    if (runResult P cfg s (some f) fl).auth = .full then
      { earned := earnedAfter g f s.now,
        since := if stateLanded fl crash then sinceAfter g f s.now else g.since }
    else g
  | _ => g

def runHistG (P : Params) (cfg : List Key) : Sys × Ghost → List Ev → Sys × Ghost
  | sg, [] => sg
  | (s, g), e :: es => runHistG P cfg (step P cfg s e, ghostStep P cfg s g e) es

/-- hypothesis of the `_partial` theorem: no fetched SEP key has the key tag
of a different key that is pending in the state file. -/
def NoPendCollision (s : Sys) : Ev → Prop
  | .run (some f) _ _ => ∀ tas, s.disk.state = .ok tas → ∀ ta ∈ tas, ta.st = .addPend →
      ∀ q ∈ f.all, q.sep = true → q.tag = ta.key.tag → ta.key ∈ f.all
  | _ => True

def HistNC (P : Params) (cfg : List Key) : Sys → List Ev → Prop
  | _, [] => True
  | s, e :: es => NoPendCollision s e ∧ HistNC P cfg (step P cfg s e) es

def EntryOK (cfg : List Key) (g : Ghost) (ta : TA) : Prop :=
  (ta.st = .addPend → ∃ t0, g.since ta.key = some t0 ∧ t0 ≤ ta.firstSeen) ∧
  (isTrusted ta.st = true → ta.key ∈ cfg ∨ g.earned ta.key = true)

/-- invariant tying the implementation state to the bookkeeping. -/
structure HoldInv (cfg : List Key) (s : Sys) (g : Ghost) : Prop where
  disk : ∀ tas, s.disk.state = .ok tas → ∀ ta ∈ tas, EntryOK cfg g ta
  live : ∀ l, s.proc = some l → ∀ k ∈ l, k ∈ cfg ∨ g.earned k = true
  clock : ∀ k t0, g.since k = some t0 → t0 ≤ s.now

theorem earnedAfter_mono (g : Ghost) (f : Fetch) (now : Nat) (k : Key) (h : g.earned k = true) :
    earnedAfter g f now k = true := by simp [earnedAfter, h]

/-- the hold-down loop of a fully authenticated run, entry by entry. -/
theorem holdStep_full (P : Params) (hP : thirtyDays ≤ P.addHold) (cfg : List Key) (g : Ghost) (f : Fetch)
    (now : Nat) (hclock : ∀ k t0, g.since k = some t0 → t0 ≤ now) (ta ta' : TA)
    (hnc : ta.st = .addPend → ta.key.tag ∈ fetchedTags f → ta.key ∈ f.all)
    (hpend : ta.st = .addPend → (∃ t0, g.since ta.key = some t0 ∧ t0 ≤ ta.firstSeen) ∨
      (ta.firstSeen = now ∧ ta.key ∈ f.all))
    (htr : isTrusted ta.st = true → ta.key ∈ cfg ∨ g.earned ta.key = true)
    (hs : holdStep P (fetchedTags f) now ta = some ta') :
    (isTrusted ta'.st = true → ta'.key ∈ cfg ∨ earnedAfter g f now ta'.key = true) ∧
    (ta'.st = .addPend → ∃ t0, sinceAfter g f now ta'.key = some t0 ∧ t0 ≤ ta'.firstSeen) := by
  have lift : ta.key ∈ cfg ∨ g.earned ta.key = true → ta.key ∈ cfg ∨ earnedAfter g f now ta.key = true := by
    rintro (h | h)
    · exact Or.inl h
    · exact Or.inr (earnedAfter_mono g f now _ h)
  unfold holdStep at hs
  by_cases hmem : (fetchedTags f).contains ta.key.tag = true
  · have hm : ta.key.tag ∈ fetchedTags f := by simpa using hmem
    simp only [hmem, Bool.not_true, Bool.false_eq_true, if_false, Option.some.injEq] at hs
    cases hst : ta.st with
    | addPend =>
      have hin := hnc hst hm
      by_cases hold : now - ta.firstSeen > P.addHold
      · -- promoted: the streak is older than 30 days
        simp [hst, hold] at hs
        subst hs
        refine ⟨fun _ => Or.inr ?_, by simp⟩
        rcases hpend hst with ⟨t0, h1, h2⟩ | ⟨h1, _⟩
        · simp only [earnedAfter, h1, hin, decide_true, Bool.true_and, Bool.or_eq_true, decide_eq_true_eq]
          right
          unfold thirtyDays at hP ⊢
          omega
        · rw [h1] at hold; omega
      · simp [hst, hold] at hs
        subst hs
        refine ⟨by simp [hst, isTrusted], fun _ => ?_⟩
        rcases hpend hst with ⟨t0, h1, h2⟩ | ⟨h1, _⟩
        · exact ⟨t0, by simp [sinceAfter, hin, h1], h2⟩
        · cases hsn : g.since ta.key with
          | none => exact ⟨now, by simp [sinceAfter, hin, hsn], by omega⟩
          | some t0 => exact ⟨t0, by simp [sinceAfter, hin, hsn], by have := hclock _ _ hsn; omega⟩
    | valid =>
      simp [hst] at hs; subst hs
      exact ⟨fun _ => lift (htr (by simp [hst, isTrusted])), by simp [hst]⟩
    | missing =>
      simp [hst] at hs; subst hs
      exact ⟨fun _ => lift (htr (by simp [hst, isTrusted])), by simp⟩
    | start => simp [hst] at hs; subst hs; simp [hst, isTrusted]
    | revoked => simp [hst] at hs; subst hs; simp [hst, isTrusted]
    | removed => simp [hst] at hs; subst hs; simp [hst, isTrusted]
  · have hmem' : (fetchedTags f).contains ta.key.tag = false := by simpa using hmem
    simp only [hmem', Bool.not_false, if_true] at hs
    cases hst : ta.st with
    | addPend => simp [hst] at hs
    | start => simp [hst] at hs
    | valid =>
      simp [hst] at hs; subst hs
      exact ⟨fun _ => lift (htr (by simp [hst, isTrusted])), by simp⟩
    | missing =>
      simp only [hst] at hs
      split at hs
      · cases hs
      · simp only [Option.some.injEq] at hs; subst hs
        exact ⟨fun _ => lift (htr (by simp [hst, isTrusted])), by simp [hst]⟩
    | revoked => simp [hst] at hs; subst hs; simp [hst, isTrusted]
    | removed => simp [hst] at hs; subst hs; simp [hst, isTrusted]

/-- revocation-only run: every entry still satisfies the invariant for the
unchanged bookkeeping. -/
theorem process_revOnly_entries (P : Params) (cfg : List Key) (g : Ghost) (f : Fetch) (now : Nat)
    (cur : List TA) (tomb : List Nat) (h : ∀ ta ∈ cur, EntryOK cfg g ta) :
    ∀ ta ∈ (process P f true now cur tomb).cur, EntryOK cfg g ta := by
  unfold process
  simp only [if_true]
  apply foldl_procFetched_all
  · exact h
  · intro k _ old _ _ _ _ _
    exact ⟨by simp, by simp [isTrusted]⟩
  · intro k _ hf; cases hf

/-- fully authenticated run: every entry at the end satisfies the invariant
for the advanced bookkeeping. -/
theorem process_full_entries (P : Params) (hP : thirtyDays ≤ P.addHold) (cfg : List Key) (g : Ghost)
    (f : Fetch) (now : Nat) (hclock : ∀ k t0, g.since k = some t0 → t0 ≤ now)
    (cur : List TA) (tomb : List Nat)
    (h : ∀ ta ∈ cur, EntryOK cfg g ta ∧ (ta.st = .addPend → ta.key.tag ∈ fetchedTags f → ta.key ∈ f.all)) :
    ∀ ta' ∈ (process P f false now cur tomb).cur,
      (isTrusted ta'.st = true → ta'.key ∈ cfg ∨ earnedAfter g f now ta'.key = true) ∧
      (ta'.st = .addPend → ∃ t0, sinceAfter g f now ta'.key = some t0 ∧ t0 ≤ ta'.firstSeen) := by
  -- after the fetched-key loop
  have hloop : ∀ ta ∈ ((sortByTag (fetchedMap f.all)).foldl
      (procFetched (stage cur tomb f (sortByTag (fetchedMap f.all))) false now)
      { cur := cur, tomb := tomb }).cur,
      (ta.st = .addPend → ta.key.tag ∈ fetchedTags f → ta.key ∈ f.all) ∧
      (ta.st = .addPend → (∃ t0, g.since ta.key = some t0 ∧ t0 ≤ ta.firstSeen) ∨
        (ta.firstSeen = now ∧ ta.key ∈ f.all)) ∧
      (isTrusted ta.st = true → ta.key ∈ cfg ∨ g.earned ta.key = true) := by
    apply foldl_procFetched_all
    · intro ta hta
      obtain ⟨⟨h1, h2⟩, h3⟩ := h ta hta
      exact ⟨h3, fun hst => Or.inl (h1 hst), h2⟩
    · intro k _ old _ _ _ _ _
      exact ⟨by simp, by simp, by simp [isTrusted]⟩
    · intro k hk _ _
      have hin : k ∈ f.all := (mem_fetchedMap k _ ((mem_sortByTag k _).mp hk)).1
      exact ⟨fun _ _ => hin, fun _ => Or.inr ⟨rfl, hin⟩, by simp [isTrusted]⟩
  intro ta' hta'
  have hproc : (process P f false now cur tomb).cur = holdDown P (fetchedTags f) now
      ((sortByTag (fetchedMap f.all)).foldl
        (procFetched (stage cur tomb f (sortByTag (fetchedMap f.all))) false now)
        { cur := cur, tomb := tomb }).cur := by
    unfold process fetchedTags; simp
  rw [hproc] at hta'
  unfold holdDown at hta'
  obtain ⟨ta, hta, hs⟩ := List.mem_filterMap.mp hta'
  obtain ⟨h1, h2, h3⟩ := hloop ta hta
  exact holdStep_full P hP cfg g f now hclock ta ta' h1 h2 h3 hs

/-- entries of the prepared `kskCurrent`: they satisfy the invariant, and a
pending one was read from the state file. -/
theorem prepared_entries (cfg : List Key) (g : Ghost) (d : Disk) (live : List Key)
    (fl : Faults) (now : Nat) (tomb0 : List Nat)
    (hlive : ∀ k ∈ live, k ∈ cfg ∨ g.earned k = true)
    (hdisk : ∀ tas, d.state = .ok tas → ∀ ta ∈ tas, EntryOK cfg g ta) :
    ∀ ta ∈ (prepare cfg (readState d live fl now) tomb0 now).1,
      EntryOK cfg g ta ∧ (ta.st = .addPend → ∃ tas, d.state = .ok tas ∧ ta ∈ tas) := by
  intro ta hta
  have seeded : ta ∈ seedFromLive live now →
      EntryOK cfg g ta ∧ (ta.st = .addPend → ∃ tas, d.state = .ok tas ∧ ta ∈ tas) := by
    intro h
    obtain ⟨h1, h2⟩ := seedFromLive_mem live now ta h
    rcases h2 with h2 | h2
    · exact ⟨⟨by simp [h2], fun _ => hlive _ h1⟩, by simp [h2]⟩
    · exact ⟨⟨by simp [h2], by simp [h2, isTrusted]⟩, by simp [h2]⟩
  rcases prepare_mem cfg _ tomb0 now ta hta with h | ⟨h1, h2⟩
  · unfold readState at h
    split at h
    · exact seeded h
    · split at h
      · next tas htas => exact ⟨hdisk tas htas ta h, fun _ => ⟨tas, htas, h⟩⟩
      · exact seeded h
  · exact ⟨⟨by simp [h2], fun _ => Or.inl h1⟩, by simp [h2]⟩

theorem none_live_ok (P : Params) (cfg : List Key) (g : Ghost) (d : Disk) (live : List Key)
    (fl : Faults) (now : Nat)
    (hlive : ∀ k ∈ live, k ∈ cfg ∨ g.earned k = true)
    (hdisk : ∀ tas, d.state = .ok tas → ∀ ta ∈ tas, EntryOK cfg g ta) :
    ∀ k ∈ (autoTA P cfg d live none fl now).live, k ∈ cfg ∨ g.earned k = true := by
  cases hrt : readTomb d fl with
  | corrupt => unfold autoTA; simp [hrt]
  | ok tomb0 =>
    rw [autoTA_none P cfg d live fl now tomb0 hrt]
    simp only
    intro k hk
    split at hk
    · obtain ⟨ta, hta, rfl, htr⟩ := candidate_mem _ k hk
      exact ((prepared_entries cfg g d live fl now tomb0 hlive hdisk ta hta).1).2 htr
    · exact hlive k hk

theorem runHistG_fst (P : Params) (cfg : List Key) (s : Sys) (g : Ghost) (evs : List Ev) :
    (runHistG P cfg (s, g) evs).1 = runHist P cfg s evs := by
  induction evs generalizing s g with
  | nil => rfl
  | cons e rest ih => simp only [runHistG, runHist, List.foldl_cons]; exact ih _ _

end SdnsVerif.Lemmas.AutoTA
