import SdnsVerif.Model.IPSet
import SdnsVerif.Lemmas.IPSet
import SdnsVerif.Gen.C17
import SdnsVerif.Model.Chain
import SdnsVerif.Lemmas.Chain
/-!
# C17 — access control is exact and applies to clients only

Property theorems only (helper lemmas live in `Lemmas/IPSet.lean`).
-/
namespace SdnsVerif.Props.C17
open SdnsVerif.Model.IPSet SdnsVerif.Lemmas.IPSet

/-- **Stabbing query.** For *any* arrangement `srt` of the configured spans
that is sorted by `lo` (so the statement does not depend on which sorting
algorithm produced it), the binary search over the running maximum answers
exactly "some span contains `k`" — for every nesting, overlap, duplicate and
adjacency, every list length and every key. -/
theorem contains_iff_of_sorted (l srt : List Span) (k : Nat)
    (hperm : srt.Perm l) (hsorted : srt.Pairwise (fun a b => a.lo ≤ b.lo)) :
    containsSorted (runMax 0 srt) k = true ↔ ∃ s ∈ l, s.lo ≤ k ∧ k ≤ s.hi := by
  have hlen := runMax_length 0 srt
  unfold containsSorted
  by_cases h0 : srt.length = 0
  · have : srt = [] := List.eq_nil_of_length_eq_zero h0
    subst this
    have : l = [] := by simpa using hperm.symm.eq_nil
    subst this
    simp [runMax]
  · rw [hlen]
    simp only [h0, if_false]
    -- the index function is monotone on [0, n)
    have getlo : ∀ x (hx : x < srt.length),
        ((runMax 0 srt).getD x {lo := 0, hi := 0}).lo = (srt[x]).lo := by
      intro x hx
      rw [getD_getElem _ _ _ (by rw [hlen]; exact hx)]
      exact (runMax_get 0 srt x hx).1
    have mono : ∀ x y, x ≤ y → y < srt.length →
        ((runMax 0 srt).getD x {lo := 0, hi := 0}).lo ≤ ((runMax 0 srt).getD y {lo := 0, hi := 0}).lo := by
      intro x y hxy hy
      rw [getlo x (by omega), getlo y hy]
      rcases Nat.lt_or_eq_of_le hxy with hlt | rfl
      · exact (List.pairwise_iff_getElem.mp hsorted) x y (by omega) hy hlt
      · exact Nat.le_refl _
    have spec := bsearch_spec (fun x => ((runMax 0 srt).getD x {lo := 0, hi := 0}).lo) k srt.length mono
      (srt.length - 0) 0 srt.length rfl (Nat.zero_le _) (Nat.le_refl _)
      (by intro x hx; omega) (by intro x hx hxn; omega)
    simp only at spec
    generalize bsearch (fun x => ((runMax 0 srt).getD x {lo := 0, hi := 0}).lo) k 0 srt.length = r at spec
    obtain ⟨_, hrn, hleft, hright⟩ := spec
    constructor
    · intro h
      by_cases hr : r = 0
      · simp [hr] at h
      · simp only [hr, if_false, decide_eq_true_eq] at h
        have hr1 : r - 1 < srt.length := by omega
        rw [getD_getElem _ _ _ (by rw [hlen]; exact hr1)] at h
        obtain ⟨_, _, _, _, hmax⟩ := runMax_get 0 srt (r - 1) hr1
        rcases hmax with hz | ⟨y, hy, hmy⟩
        · -- running maximum still 0: k = 0, span 0 starts at or before k
          have hk : k = 0 := by omega
          refine ⟨srt[0], hperm.mem_iff.mp (List.getElem_mem _), ?_, by omega⟩
          have := hleft 0 (by omega)
          rw [getlo 0 (by omega)] at this
          exact this
        · have hyl : y < srt.length := by omega
          refine ⟨srt[y], hperm.mem_iff.mp (List.getElem_mem _), ?_, by omega⟩
          have := hleft y (by omega)
          rw [getlo y hyl] at this
          exact this
    · rintro ⟨s, hs, hlo, hhi⟩
      have hs' := hperm.mem_iff.mpr hs
      obtain ⟨x, hx, rfl⟩ := List.getElem_of_mem hs'
      have hxr : x < r := by
        by_cases hxr : x < r
        · exact hxr
        · have := hright x (by omega) hx
          rw [getlo x hx] at this
          omega
      have hr : r ≠ 0 := by omega
      simp only [hr, if_false, decide_eq_true_eq]
      have hr1 : r - 1 < srt.length := by omega
      rw [getD_getElem _ _ _ (by rw [hlen]; exact hr1)]
      obtain ⟨_, _, _, hge, _⟩ := runMax_get 0 srt (r - 1) hr1
      have := hge x (by omega)
      omega

/-- The code's own `compile` (sort then running maximum) is an instance. -/
theorem contains_iff (l : List Span) (k : Nat) :
    containsSorted (compile l) k = true ↔ ∃ s ∈ l, s.lo ≤ k ∧ k ≤ s.hi :=
  contains_iff_of_sorted l (sortByLo l) k (sortByLo_perm l) (sortByLo_sorted l)


/-- `u128.lessEq` is `≤` on the 128-bit value. -/
theorem lessEq_iff_val_le (a b : P128) (ha : a.lo < 2 ^ 64) (hb : b.lo < 2 ^ 64) :
    a.lessEq b = true ↔ a.val ≤ b.val := by
  unfold P128.lessEq P128.val
  simp only [Bool.or_eq_true, decide_eq_true_eq, Bool.and_eq_true, beq_iff_eq]
  generalize (2:Nat) ^ 64 = Q at *
  constructor
  · rintro (h | ⟨h, h'⟩)
    · have : (a.hi + 1) * Q ≤ b.hi * Q := Nat.mul_le_mul_right Q h
      rw [Nat.succ_mul] at this
      omega
    · rw [h]; omega
  · intro h
    by_cases hlt : a.hi < b.hi
    · exact Or.inl hlt
    · by_cases heq : a.hi = b.hi
      · right; refine ⟨heq, ?_⟩; rw [heq] at h; omega
      · exfalso
        have : b.hi + 1 ≤ a.hi := by omega
        have : (b.hi + 1) * Q ≤ a.hi * Q := Nat.mul_le_mul_right Q this
        rw [Nat.succ_mul] at this
        omega

/-- **`bounds` is the prefix range.** For both families and both branches of
the 64-bit split in `bounds`, the span built for `addr/bits` (host bits
allowed: `add` masks them) contains `k` exactly when `k` agrees with `addr` on
the first `bits` bits. -/
theorem span_contains_iff_prefix (width bits a k : Nat) (hw : width = 32 ∨ width = 128)
    (hb : bits ≤ width) (ha : a < 2 ^ width) :
    ((mkSpan width bits a).lo ≤ k ∧ k ≤ (mkSpan width bits a).hi) ↔
      k / 2 ^ (width - bits) = a / 2 ^ (width - bits) := by
  obtain ⟨h1, h2⟩ := mkSpan_spec width bits a hw hb ha
  rw [h1, h2]
  exact (div_eq_iff_block k _ _ (Nat.two_pow_pos _)).symm

/-- The prefix `(a, bits)` of the given family contains address `k`. -/
def inPrefix (width : Nat) (a bits k : Nat) : Prop :=
  k / 2 ^ (width - bits) = a / 2 ^ (width - bits)

/-- Entries the parser produced are within range for their family. -/
def EntryOk : Entry → Prop
  | some (Fam.v4, a, b) => b ≤ 32 ∧ a < 2 ^ 32
  | some (Fam.v6, a, b) => b ≤ 128 ∧ a < 2 ^ 128
  | some (Fam.mapped, _, _) => False
  | none => True

/-- **Membership is exact (IPv4).** After `New`, `Contains` holds exactly when
the address lies in at least one configured IPv4 CIDR; entries that did not
parse (`none`) and IPv6 entries contribute nothing. -/
theorem set_contains_v4_iff (es : List Entry) (k : Nat) (hok : ∀ e ∈ es, EntryOk e) :
    (Set.new es).contains Fam.v4 k = true ↔ ∃ a b, some (Fam.v4, a, b) ∈ es ∧ inPrefix 32 a b k := by
  unfold Set.contains Set.new
  simp only
  rw [contains_iff]
  constructor
  · rintro ⟨s, hs, h⟩
    obtain ⟨e, he, hes⟩ := List.mem_filterMap.mp hs
    match e, he, hes with
    | some (Fam.v4, a, b), he, hes =>
      simp only [Option.some.injEq] at hes
      subst hes
      have ok := hok _ he
      exact ⟨a, b, he, (span_contains_iff_prefix 32 b a k (Or.inl rfl) ok.1 ok.2).mp h⟩
  · rintro ⟨a, b, he, h⟩
    have ok := hok _ he
    refine ⟨mkSpan 32 b a, List.mem_filterMap.mpr ⟨_, he, rfl⟩, ?_⟩
    exact (span_contains_iff_prefix 32 b a k (Or.inl rfl) ok.1 ok.2).mpr h

/-- **Membership is exact (IPv6).** -/
theorem set_contains_v6_iff (es : List Entry) (k : Nat) (hok : ∀ e ∈ es, EntryOk e) :
    (Set.new es).contains Fam.v6 k = true ↔ ∃ a b, some (Fam.v6, a, b) ∈ es ∧ inPrefix 128 a b k := by
  unfold Set.contains Set.new
  simp only
  rw [contains_iff]
  constructor
  · rintro ⟨s, hs, h⟩
    obtain ⟨e, he, hes⟩ := List.mem_filterMap.mp hs
    match e, he, hes with
    | some (Fam.v6, a, b), he, hes =>
      simp only [Option.some.injEq] at hes
      subst hes
      have ok := hok _ he
      exact ⟨a, b, he, (span_contains_iff_prefix 128 b a k (Or.inr rfl) ok.1 ok.2).mp h⟩
  · rintro ⟨a, b, he, h⟩
    have ok := hok _ he
    refine ⟨mkSpan 128 b a, List.mem_filterMap.mpr ⟨_, he, rfl⟩, ?_⟩
    exact (span_contains_iff_prefix 128 b a k (Or.inr rfl) ok.1 ok.2).mpr h

/-- An IPv4-mapped IPv6 source is answered as the IPv4 address it carries. -/
theorem mapped_counts_as_v4 (s : Set) (k : Nat) : s.contains Fam.mapped k = s.contains Fam.v4 k := rfl

/-- **Entries never cross families.** A list that holds no IPv4 entry admits no
IPv4 source and no IPv4-mapped source, whatever IPv6 entries it holds — in
particular an entry written in mapped form, `::ffff:a.b.c.d/N`, is an IPv6 prefix
and never stands for the IPv4 network `a.b.c.d/(N-96)`; and a list that holds no
IPv6 entry admits no IPv6 source. -/
theorem entries_never_cross_families (es : List Entry) (k : Nat) (hok : ∀ e ∈ es, EntryOk e) :
    ((∀ a b, some (Fam.v4, a, b) ∉ es) →
        (Set.new es).contains Fam.v4 k = false ∧ (Set.new es).contains Fam.mapped k = false) ∧
    ((∀ a b, some (Fam.v6, a, b) ∉ es) → (Set.new es).contains Fam.v6 k = false) := by
  refine ⟨fun h => ?_, fun h => ?_⟩
  · have h4 : (Set.new es).contains Fam.v4 k = false := by
      cases hc : (Set.new es).contains Fam.v4 k with
      | false => rfl
      | true =>
        obtain ⟨a, b, hm, _⟩ := (set_contains_v4_iff es k hok).mp hc
        exact absurd hm (h a b)
    exact ⟨h4, by rw [mapped_counts_as_v4]; exact h4⟩
  · cases hc : (Set.new es).contains Fam.v6 k with
    | false => rfl
    | true =>
      obtain ⟨a, b, hm, _⟩ := (set_contains_v6_iff es k hok).mp hc
      exact absurd hm (h a b)

-- non-vacuity: the mapped-form entry ::ffff:192.168.1.0/120 and the source 192.168.1.5
example : (Set.new [some (Fam.v6, 0xffffc0a80100, 120)]).contains Fam.v4 0xc0a80105 = false ∧
    (Set.new [some (Fam.v6, 0xffffc0a80100, 120)]).contains Fam.mapped 0xc0a80105 = false := by decide

/-- An unparsable entry is ignored rather than widening access: adding it
anywhere in the list changes no answer. -/
theorem bad_entry_never_widens (es₁ es₂ : List Entry) (f : Fam) (k : Nat) :
    (Set.new (es₁ ++ none :: es₂)).contains f k = (Set.new (es₁ ++ es₂)).contains f k := by
  unfold Set.new
  simp [List.filterMap_append]

/-- **The order and multiplicity of entries are irrelevant.** Two configured
lists with the same entries — reordered, with duplicates added or dropped —
answer every source of every family alike: no entry shadows, masks or
cancels another, whatever `sort.Slice` and the running maximum did with them. -/
theorem set_contains_order_free (es₁ es₂ : List Entry) (f : Fam) (k : Nat)
    (hm : ∀ e, e ∈ es₁ ↔ e ∈ es₂) (hok : ∀ e ∈ es₁, EntryOk e) :
    (Set.new es₁).contains f k = (Set.new es₂).contains f k := by
  have hok2 : ∀ e ∈ es₂, EntryOk e := fun e he => hok e ((hm e).mpr he)
  have h4 : (Set.new es₁).contains Fam.v4 k = (Set.new es₂).contains Fam.v4 k := by
    apply Bool.eq_iff_iff.mpr
    rw [set_contains_v4_iff es₁ k hok, set_contains_v4_iff es₂ k hok2]
    constructor
    · rintro ⟨a, b, h, hp⟩; exact ⟨a, b, (hm _).mp h, hp⟩
    · rintro ⟨a, b, h, hp⟩; exact ⟨a, b, (hm _).mpr h, hp⟩
  cases f with
  | v4 => exact h4
  | mapped => rw [mapped_counts_as_v4, mapped_counts_as_v4]; exact h4
  | v6 =>
    apply Bool.eq_iff_iff.mpr
    rw [set_contains_v6_iff es₁ k hok, set_contains_v6_iff es₂ k hok2]
    constructor
    · rintro ⟨a, b, h, hp⟩; exact ⟨a, b, (hm _).mp h, hp⟩
    · rintro ⟨a, b, h, hp⟩; exact ⟨a, b, (hm _).mpr h, hp⟩

/-- **Adding entries only widens, removing only narrows.** A source admitted
by a list is admitted by every list that holds at least the same entries. -/
theorem set_contains_mono (es₁ es₂ : List Entry) (f : Fam) (k : Nat)
    (hsub : ∀ e, e ∈ es₁ → e ∈ es₂) (hok : ∀ e ∈ es₂, EntryOk e)
    (h : (Set.new es₁).contains f k = true) : (Set.new es₂).contains f k = true := by
  have hok1 : ∀ e ∈ es₁, EntryOk e := fun e he => hok e (hsub e he)
  have h4 : (Set.new es₁).contains Fam.v4 k = true → (Set.new es₂).contains Fam.v4 k = true := by
    rw [set_contains_v4_iff es₁ k hok1, set_contains_v4_iff es₂ k hok]
    rintro ⟨a, b, hm, hp⟩; exact ⟨a, b, hsub _ hm, hp⟩
  cases f with
  | v4 => exact h4 h
  | mapped => rw [mapped_counts_as_v4] at h ⊢; exact h4 h
  | v6 =>
    rw [set_contains_v6_iff es₁ k hok1] at h
    rw [set_contains_v6_iff es₂ k hok]
    obtain ⟨a, b, hm, hp⟩ := h; exact ⟨a, b, hsub _ hm, hp⟩

-- non-vacuity: 10.0.0.0/8 nested over 10.1.0.0/16, listed in either order and once more
example : (∀ e, e ∈ [some (Fam.v4, 0x0a000000, 8), some (Fam.v4, 0x0a010000, 16)] ↔
      e ∈ [some (Fam.v4, 0x0a010000, 16), some (Fam.v4, 0x0a000000, 8), some (Fam.v4, 0x0a010000, 16)]) ∧
    (∀ e ∈ [some (Fam.v4, 0x0a000000, 8), some (Fam.v4, 0x0a010000, 16)], EntryOk e) := by
  refine ⟨fun e => ?_, fun e he => ?_⟩
  · simp only [List.mem_cons, List.not_mem_nil, or_false]
    grind
  · simp only [List.mem_cons, List.not_mem_nil, or_false] at he
    rcases he with rfl | rfl <;> simp [EntryOk]

/-- **Deny is final, internal traffic is exempt.** The access list lets the
chain continue exactly for internal sub-queries and for sources inside the
list; otherwise it cancels the chain (no handler after it runs, nothing is
written). -/
theorem acl_next_iff (allowed : Set) (internal : Bool) (f : Fam) (a : Nat) :
    aclNext allowed internal f a = true ↔ internal = true ∨ allowed.contains f a = true := by
  unfold aclNext; cases internal <;> simp

theorem viewPick_go_spec (vs : List Set) (f : Fam) (a i : Nat) :
    ∀ n, viewPick.go f a vs n = some i ↔
      ∃ j, ∃ (hj : j < vs.length), i = n + j ∧ (vs[j]).contains f a = true ∧
        ∀ j' (h' : j' < j), (vs[j']'(by omega)).contains f a = false := by
  induction vs with
  | nil => intro n; simp [viewPick.go]
  | cons v t ih =>
    intro n
    unfold viewPick.go
    by_cases hv : v.contains f a = true
    · simp only [hv, if_true, Option.some.injEq]
      constructor
      · intro h; subst h
        exact ⟨0, by simp, rfl, by simpa using hv, by intro j' h'; omega⟩
      · rintro ⟨j, hj, hi, hc, hprev⟩
        cases j with
        | zero => omega
        | succ j =>
          have := hprev 0 (by omega)
          simp only [List.getElem_cons_zero] at this
          rw [this] at hv; cases hv
    · have hvf : v.contains f a = false := by simpa using hv
      simp only [hvf, Bool.false_eq_true, if_false]
      rw [ih (n + 1)]
      constructor
      · rintro ⟨j, hj, hi, hc, hprev⟩
        refine ⟨j + 1, by simpa using hj, by omega, by simpa using hc, ?_⟩
        intro j' h'
        cases j' with
        | zero => simpa using hvf
        | succ j' => simpa using hprev j' (by omega)
      · rintro ⟨j, hj, hi, hc, hprev⟩
        cases j with
        | zero => simp only [List.getElem_cons_zero] at hc; rw [hc] at hvf; cases hvf
        | succ j =>
          refine ⟨j, by simpa using hj, by omega, by simpa using hc, ?_⟩
          intro j' h'
          simpa using hprev (j' + 1) (by omega)

/-- **First matching view in declaration order**; internal sub-queries see no view. -/
theorem view_first_match (vs : List Set) (internal : Bool) (f : Fam) (a i : Nat) :
    viewPick vs internal f a = some i ↔
      internal = false ∧ ∃ j, ∃ (hj : j < vs.length), i = j + 1 ∧ (vs[j]).contains f a = true ∧
        ∀ j' (h' : j' < j), (vs[j']'(by omega)).contains f a = false := by
  unfold viewPick
  cases internal
  · simp only [Bool.false_eq_true, if_false, true_and]
    rw [viewPick_go_spec]
    constructor <;> rintro ⟨j, hj, hi, h⟩ <;> exact ⟨j, hj, by omega, h⟩
  · simp

/-- **A matching view that has no answer ends the search.** The reply comes
from view `i` only if `i` is the first view containing the client; in
particular a later view is never consulted when an earlier containing view
lacks the queried type. -/
theorem view_answer_only_from_first (vs : List Set) (types : List (List Nat)) (internal : Bool)
    (f : Fam) (a qt i : Nat) (h : viewAnswer vs types internal f a qt = some i) :
    viewPick vs internal f a = some i ∧ (types.getD (i - 1) []).contains qt = true := by
  unfold viewAnswer at h
  split at h
  · cases h
  · rename_i j hj
    by_cases hc : (types.getD (j - 1) []).contains qt = true
    · simp only [hc, if_true, Option.some.injEq] at h
      subst h
      exact ⟨hj, hc⟩
    · simp only [hc] at h
      cases h

/-! ### facts regenerated from the tree (one-directional side conditions) -/

/-- handlers that may legitimately run before the access list: none of them
answers a query, looks anything up or sends upstream traffic. -/
def harmlessBeforeACL : List String := ["recovery", "metrics", "dnstap"]

def prefixBefore (name : String) : List String → List String
  | [] => []
  | x :: t => if x == name then [] else x :: prefixBefore name t

/-- In the default chain of the current tree the access list is present and
only observers run before it. -/
theorem accesslist_guards_chain :
    "accesslist" ∈ SdnsVerif.Gen.C17.chain_order ∧
    ∀ h ∈ prefixBefore "accesslist" SdnsVerif.Gen.C17.chain_order, h ∈ harmlessBeforeACL := by
  decide

/-- The four client policies of the property are excluded from the internal
sub-pipeline in the current tree (`ClientOnly() == true`). -/
theorem client_policies_are_client_only :
    SdnsVerif.Gen.C17.clientonly_accesslist = true ∧ SdnsVerif.Gen.C17.clientonly_ratelimit = true ∧
    SdnsVerif.Gen.C17.clientonly_reflex = true ∧ SdnsVerif.Gen.C17.clientonly_views = true := by
  decide

/-! ## Chain dispatch: "deny = cancel with no write, ahead of every answering handler" -/

section ChainDispatch
open SdnsVerif.Model.Chain SdnsVerif.Lemmas.Chain

/-- The model's recursion budget is a proof device only: a served query never
exhausts it, whatever the handlers do (so no theorem below is true because the
model gave up). -/
theorem run_has_fuel (hs : List Script) : (run hs).oof = false :=
  (exec_fuel_ok hs (weight hs 0 + 1) hs.length [.next] { pos := 0, count := hs.length } rfl
    (by simp; omega)).1

/-- **`Cancel` is final.** Once a handler has cancelled the chain, no handler
is invoked any more — not by the handlers further up the stack when their own
`Next` returns, however often they call `Next` again. -/
theorem cancel_is_final (hs : List Script) (fuel self : Nat) (acts : Script) (st : St)
    (h : st.count = 0) : (exec hs fuel self acts st).ran = st.ran :=
  (exec_count_zero hs fuel self acts st h).1

/-- **A denied source reaches nothing.** Take ANY chain in which the access
list (script: `Cancel`, no write — what `accesslist.ServeDNS` does for a source
outside the list) sits behind handlers that never write (observers), and ANY
handlers after it, with any scripts — answering, looking up, resolving.  Serving
a query then ends with no reply written and with no handler behind the access
list ever invoked, whatever the observers do around their `Next` calls. -/
theorem denied_source_reaches_nothing (pre post : List Script)
    (hpre : ∀ s ∈ pre, Act.write ∉ s) :
    (run (pre ++ [[Act.cancel]] ++ post)).writer = none ∧
    ∀ i ∈ (run (pre ++ [[Act.cancel]] ++ post)).ran, i ≤ pre.length := by
  have hk : (pre ++ [[Act.cancel]] ++ post)[pre.length]? = some [Act.cancel] := by
    simp [List.getElem?_append_left, List.getElem?_append_right]
  have hp : ∀ p s, p < pre.length → (pre ++ [[Act.cancel]] ++ post)[p]? = some s → Act.write ∉ s := by
    intro p s hlt hg
    have : pre[p]? = some s := by
      rw [List.append_assoc, List.getElem?_append_left hlt] at hg; exact hg
    exact hpre s (List.mem_of_getElem? this)
  have hq := exec_quiet (pre ++ [[Act.cancel]] ++ post) pre.length hk hp
    (weight (pre ++ [[Act.cancel]] ++ post) 0 + 1) (pre ++ [[Act.cancel]] ++ post).length [.next]
    { pos := 0, count := (pre ++ [[Act.cancel]] ++ post).length }
    ⟨rfl, by simp, by simp⟩ (by simp)
  exact ⟨hq.1, hq.2.1⟩

-- non-vacuity: observers that wrap `Next` (and even call it twice), an answering
-- handler and a resolver behind the access list; on an ALLOWED source (`next`) the
-- same chain does reach them and a reply is written.
example : (run ([[.next], [.next, .next]] ++ [[Act.cancel]] ++ [[.write, .cancel], [.write]])).ran = [0, 1, 2] ∧
    (run ([[.next], [.next, .next]] ++ [[Act.cancel]] ++ [[.write, .cancel], [.write]])).writer = none := by decide
example : (run [[.next], [.next, .next], [.next], [.write, .cancel], [.write]]).ran = [0, 1, 2, 3] ∧
    (run [[.next], [.next, .next], [.next], [.write, .cancel], [.write]]).writer = some 3 := by decide
-- why `Cancel` (and not merely returning) is what makes the denial hold: an access
-- list that just returned would let an observer's second `Next` reach the resolver.
example : (run [[.next, .next], [], [.write]]).writer = some 2 := by decide

/-! ## Internal sub-pipelines hold no client policy -/

/-- **`autoWire`.** For any registered handler list: neither internal pipeline
contains a client-only handler, the prefetch pipeline additionally lacks the
cache, both keep the remaining handlers in their registered order, and every
handler that is not client-only (and shares no name with one) is kept. -/
theorem internal_pipelines_hold_no_client_policy (hs : List H) :
    (∀ h ∈ queryerSub hs, h.clientOnly = false) ∧
    (∀ h ∈ prefetchSub hs, h.clientOnly = false ∧ h.name ≠ "cache") ∧
    (queryerSub hs).Sublist hs ∧ (prefetchSub hs).Sublist hs ∧
    (∀ h ∈ hs, h.name ∉ autoSkip hs → h ∈ queryerSub hs) := by
  refine ⟨?_, ?_, List.filter_sublist, List.filter_sublist, ?_⟩
  · intro h hm
    simp only [queryerSub, subPipeline, List.mem_filter] at hm
    obtain ⟨hin, hns⟩ := hm
    cases hco : h.clientOnly with
    | false => rfl
    | true =>
      exfalso
      have : h.name ∈ autoSkip hs := by
        simp only [autoSkip, List.mem_map, List.mem_filter]
        exact ⟨h, ⟨hin, hco⟩, rfl⟩
      simp [this] at hns
  · intro h hm
    simp only [prefetchSub, subPipeline, List.mem_filter] at hm
    obtain ⟨hin, hns⟩ := hm
    refine ⟨?_, ?_⟩
    · cases hco : h.clientOnly with
      | false => rfl
      | true =>
        exfalso
        have : h.name ∈ autoSkip hs := by
          simp only [autoSkip, List.mem_map, List.mem_filter]
          exact ⟨h, ⟨hin, hco⟩, rfl⟩
        simp [this] at hns
    · intro hc
      simp [hc] at hns
  · intro h hin hns
    simp only [queryerSub, subPipeline, List.mem_filter]
    exact ⟨hin, by simp [hns]⟩

/-- The default chain of the current tree, with the `ClientOnly()` answers of the
compiled handlers (regenerated facts): its internal pipeline is exactly the
chain minus accesslist, ratelimit, reflex and views — and whatever else declares
itself client-only — and all four client policies of the property are gone. -/
theorem default_internal_pipeline_has_no_client_policy :
    ∀ n ∈ ["accesslist", "ratelimit", "reflex", "views"],
      n ∉ (queryerSub ((SdnsVerif.Gen.C17.chain_order.zip SdnsVerif.Gen.C17.chain_clientonly).map
            fun x => ⟨x.1, x.2⟩)).map (·.name) := by
  decide

end ChainDispatch

/-! ## Pooled chains keep to their pipeline -/

section PoolsSec
open SdnsVerif.Model.Chain

/-- Every chain at rest in pipeline `p`'s pool, and every chain drawn from it, is
bound to `p`'s own handler list. -/
def PoolsOK (s : Pools) : Prop :=
  (∀ p b, b ∈ poolOf s.pools p → b = p) ∧ (∀ e ∈ s.out, e.2 = e.1)

theorem poolOf_setPool (ps : List (Nat × List Nat)) (p q : Nat) (l : List Nat) :
    poolOf (setPool ps p l) q = if q = p then l else poolOf ps q := by
  unfold poolOf setPool
  by_cases h : q = p
  · subst h; simp
  · have hne : (p == q) = false := by simp; exact fun e => h e.symm
    simp only [List.find?_cons, hne, h, if_false]
    congr 1
    induction ps with
    | nil => rfl
    | cons e es ih =>
      simp only [List.filter_cons]
      by_cases he : e.1 = p
      · have h1 : (e.1 == q) = false := by simp [he]; exact fun e' => h e'.symm
        simp [he, List.find?_cons, h1, ih]
        subst he
        simpa [List.find?_cons, h1] using ih
      · have h2 : (!(e.1 == p)) = true := by simp [he]
        simp only [h2, if_true, List.find?_cons]
        cases hq : (e.1 == q) with
        | true => rfl
        | false => exact ih

theorem poolsOK_step (s : Pools) (op : PoolOp) (hp : paired op = true) (h : PoolsOK s) :
    PoolsOK (s.step op) := by
  obtain ⟨h1, h2⟩ := h
  cases op with
  | releaseTo i q => simp [paired] at hp
  | acquire p =>
    simp only [Pools.step]
    cases hq : poolOf s.pools p with
    | nil =>
      refine ⟨h1, ?_⟩
      intro e he
      rcases List.mem_append.mp he with he | he
      · exact h2 e he
      · simp at he; subst he; rfl
    | cons b rest =>
      have hb : b = p := h1 p b (by rw [hq]; exact List.mem_cons_self)
      refine ⟨?_, ?_⟩
      · intro q c hc
        rw [poolOf_setPool] at hc
        by_cases hqp : q = p
        · simp only [hqp, if_true] at hc
          subst hqp
          exact h1 q c (by rw [hq]; exact List.mem_cons_of_mem _ hc)
        · simp only [hqp, if_false] at hc
          exact h1 q c hc
      · intro e he
        rcases List.mem_append.mp he with he | he
        · exact h2 e he
        · simp at he; subst he; exact hb
  | release i =>
    simp only [Pools.step]
    cases hg : s.out[i]? with
    | none => exact ⟨h1, h2⟩
    | some e =>
      obtain ⟨p, b⟩ := e
      have hmem : (p, b) ∈ s.out := List.mem_of_getElem? hg
      have hb : b = p := h2 (p, b) hmem
      refine ⟨?_, ?_⟩
      · intro q c hc
        rw [poolOf_setPool] at hc
        by_cases hqp : q = p
        · simp only [hqp, if_true] at hc
          rcases List.mem_cons.mp hc with hc | hc
          · rw [hc, hb, hqp]
          · rw [hqp]; exact h1 p c hc
        · simp only [hqp, if_false] at hc
          exact h1 q c hc
      · intro e he
        exact h2 e (List.mem_of_mem_eraseIdx he)

/-- **A pooled chain runs the handlers of the pipeline it was drawn from** — for
every history of draws and returns in which each chain goes back to the pool it
came from, in any order and with any nesting (a client query holding its chain
while the cache's alias chase and the resolver's name-server lookups draw and
return theirs). In particular a client is never served on a chain bound to an
internal pipeline, which holds no access list
(`internal_pipelines_hold_no_client_policy`). -/
theorem pooled_chain_runs_own_pipeline (ops : List PoolOp) (hp : ∀ op ∈ ops, paired op = true) :
    PoolsOK (Pools.empty.run ops) := by
  have gen : ∀ (s : Pools), PoolsOK s → (∀ op ∈ ops, paired op = true) → PoolsOK (s.run ops) := by
    induction ops with
    | nil => intro s hs _; exact hs
    | cons op rest ih =>
      intro s hs hall
      have h1 := poolsOK_step s op (hall op List.mem_cons_self) hs
      exact ih (fun op' hm => hp op' (List.mem_cons_of_mem _ hm)) (s.step op) h1
        (fun op' hm => hall op' (List.mem_cons_of_mem _ hm))
  exact gen Pools.empty ⟨by intro p b hb; simp [Pools.empty, poolOf] at hb, by intro e he; simp [Pools.empty] at he⟩ hp

/-- The discipline holds in the current tree (regenerated go/ast facts): every
function that returns a chain returns it to the pipeline it drew it from, no
pipeline method reaches into another pipeline's pool, and the pool's constructor
binds a new chain to the pipeline's own handler list. -/
theorem pool_discipline_in_tree :
    SdnsVerif.Gen.C17.pool_unpaired = [] ∧ SdnsVerif.Gen.C17.pool_foreign_access = [] ∧
    SdnsVerif.Gen.C17.pool_new_binds_own = true := by
  decide

-- non-vacuity: a client query (pipeline 0) holding its chain across two nested internal
-- sub-queries (pipeline 1), then a second client: all four draws run their own pipeline.
example : (Pools.empty.run [.acquire 0, .acquire 1, .release 1, .acquire 1, .release 1, .release 0, .acquire 0]).out
    = [(0, 0)] := by decide
-- why the discipline matters (the shape of a seeded change): an internal chain handed to
-- the root pool is drawn by the next client, which is then served WITHOUT the access list.
example : (Pools.empty.run [.acquire 1, .releaseTo 0 0, .acquire 0]).out = [(0, 1)] := by decide

end PoolsSec

/-! ## Who counts as internal -/

section Ident
open SdnsVerif.Model.Chain

/-- **The internal flag cannot be claimed from the network.** A peer that
arrived through a socket — a non-zero source port, or any address other than the
resolver's own sentinel — on a transport that does not declare itself internal
is never treated as internal, so it cannot skip the client policies. -/
theorem network_peer_is_never_internal (p : Peer) (ht : p.transportInternal = false)
    (hp : p.port ≠ 0 ∨ p.sentinelIP = false) : derivedInternal p = false := by
  unfold derivedInternal
  rcases hp with hp | hp
  · simp [ht, hp]
  · simp [ht, hp]

example : derivedInternal ⟨.udp, true, 0, "", false⟩ = true := by decide   -- the sentinel source
example : derivedInternal ⟨.tcp, true, 53124, "", false⟩ = false := by decide

end Ident

-- non-vacuity of the exact-membership theorem: a nested pair and a bad entry
example : (Set.new [some (Fam.v4, 0x0a000000, 8), none, some (Fam.v4, 0x0a010203, 24)]).contains Fam.v4 0x0a0102ff = true :=
  (set_contains_v4_iff _ _ (by intro e he; simp at he; rcases he with rfl | rfl | rfl <;> simp [EntryOk])).mpr
    ⟨0x0a010203, 24, by simp, by unfold inPrefix; decide⟩

-- non-vacuity: nested + adjacent + duplicate spans, boundary keys
example : containsSorted (compile [⟨10, 20, 0⟩, ⟨12, 14, 0⟩, ⟨21, 30, 0⟩, ⟨10, 20, 0⟩]) 20 = true :=
  (contains_iff _ _).mpr ⟨⟨10, 20, 0⟩, by simp, by decide, by decide⟩
example : ¬ containsSorted (compile [⟨10, 20, 0⟩, ⟨12, 14, 0⟩, ⟨40, 50, 0⟩]) 31 = true := by
  rw [contains_iff]; simp

end SdnsVerif.Props.C17
