import SdnsVerif.Model.FailCache
import SdnsVerif.Lemmas.FailCache
import SdnsVerif.Gen.C13
/-!
# C13 — cached failures (RFC 9520) suppress only what failed, for a bounded time

Property theorems only (helper lemmas and the history vocabulary `Op`,
`applyOp`, `events`, `Justified` live in `Lemmas/FailCache.lean`).  Every
statement holds for an ARBITRARY pair of hash functions `H` — collisions
between questions, between zones and across the two kinds included.
-/
namespace SdnsVerif.Props.C13
open SdnsVerif.Model.FailCache SdnsVerif.Lemmas.FailCache

/-! ## bounded exponential backoff -/

/-- `FailureCache.backoff` in closed form: `min(max, initial · 2^(streak-1))`. -/
theorem backoff_closed_form (c : Cfg) (s : Nat) :
    backoff c s = min c.max (c.initial * 2 ^ (s - 1)) := backoff_eq c s

/-- **The envelope.** For every valid configuration: the first failure backs
off for exactly the configured minimum, each consecutive failure at most
doubles (and never shrinks) it, it stays within `[initial, max]`, and `max`
is at most five minutes. -/
theorem backoff_envelope (c : Cfg) (hv : c.Valid) :
    backoff c 0 = c.initial ∧ backoff c 1 = c.initial ∧
    (∀ s, backoff c (s + 1) ≤ 2 * backoff c s) ∧
    (∀ s, backoff c s ≤ backoff c (s + 1)) ∧
    (∀ s, c.initial ≤ backoff c s ∧ backoff c s ≤ c.max) ∧
    c.max ≤ 300 * second := by
  obtain ⟨h1, h2, h3⟩ := hv
  have hstep : ∀ s, c.initial * 2 ^ (s + 1 - 1) = c.initial * 2 ^ (s - 1) ∨
      c.initial * 2 ^ (s + 1 - 1) = 2 * (c.initial * 2 ^ (s - 1)) := by
    intro s
    cases s with
    | zero => left; rfl
    | succ k =>
      right
      simp only [Nat.add_sub_cancel]
      rw [Nat.pow_succ]
      rw [Nat.mul_comm (2 ^ k) 2, ← Nat.mul_assoc, Nat.mul_comm c.initial 2, Nat.mul_assoc]
  have hge : ∀ n, c.initial ≤ c.initial * 2 ^ n := fun n => Nat.le_mul_of_pos_right _ (Nat.two_pow_pos n)
  refine ⟨?_, ?_, ?_, ?_, ?_, h3⟩
  · rw [backoff_eq]; simp; omega
  · rw [backoff_eq]; simp; omega
  · intro s
    rw [backoff_eq, backoff_eq]
    have := hge (s - 1)
    rcases hstep s with h | h <;> rw [h] <;> omega
  · intro s
    rw [backoff_eq, backoff_eq]
    have := hge (s - 1)
    rcases hstep s with h | h <;> rw [h] <;> omega
  · intro s
    rw [backoff_eq]
    have := hge (s - 1)
    omega

/-- **All valid min/max settings.** `NewFailureCache` accepts a configuration
only inside `1 s ≤ initial ≤ max ≤ 5 min` (zero means the default); in
particular a maximum above the ceiling is rejected, never clamped upwards. -/
theorem newCfg_valid (size i m : Int) (c : Cfg) (h : newCfg size i m = .ok c) :
    c.Valid ∧ 0 < size ∧
    (c.initial : Int) = orDefault i defaultInitial ∧ (c.max : Int) = orDefault m defaultMax := by
  unfold newCfg at h
  generalize orDefault i defaultInitial = i' at h ⊢
  generalize orDefault m defaultMax = m' at h ⊢
  by_cases hs : size ≤ 0
  · simp [hs] at h
  · by_cases h1 : i' < (second : Int)
    · simp [hs, h1] at h
    · by_cases h2 : m' < i'
      · simp [hs, h1, h2] at h
      · by_cases h3 : m' > (ceiling : Int)
        · simp [hs, h1, h2, h3] at h
        · simp only [hs, h1, h2, h3, if_false, Except.ok.injEq] at h
          subst h
          unfold Cfg.Valid
          simp only
          unfold second ceiling at *
          refine ⟨⟨?_, ?_, ?_⟩, by omega, ?_, ?_⟩ <;> omega

/-- defaults are a valid configuration (5 s … 5 min). -/
theorem default_cfg_valid : newCfg 4096 0 0 = .ok ⟨defaultInitial, defaultMax⟩ := by rfl

/-! ## facts regenerated from the compiled tree (one-directional) -/

/-- a row of the real `backoff(0..64)` stays inside the property's envelope. -/
def rowOk (mn mx : Nat) (row : List Nat) : Bool :=
  row.length == 65 && row.getD 0 0 == mn && row.getD 1 0 == mn &&
    row.all (fun v => decide (mn ≤ v) && decide (v ≤ mx) && decide (v ≤ 300000000000)) &&
    (List.zip row row.tail).all (fun p => decide (p.2 ≤ 2 * p.1))

/-- **The compiled `backoff` obeys the envelope** on every probed configuration
(defaults, min = max, a maximum that is not a power-of-two multiple, odd
nanosecond values): starts at min, at most doubles, within `[min, max]`,
never above five minutes. -/
theorem gen_backoff_tables_in_envelope :
    SdnsVerif.Gen.C13.backoff_cfgs.length = SdnsVerif.Gen.C13.backoff_tables.length ∧
    6 ≤ SdnsVerif.Gen.C13.backoff_cfgs.length ∧
    (List.zip SdnsVerif.Gen.C13.backoff_cfgs SdnsVerif.Gen.C13.backoff_tables).all
      (fun p => rowOk (p.1.getD 0 0) (p.1.getD 1 0) p.2) = true := by
  decide

/-- **Hard ceiling and defaults of the compiled tree.** No maximum above five
minutes and no minimum below one second is accepted; the built-in and the
config-package defaults lie inside those bounds; rfc9520 is on by default and
the switch turns it off. -/
theorem gen_bounds :
    SdnsVerif.Gen.C13.max_accepted_max_ttl_ns ≤ 300000000000 ∧
    1000000000 ≤ SdnsVerif.Gen.C13.min_accepted_initial_ttl_ns ∧
    1000000000 ≤ SdnsVerif.Gen.C13.default_initial_ns ∧
    SdnsVerif.Gen.C13.default_initial_ns ≤ SdnsVerif.Gen.C13.default_max_ns ∧
    SdnsVerif.Gen.C13.default_max_ns ≤ 300000000000 ∧
    1000000000 ≤ SdnsVerif.Gen.C13.config_default_min_ns ∧
    SdnsVerif.Gen.C13.config_default_min_ns ≤ SdnsVerif.Gen.C13.config_default_max_ns ∧
    SdnsVerif.Gen.C13.config_default_max_ns ≤ 300000000000 ∧
    SdnsVerif.Gen.C13.rfc9520_default_on = true ∧ SdnsVerif.Gen.C13.rfc9520_off_switch = true := by
  decide

/-- **Reply of the compiled tree**: SERVFAIL, exactly one option, EDE 13. -/
theorem gen_response :
    SdnsVerif.Gen.C13.response_rcode = servfail ∧ SdnsVerif.Gen.C13.response_option_count = 1 ∧
    SdnsVerif.Gen.C13.response_ede_codes = [edeCachedError] := by
  decide

/-! ## a hit is for exactly what failed -/

/-- **Exact question or label-wise ancestor zone, before `retryAfter`.** Whatever
the table holds and however the hashes collide, a `Lookup` hit is either a
question state whose stored key IS the normalised asked key (identical folded
name, type, class, CD and normalised ECS scope), or a zone state whose zone is
the canonical spelling of a zone the walk visited for the asked name — whose
labels are a suffix of the asked name's labels — in the asked class; and it is
returned only strictly before its `retryAfter`. -/
theorem hit_is_exact_or_ancestor (H : Hash) (t : Table) (now : Int) (k : QKey) (e : Entry)
    (h : lookup H t now k = some e) :
    now < e.retryAfter ∧
    ((e.kind = .question ∧ e.q = normalizeQ k) ∨
     (e.kind = .zone ∧ ∃ z ∈ walkZones (normalizeQ k).name,
        e.z = ⟨canonicalName z, k.qclass⟩ ∧
        labels z <:+ labels (canonicalName (normalizeQ k).name))) := by
  obtain ⟨hact, hq | ⟨z, hz, hl⟩⟩ := lookup_spec H t now k e h
  · obtain ⟨_, hk, hqq⟩ := loadQuestion_spec H t _ e hq
    exact ⟨hact, Or.inl ⟨hk, hqq⟩⟩
  · obtain ⟨_, hk, hzz⟩ := loadZone_spec H t _ e hl
    refine ⟨hact, Or.inr ⟨hk, z, hz, hzz, ?_⟩⟩
    exact walk_labels_suffix _ _ z hz

/-- for a well-formed (rooted) name the recorded zone itself — not only its
canonical respelling — is the walked ancestor: its labels are a suffix of
the labels of the asked name. `notexample.com.` is never below `example.com.`. -/
theorem zone_hit_is_labelwise_ancestor (H : Hash) (t : Table) (now : Int) (k : QKey) (e : Entry)
    (hwf : isFqdn (canonicalName k.name) = true)
    (h : lookup H t now k = some e) (hk : e.kind = .zone) :
    e.z.qclass = k.qclass ∧ labels e.z.zone <:+ labels (canonicalName k.name) := by
  obtain ⟨_, hq | ⟨_, z, hz, hzz, hsuf⟩⟩ := hit_is_exact_or_ancestor H t now k e h
  · rw [hk] at hq; cases hq.1
  · have hname : (normalizeQ k).name = canonicalName k.name := rfl
    have hidem := canonicalName_idem k.name hwf
    rw [hname, hidem] at hsuf
    have hcanon : canonicalName z = z := by
      unfold walkZones at hz
      simp only [hname, hidem] at hz
      refine walk_canonical _ (canonicalName k.name) z hwf ?_ hz
      unfold canonicalName; exact foldStr_idem _
    rw [hzz, hcanon]
    exact ⟨rfl, hsuf⟩

/-- the same for the wire path: a question hit is unscoped and has the asked
type, class and CD and a name that spells the asked wire name (ASCII
case-insensitively); a zone hit spells a suffix of the wire name that starts
at a label boundary, in the asked class. -/
theorem wire_hit_is_exact_or_ancestor (H : Hash) (t : Table) (now : Int) (w : Wire) (qt qc : Nat) (cd : Bool)
    (e : Entry) (h : lookupWire H t now w qt qc cd = some e) :
    now < e.retryAfter ∧
    ((e.kind = .question ∧ e.q.scope = none ∧ e.q.qtype = qt ∧ e.q.qclass = qc ∧ e.q.cd = cd ∧
        wireEqPres w e.q.name = true) ∨
     (e.kind = .zone ∧ e.z.qclass = qc ∧ ∃ s, wireEqPres s e.z.zone = true ∧
        ∃ ls : List (List Nat), (∀ l ∈ ls, 1 ≤ l.length ∧ l.length ≤ 63) ∧ w = encodeLabels ls ++ s)) := by
  obtain ⟨hact, hq | ⟨hk, hc, s, hs, heq⟩⟩ := lookupWire_spec H t now w qt qc cd e h
  · exact ⟨hact, Or.inl hq⟩
  · exact ⟨hact, Or.inr ⟨hk, hc, s, heq, wireSuffixes_boundary _ w s hs⟩⟩

/-! ## only after an actual failure, only for a bounded time -/

/-- **Invariant over arbitrary histories.** After ANY sequence of
record / reset / reset-matching / purge / evict steps with arbitrary time
stamps, a hit at `now` is backed by a failure that the history recorded for
exactly the asked question (resp. for a label-wise ancestor zone in the asked
class) at some time `τ`, and `now` lies before `τ + backoff(streak)`, hence
before `τ + max` and before `τ + 5 min`; nothing is ever served at or after
its `retryAfter`. -/
theorem active_only_before_retryAfter (H : Hash) (c : Cfg) (hv : c.Valid) (ops : List Op) (now : Int)
    (k : QKey) (e : Entry) (h : lookup H (ops.foldl (applyOp H c) []) now k = some e) :
    now < e.retryAfter ∧
    ∃ ev ∈ events ops,
      ((ev.kind = .question ∧ e.kind = .question ∧ ev.q = normalizeQ k) ∨
       (ev.kind = .zone ∧ e.kind = .zone ∧ ∃ z ∈ walkZones (normalizeQ k).name,
          ev.z = ⟨canonicalName z, k.qclass⟩ ∧ labels z <:+ labels (canonicalName (normalizeQ k).name))) ∧
      e.retryAfter = ev.time + (backoff c e.streak : Int) ∧
      ev.time + (c.initial : Int) ≤ e.retryAfter ∧
      now < ev.time + (c.max : Int) ∧ now < ev.time + ((300 * second : Nat) : Int) := by
  obtain ⟨hact, hcase⟩ := hit_is_exact_or_ancestor H _ now k e h
  have hinv := reachable_inv H c hv ops
  obtain ⟨_, hload⟩ := lookup_spec H _ now k e h
  have hget : ∃ hh, (ops.foldl (applyOp H c) []).get hh = some e := by
    rcases hload with hq | ⟨z, _, hl⟩
    · exact ⟨_, (loadQuestion_spec H _ _ e hq).1⟩
    · exact ⟨_, (loadZone_spec H _ _ e hl).1⟩
  obtain ⟨hh, hg⟩ := hget
  obtain ⟨ev, hev, ⟨hkind, hkey⟩, _, hra⟩ := hinv hh e hg
  obtain ⟨_, _, _, _, henv, hmax⟩ := backoff_envelope c hv
  have hb := henv e.streak
  refine ⟨hact, ev, hev, ?_, hra, by omega, by omega, by omega⟩
  rcases hcase with ⟨hk, hq⟩ | ⟨hk, z, hz, hzz, hsuf⟩
  · left
    rw [hk] at hkind hkey
    exact ⟨hkind, hk, by rw [← hq]; exact hkey⟩
  · right
    rw [hk] at hkind hkey
    exact ⟨hkind, hk, z, hz, by rw [← hzz]; exact hkey, hsuf⟩

/-- **The same on the wire route.** After any history, a `LookupWire` hit is
served strictly before its `retryAfter` and is backed by a failure the history
recorded for exactly the stored key (which `wire_hit_is_exact_or_ancestor`
ties to the asked wire name: the exact unscoped question, or a suffix at a
label boundary) at some `τ` with `now < τ + backoff(streak) ≤ τ + max ≤ τ + 5 min`.
An expired zone or question state is never a hit on this route either. -/
theorem wire_active_only_before_retryAfter (H : Hash) (c : Cfg) (hv : c.Valid) (ops : List Op) (now : Int)
    (w : Wire) (qt qc : Nat) (cd : Bool) (e : Entry)
    (h : lookupWire H (ops.foldl (applyOp H c) []) now w qt qc cd = some e) :
    now < e.retryAfter ∧
    ∃ ev ∈ events ops, keyMatch ev e ∧
      e.retryAfter = ev.time + (backoff c e.streak : Int) ∧
      now < ev.time + (c.max : Int) ∧ now < ev.time + ((300 * second : Nat) : Int) := by
  obtain ⟨hact, _⟩ := wire_hit_is_exact_or_ancestor H _ now w qt qc cd e h
  obtain ⟨hh, hg⟩ := lookupWire_get H _ now w qt qc cd e h
  obtain ⟨ev, hev, hm, _, hra⟩ := reachable_inv H c hv ops hh e hg
  obtain ⟨_, _, _, _, henv, hmax⟩ := backoff_envelope c hv
  have hb := henv e.streak
  exact ⟨hact, ev, hev, hm, hra, by omega, by omega⟩

/-! ## record -/

/-- **Idempotent inside a generation.** Once a failure is recorded, every
further record of the same key before `retryAfter` changes nothing (neither
the deadline nor the streak nor any other entry), whatever provenance or
witness it carries. -/
theorem record_idempotent_in_generation (c : Cfg) (t : Table) (now : Int) (h : UInt64) (cand : Entry)
    (now' : Int) (cand' : Entry)
    (hsame : cand'.kind = cand.kind ∧ cand'.q = cand.q ∧ cand'.z = cand.z)
    (hact : now' < (record c t now h cand).2.retryAfter) :
    record c (record c t now h cand).1 now' h cand' = record c t now h cand := by
  have hg := record_get_self c t now h cand
  have hs : sameKey (record c t now h cand).2 cand' = true := by
    have base : sameKey (record c t now h cand).2 cand = true := by
      rcases record_cases c t now h cand with ⟨_, hr⟩ | ⟨cur, _, hsk, _, hr⟩ | ⟨cur, _, hsk, _, hr⟩
      · rw [hr]; exact sameKey_refl_of _ _ rfl rfl rfl
      · rw [hr]; exact hsk
      · simp only at hr; rw [hr]; exact hsk
    unfold sameKey at base ⊢
    rw [hsame.1, hsame.2.1, hsame.2.2]; exact base
  generalize record c t now h cand = r at *
  obtain ⟨t1, e1⟩ := r
  simp only at hg hs hact
  unfold record
  simp [hg, hs, hact]

/-- **Concurrent renewers advance the streak once.** Two recorders that both
loaded the same expired state race on `CompareAndSwap`: one wins and installs
its result; the loser's next loop iteration is `record` on the winner's
table, and — its clock still before the new `retryAfter` — returns the
winner's state unchanged. (The atomicity of the compare-and-swap itself is
trusted; the `race` op drives real goroutines through it.) -/
theorem streak_advances_once (c : Cfg) (t : Table) (now₁ now₂ : Int) (h : UInt64) (cand₁ cand₂ : Entry)
    (hsame : cand₂.kind = cand₁.kind ∧ cand₂.q = cand₁.q ∧ cand₂.z = cand₁.z)
    (hclock : now₂ < (record c t now₁ h cand₁).2.retryAfter) :
    (record c (record c t now₁ h cand₁).1 now₂ h cand₂).2 = (record c t now₁ h cand₁).2 ∧
    (record c (record c t now₁ h cand₁).1 now₂ h cand₂).1 = (record c t now₁ h cand₁).1 := by
  rw [record_idempotent_in_generation c t now₁ h cand₁ now₂ cand₂ hsame hclock]
  exact ⟨rfl, rfl⟩

/-- the same at the API level: `RecordQuestion` of a key that normalises to
the same key (other spelling, other provenance, other witness). -/
theorem recordQuestion_idempotent (H : Hash) (c : Cfg) (t : Table) (now now' : Int) (k k' : QKey)
    (p w p' w' : Nat) (hk : normalizeQ k' = normalizeQ k)
    (hact : now' < (recordQuestion H c t now k p w).2.retryAfter) :
    recordQuestion H c (recordQuestion H c t now k p w).1 now' k' p' w' = recordQuestion H c t now k p w := by
  unfold recordQuestion at *
  simp only [hk] at *
  exact record_idempotent_in_generation c t now _ _ now' _ ⟨rfl, rfl, rfl⟩ hact

/-- **Starts at the minimum, at most doubles per consecutive failure.** A
record that finds no state for its key (never failed, reset by a success,
purged, evicted, or the slot is held by a colliding key) starts at streak 1
for exactly `initial`. A record that finds its own expired state advances the
streak by at most one, so the new backoff is at most twice the previous one,
within `[initial, max]`; after a quiet `max` it starts over at streak 1. -/
theorem record_backoff_steps (c : Cfg) (hv : c.Valid) (t : Table) (now : Int) (h : UInt64) (cand : Entry) :
    ((t.get h = none ∨ ∃ cur, t.get h = some cur ∧ sameKey cur cand = false) →
        (record c t now h cand).2.streak = 1 ∧
        (record c t now h cand).2.retryAfter = now + (c.initial : Int)) ∧
    (∀ cur, t.get h = some cur → sameKey cur cand = true → ¬ now < cur.retryAfter →
        let e := (record c t now h cand).2
        e.streak ≤ cur.streak + 1 ∧ e.retryAfter = now + (backoff c e.streak : Int) ∧
        backoff c e.streak ≤ 2 * backoff c cur.streak ∧
        c.initial ≤ backoff c e.streak ∧ backoff c e.streak ≤ c.max ∧
        (now - cur.retryAfter ≥ (c.max : Int) → e.streak = 1 ∧ e.retryAfter = now + (c.initial : Int))) := by
  obtain ⟨_, hb1, hdbl, hmono, henv, _⟩ := backoff_envelope c hv
  constructor
  · intro hfresh
    rcases record_cases c t now h cand with ⟨_, hr⟩ | ⟨cur, hg, hs, _, _⟩ | ⟨cur, hg, hs, _, _⟩
    · rw [hr]; exact ⟨rfl, rfl⟩
    · rcases hfresh with hn | ⟨cur', hg', hs'⟩
      · rw [hn] at hg; cases hg
      · rw [hg'] at hg; cases hg; rw [hs] at hs'; cases hs'
    · rcases hfresh with hn | ⟨cur', hg', hs'⟩
      · rw [hn] at hg; cases hg
      · rw [hg'] at hg; cases hg; rw [hs] at hs'; cases hs'
  · intro cur hg hs hexp
    rcases record_cases c t now h cand with ⟨hfresh, _⟩ | ⟨cur', hg', _, hact, _⟩ | ⟨cur', hg', _, _, hr⟩
    · rcases hfresh with hn | ⟨cur', hg', hs'⟩
      · rw [hn] at hg; cases hg
      · rw [hg'] at hg; cases hg; rw [hs] at hs'; cases hs'
    · rw [hg'] at hg; cases hg; exact absurd hact hexp
    · rw [hg'] at hg; cases hg
      simp only at hr
      rw [hr]
      simp only
      have hcur := henv cur.streak
      by_cases hq : now - cur.retryAfter ≥ (c.max : Int)
      · rw [if_pos hq, hb1]
        exact ⟨by omega, trivial, by omega, by omega, by omega, fun _ => ⟨rfl, rfl⟩⟩
      · rw [if_neg hq]
        by_cases hlt : cur.streak < maxStreak
        · rw [if_pos hlt]
          have := hdbl cur.streak
          have := henv (cur.streak + 1)
          exact ⟨by omega, trivial, by omega, by omega, by omega, fun hh => absurd hh hq⟩
        · rw [if_neg hlt]
          exact ⟨by omega, trivial, by omega, by omega, by omega, fun hh => absurd hh hq⟩

/-- **A recorded failure serves the cohort.** Right after `RecordQuestion`
(at the record instant itself, and at every instant before the returned
`retryAfter`) a `Lookup` of the same question returns exactly the recorded
state. So the followers of a single-flight leader whose resolution ended in a
shareable SERVFAIL find an active failure when they wake up and are answered
from it — they do not start their own upstream resolution inside the backoff
that has just begun. -/
theorem recorded_failure_serves_followers (H : Hash) (c : Cfg) (hv : c.Valid) (t : Table) (now : Int) (k : QKey)
    (p w : Nat) :
    now < (recordQuestion H c t now k p w).2.retryAfter ∧
    ∀ now', now' < (recordQuestion H c t now k p w).2.retryAfter →
      lookup H (recordQuestion H c t now k p w).1 now' k = some (recordQuestion H c t now k p w).2 := by
  obtain ⟨_, hb1, _, _, henv, _⟩ := backoff_envelope c hv
  have hpos : 0 < c.initial := by have := hv.1; unfold second at this; omega
  unfold recordQuestion
  simp only
  have hget := record_get_self c t now (H.q (normalizeQ k)) (questionCandidate (normalizeQ k) p w)
  have hkey : (record c t now (H.q (normalizeQ k)) (questionCandidate (normalizeQ k) p w)).2.kind = .question ∧
      (record c t now (H.q (normalizeQ k)) (questionCandidate (normalizeQ k) p w)).2.q = normalizeQ k ∧
      now < (record c t now (H.q (normalizeQ k)) (questionCandidate (normalizeQ k) p w)).2.retryAfter := by
    rcases record_cases c t now (H.q (normalizeQ k)) (questionCandidate (normalizeQ k) p w)
      with ⟨_, hr⟩ | ⟨cur, _, hs, hact, hr⟩ | ⟨cur, _, hs, _, hr⟩
    · rw [hr]; exact ⟨rfl, rfl, by simp only; omega⟩
    · rw [hr]
      unfold sameKey questionCandidate at hs
      simp only [Bool.and_eq_true, beq_iff_eq] at hs
      obtain ⟨hk, hm⟩ := hs
      rw [hk] at hm
      exact ⟨hk, by simpa using hm, hact⟩
    · simp only at hr
      rw [hr]
      unfold sameKey questionCandidate at hs
      simp only [Bool.and_eq_true, beq_iff_eq] at hs
      obtain ⟨hk, hm⟩ := hs
      rw [hk] at hm
      refine ⟨hk, by simpa using hm, ?_⟩
      simp only
      have : ∀ s, 0 < backoff c s := fun s => by have := (henv s).1; omega
      split
      · have := this 1; omega
      · split
        · have := this (cur.streak + 1); omega
        · have := this cur.streak; omega
  refine ⟨hkey.2.2, fun now' hact => ?_⟩
  unfold lookup loadQuestion
  simp only [hget, hkey.1, hkey.2.1, and_self, if_true, hact]

/-! ## a useful answer resets the backoff -/

/-- **Success resets.** After `ResetMatching` for a (well-formed) question,
that question is not suppressed at any time — neither by its exact state nor
by any zone state above it — and no retry generation is left for it. -/
theorem success_resets (H : Hash) (t : Table) (k : QKey) (hwf : isFqdn (canonicalName k.name) = true)
    (now : Int) :
    lookup H (resetMatching H t k).1 now k = none ∧ retryKey H (resetMatching H t k).1 now k = none := by
  have hidem := normalizeQ_idem k hwf
  have hq : loadQuestion H (resetMatching H t k).1 (normalizeQ k) = none := by
    unfold resetMatching
    simp only
    refine loadQuestion_none_of_deleted H (resetQuestion H t (normalizeQ k)).1 _ _ (resetZones_get_some H _ _ _ _) ?_
    have := resetQuestion_load_none H t (normalizeQ k)
    rwa [hidem] at this
  have hz : ∀ z ∈ walkZones (normalizeQ k).name, loadZone H (resetMatching H t k).1 ⟨z, (normalizeQ k).qclass⟩ = none := by
    intro z hz
    unfold resetMatching
    simp only
    exact resetZones_load_none H _ _ _ _ z hz
  have hfa : firstActiveZone H (resetMatching H t k).1 now (normalizeQ k).qclass (walkZones (normalizeQ k).name) = none :=
    firstActiveZone_none_of H _ now _ _ (fun z hz' e he => by rw [hz z hz'] at he; cases he)
  constructor
  · unfold lookup; simp only [hq, hfa]
  · unfold retryKey
    simp only [hq]
    have : ∀ (zs : List Str) (acc : Option UInt64),
        (∀ z ∈ zs, loadZone H (resetMatching H t k).1 ⟨z, (normalizeQ k).qclass⟩ = none) →
        retryWalk H (resetMatching H t k).1 now (normalizeQ k).qclass zs acc = some acc := by
      intro zs
      induction zs with
      | nil => intro acc _; rfl
      | cons z rest ih =>
        intro acc hall
        unfold retryWalk
        rw [hall z List.mem_cons_self]
        exact ih acc (fun z' hz' => hall z' (List.mem_cons_of_mem _ hz'))
    rw [this _ none hz]

/-- …and the next failure of that question starts a new episode at the minimum. -/
theorem after_success_backoff_restarts (H : Hash) (c : Cfg) (t : Table) (k : QKey)
    (hwf : isFqdn (canonicalName k.name) = true) (now : Int) (p w : Nat) :
    (recordQuestion H c (resetMatching H t k).1 now k p w).2.streak = 1 ∧
    (recordQuestion H c (resetMatching H t k).1 now k p w).2.retryAfter = now + (c.initial : Int) := by
  have hidem := normalizeQ_idem k hwf
  have hq : loadQuestion H (resetMatching H t k).1 (normalizeQ k) = none := by
    unfold resetMatching
    simp only
    refine loadQuestion_none_of_deleted H (resetQuestion H t (normalizeQ k)).1 _ _ (resetZones_get_some H _ _ _ _) ?_
    have := resetQuestion_load_none H t (normalizeQ k)
    rwa [hidem] at this
  unfold recordQuestion
  simp only
  rcases record_cases c (resetMatching H t k).1 now (H.q (normalizeQ k)) (questionCandidate (normalizeQ k) p w)
    with ⟨_, hr⟩ | ⟨cur, hg, hs, _, _⟩ | ⟨cur, hg, hs, _, _⟩
  · rw [hr]; exact ⟨rfl, rfl⟩
  all_goals
    exfalso
    unfold loadQuestion at hq
    rw [hg] at hq
    unfold sameKey questionCandidate at hs
    simp only [Bool.and_eq_true, beq_iff_eq] at hs
    obtain ⟨hk, hm⟩ := hs
    rw [hk] at hm
    simp only [beq_iff_eq] at hm
    simp [hk, hm] at hq

/-- **A useful answer resets the audience that asked.** Whatever audience the
recovering answer itself is filed under (shared, or a clamped ECS SCOPE that
differs from the client's source prefix), after `ResponseWriter.WriteMsg`
stored it the requesting audience `k.scope` has no exact state, no covering
zone state and no retry generation left for the question, and its next
failure starts again at the configured minimum. -/
theorem useful_answer_resets_requesting_audience (H : Hash) (s : Store) (now : Int) (k : QKey)
    (answerScoped : Bool) (hen : s.disabled = false) (hwf : isFqdn (canonicalName k.name) = true)
    (now' : Int) (p w : Nat) :
    lookup H (s.writeBackAnswer H now k answerScoped).tab now' k = none ∧
    retryKey H (s.writeBackAnswer H now k answerScoped).tab now' k = none ∧
    (recordQuestion H s.cfg (s.writeBackAnswer H now k answerScoped).tab now' k p w).2.streak = 1 ∧
    (recordQuestion H s.cfg (s.writeBackAnswer H now k answerScoped).tab now' k p w).2.retryAfter
      = now' + (s.cfg.initial : Int) := by
  have hd : (s.setFromResponse H now k.name k.qtype k.qclass k.cd answerScoped .useful).disabled = false := by
    cases answerScoped <;> simp [Store.setFromResponse, Store.resetQuestionFailure, hen]
  have htab : (s.writeBackAnswer H now k answerScoped).tab
      = (resetMatching H (s.setFromResponse H now k.name k.qtype k.qclass k.cd answerScoped .useful).tab k).1 := by
    simp [Store.writeBackAnswer, Store.resetMatchingFailures, hd]
  rw [htab]
  obtain ⟨h1, h2⟩ := success_resets H _ k hwf now'
  obtain ⟨h3, h4⟩ := after_success_backoff_restarts H s.cfg _ k hwf now' p w
  exact ⟨h1, h2, h3, h4⟩

/-! ## the well-formedness hypothesis holds for every wire-born name -/

/-- **Names decoded from the wire are rooted.** Whatever bytes the labels
hold (dots, backslashes, spaces, control and high bytes — all escaped by the
decoder), the presentation form `writeWireName` / the message decoder produces
ends in an unescaped dot, before and after case folding. So the hypothesis
`isFqdn (canonicalName name)` of `zone_hit_is_labelwise_ancestor`,
`success_resets`, `after_success_backoff_restarts` and
`useful_answer_resets_requesting_audience` is discharged for every question
that reached the server in a DNS message. -/
theorem wire_born_names_are_wellformed (w : Wire) (p : Str) (h : wirePres w = some p) :
    isFqdn (canonicalName p) = true ∧ isFqdn (canonicalName (foldStr p)) = true :=
  ⟨(wirePres_wellformed w p h).2.1, (wirePres_wellformed w p h).2.2⟩

/-- `success_resets` and the label-wise ancestry without any side condition,
for questions whose name came off the wire. -/
theorem wire_born_question_guarantees (H : Hash) (t : Table) (w : Wire) (p : Str) (hw : wirePres w = some p)
    (k : QKey) (hk : k.name = p) (now : Int) :
    (lookup H (resetMatching H t k).1 now k = none ∧ retryKey H (resetMatching H t k).1 now k = none) ∧
    (∀ e, lookup H t now k = some e → e.kind = .zone →
        e.z.qclass = k.qclass ∧ labels e.z.zone <:+ labels (canonicalName k.name)) := by
  have hwf : isFqdn (canonicalName k.name) = true := by
    rw [hk]; exact (wire_born_names_are_wellformed w p hw).1
  exact ⟨success_resets H t k hwf now, fun e he hz => zone_hit_is_labelwise_ancestor H t now k e hwf he hz⟩

/-! ## request-local failures never become shared state -/

/-- **Local causes are never shared (question state).** If the request was
cancelled or past its deadline, is optional enrichment, hit its work budget,
or this exact response was marked with a request-local cause (work budget,
attempt limit, shed probe follower, load shed at the resolver's own admission, recursion depth, cancellation,
deadline), `cacheableResolutionFailure` is false and the write-back leaves
the store untouched. -/
theorem local_causes_never_shared (ctx : Ctx)
    (hlocal : ctx.ended = true ∨ ctx.bestEffort = true ∨ ctx.workLimit = true ∨ ctx.marked.isRequestLocal = true) :
    cacheableResolutionFailure ctx = false ∧
    ∀ (H : Hash) (s : Store) (now : Int) (k : QKey) (wit : Nat), s.writeBackFailure H now ctx k wit = s := by
  have hc : cacheableResolutionFailure ctx = false := by
    unfold cacheableResolutionFailure
    rcases hlocal with h | h | h | h <;> simp [h]
  exact ⟨hc, fun H s now k wit => by unfold Store.writeBackFailure; simp [hc]⟩

/-- every cause `MarkRequestLocalFailureResponse` accepts is one of those. -/
theorem marked_causes_are_local :
    Cause.isRequestLocal .workLimit = true ∧ Cause.isRequestLocal .attemptLimit = true ∧
    Cause.isRequestLocal .probeLimit = true ∧ Cause.isRequestLocal .loadShed = true ∧
    Cause.isRequestLocal .maxRecursion = true ∧
    Cause.isRequestLocal .canceled = true ∧ Cause.isRequestLocal .deadline = true := by
  decide

/-- **Local causes are never shared (zone state).** No zone failure is
published for a cancelled / expired / best-effort request tree, for an empty
zone, from a nameserver-address lookup, from a non-fatal error, nor when the
error is a work-budget, attempt-limit, recursion-depth, cancellation or
deadline error — by `handleLookupError` or by the failure-rcode path. -/
theorem local_causes_never_recorded_as_zone_failure (ctx : Ctx) (zoneEmpty nsl : Bool) (r : LookupResult)
    (hrec : resolveRecordsZone ctx zoneEmpty nsl r = true) :
    ctx.ended = false ∧ ctx.bestEffort = false ∧ zoneEmpty = false ∧
    (∀ e, r = .error e → e.fatal = true ∧ nsl = false ∧
        e.cause ≠ .workLimit ∧ e.cause ≠ .attemptLimit ∧ e.cause ≠ .maxRecursion ∧
        e.cause ≠ .canceled ∧ e.cause ≠ .deadline) := by
  cases r with
  | resp rc =>
    unfold resolveRecordsZone zoneFailureAdmitted at hrec
    simp only [Bool.and_eq_true, Bool.not_eq_true'] at hrec
    obtain ⟨_, ⟨⟨⟨hz, hb⟩, he⟩, _⟩⟩ := hrec
    exact ⟨he, hb, hz, fun e h => by cases h⟩
  | error e =>
    unfold resolveRecordsZone handleLookupErrorRecords at hrec
    obtain ⟨f, cause⟩ := e
    cases f <;> cases nsl <;> cases cause <;>
      simp [zoneFailureAdmitted] at hrec <;>
      (obtain ⟨⟨hz, hb⟩, he⟩ := hrec
       refine ⟨he, hb, hz, ?_⟩
       intro e' h'; cases h'; simp)

/-! ## a zone failure needs every server to have failed -/

/-- one server's outcome that is no usable response and no request-local rejection. -/
def Failed : Outcome → Prop
  | .err c => c ≠ .workLimit ∧ c ≠ .attemptLimit
  | .rcode rc => rc ≠ nxdomain
  | .bogusReferral => True
  | .good => False

theorem pick_poisoned (ctx : Ctx) (ze nsl : Bool) (resp : List Nat) (config : Nat) (fatal : List Cause)
    (hbad : nxdomain ∈ resp ∨ Cause.attemptLimit ∈ fatal) :
    resolveRecordsZone ctx ze nsl (pickFallback resp config fatal) = false := by
  by_cases hw : Cause.workLimit ∈ fatal
  · simp [pickFallback, hw, resolveRecordsZone, handleLookupErrorRecords]
  · by_cases hn : nxdomain ∈ resp
    · simp [pickFallback, hw, hn, resolveRecordsZone, failureRcode]
    · rcases hbad with hb | hb
      · exact absurd hb hn
      · simp [pickFallback, hw, hn, hb, resolveRecordsZone, handleLookupErrorRecords]

theorem fold_poisoned (ctx : Ctx) (ze nsl lowLevel : Bool) : ∀ (outs : List Outcome) (resp : List Nat) (config : Nat)
    (fatal : List Cause), (nxdomain ∈ resp ∨ Cause.attemptLimit ∈ fatal) →
    resolveRecordsZone ctx ze nsl (lookupFold lowLevel outs resp config fatal) = false := by
  intro outs
  induction outs with
  | nil => intro resp config fatal hbad; exact pick_poisoned ctx ze nsl resp config fatal hbad
  | cons o rest ih =>
    intro resp config fatal hbad
    unfold lookupFold
    cases o with
    | err c =>
      simp only
      split
      · simp [resolveRecordsZone, handleLookupErrorRecords]
      · exact ih _ _ _ (hbad.imp id (fun h => List.mem_append_left _ h))
    | rcode rc =>
      simp only
      have hbad' : nxdomain ∈ resp ++ [rc] ∨ Cause.attemptLimit ∈ fatal := hbad.imp (fun h => List.mem_append_left _ h) id
      split
      · exact pick_poisoned ctx ze nsl _ config fatal hbad'
      · exact ih _ _ _ hbad'
    | bogusReferral => exact ih _ _ _ hbad
    | good => simp [resolveRecordsZone, failureRcode]

theorem fold_records_all_failed (ctx : Ctx) (ze nsl lowLevel : Bool) : ∀ (outs : List Outcome) (resp : List Nat)
    (config : Nat) (fatal : List Cause),
    resolveRecordsZone ctx ze nsl (lookupFold lowLevel outs resp config fatal) = true → ∀ o ∈ outs, Failed o := by
  intro outs
  induction outs with
  | nil => intro _ _ _ _ o ho; simp at ho
  | cons o rest ih =>
    intro resp config fatal hrec o' ho'
    unfold lookupFold at hrec
    cases o with
    | err c =>
      simp only at hrec
      by_cases hc : c = .workLimit
      · simp [hc, resolveRecordsZone, handleLookupErrorRecords] at hrec
      · simp only [hc, if_false] at hrec
        rcases List.mem_cons.mp ho' with rfl | hr
        · refine ⟨hc, ?_⟩
          intro ha
          have := fold_poisoned ctx ze nsl lowLevel rest resp config (fatal ++ [c])
            (Or.inr (List.mem_append_right _ (by simp [ha])))
          rw [this] at hrec; cases hrec
        · exact ih _ _ _ hrec o' hr
    | rcode rc =>
      simp only at hrec
      have hne : rc ≠ nxdomain := by
        intro hrc
        have hbad : nxdomain ∈ resp ++ [rc] ∨ Cause.attemptLimit ∈ fatal := Or.inl (List.mem_append_right _ (by simp [hrc]))
        split at hrec
        · rw [pick_poisoned ctx ze nsl _ config fatal hbad] at hrec; cases hrec
        · rw [fold_poisoned ctx ze nsl lowLevel rest _ config fatal hbad] at hrec; cases hrec
      rcases List.mem_cons.mp ho' with rfl | hr
      · exact hne
      · split at hrec
        · rename_i hbrk; exact absurd hbrk.2 hne
        · exact ih _ _ _ hrec o' hr
    | bogusReferral =>
      rcases List.mem_cons.mp ho' with rfl | hr
      · trivial
      · exact ih _ _ _ hrec o' hr
    | good => simp [resolveRecordsZone, failureRcode] at hrec

/-- **Zone failure only if all servers failed.** If a lookup over a server
set ends with a zone failure being published, then — whatever the arrival
order — EVERY server of the set produced no usable response: an error
(no reply / connection error) that is not a request-local limit, a failure
rcode (anything but NOERROR and NXDOMAIN), or a referral the resolver
rejected; none answered NOERROR or NXDOMAIN; and the request tree was
neither cancelled, expired nor best-effort. -/
theorem zone_failure_only_if_all_failed (ctx : Ctx) (zoneEmpty nsl lowLevel : Bool) (outs : List Outcome)
    (hrec : resolveRecordsZone ctx zoneEmpty nsl (lookupFold lowLevel outs [] 0 []) = true) :
    (∀ o ∈ outs, Failed o) ∧ ctx.ended = false ∧ ctx.bestEffort = false ∧ zoneEmpty = false :=
  ⟨fold_records_all_failed ctx zoneEmpty nsl lowLevel outs [] 0 [] hrec,
   (local_causes_never_recorded_as_zone_failure ctx zoneEmpty nsl _ hrec).1,
   (local_causes_never_recorded_as_zone_failure ctx zoneEmpty nsl _ hrec).2.1,
   (local_causes_never_recorded_as_zone_failure ctx zoneEmpty nsl _ hrec).2.2.1⟩

/-- the host's address lookup failed, and not for a reason `lookupV4Nss` treats as request-local. -/
def GenuineNSFailure (o : NSAddr) : Prop :=
  ∃ c, o = .failed c ∧ (c.isRequestLocal = false ∨ c = .probeLimit)

theorem nss_noServers (outs : List NSAddr) : ∀ (have_ : Bool) (soft : Option Cause),
    lookupV4Nss outs have_ soft = .noServers →
    have_ = false ∧ soft = none ∧ ∀ o ∈ outs, GenuineNSFailure o := by
  induction outs with
  | nil =>
    intro have_ soft h
    unfold lookupV4Nss at h
    cases have_ <;> cases soft <;> simp at h
    exact ⟨rfl, rfl, fun o ho => by simp at ho⟩
  | cons o rest ih =>
    intro have_ soft h
    cases o with
    | found =>
      unfold lookupV4Nss at h
      have := (ih true soft h).1
      cases this
    | failed c =>
      unfold lookupV4Nss at h
      split at h
      · cases h
      · split at h
        · have := (ih have_ (some c) h).2.1
          cases this
        · rename_i h1 h2
          obtain ⟨ha, hs, hall⟩ := ih have_ soft h
          refine ⟨ha, hs, ?_⟩
          intro o' ho'
          rcases List.mem_cons.mp ho' with rfl | hr
          · refine ⟨c, rfl, ?_⟩
            cases c <;> simp_all [Cause.isRequestLocal]
          · exact hall o' hr

/-- **A shed or request-local sub-lookup is not an unreachable zone.** A
glueless delegation is published as an unreachable zone only if no server
address was known or found and EVERY name-server host's address lookup failed
genuinely — none of them was refused for a reason local to this request tree
(work budget, recursion depth, cancellation, deadline, attempt limit, load
shed by the resolver's own in-flight ceilings); and the request tree itself
is neither ended nor best-effort. (A shed probe follower — `probeLimit` — is
the one request-local cause `lookupV4Nss` does not single out; the internal
sub-pipeline never elects probe followers.) -/
theorem shed_sub_lookup_is_not_an_unreachable_zone (ctx : Ctx) (zoneEmpty glue : Bool) (outs : List NSAddr)
    (h : delegationRecordsZone ctx zoneEmpty (lookupV4Nss outs glue none) = true) :
    glue = false ∧ ctx.ended = false ∧ ctx.bestEffort = false ∧ zoneEmpty = false ∧
    ∀ o ∈ outs, GenuineNSFailure o := by
  cases hr : lookupV4Nss outs glue none with
  | servers => rw [hr] at h; simp [delegationRecordsZone] at h
  | error c => rw [hr] at h; simp [delegationRecordsZone] at h
  | noServers =>
    rw [hr] at h
    obtain ⟨hg, _, hall⟩ := nss_noServers outs glue none hr
    simp only [delegationRecordsZone, zoneFailureAdmitted, Bool.and_eq_true, Bool.not_eq_true'] at h
    exact ⟨hg, h.1.2, h.1.1.2, h.1.1.1, hall⟩

-- non-vacuity: two hosts that genuinely fail do publish the zone; one shed host does not
example : delegationRecordsZone ⟨false, false, false, .none⟩ false
    (lookupV4Nss [.failed .other, .failed .none] false none) = true := by decide
example : delegationRecordsZone ⟨false, false, false, .none⟩ false
    (lookupV4Nss [.failed .other, .failed .loadShed] false none) = false := by decide
example : lookupV4Nss [.failed .loadShed, .found] false none = .servers := by decide

theorem nssProv_fst (outs : List NSAddr) : ∀ (have_ : Bool) (soft : Option Cause) (prov : Bool),
    (lookupV4NssProv outs have_ soft prov).1 = lookupV4Nss outs have_ soft := by
  induction outs with
  | nil => intro _ _ _; rfl
  | cons o rest ih =>
    intro have_ soft prov
    cases o with
    | found => unfold lookupV4NssProv lookupV4Nss; exact ih _ _ _
    | failed c =>
      unfold lookupV4NssProv lookupV4Nss
      split
      · rfl
      · split <;> exact ih _ _ _

theorem nssProv_abort (outs : List NSAddr) : ∀ (have_ : Bool) (soft : Option Cause) (prov : Bool) (c : Cause),
    (∀ s, soft = some s → s = .attemptLimit ∨ s = .loadShed) →
    (lookupV4NssProv outs have_ soft prov).1 = .error c →
    (c = .workLimit ∨ c = .maxRecursion ∨ c = .canceled ∨ c = .deadline) →
    (lookupV4NssProv outs have_ soft prov).2 = false := by
  induction outs with
  | nil =>
    intro have_ soft prov c hs h hc
    unfold lookupV4NssProv lookupV4Nss at h
    cases have_ <;> cases soft with
    | none => simp at h
    | some s =>
      simp at h
      -- only a remembered soft refusal can come out of the empty list: never a hard cause
      try (exfalso; subst h; rcases hs s rfl with h' | h' <;> rcases hc with hc | hc | hc | hc <;> rw [hc] at h' <;> cases h')
  | cons o rest ih =>
    intro have_ soft prov c hs h hc
    cases o with
    | found => unfold lookupV4NssProv at h ⊢; exact ih _ _ _ c hs h hc
    | failed c' =>
      unfold lookupV4NssProv at h ⊢
      split
      · rfl
      · rename_i hhard
        split
        · rename_i hsoft
          simp only [hhard, if_false, hsoft, if_true] at h
          refine ih _ _ _ c ?_ h hc
          intro s hs'; cases hs'; exact hsoft
        · rename_i hsoft
          simp only [hhard, if_false, hsoft] at h
          exact ih _ _ _ c hs h hc

/-- **A request that aborts the name-server address collection takes its
truncated provisional delegation with it.** Whenever `lookupV4Nss` returns a
work-budget, recursion-bound, cancellation or deadline error, no provisional
delegation is left behind — so a later, independent request can never mistake
the servers found so far for the zone's whole server set and publish the zone
as unreachable on their account. (`lookupV4NssProv` refines `lookupV4Nss`.) -/
theorem aborted_collection_leaves_no_provisional_delegation (outs : List NSAddr) (glue : Bool) (c : Cause)
    (h : lookupV4Nss outs glue none = .error c)
    (hc : c = .workLimit ∨ c = .maxRecursion ∨ c = .canceled ∨ c = .deadline) :
    lookupV4NssProv outs glue none false = (.error c, false) := by
  have h1 := nssProv_fst outs glue none false
  have h2 := nssProv_abort outs glue none false c (by intro s hs; cases hs) (by rw [h1]; exact h) hc
  exact Prod.ext (by rw [h1]; exact h) h2

-- non-vacuity: two addresses found, then the budget runs out: the error is returned and nothing is left;
-- a soft refusal after a found address leaves the (complete-so-far) provisional entry for the final Set
example : lookupV4NssProv [.found, .found, .failed .workLimit, .found] false none false = (.error .workLimit, false) := by decide
example : lookupV4NssProv [.found, .failed .loadShed, .found] false none false = (.servers, true) := by decide

/-- **The failover route keeps request-local provenance, and recovery through a
fallback is a recovery.** When the primary path's SERVFAIL was request-local
and no fallback server helps, the cache writer leaves the store untouched
(the failing fallback's response inherits the mark; the cache's own probe shed
never engages the fallback at all). When a fallback answers, the client's
question is reset exactly as after any useful answer. -/
theorem failover_route_admission (H : Hash) (s : Store) (now : Int) (k : QKey) (c : Cause)
    (hc : c.isRequestLocal = true) :
    (∀ fb, fb = Upstream.servfail ∨ fb = Upstream.refused ∨ (∃ c', fb = Upstream.localFail c') →
        s.serveViaFailover H now k (.localFail c) fb = s) ∧
    (failoverWrite (.localFail .probeLimit) .useful).fallbackAsked = false ∧
    (∀ p, p = Upstream.servfail ∨ (∃ c', p = Upstream.localFail c' ∧ c' ≠ .probeLimit) →
        s.serveViaFailover H now k p .useful = s.writeBackAnswer H now k false) := by
  have hmark : (Upstream.localFail c).mark = c := by simp [Upstream.mark, hc]
  refine ⟨?_, by decide, ?_⟩
  · intro fb hfb
    have hlocal : ∀ m : Cause, m.isRequestLocal = true →
        s.writeBackFailure H now ⟨false, false, false, m⟩ k 0 = s :=
      fun m hm => (local_causes_never_shared ⟨false, false, false, m⟩ (Or.inr (Or.inr (Or.inr hm)))).2 H s now k 0
    unfold Store.serveViaFailover failoverWrite
    simp only [hmark]
    by_cases hp : c = .probeLimit
    · subst hp; simp; exact hlocal _ (by decide)
    · simp only [hp, if_false]
      rcases hfb with rfl | rfl | ⟨c', rfl⟩ <;> simp <;> exact hlocal c hc
  · intro p hp
    rcases hp with rfl | ⟨c', rfl, hne⟩
    · simp [Store.serveViaFailover, failoverWrite, Upstream.mark]
    · unfold Store.serveViaFailover failoverWrite
      have : (Upstream.localFail c').mark ≠ .probeLimit := by
        unfold Upstream.mark
        by_cases h : c'.isRequestLocal = true <;> simp [h, hne]
      simp [this]

/-- **Optional enrichment never becomes shared state.** Whatever request tree
the detached IPv6 name-server address job was started from (any accounting
mode: with or without a work ledger), nothing it fails at is admitted: its
SERVFAILs are not cacheable, the write-back is the identity, and no lookup
result publishes a zone failure. -/
theorem optional_enrichment_never_shared (c : Ctx) :
    cacheableResolutionFailure (v6JobCtx c) = false ∧
    (∀ (H : Hash) (s : Store) (now : Int) (k : QKey) (w : Nat), s.writeBackFailure H now (v6JobCtx c) k w = s) ∧
    (∀ ze nsl r, resolveRecordsZone (v6JobCtx c) ze nsl r = false) ∧
    (∀ ze r, delegationRecordsZone (v6JobCtx c) ze r = false) := by
  have h := local_causes_never_shared (v6JobCtx c) (Or.inr (Or.inl rfl))
  refine ⟨h.1, h.2, ?_, ?_⟩
  · intro ze nsl r
    cases hr : resolveRecordsZone (v6JobCtx c) ze nsl r with
    | false => rfl
    | true => have := (local_causes_never_recorded_as_zone_failure _ ze nsl r hr).2.1; simp [v6JobCtx] at this
  · intro ze r
    cases r <;> simp [delegationRecordsZone, zoneFailureAdmitted, v6JobCtx]

/-- **The Store's own reset on the sub-query route.** A useful unscoped write
through `Store.SetFromResponse` — answer, referral, NXDOMAIN or NODATA alike
(`RespClass.useful`) — leaves no exact state for that (well-formed) question,
so its next failure starts at the minimum; and `ClearZoneFailure` removes the
zone's state whether or not it is still active. -/
theorem store_route_resets (H : Hash) (s : Store) (now : Int) (k : QKey) (hen : s.disabled = false)
    (hwf : isFqdn (canonicalName k.name) = true) (hsc : k.scope = none) :
    loadQuestion H (s.setFromResponse H now k.name k.qtype k.qclass k.cd false .useful).tab (normalizeQ k) = none ∧
    (∀ now' p w, (recordQuestion H s.cfg (s.setFromResponse H now k.name k.qtype k.qclass k.cd false .useful).tab now' k p w).2.streak = 1) ∧
    (∀ zone cls, zone ≠ [] → loadZone H (s.clearZoneFailure H cls zone).tab ⟨zone, cls⟩ = none) := by
  have hk : (⟨k.name, k.qtype, k.qclass, k.cd, none⟩ : QKey) = k := by cases k; simp_all
  have htab : (s.setFromResponse H now k.name k.qtype k.qclass k.cd false .useful).tab = (resetQuestion H s.tab k).1 := by
    simp [Store.setFromResponse, Store.resetQuestionFailure, hen, hk]
  have hload : loadQuestion H (resetQuestion H s.tab k).1 (normalizeQ k) = none := resetQuestion_load_none H s.tab k
  refine ⟨by rw [htab]; exact hload, ?_, ?_⟩
  · intro now' p w
    rw [htab]
    unfold recordQuestion
    simp only
    rcases record_cases s.cfg (resetQuestion H s.tab k).1 now' (H.q (normalizeQ k)) (questionCandidate (normalizeQ k) p w)
      with ⟨_, hr⟩ | ⟨cur, hg, hs, _, _⟩ | ⟨cur, hg, hs, _, _⟩
    · rw [hr]
    all_goals
      exfalso
      unfold loadQuestion at hload
      rw [hg] at hload
      unfold sameKey questionCandidate at hs
      simp only [Bool.and_eq_true, beq_iff_eq] at hs
      obtain ⟨hkk, hm⟩ := hs
      rw [hkk] at hm
      simp only [beq_iff_eq] at hm
      simp [hkk, hm] at hload
  · intro zone cls hz
    have : (s.clearZoneFailure H cls zone).tab = (resetZone H s.tab ⟨zone, cls⟩).1 := by
      simp [Store.clearZoneFailure, hen, hz]
    rw [this]
    exact resetZone_load_none H s.tab ⟨zone, cls⟩

/-- **A denial or an answer from any server rules a zone failure out.** If
some server of the set answered NXDOMAIN (with or without an SOA — the rcode
alone is the denial) or gave the usable NOERROR response, no arrival order
makes the lookup publish a zone failure. -/
theorem usable_response_never_publishes_zone_failure (ctx : Ctx) (zoneEmpty nsl lowLevel : Bool)
    (outs : List Outcome) (h : Outcome.rcode nxdomain ∈ outs ∨ Outcome.good ∈ outs) :
    resolveRecordsZone ctx zoneEmpty nsl (lookupFold lowLevel outs [] 0 []) = false := by
  cases hr : resolveRecordsZone ctx zoneEmpty nsl (lookupFold lowLevel outs [] 0 []) with
  | false => rfl
  | true =>
    have hall := (zone_failure_only_if_all_failed ctx zoneEmpty nsl lowLevel outs hr).1
    rcases h with h | h
    · exact absurd rfl (hall _ h)
    · exact (hall _ h).elim

/-! ## the per-address circuit breaker -/

/-- **The breaker refuses only what failed five times in a row, and only for
30 s.** After ANY history of `canQuery` / `recordFailure` / `recordSuccess` /
`cleanupOnce` steps with arbitrary time stamps, an address is refused only if
its record is open, has counted at least five failures since it was last
closed or re-admitted, and its last failure lies at most 30 s back; so
`Resolver.lookup` can treat an address as failed without asking it only on
that evidence, never longer. -/
theorem breaker_refuses_only_recent_repeated_failure (ops : List BOp) (nowMs : Int) (a : String)
    (h : ((ops.foldl applyB []).canQuery nowMs a).2 = false) :
    ∃ sf, (ops.foldl applyB []).get a = some sf ∧ sf.disabled = true ∧ 5 ≤ sf.count ∧
      nowMs - sf.last * 1000 ≤ 30000 := by
  have hinv := breaker_reachable_inv ops
  generalize ops.foldl applyB [] = b at *
  unfold Breaker.canQuery at h
  cases hg : b.get a with
  | none => rw [hg] at h; cases h
  | some sf =>
    rw [hg] at h
    simp only at h
    by_cases hd : sf.disabled = true
    · by_cases ht : nowMs - sf.last * 1000 > 30000
      · simp [hd, ht] at h
      · exact ⟨sf, rfl, hd, hinv _ (bget_mem b a sf hg) hd, by omega⟩
    · simp [hd] at h

/-- **A success closes the breaker; 30 s of silence re-admit the address.** -/
theorem breaker_readmits (b : Breaker) (nowMs : Int) (a : String) :
    ((b.recordSuccess a).canQuery nowMs a).2 = true ∧
    (∀ sf, b.get a = some sf → nowMs - sf.last * 1000 > 30000 → (b.canQuery nowMs a).2 = true) ∧
    (b.get a = none → (b.canQuery nowMs a).2 = true) := by
  refine ⟨?_, ?_, ?_⟩
  · unfold Breaker.recordSuccess
    cases hg : b.get a with
    | none => simp [Breaker.canQuery, hg]
    | some sf => simp [Breaker.canQuery, bget_put_self]
  · intro sf hg ht
    unfold Breaker.canQuery
    rw [hg]
    simp only
    by_cases hd : sf.disabled = true <;> simp [hd, ht]
  · intro hg
    simp [Breaker.canQuery, hg]

/-- an attempt that ended for the request tree's own reasons. -/
def attemptRequestLocal : Attempt → Prop
  | .refused c => c = .workLimit ∨ c = .attemptLimit ∨ c = .probeLimit ∨ c = .maxRecursion
  | .endedBefore => True
  | .endedDuring => True
  | _ => False

/-- **Only authority-side evidence reaches the breaker.** An attempt counts as
a failure of the address exactly when the authority stayed silent / the
connection failed (or `exchange` returned an error that is none of the
request-tree refusals) while the request was still live; a reply of ANY rcode
counts as a success; an attempt refused by the tree's own limits or cut short
by cancellation / the client's deadline counts as nothing. -/
theorem breaker_fed_only_by_authority_evidence (at_ : Attempt) :
    (attemptRequestLocal at_ → breakerFeed at_ = .nothing) ∧
    (∀ rc, at_ = .reply rc → breakerFeed at_ = .success) ∧
    (breakerFeed at_ = .failure → at_ = .silent ∨ ∃ c, at_ = .refused c ∧ ¬ attemptRequestLocal (Attempt.refused c)) := by
  refine ⟨?_, ?_, ?_⟩
  · intro h
    cases at_ with
    | refused c => simp only [attemptRequestLocal] at h; simp [breakerFeed, h]
    | endedBefore => rfl
    | endedDuring => rfl
    | reply _ => exact h.elim
    | silent => exact h.elim
  · intro rc h; subst h; rfl
  · intro h
    cases at_ with
    | reply _ => simp [breakerFeed] at h
    | silent => exact Or.inl rfl
    | refused c =>
      right
      refine ⟨c, rfl, ?_⟩
      intro hl
      simp only [attemptRequestLocal] at hl
      simp [breakerFeed, hl] at h
    | endedBefore => simp [breakerFeed] at h
    | endedDuring => simp [breakerFeed] at h

theorem feed_keeps_closed (b : Breaker) (nowMs : Int) (a : String) (at_ : Attempt)
    (hf : breakerFeed at_ ≠ .failure) (hc : ∀ sf, b.get a = some sf → sf.disabled = false) :
    ∀ sf, (b.feed nowMs a at_).get a = some sf → sf.disabled = false := by
  unfold Breaker.feed
  cases hfe : breakerFeed at_ with
  | failure => exact absurd hfe hf
  | nothing => exact hc
  | success =>
    simp only
    unfold Breaker.recordSuccess
    cases hg : b.get a with
    | none => intro sf h; rw [hg] at h; cases h
    | some sf0 =>
      intro sf h
      rw [bget_put_self] at h
      cases h; rfl

/-- **Request-local outcomes never open the breaker.** However many attempts
against an address are refused by request trees' own limits, cancelled, cut
short by client deadlines — or answered — the address is still asked: no
sequence of such attempts makes `canQuery` refuse it (so `lookup` never reports
"all servers failed" for a zone on that account). -/
theorem local_outcomes_never_open_the_breaker (a : String) (ats : List (Int × Attempt))
    (hl : ∀ p ∈ ats, breakerFeed p.2 ≠ .failure) (nowMs : Int) :
    ((ats.foldl (fun (b : Breaker) (p : Int × Attempt) => Breaker.feed b p.1 a p.2) ([] : Breaker)).canQuery nowMs a).2 = true := by
  have key : ∀ (ats : List (Int × Attempt)) (b : Breaker), (∀ p ∈ ats, breakerFeed p.2 ≠ .failure) →
      (∀ sf, b.get a = some sf → sf.disabled = false) →
      ∀ sf, (ats.foldl (fun (b : Breaker) (p : Int × Attempt) => Breaker.feed b p.1 a p.2) b).get a = some sf → sf.disabled = false := by
    intro ats
    induction ats with
    | nil => intro b _ hc; exact hc
    | cons p rest ih =>
      intro b hl hc
      exact ih _ (fun q hq => hl q (List.mem_cons_of_mem _ hq))
        (feed_keeps_closed b p.1 a p.2 (hl p List.mem_cons_self) hc)
  have hclosed := key ats [] hl (by intro sf h; simp [Breaker.get] at h)
  unfold Breaker.canQuery
  cases hg : (ats.foldl (fun (b : Breaker) (p : Int × Attempt) => Breaker.feed b p.1 a p.2) ([] : Breaker)).get a with
  | none => rfl
  | some sf => simp [hclosed sf hg]

/-! ## the kill switch -/

/-- **rfc9520 off is inert.** With the switch off no Store entry point reads
or writes failure state: every write returns the store unchanged, every
lookup misses, no retry key is handed out. -/
theorem disabled_is_inert (H : Hash) (s : Store) (hd : s.disabled = true) :
    (∀ now k p w, s.recordFailure H now k p w = s) ∧
    (∀ now qc z, s.recordZoneFailure H now qc z = s) ∧
    (∀ qc z, s.clearZoneFailure H qc z = s) ∧
    (∀ k, s.resetQuestionFailure H k = s) ∧ (∀ k, s.resetMatchingFailures H k = s) ∧
    (∀ n qt qc, s.purge n qt qc = s) ∧
    (∀ now n qt qc cd sc rc, s.setFromResponse H now n qt qc cd sc rc = s) ∧
    (∀ now ctx k w, s.writeBackFailure H now ctx k w = s) ∧
    (∀ now k, s.lookupFailure H now k = none) ∧
    (∀ now w qt qc cd, s.lookupFailureWire H now w qt qc cd = none) ∧
    (∀ now k, s.failureRetryKey H now k = none) ∧ s.failureLen = 0 := by
  refine ⟨?_, ?_, ?_, ?_, ?_, ?_, ?_, ?_, ?_, ?_, ?_, ?_⟩
  · intros; simp [Store.recordFailure, hd]
  · intros; simp [Store.recordZoneFailure, hd]
  · intros; simp [Store.clearZoneFailure, hd]
  · intros; simp [Store.resetQuestionFailure, hd]
  · intros; simp [Store.resetMatchingFailures, hd]
  · intros; simp [Store.purge, hd]
  · intro now n qt qc cd sc rc
    cases rc <;> cases sc <;> simp [Store.setFromResponse, Store.resetQuestionFailure, Store.recordFailure, hd]
  · intro now ctx k w
    unfold Store.writeBackFailure
    split <;> simp [Store.recordFailure, hd]
  · intros; simp [Store.lookupFailure, hd]
  · intros; simp [Store.lookupFailureWire, hd]
  · intros; simp [Store.failureRetryKey, hd]
  · simp [Store.failureLen, hd]

/-- CD strips the witness; a scoped write never touches the shared audience. -/
theorem store_gates (H : Hash) (s : Store) (now : Int) (k : QKey) (p w : Nat) :
    (k.cd = true → s.recordFailure H now k p w = s.recordFailure H now k p 0) ∧
    (∀ n qt qc cd rc, s.setFromResponse H now n qt qc cd true rc = s) := by
  constructor
  · intro hcd; simp [Store.recordFailure, hcd]
  · intro n qt qc cd rc; cases rc <;> simp [Store.setFromResponse]

/-! ## the reply -/

/-- **Response shape.** A cached failure is answered as a clean SERVFAIL (QR,
RA; no AA/AD/TC; no records); it carries an OPT exactly when the client sent
one, and that OPT holds exactly one option — EDE 13 — whatever options the
client sent (none of them is copied); UDP size and DO are the client's. -/
theorem response_shape (req : Option Req) :
    (response req).rcode = servfail ∧ (response req).qr = true ∧ (response req).ra = true ∧
    (response req).aa = false ∧ (response req).ad = false ∧ (response req).tc = false ∧
    (response req).answers = 0 ∧ (response req).authority = 0 ∧
    ((response req).opt.isSome = true ↔ ∃ r o, req = some r ∧ r.opt = some o) ∧
    (∀ ro, (response req).opt = some ro → ro.options = [(optCodeEDE, edeCachedError)] ∧
        ∃ r o, req = some r ∧ r.opt = some o ∧ ro.udp = o.udp ∧ ro.dobit = o.dobit) := by
  cases req with
  | none => simp [response]
  | some r =>
    obtain ⟨rd, cd, opt⟩ := r
    cases opt with
    | none => simp [response]
    | some o => simp [response]

/-! ## the first retry after a backoff is one probe generation -/

/-- **A retry key only when nothing is active.** Whoever receives a retry key
would not have been answered from the failure cache at that instant; so an
active failure is consumed through `Lookup`, never probed. -/
theorem retry_key_only_when_inactive (H : Hash) (t : Table) (now : Int) (k : QKey) (r : UInt64)
    (h : retryKey H t now k = some r) : lookup H t now k = none :=
  retryKey_some_inactive H t now k r h

/-- **Single probe key.** (1) Two requests with the same normal form (other
case, unrooted spelling, host bits in the scope) derive the same key.
(2) Whenever the closest retained zone state on the paths of two requests of
one class is the same zone, both derive the SAME key — that zone's — whatever
their names below it, types, CD bits and ECS audiences; so all of them join
one probe generation. -/
theorem single_probe_key (H : Hash) (t : Table) (now : Int) :
    (∀ k1 k2, normalizeQ k1 = normalizeQ k2 → retryKey H t now k1 = retryKey H t now k2) ∧
    (∀ k1 k2 r1 r2 z, k1.qclass = k2.qclass →
      firstStored H t k1.qclass (walkZones (normalizeQ k1).name) = some z →
      firstStored H t k2.qclass (walkZones (normalizeQ k2).name) = some z →
      retryKey H t now k1 = some r1 → retryKey H t now k2 = some r2 → r1 = r2) := by
  constructor
  · intro k1 k2 hn
    unfold retryKey
    simp only [hn]
  · intro k1 k2 r1 r2 z hc h1 h2 hr1 hr2
    have e1 := retryKey_zone_first H t now k1 r1 z hr1 h1
    have e2 := retryKey_zone_first H t now k2 r2 z hr2 (by
      have : (normalizeQ k2).qclass = k2.qclass := rfl
      rw [this]; exact h2)
    have hc1 : (normalizeQ k1).qclass = k1.qclass := rfl
    have hc2 : (normalizeQ k2).qclass = k2.qclass := rfl
    rw [e1, e2, hc1, hc2, hc]


/-- **One probe per retained generation.** When several requests arrive
together (every elected leader still running) with the switch on, and each of
them misses the failure cache and has the SAME closest retained zone state on
its path in one class, `Cache.ServeDNS` derives one single-flight key for all
of them — that zone's retry key — so exactly one leader is elected, whatever
their names below the zone, types, CD bits and ECS audiences. -/
theorem probe_cohort_elects_one_leader (H : Hash) (s : Store) (now : Int) (ks : List QKey) (z : Str) (cls : Nat)
    (hen : s.disabled = false) (hne : ks ≠ [])
    (hmiss : ∀ k ∈ ks, lookup H s.tab now k = none)
    (hz : ∀ k ∈ ks, k.qclass = cls ∧ firstStored H s.tab cls (walkZones (normalizeQ k).name) = some z) :
    s.probeBatch H now ks = (1, 0) := by
  have hlf : ∀ k ∈ ks, (s.lookupFailure H now k).isNone = true := by
    intro k hk; simp [Store.lookupFailure, hen, hmiss k hk]
  have hfil : ks.filter (fun k => (s.lookupFailure H now k).isNone) = ks :=
    List.filter_eq_self.mpr hlf
  have hkey : ∀ k ∈ ks, s.dedupKey H now k = .retry (H.z (normalizeZ ⟨z, cls⟩)) := by
    intro k hk
    obtain ⟨hc, hfs⟩ := hz k hk
    have hc' : (normalizeQ k).qclass = cls := hc
    have := retryKey_of_inactive_zone H s.tab now k z (hmiss k hk) (by rw [hc']; exact hfs)
    simp [Store.dedupKey, Store.failureRetryKey, hen, this, hc']
  unfold Store.probeBatch
  simp only [hfil, Nat.sub_self]
  congr 1
  apply distinctCount_all_eq (.retry (H.z (normalizeZ ⟨z, cls⟩)))
  · intro h; exact hne (List.map_eq_nil_iff.mp h)
  · intro x hx
    obtain ⟨k, hk, rfl⟩ := List.mem_map.mp hx
    exact hkey k hk

/-- **All valid min/max settings reach the running cache.** The failure cache
inside a `Cache` built by `cache.New` runs with exactly the configured bounds
whenever they are a configuration `NewFailureCache` accepts — no other
setting takes part — and with valid bounds (the 5 s / 5 min defaults)
otherwise. -/
theorem cacheNew_effective_bounds (size i m : Int) :
    (cacheNewCfg size i m).Valid ∧
    ∀ c, newCfg size i m = .ok c → cacheNewCfg size i m = c := by
  constructor
  · unfold cacheNewCfg
    split
    · rename_i c hc; exact (newCfg_valid _ i m c hc).1
    · unfold Cfg.Valid defaultInitial defaultMax second ceiling; decide
  · intro c hc
    have hs := (newCfg_valid size i m c hc).2.1
    have : (if size = 0 then (4096 : Int) else size) = size := by
      split <;> omega
    unfold cacheNewCfg
    rw [this, hc]

/-- **The owner name itself is on the path.** The zone walk of `Lookup`,
`RetryKey` and `ResetMatching` starts at the asked name: retained zone state
AT the name (an apex question: SOA / NS / DNSKEY / A of the zone itself) is
the closest one, so questions of different types, CD bits and audiences for a
failed zone's own name all derive that zone's key and elect one probe. -/
theorem apex_zone_state_is_closest (H : Hash) (t : Table) (k : QKey) (e : Entry)
    (h : loadZone H t ⟨canonicalName (normalizeQ k).name, k.qclass⟩ = some e) :
    firstStored H t k.qclass (walkZones (normalizeQ k).name) = some (canonicalName (normalizeQ k).name) ∧
    ∀ now r, retryKey H t now k = some r →
      r = H.z (normalizeZ ⟨canonicalName (normalizeQ k).name, k.qclass⟩) := by
  have hfs : firstStored H t k.qclass (walkZones (normalizeQ k).name) = some (canonicalName (normalizeQ k).name) := by
    unfold walkZones
    simp only
    unfold walkZonesFuel firstStored
    simp [h]
  refine ⟨hfs, fun now r hr => ?_⟩
  exact retryKey_zone_first H t now k r _ hr hfs

/-! ## non-vacuity: concrete, non-trivial states satisfying the hypotheses -/

section Examples

/-- every key collides with every other key. -/
def H0 : Hash := ⟨fun _ => 0, fun _ => 0⟩
/-- a hash that separates names of different length only. -/
def H1 : Hash := ⟨fun k => UInt64.ofNat k.name.length, fun k => UInt64.ofNat (k.zone.length + 1000)⟩

def cfg0 : Cfg := ⟨5 * second, 300 * second⟩

/-- `example.com.` -/
def exampleCom : Str := [101, 120, 97, 109, 112, 108, 101, 46, 99, 111, 109, 46]
/-- `www.example.com.` -/
def wwwExampleCom : Str := [119, 119, 119, 46] ++ exampleCom
/-- `notexample.com.` -/
def notExampleCom : Str := [110, 111, 116] ++ exampleCom
/-- `WWW.Example.COM` (mixed case, unrooted) -/
def wwwMixed : Str := [87, 87, 87, 46, 69, 120, 97, 109, 112, 108, 101, 46, 67, 79, 77]
/-- `x\.example.com.` (one label `x.example`, then `com`) -/
def escDot : Str := [120, 92, 46] ++ exampleCom

def qA (n : Str) : QKey := ⟨n, 1, 1, false, none⟩

-- backoff_envelope: a valid configuration and its first backoffs (5 s, 5 s, 10 s, … capped at 300 s)
example : cfg0.Valid := by unfold Cfg.Valid; decide
example : (List.range 9).map (backoff cfg0) =
    [5000000000, 5000000000, 10000000000, 20000000000, 40000000000, 80000000000, 160000000000,
     300000000000, 300000000000] := by decide
-- newCfg_valid: accepted, and rejected above the ceiling
example : newCfg 64 (2 * second) (3 * second) = .ok ⟨2 * second, 3 * second⟩ := by rfl
example : newCfg 64 (1 * second) (301 * second) = .error .ceiling := by rfl

-- hit_is_exact_or_ancestor: a question hit through another spelling of the same question …
example : (lookup H0 (recordQuestion H0 cfg0 [] 0 (qA wwwMixed) 3 0).1 1 (qA wwwExampleCom)).isSome = true := by decide
-- … while, under a total collision, another type / CD / audience / name is refused
example : lookup H0 (recordQuestion H0 cfg0 [] 0 (qA wwwMixed) 3 0).1 1 ⟨wwwExampleCom, 28, 1, false, none⟩ = none := by decide
example : lookup H0 (recordQuestion H0 cfg0 [] 0 (qA wwwMixed) 3 0).1 1 ⟨wwwExampleCom, 1, 1, true, none⟩ = none := by decide
example : lookup H0 (recordQuestion H0 cfg0 [] 0 (qA wwwMixed) 3 0).1 1
    ⟨wwwExampleCom, 1, 1, false, some ⟨false, 24, 167772160⟩⟩ = none := by decide
-- zone_hit_is_labelwise_ancestor: a zone failure covers the name below it, not the textual look-alikes
example : (lookup H1 (recordZone H1 cfg0 [] 0 ⟨exampleCom, 1⟩ 2 0).1 1 (qA wwwExampleCom)).isSome = true := by decide
example : lookup H1 (recordZone H1 cfg0 [] 0 ⟨exampleCom, 1⟩ 2 0).1 1 (qA notExampleCom) = none := by decide
example : lookup H1 (recordZone H1 cfg0 [] 0 ⟨exampleCom, 1⟩ 2 0).1 1 (qA escDot) = none := by decide
example : isFqdn (canonicalName wwwMixed) = true := by decide
example : labels wwwExampleCom = [[119, 119, 119], [101, 120, 97, 109, 112, 108, 101], [99, 111, 109]] := by decide
example : labels escDot = [[120, 92, 46, 101, 120, 97, 109, 112, 108, 101], [99, 111, 109]] := by decide

-- wire_hit_is_exact_or_ancestor: 3www7example3com0 against the zone state
example : (lookupWire H1 (recordZone H1 cfg0 [] 0 ⟨exampleCom, 1⟩ 2 0).1 1
    ([3, 87, 87, 87, 7, 69, 88, 65, 77, 80, 76, 69, 3, 99, 111, 109, 0]) 1 1 false).isSome = true := by decide

-- active_only_before_retryAfter: a history with renewals, a reset and an eviction; the hit is inside the
-- envelope, and one nanosecond later (at retryAfter) nothing is served
def hist : List Op :=
  [.recZ ⟨exampleCom, 1⟩ 2 0 0, .recQ (qA wwwMixed) 1 7 1, .resetQ (qA notExampleCom), .evict [17],
   .recZ ⟨exampleCom, 1⟩ 2 0 (6 * second)]
example : (lookup H1 (hist.foldl (applyOp H1 cfg0) []) (16 * second - 1) (qA notExampleCom)) = none := by decide
example : (lookup H1 (hist.foldl (applyOp H1 cfg0) []) (16 * second - 1) (qA escDot)) = none := by decide
example : (lookup H1 (hist.foldl (applyOp H1 cfg0) []) (16 * second - 1) ⟨wwwExampleCom, 28, 1, true, none⟩).isSome = true := by decide
example : (lookup H1 (hist.foldl (applyOp H1 cfg0) []) (16 * second) ⟨wwwExampleCom, 28, 1, true, none⟩) = none := by decide

-- record_idempotent_in_generation / record_backoff_steps: first, idempotent, renewal (streak 2 = 10 s), quiet reset
example : (recordQuestion H0 cfg0 [] 0 (qA wwwMixed) 3 0).2.retryAfter = 5 * second := by decide
example : (recordQuestion H0 cfg0 (recordQuestion H0 cfg0 [] 0 (qA wwwMixed) 3 0).1 (5 * second) (qA wwwExampleCom) 4 9).2.retryAfter
    = 15 * second := by decide
example : (recordQuestion H0 cfg0 (recordQuestion H0 cfg0 [] 0 (qA wwwMixed) 3 0).1 (305 * second) (qA wwwExampleCom) 4 9).2.streak
    = 1 := by decide

-- success_resets: the zone state that covered the name is gone after the success
example : (lookup H1 (resetMatching H1 (recordZone H1 cfg0 [] 0 ⟨exampleCom, 1⟩ 2 0).1 (qA wwwMixed)).1 1 (qA wwwExampleCom)) = none := by decide

-- local_causes_never_shared / zone: hypotheses are satisfiable, and the complement does record
example : cacheableResolutionFailure ⟨false, false, false, .other⟩ = true := by decide
example : cacheableResolutionFailure ⟨false, false, false, .probeLimit⟩ = false := by decide
example : resolveRecordsZone ⟨false, false, false, .none⟩ false false
    (lookupFold false [.err .other, .rcode 2, .bogusReferral, .err .deadline] [] 0 []) = true := by decide
example : resolveRecordsZone ⟨false, false, false, .none⟩ false false
    (lookupFold false [.err .other, .rcode 2, .rcode 3] [] 0 []) = false := by decide
example : resolveRecordsZone ⟨false, false, false, .none⟩ false false
    (lookupFold false [.err .other, .err .attemptLimit, .rcode 2] [] 0 []) = false := by decide

-- response_shape: the client's cookie and ECS options are not echoed
example : (response (some ⟨true, true, some ⟨1232, true, [10, 8]⟩⟩)).opt = some ⟨1232, true, [(15, 13)]⟩ := by decide
example : (response (some ⟨true, false, none⟩)).opt = none := by decide

-- single_probe_key: after expiry two different names / types / CD below the failed zone share its key
example : retryKey H1 (recordZone H1 cfg0 [] 0 ⟨exampleCom, 1⟩ 2 0).1 (5 * second) (qA wwwExampleCom)
    = retryKey H1 (recordZone H1 cfg0 [] 0 ⟨exampleCom, 1⟩ 2 0).1 (5 * second) ⟨[97, 46] ++ wwwExampleCom, 28, 1, true, none⟩ := by decide
example : (retryKey H1 (recordZone H1 cfg0 [] 0 ⟨exampleCom, 1⟩ 2 0).1 (5 * second) (qA wwwExampleCom)).isSome = true := by decide
example : retryKey H1 (recordZone H1 cfg0 [] 0 ⟨exampleCom, 1⟩ 2 0).1 (5 * second - 1) (qA wwwExampleCom) = none := by decide

-- probe_cohort_elects_one_leader: three clients (two ECS audiences, other names / types / CD) behind one expired zone
example : (Store.probeBatch H1 ⟨false, cfg0, (recordZone H1 cfg0 [] 0 ⟨exampleCom, 1⟩ 2 0).1⟩ (5 * second)
    [qA wwwExampleCom, ⟨[97, 46] ++ wwwExampleCom, 28, 1, true, some ⟨false, 24, 3405803776⟩⟩,
     ⟨exampleCom, 16, 1, false, some ⟨false, 16, 167837696⟩⟩]) = (1, 0) := by decide
-- … while unrelated questions elect one leader each, and inside the backoff everybody is served
example : (Store.probeBatch H1 ⟨false, cfg0, []⟩ 0 [qA wwwExampleCom, qA notExampleCom, qA wwwMixed]) = (2, 0) := by decide
example : (Store.probeBatch H1 ⟨false, cfg0, (recordZone H1 cfg0 [] 0 ⟨exampleCom, 1⟩ 2 0).1⟩ 1
    [qA wwwExampleCom, qA exampleCom]) = (0, 2) := by decide
-- cacheNew_effective_bounds: an operator's 30 s / 2 min survives; a rejected pair falls back to 5 s / 5 min
example : cacheNewCfg 4096 (30 * second) (120 * second) = ⟨30 * second, 120 * second⟩ := by rfl
example : cacheNewCfg 0 (30 * second) (20 * second) = ⟨5 * second, 300 * second⟩ := by rfl

-- wire_born_names_are_wellformed: 3"a.b"2"c\\"0 decodes to  a\.b.c\\.  (escaped dot, escaped backslash, rooted)
example : wirePres [3, 97, 46, 98, 2, 99, 92, 0] = some [97, 92, 46, 98, 46, 99, 92, 92, 46] := by decide
example : isFqdn (canonicalName [97, 92, 46, 98, 46, 99, 92, 92, 46]) = true := by decide

-- wire_active_only_before_retryAfter: the zone state of `hist` serves 3www7example3com0 one ns before retryAfter, not at it
example : (lookupWire H1 (hist.foldl (applyOp H1 cfg0) []) (16 * second - 1)
    [3, 119, 119, 119, 7, 101, 120, 97, 109, 112, 108, 101, 3, 99, 111, 109, 0] 28 1 true).isSome = true := by decide
example : lookupWire H1 (hist.foldl (applyOp H1 cfg0) []) (16 * second)
    [3, 119, 119, 119, 7, 101, 120, 97, 109, 112, 108, 101, 3, 99, 111, 109, 0] 28 1 true = none := by decide

-- apex_zone_state_is_closest: SOA and DNSKEY questions for the failed zone's own name share its probe key
example : retryKey H1 (recordZone H1 cfg0 [] 0 ⟨exampleCom, 1⟩ 2 0).1 (5 * second) ⟨exampleCom, 6, 1, false, none⟩
    = retryKey H1 (recordZone H1 cfg0 [] 0 ⟨exampleCom, 1⟩ 2 0).1 (5 * second) ⟨exampleCom, 48, 1, true, none⟩ := by decide
example : (retryKey H1 (recordZone H1 cfg0 [] 0 ⟨exampleCom, 1⟩ 2 0).1 (5 * second) ⟨exampleCom, 6, 1, false, none⟩).isSome = true := by decide

-- non-vacuity: a genuine primary SERVFAIL plus a failing fallback IS filed (under the client's class CH)
example : (Store.serveViaFailover H1 ⟨false, cfg0, []⟩ 0 ⟨wwwExampleCom, 16, 3, false, none⟩ .servfail .refused).tab.length = 1 := by decide
example : (Store.serveViaFailover H1 ⟨false, cfg0, []⟩ 0 ⟨wwwExampleCom, 16, 3, false, none⟩ (.localFail .attemptLimit) .refused).tab.length = 0 := by decide

-- optional_enrichment_never_shared / store_route_resets: non-vacuity
example : cacheableResolutionFailure (v6JobCtx ⟨false, false, false, .none⟩) = false := by decide
example : cacheableResolutionFailure ⟨false, false, false, .none⟩ = true := by decide
example : (lookup H1 (Store.setFromResponse H1 ⟨false, cfg0, (recordQuestion H1 cfg0 [] 0 (qA wwwExampleCom) 1 0).1⟩ 1
    wwwExampleCom 1 1 false false .useful).tab 2 (qA wwwExampleCom)) = none := by decide
example : (lookup H1 (Store.clearZoneFailure H1 ⟨false, cfg0, (recordZone H1 cfg0 [] 0 ⟨exampleCom, 1⟩ 2 0).1⟩ 1 exampleCom).tab 1
    (qA wwwExampleCom)) = none := by decide

-- recorded_failure_serves_followers: the follower waking at the record instant is a hit
example : (lookup H0 (recordQuestion H0 cfg0 [] 7 (qA wwwMixed) 1 0).1 7 (qA wwwExampleCom)).isSome = true := by decide

-- usable_response_never_publishes_zone_failure: three failing servers and one bare NXDOMAIN
example : resolveRecordsZone ⟨false, false, false, .none⟩ false false
    (lookupFold false [.rcode 2, .rcode 5, .rcode nxdomain, .err .other] [] 0 []) = false := by decide

-- breaker_refuses_only_recent_repeated_failure: five failures in a row open it; 29.5 s later still refused, 30.5 s later asked again
def cbHist5 : List BOp := [.fail 1000500 "a", .fail 1000500 "a", .ok "b", .fail 1001500 "a", .fail 1001500 "a", .fail 1002500 "a"]
example : ((cbHist5.foldl applyB []).canQuery 1031500 "a").2 = false := by decide
example : ((cbHist5.foldl applyB []).canQuery 1032500 "a").2 = true := by decide
example : (((cbHist5 ++ [BOp.ok "a"]).foldl applyB []).canQuery 1002600 "a").2 = true := by decide
example : (((cbHist5.take 5).foldl applyB []).canQuery 1001600 "a").2 = true := by decide

-- breaker feed: seven client-deadline / attempt-limit outcomes keep the address open; five silences close it
example : (([(1, Attempt.endedDuring), (2, .refused .attemptLimit), (3, .endedDuring), (4, .endedBefore), (5, .refused .workLimit),
    (6, .endedDuring), (7, .reply 2)].foldl (fun (b : Breaker) (p : Int × Attempt) => Breaker.feed b p.1 "a" p.2) ([] : Breaker)).canQuery 8 "a").2 = true := by decide
example : (([(1000, Attempt.silent), (1000, .silent), (1000, .endedDuring), (1000, .silent), (1000, .silent), (1000, .silent)].foldl
    (fun (b : Breaker) (p : Int × Attempt) => Breaker.feed b p.1 "a" p.2) ([] : Breaker)).canQuery 2000 "a").2 = false := by decide

end Examples

end SdnsVerif.Props.C13
