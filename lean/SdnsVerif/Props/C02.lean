import SdnsVerif.Spec.Zone
import SdnsVerif.Model.Nsec
import SdnsVerif.Lemmas.Nsec
import SdnsVerif.Model.Nsec3
import SdnsVerif.Lemmas.Nsec3
import SdnsVerif.Model.Admission
import SdnsVerif.Model.ProofExpiry
import SdnsVerif.Gen.C02
/-!
# C02 — denial of existence is accepted or synthesised only when proven

Property theorems only (helper lemmas: `Lemmas/Nsec.lean`).  Names are
canonical root-side-first label lists; a zone is `Spec.Zone.Zone`; the record
sets quantified over are `SetOK z s`: any selection (sub-multiset, any order,
repeats allowed) of the zone's genuine NSEC chain, polluted with any records
whose owner or next name lies outside the signer zone.
-/
namespace SdnsVerif.Props.C02
open SdnsVerif.Spec.Zone SdnsVerif.Model.Nsec SdnsVerif.Lemmas.Nsec

/-! ## canonical order -/

/-- **RFC 4034 §6.1 order is a strict total order** on names (labels compared
as octet strings, an ancestor before its descendants): irreflexive,
transitive, total, and `gt` is the converse of `lt`. -/
theorem canonical_order_strict_total :
    (∀ a : Name, cmpName a a = .eq) ∧
    (∀ a b : Name, cmpName a b = .eq ↔ a = b) ∧
    (∀ a b : Name, cmpName a b = .gt ↔ cmpName b a = .lt) ∧
    (∀ a b d : Name, cmpName a b = .lt → cmpName b d = .lt → cmpName a d = .lt) ∧
    (∀ a b : Name, cmpName a b = .lt ∨ a = b ∨ cmpName b a = .lt) :=
  ⟨lawful_cmpName.refl, lawful_cmpName.eq_iff, lawful_cmpName.gt_iff, lawful_cmpName.trans, lawful_cmpName.total⟩

/-- `dnsname.CanonicalCompare` on arbitrary spellings: equal exactly when the
names are equal after ASCII folding; otherwise a strict order on the folded names. -/
theorem canonicalCompare_eq_iff (a b : Name) : canonicalCompare a b = .eq ↔ foldName a = foldName b :=
  lawful_cmpName.eq_iff _ _

/-- **Only US-ASCII letters are folded** (RFC 4034 §6.1, RFC 4343): `foldByte`
changes exactly the octets 65..90, so two sibling names whose leaf labels
start with octets that are not upper-case ASCII letters — in particular any
octets ≥ 128, the Latin-1 "letters" 0xC0–0xDE / 0xE0–0xFE included — are
ordered by those octets as they are; and an upper-case ASCII letter is ordered
as its lower-case form. (What the `foldSweep` ops compare octet by octet with
`dnsname.CanonicalCompare` / `nsecCovers`.) -/
theorem canonical_fold_ascii_only :
    (∀ b, foldByte b = if 65 ≤ b ∧ b ≤ 90 then b + 32 else b) ∧
    (∀ (p : Name) (a b : Nat) (la lb : Label), ¬(65 ≤ a ∧ a ≤ 90) → ¬(65 ≤ b ∧ b ≤ 90) → a ≠ b →
      canonicalCompare (p ++ [a :: la]) (p ++ [b :: lb]) = cmpNat a b) ∧
    (∀ (p : Name) (a : Nat) (la : Label), 65 ≤ a ∧ a ≤ 90 →
      canonicalCompare (p ++ [a :: la]) (p ++ [(a + 32) :: la]) = .eq) := by
  refine ⟨fun b => rfl, ?_, ?_⟩
  · intro p a b la lb ha hb hab
    unfold canonicalCompare cmpName foldName
    simp only [List.map_append, List.map_cons, List.map_nil]
    rw [cmpList_append_left lawful_cmpLabel]
    have hfa : foldByte a = a := by unfold foldByte; simp [ha]
    have hfb : foldByte b = b := by unfold foldByte; simp [hb]
    simp only [foldLabel, List.map_cons, hfa, hfb, cmpList, cmpLabel]
    unfold cmpNat
    by_cases hlt : a < b
    · simp [hlt]
    · simp [hlt, hab]
  · intro p a la ha
    rw [canonicalCompare_eq_iff]
    unfold foldName foldLabel
    simp only [List.map_append, List.map_cons, List.map_nil]
    have h1 : foldByte a = a + 32 := by unfold foldByte; simp [ha]
    have h2 : foldByte (a + 32) = a + 32 := by unfold foldByte; have := ha.1; simp; omega
    rw [h1, h2]

-- 0xC8 sorts BEFORE 0xE6 (it is not "folded" to 0xE8 and so into the span 0xE6..0xFA)
example : canonicalCompare [[122], [200]] [[122], [230]] = .lt ∧ nsecCovers [[122], [230]] [[122], [250]] [[122], [200]] = false := by
  decide

/-- **Names sharing an ancestor form an order-convex block**: if `p` is an
ancestor-or-self of `a` and of `d`, every name canonically between them is
below `p` too. -/
theorem prefix_block_convex (p a b d : Name) (ha : p <+: a) (hd : p <+: d)
    (hab : cmpName a b ≠ .gt) (hbd : cmpName b d ≠ .gt) : p <+: b :=
  prefix_convex lawful_cmpLabel p a b d ha hd hab hbd

/-- an ancestor sorts before (or is) its descendant. -/
theorem ancestor_sorts_first (p a : Name) (h : p <+: a) : cmpName p a ≠ .gt :=
  cmpList_prefix_ne_gt lawful_cmpLabel h

/-! ## the genuine chain -/

/-- **A covering NSEC excludes the name**: a record of the zone's genuine
chain (normal span, wrap-around of the last record, or the single record of a
one-name zone) that `nsecCovers` the name ⇒ the name is not an owner of the zone. -/
theorem nsec_cover_excludes (z : Zone) (hz : z.WF) (r : Nsec) (hr : r ∈ z.chain) (q : Name)
    (hc : nsecCovers r.owner r.next q = true) : q ∉ z.authNames := by
  intro hq
  exact (covers_inGap hz (chain_genuine hz hr) (auth_in_zone hz hq) hc).not_auth hq

/-- **Closest encloser from a covering NSEC is the true one**: for an in-zone
name covered by a genuine record, `closestEncloserFromNSEC` (longest run of
labels shared with the owner or the next name, capped to a proper ancestor)
is the longest proper ancestor of the name that is in the zone's tree —
owners and empty non-terminals both count. -/
theorem closest_encloser_correct (z : Zone) (hz : z.WF) (r : Nsec) (hr : r ∈ z.chain) (q : Name)
    (hq : z.apex <+: q) (hc : nsecCovers r.owner r.next q = true) :
    closestEncloserFromNSEC q r = z.closestEncloser q ∧
    z.inTree (closestEncloserFromNSEC q r) = true ∧
    (closestEncloserFromNSEC q r).length < q.length ∧
    ∀ k, (closestEncloserFromNSEC q r).length < k → k < q.length → z.inTree (q.take k) = false := by
  have gap := covers_inGap hz (chain_genuine hz hr) hq hc
  obtain ⟨_, hlt, _⟩ := gap.ce_bounds hz hq
  have hl : (q.take (ceK q r.owner r.next)).length = ceK q r.owner r.next := by
    rw [List.length_take]; omega
  rw [closestEncloserFromNSEC_eq, hl]
  exact ⟨(gap.closestEncloser hz hq).symm, gap.ce_inTree hz hq, hlt, gap.ce_longest hz⟩

/-! ## the RFC 8198 classifier (what gates every shared / synthesised denial) -/

/-- **`EvaluateAggressiveNSEC` is sound at full strength.**  For every
well-formed zone, every selection of its genuine chain (any subset, order,
repeats) polluted with any records lying outside the signer zone, every
question name, type and class:

* verdict NXDOMAIN ⇒ the zone says NXDOMAIN: the name is in the zone, is not
  the apex, owns nothing, is not an empty non-terminal, is not below a
  delegation or DNAME, and the wildcard at its closest encloser neither
  exists nor is an empty non-terminal;
* verdict NODATA ⇒ the zone says NODATA: the name (or the empty non-terminal,
  or the wildcard source) exists, the type and CNAME are absent, the name is
  not a delegation point asked for anything but DS, DS is never denied from
  the apex's own (SOA-carrying) record; and the type is not a meta type;
* either verdict ⇒ the question's class is the zone's class and the name is
  in the signer zone. -/
theorem aggressive_nsec_sound (z : Zone) (hz : z.WF) (s : List Nsec) (hs : SetOK z s)
    (q : Name) (t qclass : Nat) (rc : Rcode) (p : List Nat)
    (h : evaluateAggressiveNSEC q t qclass z.apex s = .ok (rc, p)) :
    qclass = z.cls ∧ z.apex <+: q ∧
    (rc = .nxdomain → z.answerClass q t = .nxdomain) ∧
    (rc = .nodata → z.answerClass q t = .nodata ∧ t ∉ nodataExceptions) := by
  obtain ⟨h1, h2, h3, h4⟩ := aggressive_core hz hs h
  refine ⟨h1, h2, h3, fun e => ⟨(h4 e).1, ?_⟩⟩
  have := (h4 e).2
  unfold aggressiveNODATAType at this
  simpa using this

/-- what "the zone says NXDOMAIN" unfolds to (so that the statement above
does not hide anything in `answerClass`). -/
theorem nxdomain_means (z : Zone) (q : Name) (t : Nat) (h : z.answerClass q t = .nxdomain) :
    z.apex <+: q ∧ z.occluded q = false ∧ z.find q = none ∧ z.isENT q = false ∧
    z.find (z.closestEncloser q ++ [star]) = none ∧ z.isENT (z.closestEncloser q ++ [star]) = false := by
  unfold Zone.answerClass at h
  split at h
  · cases h
  · rename_i h1
    split at h
    · cases h
    · split at h
      · cases h
      · rename_i h3
        split at h
        · split at h
          · cases h
          · unfold answerAt at h; split at h
            · cases h
            · split at h <;> cases h
        · rename_i hf
          split at h
          · cases h
          · rename_i he
            simp only at h
            split at h
            · unfold answerAt at h; split at h
              · cases h
              · split at h <;> cases h
            · rename_i hw
              split at h
              · cases h
              · rename_i hwe
                exact ⟨List.isPrefixOf_iff_prefix.mp (by simpa using h1), by simpa using h3, hf,
                  by simpa using he, hw, by simpa using hwe⟩

/-- what "the zone says NODATA" guarantees about a present type. -/
theorem nodata_means (z : Zone) (q : Name) (t : Nat) (h : z.answerClass q t = .nodata) :
    z.apex <+: q ∧ z.occluded q = false ∧
    ∀ n, z.find q = some n → t ∉ n.types ∧ tCNAME ∉ n.types ∧ (delegTypes n.types = true → t = tDS) := by
  unfold Zone.answerClass at h
  split at h
  · cases h
  · rename_i h1
    split at h
    · cases h
    · split at h
      · cases h
      · rename_i h3
        refine ⟨List.isPrefixOf_iff_prefix.mp (by simpa using h1), by simpa using h3, ?_⟩
        intro n hn
        rw [hn] at h
        simp only at h
        split at h
        · cases h
        · rename_i hd
          unfold answerAt at h
          split at h
          · cases h
          · rename_i ht
            split at h
            · cases h
            · rename_i hc
              refine ⟨by simpa using ht, by simpa using hc, ?_⟩
              intro hdel
              simp only [hdel, Bool.true_and, bne_iff_ne, ne_eq, Decidable.not_not] at hd
              exact hd

/-! ## the exact validators used for AD (`Resolver.authority`) -/

/-- **`VerifyDelegationNSEC` is sound at full strength**: "no DS, the
delegation is insecure" is accepted only for a name that is a delegation
point of the zone (NS without SOA) whose DS is really absent. -/
theorem delegation_nsec_sound (z : Zone) (hz : z.WF) (s : List Nsec) (hs : SetOK z s) (d : Name)
    (h : verifyDelegationNSEC d (filterToZone z.apex s) = .ok ()) :
    ∃ n, z.find d = some n ∧ delegTypes n.types = true ∧ tDS ∉ n.types := by
  obtain ⟨a, ha, han, h1, h2⟩ := delegation_core (filter_genuine hz hs) h
  exact ⟨a, han ▸ find_of_mem hz ha, h1, h2⟩

/-- **`VerifyNameErrorNSEC` is sound** (full strength, every zone other than
the root): for every selection of the chain plus out-of-zone pollution
(filtered by `FilterRRsToZone` as `Resolver.authority` does) and every in-zone
name (what `ValidateSigner` guarantees), an accepted NXDOMAIN means the zone
says NXDOMAIN — the name is not below a delegation or DNAME, is not an empty
non-terminal, owns nothing, and the wildcard at its closest encloser neither
exists nor is an empty non-terminal.  (Before commit 4841eb0 this held only
under record-level hypotheses; the function now tests them itself:
`nsecMisusedFor`, `nsecProvesENT`.)  The only hypothesis left concerns the
ROOT zone: for a closest encloser "." the function skips the wildcard proof
(it holds that `*.` cannot exist), so a root zone must indeed have no `*.`
owner or empty non-terminal; for every other zone the hypothesis is vacuous
(`nameError_nsec_sound_nonroot`). -/
theorem nameError_nsec_sound (z : Zone) (hz : z.WF) (hroot : z.apex = [] → z.inTree [star] = false) (s : List Nsec)
    (hs : SetOK z s) (q : Name) (hq : z.apex <+: q) (t : Nat)
    (h : verifyNameErrorNSEC q (filterToZone z.apex s) = .ok ()) : z.answerClass q t = .nxdomain :=
  nameError_core hz hroot (filter_genuine hz hs) hq t h

/-- every zone other than the root: no side condition at all. -/
theorem nameError_nsec_sound_nonroot (z : Zone) (hz : z.WF) (hroot : z.apex ≠ []) (s : List Nsec)
    (hs : SetOK z s) (q : Name) (hq : z.apex <+: q) (t : Nat)
    (h : verifyNameErrorNSEC q (filterToZone z.apex s) = .ok ()) : z.answerClass q t = .nxdomain :=
  nameError_nsec_sound z hz (fun e => absurd e hroot) s hs q hq t h

/-- **`VerifyNODATANSEC` is sound** (full strength): exact-owner and wildcard
NODATA, CNAME bit, DS-vs-SOA rule, and a delegation point's record only for
DS (RFC 6840 §4.1). -/
theorem nodata_nsec_sound (z : Zone) (hz : z.WF) (s : List Nsec) (hs : SetOK z s)
    (q : Name) (hq : z.apex <+: q) (t : Nat)
    (h : verifyNODATANSEC q t (filterToZone z.apex s) = .ok ()) : z.answerClass q t = .nodata :=
  nodata_core hz (filter_genuine hz hs) hq t h

/-! ## denial records are never wildcard expansions (`signatureMatchesRRset`, /repo a691674) -/

/-- **A denial record is signed under its own name.**  If `signatureMatchesRRset`
lets an RRSIG vouch for an NSEC or NSEC3 RRset, the name the signature was
computed over (`*.<last Labels labels>` when the RRSIG counts fewer labels
than the owner, RFC 4035 §5.3.2) is the RRset's owner itself: the genuine
`*.<zone> NSEC …` can not be presented under a concrete owner and then deny,
as that name's "own" record, its types or the names up to its next name
(RFC 4035 §2.3, RFC 4592 §4.6).  The owner also lies in the signer zone. -/
theorem denial_record_never_expansion (signer owner : Name) (sigLabels t : Nat)
    (ht : t = tNSEC ∨ t = 50) (h : signatureMatches signer owner sigLabels t = true) :
    signedOwner owner sigLabels = owner ∧ signer <+: owner := by
  unfold signatureMatches at h
  simp only [Bool.and_eq_true, decide_eq_true_eq, Bool.not_eq_true', Bool.and_eq_false_iff,
    Bool.or_eq_false_iff] at h
  obtain ⟨⟨hlen, hzone⟩, hexp⟩ := h
  refine ⟨?_, List.isPrefixOf_iff_prefix.mp hzone⟩
  have hnot : wildcardExpanded owner sigLabels = false := by
    rcases hexp with ⟨h1, h2⟩ | h3
    · rcases ht with rfl | rfl
      · simp [tNSEC] at h1
      · simp at h2
    · exact h3
  unfold wildcardExpanded effectiveLabels at hnot
  unfold signedOwner
  split
  · rename_i hlt
    -- fewer labels than the owner: only possible for a `*`-leaf owner with Labels = length - 1
    split at hnot
    · rename_i hstar
      have hl : sigLabels = owner.length - 1 := by simp at hnot; omega
      obtain ⟨init, hinit⟩ : ∃ init, owner = init ++ [star] := by
        rcases List.eq_nil_or_concat owner with h0 | ⟨i, a, h1⟩
        · subst h0; simp at hlt
        · refine ⟨i, ?_⟩
          rw [h1, List.concat_eq_append] at hstar ⊢
          simp only [List.getLast?_append, List.getLast?_singleton, Option.some_or, Option.some.injEq] at hstar
          rw [hstar]
      subst hinit
      simp [hl]
    · simp at hnot; omega
  · rfl

example : signatureMatches [[101]] [[101], [104]] 1 47 = false ∧   -- `h.e NSEC` with Labels 1: an expansion, refused
    signatureMatches [[101]] [[101], [104]] 2 47 = true ∧
    signatureMatches [[101]] [[101], star] 1 47 = true ∧            -- the wildcard's own NSEC
    signatureMatches [[101]] [[101], [104]] 1 1 = true := by decide  -- an expanded A RRset is fine

/-! ## DNAME rewriting of the denied name (`dnsutil.DnameTarget`) -/

/-- **A DNAME rewrites only names strictly below its owner, label by label**
(RFC 6672 §2.2): the first DNAME of the answer section decides; the owner
itself, siblings, and names whose text merely ends in the owner's are left
alone; the result is the target with the labels below the owner kept. -/
theorem dname_rewrites_only_below (q : Name) (ds : List (Name × Name)) (t : Name)
    (h : dnameTarget q ds = some t) :
    ∃ o tg rest more, ds = (o, tg) :: more ∧ o ≠ [] ∧ rest ≠ [] ∧ q = o ++ rest ∧ t = tg ++ rest := by
  unfold dnameTarget at h
  split at h
  · cases h
  · rename_i o tg more
    split at h
    · cases h
    · rename_i h1
      split at h
      · cases h
      · rename_i h2
        simp only [Option.some.injEq] at h
        simp only [Bool.or_eq_true, decide_eq_true_eq, not_or, Nat.not_le] at h1
        have hp : o <+: q := List.isPrefixOf_iff_prefix.mp (by simpa using h2)
        obtain ⟨rest, rfl⟩ := hp
        refine ⟨o, tg, rest, more, rfl, ?_, ?_, rfl, ?_⟩
        · intro e; exact h1.1 (by simp [e])
        · intro e; subst e; simp at h1
        · rw [← h]; simp

-- x.d.e → x.other.t;  the owner d.e itself and the one-label look-alike "x.d" + e are not rewritten
example : dnameTarget [[101], [100], [120]] [([[101], [100]], [[116], [111]])] = some [[116], [111], [120]] ∧
    dnameTarget [[101], [100]] [([[101], [100]], [[116]])] = none ∧
    dnameTarget [[101], [120, 46, 100]] [([[101], [100]], [[116]])] = none := by decide

/-! ## wildcard-expanded positive answers (`VerifyWildcardAnswerForZoneWithWork`) -/

theorem verifyWildcardNSEC_each {gs : List AnsSig} {s : List Nsec} {b : Bool}
    (h : verifyWildcardNSEC gs s = .ok b) :
    b = true ∧ ∀ g ∈ gs, g.labels < g.owner.length →
      ∃ r ∈ s, nsecCovers r.owner r.next g.nextCloser = true ∧ nsecProvesENT r g.nextCloser = false := by
  induction gs with
  | nil =>
    simp only [verifyWildcardNSEC, Except.ok.injEq] at h
    exact ⟨h.symm, fun g hg => nomatch hg⟩
  | cons g rest ih =>
    unfold verifyWildcardNSEC at h
    split at h
    · rename_i hge
      obtain ⟨h1, h2⟩ := ih h
      refine ⟨h1, ?_⟩
      intro x hx hlt
      rcases List.mem_cons.mp hx with rfl | hx
      · omega
      · exact h2 x hx hlt
    · split at h
      · rename_i hany
        obtain ⟨h1, h2⟩ := ih h
        refine ⟨h1, ?_⟩
        intro x hx hlt
        rcases List.mem_cons.mp hx with rfl | hx
        · obtain ⟨r, hr, hc⟩ := List.any_eq_true.mp hany
          simp only [Bool.and_eq_true, Bool.not_eq_true'] at hc
          exact ⟨r, hr, hc.1, hc.2⟩
        · exact h2 x hx hlt
      · cases h

/-- **Every wildcard-expanded RRset needs its own denial, and the denial is
real** (full strength).  If the answer is accepted over a selection of the
genuine chain plus out-of-zone pollution, then for EVERY RRSIG whose Labels
field is smaller than its owner's label count — each one separately, also
when several share one closest encloser — the next closer name is not in the
zone's tree: neither an owner nor an empty non-terminal.  So the zone has no
closer match than the wildcard's parent (RFC 4035 §5.3.4, RFC 4592 §3.3.1),
and in particular the RRSIG's owner does not exist.  (The empty-non-terminal
half holds since /repo commit 697f61e.) -/
theorem wildcard_answer_sound (z : Zone) (hz : z.WF) (s : List Nsec) (hs : SetOK z s)
    (gs : List AnsSig) (b : Bool) (h : verifyWildcardNSEC gs (filterToZone z.apex s) = .ok b) :
    b = true ∧ ∀ g ∈ gs, g.labels < g.owner.length →
      z.inTree g.nextCloser = false ∧ g.nextCloser ∉ z.authNames := by
  obtain ⟨h1, h2⟩ := verifyWildcardNSEC_each h
  refine ⟨h1, ?_⟩
  intro g hg hlt
  obtain ⟨r, hr, hc, hent⟩ := h2 g hg hlt
  have hnot : g.nextCloser ∉ z.authNames := fun hmem =>
    (covers_inGap hz (filter_genuine hz hs r hr) (auth_in_zone hz hmem) hc).not_auth hmem
  refine ⟨?_, hnot⟩
  cases hin : z.inTree g.nextCloser with
  | false => rfl
  | true =>
    exfalso
    obtain ⟨hzone, _⟩ := (inTree_iff hz _).mp hin
    have gap := covers_inGap hz (filter_genuine hz hs r hr) hzone hc
    unfold Zone.inTree at hin
    rw [gap.find_none, gap.not_ent hz hzone (by unfold nsecProvesENT at hent; exact hent)] at hin
    cases hin

/-! ### the former counter-witnesses (fixed in /repo by 4841eb0) are now refused -/

def L (s : String) : Label := s.toList.map Char.toNat

/-- `example.` with an insecure delegation `sub.example.` and a host `zzz.example.` -/
def wzone : Zone :=
  { apex := [L "example"], cls := 1,
    nodes := [ { name := [L "example"], types := [2, 6, 46, 47, 48] },
               { name := [L "example", L "sub"], types := [2, 46, 47] },
               { name := [L "example", L "zzz"], types := [1, 46, 47] } ] }

/-- the delegation's NSEC: `sub.example. NSEC zzz.example. NS RRSIG NSEC` -/
def wrec : Nsec := { owner := [L "example", L "sub"], next := [L "example", L "zzz"], cls := 1, types := [2, 46, 47] }

theorem wzone_wf : wzone.WF where
  apex_soa := by decide
  soa_apex := by decide
  in_zone := by decide
  nodup := by decide

/-- `example.` with `a.b.example.` (so `b.example.` is an empty non-terminal) -/
def ezone : Zone :=
  { apex := [L "example"], cls := 1,
    nodes := [ { name := [L "example"], types := [2, 6, 46, 47, 48] },
               { name := [L "example", L "b", L "a"], types := [1, 46, 47] } ] }

def erec : Nsec := { owner := [L "example"], next := [L "example", L "b", L "a"], cls := 1, types := [2, 6, 46, 47, 48] }

theorem ezone_wf : ezone.WF where
  apex_soa := by decide
  soa_apex := by decide
  in_zone := by decide
  nodup := by decide

-- ancestor delegation: `a.sub.example.` from the delegation NSEC alone (the zone says "delegated")
example : wrec ∈ wzone.chain ∧ wzone.answerClass [L "example", L "sub", L "a"] 1 = .delegated ∧
    verifyNameErrorNSEC [L "example", L "sub", L "a"] (filterToZone wzone.apex [wrec]) = .error .badDelegation ∧
    evaluateAggressiveNSEC [L "example", L "sub", L "a"] 1 1 wzone.apex [wrec] = .error .badDelegation := by decide
-- data at the delegation point: `sub.example. A`
example : wzone.answerClass [L "example", L "sub"] 1 = .delegated ∧
    verifyNODATANSEC [L "example", L "sub"] 1 (filterToZone wzone.apex [wrec]) = .error .badDelegation ∧
    verifyNODATANSEC [L "example", L "sub"] 43 (filterToZone wzone.apex [wrec]) = .ok () := by decide
-- empty non-terminal: `b.example.` from `example. NSEC a.b.example.` (the zone says NODATA)
example : erec ∈ ezone.chain ∧ ezone.answerClass [L "example", L "b"] 1 = .nodata ∧
    verifyNameErrorNSEC [L "example", L "b"] (filterToZone ezone.apex [erec]) = .error .missing ∧
    evaluateAggressiveNSEC [L "example", L "b"] 1 1 ezone.apex [erec] = .ok (.nodata, [0]) := by decide

/-- `example.` with a wildcard, a host and `a.b.example.` (so `b.example.` is an empty non-terminal) -/
def vzone : Zone :=
  { apex := [L "example"], cls := 1,
    nodes := [ { name := [L "example"], types := [2, 6, 46, 47, 48] },
               { name := [L "example", L "*"], types := [1, 46, 47] },
               { name := [L "example", L "www"], types := [1, 46, 47] },
               { name := [L "example", L "b", L "a"], types := [1, 46, 47] } ] }

-- two expanded RRsets sharing the closest encloser `example.`: the denial of `alias` does not carry `www`
example : verifyWildcardNSEC [⟨[L "example", L "alias"], 1⟩, ⟨[L "example", L "www"], 1⟩]
      (filterToZone vzone.apex vzone.chain) = .error .noDenial ∧
    verifyWildcardNSEC [⟨[L "example", L "alias"], 1⟩, ⟨[L "example", L "alias"], 1⟩]
      (filterToZone vzone.apex vzone.chain) = .ok true := by decide
-- the former counter-witness (fixed by 697f61e): the next closer `b.example.` of `x.b.example.` is an empty
-- non-terminal, the span that contains it is no denial
example : verifyWildcardNSEC [⟨[L "example", L "b", L "x"], 1⟩] (filterToZone vzone.apex vzone.chain) = .error .noDenial ∧
    vzone.inTree [L "example", L "b"] = true ∧ vzone.answerClass [L "example", L "b", L "x"] 1 = .nxdomain := by decide
-- non-vacuity of `wildcard_answer_sound`: `alias.example.` really is a wildcard match
example : vzone.inTree [L "example", L "alias"] = false :=
  ((wildcard_answer_sound vzone (by constructor <;> decide) vzone.chain (fun _ hr => Or.inl hr)
    [⟨[L "example", L "alias"], 1⟩] true (by decide)).2 _ (List.mem_singleton.mpr rfl) (by decide)).1

/-! ### non-vacuity: the hypotheses of the theorems above are satisfiable -/

theorem wzone_chain_ok : SetOK wzone wzone.chain := fun _ hr => Or.inl hr

-- the full chain of `wzone` proves NXDOMAIN for `b.example.` (classifier and exact validator) …
example : evaluateAggressiveNSEC [L "example", L "b"] 1 1 wzone.apex wzone.chain = .ok (.nxdomain, [0]) := by decide
example : wzone.answerClass [L "example", L "b"] 1 = .nxdomain :=
  (aggressive_nsec_sound wzone wzone_wf wzone.chain wzone_chain_ok [L "example", L "b"] 1 1 .nxdomain [0]
    (by decide)).2.2.1 rfl
example : wzone.answerClass [L "example", L "b"] 1 = .nxdomain :=
  nameError_nsec_sound_nonroot wzone wzone_wf (by decide) wzone.chain wzone_chain_ok [L "example", L "b"]
    (by decide) 1 (by decide)
-- the root zone `.` with one TLD: NXDOMAIN for `b.` with closest encloser "." (no `*.` in the zone)
example : ({ apex := [], nodes := [⟨[], [2, 6, 46, 47, 48]⟩, ⟨[L "c"], [2, 46, 47]⟩] } : Zone).answerClass [L "b"] 1 = .nxdomain :=
  nameError_nsec_sound { apex := [], nodes := [⟨[], [2, 6, 46, 47, 48]⟩, ⟨[L "c"], [2, 46, 47]⟩] }
    (by constructor <;> decide) (fun _ => by decide) _ (fun _ hr => Or.inl hr) [L "b"] (by decide) 1 (by decide)
-- … NODATA for `zzz.example. AAAA`, and the insecure delegation `sub.example.`
example : wzone.answerClass [L "example", L "zzz"] 28 = .nodata :=
  nodata_nsec_sound wzone wzone_wf wzone.chain wzone_chain_ok [L "example", L "zzz"] (by decide) 28
    (by decide)
example : ∃ n, wzone.find [L "example", L "sub"] = some n ∧ delegTypes n.types = true ∧ tDS ∉ n.types :=
  delegation_nsec_sound wzone wzone_wf wzone.chain wzone_chain_ok [L "example", L "sub"] (by decide)
-- a covering record and the closest encloser it yields (an empty non-terminal counts)
example : closestEncloserFromNSEC [L "example", L "b", L "0"] erec = [L "example", L "b"] ∧
    ezone.inTree [L "example", L "b"] = true ∧ ezone.find [L "example", L "b"] = none := by decide
example : [L "example", L "b", L "0"] ∉ ezone.authNames :=
  nsec_cover_excludes ezone ezone_wf erec (by decide) _ (by decide)
-- out-of-zone pollution makes the classifier refuse the whole set
example : SetOK wzone ({ owner := [L "other"], next := [L "other", L "z"], types := [1] } :: wzone.chain) := by
  intro r hr
  rcases List.mem_cons.mp hr with rfl | hr
  · exact Or.inr (by decide)
  · exact Or.inl hr
example : evaluateAggressiveNSEC [L "example", L "b"] 1 1 wzone.apex
    ({ owner := [L "other"], next := [L "other", L "z"], types := [1] } :: wzone.chain) = .error .missing := by decide

/-! ## NSEC3 (the hash is an arbitrary function) -/

section nsec3
open SdnsVerif.Model.Nsec3 SdnsVerif.Lemmas.Nsec3

/-- **One chain only.**  If `prepareNSEC3Set` accepts a record set for a
signer, then every usable record in it (algorithm 1, iterations within the
cap, flags 0/1 — the others are ignored, RFC 5155 §8.1–8.2) has the ring's
class and an owner exactly one label below that signer, and any two usable
records carry the same (algorithm, iterations, salt): sets mixing NSEC3
parameters, classes or zones are refused. -/
theorem nsec3_prepare_single_chain (records : List Nsec3) (zone : Name) (ring : Ring)
    (h : prepare records zone = .ok ring) :
    (∀ r ∈ records, usable r = true → r.cls = ring.cls ∧ ownerInZone zone r = true) ∧
    (∀ r₁ ∈ records, ∀ r₂ ∈ records, usable r₁ = true → usable r₂ = true → sameParams r₁ r₂ = true) :=
  ⟨(prepare_ok h).2.1, (prepare_ok h).2.2.1⟩

/-- **Unique match / unique cover / never both** for every hash value looked up in a ring. -/
theorem nsec3_lookup_unique (entries : List Entry3) (v : Hash) (m c : Option Entry3)
    (h : lookupHash entries v = .ok (m, c)) :
    ¬(m.isSome = true ∧ c.isSome = true) ∧
    (∀ e, c = some e → ∀ e' ∈ entries, e'.ownerHash ≠ v → covers3 e'.ownerHash e'.nextHash v = true → e' = e) :=
  ⟨lookupHash_exclusive h, fun e he => ((lookupHash_ok h).2 e he).2.2.2.2⟩

/-- **A ring built by sorting owner hashes excludes what its spans cover**, for
any hash function: if the owner hashes are pairwise distinct (RFC 5155 §7.1
makes the signer re-salt otherwise), a record of the sorted ring whose span
strictly covers a value proves that value is not an owner hash — normal
spans, the wrap-around of the last record and the one-record ring alike. -/
theorem nsec3_ring_cover_excludes (hs : List Hash) (hd : hs.Pairwise (· ≠ ·)) (r : Nsec) (hr : r ∈ ringOf hs)
    (o n : Hash) (ho : r.owner = [o]) (hn : r.next = [n]) (h : Hash) (hc : covers3 o n h = true) : h ∉ hs :=
  ringOf_cover_excludes hs hd r hr o n ho hn h hc

/-- **`VerifyNameErrorForZoneWithWork` is sound for an arbitrary hash, and an
Opt-Out proof is never secure.**  `hashed`: the names the genuine ring was
built from; `all`: every name of the zone's tree (owners, empty
non-terminals, delegation points — opted out or not), closed under taking
ancestors down to the signer.  If every usable record is genuine
(`RecGenuine`: nothing hashed lies strictly inside its span; nothing of the
tree at all unless it carries Opt-Out) and the validator answers `ok secure`:

* the ring has the question's class, the closest encloser lies in the signer zone,
* `secure` is exactly "the next-closer cover carries no Opt-Out flag",
* `secure = true` ⇒ the question name is not in the zone's tree.

No injectivity of the hash is assumed (a colliding question name only ever
produces a *match*, on which nothing is denied). -/
theorem nsec3_nameerror_sound (all hashed : List Name) (H : Name → Hash) (records : List Nsec3)
    (hgen : ∀ r ∈ records, usable r = true → RecGenuine all hashed H r)
    (signer q : Name) (qclass : Nat)
    (hclosed : ∀ n ∈ all, ∀ j, signer.length ≤ j → j ≤ n.length → n.take j ∈ all)
    (secure : Bool)
    (h : verifyNameError (fun n => some (H n)) records signer q qclass = .ok secure) :
    ∃ ring k nc, prepare records signer = .ok ring ∧ ring.cls = qclass ∧
      signer.length ≤ k ∧ k < q.length ∧
      findCoverer (fun n => some (H n)) ring (q.take (k + 1)) = .ok nc ∧
      secure = (nc.flags % 2 == 0) ∧ (secure = true → q ∉ all) :=
  verifyNameError_sound hgen hclosed h

/-- **NSEC3 wildcard NODATA, arbitrary hash**: when no record matches the
question name, a SECURE NODATA verdict of `VerifyNODATAForZoneWithWork` rests
on a validated closest encloser whose next-closer name is covered by a span
without Opt-Out — so the question name itself is not in the zone's tree (no
owner, no empty non-terminal, no delegation at or above it below the
encloser); the data the answer denies can only be the wildcard's. -/
theorem nsec3_nodata_nomatch_sound (all hashed : List Name) (H : Name → Hash) (records : List Nsec3)
    (hgen : ∀ r ∈ records, usable r = true → RecGenuine all hashed H r)
    (signer q : Name) (t qclass : Nat)
    (hclosed : ∀ n ∈ all, ∀ j, signer.length ≤ j → j ≤ n.length → n.take j ∈ all)
    (ring : Ring) (hprep : prepare records signer = .ok ring)
    (hnomatch : ∀ m, findMatching (fun n => some (H n)) ring q ≠ .ok m)
    (h : verifyNODATA (fun n => some (H n)) records signer q t qclass = .ok true) : q ∉ all :=
  verifyNODATA_nomatch_sound hgen hclosed hprep hnomatch h

/-- **NSEC3 NXDOMAIN over the sorted ring, end to end** (no Opt-Out omission).
`names`: every name of the zone's tree, closed under ancestors down to the
signer; the ring is what a signer builds — their hashes, sorted, each
pointing to its successor, the last wrapping around — and the hash is any
function that does not collide on those names (RFC 5155 §7.1).  For every
selection of records copied from that ring (flags and bitmaps free, unusable
records ignored) and EVERY question name (colliding or not): an accepted
NXDOMAIN, secure or not, is for a name outside the tree; likewise a
synthesised one. -/
theorem nsec3_nxdomain_sound_sorted_ring (names : List Name) (H : Name → Hash)
    (hd : (names.map H).Pairwise (· ≠ ·)) (records : List Nsec3)
    (hrec : ∀ r ∈ records, FromRing names H r) (signer q : Name) (t qclass : Nat)
    (hclosed : ∀ n ∈ names, ∀ j, signer.length ≤ j → j ≤ n.length → n.take j ∈ names) :
    (verifyNameError (fun n => some (H n)) records signer q qclass = .ok true → q ∉ names) ∧
    (∀ p, evaluateAggressiveNSEC3 (fun n => some (H n)) q t qclass signer records = .ok (.nxdomain, p) → q ∉ names) := by
  have hgen : ∀ r ∈ records, RecGenuine names names H r := fun r hr => fromRing_genuine names H hd r (hrec r hr)
  refine ⟨?_, fun p h => evaluateAggressiveNSEC3_nx_sound hgen hclosed h⟩
  intro h
  obtain ⟨_, _, _, _, _, _, _, _, _, hq⟩ := verifyNameError_sound (fun r hr _ => hgen r hr) hclosed h
  exact hq rfl

/-- **"No DS, the delegation is insecure" from NSEC3** (`VerifyDelegationForZoneWithWork`,
RFC 5155 §8.9): accepted only (a) from the record matching the name itself,
with NS set and neither DS nor SOA, or (b) without a match, from a closest
encloser that is validated — its record carries neither DNAME nor
NS-without-SOA, so the name is not below one of the signer's own zone cuts or
DNAMEs (RFC 6840 §4.1) — whose next-closer name is covered by a span WITH the
Opt-Out flag. -/
theorem nsec3_delegation_sound (H : HashFn) (records : List Nsec3) (signer d : Name)
    (h : verifyDelegation H records signer d = .ok ()) :
    ∃ ring, prepare records signer = .ok ring ∧
      ((∃ m, findMatching H ring d = .ok m ∧ typesSet m.types [tNS] = true ∧ typesSet m.types [tDS, tSOA] = false) ∨
       (∃ k m nc, closestEncloser H ring d = some (k, m) ∧
          typesSet m.types [tDNAME] = false ∧ (typesSet m.types [tNS] && !typesSet m.types [tSOA]) = false ∧
          findCoverer H ring (nextCloser d k) = .ok nc ∧ nc.flags % 2 = 1)) := by
  unfold verifyDelegation at h
  split at h
  · cases h
  · rename_i ring hprep
    refine ⟨ring, hprep, ?_⟩
    split at h
    · rename_i m hm
      split at h
      · cases h
      · rename_i hns
        split at h
        · cases h
        · rename_i hds
          exact Or.inl ⟨m, hm, by simpa using hns, by simpa using hds⟩
    · split at h
      · cases h
      · rename_i k m hce
        split at h
        · cases h
        · rename_i nc hnc
          split at h
          · rename_i hfl
            right
            unfold validateCE at hce
            split at hce
            · cases hce
            · rename_i k' m' hcl
              split at hce
              · cases hce
              · rename_i hcut
                simp only [Except.ok.injEq, Prod.mk.injEq] at hce
                obtain ⟨rfl, rfl⟩ := hce
                simp only [Bool.or_eq_true, not_or, Bool.not_eq_true] at hcut
                exact ⟨k', m', nc, hcl, hcut.1, hcut.2, hnc, by simpa using hfl⟩
          · cases h

/-- **NSEC3 NODATA from a matching record** (`VerifyNODATAForZoneWithWork`,
RFC 5155 §8.5): whenever a record matches the question name's hash, the
verdict is decided by that record alone — accepted (always as secure) only if
its bitmap has neither the type nor CNAME, DS is not denied from an
SOA-carrying (child-apex) record, and a delegation point's record (NS without
SOA) denies nothing but DS.  With `hown` (the matching record is the one of a
zone node `n`, which holds for genuine records when the hash does not collide
on the question name) the denied type is really absent at that node. -/
theorem nsec3_nodata_match_sound (H : HashFn) (records : List Nsec3) (signer q : Name) (t qclass : Nat)
    (ring : Ring) (m : Entry3) (b : Bool)
    (hprep : prepare records signer = .ok ring) (hm : findMatching H ring q = .ok m)
    (h : verifyNODATA H records signer q t qclass = .ok b) :
    b = true ∧ ring.cls = qclass ∧ t ∉ m.types ∧ tCNAME ∉ m.types ∧ (t = tDS → tSOA ∉ m.types) ∧
    (t ≠ tDS → ¬(tNS ∈ m.types ∧ tSOA ∉ m.types)) ∧
    (∀ n : Node, n.types = m.types → t ∉ n.types ∧ tCNAME ∉ n.types) := by
  unfold verifyNODATA at h
  rw [hprep] at h
  simp only at h
  split at h
  · cases h
  · rename_i hcls
    rw [hm] at h
    simp only at h
    split at h
    · cases h
    · rename_i h1
      split at h
      · cases h
      · rename_i h2
        split at h
        · cases h
        · rename_i h3
          simp only [Except.ok.injEq] at h
          have h1' := (typesSet_pair_false m.types t tCNAME).mp (by simpa using h1)
          refine ⟨h.symm, by simpa using hcls, h1'.1, h1'.2, ?_, ?_, fun n hn => hn ▸ ⟨h1'.1, h1'.2⟩⟩
          · intro ht hs
            apply h2
            simp only [Bool.and_eq_true, beq_iff_eq]
            exact ⟨ht, (typesSet_iff m.types [tSOA]).mpr ⟨tSOA, hs, by simp⟩⟩
          · intro ht ⟨hns, hsoa⟩
            apply h3
            simp only [Bool.and_eq_true, bne_iff_ne, ne_eq, Bool.not_eq_true']
            refine ⟨⟨ht, (typesSet_iff m.types [tNS]).mpr ⟨tNS, hns, by simp⟩⟩, ?_⟩
            cases hs : typesSet m.types [tSOA] with
            | false => rfl
            | true =>
              obtain ⟨x, hx, hx'⟩ := (typesSet_iff m.types [tSOA]).mp hs
              simp only [List.mem_singleton] at hx'
              exact absurd (hx' ▸ hx) hsoa

/-- **`EvaluateAggressiveNSEC3` never fabricates an NXDOMAIN, for an arbitrary
hash.**  If every record offered is genuine and the evaluator synthesises
NXDOMAIN, the question name is not in the zone's tree: the evaluator found
the next-closer name strictly inside a span that carries no Opt-Out flag
(an Opt-Out cover is `ErrNSECOptOut`), and the tree is closed under ancestors. -/
theorem aggressive_nsec3_nxdomain_sound (all hashed : List Name) (H : Name → Hash) (records : List Nsec3)
    (hgen : ∀ r ∈ records, RecGenuine all hashed H r) (signer q : Name) (t qclass : Nat)
    (hclosed : ∀ n ∈ all, ∀ j, signer.length ≤ j → j ≤ n.length → n.take j ∈ all) (p : List Nat)
    (h : evaluateAggressiveNSEC3 (fun n => some (H n)) q t qclass signer records = .ok (.nxdomain, p)) :
    q ∉ all :=
  evaluateAggressiveNSEC3_nx_sound hgen hclosed h

-- non-vacuity: a one-name zone `z.` under the toy hash "number of labels"; its
-- single-record ring proves NXDOMAIN for `a.z.` securely
def toyH : Name → Hash := fun n => [n.length]
def toyRec : Nsec3 :=
  { owner := [L "z", [1]], ownerHash := some [1], next := some [1], hashLen := 1, alg := 1, flags := 0, iter := 0,
    salt := some [], cls := 1, types := [2, 6] }
example : verifyNameError (fun n => some (toyH n)) [toyRec] [L "z"] [L "z", L "a"] 1 = .ok true := by decide
example : evaluateAggressiveNSEC3 (fun n => some (toyH n)) [L "z", L "a"] 1 1 [L "z"] [toyRec] = .ok (.nxdomain, [0]) := by
  decide
-- non-vacuity of `nsec3_nodata_match_sound` / `nsec3_delegation_sound`: `z. A` is NODATA from the apex record
example : verifyNODATA (fun n => some (toyH n)) [toyRec] [L "z"] [L "z"] 1 1 = .ok true ∧
    (∃ ring m, prepare [toyRec] [L "z"] = .ok ring ∧ findMatching (fun n => some (toyH n)) ring [L "z"] = .ok m) := by
  refine ⟨by decide, ?_⟩
  exact ⟨{ zone := [L "z"], cls := 1, entries := [toEntry (0, toyRec)] }, toEntry (0, toyRec), by decide, by decide⟩
-- non-vacuity of `nsec3_nodata_nomatch_sound`: a two-record toy ring `z.` (hash [1], types incl. the wildcard's)
-- and `*.z.` (hash [2]) answers `a.z. AAAA` with a secure wildcard NODATA; `a.z.` has no matching record
def toyRecW : Nsec3 := { toyRec with owner := [L "z", [2]], ownerHash := some [2], next := some [1], types := [1, 46] }
def toyRecA : Nsec3 := { toyRec with next := some [2] }
example : verifyNODATA (fun n => some (if n = [L "z", L "a"] then [1, 5] else toyH n)) [toyRecA, toyRecW]
    [L "z"] [L "z", L "a"] 28 1 = .ok true := by decide
-- non-vacuity of `nsec3_nxdomain_sound_sorted_ring`: the toy record IS the sorted ring of the one-name zone
example : FromRing [[L "z"]] toyH toyRec :=
  ⟨{ owner := [[1]], next := [[1]], cls := 1, types := [] }, by decide, [1], [1], rfl, rfl, rfl, rfl⟩
example : [L "z", L "a"] ∉ [[L "z"]] :=
  (nsec3_nxdomain_sound_sorted_ring [[L "z"]] toyH (by decide) [toyRec]
    (fun r hr => by
      rw [List.mem_singleton] at hr; subst hr
      exact ⟨{ owner := [[1]], next := [[1]], cls := 1, types := [] }, by decide, [1], [1], rfl, rfl, rfl, rfl⟩)
    [L "z"] [L "z", L "a"] 1 1
    (by
      intro n hn j h1 h2
      rw [List.mem_singleton] at hn; subst hn
      have : j = 1 := by simp at h1 h2; omega
      subst this; simp)).1 (by decide)
example : RecGenuine [[L "z"]] [[L "z"]] toyH toyRec where
  gap := by
    intro oh nh h1 h2 n hn
    simp only [toyRec, Option.some.injEq] at h1 h2
    subst h1 h2
    rw [List.mem_singleton] at hn; subst hn; decide
  gapAll := by
    intro _ oh nh h1 h2 n hn
    simp only [toyRec, Option.some.injEq] at h1 h2
    subst h1 h2
    rw [List.mem_singleton] at hn; subst hn; decide

end nsec3

/-! ## admission of shared denial state, AD, and what an incomplete proof leads to -/

section admission
open SdnsVerif.Model.Admission

/-- **Admission guard** (`cache.ResponseWriter.WriteMsg`): a denial proof or a
subtree cut is recorded only for the exact response the resolver marked
(local provenance), with a typed NSEC/NSEC3 proof the RFC 8198 evaluator
reproduced (`Aggressive`), request CD = 0, response CD = 0, no client ECS and
no ECS cache scope. -/
theorem admission_guard (i : WriteIn) (h : proofRecorded i = true ∨ cutRecorded i = true) :
    i.marked = true ∧ i.copied = false ∧ i.agg = true ∧ i.kind ≠ 0 ∧
    i.reqCD = false ∧ i.respCD = false ∧ i.ecs = false ∧ i.hasScope = false := by
  have hadm : admitted i = true := by
    rcases h with h | h
    · unfold proofRecorded at h; simp only [Bool.and_eq_true] at h; exact h.1.1
    · unfold cutRecorded at h; simp only [Bool.and_eq_true] at h; exact h.1.1
  unfold admitted provenance at hadm
  cases hm : i.marked <;> cases hc : i.copied <;> cases hk : decide (i.kind = 0) <;>
    simp_all

/-- a subtree cut (RFC 8020) is recorded only for NXDOMAIN and never over an Opt-Out span. -/
theorem cut_needs_nxdomain_no_optout (i : WriteIn) (h : cutRecorded i = true) :
    i.nx = true ∧ ¬(i.fam = 2 ∧ i.optout = true) := by
  unfold cutRecorded at h
  simp only [Bool.and_eq_true, Bool.not_eq_true', Bool.and_eq_false_iff, beq_eq_false_iff_ne] at h
  refine ⟨h.1.2, ?_⟩
  rintro ⟨h1, h2⟩
  rcases h.2 with h3 | h3
  · exact h3 h1
  · rw [h2] at h3; cases h3

/-- **Opt-Out never earns AD nor shared state** (`Resolver.authority` +
WriteMsg): when the exact validator reports `secure = false` (its proof rests
on an Opt-Out span) the response gets no AD, no provenance mark and is not
aggressive-eligible — so, whatever else holds, nothing is admitted to the
shared denial caches; and an `ErrNSECOptOut` from the RFC 8198 evaluator
withholds `Aggressive` (hence admission) even for a secure proof. -/
theorem optout_never_shared (fam : Family) (agg : Except Err Rcode) (respNX reqCD : Bool) :
    let o := authority fam (.ok false) agg respNX reqCD
    o.ad = false ∧ o.marked = false ∧ o.aggressive = false ∧
    (∀ i : WriteIn, i.marked = o.marked → proofRecorded i = false ∧ cutRecorded i = false) ∧
    (∀ exact, (authority fam exact (.error .optOut) respNX reqCD).aggressive = false) := by
  refine ⟨?_, ?_, ?_, ?_, ?_⟩
  · unfold authority; cases reqCD <;> simp
  · unfold authority; cases reqCD <;> simp
  · unfold authority; cases reqCD <;> simp
  · intro i hi
    have hm : i.marked = false := by rw [hi]; unfold authority; cases reqCD <;> simp
    unfold proofRecorded cutRecorded admitted provenance
    simp [hm]
  · intro exact
    unfold authority
    cases reqCD <;> cases exact <;> simp

/-- `Aggressive` (the only door to shared state) needs the exact validator to
accept with `secure = true` AND the RFC 8198 evaluator to reach the response's
own RCODE on the same records. -/
theorem aggressive_needs_both (fam : Family) (exact : Except Err Bool) (agg : Except Err Rcode)
    (respNX reqCD : Bool) (h : (authority fam exact agg respNX reqCD).aggressive = true) :
    exact = .ok true ∧ reqCD = false ∧ ∃ rc, agg = .ok rc ∧ ((rc == Rcode.nxdomain) = respNX) := by
  unfold authority at h
  cases reqCD
  · cases exact with
    | error e => simp at h
    | ok secure =>
      cases secure
      · simp at h
      · cases agg with
        | error e => cases fam <;> simp at h
        | ok rc => cases fam <;> simp at h <;> exact ⟨rfl, rfl, rc, rfl, by simpa using h⟩
  · simp at h

/-- **An incomplete proof is never a denial.**  Resolver side: any error of
the exact validator makes `authority` fail (SERVFAIL), with no AD and no
mark; any error of the RFC 8198 evaluator only withholds `Aggressive`.  Cache
side: any evaluator error is a miss (ordinary resolution), and a synthesised
NXDOMAIN / NODATA arises only from the evaluator's own `ok` verdict. -/
theorem incomplete_is_not_denial :
    (∀ fam e agg nx, let o := authority fam (.error e) agg nx false
        o.servfail = true ∧ o.ad = false ∧ o.marked = false ∧ o.aggressive = false) ∧
    (∀ fam exact e nx cd, (authority fam exact (.error e) nx cd).aggressive = false) ∧
    (∀ e, synth (.error e) = .miss) ∧
    (∀ r, synth r = .nxdomain → ∃ p, r = .ok (.nxdomain, p)) ∧
    (∀ r, synth r = .nodata → ∃ p, r = .ok (.nodata, p)) := by
  refine ⟨?_, ?_, ?_, ?_, ?_⟩
  · intro fam e agg nx; unfold authority; simp
  · intro fam exact e nx cd; unfold authority; cases cd <;> cases exact <;> simp
  · intro e; rfl
  · intro r h
    unfold synth at h
    split at h
    · rename_i p; exact ⟨p, rfl⟩
    · cases h
    · cases h
  · intro r h
    unfold synth at h
    split at h
    · cases h
    · rename_i p; exact ⟨p, rfl⟩
    · cases h

/-- the background refresh publishes shared denial state under the same
conditions as the response writer: unscoped entry, request CD = 0, no ECS
(neither remembered nor present), response CD = 0, exact-response provenance,
`Aggressive`; a cut only for NXDOMAIN. -/
theorem prefetch_admission_guard (i : PrefetchIn) (h : prefetchAdmitted i = true ∨ prefetchCut i = true) :
    i.entryScoped = false ∧ i.reqCD = false ∧ i.hadECS = false ∧ i.reqECSOpt = false ∧ i.respCD = false ∧
    i.marked = true ∧ i.agg = true ∧ (prefetchCut i = true → i.nx = true) := by
  have hadm : prefetchAdmitted i = true := by
    rcases h with h | h
    · exact h
    · unfold prefetchCut at h; simp only [Bool.and_eq_true] at h; exact h.1
  unfold prefetchAdmitted at hadm
  simp only [Bool.and_eq_true, Bool.not_eq_true'] at hadm
  obtain ⟨⟨⟨⟨⟨⟨h1, h2⟩, h3⟩, h4⟩, h5⟩, h6⟩, h7⟩ := hadm
  refine ⟨h1, h2, h3, h4, h5, h6, h7, ?_⟩
  intro hc; unfold prefetchCut at hc; simp only [Bool.and_eq_true] at hc; exact hc.2

/-- **RFC 8020 stop only for aggressive, non-Opt-Out proofs**: resolution of a
longer name is cut short at a minimised NXDOMAIN only when that NXDOMAIN was
validated locally, reproduced by the RFC 8198 evaluator and rests on no
Opt-Out span; combined with `optout_never_shared`, an Opt-Out based or merely
exact-validated denial never prunes a subtree. -/
theorem rfc8020_stop_guard (marked aggressive proofNX optOut : Bool)
    (h : rfc8020Stop marked aggressive proofNX optOut = true) :
    marked = true ∧ aggressive = true ∧ proofNX = true ∧ optOut = false := by
  unfold rfc8020Stop at h
  simp only [Bool.and_eq_true, Bool.not_eq_true'] at h
  exact ⟨h.1.1.1, h.1.1.2, h.1.2, h.2⟩

example : prefetchCut
    { entryScoped := false, reqCD := false, hadECS := false, reqECSOpt := false, respCD := false,
      marked := true, agg := true, nx := true } = true := by decide
example : rfc8020Stop true true true false = true ∧ rfc8020Stop true true true true = false := by decide

-- non-vacuity: an admissible write is recorded; one flipped guard is not
example : proofRecorded
    { reqCD := false, respCD := false, ecs := false, hasScope := false, marked := true,
      copied := false, kind := 1, agg := true, fam := 1, nx := true, optout := false } = true := by decide
example : cutRecorded
    { reqCD := false, respCD := false, ecs := false, hasScope := false, marked := true,
      copied := false, kind := 2, agg := true, fam := 2, nx := true, optout := true } = false := by decide
example : (authority .nsec3 (.ok true) (.ok .nxdomain) true false).aggressive = true := by decide

/-! ### `Resolver.authority` end to end (`authorityStep`, compared line by line with the real function: `z auth`, `h auth`) -/

open SdnsVerif.Model.Nsec3 SdnsVerif.Lemmas.Nsec3

/-- **An unproven denial is never passed on.**  For every negative response
from a signed zone (any records, any hash, any question, every question type —
RRSIG included since /repo 129b2e9), a request with CD = 0 and a zone the
resolver holds a DS for: if `Resolver.authority` does not fail, then EITHER the
section named a signer, the question lies in the signer's zone, every in-zone
RRset verified, and the exact validator `authority` picks for the records
(NSEC3 if any in-zone NSEC3 is present, else NSEC; none at all is an error)
ACCEPTED the proof — AD and provenance are its `secure` verdict; OR the section
carried no signature at all and an insecure delegation strictly above the
question name (for a DS question: above its parent side) is PROVEN by a
validly signed DS-lookup response (`provenInsecure`), in which case the
response travels on without AD and without provenance.  There is no other
"treat as insecure" exit. -/
theorem authority_passes_only_proven (H : HashFn) (i : AuthIn)
    (hcd : i.reqCD = false) (hds : i.haveDS = true) (h : (authorityStep H i).servfail = false) :
    (i.signed = false ∧ provenInsecure H i = true ∧ (authorityStep H i).ad = false ∧ (authorityStep H i).marked = false) ∨
    (i.signed = true ∧ nameInZone i.q i.signer = true ∧ i.sigsGood = true ∧
      ∃ secure, authExact H i = .ok secure ∧ (authorityStep H i).ad = secure ∧ (authorityStep H i).marked = secure) := by
  unfold authorityStep at h ⊢
  simp only [hcd, Bool.false_eq_true, ↓reduceIte] at h ⊢
  cases hs : i.signed <;> simp only [hs, hds, Bool.not_true, Bool.not_false, Bool.false_eq_true, ↓reduceIte] at h ⊢
  · cases hp : provenInsecure H i <;> simp only [hp, Bool.false_eq_true, ↓reduceIte] at h ⊢
    · simp [authServfail] at h
    · exact Or.inl ⟨trivial, trivial, rfl, rfl⟩
  cases hz : nameInZone i.q i.signer <;> simp only [hz, Bool.not_true, Bool.not_false, Bool.false_eq_true, ↓reduceIte] at h ⊢
  · simp [authServfail] at h
  cases hg : i.sigsGood <;> simp only [hg, Bool.not_true, Bool.not_false, Bool.false_eq_true, ↓reduceIte] at h ⊢
  · simp [authServfail] at h
  cases he : authExact H i with
  | error e => rw [he] at h; simp [authority] at h
  | ok b => exact Or.inr ⟨trivial, trivial, trivial, b, rfl, by simp [authority], by simp [authority]⟩

/-- AD, provenance and `Aggressive` are downstream of the exact proof: AD = the
proof is secure; provenance exactly when AD; `Aggressive` only with provenance
and only when the RFC 8198 evaluator reaches the response's own verdict. -/
theorem authority_ad_needs_secure_proof (H : HashFn) (i : AuthIn) :
    let o := authorityStep H i
    (o.ad = true → i.reqCD = false ∧ i.haveDS = true ∧ i.sigsGood = true ∧ authExact H i = .ok true) ∧
    (o.marked = o.ad) ∧
    (o.aggressive = true → o.marked = true ∧
      ∃ rc, authAgg H i = .ok rc ∧ ((rc == Rcode.nxdomain) == i.nx) = true) := by
  unfold authorityStep
  cases hcd : i.reqCD <;> simp only [Bool.false_eq_true, ↓reduceIte]
  · cases hs : i.signed <;> simp only [Bool.not_true, Bool.not_false, Bool.false_eq_true, ↓reduceIte]
    · cases i.haveDS <;> cases provenInsecure H i <;> simp [authServfail, authPassed]
    cases hz : nameInZone i.q i.signer <;> simp only [Bool.not_true, Bool.not_false, Bool.false_eq_true, ↓reduceIte]
    · simp [authServfail]
    cases hds : i.haveDS <;> simp only [Bool.not_true, Bool.not_false, Bool.false_eq_true, ↓reduceIte]
    · simp [authPassed]
    cases hg : i.sigsGood <;> simp only [Bool.not_true, Bool.not_false, Bool.false_eq_true, ↓reduceIte]
    · simp [authServfail]
    cases he : authExact H i with
    | error e => simp [authority]
    | ok b =>
      cases b
      · simp [authority]
      · refine ⟨fun _ => ⟨trivial, trivial, trivial, rfl⟩, by simp [authority], ?_⟩
        intro ha
        refine ⟨by simp [authority], ?_⟩
        cases hagg : authAgg H i with
        | error e => rw [hagg] at ha; cases authFamily i <;> simp [authority] at ha
        | ok rc => rw [hagg] at ha; refine ⟨rc, rfl, ?_⟩; simp [authority] at ha; simpa using ha.2
  · simp [authPassed]

/-- **NSEC3 records the validator declines to hash with prove nothing** (RFC 5155
§10.3 / RFC 9276: iterations above the ceiling, unknown hash algorithm, unknown
flags): when every in-zone NSEC3 record of the response is unusable, the
signed response is refused — never downgraded to "insecure" and passed on. -/
theorem authority_unusable_nsec3_refused (H : HashFn) (i : AuthIn)
    (hcd : i.reqCD = false) (hds : i.haveDS = true) (hsg : i.signed = true)
    (hne : (authNsec3Set i).isEmpty = false) (hun : ∀ r ∈ authNsec3Set i, usable r = false) :
    (authorityStep H i).servfail = true := by
  have hf : (authNsec3Set i).filter usable = [] := by
    apply List.filter_eq_nil_iff.mpr
    intro r hr; simp [hun r hr]
  have hp : prepare (authNsec3Set i) i.signer = .error .missing := by
    unfold prepare; rw [hf]; rfl
  have hex : ∃ e, authExact H i = .error e := by
    unfold authExact
    simp only [hne, Bool.not_false, ↓reduceIte]
    cases i.nx
    · simp only [Bool.false_eq_true, ↓reduceIte]; unfold verifyNODATA; rw [hp]; exact ⟨_, rfl⟩
    · simp only [↓reduceIte]; unfold verifyNameError; rw [hp]; exact ⟨_, rfl⟩
  obtain ⟨e, he⟩ := hex
  unfold authorityStep
  simp only [hcd, Bool.false_eq_true, ↓reduceIte]
  simp only [hsg, hds, Bool.not_true, Bool.false_eq_true, ↓reduceIte]
  cases nameInZone i.q i.signer <;> simp only [Bool.not_true, Bool.not_false, Bool.false_eq_true, ↓reduceIte]
  · rfl
  cases i.sigsGood <;> simp only [Bool.not_true, Bool.not_false, Bool.false_eq_true, ↓reduceIte]
  · rfl
  rw [he]; simp [authority]

/-- no denial record of the signer zone at all: refused (`ErrNSECMissingCoverage`). -/
theorem authority_without_denial_records_refused (H : HashFn) (i : AuthIn)
    (hcd : i.reqCD = false) (hds : i.haveDS = true) (hsg : i.signed = true)
    (h3 : (authNsec3Set i).isEmpty = true) (h1 : (authNsecSet i).isEmpty = true) :
    (authorityStep H i).servfail = true := by
  have he : authExact H i = .error .missing := by
    unfold authExact; simp [h3, h1]
  unfold authorityStep
  simp only [hcd, Bool.false_eq_true, ↓reduceIte]
  simp only [hsg, hds, Bool.not_true, Bool.false_eq_true, ↓reduceIte]
  cases nameInZone i.q i.signer <;> simp only [Bool.not_true, Bool.not_false, Bool.false_eq_true, ↓reduceIte]
  · rfl
  cases i.sigsGood <;> simp only [Bool.not_true, Bool.not_false, Bool.false_eq_true, ↓reduceIte]
  · rfl
  rw [he]; simp [authority]

/-- **End to end, NSEC.**  A well-formed NSEC-signed zone `z` (the root zone
under the side condition of `nameError_nsec_sound`), a response whose NSEC
records are any selection of the zone's genuine chain plus records outside the
zone, no NSEC3 record of the zone in it, validated under the zone's apex as
signer, request CD = 0: if `Resolver.authority` passes
the response on at all, the zone's own answer to the question is the denial
the response claims — NXDOMAIN for RCODE 3, NODATA for an empty NOERROR. -/
theorem authority_nsec_end_to_end (H : HashFn) (z : Zone) (hz : z.WF)
    (hroot : z.apex = [] → z.inTree [star] = false) (i : AuthIn)
    (hsig : i.signer = z.apex) (hs : SetOK z i.nsec) (h3 : (authNsec3Set i).isEmpty = true)
    (hcd : i.reqCD = false) (hds : i.haveDS = true) (hsg : i.signed = true)
    (h : (authorityStep H i).servfail = false) :
    z.answerClass i.q i.t = (if i.nx then .nxdomain else .nodata) := by
  obtain ⟨_, hq, _, b, hb, _, _⟩ : i.signed = true ∧ nameInZone i.q i.signer = true ∧ i.sigsGood = true ∧
      ∃ secure, authExact H i = .ok secure ∧ (authorityStep H i).ad = secure ∧ (authorityStep H i).marked = secure := by
    rcases authority_passes_only_proven H i hcd hds h with h' | h'
    · rw [hsg] at h'; cases h'.1
    · exact h'
  have hq' : z.apex <+: i.q := by
    rw [← hsig]; exact List.isPrefixOf_iff_prefix.mp (by simpa [nameInZone] using hq)
  unfold authExact at hb
  simp only [h3, Bool.not_true, Bool.false_eq_true, ↓reduceIte] at hb
  by_cases hn : (authNsecSet i).isEmpty = true
  · simp [hn] at hb
  simp only [hn, Bool.not_false, ↓reduceIte] at hb
  unfold authNsecSet at hb
  rw [hsig] at hb
  cases hnx : i.nx <;> simp only [hnx, Bool.false_eq_true, ↓reduceIte] at hb ⊢
  · cases hv : verifyNODATANSEC i.q i.t (filterToZone z.apex i.nsec) with
    | error e => rw [hv] at hb; cases hb
    | ok u => cases u; exact nodata_nsec_sound z hz i.nsec hs i.q hq' i.t hv
  · cases hv : verifyNameErrorNSEC i.q (filterToZone z.apex i.nsec) with
    | error e => rw [hv] at hb; cases hb
    | ok u => cases u; exact nameError_nsec_sound z hz hroot i.nsec hs i.q hq' i.t hv

/-- **End to end, NSEC3 NXDOMAIN.**  An NSEC3-signed zone (`names`: its tree,
closed under ancestors down to the signer; ring = the sorted hashes under any
hash that does not collide on those names), a response whose NSEC3 records are
any selection of that ring and that carries no NSEC record: if
`Resolver.authority` sets AD on an NXDOMAIN, the question name is not in the
zone's tree — whatever the request, the signatures' state or the question
type were (AD is only ever set on the validated path). -/
theorem authority_nsec3_nxdomain_end_to_end (names : List Name) (H : Name → Hash)
    (hd : (names.map H).Pairwise (· ≠ ·)) (i : AuthIn)
    (hrec : ∀ r ∈ i.nsec3, FromRing names H r) (hnsec : i.nsec = [])
    (hclosed : ∀ n ∈ names, ∀ j, i.signer.length ≤ j → j ≤ n.length → n.take j ∈ names)
    (hnx : i.nx = true) (had : (authorityStep (fun n => some (H n)) i).ad = true) : i.q ∉ names := by
  obtain ⟨_, _, _, hex⟩ := (authority_ad_needs_secure_proof (fun n => some (H n)) i).1 had
  unfold authExact at hex
  have hrec' : ∀ r ∈ authNsec3Set i, FromRing names H r := by
    intro r hr; unfold authNsec3Set at hr; exact hrec r (List.mem_filter.mp hr).1
  by_cases he : (authNsec3Set i).isEmpty = true
  · have : (authNsecSet i).isEmpty = true := by unfold authNsecSet filterToZone; simp [hnsec]
    simp [he, this] at hex
  · simp only [he, Bool.not_false, ↓reduceIte, hnx] at hex
    exact (nsec3_nxdomain_sound_sorted_ring names H hd (authNsec3Set i) hrec' i.signer i.q i.t 1 hclosed).1 hex

-- non-vacuity of `authority_nsec3_nxdomain_end_to_end`: the toy one-name zone, `a.z.` denied with AD
def toyAuth : AuthIn :=
  { signer := [L "z"], q := [L "z", L "a"], t := 1, nx := true, reqCD := false, haveDS := true, signed := true, sigsGood := true,
    nsec := [], nsec3 := [toyRec] }
example : authorityStep (fun n => some (toyH n)) toyAuth
    = { servfail := false, ad := true, marked := true, aggressive := true } := by decide
example : toyAuth.q ∉ [[L "z"]] :=
  authority_nsec3_nxdomain_end_to_end [[L "z"]] toyH (by decide) toyAuth
    (fun r hr => by
      simp only [toyAuth, List.mem_singleton] at hr; subst hr
      exact ⟨{ owner := [[1]], next := [[1]], cls := 1, types := [] }, by decide, [1], [1], rfl, rfl, rfl, rfl⟩)
    rfl
    (by
      intro n hn j h1 h2
      rw [List.mem_singleton] at hn; subst hn
      have : j = 1 := by simp [toyAuth] at h1 h2; omega
      subst this; simp)
    rfl (by decide)

-- non-vacuity of `authority_nsec_end_to_end`: the full chain of `wzone` carries `b.example. A` NXDOMAIN through
-- `authorityStep`, and the theorem returns the zone's own verdict
def wAuth : AuthIn :=
  { signer := wzone.apex, q := [L "example", L "b"], t := 1, nx := true, reqCD := false, haveDS := true, signed := true, sigsGood := true,
    nsec := wzone.chain, nsec3 := [] }
example : authorityStep (fun _ => none) wAuth = { servfail := false, ad := true, marked := true, aggressive := true } := by
  decide
example : wzone.answerClass [L "example", L "b"] 1 = .nxdomain :=
  authority_nsec_end_to_end (fun _ => none) wzone wzone_wf (by decide) wAuth rfl wzone_chain_ok (by decide) rfl rfl rfl
    (by decide)

/-- **From the upstream response to shared state.**  Whatever the response, the
hash and the cache-side guard bits are: a denial proof or an RFC 8020 subtree
cut is recorded from a response `Resolver.authority` handed on only if that
response came from a zone the resolver holds a DS for, every in-zone RRset
verified, the exact validator accepted the proof as SECURE (no Opt-Out span),
and the RFC 8198 evaluator reached the response's own verdict on the same
records. (`authorityStep` composed with `admission_guard`.) -/
theorem shared_state_needs_proven_denial (H : HashFn) (i : AuthIn) (respCD ecs hasScope copied optout : Bool)
    (h : proofRecorded (pipelineWrite H i respCD ecs hasScope copied optout) = true ∨
         cutRecorded (pipelineWrite H i respCD ecs hasScope copied optout) = true) :
    i.reqCD = false ∧ i.haveDS = true ∧ i.sigsGood = true ∧ authExact H i = .ok true ∧
    ∃ rc, authAgg H i = .ok rc ∧ ((rc == Rcode.nxdomain) == i.nx) = true := by
  obtain ⟨hm, _, ha, _⟩ := admission_guard _ h
  have hm' : (authorityStep H i).marked = true := hm
  have ha' : (authorityStep H i).aggressive = true := ha
  obtain ⟨h1, h2, h3⟩ := authority_ad_needs_secure_proof H i
  obtain ⟨hcd, hds, hg, hex⟩ := h1 (by rw [← h2]; exact hm')
  exact ⟨hcd, hds, hg, hex, (h3 ha').2⟩

example : proofRecorded (pipelineWrite (fun n => some (toyH n)) toyAuth false false false false false) = true := by decide

/-- **The only excuse for a missing signature is a proven insecure delegation.**
`provenInsecure` (what lets `Resolver.authority` pass an UNSIGNED negative
response from below a secure zone on) holds only if the name the excuse is
about (`insecureProofName`: the question name, for a DS question its parent)
lies strictly below the zone, the resolver's own DS lookup for the first cut
candidate came back with every in-zone RRset verified, that response did NOT
carry a DS this validator supports (a supported DS makes the child secure: the
walk descends and an unsigned answer is never excused at this level), and
either it carried a DS RRset with only unsupported records (RFC 6840 §5.2) or
the delegation validator accepted its denial records for exactly that
candidate.  End to end for an NSEC-signed zone `z` (no DS RRset returned,
records = any selection of the genuine chain plus out-of-zone pollution, no
in-zone NSEC3): the candidate IS an owner of `z` that is a delegation point
without DS — the unsigned data really lives in an insecure child. -/
theorem unsigned_passed_needs_insecure_delegation (H : HashFn) (i : AuthIn) (h : provenInsecure H i = true) :
    let pn := insecureProofName i.q i.t
    let cut := firstCut i.signer pn
    nameInZone pn i.signer = true ∧ pn ≠ i.signer ∧ i.dsSigsGood = true ∧ i.dsAtCut ≠ 1 ∧
    (i.dsAtCut = 2 ∨
     verifyDelegation H (i.dsNsec3.filter fun r => nameInZone r.owner i.signer) i.signer cut = .ok () ∨
     ((i.dsNsec3.filter fun r => nameInZone r.owner i.signer).isEmpty = true ∧
      verifyDelegationNSEC cut (filterToZone i.signer i.dsNsec) = .ok ())) ∧
    (∀ z : Zone, z.WF → i.signer = z.apex → SetOK z i.dsNsec → i.dsAtCut ≠ 2 →
      (i.dsNsec3.filter fun r => nameInZone r.owner i.signer).isEmpty = true →
      ∃ n, z.find cut = some n ∧ delegTypes n.types = true ∧ tDS ∉ n.types) := by
  intro pn cut
  unfold provenInsecure at h
  simp only [] at h
  have hpn : (insecureProofName i.q i.t) = pn := rfl
  rw [hpn] at h
  by_cases hc : (!nameInZone pn i.signer || pn == i.signer) = true
  · simp [hc] at h
  simp only [hc, Bool.false_eq_true, ↓reduceIte] at h
  have hz : nameInZone pn i.signer = true := by
    cases hz : nameInZone pn i.signer
    · simp [hz] at hc
    · rfl
  have he : (pn == i.signer) = false := by
    cases he : (pn == i.signer)
    · rfl
    · simp [he] at hc
  have hg : i.dsSigsGood = true := by
    cases hg : i.dsSigsGood
    · simp [hg] at h
    · rfl
  have hne : pn ≠ i.signer := by intro e; rw [e] at he; simp at he
  have hcut : firstCut i.signer pn = cut := rfl
  rw [hcut] at h
  by_cases h2 : i.dsAtCut = 2
  · refine ⟨hz, hne, hg, by omega, Or.inl h2, ?_⟩
    intro z _ _ _ hn2; exact absurd h2 hn2
  have h1 : i.dsAtCut ≠ 1 := by
    intro h1; simp [hg, h1] at h
  cases h3 : (i.dsNsec3.filter fun r => nameInZone r.owner i.signer).isEmpty
  · have hv : verifyDelegation H (i.dsNsec3.filter fun r => nameInZone r.owner i.signer) i.signer cut = .ok () := by
      simpa [hg, h2, h1, h3] using h
    refine ⟨hz, hne, hg, h1, Or.inr (Or.inl hv), ?_⟩
    intro z _ _ _ _ hemp; cases hemp
  · cases h1' : (filterToZone i.signer i.dsNsec).isEmpty
    · have hv : verifyDelegationNSEC cut (filterToZone i.signer i.dsNsec) = .ok () := by simpa [hg, h2, h1, h3, h1'] using h
      refine ⟨hz, hne, hg, h1, Or.inr (Or.inr ⟨rfl, hv⟩), ?_⟩
      intro z hzw hsig hs _ _
      rw [hsig] at hv
      exact delegation_nsec_sound z hzw i.dsNsec hs cut hv
    · simp [hg, h2, h1, h3, h1'] at h

/-- a DS this validator supports at the first cut is never an excuse: the child
is secure, its unsigned negative answer is refused. -/
theorem supported_ds_never_excuses (H : HashFn) (i : AuthIn) (h : i.dsAtCut = 1) : provenInsecure H i = false := by
  cases hp : provenInsecure H i
  · rfl
  · exact absurd h (unsigned_passed_needs_insecure_delegation H i hp).2.2.2.1

-- non-vacuity: below the insecure delegation `sub.example.` of `wzone` an unsigned NXDOMAIN is excused by the
-- zone's own chain returned (signed) for `sub.example. DS`; the same response for `zzz.example.` (no cut) is refused
def uAuth (q : Name) : AuthIn :=
  { signer := wzone.apex, q := q, t := 1, nx := true, reqCD := false, haveDS := true, signed := false, sigsGood := false,
    nsec := [], nsec3 := [], dsSigsGood := true, dsNsec := wzone.chain }
example : authorityStep (fun _ => none) (uAuth [L "example", L "sub", L "a"]) = authPassed ∧
    authorityStep (fun _ => none) (uAuth [L "example", L "zzz", L "a"]) = authServfail ∧
    authorityStep (fun _ => none) { uAuth [L "example", L "sub", L "a"] with dsSigsGood := false } = authServfail := by decide
example : ∃ n, wzone.find [L "example", L "sub"] = some n ∧ delegTypes n.types = true ∧ tDS ∉ n.types :=
  (unsigned_passed_needs_insecure_delegation (fun _ => none) (uAuth [L "example", L "sub", L "a"]) (by decide)).2.2.2.2.2
    wzone wzone_wf rfl wzone_chain_ok (by decide) (by decide)
-- a DS RRset at the cut: a supported one refuses the unsigned answer, only-unsupported ones excuse it
example : authorityStep (fun _ => none) { uAuth [L "example", L "sub", L "a"] with dsNsec := [], dsAtCut := 1 } = authServfail ∧
    authorityStep (fun _ => none) { uAuth [L "example", L "sub", L "a"] with dsNsec := [], dsAtCut := 2 } = authPassed := by decide

/-! ### `Resolver.answer` on wildcard-expanded answers (`answerStep`, compared line by line: `z ans`, `h ans`) -/

/-- **AD on a positive answer needs the signer zone's own next-closer denial.**
For every answer section (any owners, any RRSIG Labels values), every
authority section AS SENT (records of other zones included) and any hash:
`Resolver.answer` does not fail only if (CD = 1, then no AD, or) the question
name and every answer owner lie in the signer zone, every in-zone RRset
verified and the wildcard check — run over the authority section FILTERED to
the signer zone, because nothing authenticated a record owned elsewhere —
found a denial of the next closer name for every expanded RRSIG; AD = that
check's `secure` verdict. -/
theorem answer_passes_only_with_own_zone_denial (H : HashFn) (i : AnsIn) (hcd : i.reqCD = false)
    (h : (answerStep H i).servfail = false) :
    (∀ g ∈ i.gs, nameInZone g.owner i.signer = true) ∧ i.sigsGood = true ∧
    ∃ secure, ansWildcard H i = .ok secure ∧ (answerStep H i).ad = secure := by
  unfold answerStep at h ⊢
  simp only [hcd, Bool.false_eq_true, ↓reduceIte] at h ⊢
  cases hgs : i.gs with
  | nil => rw [hgs] at h; simp [authServfail] at h
  | cons g rest =>
    rw [hgs] at h
    simp only [] at h ⊢
    cases hq : nameInZone g.owner i.signer <;> simp only [hq, Bool.not_true, Bool.not_false, Bool.false_eq_true, ↓reduceIte] at h
    · simp [authServfail] at h
    cases hall : ((g :: rest).all fun x => nameInZone x.owner i.signer) <;>
      simp only [hall, Bool.not_true, Bool.not_false, Bool.false_eq_true, ↓reduceIte] at h
    · simp [authServfail] at h
    cases hg : i.sigsGood <;> simp only [hg, Bool.not_true, Bool.not_false, Bool.false_eq_true, ↓reduceIte] at h
    · simp [authServfail] at h
    cases hw : ansWildcard H i with
    | error e => rw [hw] at h; simp [authServfail] at h
    | ok b =>
      refine ⟨fun x hx => by simpa using (List.all_eq_true.mp hall) x hx, rfl, b, rfl, ?_⟩
      simp

/-- **End to end, NSEC.**  A well-formed NSEC-signed zone, an authority section
whose NSEC records are any selection of the zone's genuine chain plus records
of OTHER zones (whatever their spans take in), no in-zone NSEC3, signer = apex,
CD = 0: if `Resolver.answer` passes the answer on, then for every RRset whose
RRSIG claims wildcard expansion the next closer name is neither an owner nor
an empty non-terminal of the zone — in particular the genuine `*.<zone>` RRset
cannot be replayed over a name that exists (RFC 4035 §5.3.4). -/
theorem answer_wildcard_end_to_end (H : HashFn) (z : Zone) (hz : z.WF) (i : AnsIn)
    (hsig : i.signer = z.apex) (hs : SetOK z i.nsec)
    (h3 : (i.nsec3.filter fun r => nameInZone r.owner i.signer).isEmpty = true)
    (hcd : i.reqCD = false) (h : (answerStep H i).servfail = false) :
    (answerStep H i).ad = true ∧
    ∀ g ∈ i.gs, g.labels < g.owner.length → z.inTree g.nextCloser = false ∧ g.nextCloser ∉ z.authNames := by
  obtain ⟨_, _, b, hb, had⟩ := answer_passes_only_with_own_zone_denial H i hcd h
  unfold ansWildcard at hb
  simp only [h3, Bool.not_true, Bool.false_eq_true, ↓reduceIte] at hb
  rw [hsig] at hb
  obtain ⟨hb1, hall⟩ := wildcard_answer_sound z hz i.nsec hs i.gs b hb
  exact ⟨by rw [had, hb1], hall⟩

-- non-vacuity: the genuine `*.example.` expansion over `alias.example.` passes with the zone's own denial;
-- with ONLY a foreign record whose span takes in the whole zone (the seeded C02-22 shape) it is refused;
-- `*.b.example.` signed with Labels = 1 (C02-24 shape) needs the denial of `b.example.` and is refused
def vAns (gs : List AnsSig) (nsec : List Nsec) : AnsIn :=
  { signer := vzone.apex, gs := gs, reqCD := false, sigsGood := true, nsec := nsec, nsec3 := [] }
example : answerStep (fun _ => none) (vAns [⟨[L "example", L "alias"], 1⟩] vzone.chain)
      = { servfail := false, ad := true, marked := false, aggressive := false } ∧
    (answerStep (fun _ => none) (vAns [⟨[L "example", L "alias"], 1⟩]
      [{ owner := [], next := [L "example0"], types := [2, 46, 47] }])).servfail = true ∧
    (answerStep (fun _ => none) (vAns [⟨[L "example", L "b", star], 1⟩] vzone.chain)).servfail = true := by decide
example : vzone.inTree [L "example", L "alias"] = false :=
  ((answer_wildcard_end_to_end (fun _ => none) vzone (by constructor <;> decide)
      (vAns [⟨[L "example", L "alias"], 1⟩] vzone.chain) rfl (fun _ hr => Or.inl hr) (by decide) rfl (by decide)).2
    ⟨[L "example", L "alias"], 1⟩ (by simp [vAns]) (by decide)).1

-- non-vacuity: a proven NXDOMAIN is passed on with AD, provenance and `Aggressive`;
-- the same records without signatures, or for an RRSIG question, are not
example : authorityStep (fun _ => none)
    { signer := [[101]], q := [[101], [98]], t := 1, nx := true, reqCD := false, haveDS := true, signed := true, sigsGood := true,
      nsec := [{ owner := [[101]], next := [[101], [99]], types := [2, 6, 46, 47] },
               { owner := [[101], [99]], next := [[101]], types := [1, 46, 47] }], nsec3 := [] }
    = { servfail := false, ad := true, marked := true, aggressive := true } := by decide
example : (authorityStep (fun _ => none)
    { signer := [[101]], q := [[101], [98]], t := 1, nx := true, reqCD := false, haveDS := true, signed := true, sigsGood := false,
      nsec := [{ owner := [[101]], next := [[101], [99]], types := [2, 6, 46, 47] }], nsec3 := [] }).servfail = true := by decide
-- all NSEC3 records above the iteration ceiling: refused
example : (authorityStep (fun _ => none)
    { signer := [[101]], q := [[101], [98]], t := 1, nx := true, reqCD := false, haveDS := true, signed := true, sigsGood := true, nsec := [],
      nsec3 := [{ owner := [[101], [1]], ownerHash := some [1], next := some [2], hashLen := 1, alg := 1, flags := 0,
                  iter := 200, salt := some [], cls := 1, types := [] }] }).servfail = true := by decide

end admission

/-! ## how long an admitted proof may be used -/

section expiry
open SdnsVerif.Model.ProofExpiry

theorem minList_le (m : Int) (l : List Int) : minList m l ≤ m ∧ ∀ x ∈ l, minList m l ≤ x := by
  induction l generalizing m with
  | nil => exact ⟨Int.le_refl _, fun x hx => nomatch hx⟩
  | cons y t ih =>
    unfold minList
    by_cases hlt : y < m
    · simp only [hlt, if_true]
      obtain ⟨h1, h2⟩ := ih y
      refine ⟨by omega, ?_⟩
      intro x hx
      rcases List.mem_cons.mp hx with rfl | hx
      · exact h1
      · exact h2 x hx
    · simp only [hlt, if_false]
      obtain ⟨h1, h2⟩ := ih m
      refine ⟨h1, ?_⟩
      intro x hx
      rcases List.mem_cons.mp hx with rfl | hx
      · omega
      · exact h2 x hx

/-- **A cached proof never outlives any of its components.**  The expiry
`denialProofExpiry` assigns (to the SOA entry, to every NSEC/NSEC3 RRset
entry, and — with the cut cache's ceiling — to a subtree cut) is strictly
after `now` and at or before: the configured ceiling, the delegation-cut
deadline, `now + TTL` of every record, `now + SOA MINIMUM`, and for EVERY
covering RRSIG its expiration, `now +` its header TTL and `now +` its
original TTL.  There is no floor and no "latest signature wins". -/
theorem proof_expiry_le_every_component (now : Int) (maxTTL : Nat) (cut : Option Int) (ttls : List Nat)
    (soaMin : Option Nat) (sigs : List Sig) (e : Int)
    (h : proofExpiry now maxTTL cut ttls soaMin sigs = some e) :
    now < e ∧ e ≤ now + maxTTL ∧ (∀ c, cut = some c → e ≤ c) ∧ (∀ t ∈ ttls, e ≤ now + t) ∧
    (∀ m, soaMin = some m → e ≤ now + m) ∧
    (∀ s ∈ sigs, e ≤ s.exp ∧ e ≤ now + s.ttl ∧ e ≤ now + s.orig) := by
  unfold proofExpiry at h
  simp only at h
  split at h
  · cases h
  · rename_i hpos
    simp only [Option.some.injEq] at h
    subst h
    obtain ⟨hm, hall⟩ := minList_le (Int.ofNat maxTTL) (candidates now cut ttls soaMin sigs)
    have hmem : ∀ x, x ∈ candidates now cut ttls soaMin sigs →
        now + minList (Int.ofNat maxTTL) (candidates now cut ttls soaMin sigs) ≤ now + x :=
      fun x hx => by have := hall x hx; omega
    have hm' : minList (Int.ofNat maxTTL) (candidates now cut ttls soaMin sigs) ≤ (maxTTL : Int) := hm
    refine ⟨by omega, by omega, ?_, ?_, ?_, ?_⟩
    · intro c hc
      have := hmem (c - now) (by unfold candidates; simp [hc])
      omega
    · intro t ht
      exact hmem (Int.ofNat t) (by unfold candidates; simp only [List.mem_append, List.mem_map]; exact Or.inl (Or.inl (Or.inr ⟨t, ht, rfl⟩)))
    · intro m hm'
      exact hmem (Int.ofNat m) (by unfold candidates; simp [hm'])
    · intro s hs
      have hin : ∀ x ∈ [Int.ofNat s.ttl, Int.ofNat s.orig, s.exp - now], x ∈ candidates now cut ttls soaMin sigs := by
        intro x hx
        unfold candidates
        simp only [List.mem_append, List.mem_flatMap]
        exact Or.inr ⟨s, hs, hx⟩
      have h1 := hmem _ (hin (s.exp - now) (by simp))
      have h2 := hmem _ (hin (Int.ofNat s.ttl) (by simp))
      have h3 := hmem _ (hin (Int.ofNat s.orig) (by simp))
      refine ⟨by omega, by simpa using h2, by simpa using h3⟩

/-- what one zone's evaluation rests on: the evaluator's own `ok` verdict over
unexpired NSEC RRsets, or over unexpired NSEC3 RRsets. -/
theorem evalZone_live (now : Int) (H : SdnsVerif.Model.Nsec3.HashFn) (z : ZoneState) (q : Name) (t : Nat) (rc : Rcode)
    (h : evalZone now H z q t = some rc) :
    (∃ p, evaluateAggressiveNSEC q t 1 z.zone ((z.entries.filter fun e => now < e.expires).map (·.nsec)) = .ok (rc, p)) ∨
    (∃ p, SdnsVerif.Model.Nsec3.evaluateAggressiveNSEC3 H q t 1 z.zone
        ((z.entries3.filter fun e => now < e.expires).map (·.rr)) = .ok (rc, p)) := by
  unfold evalZone at h
  simp only at h
  split at h
  · rename_i rc' hv
    simp only [Option.some.injEq] at h
    subst h
    split at hv
    · cases hv
    · split at hv
      · rename_i rc'' p he
        simp only [Option.some.injEq] at hv
        subst hv
        exact Or.inl ⟨p, he⟩
      · cases hv
  · split at h
    · cases h
    · split at h
      · rename_i rc'' p he
        simp only [Option.some.injEq] at h
        subst h
        exact Or.inr ⟨p, he⟩
      · cases h

/-- a lookup that synthesises from the proof cache found the zone's SOA entry
unexpired and evaluated unexpired RRsets only (entries at or past their
expiry are invisible to the evaluators). -/
theorem lookupProof_uses_live_only (st : State) (H : SdnsVerif.Model.Nsec3.HashFn) (q : Name) (t : Nat) (rc : Rcode)
    (h : lookupProofH st H q t = some rc) :
    ∃ z ∈ st.zones, nameInZone q z.zone = true ∧ st.now < z.soaExpires ∧ evalZone st.now H z q t = some rc := by
  unfold lookupProofH at h
  simp only at h
  generalize hl : ((st.zones.filter fun z => nameInZone q z.zone).mergeSort fun a b => a.zone.length ≥ b.zone.length) = l at h
  have hsub : ∀ z ∈ l, z ∈ st.zones ∧ nameInZone q z.zone = true := by
    intro z hz
    rw [← hl] at hz
    have := (List.mergeSort_perm _ _).mem_iff.mp hz
    simpa [List.mem_filter] using this
  clear hl
  induction l with
  | nil => simp [lookupProofH.go] at h
  | cons z rest ih =>
    unfold lookupProofH.go at h
    split at h
    · rename_i hlive
      split at h
      · rename_i rc' hev
        simp only [Option.some.injEq] at h
        subst h
        exact ⟨z, (hsub z (List.mem_cons_self ..)).1, (hsub z (List.mem_cons_self ..)).2, hlive, hev⟩
      · exact ih h (fun y hy => hsub y (List.mem_cons_of_mem _ hy))
    · exact ih h (fun y hy => hsub y (List.mem_cons_of_mem _ hy))

/-- **A re-admitted proof RRset is replaced, not merged** (`recordWithKind`:
`byID` replacement): after the entries `new` of a bundle are folded into a
zone's resident entries `old`, every resident entry is either one of the
bundle's (carrying the deadline computed from that bundle) or an old entry
whose owner the bundle does not mention — an owner the bundle re-proves never
keeps an old record or an old deadline. -/
theorem proof_entries_replaced (new : List ProofEntry) : ∀ (old : List ProofEntry) (e : ProofEntry),
    e ∈ new.foldl upsert old → e ∈ new ∨ (e ∈ old ∧ ∀ n ∈ new, n.nsec.owner ≠ e.nsec.owner) := by
  induction new with
  | nil => intro old e h; exact Or.inr ⟨h, fun n hn => nomatch hn⟩
  | cons x t ih =>
    intro old e h
    simp only [List.foldl_cons] at h
    rcases ih (upsert old x) e h with h1 | ⟨h1, h2⟩
    · exact Or.inl (List.mem_cons_of_mem _ h1)
    · unfold upsert at h1
      simp only [List.mem_append, List.mem_filter, bne_iff_ne, ne_eq, List.mem_singleton] at h1
      rcases h1 with ⟨hm, hne⟩ | rfl
      · refine Or.inr ⟨hm, ?_⟩
        intro n hn
        rcases List.mem_cons.mp hn with rfl | hn
        · exact fun e' => hne e'.symm
        · exact h2 n hn
      · exact Or.inl (List.mem_cons_self ..)

/-- **Re-admission replaces, it never extends.**  Whatever the order of
admissions, after a bundle is recorded every subtree cut for its denied name
carries exactly the deadline computed from THIS bundle's own records (ceiling,
cut deadline, every TTL, every RRSIG) — an entry admitted earlier for the same
name neither survives nor lends or borrows a deadline; and if the bundle earns
no cut (not NXDOMAIN, Opt-Out, nothing left) the cut index is unchanged. -/
theorem admitCut_replaces (st : State) (b : Bundle) :
    (admitCut st b).cuts = st.cuts ∨
    ∃ e, proofExpiry st.now st.cutMax b.cut ([b.soaTtl] ++ b.sets.map (·.ttl) ++ b.sets3.map (·.ttl)) (some b.soaMin)
          (b.soaSigs ++ b.sets.flatMap (·.sigs) ++ b.sets3.flatMap (·.sigs)) = some e ∧
      (∀ c ∈ (admitCut st b).cuts, c.denied = b.subject → c.expires = e) ∧
      (∀ c ∈ (admitCut st b).cuts, c.denied ≠ b.subject → c ∈ st.cuts) := by
  unfold admitCut
  split
  · exact Or.inl rfl
  · split
    · exact Or.inl rfl
    · split
      · rename_i e he
        right
        refine ⟨e, he, ?_, ?_⟩
        · intro c hc hd
          simp only [List.mem_append, List.mem_filter, bne_iff_ne, ne_eq, List.mem_singleton] at hc
          rcases hc with ⟨_, hne⟩ | rfl
          · exact absurd hd hne
          · rfl
        · intro c hc hd
          simp only [List.mem_append, List.mem_filter, bne_iff_ne, ne_eq, List.mem_singleton] at hc
          rcases hc with ⟨hm, _⟩ | rfl
          · exact hm
          · exact absurd rfl hd
      · exact Or.inl rfl

example : (admitCut { now := 0, cutMax := 600, cuts := [{ denied := [[122], [98]], expires := 500 }] }
    { zone := [[122]], nx := true, subject := [[122], [98]], soaTtl := 300, soaMin := 300, soaSigs := [⟨300, 300, 20⟩],
      cut := none, sets := [] }).cuts.map (·.expires) = [20] := by decide

example : ([⟨⟨[[1]], [[2]], 1, []⟩, 50⟩].foldl upsert [⟨⟨[[1]], [[2]], 1, []⟩, 900⟩, ⟨⟨[[3]], [[4]], 1, []⟩, 700⟩]).map (·.expires)
    = [700, 50] := by decide

theorem cutWalk_spec (st : State) (q : Name) : ∀ (k : Nat) (c : CutEntry), cutWalk st q k = some c →
    c ∈ st.cuts ∧ st.now < c.expires ∧ ∃ j, 1 ≤ j ∧ j ≤ k ∧ c.denied = q.take j := by
  intro k
  induction k with
  | zero => intro c h; simp [cutWalk] at h
  | succ k ih =>
    intro c h
    unfold cutWalk at h
    split at h
    · rename_i c' hf
      split at h
      · rename_i hlive
        simp only [Option.some.injEq] at h
        subst h
        exact ⟨List.mem_of_find?_eq_some hf, hlive, k + 1, by omega, by omega, by simpa using List.find?_some hf⟩
      · obtain ⟨h1, h2, j, h3, h4, h5⟩ := ih c h
        exact ⟨h1, h2, j, h3, by omega, h5⟩
    · obtain ⟨h1, h2, j, h3, h4, h5⟩ := ih c h
      exact ⟨h1, h2, j, h3, by omega, h5⟩

/-- **A subtree cut answers only at label boundaries** (RFC 8020): a hit for
`q` comes from an unexpired recorded denied name that is `q` itself or an
ancestor of `q` LABEL BY LABEL (a list prefix of its labels, never a suffix of
its text: an octet 0x2E or a backslash inside a label is not a boundary), and
never from the root. -/
theorem cut_lookup_label_boundary (st : State) (q : Name) (h : lookupCut st q = true) :
    ∃ c ∈ st.cuts, st.now < c.expires ∧ c.denied <+: q ∧ c.denied ≠ [] := by
  unfold lookupCut at h
  obtain ⟨c, hc⟩ := Option.isSome_iff_exists.mp h
  obtain ⟨h1, h2, j, h3, h4, h5⟩ := cutWalk_spec st q q.length c hc
  refine ⟨c, h1, h2, h5 ▸ List.take_prefix _ _, ?_⟩
  intro e
  have : (q.take j).length = j := by rw [List.length_take]; omega
  rw [← h5, e] at this
  simp at this
  omega

-- non-vacuity: a cut for `b.z.` answers `k.b.z.` but not the one-label sibling `a.b` + `z` (text `a\.b.z.`)
example : lookupCut { now := 0, cuts := [{ denied := [[122], [98]], expires := 10 }] } [[122], [98], [107]] = true ∧
    lookupCut { now := 0, cuts := [{ denied := [[122], [98]], expires := 10 }] } [[122], [97, 46, 98]] = false := by decide

-- non-vacuity: two signatures over one RRset, the earlier one decides
example : proofExpiry 0 10800 none [300] none [⟨300, 300, 7⟩, ⟨300, 300, 7200⟩] = some 7 := by decide

/-! ### the deadline of a synthesised denial (`denialProofResponse`, bound into the request tree by `Store.GetWithContext`) -/

theorem minList_mem (m : Int) (l : List Int) : minList m l = m ∨ minList m l ∈ l := by
  induction l generalizing m with
  | nil => exact Or.inl rfl
  | cons y t ih =>
    unfold minList
    by_cases hlt : y < m
    · simp only [hlt, if_true]
      rcases ih y with h | h
      · exact Or.inr (by rw [h]; exact List.mem_cons_self ..)
      · exact Or.inr (List.mem_cons_of_mem _ h)
    · simp only [hlt, if_false]
      rcases ih m with h | h
      · exact Or.inl h
      · exact Or.inr (List.mem_cons_of_mem _ h)

/-- `usedExpiry` is at or before the SOA entry's deadline and the deadline of
every entry the proof uses, and is one of those deadlines. -/
theorem usedExpiry_spec (soa : Int) (exps : List Int) (idxs : List Nat) :
    usedExpiry soa exps idxs ≤ soa ∧
    (∀ k ∈ idxs, ∀ x, exps[k]? = some x → usedExpiry soa exps idxs ≤ x) ∧
    (usedExpiry soa exps idxs = soa ∨ usedExpiry soa exps idxs ∈ exps) := by
  unfold usedExpiry
  obtain ⟨h1, h2⟩ := minList_le soa (idxs.filterMap fun k => exps[k]?)
  refine ⟨h1, ?_, ?_⟩
  · intro k hk x hx
    exact h2 x (List.mem_filterMap.mpr ⟨k, hk, hx⟩)
  · rcases minList_mem soa (idxs.filterMap fun k => exps[k]?) with h | h
    · exact Or.inl h
    · obtain ⟨k, _, hk⟩ := List.mem_filterMap.mp h
      exact Or.inr (List.mem_of_getElem? hk)

/-- **A synthesised denial is relied on only while every record that proves it
is live.**  The deadline `lookupDenialProofWithExpiry` attaches to a synthesised
answer — what the resolver-private route (`Store.GetWithContext`, answering the
resolver's own DS / DNSKEY sub-queries) binds the whole request tree to, so
that "no DS, the delegation is insecure" and everything derived from it cannot
outlive the proof — lies in the future, at or before the zone's SOA entry's
deadline, and is the SOA entry's deadline or the deadline of a live RRset of
that zone (each of which is bounded by every TTL and RRSIG of its bundle:
`proof_expiry_le_every_component`). -/
theorem synthesised_deadline_sound (st : State) (H : SdnsVerif.Model.Nsec3.HashFn) (q : Name) (t : Nat) (e : Int)
    (h : lookupProofExpiry st H q t = some e) :
    st.now < e ∧ ∃ z ∈ st.zones, nameInZone q z.zone = true ∧ st.now < z.soaExpires ∧ e ≤ z.soaExpires ∧
      (e = z.soaExpires ∨ (∃ x ∈ z.entries, st.now < x.expires ∧ e = x.expires) ∨
        (∃ x ∈ z.entries3, st.now < x.expires ∧ e = x.expires)) := by
  unfold lookupProofExpiry at h
  simp only at h
  generalize hl : ((st.zones.filter fun z => nameInZone q z.zone).mergeSort fun a b => a.zone.length ≥ b.zone.length) = l at h
  have hsub : ∀ z ∈ l, z ∈ st.zones ∧ nameInZone q z.zone = true := by
    intro z hz
    rw [← hl] at hz
    have := (List.mergeSort_perm _ _).mem_iff.mp hz
    simpa [List.mem_filter] using this
  clear hl
  induction l with
  | nil => simp [lookupProofExpiry.go] at h
  | cons z rest ih =>
    unfold lookupProofExpiry.go at h
    split at h
    · rename_i hlive
      split at h
      · rename_i e' hev
        simp only [Option.some.injEq] at h
        subst h
        have hz := hsub z (List.mem_cons_self ..)
        -- the deadline is the SOA's or a live entry's
        have key : e' ≤ z.soaExpires ∧ (e' = z.soaExpires ∨ (∃ x ∈ z.entries, st.now < x.expires ∧ e' = x.expires) ∨
            (∃ x ∈ z.entries3, st.now < x.expires ∧ e' = x.expires)) := by
          unfold evalZoneExpiry at hev
          simp only at hev
          split at hev
          · rename_i e'' hv
            simp only [Option.some.injEq] at hev
            subst hev
            split at hv
            · cases hv
            · split at hv
              · rename_i rc p he
                simp only [Option.some.injEq] at hv
                subst hv
                obtain ⟨h1, _, h3⟩ := usedExpiry_spec z.soaExpires
                  ((z.entries.filter fun e => st.now < e.expires).map (·.expires)) p
                refine ⟨h1, ?_⟩
                rcases h3 with h3 | h3
                · exact Or.inl h3
                · obtain ⟨x, hx, hxe⟩ := List.mem_map.mp h3
                  have hx' := List.mem_filter.mp hx
                  exact Or.inr (Or.inl ⟨x, hx'.1, by simpa using hx'.2, hxe.symm⟩)
              · cases hv
          · split at hev
            · cases hev
            · split at hev
              · rename_i rc p he
                simp only [Option.some.injEq] at hev
                subst hev
                obtain ⟨h1, _, h3⟩ := usedExpiry_spec z.soaExpires
                  ((z.entries3.filter fun e => st.now < e.expires).map (·.expires)) p
                refine ⟨h1, ?_⟩
                rcases h3 with h3 | h3
                · exact Or.inl h3
                · obtain ⟨x, hx, hxe⟩ := List.mem_map.mp h3
                  have hx' := List.mem_filter.mp hx
                  exact Or.inr (Or.inr ⟨x, hx'.1, by simpa using hx'.2, hxe.symm⟩)
              · cases hev
        refine ⟨?_, z, hz.1, hz.2, hlive, key.1, key.2⟩
        rcases key.2 with h' | ⟨x, _, hx, h'⟩ | ⟨x, _, hx, h'⟩
        · rw [h']; exact hlive
        · rw [h']; exact hx
        · rw [h']; exact hx
      · exact ih h (fun z' hz' => hsub z' (List.mem_cons_of_mem _ hz'))
    · exact ih h (fun z' hz' => hsub z' (List.mem_cons_of_mem _ hz'))

-- non-vacuity: one zone, SOA entry live until 100, the covering record until 40: the synthesised NXDOMAIN for
-- `b.example.` carries the deadline 40
def toyZoneState : ZoneState :=
  { zone := [L "example"]
    soaExpires := 100
    entries := [⟨{ owner := [L "example"], next := [L "example", L "c"], types := [2, 6, 46, 47] }, 40⟩,
                ⟨{ owner := [L "example", L "c"], next := [L "example"], types := [1, 46, 47] }, 70⟩] }
theorem toy_evalZoneExpiry : evalZoneExpiry 10 (fun _ => none) toyZoneState [L "example", L "b"] 1 = some 40 := by decide
example : lookupProofExpiry { now := 10, zones := [toyZoneState] } (fun _ => none) [L "example", L "b"] 1 = some 40 := by
  have hz : nameInZone [L "example", L "b"] toyZoneState.zone = true := by decide
  have hl : (10 : Int) < toyZoneState.soaExpires := by decide
  simp [lookupProofExpiry, lookupProofExpiry.go, hz, hl, toy_evalZoneExpiry]

end expiry

/-! ## facts regenerated from the tree -/

/-- the meta / pseudo types for which the model refuses NODATA synthesis are
all still refused by the code's `aggressiveNODATAType` (evaluated over all
65536 types); the code may refuse more, never fewer. -/
theorem nodata_type_exceptions_pinned : ∀ t ∈ nodataExceptions, t ∈ SdnsVerif.Gen.C02.nodata_exceptions := by
  decide

/-- the NSEC3 usability filter of the tree is the model's: SHA-1 only, flags
0/1 only, iteration cap exactly the model's constant (and what `nsec3Safe`
accepts, searched over the whole 16-bit field, is that cap). -/
theorem nsec3_usability_pinned :
    SdnsVerif.Gen.C02.max_nsec3_iterations = SdnsVerif.Model.Nsec3.maxIterations ∧
    SdnsVerif.Gen.C02.max_safe_iterations = SdnsVerif.Gen.C02.max_nsec3_iterations ∧
    SdnsVerif.Gen.C02.nsec3_safe_algorithms = [1] ∧ SdnsVerif.Gen.C02.nsec3_safe_flags = [0, 1] := by
  decide

/-- `typesSet`, the bitmap test every NSEC / NSEC3 check of the tree is written
in, is plain membership for EVERY 16-bit RR type (searched over the whole
field on a battery around each type: the type itself, `t ^ 64`, `t ± 64`,
`t mod 64`, `t ± 256`, `t mod 256`) — as the model's `typesSet` is by
definition, so the NODATA theorems speak about SVCB, HTTPS, CAA, URI and
private-use types exactly as about A. -/
theorem types_set_exact_pinned :
    SdnsVerif.Gen.C02.typesset_mismatches = [] ∧
    (∀ t : Nat, typesSet [t] [t] = true) ∧ (∀ t u : Nat, t ≠ u → typesSet [t] [u] = false) := by
  refine ⟨by decide, ?_, ?_⟩
  · intro t; simp [typesSet]
  · intro t u h; simp [typesSet]; exact fun e => h e

/-- shape of `Resolver.authority` in the current tree (go/ast walk): the
provenance mark sits under `denialSecure ∧ ¬CD ∧ isNegative` (inside
`r.dnssec ∧ verified`), AD is assigned from `denialSecure` and nowhere else,
`Aggressive` comes from the evaluator reproducing the response's RCODE, the
NSEC3 evaluator is consulted only under `denialSecure`, and every exact
validator error returns the error. -/
theorem authority_shape_pinned :
    SdnsVerif.Gen.C02.shape_mark_guarded_by_secure_cd_negative = true ∧
    SdnsVerif.Gen.C02.shape_ad_is_denial_secure = true ∧
    SdnsVerif.Gen.C02.shape_aggressive_flag_from_evaluator = true ∧
    SdnsVerif.Gen.C02.shape_nsec3_aggressive_needs_secure = true ∧
    SdnsVerif.Gen.C02.shape_validator_error_returns_error = true := by
  decide

/-- shape of the two other places where a validated denial becomes shared
state or prunes resolution (go/ast walk): the prefetch write-back's guard is
the modelled `prefetchAdmitted` conjunction, both `RecordNXDomainCut` calls sit
under `Proof.Rcode == NXDOMAIN` and `Aggressive`, and the RFC 8020 stop in
`processAuthoritySection` is guarded by provenance ∧ Aggressive ∧ NXDOMAIN ∧
¬HasNSEC3OptOut. -/
theorem shared_state_shape_pinned :
    SdnsVerif.Gen.C02.shape_prefetch_admission_guard = true ∧
    SdnsVerif.Gen.C02.shape_prefetch_cut_needs_nxdomain = true ∧
    SdnsVerif.Gen.C02.shape_writemsg_cut_needs_nxdomain = true ∧
    SdnsVerif.Gen.C02.shape_rfc8020_stop_guard = true := by
  decide

end SdnsVerif.Props.C02
