import SdnsVerif.Spec.Zone
import SdnsVerif.Model.Nsec
import SdnsVerif.Lemmas.Nsec
import SdnsVerif.Gen.C02
/-!
# C02 — denial of existence is accepted or synthesised only when proven

Property theorems only (helper lemmas: `Lemmas/Nsec.lean`).  Names are
canonical root-side-first label lists; a zone is `Spec.Zone.Zone`; the record
sets quantified over are `SetOK z s`: any selection (sub-multiset, any order,
repeats allowed) of the zone's genuine NSEC chain, polluted with any records
whose owner or next name lies outside the signer zone.
-/
namespace SdnsVerif.Props.C02
open SdnsVerif.Spec.Zone SdnsVerif.Model.Nsec SdnsVerif.Lemmas.Nsec

/-! ## canonical order -/

/-- **RFC 4034 §6.1 order is a strict total order** on names (labels compared
as octet strings, an ancestor before its descendants): irreflexive,
transitive, total, and `gt` is the converse of `lt`. -/
theorem canonical_order_strict_total :
    (∀ a : Name, cmpName a a = .eq) ∧
    (∀ a b : Name, cmpName a b = .eq ↔ a = b) ∧
    (∀ a b : Name, cmpName a b = .gt ↔ cmpName b a = .lt) ∧
    (∀ a b d : Name, cmpName a b = .lt → cmpName b d = .lt → cmpName a d = .lt) ∧
    (∀ a b : Name, cmpName a b = .lt ∨ a = b ∨ cmpName b a = .lt) :=
  ⟨lawful_cmpName.refl, lawful_cmpName.eq_iff, lawful_cmpName.gt_iff, lawful_cmpName.trans, lawful_cmpName.total⟩

/-- `dnsname.CanonicalCompare` on arbitrary spellings: equal exactly when the
names are equal after ASCII folding; otherwise a strict order on the folded names. -/
theorem canonicalCompare_eq_iff (a b : Name) : canonicalCompare a b = .eq ↔ foldName a = foldName b :=
  lawful_cmpName.eq_iff _ _

/-- **Names sharing an ancestor form an order-convex block**: if `p` is an
ancestor-or-self of `a` and of `d`, every name canonically between them is
below `p` too. -/
theorem prefix_block_convex (p a b d : Name) (ha : p <+: a) (hd : p <+: d)
    (hab : cmpName a b ≠ .gt) (hbd : cmpName b d ≠ .gt) : p <+: b :=
  prefix_convex lawful_cmpLabel p a b d ha hd hab hbd

/-- an ancestor sorts before (or is) its descendant. -/
theorem ancestor_sorts_first (p a : Name) (h : p <+: a) : cmpName p a ≠ .gt :=
  cmpList_prefix_ne_gt lawful_cmpLabel h

/-! ## the genuine chain -/

/-- **A covering NSEC excludes the name**: a record of the zone's genuine
chain (normal span, wrap-around of the last record, or the single record of a
one-name zone) that `nsecCovers` the name ⇒ the name is not an owner of the zone. -/
theorem nsec_cover_excludes (z : Zone) (hz : z.WF) (r : Nsec) (hr : r ∈ z.chain) (q : Name)
    (hc : nsecCovers r.owner r.next q = true) : q ∉ z.authNames := by
  intro hq
  exact (covers_inGap hz (chain_genuine hz hr) (auth_in_zone hz hq) hc).not_auth hq

/-- **Closest encloser from a covering NSEC is the true one**: for an in-zone
name covered by a genuine record, `closestEncloserFromNSEC` (longest run of
labels shared with the owner or the next name, capped to a proper ancestor)
is the longest proper ancestor of the name that is in the zone's tree —
owners and empty non-terminals both count. -/
theorem closest_encloser_correct (z : Zone) (hz : z.WF) (r : Nsec) (hr : r ∈ z.chain) (q : Name)
    (hq : z.apex <+: q) (hc : nsecCovers r.owner r.next q = true) :
    closestEncloserFromNSEC q r = z.closestEncloser q ∧
    z.inTree (closestEncloserFromNSEC q r) = true ∧
    (closestEncloserFromNSEC q r).length < q.length ∧
    ∀ k, (closestEncloserFromNSEC q r).length < k → k < q.length → z.inTree (q.take k) = false := by
  have gap := covers_inGap hz (chain_genuine hz hr) hq hc
  obtain ⟨_, hlt, _⟩ := gap.ce_bounds hz hq
  have hl : (q.take (ceK q r.owner r.next)).length = ceK q r.owner r.next := by
    rw [List.length_take]; omega
  rw [closestEncloserFromNSEC_eq, hl]
  exact ⟨(gap.closestEncloser hz hq).symm, gap.ce_inTree hz hq, hlt, gap.ce_longest hz⟩

/-! ## the RFC 8198 classifier (what gates every shared / synthesised denial) -/

/-- **`EvaluateAggressiveNSEC` is sound at full strength.**  For every
well-formed zone, every selection of its genuine chain (any subset, order,
repeats) polluted with any records lying outside the signer zone, every
question name, type and class:

* verdict NXDOMAIN ⇒ the zone says NXDOMAIN: the name is in the zone, is not
  the apex, owns nothing, is not an empty non-terminal, is not below a
  delegation or DNAME, and the wildcard at its closest encloser neither
  exists nor is an empty non-terminal;
* verdict NODATA ⇒ the zone says NODATA: the name (or the empty non-terminal,
  or the wildcard source) exists, the type and CNAME are absent, the name is
  not a delegation point asked for anything but DS, DS is never denied from
  the apex's own (SOA-carrying) record; and the type is not a meta type;
* either verdict ⇒ the question's class is the zone's class and the name is
  in the signer zone. -/
theorem aggressive_nsec_sound (z : Zone) (hz : z.WF) (s : List Nsec) (hs : SetOK z s)
    (q : Name) (t qclass : Nat) (rc : Rcode) (p : List Nat)
    (h : evaluateAggressiveNSEC q t qclass z.apex s = .ok (rc, p)) :
    qclass = z.cls ∧ z.apex <+: q ∧
    (rc = .nxdomain → z.answerClass q t = .nxdomain) ∧
    (rc = .nodata → z.answerClass q t = .nodata ∧ t ∉ nodataExceptions) := by
  obtain ⟨h1, h2, h3, h4⟩ := aggressive_core hz hs h
  refine ⟨h1, h2, h3, fun e => ⟨(h4 e).1, ?_⟩⟩
  have := (h4 e).2
  unfold aggressiveNODATAType at this
  simpa using this

/-- what "the zone says NXDOMAIN" unfolds to (so that the statement above
does not hide anything in `answerClass`). -/
theorem nxdomain_means (z : Zone) (q : Name) (t : Nat) (h : z.answerClass q t = .nxdomain) :
    z.apex <+: q ∧ z.occluded q = false ∧ z.find q = none ∧ z.isENT q = false ∧
    z.find (z.closestEncloser q ++ [star]) = none ∧ z.isENT (z.closestEncloser q ++ [star]) = false := by
  unfold Zone.answerClass at h
  split at h
  · cases h
  · rename_i h1
    split at h
    · cases h
    · split at h
      · cases h
      · rename_i h3
        split at h
        · split at h
          · cases h
          · unfold answerAt at h; split at h
            · cases h
            · split at h <;> cases h
        · rename_i hf
          split at h
          · cases h
          · rename_i he
            simp only at h
            split at h
            · unfold answerAt at h; split at h
              · cases h
              · split at h <;> cases h
            · rename_i hw
              split at h
              · cases h
              · rename_i hwe
                exact ⟨List.isPrefixOf_iff_prefix.mp (by simpa using h1), by simpa using h3, hf,
                  by simpa using he, hw, by simpa using hwe⟩

/-- what "the zone says NODATA" guarantees about a present type. -/
theorem nodata_means (z : Zone) (q : Name) (t : Nat) (h : z.answerClass q t = .nodata) :
    z.apex <+: q ∧ z.occluded q = false ∧
    ∀ n, z.find q = some n → t ∉ n.types ∧ tCNAME ∉ n.types ∧ (delegTypes n.types = true → t = tDS) := by
  unfold Zone.answerClass at h
  split at h
  · cases h
  · rename_i h1
    split at h
    · cases h
    · split at h
      · cases h
      · rename_i h3
        refine ⟨List.isPrefixOf_iff_prefix.mp (by simpa using h1), by simpa using h3, ?_⟩
        intro n hn
        rw [hn] at h
        simp only at h
        split at h
        · cases h
        · rename_i hd
          unfold answerAt at h
          split at h
          · cases h
          · rename_i ht
            split at h
            · cases h
            · rename_i hc
              refine ⟨by simpa using ht, by simpa using hc, ?_⟩
              intro hdel
              simp only [hdel, Bool.true_and, bne_iff_ne, ne_eq, Decidable.not_not] at hd
              exact hd

/-! ## the exact validators used for AD (`Resolver.authority`) -/

/-- **`VerifyDelegationNSEC` is sound at full strength**: "no DS, the
delegation is insecure" is accepted only for a name that is a delegation
point of the zone (NS without SOA) whose DS is really absent. -/
theorem delegation_nsec_sound (z : Zone) (hz : z.WF) (s : List Nsec) (hs : SetOK z s) (d : Name)
    (h : verifyDelegationNSEC d (filterToZone z.apex s) = .ok ()) :
    ∃ n, z.find d = some n ∧ delegTypes n.types = true ∧ tDS ∉ n.types := by
  obtain ⟨a, ha, han, h1, h2⟩ := delegation_core (filter_genuine hz hs) h
  exact ⟨a, han ▸ find_of_mem hz ha, h1, h2⟩

/-
FULL STATEMENT (false of the model and of the code — see
`nameError_nsec_full_fails` / `nameError_nsec_full_fails_ent` below):

  theorem nameError_nsec_sound (z) (hz : z.WF) (hroot : z.apex ≠ []) (s) (hs : SetOK z s) (q) (hq : z.apex <+: q) (t)
      (h : verifyNameErrorNSEC q (filterToZone z.apex s) = .ok ()) : z.answerClass q t = .nxdomain
-/

/-- **`VerifyNameErrorNSEC`, partial.**  Sound for every zone other than the
root, every selection of the chain plus out-of-zone pollution (filtered by
`FilterRRsToZone` as `Resolver.authority` does) and every in-zone name (what
`ValidateSigner` guarantees) PROVIDED the records it relies on are not
misused in the two ways the function does not test:

* `hmis`: no NSEC covering `q` is an ancestor delegation / DNAME of `q`
  (owner strictly above `q`, bitmap NS-without-SOA or DNAME — RFC 6840 §4.1),
  and none has its next name strictly below `q` (then `q` is an empty
  non-terminal, which exists — RFC 8198 App. B, RFC 8020);
* `hmisw`: the same second condition for the wildcard at the closest encloser.

Missing from the full statement: exactly these two tests (and the root zone,
where the function skips the wildcard proof). -/
theorem nameError_nsec_sound_partial (z : Zone) (hz : z.WF) (hroot : z.apex ≠ []) (s : List Nsec)
    (hs : SetOK z s) (q : Name) (hq : z.apex <+: q) (t : Nat)
    (hmis : ∀ r ∈ filterToZone z.apex s, nsecCovers r.owner r.next q = true →
      ¬(isStrictSub q r.owner = true ∧ cutTypes r.types = true) ∧ isStrictSub r.next q = false)
    (hmisw : ∀ c ∈ filterToZone z.apex s, nsecCovers c.owner c.next q = true →
      ∀ r ∈ filterToZone z.apex s,
        nsecCovers r.owner r.next (closestEncloserFromNSEC q c ++ [star]) = true →
        isStrictSub r.next (closestEncloserFromNSEC q c ++ [star]) = false)
    (h : verifyNameErrorNSEC q (filterToZone z.apex s) = .ok ()) : z.answerClass q t = .nxdomain :=
  nameError_core hz hroot (filter_genuine hz hs) hq hmis hmisw t h

/-
FULL STATEMENT (false, see `nodata_nsec_full_fails`):

  theorem nodata_nsec_sound (z) (hz : z.WF) (s) (hs : SetOK z s) (q) (hq : z.apex <+: q) (t)
      (h : verifyNODATANSEC q t (filterToZone z.apex s) = .ok ()) : z.answerClass q t = .nodata
-/

/-- **`VerifyNODATANSEC`, partial.**  Sound (exact-owner and wildcard NODATA,
CNAME bit, DS-vs-SOA rule) PROVIDED the exact-owner record is not a
delegation point's NSEC used for a type other than DS (RFC 6840 §4.1: the
parent's NSEC says nothing about the child's data at that name).  Missing
from the full statement: exactly that test. -/
theorem nodata_nsec_sound_partial (z : Zone) (hz : z.WF) (s : List Nsec) (hs : SetOK z s)
    (q : Name) (hq : z.apex <+: q) (t : Nat)
    (hdel : ∀ r ∈ filterToZone z.apex s, r.owner = q → t = tDS ∨ delegTypes r.types = false)
    (h : verifyNODATANSEC q t (filterToZone z.apex s) = .ok ()) : z.answerClass q t = .nodata :=
  nodata_core hz (filter_genuine hz hs) hq t hdel h

/-! ### the counter-witnesses (the full statements are false) -/

def L (s : String) : Label := s.toList.map Char.toNat

/-- `example.` with an insecure delegation `sub.example.` and a host `zzz.example.` -/
def wzone : Zone :=
  { apex := [L "example"], cls := 1,
    nodes := [ { name := [L "example"], types := [2, 6, 46, 47, 48] },
               { name := [L "example", L "sub"], types := [2, 46, 47] },
               { name := [L "example", L "zzz"], types := [1, 46, 47] } ] }

/-- the delegation's NSEC: `sub.example. NSEC zzz.example. NS RRSIG NSEC` -/
def wrec : Nsec := { owner := [L "example", L "sub"], next := [L "example", L "zzz"], cls := 1, types := [2, 46, 47] }

theorem wzone_wf : wzone.WF where
  apex_soa := by decide
  soa_apex := by decide
  in_zone := by decide
  nodup := by decide

/-- **The full NXDOMAIN statement is false (ancestor delegation).**  Given
only the genuine NSEC of the delegation `sub.example.` the validator accepts
NXDOMAIN for `a.sub.example.`, a name below the zone cut that the parent
cannot deny; the RFC 8198 classifier refuses the same input. -/
theorem nameError_nsec_full_fails :
    wzone.WF ∧ wrec ∈ wzone.chain ∧ SetOK wzone [wrec] ∧ wzone.apex <+: [L "example", L "sub", L "a"] ∧
    verifyNameErrorNSEC [L "example", L "sub", L "a"] (filterToZone wzone.apex [wrec]) = .ok () ∧
    wzone.answerClass [L "example", L "sub", L "a"] 1 = .delegated ∧
    evaluateAggressiveNSEC [L "example", L "sub", L "a"] 1 1 wzone.apex [wrec] = .error .badDelegation := by
  refine ⟨wzone_wf, by decide, ?_, by decide, by decide, by decide, by decide⟩
  intro r hr
  rw [List.mem_singleton] at hr
  subst hr
  exact Or.inl (by decide)

/-- `example.` with `a.b.example.` (so `b.example.` is an empty non-terminal) -/
def ezone : Zone :=
  { apex := [L "example"], cls := 1,
    nodes := [ { name := [L "example"], types := [2, 6, 46, 47, 48] },
               { name := [L "example", L "b", L "a"], types := [1, 46, 47] } ] }

def erec : Nsec := { owner := [L "example"], next := [L "example", L "b", L "a"], cls := 1, types := [2, 6, 46, 47, 48] }

theorem ezone_wf : ezone.WF where
  apex_soa := by decide
  soa_apex := by decide
  in_zone := by decide
  nodup := by decide

/-- **The full NXDOMAIN statement is false (empty non-terminal).**  The single
genuine record `example. NSEC a.b.example.` makes the validator accept
NXDOMAIN for `b.example.`, which exists as an empty non-terminal; the
classifier answers NODATA from the same record. -/
theorem nameError_nsec_full_fails_ent :
    ezone.WF ∧ erec ∈ ezone.chain ∧ ezone.apex <+: [L "example", L "b"] ∧
    verifyNameErrorNSEC [L "example", L "b"] (filterToZone ezone.apex [erec]) = .ok () ∧
    ezone.answerClass [L "example", L "b"] 1 = .nodata ∧
    evaluateAggressiveNSEC [L "example", L "b"] 1 1 ezone.apex [erec] = .ok (.nodata, [0]) :=
  ⟨ezone_wf, by decide, by decide, by decide, by decide, by decide⟩

/-- **The full NODATA statement is false (delegation point).**  The genuine
NSEC of the delegation `sub.example.` makes the validator accept NODATA for
`sub.example. A`, although data at a delegation point belongs to the child. -/
theorem nodata_nsec_full_fails :
    wrec ∈ wzone.chain ∧
    verifyNODATANSEC [L "example", L "sub"] 1 (filterToZone wzone.apex [wrec]) = .ok () ∧
    wzone.answerClass [L "example", L "sub"] 1 = .delegated ∧
    evaluateAggressiveNSEC [L "example", L "sub"] 1 1 wzone.apex [wrec] = .error .badDelegation :=
  ⟨by decide, by decide, by decide, by decide⟩

end SdnsVerif.Props.C02
