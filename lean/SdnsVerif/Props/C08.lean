import SdnsVerif.Model.Lease
import SdnsVerif.Lemmas.Lease
import SdnsVerif.Gen.C08
/-!
# C08 — a delegation never outlives the lease its parent granted

Property theorems only (helper lemmas live in `Lemmas/Lease.lean`).  `M` is the
ceiling of the delegation cache; the theorems hold for every `M` and are tied
to the tree by `ceiling_is_12h` (`Gen.maximumTTL_ns ≤ 12 h`).
-/
namespace SdnsVerif.Props.C08
open SdnsVerif.Model.Lease SdnsVerif.Lemmas.Lease

/-- 12 h in the model's unit -/
def twelveHours : Int := 43200 * sec

/-! ### the lease a referral grants -/

/-- **lease_def.** The deadline `processDelegation` computes for a referral
observed at `obs` is the minimum of `obs + NS TTL`, `obs + M` (the 12 h ceiling,
measured from the observation), `obs + min DS TTL` (when a DS set is retained)
and the inherited ancestor cut: it is never later than any of them and equals
one of them. `SetUntil`, called at any `now ≥ obs`, stores exactly that deadline
(its own `now + M` clamp can no longer bind); a deadline that is not in the
future is not stored at all. -/
theorem lease_def (cut : Deadline) (cutKey key : Nat) (obs : Int) (nsTTL : Nat) (dsTTLs : List Nat) (M now : Int)
    (hnow : obs ≤ now) :
    ∃ d, (childCut M cut cutKey obs nsTTL dsTTLs key).1 = some d ∧
      d ≤ obs + (nsTTL : Int) * sec ∧
      d ≤ obs + M ∧
      (∀ t ∈ dsTTLs, d ≤ obs + (t : Int) * sec) ∧
      (∀ a, cut = some a → d ≤ a) ∧
      (d = obs + (nsTTL : Int) * sec ∨ d = obs + M ∨
        (dsTTLs ≠ [] ∧ d = obs + (minRRSetTTL dsTTLs : Int) * sec) ∨ cut = some d) ∧
      (d ≤ now → clampUntil M now (some d) = none) ∧
      (now < d → clampUntil M now (some d) = some d) := by
  unfold childCut
  obtain ⟨d, hd, hle, hcut, hor⟩ := minCut_some_right cut cutKey key (leaseDeadline M obs nsTTL dsTTLs)
  obtain ⟨h1, hM, h2, h3⟩ := leaseDeadline_spec M obs nsTTL dsTTLs
  refine ⟨d, hd, by omega, by omega, ?_, hcut, ?_, ?_, ?_⟩
  · intro t ht; have := h2 t ht; omega
  · rcases hor with h | h
    · rcases h3 with h3 | h3 | ⟨hne, h3⟩
      · exact Or.inl (by omega)
      · exact Or.inr (Or.inl (by omega))
      · exact Or.inr (Or.inr (Or.inl ⟨hne, by omega⟩))
    · exact Or.inr (Or.inr (Or.inr h))
  · intro h; exact (clampUntil_none M now d).mpr h
  · intro h
    unfold clampUntil
    have : ¬ now + M < d := by omega
    simp [h, this]

/-- **lease_independent_of_latency.** However long the handling of a referral takes
between its observation and the store (`lat ≥ 0`: DS/DNSKEY sub-lookups, slow parents,
retries), what `SetUntil` stores is the deadline computed from the OBSERVATION — the same
value as with no latency at all — or nothing once that deadline has passed. -/
theorem lease_independent_of_latency (cut : Deadline) (cutKey key : Nat) (obs : Int) (nsTTL : Nat) (dsTTLs : List Nat)
    (M : Int) (lat : Nat) :
    ∃ d, (childCut M cut cutKey obs nsTTL dsTTLs key).1 = some d ∧ d ≤ obs + (nsTTL : Int) * sec ∧ d ≤ obs + M ∧
      (clampUntil M (obs + lat) (some d) = none ∨
        (clampUntil M (obs + lat) (some d) = some d ∧ (obs < d → clampUntil M obs (some d) = some d))) := by
  obtain ⟨d, hd, h1, h2, _, _, _, hn0, hs0⟩ := lease_def cut cutKey key obs nsTTL dsTTLs M (obs + lat) (by omega)
  obtain ⟨d', hd', _, _, _, _, _, _, hs1⟩ := lease_def cut cutKey key obs nsTTL dsTTLs M obs (Int.le_refl _)
  rw [hd] at hd'; cases hd'
  refine ⟨d, hd, h1, h2, ?_⟩
  by_cases h : obs + lat < d
  · exact Or.inr ⟨hs0 h, hs1⟩
  · exact Or.inl (hn0 (by omega))

-- a 3 s lease observed at 0 whose validation took 1.5 s is stored as "until 3 s", not "until 4.5 s"
example : clampUntil twelveHours 1500000000 (childCut twelveHours none 0 0 3 [] 9).1 = some (3 * sec) := by decide

-- non-vacuity: NS 300 s, DS {3600, 60} s, ancestor cut at 45 s: the ancestor wins; stored verbatim
example : (childCut twelveHours (some (45 * sec)) 7 0 300 [3600, 60] 9).1 = some (45 * sec) ∧
    clampUntil twelveHours 5 (some (45 * sec)) = some (45 * sec) := by decide
-- DS shorter than NS, no ancestor: the DS TTL is the lease
example : (childCut twelveHours none 0 0 300 [3600, 60] 9) = (some (60 * sec), 9) := by decide
-- a two-day NS TTL: the ceiling from the observation is the lease, and SetUntil one second later stores it verbatim
example : (childCut twelveHours none 0 0 172800 [] 9) = (some twelveHours, 9) ∧
    clampUntil twelveHours sec (some twelveHours) = some twelveHours := by decide

/-! ### authority.Cache -/

/-- **get_invisible_after_expiry.** `Get` returns an entry only strictly before
its stored expiry; from the expiry on the same cache state answers `expired`
(never the entry), whatever else happened before. -/
theorem get_invisible_after_expiry (c : ACache) (now : Int) (key : Nat) (d : Deleg) :
    (c.get now key = .ok d → now < d.expiresAt) ∧
    (c.get now key = .ok d → ∀ later, d.expiresAt ≤ later → c.get later key = .expired) := by
  unfold ACache.get
  cases hl : c.entries.lookup key with
  | none => simp
  | some e =>
    simp only
    constructor
    · intro h
      by_cases hlt : now < e.expiresAt
      · simp only [hlt, if_true, GetRes.ok.injEq] at h; subst h; exact hlt
      · simp [hlt] at h
    · intro h later hlater
      by_cases hlt : now < e.expiresAt
      · simp only [hlt, if_true, GetRes.ok.injEq] at h; subst h
        have : ¬ later < e.expiresAt := by omega
        simp [this]
      · simp [hlt] at h

example : (({} : ACache).setUntil twelveHours 0 1 5 (some 10)).get 9 1 = .ok ⟨5, 10⟩ ∧
    (({} : ACache).setUntil twelveHours 0 1 5 (some 10)).get 10 1 = .expired := by decide

/-- **set_upper_clamp_only.** What `Set` stores: nothing for a non-positive TTL,
otherwise exactly `now + min(ttl, M)` — there is no lower clamp, a 4 s lease
stays a 4 s lease. -/
theorem set_upper_clamp_only (c : ACache) (M now : Int) (key tag : Nat) (ttl : Int) :
    (ttl ≤ 0 → c.set M now key tag ttl = c) ∧
    (0 < ttl → ∀ t, (c.set M now key tag ttl).get t key =
      if t < now + (if ttl > M then M else ttl) then .ok ⟨tag, now + (if ttl > M then M else ttl)⟩ else .expired) ∧
    (0 < ttl → ∀ t e, (c.set M now key tag ttl).get t key = .ok e → e.expiresAt ≤ now + ttl ∧ e.expiresAt ≤ now + M) := by
  refine ⟨?_, ?_, ?_⟩
  · intro h; unfold ACache.set clampTTL; simp [h]
  · intro h t
    have : ¬ ttl ≤ 0 := by omega
    unfold ACache.set clampTTL ACache.store ACache.get
    simp [this]
  · intro h t e he
    have h0 : ¬ ttl ≤ 0 := by omega
    unfold ACache.set clampTTL ACache.store ACache.get at he
    simp only [h0, if_false, List.lookup, beq_self_eq_true] at he
    by_cases hlt : t < now + (if ttl > M then M else ttl)
    · simp only [hlt, if_true, GetRes.ok.injEq] at he
      subst he
      by_cases hm : ttl > M <;> simp only [hm, if_true, if_false] <;> omega
    · simp [hlt] at he

example : (({} : ACache).set twelveHours 0 1 5 (4 * sec)).get (4 * sec - 1) 1 = .ok ⟨5, 4 * sec⟩ ∧
    (({} : ACache).set twelveHours 0 1 5 (4 * sec)).get (4 * sec) 1 = .expired ∧
    (({} : ACache).set twelveHours 0 1 5 0).get 0 1 = .notFound := by decide

/-- the tree's ceiling is at most 12 h (one-directional: lowering it is harmless) -/
theorem ceiling_is_12h : (SdnsVerif.Gen.C08.maximumTTL_ns : Int) ≤ twelveHours ∧
    (0 : Int) < SdnsVerif.Gen.C08.maximumTTL_ns ∧
    -- the ceiling the resolver applies to the lease (`authority.MaximumTTL`) is not above the
    -- one the delegation cache applies (`maximumTTL`): the model's single `M` stands for both
    SdnsVerif.Gen.C08.lease_ceiling_ns ≤ SdnsVerif.Gen.C08.maximumTTL_ns := by decide

/-- **setuntil_ceiling.** After `SetUntil(key, …, d)` at `now`, whatever `Get`
returns for `key` is either what it returned before the call, or expires no
later than `d` and no later than `now + maximumTTL ≤ now + 12 h`; a deadline
that is not after `now` (and the zero time) changes nothing. -/
theorem setuntil_ceiling (c : ACache) (now : Int) (key tag : Nat) (d : Deadline) (t : Int) (e : Deleg)
    (h : (c.setUntil SdnsVerif.Gen.C08.maximumTTL_ns now key tag d).get t key = .ok e) :
    c.get t key = .ok e ∨
      (∃ x, d = some x ∧ now < x ∧ e.expiresAt ≤ x ∧ e.expiresAt ≤ now + twelveHours ∧ e.tag = tag) := by
  have hM := ceiling_is_12h.1
  unfold ACache.setUntil at h
  cases d with
  | none => left; simpa [clampUntil] using h
  | some x =>
    cases hc : clampUntil (SdnsVerif.Gen.C08.maximumTTL_ns : Int) now (some x) with
    | none => left; simpa [hc] using h
    | some v =>
      right
      obtain ⟨h1, h2, h3, _⟩ := clampUntil_some _ now x v hc
      simp only [hc, ACache.store, ACache.get, List.lookup, beq_self_eq_true] at h
      by_cases hlt : t < v
      · simp only [hlt, if_true, GetRes.ok.injEq] at h
        subst h
        exact ⟨x, rfl, h1, h2, by simp only; omega, rfl⟩
      · simp [hlt] at h

example : (({} : ACache).setUntil twelveHours 0 1 5 (some (twelveHours + 7))).get 1 1 = .ok ⟨5, twelveHours⟩ ∧
    (({} : ACache).setUntil twelveHours 9 1 5 (some 9)).get 0 1 = .notFound := by decide

/-! ### histories of the descent -/

/-- the empty system: nothing cached, no resolution running -/
def init : Sys := {}

/-- **descendant_le_ancestor.** In every state reachable by any history of
ticks, requests, sub-queries, referrals (any NS/DS TTLs, any zone), answers,
purges: every stored delegation `e`
* expires no later than `observedAt + min(NS TTL, retained DS TTL)` and no
  later than `observedAt + M` (12 h), was observed in the past, and
* expires no later than the deadline of EVERY shallower delegation the descent
  that learned it went through (`e.path`: the seed found by `searchCache`,
  transitively everything that seed had been learned through, and every
  referral / cached delegation followed since) — the deadline that delegation
  contributed to the cut (`childDeadline`, resp. `cached.ExpiresAt`). -/
theorem descendant_le_ancestor (M : Int) (evs : List Ev) :
    ∀ e ∈ (run M init evs).delegs,
      e.observedAt ≤ (run M init evs).now ∧
      e.expiresAt ≤ e.observedAt + e.grant ∧
      e.expiresAt ≤ e.observedAt + M ∧
      ∀ p ∈ e.path, e.expiresAt ≤ p.deadline := by
  intro e he
  obtain ⟨h1, h2, h3, h4⟩ := (inv_run M evs init (inv_init M)).delegs e he
  exact ⟨h1, h2, h3, fun p hp => (h4 p hp).1⟩

/-- **descendant_le_stored_ancestor.** In every reachable state a stored
delegation expires no later than the expiry the delegation cache STORED for
every shallower delegation on its path (the lease is lowered to
`observedAt + M` before anything derives from it, so `SetUntil` never lowers it
further and `stored = deadline` for every path element). -/
theorem descendant_le_stored_ancestor (M : Int) (evs : List Ev) :
    ∀ e ∈ (run M init evs).delegs, ∀ p ∈ e.path,
      p.obs ≤ e.observedAt ∧ e.expiresAt ≤ p.stored := by
  intro e he p hp
  obtain ⟨_, _, _, h4⟩ := (inv_run M evs init (inv_init M)).delegs e he
  obtain ⟨h5, h6, h7⟩ := h4 p hp
  exact ⟨h7, by unfold ElemOK at h6; omega⟩

/-- two referrals with a 2-day TTL, one second apart: before the ceiling was
moved into `processDelegation` this history stored the grandchild one second
past its parent zone (the former counter-witness); now both end together. -/
def gapHistory : List Ev :=
  [.start [1, 2, 3], .referral [1] [172800] [], .tick 1000000000, .referral [1, 2] [172800] []]

example : (run twelveHours init gapHistory).delegs =
    [⟨[1, 2], twelveHours, 1000000000, twelveHours, [⟨[1], twelveHours, twelveHours, 0⟩]⟩,
     ⟨[1], twelveHours, 0, twelveHours, []⟩] := by decide

-- non-vacuity of `descendant_le_ancestor`: a child with a 1 h lease under a 60 s parent lease
example : (run twelveHours init [.start [1, 2, 3], .referral [1] [60] [], .referral [1, 2] [3600] [30000]]).delegs =
    [⟨[1, 2], 60 * sec, 0, 3600 * sec, [⟨[1], 60 * sec, 60 * sec, 0⟩]⟩, ⟨[1], 60 * sec, 0, 60 * sec, []⟩] := by decide

/-- the events the delegated servers themselves control: an answer (with any
content — their own NS set, any TTL) and a referral that does not progress
strictly below the zone they were asked for (self, upward, sideways, off-path) -/
def childControlled (s : Sys) : Ev → Bool
  | .answer _ => true
  | .referral z _ _ =>
    match s.stack with
    | [] => true
    | r :: _ => !progressing r.zone z r.qname
  | _ => false

/-- **no_self_extension.**
(1) No event the delegated servers control changes the delegation cache at all.
(2) No event whatsoever — no amount of continued querying — replaces or
    extends a delegation that is still live: it stays exactly as stored (or
    is purged).
(3) A delegation is (re)inserted only by a progressing referral observed now,
    from the servers of a strictly shallower zone, and then expires no later
    than `now + min NS TTL`. -/
theorem no_self_extension (M : Int) (hM : 0 < M) (s : Sys) (ev : Ev) :
    (childControlled s ev = true → (step M s ev).delegs = s.delegs) ∧
    (∀ z e, liveEntry s.delegs s.now z = some e →
      findEntry (step M s ev).delegs z = some e ∨ findEntry (step M s ev).delegs z = none) ∧
    (∀ e', e' ∈ (step M s ev).delegs → e' ∉ s.delegs →
      ∃ nsTTLs dsTTLs r rest, ev = .referral e'.zone nsTTLs dsTTLs ∧ s.stack = r :: rest ∧
        progressing r.zone e'.zone r.qname = true ∧ liveEntry s.delegs s.now e'.zone = none ∧
        e'.observedAt = s.now ∧ s.now < e'.expiresAt ∧
        e'.expiresAt ≤ s.now + (minRRSetTTL nsTTLs : Int) * sec) := by
  -- one analysis of what `step` does to `delegs`
  have key : (step M s ev).delegs = s.delegs ∨ (∃ z, ev = .purge z ∧ (step M s ev).delegs = s.delegs.filter (fun e => e.zone != z)) ∨
      (∃ z nsTTLs dsTTLs r rest v cd, ev = .referral z nsTTLs dsTTLs ∧ s.stack = r :: rest ∧
        progressing r.zone z r.qname = true ∧ liveEntry s.delegs s.now z = none ∧
        (minCut r.cut 0 (some (leaseDeadline M s.now (minRRSetTTL nsTTLs) dsTTLs)) 0).1 = some cd ∧
        clampUntil M s.now (some cd) = some v ∧
        (step M s ev).delegs = ⟨z, v, s.now, leaseDeadline M s.now (minRRSetTTL nsTTLs) dsTTLs - s.now, r.path⟩ :: s.delegs) := by
    cases ev with
    | tick d => exact Or.inl rfl
    | start q => exact Or.inl rfl
    | substart q => exact Or.inl rfl
    | chase q => exact Or.inl rfl
    | finish used =>
      left; simp only [step]
      cases s.stack with
      | nil => rfl
      | cons r rest =>
        simp only
        cases r.outer with
        | none => rfl
        | some m => cases used <;> rfl
    | purge z => exact Or.inr (Or.inl ⟨z, rfl, rfl⟩)
    | answer ttl =>
      left; simp only [step]; cases s.stack <;> rfl
    | referral z nsTTLs dsTTLs =>
      simp only [step]
      cases hst : s.stack with
      | nil => exact Or.inl rfl
      | cons r rest =>
        simp only
        by_cases hprog : progressing r.zone z r.qname = true
        · simp only [hprog, Bool.not_true, Bool.false_eq_true, if_false]
          obtain ⟨cd, hcd, _⟩ := minCut_some_right r.cut 0 0 (leaseDeadline M s.now (minRRSetTTL nsTTLs) dsTTLs)
          rw [hcd]; simp only
          cases hlive : liveEntry s.delegs s.now z with
          | some e => exact Or.inl rfl
          | none =>
            simp only
            cases hcl : clampUntil M s.now (some cd) with
            | none => exact Or.inl rfl
            | some v =>
              exact Or.inr (Or.inr ⟨z, nsTTLs, dsTTLs, r, rest, v, cd, rfl, rfl, hprog, hlive, hcd, hcl, rfl⟩)
        · have : progressing r.zone z r.qname = false := by simpa using hprog
          left; simp [this]
  refine ⟨?_, ?_, ?_⟩
  · intro hc
    rcases key with h | ⟨z, rfl, _⟩ | ⟨z, ns, ds, r, rest, v, cd, rfl, hst, hprog, _⟩
    · exact h
    · simp [childControlled] at hc
    · simp only [childControlled, hst, hprog, Bool.not_true] at hc; cases hc
  · intro z e hlive
    obtain ⟨hfind, _⟩ := liveEntry_spec _ _ _ _ hlive
    rcases key with h | ⟨z', _, h⟩ | ⟨z', ns, ds, r, rest, v, cd, _, _, _, hnone, _, _, h⟩
    · left; rw [h]; exact hfind
    · rw [h]
      by_cases hz : z' = z
      · right; subst hz; exact findEntry_filter_self _ _
      · left; rw [findEntry_filter_ne _ _ _ hz]; exact hfind
    · left
      rw [h]
      unfold findEntry
      by_cases hz : z' = z
      · subst hz; rw [hlive] at hnone; cases hnone
      · rw [List.find?_cons_of_neg (by simpa using hz)]
        exact hfind
  · intro e' he' hnot
    rcases key with h | ⟨z', _, h⟩ | ⟨z', ns, ds, r, rest, v, cd, hev, hst, hprog, hnone, hcd, hcl, h⟩
    · rw [h] at he'; exact absurd he' hnot
    · rw [h] at he'; exact absurd (List.mem_filter.mp he').1 hnot
    · rw [h] at he'
      rcases List.mem_cons.mp he' with rfl | he'
      · obtain ⟨hnow, hvcd, _, hvor⟩ := clampUntil_some M s.now cd v hcl
        obtain ⟨c, hc, hcle, _, _⟩ := minCut_some_right r.cut 0 0 (leaseDeadline M s.now (minRRSetTTL ns) ds)
        rw [hcd] at hc; cases hc
        have hl := (leaseDeadline_spec M s.now (minRRSetTTL ns) ds).1
        refine ⟨ns, ds, r, rest, hev, hst, hprog, hnone, rfl, ?_, ?_⟩
        · simp only; rcases hvor with h | h <;> omega
        · simp only; omega
      · exact absurd he' hnot

-- non-vacuity: a self-referral with a one-week TTL from the child's own servers changes nothing,
-- while the live lease (60 s, observed at 0) stays what it was
example :
    let s := run twelveHours init [.start [1, 2], .referral [1] [60] [], .tick 59000000000]
    childControlled s (.referral [1] [604800] []) = true ∧ childControlled s (.answer (604800 * sec)) = true ∧
      (step twelveHours s (.referral [1] [604800] [])).delegs = s.delegs ∧
      liveEntry s.delegs s.now [1] = some ⟨[1], 60 * sec, 0, 60 * sec, []⟩ := by decide

/-- **learned_data_bounded.** In every reachable state, for every cached answer
`a` (positive, negative, DS, DNSKEY, … — whatever the event stored) and every
delegation `p` it was learned through (the zone that answered and every
shallower delegation of that descent): at every instant `t` the entry's
effective remaining lifetime is at most `p.deadline − t`. Hence from
`p.deadline` on it is expired (`remaining ≤ 0`, the test `IsExpired` and the
cache lookup apply) — irrespective of its own TTL, so also irrespective of the
5 s floor or of having been written by a background refresh (a refresh is a
`start`ed resolution like any other). -/
theorem learned_data_bounded (M : Int) (evs : List Ev) :
    ∀ a ∈ (run M init evs).answers, ∀ p ∈ a.path, ∀ t : Int,
      remaining a.stored a.ttl a.cutUntil t ≤ p.deadline - t ∧
      (p.deadline ≤ t → remaining a.stored a.ttl a.cutUntil t ≤ 0) := by
  intro a ha p hp t
  obtain ⟨c, hc, hcp⟩ := (inv_run M evs init (inv_init M)).answers a ha p hp
  have : remaining a.stored a.ttl a.cutUntil t ≤ p.deadline - t := by
    unfold remaining
    rw [hc]
    simp only
    split <;> omega
  exact ⟨this, by intro h; omega⟩

-- non-vacuity: an answer with a 1-day TTL learned through a 2 s lease is gone after 2 s
example :
    (run twelveHours init [.start [1, 2], .referral [1] [2] [], .answer (86400 * sec)]).answers =
      [⟨[1], 0, 86400 * sec, some (2 * sec), [⟨[1], 2 * sec, 2 * sec, 0⟩]⟩] ∧
    remaining 0 (86400 * sec) (some (2 * sec)) (2 * sec) = 0 ∧
    remaining 0 (5 * sec) (some (2 * sec)) (2 * sec - 1) = 1 := by decide

/-- **seed_reports_cached_lease.** A resolution that starts below a live cached
delegation `e` (the deepest one `searchCache` finds) — without crossing any referral —
carries `e`'s expiry as its cut AND has reported it to the request's `ResponseMeta`
at once: an answer obtained directly from `e`'s servers is cut at `e.expiresAt`. -/
theorem seed_reports_cached_lease (M : Int) (s : Sys) (q : Name) (e : Entry)
    (h : searchFrom s.delegs s.now q q.length = some e) :
    (step M s (.start q)).cut.cut = some e.expiresAt ∧
    ∃ r, (step M s (.start q)).stack = [r] ∧ r.cut = some e.expiresAt ∧ r.zone = e.zone ∧
      (step M (step M s (.start q)) (.answer 0)).answers.head?.map (·.cutUntil) = some (some e.expiresAt) := by
  have hs : seed s {} q = ({ qname := q, zone := e.zone, cut := some e.expiresAt, path := elemOf e :: e.path },
      ({} : Meta).boundCutFor (some e.expiresAt) 0) := by
    simp only [seed, h, minCut_none_left]
  constructor
  · simp only [step, hs]; rfl
  · refine ⟨(seed s {} q).1, ?_, ?_, ?_, ?_⟩
    · simp only [step]
    · rw [hs]
    · rw [hs]
    · simp only [step, hs]; rfl

-- a second question in a zone whose delegation (60 s) is already cached: cut at 60 s, not unbounded
example : (run twelveHours init [.start [1, 7], .referral [1] [60] [], .finish false, .tick 1000000000,
    .start [1, 8], .answer (86400 * sec)]).answers.head?.map (·.cutUntil) = some (some (60 * sec)) := by decide

/-- **cached_descent_bounded.** A referral for a zone whose delegation is live in the
cache is followed through the CACHED servers: nothing is stored, and the cut handed on —
and reported to `ResponseMeta` — is bounded by the cached lease as well as by the
referral just observed and by the cut inherited so far. A fresher, longer referral
(the parent raised the TTL, re-pointed the zone) cannot stretch what is learned
through the old servers. -/
theorem cached_descent_bounded (M : Int) (s : Sys) (r : RS) (rest : List RS) (z : Name) (ns ds : List Nat) (e : Entry)
    (hst : s.stack = r :: rest) (hp : progressing r.zone z r.qname = true)
    (hl : liveEntry s.delegs s.now z = some e) :
    (step M s (.referral z ns ds)).delegs = s.delegs ∧
    ∃ r' c m, (step M s (.referral z ns ds)).stack = r' :: rest ∧ r'.zone = z ∧ r'.cut = some c ∧
      c ≤ e.expiresAt ∧ c ≤ leaseDeadline M s.now (minRRSetTTL ns) ds ∧ (∀ x, r.cut = some x → c ≤ x) ∧
      (step M s (.referral z ns ds)).cut.cut = some m ∧ m ≤ c := by
  obtain ⟨cd, hcd, hcdl, hcdc, _⟩ := minCut_some_right r.cut 0 0 (leaseDeadline M s.now (minRRSetTTL ns) ds)
  obtain ⟨c2, hc2, hc2e, hc2cd, _⟩ := minCut_some_right (some cd) 0 0 e.expiresAt
  obtain ⟨m2, hm2, hm2c2, _, _⟩ := boundCutFor_some (s.cut.boundCutFor (some cd) 0) c2 0
  have hstep : step M s (.referral z ns ds) =
      { s with stack := { r with zone := z, cut := (minCut (some cd) 0 (some e.expiresAt) 0).1,
                                 path := elemOf e :: (e.path ++ (⟨z, cd, cd, s.now⟩ :: r.path)) } :: rest,
               cut := (s.cut.boundCutFor (some cd) 0).boundCutFor (minCut (some cd) 0 (some e.expiresAt) 0).1 0 } := by
    simp only [step, hst, hp, Bool.not_true, Bool.false_eq_true, if_false, hcd, hl]
  rw [hstep]
  refine ⟨rfl, _, c2, m2, rfl, rfl, hc2, hc2e, ?_, ?_, ?_, hm2c2⟩
  · have := hc2cd cd rfl; omega
  · intro x hx; have := hc2cd cd rfl; have := hcdc x hx; omega
  · show ((s.cut.boundCutFor (some cd) 0).boundCutFor (minCut (some cd) 0 (some e.expiresAt) 0).1 0).cut = some m2
    rw [hc2]; exact hm2

-- while the outer question waits at the root, a sub-query stores zone [1] with a 20 s lease; the referral
-- the outer question then sees says 2 h: it descends through the cached servers under 20 s, and its answer is cut at 20 s
example : (run twelveHours init [.start [1, 7], .substart [1, 8], .referral [1] [20] [], .finish false,
    .referral [1] [7200] [], .answer (3600 * sec)]).answers.head?.map (·.cutUntil) = some (some (20 * sec)) := by decide

/-- **valid_referral_strictly_descends.** The guard in front of the delegation cache (and in
front of a lookup's winner selection) accepts a referral only if it is one coherent NS RRset
of the question's class naming a zone STRICTLY below the zone that was asked and at or above
the name being resolved. Hence a delegated server can never (re)insert the delegation of its
own zone, of any zone above it, of a sibling or of an unrelated name. -/
theorem valid_referral_strictly_descends (hasNS incoherent classOk : Bool) (auth z q : Name)
    (h : validReferral hasNS incoherent classOk auth z q = true) :
    hasNS = true ∧ incoherent = false ∧ classOk = true ∧
    auth.isPrefixOf z = true ∧ auth.length < z.length ∧ z.isPrefixOf q = true ∧ z ≠ auth ∧
    ¬ (z.isPrefixOf auth = true) := by
  unfold validReferral progressing at h
  simp only [Bool.and_eq_true, Bool.not_eq_true', decide_eq_true_eq] at h
  obtain ⟨⟨⟨h1, h2⟩, h3⟩, ⟨h4, h5⟩, h6⟩ := h
  refine ⟨h1, h2, h3, h4, h5, h6, ?_, ?_⟩
  · intro he; subst he; omega
  · intro hp
    have := List.IsPrefix.length_le (List.isPrefixOf_iff_prefix.mp hp)
    omega

-- self, upward and sideways referrals are refused; the child zone on the path is accepted
example : validReferral true false true [1, 2] [1, 2] [1, 2, 3] = false ∧ validReferral true false true [1, 2] [1] [1, 2, 3] = false ∧
    validReferral true false true [1, 2] [1, 9] [1, 2, 3] = false ∧ validReferral true false true [1, 2] [1, 2, 3] [1, 2, 3] = true ∧
    validReferral true true true [1] [1, 2] [1, 2, 3] = false := by decide

/-- **alias_lineage_inherited.** When a cache-level sub-query (CNAME / DNAME chase,
running under its own forked cut) returns and its records or provenance — a bare
rcode included — reach the deriving response (`finish true` = `lineage.inherit()`),
the deriving request's cut is bounded and not later than the sub-query's cut nor
than its own previous cut, and the deriving resolution's lineage now contains every
delegation the sub-query went through. With `learned_data_bounded` (whose `a.path`
includes that lineage) the composed answer — e.g. `alias CNAME target` + the target's
NXDOMAIN, stored under the alias name with the alias zone's long lease and the CNAME's
long TTL — is expired once the TARGET zone's lease ends. -/
theorem alias_lineage_inherited (M : Int) (s : Sys) (r o : RS) (t : List RS) (m : Meta)
    (hst : s.stack = r :: o :: t) (hfork : r.outer = some m) :
    (∀ x, s.cut.cut = some x → ∃ c, (step M s (.finish true)).cut.cut = some c ∧ c ≤ x) ∧
    (∀ y, m.cut = some y → ∃ c, (step M s (.finish true)).cut.cut = some c ∧ c ≤ y) ∧
    (∃ o', (step M s (.finish true)).stack = o' :: t ∧ ∀ p ∈ r.path ++ r.used, p ∈ o'.used) := by
  simp only [step, hst, hfork, if_true]
  refine ⟨?_, ?_, ⟨_, rfl, ?_⟩⟩
  · intro x hx
    rw [hx]
    obtain ⟨c, hc, hcx, _, _⟩ := boundCutFor_some m x s.cut.key
    exact ⟨c, hc, hcx⟩
  · intro y hy
    exact boundCutFor_keeps m _ _ y ⟨y, hy, Int.le_refl _⟩
  · intro p hp
    simp only [List.mem_append] at hp ⊢
    rcases hp with h | h
    · exact Or.inl (Or.inl h)
    · exact Or.inl (Or.inr h)

-- non-vacuity: an alias in zone [9] (1 h lease, 1 h CNAME TTL) whose target lives in zone [1] (5 s lease)
-- and is denied: the entry stored under the alias name is cut at 5 s, not at 1 h; without the
-- inherit (`finish false`) it would be cut at 1 h
example :
    (run twelveHours init [.start [9, 7], .referral [9] [3600] [], .chase [1, 8], .referral [1] [5] [],
        .answer (300 * sec), .finish true, .answer (3600 * sec)]).answers.head?.map (·.cutUntil) = some (some (5 * sec)) ∧
    (run twelveHours init [.start [9, 7], .referral [9] [3600] [], .chase [1, 8], .referral [1] [5] [],
        .answer (300 * sec), .finish false, .answer (3600 * sec)]).answers.head?.map (·.cutUntil) = some (some (3600 * sec)) := by
  decide

/-- **synthesized_denial_bounded.** Whatever the cache records for SYNTHESIZING denials
(RFC 8198 proof index, RFC 8020 subtree cut) from a validated negative answer ends no
later than the delegation cut it was learned under, than the hard ceiling, and than
every component of the proof; with a cut that is not in the future nothing is recorded. -/
theorem synthesized_denial_bounded (H now maxTTL : Int) (cut : Deadline) (bounds : List Int) :
    (∀ e, denialExpiry H now maxTTL cut bounds = some e →
      now < e ∧ e ≤ now + H ∧ (∀ c, cut = some c → e ≤ c) ∧ ∀ b ∈ bounds, e ≤ now + b) ∧
    (∀ c, cut = some c → c ≤ now → denialExpiry H now maxTTL cut bounds = none) := by
  have hceil : denialCeil H maxTTL ≤ H := by unfold denialCeil; split <;> omega
  have hcut : boundByCut now (denialCeil H maxTTL) cut ≤ denialCeil H maxTTL ∧
      ∀ c, cut = some c → boundByCut now (denialCeil H maxTTL) cut ≤ c - now := by
    cases cut with
    | none => exact ⟨Int.le_refl _, by intro c h; cases h⟩
    | some c =>
      refine ⟨by unfold boundByCut; split <;> omega, ?_⟩
      intro c' hc
      have hcc : c = c' := by injection hc
      subst hcc
      show (if c - now < denialCeil H maxTTL then c - now else denialCeil H maxTTL) ≤ c - now
      split <;> omega
  obtain ⟨hf1, hf2⟩ := foldl_minInt_le bounds (boundByCut now (denialCeil H maxTTL) cut)
  unfold denialExpiry
  simp only
  generalize List.foldl (fun acc b => if b < acc then b else acc) (boundByCut now (denialCeil H maxTTL) cut) bounds = ttl at hf1 hf2 ⊢
  refine ⟨?_, ?_⟩
  · intro e he
    by_cases h0 : ttl ≤ 0
    · simp [h0] at he
    · simp only [h0, if_false, Option.some.injEq] at he; subst he
      refine ⟨by omega, by omega, ?_, ?_⟩
      · intro c hc; have := hcut.2 c hc; omega
      · intro b hb; have := hf2 b hb; omega
  · intro c hc hle
    have := hcut.2 c hc
    have h0 : ttl ≤ 0 := by omega
    simp [h0]

example : denialExpiry (10800 * sec) 0 (3600 * sec) (some (5 * sec)) [300 * sec, 300 * sec] = some (5 * sec) ∧
    denialExpiry (10800 * sec) 0 0 none [86400 * sec] = some (10800 * sec) ∧
    denialExpiry (10800 * sec) (7 * sec) 60 (some (7 * sec)) [300 * sec] = none := by decide

/-- the tree's hard ceiling for synthesized denials is the model driver's (3 h) -/
theorem denial_ceiling_is_3h : (SdnsVerif.Gen.C08.max_denial_proof_ttl_ns : Int) ≤ 10800 * sec := by decide

/-- **stored_cut_bounds_entry.** Whatever route wrote an answer-cache entry (client path,
resolver sub-query, ECS-scoped key with or without a TTL cap, background refresh claimed
by any client), the entry it leaves carries the cut it was handed, and therefore — by
`remaining` — is expired from that cut on whatever TTL (or cap) it was stored with. -/
theorem stored_cut_bounds_entry (cut : Int) (key : Nat) (stored ttl t : Int) :
    (storeCut (some cut) key).1 = some cut ∧
    remaining stored ttl (storeCut (some cut) key).1 t ≤ cut - t ∧
    (cut ≤ t → remaining stored ttl (storeCut (some cut) key).1 t ≤ 0) := by
  have h : remaining stored ttl (some cut) t ≤ cut - t := by unfold remaining; simp only; split <;> omega
  exact ⟨rfl, h, fun hc => by have := h; simp only [storeCut]; omega⟩

example : storeCut (some (30 * sec)) 7 = (some (30 * sec), 7) ∧
    remaining 0 (3600 * sec) (storeCut (some (30 * sec)) 7).1 (30 * sec) = 0 := by decide

/-- **hit_bounds_request.** A cache hit folds the entry's lifetime into the request tree:
afterwards the request's cut is bounded, not later than the entry's own expiry, not later
than the entry's delegation cut, and not later than what the request was already bound
by — so anything composed from the hit (an alias adopting a cached NXDOMAIN, a chase
through a cached target) ends with the lease the hit was learned through, floor or not. -/
theorem hit_bounds_request (m : Meta) (stored ttl : Int) (cut : Deadline) (key : Nat) :
    ∃ c, (entryBound m stored ttl cut key).cut = some c ∧ c ≤ stored + ttl ∧
      (∀ x, cut = some x → c ≤ x) ∧ (∀ y, m.cut = some y → c ≤ y) := by
  unfold entryBound
  cases cut with
  | none =>
    obtain ⟨c, hc, h1, h2, _⟩ := boundCutFor_some m (stored + ttl) 0
    exact ⟨c, hc, h1, (by intro x h; cases h), h2⟩
  | some x =>
    simp only
    by_cases h : x ≤ stored + ttl
    · simp only [h, if_true]
      obtain ⟨c, hc, h1, h2, _⟩ := boundCutFor_some m x key
      exact ⟨c, hc, by omega, (by intro x' hx; cases hx; exact h1), h2⟩
    · simp only [h, if_false]
      obtain ⟨c, hc, h1, h2, _⟩ := boundCutFor_some m (stored + ttl) 0
      exact ⟨c, hc, h1, (by intro x' hx; cases hx; omega), h2⟩

-- a cached NXDOMAIN on the 5 s floor whose lease ends after 2 s, adopted by a request already bound at 1 h: 2 s
example : (entryBound ⟨some (3600 * sec), 9⟩ 0 (5 * sec) (some (2 * sec)) 7) = ⟨some (2 * sec), 7⟩ := by decide

/-- **referral_glue_wins.** The servers a glued referral yields — and what the glue address
cache, which has no lease of its own, holds afterwards — are the addresses of THIS referral,
whatever the cache held before: a re-pointed glue address is followed at once. -/
theorem referral_glue_wins (cached referral : List Nat) (h : referral ≠ []) :
    glueFromReferral cached referral = (referral, referral) := by
  unfold glueFromReferral
  cases referral with
  | nil => exact absurd rfl h
  | cons x t => rfl

example : glueFromReferral [11] [12] = ([12], [12]) ∧ glueFromReferral [11] [] = ([], [11]) := by decide

/-- **remaining_antitone.** An entry's remaining lifetime is a function of four instants only
(stored, ttl, cut, now — no claimed refresh, scope or limiter enters it) and never grows as
time passes: once it is ≤ 0 (at the latest from the cut on) it stays ≤ 0 at every later
instant, so no "grace" can bring an entry back after its lease. -/
theorem remaining_antitone (stored ttl : Int) (cut : Deadline) (t t' : Int) (h : t ≤ t') :
    remaining stored ttl cut t' ≤ remaining stored ttl cut t ∧
    (remaining stored ttl cut t ≤ 0 → remaining stored ttl cut t' ≤ 0) := by
  have key : remaining stored ttl cut t' ≤ remaining stored ttl cut t := by
    unfold remaining
    cases cut with
    | none => simp only; omega
    | some c => simp only; split <;> split <;> omega
  exact ⟨key, fun h0 => by omega⟩

example : remaining 0 (86400 * sec) (some (2 * sec)) (2 * sec) = 0 ∧
    remaining 0 (86400 * sec) (some (2 * sec)) (2 * sec + 100000000) = -100000000 := by decide

/-- **failed_refresh_replaces_nothing.** A background refresh whose answer falls into the
other partition than the claimed entry — in particular a SERVFAIL coming back for a
positive or negative answer — writes nothing in its place: the claimed entry is left to
lapse under the cut it already carries (`stored_cut_bounds_entry`); there is no route by
which a failing refresh re-admits, holds over or re-floors the old answer. -/
theorem failed_refresh_replaces_nothing (cut : Deadline) (key : Nat) :
    replaceIfCurrent false cut key = none ∧
    ∀ same r, replaceIfCurrent same cut key = some r → same = true ∧ r.1 = cut := by
  refine ⟨rfl, ?_⟩
  intro same r h
  cases same with
  | false => cases h
  | true => simp only [replaceIfCurrent, if_true, Option.some.injEq] at h; subst h; exact ⟨rfl, rfl⟩

example : replaceIfCurrent false (some (30 * sec)) 7 = none := by decide

/-- **refresh_keeps_cut.** Whatever a background refresh writes back —
positive answer, NXDOMAIN, NODATA or SERVFAIL — the replacement entry carries
exactly the cut of the refresh's own resolution (never none when that is bounded),
so `learned_data_bounded` applies to it like to any other learned entry. -/
theorem refresh_keeps_cut (same : Bool) (cut : Deadline) (key : Nat) (c : Deadline) (k : Nat)
    (h : replaceIfCurrent same cut key = some (c, k)) : c = cut ∧ k = key ∧ same = true := by
  unfold replaceIfCurrent at h
  cases same <;> simp at h
  exact ⟨h.1.symm, h.2.symm, rfl⟩

example : replaceIfCurrent true (some 400) 7 = some (some 400, 7) ∧ replaceIfCurrent false (some 400) 7 = none := by decide

/-- `remaining` at the function level: the cut always wins over the TTL. -/
theorem remaining_le_cut (stored ttl c now : Int) :
    remaining stored ttl (some c) now ≤ c - now ∧ remaining stored ttl (some c) now ≤ ttl - (now - stored) := by
  unfold remaining; simp only; split <;> omega

/-! ### ResponseMeta -/

/-- **boundcut_min_fold.** Folding any deadlines into a `ResponseMeta` in any
order leaves the same cut: the earliest bounded one (zero times ignored). It is
never later than any bounded deadline folded in, nor than what was there before. -/
theorem boundcut_min_fold (m : Meta) (l l' : List (Deadline × Nat)) (h : l.Perm l') :
    (foldCuts m l).cut = (foldCuts m l').cut ∧
    (∀ d k x, (d, k) ∈ l → d = some x → ∃ c, (foldCuts m l).cut = some c ∧ c ≤ x) ∧
    (∀ x, m.cut = some x → ∃ c, (foldCuts m l).cut = some c ∧ c ≤ x) := by
  rw [foldCuts_cut, foldCuts_cut]
  exact ⟨earliest_perm _ _ _ h, (earliest_le m.cut l).2, (earliest_le m.cut l).1⟩

example : (foldCuts {} [(some 30, 1), (none, 2), (some 10, 3), (some 20, 4)]).cut = some 10 ∧
    (foldCuts {} [(some 20, 4), (some 10, 3), (none, 2), (some 30, 1)]).cut = some 10 := by decide

/-! ### facts regenerated from the tree -/

/-- **deadlines_keep_monotonic_reading.** Leases are elapsed time: every place that
stores or hands on a deadline (`authority.Cache.Set/SetUntil`, `minCut`/`minNonZero`,
`ResponseMeta.BoundCutFor/Cut`, the answer cache's `cutUntil`/`stored`, the prefetch
write-back) keeps the monotonic clock reading of the value it was given, so the
model's single `Int` clock is the right reading of the code and a wall-clock step
cannot move a lease (regenerated by passing a real clock reading through the compiled
code; the `~` times of the correspondence exercise the same with a fabricated step). -/
theorem deadlines_keep_monotonic_reading :
    SdnsVerif.Gen.C08.mono_delegation_setuntil = true ∧
    SdnsVerif.Gen.C08.mono_delegation_set = true ∧
    SdnsVerif.Gen.C08.mono_mincut = true ∧
    SdnsVerif.Gen.C08.mono_meta_cut = true ∧
    SdnsVerif.Gen.C08.mono_entry_cut = true ∧
    SdnsVerif.Gen.C08.mono_entry_stored = true ∧
    SdnsVerif.Gen.C08.mono_entry_cut_after_refresh = true := by decide

/-- **shape_facts_hold.** The current `resolver.go` has the shape the event
system assumes: in `processDelegation` the single clock read
`observedAt := time.Now()` precedes `validateDelegation` and is the only one
before `SetUntil`; `leaseDeadline` is only ever `observedAt.Add(…)`, lowered to
`observedAt.Add(authority.MaximumTTL)` right after it is computed (before
`validateDelegation`, `minCut`, `noteCut`) and by the retained DS set's minimum TTL; the value handed to `delegations.SetUntil`,
to `noteCut` and down the descent is the `minCut(rs.cutDeadline, …,
leaseDeadline, …)` result; `validReferral` is tested (and returns) before any
of it; a live cached delegation is used without a store; the provisional entry
of `lookupV4Nss` is `minNonZero(cutDeadline, …)`; the cached descent and the
`resolve` seed combine deadlines with `minCut` and report them with
`noteCut`; `subQuery` stores its result with the request tree's cut. -/
theorem shape_facts_hold :
    SdnsVerif.Gen.C08.shape_observed_before_validate = true ∧
    SdnsVerif.Gen.C08.shape_single_clock_read = true ∧
    SdnsVerif.Gen.C08.shape_lease_anchored_at_observation = true ∧
    SdnsVerif.Gen.C08.shape_lease_clamped_at_observation = true ∧
    SdnsVerif.Gen.C08.shape_ds_bounds_lease = true ∧
    SdnsVerif.Gen.C08.shape_setuntil_from_mincut = true ∧
    SdnsVerif.Gen.C08.shape_notecut_after_each_cut = true ∧
    SdnsVerif.Gen.C08.shape_validreferral_before_setuntil = true ∧
    SdnsVerif.Gen.C08.shape_hit_does_not_store = true ∧
    SdnsVerif.Gen.C08.shape_provisional_bounded_by_cut = true ∧
    SdnsVerif.Gen.C08.shape_cached_descent_min = true ∧
    SdnsVerif.Gen.C08.shape_seed_min = true ∧
    SdnsVerif.Gen.C08.shape_subquery_stores_cut = true ∧
    -- Cache.additionalAnswer: every branch that lets the chased response reach the deriving
    -- response also calls lineage.inherit() (the `finish true` step of the model)
    SdnsVerif.Gen.C08.shape_chase_inherits_lineage = true ∧
    -- Resolver.groupLookup: the singleflight key contains the authority set's fingerprint
    SdnsVerif.Gen.C08.shape_flight_key_has_fingerprint = true := by decide

end SdnsVerif.Props.C08
