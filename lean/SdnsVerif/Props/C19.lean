import SdnsVerif.Model.Ecs
import SdnsVerif.Lemmas.Ecs
import SdnsVerif.Gen.C19
/-!
# C19 — client subnet data is neither leaked upstream nor across audiences

Property theorems only (helper lemmas live in `Lemmas/Ecs.lean`).  Addresses
are the 32-bit or 128-bit values; "host bits" of a value `v` under a source prefix
length `m` in a family of width `w` are the bits below position `w - m`.
-/
namespace SdnsVerif.Props.C19
open SdnsVerif.Model.Ecs SdnsVerif.Lemmas.Ecs

/-- the client lies in the allowed networks of an enabled policy (an empty list allows everyone). -/
def ClientAllowed (pol : Policy) (client : Option Addr) : Prop :=
  ∃ c, client = some c ∧ (pol.nets = [] ∨ ∃ n ∈ pol.nets, n.contains c = true)

theorem allows_iff (p : Option Policy) (client : Option Addr) :
    allows p client = true ↔ ∃ pol, p = some pol ∧ pol.enabled = true ∧ ClientAllowed pol client := by
  unfold allows ClientAllowed
  cases p with
  | none => simp
  | some pol =>
    cases client with
    | none => simp
    | some c =>
      by_cases he : pol.enabled = true
      · by_cases hn : pol.nets = []
        · simp [he, hn]
        · have : pol.nets.isEmpty = false := by simpa using hn
          simp [he, hn, this]
      · simp [he]

/-! ## leaving sdns -/

/-- **What `Clamp` lets out.** Both families, every netmask 0‥255, every
address form: the forwarded source prefix is at most the configured ceiling,
never longer than what the client offered, fits the family, every host bit of
the forwarded address is zero, and the network bits are exactly those of the
address the client supplied for that family. -/
theorem clamp_le_ceiling_and_zeroes_host_bits (pol : Policy) (s : Subnet) (f : Fwd)
    (h : clamp (some pol) s = some f) :
    f.mask ≤ pol.fwdMax f.fam ∧ f.mask ≤ s.mask ∧ f.mask ≤ f.fam.width ∧
    s.family = f.fam.code ∧
    f.val % 2 ^ (f.fam.width - f.mask) = 0 ∧
    (∀ i, i < f.fam.width - f.mask → f.val.testBit i = false) ∧
    ∃ bs a, s.addr = some bs ∧ ipToAddr bs = some a ∧ a.fam = f.fam ∧ f.val ≤ a.val ∧
      f.val / 2 ^ (f.fam.width - f.mask) = a.val / 2 ^ (f.fam.width - f.mask) := by
  unfold clamp at h
  cases hs : s.addr with
  | none => rw [hs] at h; simp at h
  | some bs =>
    rw [hs] at h
    simp only at h
    cases ha : ipToAddr bs with
    | none => rw [ha] at h; simp at h
    | some a =>
      rw [ha] at h
      simp only at h
      -- the family decision
      obtain ⟨fam, hfam, hcode, hm⟩ : ∃ fam : Fam, a.fam = fam ∧ s.family = fam.code ∧
          (match a.prefix? (min s.mask (pol.fwdMax fam)) with
            | none => none
            | some pr => some (Fwd.mk fam (min s.mask (pol.fwdMax fam)) pr.addr)) = some f := by
        by_cases h1 : s.family = 1
        · simp only [h1, if_true] at h
          by_cases h4 : a.fam = Fam.v4
          · simp only [h4, if_true] at h
            exact ⟨Fam.v4, h4, h1, h⟩
          · simp [h4] at h
        · simp only [h1, if_false] at h
          by_cases h2 : s.family = 2
          · simp only [h2, if_true] at h
            by_cases h6 : a.fam = Fam.v6
            · simp only [h6, if_true] at h
              exact ⟨Fam.v6, h6, h2, h⟩
            · simp [h6] at h
          · simp [h2] at h
      cases hp : a.prefix? (min s.mask (pol.fwdMax fam)) with
      | none => rw [hp] at hm; simp at hm
      | some pr =>
        rw [hp] at hm
        simp only [Option.some.injEq] at hm
        obtain ⟨hb, rfl⟩ := prefix?_some hp
        subst hm
        simp only
        rw [hfam] at hb ⊢
        exact ⟨Nat.min_le_right _ _, Nat.min_le_left _ _, hb, hcode, maskTo_mod _ _ _,
          fun i hi => maskTo_testBit _ _ _ _ hi, bs, a, rfl, ha, hfam, maskTo_le _ _ _, maskTo_div _ _ _⟩

/-- without a policy nothing is ever produced for forwarding. -/
theorem clamp_nil_policy (s : Subnet) : clamp none s = none := by
  unfold clamp; rfl

/-- **Upstream ECS only when allowed, and nothing else of the client's.** Any
option on the OPT of the query that leaves `SetEdns0` implies: a policy
exists, it is enabled, the client is inside the allowed networks; the option
is the clamped copy of a subnet option the client itself sent; and it is the
only option there (cookies, padding, keepalive, NSID, unknown codes are gone). -/
theorem upstream_ecs_only_when_allowed (p : Option Policy) (client : Option Addr) (opts : List Opt)
    (o : Opt) (h : o ∈ setEdns0 p client opts) :
    (∃ pol, p = some pol ∧ pol.enabled = true ∧ ClientAllowed pol client) ∧
    (∃ (s : Subnet) (f : Fwd), Opt.ecs s ∈ opts ∧ clamp p s = some f ∧ o = Opt.ecs f.toSubnet) ∧
    setEdns0 p client opts = [o] := by
  unfold setEdns0 at h ⊢
  by_cases ha : allows p client = true
  · simp only [ha, if_true] at h ⊢
    cases hl : lastEcs opts with
    | none => rw [hl] at h; simp at h
    | some s =>
      rw [hl] at h
      simp only at h ⊢
      cases hc : clamp p s with
      | none => rw [hc] at h; simp at h
      | some f =>
        rw [hc] at h
        simp only [List.mem_singleton] at h ⊢
        subst h
        exact ⟨(allows_iff p client).mp ha, ⟨s, f, lastEcs_mem hl, hc, rfl⟩, rfl⟩
  · simp [ha] at h

/-- **In every other case every client-supplied option is removed.** Policy
missing or disabled, client outside the allowed networks, no (usable) subnet
option: the outgoing OPT carries no option at all. -/
theorem otherwise_all_client_options_removed (p : Option Policy) (client : Option Addr) (opts : List Opt) :
    (allows p client = false → setEdns0 p client opts = []) ∧
    ((∀ o ∈ opts, o.isEcs = false) → setEdns0 p client opts = []) ∧
    (∀ o ∈ setEdns0 p client opts, o.isEcs = true) := by
  refine ⟨?_, ?_, ?_⟩
  · intro h; unfold setEdns0; simp [h]
  · intro h
    unfold setEdns0
    rw [lastEcs_none_of_no_ecs h]
    split <;> rfl
  · intro o ho
    obtain ⟨_, ⟨s, f, _, _, rfl⟩, _⟩ := upstream_ecs_only_when_allowed p client opts o ho
    rfl

/-- the forwarded option, spelled out: all the `Clamp` guarantees hold for it. -/
theorem upstream_ecs_is_clamped (pol : Policy) (client : Option Addr) (opts : List Opt) (o : Opt)
    (h : o ∈ setEdns0 (some pol) client opts) :
    ∃ (s : Subnet) (f : Fwd), Opt.ecs s ∈ opts ∧ o = Opt.ecs f.toSubnet ∧
      f.mask ≤ pol.fwdMax f.fam ∧ f.mask ≤ s.mask ∧
      (∀ i, i < f.fam.width - f.mask → f.val.testBit i = false) := by
  obtain ⟨_, ⟨s, f, hs, hc, ho⟩, _⟩ := upstream_ecs_only_when_allowed _ _ _ _ h
  obtain ⟨h1, h2, _, _, _, h6, _⟩ := clamp_le_ceiling_and_zeroes_host_bits pol s f hc
  exact ⟨s, f, hs, ho, h1, h2, h6⟩

/-- **Only one OPT record counts.** Whatever further OPT records a request
carries in front of the one sdns works with (RFC 6891 forbids them, clients can
send them: decoded entries and packets the strict parser refuses), their
options — cookie, unclamped subnet — never reach upstream: what leaves is
exactly what would leave for the last record alone. -/
theorem other_opt_records_never_leave (p : Option Policy) (client : Option Addr)
    (pre : List (List Opt)) (l : List Opt) :
    setEdns0 p client ((effectiveOpts (pre ++ [l])).getD []) = setEdns0 p client l ∧
    ∀ o ∈ setEdns0 p client ((effectiveOpts (pre ++ [l])).getD []),
      ∃ (s : Subnet) (f : Fwd), Opt.ecs s ∈ l ∧ clamp p s = some f ∧ o = Opt.ecs f.toSubnet := by
  rw [effectiveOpts_append]
  refine ⟨rfl, fun o ho => ?_⟩
  exact (upstream_ecs_only_when_allowed p client l o ho).2.1

/-- **What a wire client's IPv4 subnet option becomes.** Whatever address bytes
followed the 4-byte option header (none, fewer than the netmask needs, all
four with host bits set, more), the decoder hands sdns a well-formed family-1
option with netmask and scope within the family; `Clamp` never refuses it and
forwards exactly `min(netmask, ceiling)` bits of the zero-padded bytes with
every other bit cleared. -/
theorem wire_v4_subnet_clamped (pol : Policy) (s d : Subnet) (h : decodeWireSubnet s = some d)
    (hf : s.family = 1) (hc : pol.fwd4 ≤ 32) :
    d.family = 1 ∧ d.mask = s.mask ∧ d.mask ≤ 32 ∧ d.scope ≤ 32 ∧
    clamp (some pol) d = some ⟨.v4, min s.mask pol.fwd4,
      maskTo 32 (min s.mask pol.fwd4) (bytesVal (padTo 4 (s.addr.getD [])))⟩ := by
  unfold decodeWireSubnet at h
  simp only [hf, Nat.succ_ne_zero, if_false, if_true] at h
  split at h
  · cases h
  · rename_i hcond
    simp only [Bool.or_eq_true, decide_eq_true_eq, not_or, Nat.not_lt] at hcond
    simp only [Option.some.injEq] at h
    subst h
    refine ⟨rfl, rfl, hcond.1, hcond.2, ?_⟩
    have hl := padTo_length 4 (s.addr.getD [])
    generalize padTo 4 (s.addr.getD []) = q at hl ⊢
    match q, hl with
    | [a, b, c, e], _ =>
      have hmin : min s.mask pol.fwd4 ≤ 32 := Nat.le_trans (Nat.min_le_right _ _) hc
      simp [clamp, ipToAddr, isMapped16, List.replicate, Addr.prefix?, Fam.width, Policy.fwdMax, hmin]

/-- family 0 / netmask 0 ("no subnet") decodes, marks the request, and is never forwarded. -/
theorem wire_family0_never_forwarded (p : Option Policy) (s d : Subnet) (h : decodeWireSubnet s = some d)
    (hf : s.family = 0) : d.family = 0 ∧ clamp p d = none ∧ ednsMarks (some [Opt.ecs d]) = true := by
  unfold decodeWireSubnet at h
  simp only [hf, if_true] at h
  split at h
  · simp only [Option.some.injEq] at h
    subst h
    refine ⟨rfl, ?_, rfl⟩
    cases p with
    | none => rfl
    | some pol => simp [clamp, ipToAddr, isMapped16, List.replicate]
  · cases h

/-- **No ECS option is ever returned to a client**, whatever the downstream
response carried (an upstream's own ECS, the re-attached request OPT with the
forwarded copy), whatever the writer adds, EDNS or not. -/
theorem no_ecs_to_client (noedns keepalive : Bool) (resp : Option (List Opt)) (own server opts : List Opt)
    (h : replyOptions noedns resp own server keepalive = some opts) :
    ∀ o ∈ opts, o.isEcs = false := by
  unfold replyOptions at h
  cases noedns with
  | true => simp at h
  | false =>
    simp only [Bool.false_eq_true, if_false, Option.some.injEq] at h
    subst h
    intro o ho
    rcases List.mem_append.mp ho with ho | ho
    · exact (mem_stripECS (mem_stripKeepalive ho)).2
    · cases keepalive with
      | true => simp only [if_true, List.mem_singleton] at ho; subst ho; rfl
      | false => simp at ho

/-- nor in the BADVERS rejection, which bypasses the edns response writer. -/
theorem no_ecs_in_badvers_reply (p : Option Policy) (client : Option Addr) (opts : List Opt) :
    ∀ o ∈ badversReplyOptions p client opts, o.isEcs = false := by
  intro o ho
  exact (mem_stripECS ho).2

/-- nor in an rcode rejection (`Chain.CancelWithRcode`), whichever side of edns
the rejecting handler sits on and whatever the client's OPT held — a lone
subnet option included. -/
theorem no_ecs_in_rejection (copts : Option (List Opt)) (noedns keepalive : Bool) (fwd server : List Opt) :
    (∀ l, rejectReplyAhead copts = some l → ∀ o ∈ l, o.isEcs = false) ∧
    (∀ l, rejectReplyBehind noedns fwd server keepalive = some l → ∀ o ∈ l, o.isEcs = false) := by
  constructor
  · intro l hl o ho
    cases copts with
    | none => simp [rejectReplyAhead] at hl
    | some c =>
      simp only [rejectReplyAhead, Option.map_some, Option.some.injEq] at hl
      subst hl
      have := (List.mem_filter.mp ho).2
      cases o with
      | ecs s => simp [Opt.code] at this
      | other c d => rfl
  · intro l hl
    exact no_ecs_to_client noedns keepalive _ fwd server l hl

/-- a client that did not speak EDNS gets no OPT at all. -/
theorem no_opt_without_edns (keepalive : Bool) (resp : Option (List Opt)) (own server : List Opt) :
    replyOptions true resp own server keepalive = none := rfl

/-! ## across audiences -/

/-- **The stored scope is never more specific** than what was forwarded, than
the configured floor, or than what the authority declared; it names the
authority's network truncated to that length. -/
theorem scope_not_more_specific (pol : Policy) (scope src : Prefix) (hw : scope.bits ≤ scope.fam.width) :
    (clampScope (some pol) scope (some src)).bits ≤ src.bits ∧
    (clampScope (some pol) scope (some src)).bits ≤ pol.minScope scope.fam ∧
    (clampScope (some pol) scope (some src)).bits ≤ scope.bits ∧
    (clampScope (some pol) scope (some src)).fam = scope.fam ∧
    (clampScope (some pol) scope (some src)).addr =
      maskTo scope.fam.width (clampScope (some pol) scope (some src)).bits scope.addr ∧
    (∀ i, i < scope.fam.width - (clampScope (some pol) scope (some src)).bits →
      (clampScope (some pol) scope (some src)).addr.testBit i = false) := by
  have key : ∃ b, b ≤ src.bits ∧ b ≤ pol.minScope scope.fam ∧ b ≤ scope.bits ∧
      clampScope (some pol) scope (some src) = ⟨scope.fam, maskTo scope.fam.width b scope.addr, b⟩ := by
    simp only [clampScope]
    generalize hb1 : (if scope.bits > src.bits then src.bits else scope.bits) = b1
    generalize hb2 : (if b1 > pol.minScope scope.fam then pol.minScope scope.fam else b1) = b2
    have e1 : b1 ≤ src.bits ∧ b1 ≤ scope.bits := by subst hb1; split <;> omega
    have e2 : b2 ≤ b1 ∧ b2 ≤ pol.minScope scope.fam := by subst hb2; split <;> omega
    have hle : b2 ≤ scope.fam.width := by omega
    exact ⟨b2, by omega, e2.2, by omega, by rw [if_pos hle]⟩
  obtain ⟨b, h1, h2, h3, hk⟩ := key
  rw [hk]
  exact ⟨h1, h2, h3, rfl, rfl, fun i hi => maskTo_testBit _ _ _ _ hi⟩

/-- the same for the key `WriteMsg` actually files the answer under: a scoped
key is at most as long as the client's forwarded prefix and the floor. -/
theorem stored_scope_bounds (pol : Policy) (cs : Prefix) (ro : Option (List Opt)) (sc : Prefix)
    (h : storeScope (some pol) (some cs) ro = some sc) :
    0 < sc.bits ∧ sc.bits ≤ cs.bits ∧ sc.bits ≤ pol.minScope sc.fam ∧
    (∀ i, i < sc.fam.width - sc.bits → sc.addr.testBit i = false) := by
  unfold storeScope at h
  simp only at h
  cases hr : readResponseScope ro with
  | none => rw [hr] at h; simp at h
  | some rs =>
    rw [hr] at h
    simp only at h
    obtain ⟨hpos, rfl⟩ := normScope_some h
    -- a scope read from a response always fits its family
    have hw : rs.bits ≤ rs.fam.width := by
      unfold readResponseScope at hr
      cases ro with
      | none => simp at hr
      | some opts =>
        simp only at hr
        cases hf : firstEcs opts with
        | none => rw [hf] at hr; simp at hr
        | some s =>
          rw [hf] at hr
          simp only at hr
          split at hr
          · simp at hr
          · cases hsa : s.addr with
            | none => rw [hsa] at hr; simp at hr
            | some bs =>
              rw [hsa] at hr
              simp only at hr
              cases hip : ipToAddr bs with
              | none => rw [hip] at hr; simp at hr
              | some a =>
                rw [hip] at hr
                simp only at hr
                have fin : ∀ {p : Prefix}, a.prefix? s.scope = some p → p.bits ≤ p.fam.width := by
                  intro p hp
                  obtain ⟨hb, rfl⟩ := prefix?_some hp
                  exact hb
                split at hr
                · split at hr
                  · exact fin hr
                  · simp at hr
                · split at hr
                  · split at hr
                    · exact fin hr
                    · simp at hr
                  · simp at hr
    obtain ⟨h1, h2, _, h4, _, _⟩ := scope_not_more_specific pol rs cs hw
    simp only [Prefix.masked]
    refine ⟨hpos, h1, ?_, fun i hi => maskTo_testBit _ _ _ _ hi⟩
    rw [h4]; exact h2

/-- **A scoped entry is served only inside its scope** — for every hash
function and every store content (collisions included): if the hit ladder
returns an entry admitted under scope `sc`, then the request carried a client
prefix of the same family, at least as long as `sc`, whose address truncated
to `sc.bits` bits is exactly the stored network; and the entry belongs to the
asked question and CD partition. -/
theorem scoped_served_inside_scope (H : Hash) (store : Nat → Option Entry) (qid : Nat) (cd : Bool)
    (cs : Option Prefix) (e : Entry) (h : serveLookup H store qid cd cs = some e) :
    e.qid = qid ∧ e.cd = cd ∧
    ∀ sc, e.scope = some sc →
      ∃ cp, cs = some cp ∧ sc.fam = cp.fam ∧ 0 < sc.bits ∧ sc.bits ≤ cp.bits ∧ sc.bits ≤ sc.fam.width ∧
        sc.addr = maskTo cp.fam.width sc.bits cp.addr := by
  -- a hit under the shared key carries no scope
  have shared : ∀ e', (match store (H qid cd none) with
        | some e => if entryMatches e qid cd none = true then some e else none
        | none => none) = some e' →
      e'.qid = qid ∧ e'.cd = cd ∧ e'.scope = none := by
    intro e' h'
    cases hs : store (H qid cd none) with
    | none => rw [hs] at h'; simp at h'
    | some e0 =>
      rw [hs] at h'
      simp only at h'
      by_cases hm : entryMatches e0 qid cd none = true
      · simp only [hm, if_true, Option.some.injEq] at h'
        subst h'
        unfold entryMatches at hm
        simp only [Bool.and_eq_true, beq_iff_eq] at hm
        exact ⟨hm.1.1, hm.1.2, by simpa [normScope] using hm.2⟩
      · simp [hm] at h'
  have fromShared : ∀ e', (match store (H qid cd none) with
        | some e => if entryMatches e qid cd none = true then some e else none
        | none => none) = some e' → _ := fun e' h' => by
    obtain ⟨a, b, c⟩ := shared e' h'
    exact (⟨a, b, fun sc hsc => by rw [c] at hsc; cases hsc⟩ :
      e'.qid = qid ∧ e'.cd = cd ∧ ∀ sc, e'.scope = some sc →
        ∃ cp, cs = some cp ∧ sc.fam = cp.fam ∧ 0 < sc.bits ∧ sc.bits ≤ cp.bits ∧ sc.bits ≤ sc.fam.width ∧
          sc.addr = maskTo cp.fam.width sc.bits cp.addr)
  unfold serveLookup at h
  simp only at h
  cases cs with
  | none => exact fromShared e h
  | some cp =>
    simp only at h
    cases hl : scopedLookup H store qid cd cp with
    | none => rw [hl] at h; exact fromShared e h
    | some r =>
      obtain ⟨e1, sc1⟩ := r
      rw [hl] at h
      simp only at h
      by_cases hm : entryMatches e1 qid cd (some sc1) = true
      · simp only [hm, if_true, Option.some.injEq] at h
        subst h
        unfold scopedLookup at hl
        obtain ⟨hpos, hle, hw, hfam, haddr, _⟩ := scopedProbe_spec H store qid cd cp.fam cp.addr cp.bits e1 sc1 hl
        unfold entryMatches at hm
        simp only [Bool.and_eq_true, beq_iff_eq] at hm
        refine ⟨hm.1.1, hm.1.2, ?_⟩
        intro sc hsc
        have hn : normScope (some sc1) = some sc := by rw [← hm.2]; exact hsc
        obtain ⟨_, rfl⟩ := normScope_some hn
        refine ⟨cp, rfl, hfam, hpos, hle, by simpa [Prefix.masked, hfam] using hw, ?_⟩
        simp only [Prefix.masked]
        rw [haddr, hfam, maskTo_maskTo _ _ _ _ (Nat.le_refl _) hw]
      · simp only [hm, Bool.false_eq_true, if_false] at h
        exact fromShared e h

/-- **Neighbouring subnets are isolated.** An entry filed for client X under a
scope that names X's own network (the authority echoed X's forwarded prefix)
is served to a client Y only if Y's forwarded prefix lies in that same network:
X and Y agree on every one of the scope's bits.  For every hash and store. -/
theorem neighbour_subnets_isolated (H : Hash) (store : Nat → Option Entry) (qid : Nat) (cd : Bool)
    (cpX cpY : Prefix) (e : Entry) (sc : Prefix)
    (hsc : e.scope = some sc) (hX : sc.addr = maskTo cpX.fam.width sc.bits cpX.addr) (hfX : sc.fam = cpX.fam)
    (h : serveLookup H store qid cd (some cpY) = some e) :
    cpY.fam = cpX.fam ∧ sc.bits ≤ cpY.bits ∧
    maskTo cpX.fam.width sc.bits cpY.addr = maskTo cpX.fam.width sc.bits cpX.addr := by
  obtain ⟨_, _, h3⟩ := scoped_served_inside_scope H store qid cd (some cpY) e h
  obtain ⟨cp, hcp, hf, _, hle, _, ha⟩ := h3 sc hsc
  simp only [Option.some.injEq] at hcp
  rw [← hcp] at hf hle ha
  have hfam : cpY.fam = cpX.fam := by rw [← hf, hfX]
  refine ⟨hfam, hle, ?_⟩
  rw [← hX, ha, hfam]

/-- **Two cache-missing clients share a flight only if they share the forwarded
subnet.** Equal dedup keys mean: same question, same CD, and either neither
request has a client scope longer than 0 bits, or both have the same family, the same
length and the same network. -/
theorem dedup_shares_only_same_subnet (qa qb : Nat) (cda cdb : Bool) (csa csb : Option Prefix)
    (h : dedupKey qa cda csa = dedupKey qb cdb csb) :
    qa = qb ∧ cda = cdb ∧
    (∀ a, csa = some a → 0 < a.bits →
      ∃ b, csb = some b ∧ b.fam = a.fam ∧ b.bits = a.bits ∧
        maskTo b.fam.width b.bits b.addr = maskTo a.fam.width a.bits a.addr) := by
  simp only [dedupKey, Prod.mk.injEq] at h
  refine ⟨h.1, h.2.1, ?_⟩
  intro a ha hpos
  have hn : normScope csb = some a.masked := by
    rw [← h.2.2, ha]
    simp [normScope, Nat.ne_of_gt hpos]
  cases csb with
  | none => simp [normScope] at hn
  | some b =>
    obtain ⟨_, hb⟩ := normScope_some hn
    simp only [Prefix.masked, Prefix.mk.injEq] at hb
    exact ⟨b, rfl, hb.1.symm, hb.2.2.symm, hb.2.1.symm⟩

/-- a request for which no client scope was derived (policy off or invalid,
client outside the allowed networks, no usable subnet option) never receives
a scoped entry. -/
theorem no_scope_no_scoped_answer (H : Hash) (store : Nat → Option Entry) (qid : Nat) (cd : Bool) (e : Entry)
    (h : serveLookup H store qid cd none = some e) : e.scope = none := by
  obtain ⟨_, _, hs⟩ := scoped_served_inside_scope H store qid cd none e h
  cases hsc : e.scope with
  | none => rfl
  | some sc => obtain ⟨cp, hcp, _⟩ := hs sc hsc; cases hcp

/-- the client scope only exists for allowed clients of an existing policy. -/
theorem request_scope_only_when_allowed (p : Option Policy) (client : Option Addr) (ro : Option (List Opt))
    (cp : Prefix) (h : requestScope p client ro = some cp) : allows p client = true := by
  unfold requestScope at h
  by_cases ha : allows p client = true
  · exact ha
  · simp [ha] at h

/-- **Lookup and insert key on exactly what was forwarded (IPv4).** The client
scope the cache derives from the request edns handed it is the forwarded
prefix itself — same network, same length — so the scope a client is looked up
and filed under is never more specific than (nor different from) what left
sdns.  (`f.val < 2^32`: the option's four address bytes are bytes.) -/
theorem cache_scope_is_forwarded_prefix_v4 (pol : Policy) (client : Option Addr) (s : Subnet) (f : Fwd)
    (hc : clamp (some pol) s = some f) (hf : f.fam = .v4) (hv : f.val < 2 ^ 32)
    (ha : allows (some pol) client = true) :
    requestScope (some pol) client (some [Opt.ecs f.toSubnet]) = some ⟨.v4, f.val, f.mask⟩ := by
  obtain ⟨_, _, hm, _, hz, _⟩ := clamp_le_ceiling_and_zeroes_host_bits pol s f hc
  rw [hf] at hm hz
  simp only [Fam.width] at hm hz
  have hl := natBytes_length 4 f.val
  have hb := bytesVal_natBytes 4 f.val (by simpa using hv)
  simp only [requestScope, ha, firstEcs, Fwd.toSubnet, hf, Fam.width]
  simp [ipToAddr, hl, hb, Addr.prefix?, Fam.width, hm, maskTo_of_aligned 32 f.mask f.val hz]

/-- the IPv6 twin: unless the sixteen forwarded bytes spell an IPv4-mapped
address (which `Clamp` never forwards under family 2: see `wire_v6_subnet_clamped`
and the hypothesis here), the cache's client scope is the forwarded prefix. -/
theorem cache_scope_is_forwarded_prefix_v6 (pol : Policy) (client : Option Addr) (s : Subnet) (f : Fwd)
    (hc : clamp (some pol) s = some f) (hf : f.fam = .v6) (hv : f.val < 2 ^ 128)
    (hnm : isMapped16 (natBytes 16 f.val) = false)
    (ha : allows (some pol) client = true) :
    requestScope (some pol) client (some [Opt.ecs f.toSubnet]) = some ⟨.v6, f.val, f.mask⟩ := by
  obtain ⟨_, _, hm, _, hz, _⟩ := clamp_le_ceiling_and_zeroes_host_bits pol s f hc
  rw [hf] at hm hz
  simp only [Fam.width] at hm hz
  have hl := natBytes_length 16 f.val
  have hb := bytesVal_natBytes 16 f.val (by simpa using hv)
  simp only [requestScope, ha, firstEcs, Fwd.toSubnet, hf, Fam.width]
  simp [ipToAddr, hl, hb, hnm, Addr.prefix?, Fam.width, hm, maskTo_of_aligned 128 f.mask f.val hz]

/-- **The scoped limit is honoured below the cache's own floor too.** Whatever
TTL the response carries (0, below the 5 s floor, above the 24 h ceiling) and
whatever limit is configured (1 s included), a scoped entry lives at most
`cache_limit_ttl`; an unscoped one stays within the cache's bounds. -/
theorem scoped_ttl_capped_below_floor (isScoped : Bool) (cap msgTTL : Nat) :
    (isScoped = true → 0 < cap → storedTTL isScoped cap msgTTL ≤ cap) ∧
    storedTTL isScoped cap msgTTL ≤ 86400 ∧
    (isScoped = false ∨ cap = 0 → 5 ≤ storedTTL isScoped cap msgTTL) := by
  have hb : 5 ≤ clampTTL msgTTL ∧ clampTTL msgTTL ≤ 86400 := by
    unfold clampTTL; split <;> (try split) <;> omega
  unfold storedTTL capTTL
  generalize clampTTL msgTTL = t at hb
  cases isScoped <;> by_cases hc : cap > 0 <;> by_cases ht : t > cap <;> simp [hc, ht] <;> omega

/-- **Scoped answers are capped by the scoped TTL limit** (when one is
configured) — positive answers, NODATA, NXDOMAIN and referral-shaped replies
alike, limits below the cache's 5 s floor included — and no entry outlives the
cache's 24 h ceiling. -/
theorem scoped_ttl_capped (p : Option Policy) (cs : Option Prefix) (ro : Option (List Opt))
    (qid : Nat) (cd : Bool) (ttl cap ans : Nat) (kind : RespKind) :
    let e := storeEntry p cs ro qid cd ttl cap ans kind
    e.ttl ≤ 86400 ∧ (e.scope.isSome = true → 0 < cap → e.ttl ≤ cap) := by
  simp only [storeEntry]
  obtain ⟨h1, h2, _⟩ := scoped_ttl_capped_below_floor (storeScope p cs ro).isSome cap ttl
  exact ⟨h2, h1⟩

/-- **The scoped TTL limit survives every cache configuration**: whatever cache
size and prefetch percentage the operator wrote — valid, or rejected by
`Validate` and repaired by the fallback — the limit the store applies is the
configured `cache_limit_ttl`, the repaired size is at least 1024 and the
threshold is 0 or within 10‥90. -/
theorem scoped_cap_survives_cache_config (size prefetch capTtl : Nat) :
    (cacheKnobs size prefetch capTtl).ecsMaxTTL = capTtl ∧
    1024 ≤ (cacheKnobs size prefetch capTtl).size ∧
    ((cacheKnobs size prefetch capTtl).prefetch = 0 ∨
      (10 ≤ (cacheKnobs size prefetch capTtl).prefetch ∧ (cacheKnobs size prefetch capTtl).prefetch ≤ 90)) := by
  refine ⟨rfl, ?_, ?_⟩
  · unfold cacheKnobs
    by_cases h : size < 1024 <;> simp [h] <;> omega
  · unfold cacheKnobs
    by_cases h1 : size < 1024 <;> by_cases h2 : prefetch > 90 <;> simp [h1, h2] <;>
      (try split) <;> omega

/-- **What a wire client's IPv6 subnet option becomes** (the analogue of
`wire_v4_subnet_clamped`): unless the sixteen zero-padded bytes spell an
IPv4-mapped address (which `Clamp` refuses under family 2), exactly
`min(netmask, ceiling)` bits leave, every other bit cleared. -/
theorem wire_v6_subnet_clamped (pol : Policy) (s d : Subnet) (h : decodeWireSubnet s = some d)
    (hf : s.family = 2) (hc : pol.fwd6 ≤ 128) :
    d.family = 2 ∧ d.mask = s.mask ∧ d.mask ≤ 128 ∧ d.scope ≤ 128 ∧
    clamp (some pol) d =
      if isMapped16 (padTo 16 (s.addr.getD [])) then none
      else some ⟨.v6, min s.mask pol.fwd6, maskTo 128 (min s.mask pol.fwd6) (bytesVal (padTo 16 (s.addr.getD [])))⟩ := by
  unfold decodeWireSubnet at h
  simp only [hf, show ¬ ((2 : Nat) = 0) by decide, show ¬ ((2 : Nat) = 1) by decide, if_false, if_true] at h
  split at h
  · cases h
  · rename_i hcond
    simp only [Bool.or_eq_true, decide_eq_true_eq, not_or, Nat.not_lt] at hcond
    simp only [Option.some.injEq] at h
    subst h
    refine ⟨rfl, rfl, hcond.1, hcond.2, ?_⟩
    have hl := padTo_length 16 (s.addr.getD [])
    generalize padTo 16 (s.addr.getD []) = q at hl ⊢
    have hmin : min s.mask pol.fwd6 ≤ 128 := Nat.le_trans (Nat.min_le_right _ _) hc
    have h4 : ¬ (q.length = 4) := by omega
    by_cases hm : isMapped16 q = true
    · simp [clamp, ipToAddr, hl, hm]
    · simp [clamp, ipToAddr, hl, hm, Addr.prefix?, Fam.width, Policy.fwdMax, hmin]

/-- **Nothing of the client's OPT reaches the fallback servers.** -/
theorem fallback_query_carries_no_client_option (copts : Option (List Opt)) :
    fallbackQueryOpts copts = [] ∧ ∀ o ∈ fallbackQueryOpts copts, o.isEcs = false := by
  exact ⟨rfl, fun o ho => by cases ho⟩

/-- **Scoped entries are never background-refreshed**: not eligible, and the
hit path never enqueues them whatever their remaining lifetime. -/
theorem scoped_never_prefetched (e : Entry) (h : e.scope.isSome = true) (queueOn shouldPrefetch : Bool) :
    prefetchEligible e = false ∧ prefetchEnqueues queueOn e shouldPrefetch = false := by
  unfold prefetchEnqueues prefetchEligible
  cases hs : e.scope with
  | none => rw [hs] at h; cases h
  | some sc => simp

/-! ## shared synthesised denials -/

/-- **A query that carried ECS or CD neither consumes nor creates shared
synthesised denials, through alias chases and internal sub-queries.** Whether
or not the policy later stripped the option (`optAfterEdns`, `scopeValid`
arbitrary), at every node of the request tree: the RFC 8020 cut index and the
RFC 8198 proof index are not consulted (`ServeDNS` ladder and
`Store.GetWithContext`), and nothing is admitted to them (`WriteMsg`). -/
theorem ecs_or_cd_bypasses_shared_denial (clientSentEcs cd optAfterEdns scopeValid : Bool)
    (h : clientSentEcs = true ∨ cd = true) (path : List (Bool × Bool × Bool)) (rfc8198Off respCD : Bool) :
    let v := descend (rootView clientSentEcs cd optAfterEdns scopeValid) path
    consultsCut v = false ∧ consultsProof v rfc8198Off = false ∧ admitsDenial v respCD = false ∧
    (path ≠ [] → storeGetConsults v = false) := by
  have hroot : (rootView clientSentEcs cd optAfterEdns scopeValid).bypass = true := by
    rcases h with h | h <;> simp [rootView, ReqView.bypass, ReqView.hasECS, h]
  have hb := bypass_inherited _ path hroot
  simp only
  refine ⟨by simp [consultsCut, hb], by simp [consultsProof, hb], by simp [admitsDenial, hb], ?_⟩
  intro hne
  -- a sub-query's context carries its parent's marker
  unfold descend
  rcases List.eq_nil_or_concat path with hnil | ⟨init, m, rfl⟩
  · exact absurd hnil hne
  · simp only [List.concat_eq_append, List.foldl_append, List.foldl_cons, List.foldl_nil]
    have hp := bypass_inherited (rootView clientSentEcs cd optAfterEdns scopeValid) init hroot
    unfold descend at hp
    generalize List.foldl (fun v m => childView v m.1 m.2.1 m.2.2)
      (rootView clientSentEcs cd optAfterEdns scopeValid) init = P at hp ⊢
    have ht : (childView P m.1 m.2.1 m.2.2).treeBypass = true := hp
    unfold storeGetConsults
    rw [ht]; simp

/-- **Every subnet option counts**: a client option list containing a subnet
option of any shape (family 0 / netmask 0, malformed address, any scope) makes
edns pin the marker — on the decoded and on the wire-born entry — and with it
the whole request tree bypasses the shared denial indexes, whether or not the
policy forwarded, clamped or dropped the option. -/
theorem subnet_option_of_any_shape_bypasses_shared_denial (copts : List Opt) (s : Subnet)
    (h : Opt.ecs s ∈ copts) (cd optAfterEdns scopeValid : Bool) (path : List (Bool × Bool × Bool))
    (rfc8198Off respCD : Bool) :
    ednsMarks (some copts) = true ∧
    (let v := descend (rootView (ednsMarks (some copts)) cd optAfterEdns scopeValid) path
     consultsCut v = false ∧ consultsProof v rfc8198Off = false ∧ admitsDenial v respCD = false) := by
  have hm : ednsMarks (some copts) = true := by
    unfold ednsMarks hasEcs
    exact List.any_eq_true.mpr ⟨_, h, rfl⟩
  refine ⟨hm, ?_⟩
  obtain ⟨h1, h2, h3, _⟩ := ecs_or_cd_bypasses_shared_denial (ednsMarks (some copts)) cd optAfterEdns scopeValid
    (Or.inl hm) path rfc8198Off respCD
  exact ⟨h1, h2, h3⟩

/-- the refresh of a shared entry triggered by an ECS / CD client publishes nothing either. -/
theorem prefetch_admission_respects_ecs_cd (entryScoped requestCD requestHadECS reqOptEcs respCD : Bool)
    (h : requestCD = true ∨ requestHadECS = true ∨ reqOptEcs = true ∨ entryScoped = true) :
    prefetchAdmitsDenial entryScoped requestCD requestHadECS reqOptEcs respCD = false := by
  unfold prefetchAdmitsDenial
  rcases h with h | h | h | h <;> simp [h]

/-! ## through the iterative resolver -/

/-- **The scope the cache keys on is the scope the authority declared.** The
request the resolver works on carries exactly the forwarded option (`SetEdns0`);
if the authority's response has a subnet option, the cache reads the SCOPE of
THAT option from what the resolver hands up; if it has none, the cache sees the
forwarded option's SCOPE 0 and files the answer as global. -/
theorem resolver_hands_up_authority_scope (f : Fwd) (resp : List Opt) :
    (∀ d, firstEcs resp = some d →
      readResponseScope (resolverHandUp (some [Opt.ecs f.toSubnet]) (some resp)) = readResponseScope (some [Opt.ecs d])) ∧
    (firstEcs resp = none →
      readResponseScope (resolverHandUp (some [Opt.ecs f.toSubnet]) (some resp)) = none) := by
  constructor
  · intro d hd
    simp [resolverHandUp, firstEcs, hd, Opt.isEcs]
  · intro hn
    simp [resolverHandUp, firstEcs, hn, readResponseScope, Fwd.toSubnet]

/-- a query that carried no subnet option never gets a scoped answer filed, whatever the authority volunteers. -/
theorem resolver_no_subnet_no_scope (ro resp : List Opt) (h : ∀ o ∈ ro, o.isEcs = false) :
    resolverHandUp (some ro) (some resp) = some ro ∧ readResponseScope (some ro) = none := by
  have hf : firstEcs ro = none := by
    induction ro with
    | nil => rfl
    | cons o t ih =>
      cases o with
      | ecs s => have := h (Opt.ecs s) List.mem_cons_self; simp [Opt.isEcs] at this
      | other c d => simp only [firstEcs]; exact ih (fun o ho => h o (List.mem_cons_of_mem _ ho))
  exact ⟨by simp [resolverHandUp, hf], by simp [readResponseScope, hf]⟩

/-- **Forwarder mode keeps the declared scope too**: the scope the cache reads is
the upstream's first subnet option's, whatever else its OPT carries. -/
theorem forwarder_hands_up_declared_scope (resp : List Opt) (d : Subnet) (h : firstEcs resp = some d) :
    readResponseScope (forwarderHandUp (some resp)) = readResponseScope (some [Opt.ecs d]) := by
  simp [forwarderHandUp, readResponseScope, firstEcs, h]

/-- **Upstream lookups for different subnets are never collapsed**: two requests
share a singleflight key only if they forward the same family, source netmask
and address (and ask the same question with the same CD). -/
theorem lookup_key_separates_subnets (qid : Nat) (cd : Bool) (a b : Fwd)
    (h : lookupKey qid cd [Opt.ecs a.toSubnet] = lookupKey qid cd [Opt.ecs b.toSubnet]) :
    a.fam.code = b.fam.code ∧ a.mask = b.mask ∧
    natBytes (a.fam.width / 8) a.val = natBytes (b.fam.width / 8) b.val := by
  simp only [lookupKey, firstEcs, Option.map_some, Prod.mk.injEq, Option.some.injEq, true_and, Fwd.toSubnet] at h
  exact ⟨h.1, h.2.1, h.2.2⟩

/-! ## every reachable cache state -/

/-- what must hold of an entry that sits in the cache under policy `pol` and cap `cap`. -/
def EntryOK (pol : Policy) (cap : Nat) (e : Entry) : Prop :=
  ∀ sc, e.scope = some sc →
    0 < sc.bits ∧ sc.bits ≤ pol.minScope sc.fam ∧ (0 < cap → e.ttl ≤ cap) ∧
    (∀ i, i < sc.fam.width - sc.bits → sc.addr.testBit i = false)

theorem storeEntry_ok (pol : Policy) (cap : Nat) (cs : Option Prefix) (ro : Option (List Opt))
    (qid : Nat) (cd : Bool) (ttl ans : Nat) (kind : RespKind) :
    EntryOK pol cap (storeEntry (some pol) cs ro qid cd ttl cap ans kind) := by
  intro sc hsc
  have hcap := (scoped_ttl_capped (some pol) cs ro qid cd ttl cap ans kind).2
  have hsome : (storeEntry (some pol) cs ro qid cd ttl cap ans kind).scope.isSome = true := by rw [hsc]; rfl
  have hsc' : storeScope (some pol) cs ro = some sc := hsc
  cases cs with
  | none => simp [storeScope] at hsc'
  | some c =>
    obtain ⟨h1, _, h3, h4⟩ := stored_scope_bounds pol c ro sc hsc'
    exact ⟨h1, h3, fun hc => hcap hsome hc, h4⟩

/-- **Invariant of the answer cache over every history.** Starting empty, after
ANY sequence of response write-backs (any client scope, any authority options,
any response kind and TTL), background refreshes (of whatever key, with
whatever answer) and evictions, for ANY key hash: every scoped entry in the
cache has a non-empty scope no longer than the configured floor, zero host
bits, and a lifetime within the scoped TTL limit when one is configured. -/
theorem reachable_store_ok (H : Hash) (pol : Policy) (cap : Nat) (ops : List CacheOp) :
    ∀ x ∈ runCache H (some pol) cap ops, EntryOK pol cap x.2 := by
  unfold runCache
  suffices hgen : ∀ (s : Store), (∀ x ∈ s, EntryOK pol cap x.2) →
      ∀ x ∈ ops.foldl (cacheStep H (some pol) cap) s, EntryOK pol cap x.2 from
    hgen [] (by intro x hx; cases hx)
  induction ops with
  | nil => intro s hs; exact hs
  | cons op t ih =>
    intro s hs
    simp only [List.foldl_cons]
    apply ih
    intro x hx
    cases op with
    | answer cs ro qid cd ttl ans kind =>
      simp only [cacheStep] at hx
      rcases Store.mem_put hx with rfl | hx
      · exact storeEntry_ok pol cap cs ro qid cd ttl ans kind
      · exact hs x hx
    | refresh key claimed ttl ans =>
      simp only [cacheStep] at hx
      cases hg : s.get key with
      | none => rw [hg] at hx; exact hs x hx
      | some cur =>
        rw [hg] at hx
        simp only at hx
        split at hx
        · rename_i hc
          simp only [Bool.and_eq_true] at hc
          rcases Store.mem_put hx with rfl | hx
          · -- a refreshed entry was prefetch-eligible: it carries no scope
            intro sc hsc
            have : cur.scope = none := by
              have := hc.2
              unfold prefetchEligible at this
              cases hcs : cur.scope with
              | none => rfl
              | some _ => rw [hcs] at this; cases this
            simp only [refreshEntry] at hsc
            rw [this] at hsc; cases hsc
          · exact hs x hx
        · exact hs x hx
    | evict key =>
      simp only [cacheStep] at hx
      exact hs x (Store.mem_del hx)

/-- **End to end, for every history**: whatever is served out of any reachable
cache state, to a request with client scope `cs`, belongs to the question and
CD partition asked; if it is a scoped answer the client's prefix lies inside
the stored network, and the entry respects floor and scoped TTL limit. -/
theorem served_from_reachable_store (H : Hash) (pol : Policy) (cap : Nat) (ops : List CacheOp)
    (qid : Nat) (cd : Bool) (cs : Option Prefix) (e : Entry)
    (h : serveLookup H (runCache H (some pol) cap ops).get qid cd cs = some e) :
    e.qid = qid ∧ e.cd = cd ∧ EntryOK pol cap e ∧
    ∀ sc, e.scope = some sc →
      ∃ cp, cs = some cp ∧ sc.fam = cp.fam ∧ sc.bits ≤ cp.bits ∧ sc.addr = maskTo cp.fam.width sc.bits cp.addr := by
  obtain ⟨h1, h2, h3⟩ := scoped_served_inside_scope H _ qid cd cs e h
  obtain ⟨k, hk⟩ := serveLookup_from_store h
  obtain ⟨k', hmem⟩ := Store.get_mem hk
  refine ⟨h1, h2, reachable_store_ok H pol cap ops _ hmem, ?_⟩
  intro sc hsc
  obtain ⟨cp, hcp, hf, _, hle, _, ha⟩ := h3 sc hsc
  exact ⟨cp, hcp, hf, hle, ha⟩

/-! ## background refresh -/

/-- a background refresh only ever happens for unscoped entries and leaves the
refreshed entry in the key, CD partition and (empty) scope of the entry that
claimed it. -/
theorem refresh_stays_in_its_partition (queueOn shouldPrefetch : Bool) (e : Entry) (ttl ans : Nat)
    (h : prefetchEnqueues queueOn e shouldPrefetch = true) :
    e.scope = none ∧ (refreshEntry e ttl ans).scope = none ∧
    (refreshEntry e ttl ans).qid = e.qid ∧ (refreshEntry e ttl ans).cd = e.cd := by
  unfold prefetchEnqueues prefetchEligible at h
  simp only [Bool.and_eq_true] at h
  have hs : e.scope = none := by
    cases hsc : e.scope with
    | none => rfl
    | some sc => rw [hsc] at h; simp at h
  exact ⟨hs, hs, rfl, rfl⟩

/-- **A background refresh never carries a client's subnet**: whatever options
the triggering request had and whatever the policy allows the internal writer
address, the refresh query reaches upstream without any option — so the refresh
of a shared entry is asked on nobody's behalf and, by `refresh_stays_in_its_partition`,
filed under the shared key it came from.  (Before /repo 83d961d the queued copy
kept the trigger's clamped subnet: with an empty `client_networks` it travelled
upstream again and the authority's SCOPE > 0 answer was filed under the shared
key — oracle signatures `refresh/…`, see notes/C19.md.) -/
theorem refresh_never_carries_subnet (p : Option Policy) (queued : List Opt) :
    refreshForwarded p queued = [] := by
  unfold refreshForwarded
  exact (otherwise_all_client_options_removed p (some internalAddr) (stripECS queued)).2.1
    (fun o ho => (mem_stripECS ho).2)

/-! ## configuration -/

/-- **An invalid ECS configuration disables forwarding entirely** (and so does
`enabled = false`): no policy object comes out of `Build`, hence nothing is
forwarded for any client and any option list, and no request gets a client scope. -/
theorem invalid_config_disables (enabled : Bool) (f4 f6 m4 m6 : Nat) (nets : List (Option Prefix))
    (h : enabled = false ∨ f4 > 32 ∨ f6 > 128 ∨ m4 > 32 ∨ m6 > 128 ∨ none ∈ nets) :
    (build enabled f4 f6 m4 m6 nets).policy = none ∧
    (∀ client opts, setEdns0 (build enabled f4 f6 m4 m6 nets).policy client opts = []) ∧
    (∀ client ro, requestScope (build enabled f4 f6 m4 m6 nets).policy client ro = none) := by
  have hp : (build enabled f4 f6 m4 m6 nets).policy = none := by
    cases hb : build enabled f4 f6 m4 m6 nets with
    | disabled => rfl
    | invalid f => rfl
    | ok pol =>
      exfalso
      obtain ⟨he, h1, h2, h3, h4, ns, hn, _⟩ := build_ok_spec hb
      have l1 := le_dflt f4 24
      have l2 := le_dflt f6 56
      have l3 := le_dflt m4 (dflt f4 24)
      have l4 := le_dflt m6 (dflt f6 56)
      rcases h with h | h | h | h | h | h
      · rw [he] at h; cases h
      · omega
      · omega
      · omega
      · omega
      · rw [parseNets_none_of_mem h] at hn; cases hn
  refine ⟨hp, ?_, ?_⟩
  · intro client opts; rw [hp]; rfl
  · intro client ro; rw [hp]; rfl

/-- **One configuration, one policy.** The forwarding side (edns) and the keying
side (cache) hold the same policy for every `[ecs]` block — in particular a
block only one field of which is invalid (a scope floor, say) leaves NEITHER
side with a policy: no client subnet leaves sdns and no answer is keyed by
scope under an invalid configuration. -/
theorem edns_and_cache_agree (enabled : Bool) (f4 f6 m4 m6 : Nat) (nets : List (Option Prefix)) :
    ednsPolicy (build enabled f4 f6 m4 m6 nets) = cachePolicy (build enabled f4 f6 m4 m6 nets) ∧
    ((m4 > 32 ∨ m6 > 128) → ednsPolicy (build enabled f4 f6 m4 m6 nets) = none ∧
      ∀ client opts, setEdns0 (ednsPolicy (build enabled f4 f6 m4 m6 nets)) client opts = []) := by
  refine ⟨rfl, fun h => ?_⟩
  have hh := invalid_config_disables enabled f4 f6 m4 m6 nets
    (by rcases h with h | h
        · exact Or.inr (Or.inr (Or.inr (Or.inl h)))
        · exact Or.inr (Or.inr (Or.inr (Or.inr (Or.inl h)))))
  exact ⟨hh.1, hh.2.1⟩

/-- the file route: an `[ecs]` block read through `config.Load` fails closed exactly like one built in code. -/
theorem loaded_config_fails_closed (enabled : Bool) (f4 f6 m4 m6 : Nat) (nets : List (Option Prefix))
    (h : f4 > 32 ∨ f6 > 128 ∨ m4 > 32 ∨ m6 > 128) :
    ednsPolicy (loadedEcs enabled f4 f6 m4 m6 nets) = none ∧ cachePolicy (loadedEcs enabled f4 f6 m4 m6 nets) = none := by
  have hh := (invalid_config_disables enabled f4 f6 m4 m6 nets
    (by rcases h with h | h | h | h
        · exact Or.inr (Or.inl h)
        · exact Or.inr (Or.inr (Or.inl h))
        · exact Or.inr (Or.inr (Or.inr (Or.inl h)))
        · exact Or.inr (Or.inr (Or.inr (Or.inr (Or.inl h)))))).1
  exact ⟨hh, hh⟩

/-- what `Build` hands out is always in range: ceilings and floors are between 1 and the family width. -/
theorem build_ok_in_range (enabled : Bool) (f4 f6 m4 m6 : Nat) (nets : List (Option Prefix)) (pol : Policy)
    (h : build enabled f4 f6 m4 m6 nets = .ok pol) :
    pol.enabled = true ∧ pol.fwd4 ≤ 32 ∧ pol.fwd6 ≤ 128 ∧ pol.min4 ≤ 32 ∧ pol.min6 ≤ 128 ∧
    0 < pol.fwd4 ∧ 0 < pol.fwd6 ∧ 0 < pol.min4 ∧ 0 < pol.min6 := by
  obtain ⟨_, h1, h2, h3, h4, ns, _, rfl⟩ := build_ok_spec h
  have p1 : 0 < dflt f4 24 := dflt_pos (by omega)
  have p2 : 0 < dflt f6 56 := dflt_pos (by omega)
  exact ⟨rfl, h1, h2, h3, h4, p1, p2, dflt_pos p1, dflt_pos p2⟩

/-! ## facts regenerated from the tree (one-directional side conditions) -/

/-- In the current tree: `Build` defaults are at most /24 and /56, floors
default to at most the ceilings, out-of-range values and unparsable networks
are rejected (incl. every entry of the fixed table of non-CIDR strings — blank,
whitespace-only, padded, CIDR plus garbage, bare address — alone and next to
valid entries), a disabled block yields no policy, the shipped configuration has
forwarding off with a 5-minute (or shorter, non-zero) scoped TTL cap, and the
subnet option code is 8. -/
theorem tree_facts :
    SdnsVerif.Gen.C19.default_forward_v4 ≤ 24 ∧ SdnsVerif.Gen.C19.default_forward_v6 ≤ 56 ∧
    SdnsVerif.Gen.C19.default_min_scope_v4 ≤ SdnsVerif.Gen.C19.default_forward_v4 ∧
    SdnsVerif.Gen.C19.default_min_scope_v6 ≤ SdnsVerif.Gen.C19.default_forward_v6 ∧
    SdnsVerif.Gen.C19.max_accepted_forward_v4 ≤ 32 ∧ SdnsVerif.Gen.C19.max_accepted_forward_v6 ≤ 128 ∧
    SdnsVerif.Gen.C19.max_accepted_min_scope_v4 ≤ 32 ∧ SdnsVerif.Gen.C19.max_accepted_min_scope_v6 ≤ 128 ∧
    SdnsVerif.Gen.C19.bad_network_rejected = true ∧ SdnsVerif.Gen.C19.disabled_build_is_nil = true ∧
    (∀ b ∈ SdnsVerif.Gen.C19.bad_entry_table_rejected, b = true) ∧
    SdnsVerif.Gen.C19.bad_entry_table_rejected.length = SdnsVerif.Gen.C19.bad_entry_table.length ∧
    30 ≤ SdnsVerif.Gen.C19.bad_entry_table.length ∧
    SdnsVerif.Gen.C19.zero_config_cache_policy_nil = true ∧ SdnsVerif.Gen.C19.zero_config_edns_policy_nil = true ∧
    SdnsVerif.Gen.C19.shipped_enabled = false ∧
    SdnsVerif.Gen.C19.shipped_forward_v4 ≤ 24 ∧ SdnsVerif.Gen.C19.shipped_forward_v6 ≤ 56 ∧
    0 < SdnsVerif.Gen.C19.shipped_cache_limit_ttl_s ∧ SdnsVerif.Gen.C19.shipped_cache_limit_ttl_s ≤ 300 ∧
    SdnsVerif.Gen.C19.code_subnet = 8 ∧
    SdnsVerif.Gen.C19.min_cache_ttl_s = 5 ∧ SdnsVerif.Gen.C19.max_cache_ttl_s = 86400 := by
  decide

/-! ## non-vacuity -/

def demoPol : Policy := { enabled := true, fwd4 := 19, fwd6 := 56, nets := [⟨.v4, 0x0a000000, 8⟩], min4 := 19, min6 := 56 }

-- a /27 from an allowed client is forwarded as /19 with the host bits cleared, the cookie is gone
example : setEdns0 (some demoPol) (some ⟨.v4, 0x0a010203⟩)
    [.other 10 "0011223344556677", .ecs ⟨1, 27, 0, some [10, 1, 0xff, 0xff]⟩, .other 12 "5"] =
    [.ecs ⟨1, 19, 0, some [10, 1, 0xe0, 0]⟩] := by decide
-- the same options from a client outside 10/8: nothing at all leaves
example : setEdns0 (some demoPol) (some ⟨.v4, 0x0b010203⟩)
    [.other 10 "0011223344556677", .ecs ⟨1, 27, 0, some [10, 1, 0xff, 0xff]⟩] = [] := by decide
example : clamp (some demoPol) ⟨1, 27, 0, some [10, 1, 0xff, 0xff]⟩ = some ⟨.v4, 19, 0x0a01e000⟩ := by decide
example : requestScope (some demoPol) (some ⟨.v4, 0x0a010203⟩) (some [.ecs (Fwd.mk .v4 19 0x0a01e000).toSubnet]) =
    some ⟨.v4, 0x0a01e000, 19⟩ := by decide
-- resolver mode: forwarded /19, authority echoes it with SCOPE 24 → the cache reads 10.1.224.0/24; no option → global
example : readResponseScope (resolverHandUp (some [.ecs (Fwd.mk .v4 19 0x0a01e000).toSubnet])
    (some [.ecs ⟨1, 19, 24, some [10, 1, 0xe0, 0]⟩])) = some ⟨.v4, 0x0a01e000, 24⟩ := by decide
example : readResponseScope (resolverHandUp (some [.ecs (Fwd.mk .v4 19 0x0a01e000).toSubnet]) (some [])) = none := by decide
example : readResponseScope (forwarderHandUp (some [.other 10 "aabb", .ecs ⟨1, 24, 24, some [203, 0, 113, 0]⟩])) = some ⟨.v4, 0xcb007100, 24⟩ := by decide
example : ednsPolicy (loadedEcs true 40 0 0 0 []) = none := by decide
example : lookupKey 7 false [.ecs (Fwd.mk .v4 24 0x0a010200).toSubnet] ≠ lookupKey 7 false [.ecs (Fwd.mk .v4 24 0xc6336400).toSubnet] := by decide
example : requestScope (some demoPol) (some ⟨.v4, 0x0a010203⟩) (some [.ecs (Fwd.mk .v6 56 0x20010db8000a00000000000000000000).toSubnet]) =
    some ⟨.v6, 0x20010db8000a00000000000000000000, 56⟩ := by decide
-- a client reply never keeps the forwarded copy nor the upstream's own
example : replyOptions false (some [.ecs ⟨1, 19, 19, some [10, 1, 0xe0, 0]⟩, .other 11 "up"])
    [.ecs ⟨1, 19, 0, some [10, 1, 0xe0, 0]⟩] [.other 10 "srv"] true = some [.other 10 "srv", .other 11 "srv"] := by decide
-- refresh of a shared entry queued by an allowed client's hit: its /19 does not go upstream again
example : refreshForwarded (some { demoPol with nets := [] }) [.ecs ⟨1, 19, 0, some [10, 1, 0xe0, 0]⟩] = [] := by decide
-- a wire client sends /19 with only three address bytes, host bits set in the last: 10.1.255 → 10.1.224.0/19
example : decodeWireSubnet ⟨1, 19, 0, some [10, 1, 255]⟩ =
    some ⟨1, 19, 0, some [0, 0, 0, 0, 0, 0, 0, 0, 0, 0, 255, 255, 10, 1, 255, 0]⟩ ∧
    clamp (some demoPol) ⟨1, 19, 0, some [0, 0, 0, 0, 0, 0, 0, 0, 0, 0, 255, 255, 10, 1, 255, 0]⟩ = some ⟨.v4, 19, 0x0a01e000⟩ := by decide
example : decodeWireSubnet ⟨1, 33, 0, some [10, 1, 255, 255]⟩ = none := by decide
example : clamp (some demoPol) ((decodeWireSubnet ⟨2, 61, 0, some [0x20, 1, 0xd, 0xb8, 0xff, 0xff, 0xff, 0xff]⟩).getD ⟨0, 0, 0, none⟩) =
    some ⟨.v6, 56, 0x20010db8ffffff000000000000000000⟩ := by decide
-- a 2 s limit: a scoped answer with TTL 300 lives 2 s, not the 5 s floor; unscoped TTL 1 is lifted to 5
example : storedTTL true 2 300 = 2 ∧ storedTTL false 2 1 = 5 ∧ storedTTL true 0 100000 = 86400 := by decide
-- cache size omitted and prefetch 95: the fallback keeps the 300 s scoped limit
example : cacheKnobs 0 95 300 = ⟨1024, 0, 300⟩ ∧ cacheKnobs 4096 5 300 = ⟨4096, 10, 300⟩ := by decide
-- two OPT records: the first one's cookie and /32 vanish
example : setEdns0 (some demoPol) (some ⟨.v4, 0x0a010203⟩)
    ((effectiveOpts [[.other 10 "0011223344556677", .ecs ⟨1, 32, 0, some [10, 1, 2, 3]⟩], [.other 3 "x"]]).getD []) = [] := by decide
-- `dig +subnet=0`: family 0, netmask 0 — never forwarded, always marks
example : ednsMarks (some [.ecs ⟨0, 0, 0, some [0, 0, 0, 0, 0, 0, 0, 0, 0, 0, 255, 255, 0, 0, 0, 0]⟩]) = true ∧
    setEdns0 (some { demoPol with nets := [] }) (some ⟨.v4, 0x0a010203⟩)
      [.ecs ⟨0, 0, 0, some [0, 0, 0, 0, 0, 0, 0, 0, 0, 0, 255, 255, 0, 0, 0, 0]⟩] = [] := by decide
example : rejectReplyAhead (some [.ecs ⟨1, 32, 0, some [203, 0, 113, 77]⟩]) = some [] ∧
    rejectReplyAhead (some [.other 10 "0102030405060708", .ecs ⟨1, 32, 0, some [203, 0, 113, 77]⟩]) = some [.other 10 "0102030405060708"] := by decide
example : badversReplyOptions (some demoPol) (some ⟨.v4, 0x0a010203⟩) [.ecs ⟨1, 27, 0, some [10, 1, 0xff, 0xff]⟩] = [] := by decide
-- scope /24 from the authority, /19 forwarded, floor /19: stored under /19
example : clampScope (some demoPol) ⟨.v4, 0x0a01e200, 24⟩ (some ⟨.v4, 0x0a01e000, 19⟩) = ⟨.v4, 0x0a01e000, 19⟩ := by decide
-- a scoped entry: found by a client in the /19, not by its neighbour, capped, not prefetched
def demoEntry : Entry := storeEntry (some demoPol) (some ⟨.v4, 0x0a01e000, 19⟩)
    (some [.ecs ⟨1, 19, 24, some [10, 1, 0xe2, 0]⟩]) 7 false 3600 300 42
def demoH : Hash := fun q cd sc => match sc with
  | none => q * 2 + cd.toNat
  | some p => 1000 + p.addr + p.bits
def demoStore : Nat → Option Entry := fun k => if k = demoH 7 false demoEntry.scope then some demoEntry else none
example : demoEntry.scope = some ⟨.v4, 0x0a01e000, 19⟩ ∧ demoEntry.ttl = 300 ∧ prefetchEligible demoEntry = false := by decide
example : serveLookup demoH demoStore 7 false (some ⟨.v4, 0x0a01e000, 19⟩) = some demoEntry := by decide
example : serveLookup demoH demoStore 7 false (some ⟨.v4, 0x0a01c000, 19⟩) = none := by decide
example : serveLookup demoH demoStore 7 false none = none := by decide
-- a history: scoped write-back, a refresh attempt on the scoped key (refused), a shared write-back, its refresh
def demoOps : List CacheOp :=
  [.answer (some ⟨.v4, 0x0a01e000, 19⟩) (some [.ecs ⟨1, 19, 24, some [10, 1, 0xe2, 0]⟩]) 7 false 3600 42 .nodata,
   .refresh (demoH 7 false (some ⟨.v4, 0x0a01e000, 19⟩)) 42 86400 43,
   .answer none none 7 false 3600 44 .success,
   .refresh (demoH 7 false none) 44 86400 45]
example : (runCache demoH (some demoPol) 300 demoOps).map (fun x => (x.2.ans, x.2.ttl, x.2.scope.isSome)) =
    [(45, 86400, false), (42, 300, true)] := by decide
example : serveLookup demoH (runCache demoH (some demoPol) 300 demoOps).get 7 false (some ⟨.v4, 0x0a01e000, 19⟩)
    = some ⟨7, false, some ⟨.v4, 0x0a01e000, 19⟩, 300, 42⟩ := by decide
-- the neighbour across the /19 boundary does not get X's entry; a host inside the same /19 does
example : serveLookup demoH demoStore 7 false (some ⟨.v4, 0x0a01f000, 20⟩) = some demoEntry ∧
    maskTo 32 19 0x0a01f000 = maskTo 32 19 0x0a01e000 := by decide
-- neighbours across the /24 boundary get flights of their own; two hosts of one /24 share; /0 folds into the unscoped key
example : dedupKey 7 false (some ⟨.v4, 0x0a010200, 24⟩) ≠ dedupKey 7 false (some ⟨.v4, 0x0a010300, 24⟩) ∧
    dedupKey 7 false (some ⟨.v4, 0x0a010200, 24⟩) = dedupKey 7 false (some ⟨.v4, 0x0a010200, 24⟩) ∧
    dedupKey 7 false (some ⟨.v4, 0, 0⟩) = dedupKey 7 false none := by decide
-- an ECS client whose option was stripped by policy still bypasses, two chases deep
example : consultsCut (descend (rootView true false false false) [(false, false, false), (false, false, false)]) = false := by decide
example : consultsCut (rootView false false false false) = true := by decide
example : admitsDenial (rootView false false false false) false = true := by decide
example : ednsPolicy (build true 24 56 33 0 []) = none ∧ cachePolicy (build true 24 56 0 129 []) = none := by decide
example : (build true 33 0 0 0 []).policy = none ∧ (build true 0 0 0 0 [some ⟨.v4, 0, 0⟩, none]).policy = none := by decide
example : (build true 0 0 0 0 []).policy = some ⟨true, 24, 56, [], 24, 56⟩ := by decide

end SdnsVerif.Props.C19
