import SdnsVerif.Model.DnssecPrim
import SdnsVerif.Lemmas.DnssecPrim
import SdnsVerif.Gen.C14
/-!
# C14 — in-house DNSSEC primitives agree with an independent reference

Property theorems only (helper lemmas live in `Lemmas/DnssecPrim.lean`).
The base64 decoder, the hashes and crypto/rsa are parameters (`dec`,
`digest`, `std`): every theorem holds for an arbitrary one; where a fact
about encoding/base64 is needed it is a named hypothesis (`B64Laws`).
-/
namespace SdnsVerif.Props.C14
open SdnsVerif.Model.DnssecPrim SdnsVerif.Lemmas.DnssecPrim

/-! ## key tag -/

/-- **Streaming = RFC 4034 Appendix B.** For every split of the key material
into chunks whose lengths are even (the last one may be odd), the `uint32`
accumulation chunk by chunk, started from the header sum and folded at the
end, is the Appendix B checksum of the whole RDATA — for every length, wrap
of the 32-bit accumulator included. -/
theorem keytag_chunked_eq_rfc (flags proto alg : Nat) (chunks : List Bytes)
    (hf : flags < 65536) (hp : proto < 256) (ha : alg < 256) (heven : EvenButLast chunks) :
    finish (streamSum (hdrSum flags proto alg) chunks) = rfcKeyTag (keyRdata flags proto alg chunks.flatten) := by
  rw [finish_eq_rfcFold]
  unfold rfcKeyTag
  apply rfcFold_mod
  rw [streamSum_mod, flatten_even _ heven, hdrSum_eq _ _ _ hf hp ha]
  have : keyRdata flags proto alg chunks.flatten = keyRdata flags proto alg [] ++ chunks.flatten := by
    simp [keyRdata]
  rw [this, rfcAcc_append]
  congr 2
  exact rfcAcc_parity _ _ _ (by simp [keyRdata])

/-- Hence the result does not depend on where the chunk boundaries fall. -/
theorem keytag_chunking_independent (flags proto alg : Nat) (c₁ c₂ : List Bytes)
    (hf : flags < 65536) (hp : proto < 256) (ha : alg < 256)
    (h₁ : EvenButLast c₁) (h₂ : EvenButLast c₂) (hflat : c₁.flatten = c₂.flatten) :
    finish (streamSum (hdrSum flags proto alg) c₁) = finish (streamSum (hdrSum flags proto alg) c₂) := by
  rw [keytag_chunked_eq_rfc _ _ _ _ hf hp ha h₁, keytag_chunked_eq_rfc _ _ _ _ hf hp ha h₂, hflat]

example : finish (streamSum (hdrSum 257 3 8) [[1, 2, 3, 4], [5, 6], [7]]) =
    rfcKeyTag (keyRdata 257 3 8 [1, 2, 3, 4, 5, 6, 7]) :=
  keytag_chunked_eq_rfc 257 3 8 _ (by decide) (by decide) (by decide) (by intro c hc; simp [List.dropLast] at hc; rcases hc with rfl | rfl <;> rfl)

/-- **The code's loop.** Whenever `KeyTag`'s chunk loop does not hand the key
to the library, what it returns is the Appendix B checksum of the RDATA whose
key part is the concatenation of the chunk decodes — for any decoder, given
only that the decoded chunk size is even (a regenerated fact, below). -/
theorem keytag_loop_eq_rfc (dec : Bytes → Bytes × Bool) (chunk : Nat) (hchunk : chunk / 4 * 3 % 2 = 0)
    (flags proto alg : Nat) (hf : flags < 65536) (hp : proto < 256) (ha : alg < 256) (pk : Bytes) (s : Nat)
    (h : keyTagLoop dec chunk (pk.length + 1) pk (hdrSum flags proto alg) = some s) :
    finish s = rfcKeyTag (keyRdata flags proto alg (chunkPieces dec chunk (pk.length + 1) pk).flatten) := by
  obtain ⟨h1, h2⟩ := keyTagLoop_pieces dec chunk _ _ _ _ h
  rw [h1]
  apply keytag_chunked_eq_rfc _ _ _ _ hf hp ha
  intro c hc
  rw [h2 c hc]; exact hchunk

/-- Facts about encoding/base64 that the agreement with the library's own
tag rests on; exercised by the `b64 dec` / `kt tag` correspondence ops. -/
structure B64Laws (dec : Bytes → Bytes × Bool) (chunk : Nat) : Prop where
  /-- when no chunk was handed to the library, one decode of the whole text
  succeeds and yields the concatenation of the chunk decodes -/
  chunks_agree : ∀ pk sum s, keyTagLoop dec chunk (pk.length + 1) pk sum = some s →
    dec pk = ((chunkPieces dec chunk (pk.length + 1) pk).flatten, true)
  /-- a successful decode yields three octets per four non-CR/LF characters, less padding -/
  len_le : ∀ s, (dec s).2 = true → (dec s).1.length ≤ material s / 4 * 3
  len_ge : ∀ s, (dec s).2 = true → material s ≤ ((dec s).1.length + 2) / 3 * 4

/-- **`oversizedKeyMaterial` is exactly the count.** True iff the text holds
more than `limit` characters other than CR/LF (the early exits change
nothing). -/
theorem oversized_iff (limit : Nat) (pk : Bytes) : oversized limit pk = true ↔ limit < material pk := by
  unfold oversized
  by_cases h1 : pk.length ≤ limit
  · have := material_le_length pk
    simp [h1]; omega
  · simp only [h1, if_false]
    by_cases h2 : (pk.take (limit + 1)).any isNL = true
    · simp only [h2, Bool.not_true, Bool.false_eq_true, if_false]
      rw [walk_iff limit pk 0 (by omega)]; omega
    · have h2' : (pk.take (limit + 1)).any isNL = false := by simpa using h2
      simp only [h2', Bool.not_false, if_true, true_iff]
      have := material_of_no_nl _ h2'
      have := material_take_le (limit + 1) pk
      have : (pk.take (limit + 1)).length = limit + 1 := by rw [List.length_take]; omega
      omega

example : oversized 4 [65, 10, 65, 13, 65, 65, 10, 65] = true := (oversized_iff _ _).mpr (by decide)
example : oversized 4 [65, 10, 65, 13, 65, 65, 10, 10] = false := by
  have := oversized_iff 4 [65, 10, 65, 13, 65, 65, 10, 10]
  cases h : oversized 4 [65, 10, 65, 13, 65, 65, 10, 10] with
  | false => rfl
  | true => exact absurd (this.mp h) (by decide)

/-- **Agreement with the library (all algorithms but RSAMD5).** Whatever the
library answers (`t`), `KeyTag` answers the same: on fallback by
construction, on an oversized key because the library cannot pack it either,
otherwise by `keytag_loop_eq_rfc`. -/
theorem keytag_agrees_with_library (dec : Bytes → Bytes × Bool) (chunk : Nat) (laws : B64Laws dec chunk)
    (hchunk : chunk / 4 * 3 % 2 = 0) (flags proto alg : Nat) (hf : flags < 65536) (hp : proto < 256) (ha : alg < 256)
    (halg : alg ≠ 1) (pk : Bytes) (t : Nat) (hlib : libKeyTag dec flags proto alg pk = some t) :
    keyTag dec chunk 5456 t flags proto alg pk = t := by
  unfold keyTag
  unfold libKeyTag at hlib
  simp only [halg, if_false] at hlib ⊢
  by_cases hov : oversized 5456 pk = true
  · simp only [hov, if_true]
    have hm := (oversized_iff _ _).mp hov
    by_cases hok : (dec pk).2 = true
    · have := laws.len_ge pk hok
      have hbig : 4 + (dec pk).1.length > 4096 := by omega
      simp [hok, hbig] at hlib
      exact hlib
    · simp [hok] at hlib; exact hlib
  · simp only [hov, Bool.false_eq_true, if_false]
    cases hloop : keyTagLoop dec chunk (pk.length + 1) pk (hdrSum flags proto alg) with
    | none => rfl
    | some s =>
      simp only
      have hdec := laws.chunks_agree pk _ _ hloop
      have hm : material pk ≤ 5456 := by
        have := oversized_iff 5456 pk
        have hov' : ¬ 5456 < material pk := fun h => hov (this.mpr h)
        omega
      have hlen := laws.len_le pk (by rw [hdec])
      have hsmall : ¬ 4 + (dec pk).1.length > 4096 := by omega
      rw [keytag_loop_eq_rfc dec chunk hchunk _ _ _ hf hp ha pk s hloop]
      have h2 : (dec pk).2 = true := by rw [hdec]
      simp only [h2, Bool.not_true, Bool.false_eq_true, if_false, hsmall, Option.some.injEq] at hlib
      rw [← hlib, hdec]

/-- **The base64 facts hold for the decoder model.** For `b64Decode` — the
executable model of `encoding/base64` that every run compares with the real
decoder op by op (`b64 dec`) — the three `B64Laws` are theorems: a successful
decode yields three octets per four non-CR/LF characters less padding, and
whenever the chunk loop of `KeyTag` did not fall back, one decode of the whole
text succeeds and equals the concatenated chunk decodes (a chunk that decodes
to its full size holds nothing but alphabet characters, so group boundaries
are preserved). -/
theorem b64_laws_hold (chunk : Nat) (h4 : chunk % 4 = 0) (hpos : 0 < chunk) : B64Laws b64Decode chunk where
  chunks_agree := fun pk sum s h => chunks_agree_b64 chunk h4 hpos (pk.length + 1) pk sum s (by omega) h
  len_le := b64_len_le
  len_ge := b64_len_ge

/-- **`KeyTag` = the library's tag, no base64 hypothesis left** (all
algorithms but RSAMD5): with the tree's chunk size and the model decoder,
whatever `DNSKEY.KeyTag` answers `KeyTag` answers. -/
theorem keytag_agrees_with_library_b64 (flags proto alg : Nat) (hf : flags < 65536) (hp : proto < 256) (ha : alg < 256)
    (halg : alg ≠ 1) (pk : Bytes) (t : Nat) (hlib : libKeyTag b64Decode flags proto alg pk = some t) :
    keyTag b64Decode SdnsVerif.Gen.C14.key_tag_chunk 5456 t flags proto alg pk = t :=
  keytag_agrees_with_library b64Decode _ (b64_laws_hold _ (by decide) (by decide)) (by decide) flags proto alg hf hp ha halg pk t hlib

example : keyTag b64Decode 256 5456 0 257 3 8 [65, 81, 73, 68] = rfcKeyTag (keyRdata 257 3 8 [1, 2, 3]) := by decide

/-- **RSAMD5 tag, by definition and total.** `rsamd5KeyTag` is the two octets
below the last one of the octets it decoded (RFC 4034 App. B.1, erratum 193)
and zero when there are fewer than three — in particular on the two-octet
moduli on which the library indexes below the slice. -/
theorem rsamd5_tag_def (dec : Bytes → Bytes × Bool) (chunk : Nat) (pk : Bytes) :
    rsamd5KeyTag dec chunk pk =
      (let m := rsamd5Fed dec chunk (pk.length + 1) pk
       if m.length < 3 then 0 else (m.getD (m.length - 3) 0).toNat * 256 + (m.getD (m.length - 2) 0).toNat) := by
  unfold rsamd5KeyTag tagOfTail
  rw [rsamd5Loop_eq_fed]
  simp only
  generalize rsamd5Fed dec chunk (pk.length + 1) pk = m
  have hseen := foldl_push_seen m {} (by decide)
  by_cases hm : m.length < 3
  · have : (List.foldl Tail.push {} m).seen < 3 := by rw [hseen]; simp; omega
    simp [this, hm]
  · have : ¬ (List.foldl Tail.push {} m).seen < 3 := by rw [hseen]; simp; omega
    simp only [this, hm, if_false]
    obtain ⟨init, a, b, c, hl, ha, hb⟩ := last3 m (by omega)
    rw [ha, hb]
    have := foldl_push_last3 init a b c {}
    rw [← hl] at this
    rw [this.1, this.2]

/-- fewer than three decoded octets: tag 0, never a panic. -/
theorem rsamd5_short_is_zero (dec : Bytes → Bytes × Bool) (chunk : Nat) (pk : Bytes)
    (h : (rsamd5Fed dec chunk (pk.length + 1) pk).length < 3) : rsamd5KeyTag dec chunk pk = 0 := by
  rw [rsamd5_tag_def]; simp [h]

/-- and where the library has an answer (`some t`) it is the same one, given
that the chunked read saw the octets one decode yields. -/
theorem rsamd5_agrees_with_library (dec : Bytes → Bytes × Bool) (chunk : Nat) (flags proto : Nat) (pk : Bytes) (t : Nat)
    (hfed : rsamd5Fed dec chunk (pk.length + 1) pk = (dec pk).1)
    (hlib : libKeyTag dec flags proto 1 pk = some t) : keyTag dec chunk 5456 t flags proto 1 pk = t := by
  unfold keyTag
  simp only [if_true]
  rw [rsamd5_tag_def, hfed]
  unfold libKeyTag at hlib
  simp only [if_true] at hlib
  by_cases h1 : (dec pk).1.length > 1
  · simp only [h1, if_true] at hlib
    by_cases h3 : (dec pk).1.length < 3
    · simp [h3] at hlib
    · simp only [h3, if_false, Option.some.injEq] at hlib ⊢
      exact hlib
  · simp only [h1, if_false, Option.some.injEq] at hlib
    have : (dec pk).1.length < 3 := by omega
    simp [this, hlib]

/-- **The decoder model agrees with RFC 4648 on canonical input**: decoding the
RFC 4648 §4 encoding of any octet string gives that string back, without
error — for every length, padding case included. (The encoder `b64Encode` is
the RFC's definition; the run also compares it with `encoding/base64` on the
`b64 enc` op.) -/
theorem b64_decode_inverts_rfc4648 (b : Bytes) : b64Decode (b64Encode b) = (b, true) :=
  b64Decode_encode b.length b (Nat.le_refl _)

example : b64Encode [1, 2, 3, 4] = [65, 81, 73, 68, 66, 65, 61, 61] := by decide
example : b64Decode (b64Encode [255, 0, 17, 42, 7]) = ([255, 0, 17, 42, 7], true) := b64_decode_inverts_rfc4648 _

/-- **RSAMD5 tag = the library's, no hypothesis left.** For every key text —
wrapped with CR / LF anywhere, padded, malformed at any point —
`rsamd5KeyTag`'s CR/LF-skipping chunked read sees exactly the octets one decode
of the whole text yields (`rsamd5Fed_eq_decode`: the decoder model ignores line
breaks wherever they stand, a chunk that decodes to its full size is clean
groups, and a chunk that does not ends the decode the same way whatever
follows), so wherever the library has an answer `KeyTag` gives the same. -/
theorem rsamd5_agrees_with_library_b64 (flags proto : Nat) (pk : Bytes) (t : Nat)
    (hlib : libKeyTag b64Decode flags proto 1 pk = some t) :
    keyTag b64Decode SdnsVerif.Gen.C14.key_tag_chunk 5456 t flags proto 1 pk = t :=
  rsamd5_agrees_with_library b64Decode _ flags proto pk t
    (rsamd5Fed_eq_decode _ (by decide) (by decide) (pk.length + 1) pk (by omega)) hlib

/-- **`KeyTag` = `DNSKEY.KeyTag` for every algorithm number and every key text
the library answers for** (decoder model, tree's chunk size, documented ceiling). -/
theorem keytag_equals_library (flags proto alg : Nat) (hf : flags < 65536) (hp : proto < 256) (ha : alg < 256)
    (pk : Bytes) (t : Nat) (hlib : libKeyTag b64Decode flags proto alg pk = some t) :
    keyTag b64Decode SdnsVerif.Gen.C14.key_tag_chunk 5456 t flags proto alg pk = t := by
  by_cases h1 : alg = 1
  · subst h1; exact rsamd5_agrees_with_library_b64 flags proto pk t hlib
  · exact keytag_agrees_with_library_b64 flags proto alg hf hp ha h1 pk t hlib

example : keyTag b64Decode 256 5456 (0x0203) 257 3 1 [65, 81, 73, 68, 66, 65, 61, 61] = 0x0203 := by decide

/-- **End to end for a canonically encoded key**: for every algorithm but
RSAMD5 and key material of at most 4092 octets, `KeyTag` of the DNSKEY whose
PublicKey text is the RFC 4648 encoding of the material is the RFC 4034
Appendix B checksum of the RDATA — no decoder hypothesis, no library in between. -/
theorem keytag_of_encoded_key_is_rfc4034 (flags proto alg : Nat) (hf : flags < 65536) (hp : proto < 256) (ha : alg < 256)
    (halg : alg ≠ 1) (key : Bytes) (hlen : key.length ≤ 4092) :
    keyTag b64Decode SdnsVerif.Gen.C14.key_tag_chunk 5456 (rfcKeyTag (keyRdata flags proto alg key)) flags proto alg (b64Encode key)
      = rfcKeyTag (keyRdata flags proto alg key) := by
  apply keytag_equals_library flags proto alg hf hp ha
  unfold libKeyTag
  have hbig : ¬ 4 + key.length > 4096 := by omega
  simp [halg, b64_decode_inverts_rfc4648, hbig]

-- a wrapped RSAMD5 text ("AQID" LF "BA==" = 01 02 03 04): the tag is octets len-3, len-2
example : keyTag b64Decode 256 5456 (0x0203) 257 3 1 [65, 81, 73, 68, 10, 66, 65, 61, 61] = 0x0203 := by decide
example : rsamd5KeyTag (fun s => (s, true)) 4 [1, 2, 10, 3, 4, 5, 6, 7] = 5 * 256 + 6 := by decide
example : rsamd5KeyTag (fun s => (s, true)) 4 [1, 10, 2] = 0 := by decide

/-! ## DS digest -/

/-- **Only the supported digest types, full length, bounded key.** A match
means: type 1, 2 or 4 with a digest of exactly that hash's size, key
material within the ceiling (by count and after decoding), a decodable
non-empty key, an owner that packs, and equality with the RFC 4034 §5.1.4
digest. Every other digest type never matches. -/
theorem ds_digest_types (dec : Bytes → Bytes × Bool) (digest : Nat → Bytes → Bytes) (limit maxMat : Nat)
    (ow : Option Bytes) (flags proto alg : Nat) (pk : Bytes) (dt : Nat) (want : Bytes)
    (h : dsDigestMatches dec digest limit maxMat ow flags proto alg pk dt want = true) :
    ((dt = 1 ∧ want.length = 20) ∨ (dt = 2 ∧ want.length = 32) ∨ (dt = 4 ∧ want.length = 48)) ∧
      material pk ≤ limit ∧ (dec pk).2 = true ∧ (dec pk).1 ≠ [] ∧ (dec pk).1.length ≤ maxMat ∧
      ∃ o, ow = some o ∧
        digest dt (o ++ [UInt8.ofNat (flags / 256), UInt8.ofNat (flags % 256), UInt8.ofNat proto, UInt8.ofNat alg] ++ (dec pk).1) = want := by
  unfold dsDigestMatches at h
  split at h
  · cases h
  · cases hsz : dsHashSize dt with
    | none => simp [hsz] at h
    | some sz =>
      simp only [hsz] at h
      split at h
      · cases h
      · rename_i hlen
        split at h
        · cases h
        · rename_i hov
          split at h
          · cases h
          · rename_i hdec
            cases ow with
            | none => simp at h
            | some o =>
              simp only [beq_iff_eq] at h
              simp only [bne_iff_ne, ne_eq, Decidable.not_not] at hlen
              simp only [Bool.or_eq_true, Bool.not_eq_true', List.isEmpty_iff, decide_eq_true_eq, not_or,
                Bool.not_eq_false, Nat.not_lt] at hdec
              refine ⟨?_, ?_, hdec.1.1, hdec.1.2, by omega, o, rfl, h⟩
              · unfold dsHashSize at hsz
                split at hsz <;> simp_all
              · have := oversized_iff limit pk
                have hov' : ¬ limit < material pk := fun hh => hov (this.mpr hh)
                omega

/-- digest types other than 1, 2, 4 never match, whatever is presented. -/
theorem ds_other_types_never_match (dec : Bytes → Bytes × Bool) (digest : Nat → Bytes → Bytes) (limit maxMat : Nat)
    (ow : Option Bytes) (flags proto alg : Nat) (pk : Bytes) (dt : Nat) (want : Bytes)
    (hdt : dt ≠ 1 ∧ dt ≠ 2 ∧ dt ≠ 4) :
    dsDigestMatches dec digest limit maxMat ow flags proto alg pk dt want = false := by
  cases h : dsDigestMatches dec digest limit maxMat ow flags proto alg pk dt want with
  | false => rfl
  | true => have := (ds_digest_types _ _ _ _ _ _ _ _ _ _ _ h).1; omega

example : dsDigestMatches (fun s => (s, true)) (fun _ d => d.take 20) 8 6 (some [0]) 257 3 8 [9, 9] 1
    [0, 1, 1, 3, 8, 9, 9, 0, 0, 0, 0, 0, 0, 0, 0, 0, 0, 0, 0, 0] = false := by decide
example : dsDigestMatches (fun s => (s, true)) (fun _ _ => List.replicate 20 7) 8 6 (some [0]) 257 3 8 [9, 9] 1
    (List.replicate 20 7) = true := by decide

/-! ## VerifyDS: bogus versus unsupported-only -/

/-- **A DS set is accepted exactly when some supported DS authenticates an
offered key**: supported digest type and algorithm, a digest field that
hex-decodes to at least one octet, and a usable candidate key (tag,
algorithm, class, owner, protocol 3, zone flag, not oversized) that
`dsDigestMatches` under it. -/
theorem verifyds_ok_iff (sup : DSRec → Bool) (dmatch : DKey → Nat → Bytes → Bool) (limit : Nat) (keys : List DKey)
    (dss : List DSRec) :
    (verifyDS sup dmatch limit keys dss).2 = true ↔ ∃ d ∈ dss, dsAuthenticates sup dmatch limit keys d = true := by
  unfold verifyDS
  have h := (foldl_verifyDS sup dmatch limit keys dss {} rfl).1
  simp only
  by_cases hm : (dss.foldl (verifyDSStep sup dmatch limit keys) {}).matched = true
  · simp only [hm, if_true, true_iff]; exact h.mp hm
  · simp only [hm, Bool.false_eq_true, if_false]
    have : ¬ ∃ d ∈ dss, dsAuthenticates sup dmatch limit keys d = true := fun hx => hm (h.mpr hx)
    split <;> (try split) <;> simp [this]

/-- **"Unsupported only" means exactly that.** `VerifyDS` reports
`unsupportedOnly = true` (which the resolver turns into an insecure,
unvalidated zone) iff the set is non-empty and holds *no* DS of a supported
digest type and algorithm. A supported DS that authenticates nothing — no
such key, an empty / odd-length / non-hex digest, a mismatching digest —
makes the set bogus, never insecure. -/
theorem verifyds_unsupported_only_iff (sup : DSRec → Bool) (dmatch : DKey → Nat → Bytes → Bool) (limit : Nat)
    (keys : List DKey) (dss : List DSRec) :
    (verifyDS sup dmatch limit keys dss).1 = true ↔ dss ≠ [] ∧ ∀ d ∈ dss, sup d = false := by
  unfold verifyDS
  have h := foldl_verifyDS sup dmatch limit keys dss {} rfl
  simp only
  by_cases hm : (dss.foldl (verifyDSStep sup dmatch limit keys) {}).matched = true
  · simp only [hm, if_true, Bool.false_eq_true, false_iff, not_and]
    intro _ hall
    obtain ⟨d, hd, ha⟩ := h.1.mp hm
    unfold dsAuthenticates at ha
    rw [hall d hd] at ha
    simp at ha
  · have hm' : (dss.foldl (verifyDSStep sup dmatch limit keys) {}).matched = false := by simpa using hm
    have hcount := h.2 hm'
    simp only [hm, Bool.false_eq_true, if_false]
    by_cases he : dss = []
    · simp [he]
    · have he' : dss.isEmpty = false := by simpa using he
      simp only [he', Bool.false_eq_true, if_false]
      rw [hcount]
      have hz : (0 + (dss.filter sup).length = 0) ↔ ∀ d ∈ dss, sup d = false := by
        simp only [Nat.zero_add, List.length_eq_zero_iff, List.filter_eq_nil_iff]
        constructor
        · intro hx d hd; simpa using hx d hd
        · intro hx d hd; simp [hx d hd]
      by_cases hs : (0 + (dss.filter sup).length = 0)
      · have hs0 : (({} : DSState).supported + (dss.filter sup).length = 0) := hs
        simp only [hs0, if_true, true_iff]; exact ⟨he, hz.mp hs⟩
      · have hs0 : ¬ (({} : DSState).supported + (dss.filter sup).length = 0) := hs
        simp only [hs0, if_false, Bool.false_eq_true, false_iff, not_and]
        intro _ hall; exact hs (hz.mpr hall)

/-- in particular one supported DS in the set is enough to rule out "insecure". -/
theorem verifyds_supported_never_insecure (sup : DSRec → Bool) (dmatch : DKey → Nat → Bytes → Bool) (limit : Nat)
    (keys : List DKey) (dss : List DSRec) (d : DSRec) (hd : d ∈ dss) (hs : sup d = true) :
    (verifyDS sup dmatch limit keys dss).1 = false := by
  cases h : (verifyDS sup dmatch limit keys dss).1 with
  | false => rfl
  | true =>
    have := ((verifyds_unsupported_only_iff sup dmatch limit keys dss).mp h).2 d hd
    rw [hs] at this; cases this

-- a supported DS whose digest field is empty next to an unsupported one: bogus, not insecure
example : verifyDS (fun d => d.dt == 2) (fun _ _ _ => true) 100 [⟨257, 3, 13, 1, [46], [65], 7⟩]
    [⟨[46], 1, 7, 13, 3, [97, 98]⟩, ⟨[46], 1, 7, 13, 2, []⟩] = (false, false) := by decide
example : verifyDS (fun d => d.dt == 2) (fun _ _ _ => true) 100 [⟨257, 3, 13, 1, [46], [65], 7⟩]
    [⟨[46], 1, 7, 13, 3, [97, 98]⟩] = (true, false) := by decide
example : verifyDS (fun d => d.dt == 2) (fun _ _ _ => true) 100 [⟨257, 3, 13, 1, [46], [65], 7⟩]
    [⟨[46], 1, 7, 13, 2, [97, 98]⟩] = (false, true) := by decide

/-- **Anchored keys are authenticated zone keys.** A key
`VerifyDSAnchoredWithWork` returns is an offered key for which some DS of a
supported digest type and algorithm names it — same key tag, **same
algorithm**, class and owner, protocol 3, zone flag, not oversized — and
`dsDigestMatches` under that DS's decodable digest; and the set is accepted
exactly when at least one key is anchored. -/
theorem anchored_key_iff (sup : DSRec → Bool) (dmatch : DKey → Nat → Bytes → Bool) (limit : Nat) (keys : List DKey)
    (dss : List DSRec) (k : DKey) :
    k ∈ anchoredKeys sup dmatch limit keys dss ↔
      k ∈ keys ∧ ∃ d ∈ dss, sup d = true ∧ ∃ want, hexDecode d.digest = some want ∧ want ≠ [] ∧
        usableDSCandidate limit d k = true ∧ dmatch k d.dt want = true := by
  unfold anchoredKeys
  rw [List.mem_filter, List.any_eq_true]
  constructor
  · rintro ⟨hk, d, hd, h⟩
    refine ⟨hk, d, hd, ?_⟩
    cases hx : hexDecode d.digest with
    | none => simp [hx] at h
    | some want =>
      simp only [hx, Bool.and_eq_true, Bool.not_eq_true', List.isEmpty_eq_false_iff] at h
      exact ⟨h.1, want, rfl, h.2.1.1, h.2.1.2, h.2.2⟩
  · rintro ⟨hk, d, hd, hs, want, hx, hne, hu, hm⟩
    refine ⟨hk, d, hd, ?_⟩
    simp [hx, hs, hne, hu, hm]

theorem verifyds_ok_iff_anchored (sup : DSRec → Bool) (dmatch : DKey → Nat → Bytes → Bool) (limit : Nat)
    (keys : List DKey) (dss : List DSRec) :
    (verifyDS sup dmatch limit keys dss).2 = true ↔ anchoredKeys sup dmatch limit keys dss ≠ [] := by
  rw [verifyds_ok_iff]
  constructor
  · rintro ⟨d, hd, ha⟩
    unfold dsAuthenticates at ha
    simp only [Bool.and_eq_true] at ha
    cases hx : hexDecode d.digest with
    | none => simp [hx] at ha
    | some want =>
      simp only [hx, Bool.and_eq_true, Bool.not_eq_true', List.isEmpty_eq_false_iff, List.any_eq_true, List.mem_filter] at ha
      obtain ⟨hs, hne, k, ⟨hk, hu⟩, hm⟩ := ha
      have : k ∈ anchoredKeys sup dmatch limit keys dss :=
        (anchored_key_iff sup dmatch limit keys dss k).mpr ⟨hk, d, hd, hs, want, hx, hne, hu, hm⟩
      intro hnil; rw [hnil] at this; cases this
  · intro hne
    cases ha : anchoredKeys sup dmatch limit keys dss with
    | nil => exact absurd ha hne
    | cons k _ =>
      have hk : k ∈ anchoredKeys sup dmatch limit keys dss := by rw [ha]; simp
      obtain ⟨hk', d, hd, hs, want, hx, hwne, hu, hm⟩ := (anchored_key_iff sup dmatch limit keys dss k).mp hk
      refine ⟨d, hd, ?_⟩
      unfold dsAuthenticates
      simp only [hs, hx, Bool.true_and, Bool.and_eq_true, Bool.not_eq_true', List.isEmpty_eq_false_iff, List.any_eq_true,
        List.mem_filter]
      exact ⟨hwne, k, ⟨hk', hu⟩, hm⟩

/-- the algorithm a DS names is compared with the key's own. -/
theorem ds_candidate_same_algorithm (limit : Nat) (d : DSRec) (k : DKey) (h : usableDSCandidate limit d k = true) :
    k.alg = d.alg ∧ k.tag = d.keyTag ∧ k.cls = d.cls ∧ k.proto = 3 ∧ k.flags / 256 % 2 = 1 := by
  unfold usableDSCandidate at h
  simp only [Bool.and_eq_true, beq_iff_eq] at h
  exact ⟨h.1.1.1.1.2, h.1.1.1.1.1.2, h.1.1.1.2, h.1.2, h.2⟩

-- a DS naming algorithm 8 does not anchor an algorithm-13 key with the right digest
example : anchoredKeys (fun _ => true) (fun _ _ _ => true) 100 [⟨257, 3, 13, 1, [46], [65], 7⟩]
    [⟨[46], 1, 7, 8, 2, [97, 98]⟩] = [] := by decide
example : anchoredKeys (fun _ => true) (fun _ _ _ => true) 100 [⟨257, 3, 13, 1, [46], [65], 7⟩]
    [⟨[46], 1, 7, 13, 2, [97, 98]⟩] = [⟨257, 3, 13, 1, [46], [65], 7⟩] := by decide

/-! ## RSA -/

/-- **The raw verifier accepts exactly the mathematically valid signatures**:
for all `n, e`, prefix, hash and signature octets,
`ok ⇔ |sig| = k ∧ sig < n ∧ sig^e mod n = EM(prefix, hash, k)` with
`k = ⌈bits(n)/8⌉` (and `EM` exists only when `k ≥ |T| + 11`). -/
theorem rsa_raw_iff_math (n e : Nat) (pfx hashed sig : Bytes) :
    rsaRaw n e pfx hashed sig = true ↔
      sig.length = (bitLen n + 7) / 8 ∧ natOfBytes sig < n ∧
      ∃ em, emBytes pfx hashed ((bitLen n + 7) / 8) = some em ∧ natOfBytes sig ^ e % n = natOfBytes em := by
  unfold rsaRaw
  simp only
  generalize hk : (bitLen n + 7) / 8 = k
  by_cases hl : sig.length = k
  · by_cases hc : natOfBytes sig ≥ n
    · simp [hl, hc]; intro h; omega
    · have hlt : natOfBytes sig < n := by omega
      have hm : powMod (natOfBytes sig) e n < 256 ^ k := by
        rw [powMod_eq]
        have h1 : natOfBytes sig ^ e % n < n := Nat.mod_lt _ (by omega)
        have h2 := lt_pow_size n
        rw [hk] at h2
        omega
      have hlen := bytesOfNat_length _ _ hm
      have hlen' : ¬ (bytesOfNat (powMod (natOfBytes sig) e n)).length > k := by omega
      simp only [hl, bne_self_eq_false, Bool.false_eq_true, if_false, hc, hlen', true_and, hlt]
      cases hem : emBytes pfx hashed k with
      | none => simp
      | some ex =>
        have hexl := emBytes_length _ _ _ _ hem
        simp only [beq_iff_eq, Option.some.injEq, exists_eq_left']
        constructor
        · intro h
          have := congrArg natOfBytes h
          rw [natOfBytes_leftPad, natOfBytes_bytesOfNat, powMod_eq] at this
          exact this
        · intro h
          apply natOfBytes_inj
          · rw [leftPad_length _ _ hlen, hexl]
          · rw [natOfBytes_leftPad, natOfBytes_bytesOfNat, powMod_eq]; exact h
  · simp [hl]

/-- a signature of the same residue that is not below the modulus is refused. -/
theorem rsa_raw_rejects_unreduced (n e : Nat) (pfx hashed sig : Bytes) (h : n ≤ natOfBytes sig) :
    rsaRaw n e pfx hashed sig = false := by
  cases hr : rsaRaw n e pfx hashed sig with
  | false => rfl
  | true => have := ((rsa_raw_iff_math _ _ _ _ _).mp hr).2.1; omega

-- n = 2^88+7 (12 octets), e = 1: the encoded message verifies, anything else does not
example : rsaRaw (2 ^ 88 + 7) 1 [] [5] [0, 1, 255, 255, 255, 255, 255, 255, 255, 255, 0, 5] = true := by
  rw [rsa_raw_iff_math]; decide
example : rsaRaw 3233 17 [] [5] [0x0c, 0x2f] = false := by
  cases h : rsaRaw 3233 17 [] [5] [0x0c, 0x2f] with
  | false => rfl
  | true =>
    obtain ⟨_, _, em, hem, _⟩ := (rsa_raw_iff_math _ _ _ _ _).mp h
    have hnone : emBytes [] [5] ((bitLen 3233 + 7) / 8) = none := by decide
    rw [hnone] at hem; cases hem

/-- **Accepted keys lie within the limits**, so the single modular
exponentiation is over at most `maxBits` bits with an exponent of at most
`maxExpBits` bits. -/
theorem usable_key_bounds (L : RSALimits) (n e : Nat) (hmin : 1 ≤ L.minBits) (h : usableRSAKey L n e = true) :
    2 ^ (L.minBits - 1) ≤ n ∧ n < 2 ^ L.maxBits ∧ e % 2 = 1 ∧ 3 ≤ e ∧ e < n ∧ e < 2 ^ L.maxExpBits := by
  unfold usableRSAKey at h
  split at h
  · cases h
  · rename_i h1
    split at h
    · cases h
    · rename_i h2
      simp only [Bool.or_eq_true, decide_eq_true_eq, not_or, Nat.not_lt] at h1 h2
      refine ⟨?_, ?_, by omega, by omega, by omega, ?_⟩
      · apply (le_bitLen_iff n (L.minBits - 1)).mp; omega
      · apply (bitLen_le_iff n L.maxBits).mp; omega
      · apply (bitLen_le_iff e L.maxExpBits).mp; omega

/-- the limits compiled into the current tree -/
def genLimits : RSALimits :=
  { minBits := SdnsVerif.Gen.C14.min_rsa_modulus_bits, maxBits := SdnsVerif.Gen.C14.max_rsa_modulus_bits,
    maxExpBits := SdnsVerif.Gen.C14.max_rsa_exponent_bits }

/-- **…and the tree's limits are inside the documented ones**: 1024 ≤ bits(n)
≤ 4096, e odd, 3 ≤ e < n, bits(e) ≤ 64 (regenerated facts, one-directional:
tightening a limit does not break this, loosening one does). -/
theorem usable_within_documented_limits (n e : Nat) (h : usableRSAKey genLimits n e = true) :
    2 ^ 1023 ≤ n ∧ n < 2 ^ 4096 ∧ e % 2 = 1 ∧ 3 ≤ e ∧ e < n ∧ e < 2 ^ 64 := by
  have hmin : 1024 ≤ genLimits.minBits := by decide
  have hmax : genLimits.maxBits ≤ 4096 := by decide
  have hexp : genLimits.maxExpBits ≤ 64 := by decide
  obtain ⟨h1, h2, h3, h4, h5, h6⟩ := usable_key_bounds genLimits n e (by omega) h
  refine ⟨Nat.le_trans (Nat.pow_le_pow_right (by omega) (by omega)) h1,
    Nat.lt_of_lt_of_le h2 (Nat.pow_le_pow_right (by omega) hmax), h3, h4, h5,
    Nat.lt_of_lt_of_le h6 (Nat.pow_le_pow_right (by omega) hexp)⟩

example : usableRSAKey ⟨4, 8, 3⟩ 143 7 = true := by decide
example : usableRSAKey ⟨4, 8, 3⟩ 7 3 = false := by decide

/-- **Leading zeros are rejected, lengths are honoured.** Whatever
`parseRSAPublicKey` accepts has its exponent length in the one-octet form or
in the zero-plus-two-octets form, a non-empty exponent and modulus inside the
buffer, and neither starts with a zero octet — so `e` and `n` need every
octet they occupy (`256^(len-1) ≤ value`). -/
theorem parse_rejects_leading_zero (kb : Bytes) (n e : Nat) (h : parseRSA kb = some (n, e)) :
    ∃ off explen,
      ((off = 1 ∧ kb.getD 0 0 ≠ 0 ∧ explen = (kb.getD 0 0).toNat) ∨
       (off = 3 ∧ kb.getD 0 0 = 0 ∧ explen = (kb.getD 1 0).toNat * 256 + (kb.getD 2 0).toNat)) ∧
      0 < explen ∧ off + explen < kb.length ∧
      kb.getD off 0 ≠ 0 ∧ kb.getD (off + explen) 0 ≠ 0 ∧
      e = natOfBytes ((kb.drop off).take explen) ∧ n = natOfBytes (kb.drop (off + explen)) :=
  parseRSA_some kb n e h

/-- **Round trip on well-formed keys** (one-octet length form): the RFC 3110
encoding of an exponent `e0 :: et` (at most 255 octets) and a modulus
`m0 :: mt` parses back to exactly those numbers, unless either starts with a
zero octet, in which case it is rejected. -/
theorem parse_roundtrip (e0 m0 : UInt8) (et mt : Bytes) (hl : et.length + 1 < 256) :
    parseRSA (encShort (e0 :: et) (m0 :: mt)) =
      if e0 = 0 ∨ m0 = 0 then none else some (natOfBytes (m0 :: mt), natOfBytes (e0 :: et)) :=
  parse_roundtrip_short e0 m0 et mt hl

/-- the three-octet length form (any exponent length below 65536). -/
theorem parse_roundtrip_long_form (e0 m0 : UInt8) (et mt : Bytes) (hl : et.length + 1 < 65536) :
    parseRSA (encLong (e0 :: et) (m0 :: mt)) =
      if e0 = 0 ∨ m0 = 0 then none else some (natOfBytes (m0 :: mt), natOfBytes (e0 :: et)) :=
  parse_roundtrip_long e0 m0 et mt hl

example : parseRSA [3, 1, 0, 1, 0xc3, 0x11] = some (0xc311, 65537) := by decide
example : parseRSA [4, 0, 1, 0, 1, 0xc3, 0x11] = none := by decide
example : parseRSA [0, 0, 3, 1, 0, 1, 0xc3] = some (0xc3, 65537) := by decide

/-- **`verifyRSASignature` accepts exactly**: the key decodes and parses, is
usable, the algorithm is an RSA one, and — for an exponent of at most 31
bits — crypto/rsa (`std`) accepts, or — for a wider exponent — the raw
verifier does (which by `rsa_raw_iff_math` is the mathematical condition). -/
theorem verify_rsa_ok_iff (std : Nat → Nat → Bytes → Bytes → Bytes → Bool) (dec : Bytes → Bytes × Bool) (L : RSALimits)
    (alg : Nat) (pk hashed sig : Bytes) :
    verifyRSA std dec L alg pk hashed sig = Verdict.ok ↔
      ∃ n e pfx, (dec pk).2 = true ∧ parseRSA (dec pk).1 = some (n, e) ∧ usableRSAKey L n e = true ∧
        rsaPrefix alg = some pfx ∧
        ((bitLen e ≤ 31 ∧ std n e pfx hashed sig = true) ∨ (31 < bitLen e ∧ rsaRaw n e pfx hashed sig = true)) := by
  unfold verifyRSA
  simp only
  by_cases hd : (dec pk).2 = true
  · by_cases hemp : (dec pk).1.isEmpty = true
    · have : (dec pk).1 = [] := by simpa using hemp
      simp [hd, this, parseRSA]
    · simp only [hd, hemp, Bool.not_true, Bool.or_self, Bool.false_eq_true, if_false]
      cases hp : parseRSA (dec pk).1 with
      | none => simp
      | some ne =>
        obtain ⟨n, e⟩ := ne
        simp only
        by_cases hu : usableRSAKey L n e = true
        · simp only [hu, Bool.not_true, Bool.false_eq_true, if_false]
          cases hpre : rsaPrefix alg with
          | none => simp
          | some pfx =>
            simp only
            by_cases hb : bitLen e ≤ 31
            · simp only [hb, if_true]
              by_cases hs : std n e pfx hashed sig = true
              · simp only [hs, if_true, true_iff]
                exact ⟨n, e, pfx, trivial, rfl, hu, rfl, Or.inl ⟨hb, hs⟩⟩
              · simp only [hs]
                constructor
                · intro h; cases h
                · rintro ⟨n', e', pfx', _, hne, _, hpf, hor⟩
                  simp only [Option.some.injEq, Prod.mk.injEq] at hne hpf
                  obtain ⟨rfl, rfl⟩ := hne
                  subst hpf
                  rcases hor with ⟨_, h⟩ | ⟨h, _⟩
                  · exact absurd h hs
                  · omega
            · simp only [hb, if_false]
              by_cases hs : rsaRaw n e pfx hashed sig = true
              · simp only [hs, if_true, true_iff]
                exact ⟨n, e, pfx, trivial, rfl, hu, rfl, Or.inr ⟨by omega, hs⟩⟩
              · simp only [hs]
                constructor
                · intro h; cases h
                · rintro ⟨n', e', pfx', _, hne, _, hpf, hor⟩
                  simp only [Option.some.injEq, Prod.mk.injEq] at hne hpf
                  obtain ⟨rfl, rfl⟩ := hne
                  subst hpf
                  rcases hor with ⟨h, _⟩ | ⟨_, h⟩
                  · omega
                  · exact absurd h hs
        · simp only [hu, Bool.not_false, if_true]
          constructor
          · intro h; cases h
          · rintro ⟨n', e', _, _, hne, hu', _⟩
            simp only [Option.some.injEq, Prod.mk.injEq] at hne
            obtain ⟨rfl, rfl⟩ := hne
            exact absurd hu' hu
  · simp [hd]

/-! ## canonical signed data -/

/-- **Any sort gives the same signed data.** For *any* arrangement `srt` of
the RDATA that is sorted (so the statement does not depend on `sort.Slice`,
which is unstable), dropping adjacent duplicates and packing gives what the
model's insertion sort gives. -/
theorem canonical_any_sort (pack : Bytes → Bytes) (l srt : List Bytes) (hperm : srt.Perm l) (hsorted : Sorted srt) :
    (dedupAdj srt).flatMap pack = canonicalRRset pack l := by
  unfold canonicalRRset
  have h1 := dedupAdj_spec srt hsorted
  have h2 := dedupAdj_spec (sortRd l) (sortRd_sorted l)
  rw [strictSorted_unique _ _ h1.1 h2.1]
  intro z
  rw [h1.2 z, h2.2 z, sortRd_mem, hperm.mem_iff]

/-- **Order and duplication of the RRset do not matter**: two record lists
with the same set of canonical RDATA (any permutation, any multiplicity) give
byte-identical signed data, for every per-record packer. -/
theorem canonical_order_independent (pack : Bytes → Bytes) (l₁ l₂ : List Bytes) (h : ∀ x, x ∈ l₁ ↔ x ∈ l₂) :
    canonicalRRset pack l₁ = canonicalRRset pack l₂ := by
  unfold canonicalRRset
  have h1 := dedupAdj_spec (sortRd l₁) (sortRd_sorted l₁)
  have h2 := dedupAdj_spec (sortRd l₂) (sortRd_sorted l₂)
  rw [strictSorted_unique _ _ h1.1 h2.1]
  intro z
  rw [h1.2 z, h2.2 z, sortRd_mem, sortRd_mem, h z]

/-- lifted to the whole `rrsigSignedData`. -/
theorem signed_data_order_independent (typ cls alg labels origTTL exp inc keyTag : Nat) (signerWire : Bytes)
    (owner : List Label) (l₁ l₂ : List Bytes) (h : ∀ x, x ∈ l₁ ↔ x ∈ l₂) :
    signedData typ cls alg labels origTTL exp inc keyTag signerWire owner l₁ =
      signedData typ cls alg labels origTTL exp inc keyTag signerWire owner l₂ := by
  unfold signedData
  cases canonOwner owner labels with
  | none => rfl
  | some o => simp only; rw [canonical_order_independent _ l₁ l₂ h]

/-- the canonical form is sorted by RDATA, duplicate free, and holds exactly the records given. -/
theorem canonical_is_sorted_set (l : List Bytes) :
    StrictSorted (dedupAdj (sortRd l)) ∧ ∀ z, z ∈ dedupAdj (sortRd l) ↔ z ∈ l := by
  have h := dedupAdj_spec (sortRd l) (sortRd_sorted l)
  exact ⟨h.1, fun z => by rw [h.2 z, sortRd_mem]⟩

example : canonicalRRset id [[2, 1], [1], [1, 0], [2, 1], [1]] = canonicalRRset id [[1, 0], [2, 1], [1]] :=
  canonical_order_independent id _ _ (by intro x; simp; grind)
example : canonicalRRset id [[2, 1], [1], [1, 0], [2, 1], [1]] = [1, 1, 0, 2, 1] := by decide

/-- **Canonical RDATA is a function of type and RDATA alone** — by
construction of `canonRdata : Nat → Bytes → Option Bytes` it cannot depend on
the record's TTL, on the spelling of its owner or on whether the owner was a
wildcard expansion (the shortcut of seeded change C14-18 is not expressible) —
it keeps the RDATA length, and leaves every type outside the RFC 4034 §6.2 /
RFC 6840 §5.1 list exactly as published. The run compares it with the
harness's hand-written RFC reference on every `sd data` / `vfy sig` line and,
through the signed data, with `canonicalizeRdataNames`. -/
theorem canon_rdata_keeps_length (typ : Nat) (rd c : Bytes) (h : canonRdata typ rd = some c) : c.length = rd.length :=
  canonRdata_length typ rd c h

theorem canon_rdata_unlisted_as_published (typ : Nat) (rd : Bytes)
    (h : typ ∉ [2, 3, 4, 5, 6, 7, 8, 9, 12, 14, 15, 17, 18, 21, 26, 33, 35, 36, 39]) : canonRdata typ rd = some rd :=
  canonRdata_unlisted typ rd h

-- MX 10 "A." is signed as MX 10 "a."; NSEC next name "A." stays as published
example : canonRdata 15 [0, 10, 1, 65, 0] = some [0, 10, 1, 97, 0] := by decide
example : canonRdata 47 [1, 65, 0, 0, 1, 64] = some [1, 65, 0, 0, 1, 64] := by decide
example : canonRdata 6 ([1, 65, 0, 1, 66, 0] ++ List.replicate 20 7) = some ([1, 97, 0, 1, 98, 0] ++ List.replicate 20 7) := by decide

/-- wildcard reconstruction: an owner with more labels than the RRSIG says is
signed as `*` + its rightmost `labels` labels, lowercased. -/
theorem canon_owner_wildcard (ls : List Label) (k : Nat) (h : k < ls.length) (hk : 0 < k) :
    canonOwner ls k = some (([42] : Bytes) :: (ls.drop (ls.length - k)).map lower) := by
  unfold canonOwner
  have : ¬ k = 0 := by omega
  simp [h, this]

/-! ## binding preflight -/

/-- **Own preflight ok ⇒ the library's preflight ok.** For a key whose owner
name is fully qualified (every name off the wire is) and an RRset owner of
fewer than 256 labels (a wire name has at most 127), whatever
`signatureBinding` lets through, miekg `RRSIG.Verify`'s preflight lets
through as well — the label-boundary signer test only narrows the suffix
test. -/
theorem binding_stricter_than_library (k : BKey) (sig : BSig) (hs : List BHdr)
    (hfq : isFqdn k.name = true) (hlab : ∀ h0 ∈ hs.head?, countLabel h0.name < 256)
    (h : signatureBinding k sig hs = Verdict.ok) : libBinding k k.tag sig hs = true := by
  cases hs with
  | nil => simp [signatureBinding] at h
  | cons h0 t =>
    have hl := hlab h0 (by simp)
    unfold signatureBinding at h
    simp only at h
    split at h
    · cases h
    · rename_i hrr
      split at h
      · cases h
      · rename_i hkey
        split at h
        · cases h
        · rename_i htag
          split at h
          · cases h
          · rename_i hsigner
            split at h
            · cases h
            · rename_i hset
              simp only [Bool.or_eq_true, bne_iff_ne, ne_eq, beq_iff_eq, not_or, Decidable.not_not] at hkey htag
              simp only [Bool.not_eq_true', Bool.not_eq_false] at hsigner
              simp only [Bool.or_eq_true, bne_iff_ne, ne_eq, decide_eq_true_eq, Bool.not_eq_true', not_or,
                Decidable.not_not, Nat.not_lt, Bool.not_eq_false] at hset
              obtain ⟨⟨⟨⟨hcls, htyp⟩, hcount⟩, hname⟩, hzone⟩ := hset
              unfold libBinding
              have hsuf := nameInZone_suffix _ _ (canonicalName_ends h0.name) hzone
              have hmod : countLabel h0.name % 256 = countLabel h0.name := Nat.mod_eq_of_lt hl
              have hflag : k.flags / 256 % 2 = 1 := by
                have h2 := hkey.2
                omega
              simp only [htag.1.1, htag.1.2, htag.2, hkey.1, hflag, hcls, htyp, hname, hmod,
                equalFold_canonical _ _ hsigner hfq, beq_self_eq_true, Bool.and_true,
                List.isSuffixOf_iff_suffix.mpr hsuf]
              have hrr' : isRRset (h0 :: t) = true := by
                cases hx : isRRset (h0 :: t) with
                | true => rfl
                | false => rw [hx] at hrr; simp at hrr
              have hcnt : ¬ countLabel h0.name < sig.labels := by omega
              simp [hrr', hcnt]

-- non-vacuity: "www.Example." signed by "example." under a key named "EXAMPLE."
example : signatureBinding
    { proto := 3, flags := 256, alg := 15, cls := 1, name := [69, 88, 65, 77, 80, 76, 69, 46], tag := 7 }
    { tag := 7, alg := 15, cls := 1, labels := 2, typ := 1, signer := [101, 120, 97, 109, 112, 108, 101, 46],
      name := [119, 119, 119, 46, 69, 120, 97, 109, 112, 108, 101, 46] }
    [{ cls := 1, typ := 1, name := [119, 119, 119, 46, 69, 120, 97, 109, 112, 108, 101, 46] }] = Verdict.ok := by decide
-- a signer that is only a string suffix ("xample.") is refused here and accepted by the library's test
example : signatureBinding
    { proto := 3, flags := 256, alg := 15, cls := 1, name := [120, 97, 109, 112, 108, 101, 46], tag := 7 }
    { tag := 7, alg := 15, cls := 1, labels := 1, typ := 1, signer := [120, 97, 109, 112, 108, 101, 46],
      name := [101, 120, 97, 109, 112, 108, 101, 46] }
    [{ cls := 1, typ := 1, name := [101, 120, 97, 109, 112, 108, 101, 46] }] = Verdict.missingSigned := by decide

/-! ## verifySignature, cryptoVerify, verifyOneSig, VerifyRRSIG -/

/-- **`verifySignature` accepts exactly** when the binding preflight passes,
the signed data can be built (no `*..` owner), the signature text decodes, and
the algorithm's verifier accepts: for RSASHA1, RSASHA1-NSEC3, RSASHA256, RSASHA512 `verifyRSASignature`
(see `verify_rsa_ok_iff`, `rsa_raw_iff_math`), for ECDSA P-256/P-384 and
Ed25519 a key of exactly 64/96/32 octets, a signature of exactly 64/96/64 octets
and the curve arithmetic (an oracle) saying yes. Any other algorithm number is
refused. -/
theorem verify_signature_ok_iff (std : Nat → Nat → Bytes → Bytes → Bytes → Bool) (dec : Bytes → Bytes × Bool) (L : RSALimits)
    (tagOf : VKey → Nat) (orc : SigOracle) (k : VKey) (sig : VSig) (set : List VRec) :
    verifySignature std dec L tagOf orc k sig set = Verdict.ok ↔
      signatureBinding (bkeyOf tagOf k) (bsigOf sig) (hdrsOf set) = Verdict.ok ∧
      (∃ r0 t, set = r0 :: t ∧
        (signedData sig.typ r0.cls sig.alg sig.labels sig.origTTL sig.exp sig.inc sig.tag orc.signerWire
          r0.ownerLabels (set.map (·.canonRd))).isSome = true) ∧
      (dec sig.sigText).2 = true ∧
      ((rsaAlg sig.alg ∧ verifyRSA std dec L sig.alg k.pk orc.hashed (dec sig.sigText).1 = Verdict.ok) ∨
       (curveAlg sig.alg ∧ (dec k.pk).2 = true ∧ (dec k.pk).1.length = curveKeyLen sig.alg ∧
          (dec sig.sigText).1.length = curveSigLen sig.alg ∧ orc.curve = some true)) := by
  rw [verifySignature_ok_iff, verify_curve_ok_iff]

/-- **Never wider than the library's preflight**: whatever `verifySignature`
accepts passed a binding the library's `RRSIG.Verify` preflight passes too
(fully qualified key owner, fewer than 256 owner labels). -/
theorem verify_signature_within_library_preflight (std : Nat → Nat → Bytes → Bytes → Bytes → Bool)
    (dec : Bytes → Bytes × Bool) (L : RSALimits) (tagOf : VKey → Nat) (orc : SigOracle) (k : VKey) (sig : VSig)
    (set : List VRec) (hfq : isFqdn k.name = true) (hlab : ∀ h0 ∈ (hdrsOf set).head?, countLabel h0.name < 256)
    (h : verifySignature std dec L tagOf orc k sig set = Verdict.ok) :
    libBinding (bkeyOf tagOf k) (tagOf k) (bsigOf sig) (hdrsOf set) = true :=
  binding_stricter_than_library (bkeyOf tagOf k) (bsigOf sig) (hdrsOf set) hfq hlab
    ((verifySignature_ok_iff std dec L tagOf orc k sig set).mp h).1

/-- a wrong-size curve key or signature is never accepted, whatever the curve arithmetic would say. -/
theorem curve_widths_enforced (dec : Bytes → Bytes × Bool) (alg : Nat) (curve : Option Bool) (pk sig : Bytes)
    (h : (dec pk).1.length ≠ curveKeyLen alg ∨ sig.length ≠ curveSigLen alg) :
    verifyCurve dec alg curve pk sig ≠ Verdict.ok := by
  intro hok
  have := (verify_curve_ok_iff dec alg curve pk sig).mp hok
  rcases h with h | h
  · exact h this.2.1
  · exact h this.2.2.1

/-- **`cryptoVerify`**: the own verifier for the algorithms it implements, the library otherwise. -/
theorem crypto_verify_ok_iff (std : Nat → Nat → Bytes → Bytes → Bytes → Bool) (dec : Bytes → Bytes × Bool) (L : RSALimits)
    (tagOf : VKey → Nat) (libOK : Bool) (orc : SigOracle) (k : VKey) (sig : VSig) (set : List VRec) :
    cryptoVerify std dec L tagOf libOK orc k sig set = Verdict.ok ↔
      (ownAlg k.alg = true ∧ verifySignature std dec L tagOf orc k sig set = Verdict.ok) ∨
      (ownAlg k.alg = false ∧ libOK = true) :=
  cryptoVerify_ok_iff std dec L tagOf libOK orc k sig set

/-- **`verifyOneSig` succeeds exactly** when the signature is inside its
validity period, of a supported algorithm, matches the RRset (class, type,
label count, owner, owner inside the signer's zone on a label boundary), and
some offered key is a usable candidate for it — same tag, algorithm, class,
owner = signer, protocol 3, zone flag — under which the cryptographic check
passes. -/
theorem verify_one_sig_ok_iff (cv : VKey → VSig → List VRec → Verdict) (inPeriod : VSig → Bool) (supAlg : Nat → Bool)
    (tagOf : VKey → Nat) (keys : List VKey) (set : List VRec) (sig : VSig) :
    verifyOneSig cv inPeriod supAlg tagOf keys set sig = true ↔
      inPeriod sig = true ∧ supAlg sig.alg = true ∧ signatureMatchesRRset sig set = true ∧
      ∃ k ∈ keys, usableSignatureCandidate tagOf sig k = true ∧ cv k sig set = Verdict.ok :=
  verifyOneSig_iff cv inPeriod supAlg tagOf keys set sig

/-- **A denial record is never accepted as a wildcard expansion.** A signature
covering NSEC or NSEC3 that `signatureMatchesRRset` lets through counts at
least as many labels as the owner has (a leading `*` label not counted), so by
`verify_one_sig_ok_iff` / `verify_rrsig_ok_iff` no wildcard-expanded NSEC or
NSEC3 is ever authenticated (RFC 4035 §2.3, RFC 4592 §4.6). -/
theorem matched_denial_not_wildcard_expanded (sig : VSig) (r0 : VRec) (t : List VRec)
    (ht : sig.typ = 47 ∨ sig.typ = 50) (h : signatureMatchesRRset sig (r0 :: t) = true) :
    wildcardExpanded r0.name sig.labels = false := by
  unfold signatureMatchesRRset at h
  simp only [Bool.and_eq_true, Bool.not_eq_true', Bool.and_eq_false_imp, Bool.or_eq_true, beq_iff_eq] at h
  exact h.1.1.1.1.1.1 ht

theorem verified_denial_not_wildcard_expanded (cv : VKey → VSig → List VRec → Verdict) (inPeriod : VSig → Bool)
    (supAlg : Nat → Bool) (tagOf : VKey → Nat) (keys : List VKey) (r0 : VRec) (t : List VRec) (sig : VSig)
    (ht : sig.typ = 47 ∨ sig.typ = 50) (h : verifyOneSig cv inPeriod supAlg tagOf keys (r0 :: t) sig = true) :
    wildcardExpanded r0.name sig.labels = false :=
  matched_denial_not_wildcard_expanded sig r0 t ht ((verifyOneSig_iff _ _ _ _ _ _ _).mp h).2.2.1

-- "a.b." NSEC signed with Labels = 1 (the record of "*.b." renamed) does not match; "*.b." itself does
example : signatureMatchesRRset ⟨47, 15, 1, 60, 2, 1, 9, 1, [98, 46], [97, 46, 98, 46], []⟩
    [⟨[97, 46, 98, 46], 47, 1, [[97], [98]], [0], []⟩] = false := by decide
example : signatureMatchesRRset ⟨47, 15, 1, 60, 2, 1, 9, 1, [98, 46], [42, 46, 98, 46], []⟩
    [⟨[42, 46, 98, 46], 47, 1, [[42], [98]], [0], []⟩] = true := by decide
example : signatureMatchesRRset ⟨1, 15, 1, 60, 2, 1, 9, 1, [98, 46], [97, 46, 98, 46], []⟩
    [⟨[97, 46, 98, 46], 1, 1, [[97], [98]], [0], []⟩] = true := by decide

/-- **`VerifyRRSIG` succeeds exactly** when keys were offered, no answer
record that is not a synthesised CNAME lies outside the signer zone, and every
RRset that has to be signed (answer records; authority records other than NS
inside the zone; synthesised CNAMEs of an in-zone DNAME excepted) is a proper
RRset covered by a signature filed under its owner, type and class, inside the
zone, for which `verifyOneSig` succeeds — or there is nothing to sign. -/
theorem verify_rrsig_ok_iff (oneSig : List VRec → VSig → Bool) (nKeys : Nat) (zone : Bytes) (m : VMsg) :
    verifyRRSIG oneSig nKeys zone m = true ↔
      nKeys ≠ 0 ∧
      (∀ r ∈ m.answer, exempt (lower (fqdn zone)) m r = false → nameInZone (lower r.name) (lower (fqdn zone)) = true) ∧
      (collected (lower (fqdn zone)) m = [] ∨
        (m.sigs ≠ [] ∧ ∀ r ∈ collected (lower (fqdn zone)) m,
          isRRset (hdrsOf (groupOf (lower (fqdn zone)) m r)) = true ∧
          ∃ s ∈ m.sigs, nameInZone (lower s.name) (lower (fqdn zone)) = true ∧ sigKey s = rrKey r ∧
            oneSig (groupOf (lower (fqdn zone)) m r) s = true)) :=
  verifyRRSIG_iff oneSig nKeys zone m

/-- **Only authenticated data.** If `VerifyRRSIG` says yes then every answer
record that is not a synthesised CNAME lies in the signer zone and its RRset
carries a signature that is in its validity period, of a supported algorithm,
and passes the cryptographic check under an offered zone key (protocol 3,
zone flag) named by the signature's tag, algorithm, class and signer. -/
theorem verify_rrsig_every_answer_authenticated (cv : VKey → VSig → List VRec → Verdict) (inPeriod : VSig → Bool)
    (supAlg : Nat → Bool) (tagOf : VKey → Nat) (keys : List VKey) (zone : Bytes) (m : VMsg)
    (h : verifyRRSIG (verifyOneSig cv inPeriod supAlg tagOf keys) keys.length zone m = true) :
    ∀ r ∈ m.answer, exempt (lower (fqdn zone)) m r = false →
      nameInZone (lower r.name) (lower (fqdn zone)) = true ∧
      ∃ s ∈ m.sigs, ∃ k ∈ keys, sigKey s = rrKey r ∧ inPeriod s = true ∧ supAlg s.alg = true ∧
        usableSignatureCandidate tagOf s k = true ∧ cv k s (groupOf (lower (fqdn zone)) m r) = Verdict.ok := by
  intro r hr hex
  obtain ⟨_, hzone, hrest⟩ := (verifyRRSIG_iff _ _ _ _).mp h
  refine ⟨hzone r hr hex, ?_⟩
  have hmem : r ∈ collected (lower (fqdn zone)) m := by
    unfold collected
    exact List.mem_append_left _ (List.mem_filter.mpr ⟨hr, by simp [hex]⟩)
  rcases hrest with hnil | ⟨_, hall⟩
  · rw [hnil] at hmem; cases hmem
  · obtain ⟨_, s, hs, _, hkey, hone⟩ := hall r hmem
    obtain ⟨hp, ha, _, k, hk, hu, hcv⟩ := (verifyOneSig_iff _ _ _ _ _ _ _).mp hone
    exact ⟨s, hs, k, hk, hkey, hp, ha, hu, hcv⟩

/-- **What goes unsigned is a DNAME synthesis, and its DNAME is signed.** A
record `VerifyRRSIG` exempts is a CNAME for which some DNAME record of the
message, inside the signer zone, is a proper ancestor of its owner with
owner-prefix + DNAME target = CNAME target (RFC 6672 §3.3); and when
`VerifyRRSIG` says yes that DNAME is itself among the records that had to
verify (it is never exempt, never skipped). -/
theorem exempt_is_dname_synthesis (z : Bytes) (m : VMsg) (r : VRec) (h : exempt z m r = true) :
    r.typ = 5 ∧ ∃ d ∈ m.answer ++ m.ns, d.typ = 39 ∧ nameInZone (lower d.name) z = true ∧
      splitPres d.name ≠ [] ∧ (splitPres d.name).length < (splitPres r.name).length ∧
      ((splitPres r.name).drop ((splitPres r.name).length - (splitPres d.name).length)).map lower
        = (splitPres d.name).map lower ∧
      equalFold (fqdn (((splitPres r.name).take ((splitPres r.name).length - (splitPres d.name).length)).flatMap
        (fun l => l ++ [46]) ++ d.target)) (fqdn r.target) = true ∧
      d ∈ collected z m := by
  unfold exempt isSynthCNAME dnamesOf at h
  simp only [Bool.and_eq_true, beq_iff_eq, List.any_eq_true, List.mem_map, List.mem_filter, Bool.not_eq_true',
    List.isEmpty_eq_false_iff, decide_eq_true_eq] at h
  obtain ⟨htyp, p, ⟨d, ⟨hd, hd39, hdz⟩, rfl⟩, ⟨⟨⟨hne, hlt⟩, hsuf⟩, htgt⟩⟩ := h
  refine ⟨htyp, d, hd, hd39, hdz, hne, hlt, hsuf, htgt, ?_⟩
  have hnex : exempt z m d = false := by
    unfold exempt; simp [hd39]
  unfold collected
  rcases List.mem_append.mp hd with ha | hn
  · exact List.mem_append_left _ (List.mem_filter.mpr ⟨ha, by simp [hnex]⟩)
  · exact List.mem_append_right _ (List.mem_filter.mpr ⟨hn, by simp [hnex, hd39, hdz]⟩)

-- "x.d." CNAME "x.t." under DNAME "d." -> "t." is a synthesis; with another target it is not
example : isSynthCNAME [120, 46, 100, 46] [120, 46, 116, 46] [([100, 46], [116, 46])] = true := by decide
example : isSynthCNAME [120, 46, 100, 46] [121, 46, 116, 46] [([100, 46], [116, 46])] = false := by decide
example : isSynthCNAME [100, 46] [116, 46] [([100, 46], [116, 46])] = false := by decide

/-- a usable candidate is a zone key the signature names. -/
theorem usable_candidate_is_named_zone_key (tagOf : VKey → Nat) (sig : VSig) (k : VKey)
    (h : usableSignatureCandidate tagOf sig k = true) :
    tagOf k = sig.tag ∧ k.alg = sig.alg ∧ k.cls = sig.cls ∧ equalFold k.name sig.signer = true ∧ k.proto = 3 ∧
      k.flags / 256 % 2 = 1 := by
  unfold usableSignatureCandidate at h
  simp only [Bool.and_eq_true, beq_iff_eq] at h
  exact ⟨h.1.1.1.1.1, h.1.1.1.1.2, h.1.1.1.2, h.1.1.2, h.1.2, h.2⟩

-- non-vacuity: one A RRset at "a." signed by "." under an Ed25519 zone key; the curve oracle says yes
example :
    let k : VKey := ⟨256, 3, 15, 1, [46], List.replicate 32 7⟩
    let s : VSig := ⟨1, 15, 1, 60, 2, 1, 9, 1, [46], [97, 46], List.replicate 64 1⟩
    let r : VRec := ⟨[97, 46], 1, 1, [[97]], [1, 2, 3, 4], []⟩
    let cv := fun k s set => cryptoVerify (fun _ _ _ _ _ => false) (fun b => (b, true)) ⟨1024, 4096, 64⟩ (fun _ => 9) false
      { curve := some true } k s set
    verifyRRSIG (verifyOneSig cv (fun _ => true) (fun a => a == 15) (fun _ => 9) [k]) 1 [46]
      ⟨[r], [], [s]⟩ = true := by decide
-- the same message with a 31-octet key is refused
example :
    let k : VKey := ⟨256, 3, 15, 1, [46], List.replicate 31 7⟩
    let s : VSig := ⟨1, 15, 1, 60, 2, 1, 9, 1, [46], [97, 46], List.replicate 64 1⟩
    let r : VRec := ⟨[97, 46], 1, 1, [[97]], [1, 2, 3, 4], []⟩
    let cv := fun k s set => cryptoVerify (fun _ _ _ _ _ => false) (fun b => (b, true)) ⟨1024, 4096, 64⟩ (fun _ => 9) false
      { curve := some true } k s set
    verifyRRSIG (verifyOneSig cv (fun _ => true) (fun a => a == 15) (fun _ => 9) [k]) 1 [46]
      ⟨[r], [], [s]⟩ = false := by decide

/-- `canonicalizeRdataNames`, evaluated over every record type of the library
with a domain name in its RDATA: exactly the RFC 4034 §6.2 list as amended by
RFC 6840 §5.1 is case-folded (NSEC, RRSIG, and the newer name-bearing types are
signed as published), and a folded type has all its names folded. Equality,
not inclusion: folding more breaks valid signatures, folding less too. -/
theorem rdata_fold_table_is_rfc6840 :
    SdnsVerif.Gen.C14.rdata_fold_any = [2, 3, 4, 5, 6, 7, 8, 9, 12, 14, 15, 17, 18, 21, 24, 26, 33, 35, 36, 39] ∧
      SdnsVerif.Gen.C14.rdata_fold_all = SdnsVerif.Gen.C14.rdata_fold_any ∧
      (∀ t ∈ SdnsVerif.Gen.C14.rdata_fold_any, t ∈ SdnsVerif.Gen.C14.rdata_name_types) ∧
      47 ∈ SdnsVerif.Gen.C14.rdata_name_types := by decide

/-! ## VerifyRRSIGWithWork: the work governor -/

/-- **Bounded work.** Under a governor with a budget of `g.budget` public-key
operations, `VerifyRRSIGWithWork` begins at most that many — whatever the
message, the keys and the signatures are. -/
theorem work_never_exceeds_budget (cv : VKey → VSig → List VRec → Verdict) (inPeriod : VSig → Bool) (supAlg : Nat → Bool)
    (tagOf : VKey → Nat) (keys : List VKey) (g : Gov) (zone : Bytes) (m : VMsg) :
    (verifyRRSIGWork cv inPeriod supAlg tagOf keys g zone m).2 ≤ g.budget :=
  verifyRRSIGWork_budget cv inPeriod supAlg tagOf keys g zone m

/-- **A governor only refuses; it never changes a verdict.** If the walk under
governor `g` ends without a work error, then under every governor that allows
at least as much (more candidates per signature, more operations per RRset, a
larger budget — in particular under none at all) it ends in exactly the same
way: same verdict, same number of operations. So a budget can turn an
acceptance or a rejection into a work error, never a rejection into an
acceptance. -/
theorem governor_only_refuses (cv : VKey → VSig → List VRec → Verdict) (inPeriod : VSig → Bool) (supAlg : Nat → Bool)
    (tagOf : VKey → Nat) (keys : List VKey) (g g' : Gov) (hle : govLe g g') (zone : Bytes) (m : VMsg)
    (h : (verifyRRSIGWork cv inPeriod supAlg tagOf keys g zone m).1 ≠ WRes.work) :
    verifyRRSIGWork cv inPeriod supAlg tagOf keys g' zone m = verifyRRSIGWork cv inPeriod supAlg tagOf keys g zone m :=
  verifyRRSIGWork_mono cv inPeriod supAlg tagOf keys g g' hle zone m h

theorem budget_never_turns_rejection_into_acceptance (cv : VKey → VSig → List VRec → Verdict) (inPeriod : VSig → Bool)
    (supAlg : Nat → Bool) (tagOf : VKey → Nat) (keys : List VKey) (g g' : Gov) (hle : govLe g g') (zone : Bytes) (m : VMsg)
    (h : (verifyRRSIGWork cv inPeriod supAlg tagOf keys g zone m).1 = WRes.ok) :
    (verifyRRSIGWork cv inPeriod supAlg tagOf keys g' zone m).1 = WRes.ok := by
  rw [verifyRRSIGWork_mono cv inPeriod supAlg tagOf keys g g' hle zone m (by rw [h]; simp), h]

/-- **The governed walk is `VerifyRRSIG`.** The walk of `VerifyRRSIGWithWork`
in the code's own order (RRsets by owner / type / class, signatures and
candidate keys de-duplicated and sorted, early exits as written), whenever it
ends without a work error, accepts exactly when the declarative `verifyRRSIG`
of `verify_rrsig_ok_iff` does — provided the cryptographic verdict does not
depend on the spelling of a key's owner beyond its identity (`hcv`) and
`verifyOneSig` not on the spelling of a signature's owner and signer beyond
theirs (`hsig`; both are how duplicates are collapsed in the code). Together
with `governor_only_refuses` and `verify_rrsig_every_answer_authenticated`:
whatever `VerifyRRSIGWithWork` accepts under any governor is authenticated. -/
theorem governed_walk_is_verify_rrsig (cv : VKey → VSig → List VRec → Verdict) (inPeriod : VSig → Bool)
    (supAlg : Nat → Bool) (tagOf : VKey → Nat) (keys : List VKey) (g : Gov) (zone : Bytes) (m : VMsg)
    (hcv : ∀ k k' sig set, keyIdent k = keyIdent k' → cv k sig set = cv k' sig set)
    (hsig : ∀ s s' set, sigIdent s = sigIdent s' →
      verifyOneSig cv inPeriod supAlg tagOf keys set s = verifyOneSig cv inPeriod supAlg tagOf keys set s')
    (h : (verifyRRSIGWork cv inPeriod supAlg tagOf keys g zone m).1 ≠ WRes.work) :
    (verifyRRSIGWork cv inPeriod supAlg tagOf keys g zone m).1 = WRes.ok ↔
      verifyRRSIG (verifyOneSig cv inPeriod supAlg tagOf keys) keys.length zone m = true :=
  verifyRRSIGWork_verdict cv inPeriod supAlg tagOf keys g zone m hcv hsig h

theorem governed_acceptance_is_authenticated (cv : VKey → VSig → List VRec → Verdict) (inPeriod : VSig → Bool)
    (supAlg : Nat → Bool) (tagOf : VKey → Nat) (keys : List VKey) (g : Gov) (zone : Bytes) (m : VMsg)
    (hcv : ∀ k k' sig set, keyIdent k = keyIdent k' → cv k sig set = cv k' sig set)
    (hsig : ∀ s s' set, sigIdent s = sigIdent s' →
      verifyOneSig cv inPeriod supAlg tagOf keys set s = verifyOneSig cv inPeriod supAlg tagOf keys set s')
    (h : (verifyRRSIGWork cv inPeriod supAlg tagOf keys g zone m).1 = WRes.ok) :
    ∀ r ∈ m.answer, exempt (lower (fqdn zone)) m r = false →
      nameInZone (lower r.name) (lower (fqdn zone)) = true ∧
      ∃ s ∈ m.sigs, ∃ k ∈ keys, sigKey s = rrKey r ∧ inPeriod s = true ∧ supAlg s.alg = true ∧
        usableSignatureCandidate tagOf s k = true ∧ cv k s (groupOf (lower (fqdn zone)) m r) = Verdict.ok :=
  verify_rrsig_every_answer_authenticated cv inPeriod supAlg tagOf keys zone m
    ((verifyRRSIGWork_verdict cv inPeriod supAlg tagOf keys g zone m hcv hsig (by rw [h]; simp)).mp h)

-- one RRset, two candidate keys with the signature's tag, the second verifies: a budget of one operation
-- refuses, a budget of two accepts after two operations
example :
    let k1 : VKey := ⟨256, 3, 15, 1, [46], [1]⟩
    let k2 : VKey := ⟨256, 3, 15, 1, [46], [2]⟩
    let s : VSig := ⟨1, 15, 1, 60, 2, 1, 9, 1, [46], [97, 46], [7]⟩
    let r : VRec := ⟨[97, 46], 1, 1, [[97]], [1, 2, 3, 4], []⟩
    let cv := fun (k : VKey) (_ : VSig) (_ : List VRec) => if k.pk == [2] then Verdict.ok else Verdict.badSig
    verifyRRSIGWork cv (fun _ => true) (fun _ => true) (fun _ => 9) [k1, k2] ⟨9, 9, 1⟩ [46] ⟨[r], [], [s]⟩ = (WRes.work, 1) ∧
    verifyRRSIGWork cv (fun _ => true) (fun _ => true) (fun _ => 9) [k1, k2] ⟨9, 9, 2⟩ [46] ⟨[r], [], [s]⟩ = (WRes.ok, 2) := by
  decide

/-- **The surfaced error is nil exactly when `VerifyRRSIG` accepts.**
`verifyRRSIGErr` walks RRsets, signatures and candidate keys in the code's
order and returns the error the code returns (the last signature's error of
the first RRset that fails, the last candidate key's error inside a
signature, the structural errors before any cryptography); every run compares
it with the implementation's error line by line. It is `ok` iff the
declarative `verifyRRSIG` accepts. -/
theorem verify_rrsig_error_nil_iff_accepts (cv : VKey → VSig → List VRec → Verdict) (inPeriod : VSig → Bool)
    (supAlg : Nat → Bool) (tagOf : VKey → Nat) (keys : List VKey) (zone : Bytes) (m : VMsg)
    (hcv : ∀ k k' sig set, keyIdent k = keyIdent k' → cv k sig set = cv k' sig set)
    (hsig : ∀ s s' set, sigIdent s = sigIdent s' →
      verifyOneSig cv inPeriod supAlg tagOf keys set s = verifyOneSig cv inPeriod supAlg tagOf keys set s') :
    verifyRRSIGErr cv inPeriod supAlg tagOf keys zone m = VErr.ok ↔
      verifyRRSIG (verifyOneSig cv inPeriod supAlg tagOf keys) keys.length zone m = true :=
  verifyRRSIGErr_ok cv inPeriod supAlg tagOf keys zone m hcv hsig

-- an RRset under an unsupported algorithm is refused with the algorithm error, before any key is looked at twice
example :
    let k : VKey := ⟨257, 3, 1, 1, [46], [1, 3]⟩
    let s : VSig := ⟨1, 1, 1, 60, 2, 1, 0, 1, [46], [97, 46], [7]⟩
    let r : VRec := ⟨[97, 46], 1, 1, [[97]], [1, 2, 3, 4], []⟩
    verifyRRSIGErr (fun _ _ _ => Verdict.ok) (fun _ => true) (fun a => a == 15) (fun _ => 0) [k] [46] ⟨[r], [], [s]⟩ = VErr.alg := by
  decide

/-! ## VerifyDSWithWork: the work governor on the DS side -/

/-- **Bounded work, DS side.** `VerifyDSWithWork` begins at most `g.budget` digests. -/
theorem ds_work_never_exceeds_budget (sup : DSRec → Bool) (dmatch : DKey → Nat → Bytes → Bool) (limit : Nat)
    (keys : List DKey) (g : Gov) (dss : List DSRec) : (verifyDSWork sup dmatch limit keys g dss).2 ≤ g.budget :=
  verifyDSWork_budget sup dmatch limit keys g dss

/-- **A governor only refuses, DS side**: no work error under `g` ⇒ the same
result and the same number of digests under every more generous governor. -/
theorem ds_governor_only_refuses (sup : DSRec → Bool) (dmatch : DKey → Nat → Bytes → Bool) (limit : Nat)
    (keys : List DKey) (g g' : Gov) (hle : govLe g g') (dss : List DSRec)
    (h : (verifyDSWork sup dmatch limit keys g dss).1 ≠ WRes.work) :
    verifyDSWork sup dmatch limit keys g' dss = verifyDSWork sup dmatch limit keys g dss :=
  verifyDSWork_mono sup dmatch limit keys g g' hle dss h

/-- **The governed DS walk is `VerifyDS`**: in the code's order (DS records
de-duplicated by canonical owner / upper-cased digest and sorted, candidate
keys de-duplicated and sorted), without a work error it accepts exactly when
`verifyDS` does (`verifyds_ok_iff`), given that the digest verdict does not
depend on a key's owner spelling and a DS's authenticating power not on its
owner / digest spelling beyond the identities the code collapses by. -/
theorem governed_ds_walk_is_verify_ds (sup : DSRec → Bool) (dmatch : DKey → Nat → Bytes → Bool) (limit : Nat)
    (keys : List DKey) (g : Gov) (dss : List DSRec)
    (hdm : ∀ k k' dt w, dkeyIdent k = dkeyIdent k' → dmatch k dt w = dmatch k' dt w)
    (hds : ∀ d d', dsIdent d = dsIdent d' → dsAuthenticates sup dmatch limit keys d = dsAuthenticates sup dmatch limit keys d')
    (h : (verifyDSWork sup dmatch limit keys g dss).1 ≠ WRes.work) :
    (verifyDSWork sup dmatch limit keys g dss).1 = WRes.ok ↔ (verifyDS sup dmatch limit keys dss).2 = true :=
  verifyDSWork_verdict sup dmatch limit keys g dss hdm hds h

-- two candidate keys under one DS, the second matches: a budget of one digest refuses, two accept
example :
    let k1 : DKey := ⟨257, 3, 13, 1, [46], [65], 7⟩
    let k2 : DKey := ⟨257, 3, 13, 1, [46], [66], 7⟩
    let d : DSRec := ⟨[46], 1, 7, 13, 2, [97, 98]⟩
    let dm := fun (k : DKey) (_ : Nat) (_ : Bytes) => k.pk == [66]
    verifyDSWork (fun _ => true) dm 100 [k1, k2] ⟨9, 0, 1⟩ [d] = (WRes.work, 1) ∧
    verifyDSWork (fun _ => true) dm 100 [k1, k2] ⟨9, 0, 2⟩ [d] = (WRes.ok, 2) ∧
    verifyDSWork (fun _ => true) dm 100 [k1, k2] ⟨1, 0, 9⟩ [d] = (WRes.work, 1) := by decide

/-! ## which error VerifyDS surfaces -/

/-- **The DS error is nil exactly when `VerifyDS` accepts**, and it is
"unsupported only" (`ErrFailedToConvertKSK` with `unsupportedOnly = true`, which
the resolver turns into an insecure zone) exactly when the set is non-empty and
holds no DS of a supported digest type and algorithm. `verifyDSErr` walks the
de-duplicated, sorted DS records and candidate keys in the code's order with its
`supported` counter and `lastErr`; every run compares the `err=` column with the
implementation line by line. Hypotheses: the verdicts do not depend on owner /
digest spelling beyond the identities the code collapses duplicates by. -/
theorem verify_ds_error_nil_iff_accepts (sup : DSRec → Bool) (dmatch : DKey → Nat → Bytes → Bool) (limit : Nat)
    (keys : List DKey) (dss : List DSRec)
    (hdm : ∀ k k' dt w, dkeyIdent k = dkeyIdent k' → dmatch k dt w = dmatch k' dt w)
    (hds : ∀ d d', dsIdent d = dsIdent d' → dsAuthenticates sup dmatch limit keys d = dsAuthenticates sup dmatch limit keys d') :
    verifyDSErr sup dmatch limit keys dss = DErr.ok ↔ (verifyDS sup dmatch limit keys dss).2 = true := by
  unfold verifyDSErr
  rw [(dsErrLoop_spec sup dmatch limit keys _ hdm (uniqueSortedDS dss) 0 none (Or.inl rfl)).1, verifyds_ok_iff]
  unfold uniqueSortedDS
  exact exists_sortDedup dsIdent dsLt _ (fun a b hab => by simp only [hds a b hab]) _

theorem verify_ds_error_unsupported_iff (sup : DSRec → Bool) (dmatch : DKey → Nat → Bytes → Bool) (limit : Nat)
    (keys : List DKey) (dss : List DSRec)
    (hdm : ∀ k k' dt w, dkeyIdent k = dkeyIdent k' → dmatch k dt w = dmatch k' dt w)
    (hsup : ∀ d d', dsIdent d = dsIdent d' → sup d = sup d') :
    verifyDSErr sup dmatch limit keys dss = DErr.unsupported ↔ (verifyDS sup dmatch limit keys dss).1 = true := by
  unfold verifyDSErr
  rw [(dsErrLoop_spec sup dmatch limit keys _ hdm (uniqueSortedDS dss) 0 none (Or.inl rfl)).2,
    verifyds_unsupported_only_iff]
  have hex : (∃ d ∈ uniqueSortedDS dss, sup d = true) ↔ ∃ d ∈ dss, sup d = true := by
    unfold uniqueSortedDS
    exact exists_sortDedup dsIdent dsLt _ (fun a b hab => by simp only [hsup a b hab]) _
  have hall : (∀ d ∈ uniqueSortedDS dss, sup d = false) ↔ ∀ d ∈ dss, sup d = false := by
    constructor
    · intro h d hd
      cases hs : sup d with
      | false => rfl
      | true => obtain ⟨x, hx, hsx⟩ := hex.mpr ⟨d, hd, hs⟩; rw [h x hx] at hsx; cases hsx
    · intro h d hd
      cases hs : sup d with
      | false => rfl
      | true => obtain ⟨x, hx, hsx⟩ := hex.mp ⟨d, hd, hs⟩; rw [h x hx] at hsx; cases hsx
  have hlen : (uniqueSortedDS dss).length ≠ 0 ↔ dss ≠ [] := by
    constructor
    · intro h hnil; subst hnil; exact h (by simp [uniqueSortedDS, dedupBy, sortBy])
    · intro h hz
      cases hd : dss with
      | nil => exact h hd
      | cons a t =>
        have hnil : uniqueSortedDS dss = [] := List.eq_nil_of_length_eq_zero hz
        obtain ⟨y, hy, _⟩ := dedupBy_covers dsIdent dss [] a (by rw [hd]; simp) (by simp)
        have : y ∈ uniqueSortedDS dss := (mem_sortBy _ _ _).mpr hy
        rw [hnil] at this; cases this
  rw [hlen, hall]
  simp

-- a supported DS naming no offered key: "no KSK matches", not "unsupported only"
example : verifyDSErr (fun d => d.dt == 2) (fun _ _ _ => true) 100 [⟨257, 3, 13, 1, [46], [65], 7⟩]
    [⟨[46], 1, 9, 13, 2, [97, 98]⟩, ⟨[46], 1, 7, 13, 3, [97, 98]⟩] = DErr.missingKSK := by decide
example : verifyDSErr (fun d => d.dt == 2) (fun _ _ _ => true) 100 [⟨257, 3, 13, 1, [46], [65], 7⟩]
    [⟨[46], 1, 7, 13, 2, [97]⟩] = DErr.mismatchingDS := by decide
example : verifyDSErr (fun d => d.dt == 2) (fun _ _ _ => true) 100 [⟨257, 3, 13, 1, [46], [65], 7⟩]
    [⟨[46], 1, 7, 13, 3, [97, 98]⟩] = DErr.unsupported := by decide

/-! ## facts regenerated from the tree (one-directional side conditions) -/

/-- the decode chunk is whole base64 groups and decodes to an even number of
octets (what `keytag_loop_eq_rfc` needs), and is not empty. -/
theorem chunk_is_even_groups :
    SdnsVerif.Gen.C14.key_tag_chunk % 4 = 0 ∧ SdnsVerif.Gen.C14.key_tag_chunk / 4 * 3 % 2 = 0 ∧
      0 < SdnsVerif.Gen.C14.key_tag_chunk := by decide

/-- the key-material ceiling is not above what the library's 4096-octet
buffer can pack behind the four header octets, and the character limit is not
above its base64 length. -/
theorem key_material_ceiling_within_library :
    SdnsVerif.Gen.C14.max_ds_key_material + 4 ≤ 4096 ∧
      SdnsVerif.Gen.C14.oversized_limit ≤ (4092 + 2) / 3 * 4 := by decide

/-- RSA limits of the tree are inside the documented ones. -/
theorem rsa_limits_within_documented :
    1024 ≤ SdnsVerif.Gen.C14.min_rsa_modulus_bits ∧ SdnsVerif.Gen.C14.max_rsa_modulus_bits ≤ 4096 ∧
      SdnsVerif.Gen.C14.max_rsa_exponent_bits ≤ 64 ∧ SdnsVerif.Gen.C14.max_stdlib_exponent = 2 ^ 31 - 1 := by decide

/-- `dsDigestHash` / `IsSupportedDSDigest` evaluated over 0..255: nothing
beyond types 1, 2, 4 with their SHA-1 / SHA-256 / SHA-384 sizes. -/
theorem ds_digest_table_within_documented :
    (∀ p ∈ SdnsVerif.Gen.C14.ds_hash_types.zip SdnsVerif.Gen.C14.ds_hash_sizes, dsHashSize p.1 = some p.2) ∧
      SdnsVerif.Gen.C14.ds_hash_types.length = SdnsVerif.Gen.C14.ds_hash_sizes.length ∧
      (∀ t ∈ SdnsVerif.Gen.C14.ds_supported_types, t ∈ SdnsVerif.Gen.C14.ds_hash_types) := by decide

/-- algorithms evaluated over 0..255: the validator's list and the own
verifier's list stay inside RSASHA1, RSASHA1-NSEC3, RSASHA256, RSASHA512,
ECDSA P-256/P-384, Ed25519; the raw RSA path has the RFC 8017 DigestInfo
prefixes and only for the RSA algorithms. -/
theorem algorithm_tables_within_documented :
    (∀ a ∈ SdnsVerif.Gen.C14.dnskey_algorithms, a ∈ [5, 7, 8, 10, 13, 14, 15]) ∧
      (∀ a ∈ SdnsVerif.Gen.C14.own_verifier_algorithms, a ∈ SdnsVerif.Gen.C14.dnskey_algorithms) ∧
      (∀ p ∈ SdnsVerif.Gen.C14.rsa_prefix_algorithms.zip SdnsVerif.Gen.C14.rsa_prefixes,
        (rsaPrefix p.1).map (fun b => b.map UInt8.toNat) = some p.2) ∧
      SdnsVerif.Gen.C14.rsa_prefix_algorithms.length = SdnsVerif.Gen.C14.rsa_prefixes.length := by decide

end SdnsVerif.Props.C14
