import SdnsVerif.Model.UMap
import SdnsVerif.Gen.C16
/-! stub while the proofs are being developed -/
namespace SdnsVerif.Props.C16
theorem stub : True := trivial
end SdnsVerif.Props.C16
