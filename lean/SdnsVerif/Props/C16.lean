import SdnsVerif.Model.UMap
import SdnsVerif.Lemmas.UMap
import SdnsVerif.Gen.C16
/-!
# C16 — bounded concurrent tables behave as maps and stay within capacity

Property theorems only; definitions (`Inv`, `abs`, `SegInv`, `sabs`, `Run`, …)
and helper lemmas live in `Lemmas/UMap.lean`, the executable model in
`Model/UMap.lean`.  Every hash (`idx`, `seg`, `off`) is an arbitrary function
that stays in range (`IdxOk`, `HashOk`); the real mixers are one instance
(`realHashes_ok`).

* `Inv idx m`  — no duplicate key ∧ every stored key's probe path from its ideal
  slot is occupied (cyclically) ∧ `size` = occupied slots + zero flag ∧ load ≤
  growth threshold < table length (so a free slot always exists).
* `abs m : Nat → Option V` — the map a table denotes: a naive scan of all slots
  plus the out-of-band zero key.
-/
namespace SdnsVerif.Props.C16
open SdnsVerif.Model.UMap SdnsVerif.Lemmas.UMap

variable {V : Type} [Inhabited V]

/-! ## UInt64Map: invariant -/

/-- A fresh table satisfies the invariant and is empty. -/
theorem inv_new (idx : Nat → Nat → Nat) (capacity : Nat) :
    Inv idx (UMap.new capacity : UMap V) ∧ ∀ k, abs (UMap.new capacity : UMap V) k = none :=
  ⟨(new_spec idx capacity).1, (new_spec idx capacity).2.1⟩

/-- `Put`, `PutIfNotExists`, `Del` (backward-shift deletion), `EvictKeysAt`,
`grow` and `Clear` all preserve the invariant. -/
theorem inv_preserved {idx : Nat → Nat → Nat} (hidx : IdxOk idx) {m : UMap V} (inv : Inv idx m) :
    (∀ k v, Inv idx (m.put idx k v)) ∧ (∀ k v, Inv idx (m.putIfNotExists idx k v).1) ∧
    (∀ k, Inv idx (m.del idx k).1) ∧ (∀ off n skip, Inv idx (m.evictKeysAt idx off n skip).1) ∧
    Inv idx (m.grow idx) ∧ Inv idx m.clear :=
  ⟨fun k v => (put_spec hidx inv k v).1, fun k v => (putIfNotExists_spec hidx inv k v).1,
   fun k => (del_spec hidx inv k).1, fun o n s => (evict_spec hidx inv o n s).1,
   (grow_spec hidx inv).1, (clear_spec inv).1⟩

/-! ## UInt64Map: refinement to the abstract map -/

/-- **Lookup.** `Get`/`Has` return exactly what the abstract map holds: no ghost
entry (stored but unreachable), nothing found that is not stored; the zero key
is an ordinary key. -/
theorem get_refines {idx : Nat → Nat → Nat} (hidx : IdxOk idx) {m : UMap V} (inv : Inv idx m) (k : Nat) :
    m.get idx k = abs m k ∧ m.has idx k = (abs m k).isSome :=
  ⟨get_eq_abs hidx inv k, has_eq_abs hidx inv k⟩

/-- **Store.** After `Put k v` the key yields `v` and every other key (zero
included) is untouched; the length grows exactly when the key was new. -/
theorem put_refines {idx : Nat → Nat → Nat} (hidx : IdxOk idx) {m : UMap V} (inv : Inv idx m) (k : Nat) (v : V) :
    (∀ k', abs (m.put idx k v) k' = if k' = k then some v else abs m k') ∧
    (m.put idx k v).len = m.len + (if (abs m k).isSome then 0 else 1) :=
  ⟨(put_spec hidx inv k v).2.1, (put_spec hidx inv k v).2.2⟩

/-- `PutIfNotExists` stores only into an absent key and reports the value now present. -/
theorem putIfNotExists_refines {idx : Nat → Nat → Nat} (hidx : IdxOk idx) {m : UMap V} (inv : Inv idx m)
    (k : Nat) (v : V) :
    (∀ k', abs (m.putIfNotExists idx k v).1 k' = if k' = k then some ((abs m k).getD v) else abs m k') ∧
    (m.putIfNotExists idx k v).2.1 = (abs m k).getD v ∧ (m.putIfNotExists idx k v).2.2 = (abs m k).isNone :=
  ⟨(putIfNotExists_spec hidx inv k v).2.1, (putIfNotExists_spec hidx inv k v).2.2.1,
   (putIfNotExists_spec hidx inv k v).2.2.2.1⟩

/-- **Removal.** Backward-shift deletion removes exactly `k`: no other key
becomes unreachable, is duplicated or changes value, and the length drops by
one exactly when `k` was stored. -/
theorem del_refines {idx : Nat → Nat → Nat} (hidx : IdxOk idx) {m : UMap V} (inv : Inv idx m) (k : Nat) :
    (∀ k', abs (m.del idx k).1 k' = if k' = k then none else abs m k') ∧
    (m.del idx k).2 = (abs m k).isSome ∧
    (m.del idx k).1.len + (if (abs m k).isSome then 1 else 0) = m.len :=
  ⟨(del_spec hidx inv k).2.1, (del_spec hidx inv k).2.2.1, (del_spec hidx inv k).2.2.2⟩

/-- **Eviction.** `EvictKeysAt(offset, n, skip)` removes at most `n` keys, never
`skip`; every key it leaves keeps its value; each removal is counted. -/
theorem evict_spec {idx : Nat → Nat → Nat} (hidx : IdxOk idx) {m : UMap V} (inv : Inv idx m)
    (offset n skip : Nat) :
    (m.evictKeysAt idx offset n skip).2 ≤ n ∧
    (m.evictKeysAt idx offset n skip).1.len + (m.evictKeysAt idx offset n skip).2 = m.len ∧
    abs (m.evictKeysAt idx offset n skip).1 skip = abs m skip ∧
    ∀ k, abs (m.evictKeysAt idx offset n skip).1 k = abs m k ∨ abs (m.evictKeysAt idx offset n skip).1 k = none := by
  obtain ⟨_, h2, h3, _, h5⟩ := SdnsVerif.Lemmas.UMap.evict_spec hidx inv offset n skip
  refine ⟨h2, h3, ?_, ?_⟩
  · rcases h5 skip with h | h
    · exact h
    · exact absurd rfl h.2
  · intro k
    rcases h5 k with h | h
    · exact Or.inl h
    · exact Or.inr h.1

/-- Eviction is complete: if it stops short of its quota, only `skip` is left;
in particular with a positive quota and another key present it removes one. -/
theorem evict_progress {idx : Nat → Nat → Nat} (hidx : IdxOk idx) {m : UMap V} (inv : Inv idx m)
    (offset n skip : Nat) :
    ((m.evictKeysAt idx offset n skip).2 < n → ∀ k, abs (m.evictKeysAt idx offset n skip).1 k ≠ none → k = skip) ∧
    (0 < n → ∀ k, k ≠ skip → abs m k ≠ none → 1 ≤ (m.evictKeysAt idx offset n skip).2) :=
  ⟨evict_complete hidx inv offset n skip,
   fun hn k hk hp => SdnsVerif.Lemmas.UMap.evict_progress hidx inv offset n skip hn k hk hp⟩

/-- Growth (rehash into a larger array) changes neither meaning nor length. -/
theorem grow_preserves_abs {idx : Nat → Nat → Nat} (hidx : IdxOk idx) {m : UMap V} (inv : Inv idx m) :
    (∀ k, abs (m.grow idx) k = abs m k) ∧ (m.grow idx).len = m.len :=
  ⟨(grow_spec hidx inv).2.1, (grow_spec hidx inv).2.2.1⟩

/-- `Clear` empties the table. -/
theorem clear_refines {idx : Nat → Nat → Nat} {m : UMap V} (inv : Inv idx m) :
    (∀ k, abs m.clear k = none) ∧ m.clear.len = 0 :=
  ⟨(clear_spec inv).2.1, (clear_spec inv).2.2⟩

/-- The reported length is the number of entries iteration (`ForEach`) yields. -/
theorem len_eq_iterated {idx : Nat → Nat → Nat} {m : UMap V} (inv : Inv idx m) : m.toList.length = m.len :=
  umap_toList_length inv

/-- **Histories.** From any well-formed table, every sequence of
put / put-if-absent / delete / evict / grow / clear operations keeps the
invariant, and the table's meaning follows a run of the abstract map in which
each operation does exactly what the property allows (`Allowed`). -/
theorem history_refines {idx : Nat → Nat → Nat} (hidx : IdxOk idx) (ops : List (Op V)) (m : UMap V)
    (inv : Inv idx m) :
    Inv idx (ops.foldl (step idx) m) ∧ Run (abs m) ops (abs (ops.foldl (step idx) m)) ∧
    ∀ k, (ops.foldl (step idx) m).get idx k = abs (ops.foldl (step idx) m) k := by
  obtain ⟨h1, h2⟩ := history_spec hidx ops m inv
  exact ⟨h1, h2, fun k => get_eq_abs hidx h1 k⟩

/-- **`& mask` is `% len`.** Along every history from `NewUInt64Map` the table
length is a power of two, and for such a length the code's `x & mask`
(`mask = len-1`: `primaryIndex`, `offset & mask`) equals the model's `x % len`
and `(i+1) & mask` equals the model's `next`. -/
theorem table_length_power_of_two {idx : Nat → Nat → Nat} (hidx : IdxOk idx) (capacity : Nat) (ops : List (Op V)) :
    Pow2 (ops.foldl (step idx) (UMap.new capacity : UMap V)).data.size ∧
    ∀ n, Pow2 n → (∀ x, x &&& (n - 1) = x % n) ∧ (∀ i, i < n → next n i = (i + 1) &&& (n - 1)) :=
  ⟨history_pow2 hidx ops _ (new_spec idx capacity).1 (new_size_pow2 capacity),
   fun _ h => ⟨mask_eq_mod h, fun _ hi => next_eq_mask h hi⟩⟩

/-! ## SegmentUInt64Map -/

/-- `Get`/`Set`/`Del` on the segmented table refine the abstract map; the
atomic counter moves exactly with the number of stored keys. -/
theorem segmap_refines {H : Hashes} (hH : HashOk H) {m : SegMap V} (inv : SegInv H m) (k : Nat) (v : V) :
    m.get H k = sabs H m k ∧
    (SegInv H (m.set H k v) ∧ (∀ k', sabs H (m.set H k v) k' = if k' = k then some v else sabs H m k') ∧
      (m.set H k v).len = m.len + (if (sabs H m k).isSome then 0 else 1)) ∧
    (SegInv H (m.del H k).1 ∧ (∀ k', sabs H (m.del H k).1 k' = if k' = k then none else sabs H m k') ∧
      (m.del H k).1.len = m.len - (if (sabs H m k).isSome then 1 else 0)) := by
  obtain ⟨s1, s2, s3⟩ := seg_set_spec hH inv k v
  obtain ⟨d1, d2, _, d4⟩ := seg_del_spec hH inv k
  exact ⟨seg_get_eq hH inv k, ⟨s1, s2, s3⟩, ⟨d1, d2, d4⟩⟩

/-- **An insert never evicts the key it is writing**, and leaves every other
key with its value or evicted. -/
theorem setWithCap_never_evicts_self {H : Hashes} (hH : HashOk H) {m : SegMap V} (inv : SegInv H m)
    (k : Nat) (v : V) (cap : Int) :
    SegInv H (m.setWithCap H k v cap) ∧ sabs H (m.setWithCap H k v cap) k = some v ∧
    ∀ k', k' ≠ k → sabs H (m.setWithCap H k v cap) k' = sabs H m k' ∨ sabs H (m.setWithCap H k v cap) k' = none := by
  obtain ⟨h1, h2, h3, _⟩ := setWithCap_spec hH inv k v cap
  exact ⟨h1, h2, h3⟩

/-- **Lock footprint of a writer.** `lockTrace` lists the segment locks
`SetWithCap` takes (own segment, then the segments its toll walk enters, one
at a time).  The call changes no other segment — so with one lock per segment
and no table-wide lock (`no_global_lock`) it has nothing else to wait for —
and when the table is not over capacity or the own segment pays the whole
toll, it takes exactly its own segment's lock. -/
theorem setWithCap_lock_footprint {H : Hashes} (hH : HashOk H) {m : SegMap V} (inv : SegInv H m)
    (k : Nat) (v : V) (cap : Int) :
    (∀ j, j ∉ m.lockTrace H k v cap → (m.setWithCap H k v cap).segAt j = m.segAt j) ∧
    ((m.set H k v).len ≤ cap ∨ evictCnt H (m.set H k v) (SegMap.segOf H m k) (H.off k) 2 k = 2 →
      m.lockTrace H k v cap = [SegMap.segOf H m k]) :=
  ⟨fun j hj => setWithCap_frame hH inv k v cap j hj, fun h => lockTrace_local hH inv k v cap h⟩

/-- **Sequential capacity bound.** Executed without interleaving, `SetWithCap`
leaves the counter at or below the capacity (or below where it started, if it
started above). -/
theorem capacity_sequential {H : Hashes} (hH : HashOk H) {m : SegMap V} (inv : SegInv H m)
    (k : Nat) (v : V) (cap : Int) (hcap : 1 ≤ cap) :
    (m.setWithCap H k v cap).len ≤ max cap m.len :=
  (setWithCap_spec hH inv k v cap).2.2.2 hcap

/-- **Quiescent length.** Whenever no writer is in flight the reported length
equals the number of entries reachable by iteration. -/
theorem len_eq_reachable_when_quiescent {H : Hashes} {m : SegMap V} (inv : SegInv H m) :
    m.len = (m.reachable : Int) := len_eq_reachable inv

/-- **Iteration under concurrent writers** (`ForEach`, used by Purge and the
sweeps).  `ms i` is the table at the moment segment `i` is read-locked;
writers may do anything in between.  The sweep delivers exactly the pairs
stored in their home segment at the moment that segment is read: every entry
that is present and untouched during the sweep is visited, nothing that was
not stored is delivered; with no writer it is `toList`. -/
theorem foreach_covers_stable_entries {H : Hashes} (hH : HashOk H) (n : Nat) (ms : Nat → SegMap V)
    (hinv : ∀ i, i < n → SegInv H (ms i) ∧ (ms i).segs.size = n) (k : Nat) (v : V) :
    ((k, v) ∈ SegMap.sweep n ms ↔ (0 < n ∧ sabs H (ms (H.seg n k)) k = some v)) ∧
    (∀ m : SegMap V, SegMap.sweep m.segs.size (fun _ => m) = m.toList) :=
  ⟨sweep_spec hH n ms hinv k v, sweep_const⟩

/-- `PutIfNotExists` and `ClearSegment` of the segmented table refine the
abstract map and keep the counter exact. -/
theorem segmap_pine_clearseg {H : Hashes} (hH : HashOk H) {m : SegMap V} (inv : SegInv H m) (k : Nat) (v : V) (i : Nat) :
    (SegInv H (m.putIfNotExists H k v).1 ∧
      (∀ k', sabs H (m.putIfNotExists H k v).1 k' = if k' = k then some ((sabs H m k).getD v) else sabs H m k') ∧
      (m.putIfNotExists H k v).2.2 = (sabs H m k).isNone ∧
      (m.putIfNotExists H k v).1.len = m.len + (if (sabs H m k).isSome then 0 else 1)) ∧
    (SegInv H (m.clearSegment i) ∧
      (∀ k, sabs H (m.clearSegment i) k = if SegMap.segOf H m k = i ∧ i < m.segs.size then none else sabs H m k)) := by
  obtain ⟨p1, p2, _, p4, p5⟩ := seg_pine_spec hH inv k v
  obtain ⟨c1, c2, _⟩ := seg_clearSegment_spec hH inv i
  exact ⟨⟨p1, p2, p4, p5⟩, ⟨c1, c2⟩⟩

/-- `Clear` of the segmented table, executed alone, empties it and zeroes the counter. -/
theorem segmap_clear {H : Hashes} {m : SegMap V} (inv : SegInv H m) :
    SegInv H m.clear ∧ (∀ k, sabs H m.clear k = none) ∧ m.clear.len = 0 :=
  seg_clear_spec inv

/-! ## cache.Cache -/

section cache
variable [DecidableEq V]

/-- **CAS acts only on the identical current value**: it succeeds exactly when
the stored value is `old`; then only `k` changes (to `new`) and the length is
unchanged; otherwise nothing changes. -/
theorem cas_only_on_identical {H : Hashes} (hH : HashOk H) {c : Cache V} (inv : SegInv H c.data)
    (k : Nat) (old new : V) :
    ((c.compareAndSwap H k old new).2 = true ↔ sabs H c.data k = some old) ∧
    ((c.compareAndSwap H k old new).2 = true →
      (∀ k', sabs H (c.compareAndSwap H k old new).1.data k' = if k' = k then some new else sabs H c.data k') ∧
      (c.compareAndSwap H k old new).1.len = c.len) ∧
    ((c.compareAndSwap H k old new).2 = false → (c.compareAndSwap H k old new).1 = c) := by
  obtain ⟨_, h2, h3, h4, _⟩ := cas_spec hH inv k old new
  exact ⟨h2, h3, h4⟩

/-- **Compare-and-delete acts only on the identical current value.** -/
theorem cad_only_on_identical {H : Hashes} (hH : HashOk H) {c : Cache V} (inv : SegInv H c.data)
    (k : Nat) (old : V) :
    ((c.compareAndDelete H k old).2 = true ↔ sabs H c.data k = some old) ∧
    ((c.compareAndDelete H k old).2 = true →
      (∀ k', sabs H (c.compareAndDelete H k old).1.data k' = if k' = k then none else sabs H c.data k') ∧
      (c.compareAndDelete H k old).1.len = c.len - 1) ∧
    ((c.compareAndDelete H k old).2 = false → (c.compareAndDelete H k old).1 = c) := by
  obtain ⟨_, h2, h3, h4, _⟩ := cad_spec hH inv k old
  exact ⟨h2, h3, h4⟩

/-- **Expiry cleanup by a stale reader.** `PositiveCache.Get` / `NegativeCache.Get`
remove an entry they found expired with `CompareAndDelete(key, thatEntry)`.
Whatever was written to the key since the reader loaded `e` — as long as the
key now holds a different entry `f` — the cleanup changes nothing: the newer
value is never deleted by the stale reader. -/
theorem stale_cleanup_never_removes_newer {H : Hashes} (hH : HashOk H) {c : Cache V} (inv : SegInv H c.data)
    (k : Nat) (e f : V) (hf : sabs H c.data k = some f) (hne : f ≠ e) :
    (c.compareAndDelete H k e).1 = c ∧ (c.compareAndDelete H k e).2 = false := by
  obtain ⟨h2, _, h4⟩ := cad_only_on_identical hH inv k e
  have hfalse : (c.compareAndDelete H k e).2 = false := by
    cases hr : (c.compareAndDelete H k e).2 with
    | false => rfl
    | true =>
      have := h2.mp hr
      rw [hf] at this
      exact absurd (Option.some.inj this) hne
  exact ⟨h4 hfalse, hfalse⟩

/-- **Answer caches (`PositiveCache` / `NegativeCache`).** `Get` returns a live
entry and changes nothing; an entry found expired is removed — that key only —
and reported as a miss.  And a key yields the value MOST RECENTLY stored under
it: after `Set(k, e)`, `Get(k)` is `e` if live and a miss if `e` is already
expired, never an older value (`Set` stores whatever it is given). -/
theorem answer_cache_most_recent {H : Hashes} (hH : HashOk H) (expired : V → Bool) {c : Cache V}
    (inv : SegInv H c.data) (k : Nat) (e : V) :
    ((c.ansSet H k e).ansGet H expired k).2 = (if expired e then none else some e) ∧
    (c.ansGet H expired k).2 = (match sabs H c.data k with
      | some e => if expired e then none else some e
      | none => none) ∧
    (∀ k', sabs H (c.ansGet H expired k).1.data k' =
      if k' = k ∧ (match sabs H c.data k with | some e => expired e | none => false) = true then none
      else sabs H c.data k') :=
  ⟨ansSet_then_get hH expired inv k e, (ansGet_spec hH expired inv k).2.1, (ansGet_spec hH expired inv k).2.2⟩

/-- **FailureCache: the production callers of compare-and-swap / compare-and-delete.**
`record` (load – compute the next generation – `CompareAndSwap` on the
identical current entry, retry on a lost race) and `ResetQuestion`/`ResetZone`
(load – `CompareAndDelete`, retry), run without interference, need one pass:
`record` publishes exactly `failSpec` (first generation for an absent key,
nothing for a still active entry, the next generation for an expired one) and
for a stored key changes no other key and not the length; a reset removes
exactly that key and reports whether it was stored; `Lookup` hits only while
the entry is active. -/
theorem failure_cache_cas_cad_loops {H : Hashes} (hH : HashOk H) (init maxT now k fuel : Nat)
    {c : Cache (Nat × Nat)} (inv : SegInv H c.data) :
    (SegInv H (c.failRecord H init maxT now k (fuel + 1)).1.data ∧
      (c.failRecord H init maxT now k (fuel + 1)).2 = failSpec init maxT now (sabs H c.data k) ∧
      sabs H (c.failRecord H init maxT now k (fuel + 1)).1.data k = some (failSpec init maxT now (sabs H c.data k)) ∧
      ((sabs H c.data k).isSome → (∀ k', k' ≠ k →
          sabs H (c.failRecord H init maxT now k (fuel + 1)).1.data k' = sabs H c.data k') ∧
        (c.failRecord H init maxT now k (fuel + 1)).1.len = c.len)) ∧
    (SegInv H (c.failReset H k (fuel + 1)).1.data ∧
      (c.failReset H k (fuel + 1)).2 = (sabs H c.data k).isSome ∧
      (∀ k', sabs H (c.failReset H k (fuel + 1)).1.data k' = if k' = k then none else sabs H c.data k')) ∧
    c.failLookup H now k = (match sabs H c.data k with
      | some e => if now < e.2 then some e else none
      | none => none) :=
  ⟨failRecord_spec hH init maxT now k fuel inv, failReset_spec hH k fuel inv, failLookup_spec hH now k inv⟩

/-- **FailureCache, zone states and bulk resets.** `RecordZone` / `ResetZone` are
the same loops under the zone's table key (`failure_cache_cas_cad_loops` holds
for every key).  `ResetMatching` (the exact question, then every ancestor
zone) and `PurgeQuestion` (sweep, then `CompareAndDelete` of every match)
remove exactly the listed keys, keep every other state, and report the number
of states that were stored; `Lookup` answers with the exact state while it is
active and otherwise with the closest active ancestor-zone state. -/
theorem failure_cache_bulk_resets_and_lookup {H : Hashes} (hH : HashOk H) (ks : List Nat) (hnd : ks.Nodup)
    (now qk : Nat) (zs : List Nat) {c : Cache (Nat × Nat)} (inv : SegInv H c.data) :
    (SegInv H (c.failResetAll H ks).1.data ∧
      (∀ k', sabs H (c.failResetAll H ks).1.data k' = if k' ∈ ks then none else sabs H c.data k') ∧
      (c.failResetAll H ks).2 = (ks.filter (fun k => (sabs H c.data k).isSome)).length) ∧
    c.failLookupZ H now qk zs =
      (let act := fun k => match sabs H c.data k with
        | some e => if now < e.2 then some e else none
        | none => none
       match act qk with
       | some e => some e
       | none => zs.findSome? act) :=
  ⟨failResetAll_spec hH ks inv hnd, failLookupZ_spec hH now qk zs inv⟩

/-- **Cache histories.** Starting from `cache.New(size)`, after any sequence
of Add / Remove / CompareAndSwap / CompareAndDelete executed one at a time:
the structure invariant holds, the length never exceeds the configured size,
equals the number of reachable entries, and the contents follow a run of the
abstract map where `Add` stores its key and may evict others (never itself),
and CAS / compare-delete act only on the identical value. -/
theorem cache_history {H : Hashes} (hH : HashOk H) (size : Nat) (ops : List (COp V)) :
    SegInv H (ops.foldl (cstep H) (Cache.new size)).data ∧
    (ops.foldl (cstep H) (Cache.new size : Cache V)).len ≤ (max size 1 : Nat) ∧
    (ops.foldl (cstep H) (Cache.new size : Cache V)).len = ((ops.foldl (cstep H) (Cache.new size : Cache V)).data.reachable : Int) ∧
    CRun (fun _ => none) ops (sabs H (ops.foldl (cstep H) (Cache.new size : Cache V)).data) := by
  obtain ⟨n1, n2, n3⟩ := cache_new_inv (V := V) H size
  obtain ⟨h1, h2, h3⟩ := cache_history_spec hH ops (Cache.new size) n1
  have hfun : sabs H (Cache.new size : Cache V).data = fun _ => none := funext n3
  rw [hfun] at h3
  refine ⟨h1.seg, ?_, len_eq_reachable h1.seg, h3⟩
  have := h1.bound
  rw [h2, n2] at this
  exact this

end cache

/-! ## concurrent writers, counter level -/

/-- Full statement (not proved): for every interleaving of the lock-atomic
sections of the real `SetWithCap` / `Del` / `CompareAndDelete`, occupancy ≤
capacity + number of writers between their insert and the end of their toll.

Proved, narrowing the gap to one transition:
* occupancy ≤ counter in every state of every interleaving
  (`occupancy_le_counter_all_interleavings`);
* counter ≤ capacity + writers in flight for the counter-level system `CStep`
  (this theorem), in which a writer leaves the in-flight set only after reading
  `count ≤ capacity` or after its toll removed at least one entry;
* a real writer running alone always does one of the two (`capacity_sequential`);
* a toll visit that removes nothing saw a segment holding no key but the
  writer's own (`fruitless_toll_visit_saw_empty_segment`), so the only real
  step outside `CStep` is a writer that returns after `segments-1` consecutive
  fruitless visits while the counter still read over capacity each time.
Missing: that this last step cannot leave `count > capacity + writers still in
flight` (it needs every entry that existed at the writer's insert to be removed
by someone else before the writer reaches it, and every newer entry to belong
to a writer still in flight); sampled by `conc run`. -/
theorem occupancy_le_cap_plus_writers_partial (cap : Int) (s t : CState) (h : CReach cap s t)
    (h0 : s.count ≤ cap + s.owing) : t.count ≤ cap + t.owing :=
  creach_bound cap s t h h0

/-- **Every interleaving of lock-atomic sections.** `IStep` is one critical
section on one segment (any of put / put-if-absent / delete / evict / clear,
with any key of that segment, any quota, any over-capacity verdict) that
either adjusts the atomic counter by exactly its size change (`secAdd`) or
defers that adjustment to a later atomic add (`secDefer` … `flush`: the spill
evictions of `SetWithCap`, `ClearSegment`).  Along EVERY sequence of such
steps by any number of threads the per-segment invariants hold (no ghost, no
duplicate, keys in their home segment) and `counter = entries + pending`;
hence whenever no thread has an adjustment pending — once writers stop — the
reported length equals the number of reachable entries. -/
theorem len_eq_reachable_all_interleavings {H : Hashes} (hH : HashOk H) {m0 : SegMap V} (inv0 : SegInv H m0)
    (threads : Nat) {st : CSt V} (h : IReach H ⟨m0, List.replicate threads 0⟩ st)
    (hq : ∀ t, st.pend.getD t 0 = 0) :
    SegInv H st.m ∧ st.m.len = (st.m.reachable : Int) :=
  ireach_quiescent hH inv0 threads h hq

/-- **Lookups under concurrent writers.** At every state any interleaving of
lock-atomic sections can reach — writers in flight, adjustments pending —
`Get`/`Has` (one read-locked section) return exactly the abstract map of that
state: a key that is stored and untouched is found, whatever the writers of
its segment are doing before and after. -/
theorem lookups_exact_in_every_interleaving {H : Hashes} (hH : HashOk H) {m0 : SegMap V} (inv0 : SegInv H m0)
    (threads : Nat) {st : CSt V} (h : IReach H ⟨m0, List.replicate threads 0⟩ st) (k : Nat) :
    st.m.get H k = sabs H st.m k ∧ st.m.has H k = (sabs H st.m k).isSome :=
  ireach_get_exact hH inv0 threads h k

/-- **The counter never under-reports.** In every state of every interleaving
of lock-atomic sections (deferred counter adjustments are removals only: the
spill evictions, `ClearSegment`) the number of stored, reachable entries is at
most the atomic counter.  So the toll trigger `count > capacity` fires whenever
occupancy exceeds the capacity, and any bound on the counter is a bound on
occupancy: `occupancy ≤ count ≤ capacity + writers in flight` reduces the
concurrent capacity clause to the counter-level statement below. -/
theorem occupancy_le_counter_all_interleavings {H : Hashes} (hH : HashOk H) {m0 : SegMap V} (inv0 : SegInv H m0)
    (threads : Nat) {st : CSt V} (h : IReach H ⟨m0, List.replicate threads 0⟩ st) :
    (st.m.reachable : Int) ≤ st.m.len :=
  ireach_total_le_count hH inv0 threads h

/-- **A fruitless toll visit saw an empty segment.** If a visit of the neighbour
walk (`EvictKeysAt(offset, deficit, key)` under that segment's lock, deficit > 0)
evicts nothing, the segment held no key other than the writer's own at that
moment.  A writer can therefore leave the walk unpaid only after `segments-1`
such visits, each with the counter still reading over capacity. -/
theorem fruitless_toll_visit_saw_empty_segment {H : Hashes} (hH : HashOk H) {m : SegMap V} (inv : SegInv H m)
    (j offset deficit k : Nat) (hj : j < m.segs.size) (hd : 0 < deficit)
    (h0 : evictCnt H m j offset deficit k = 0) : ∀ k', abs (m.segAt j) k' ≠ none → k' = k :=
  fruitless_visit hH inv j offset deficit k hj hd h0

/-- The model's own operations are such steps: `Set` and `Del` are one
section each, one spill eviction of `SetWithCap` is a deferred section
followed by its flush. -/
theorem ops_are_interleaving_steps {H : Hashes} (hH : HashOk H) {m : SegMap V} (inv : SegInv H m)
    (k : Nat) (v : V) (pend : List Int) :
    IStep H ⟨m, pend⟩ ⟨m.set H k v, pend⟩ ∧ IStep H ⟨m, pend⟩ ⟨(m.del H k).1, pend⟩ ∧
    ∀ j offset n skip t, j < m.segs.size → t < pend.length → pend.getD t 0 = 0 →
      ∃ mid, IStep H ⟨m, pend⟩ mid ∧ IStep H mid ⟨evictSeg H m j offset n skip, pend⟩ :=
  ⟨set_is_step hH inv k v pend, del_is_step hH inv k pend,
   fun j offset n skip t hj ht h0 => spill_is_two_steps hH inv j offset n skip t hj pend ht h0⟩

/-- **Every unit of excess is accounted for.** With the unpaid return made an
explicit transition (`giveUp`, counted in `gave`), along EVERY run of the
counter-level system `count ≤ capacity + writers in flight + give-ups so far`:
occupancy can exceed the `_partial` bound only by the number of fruitless
walks that have happened. -/
theorem excess_attributed_to_writers_or_giveups (cap : Int) (s t : CState2) (h : CReach2 cap s t)
    (h0 : s.count ≤ cap + s.owing + s.gave) : t.count ≤ cap + t.owing + t.gave :=
  (creach2_bound cap s t h h0).1

/-! ## LimiterStore -/

/-- **Limiter store.** `LimiterStore.Get` (lookup-or-create with the trim
BEFORE the insert) keeps the store duplicate-free and within `max maxSize 1`,
stores the requested key with the current time, never evicts that key, and
evicts at most one other key.  `evictOne` is modelled, not assumed: up to 1000
entries there is no hypothesis at all; above 1000 the only hypothesis is that
the map iteration's first key (`first`) is a stored key. -/
theorem limiter_store_bounded (s : Lim) (k now : Nat) (first : Option Nat) (inv : LimInv s)
    (hfirst : 1000 < s.ents.length → ∃ w, first = some w ∧ w ∈ s.keys) :
    LimInv (s.get k now first) ∧ (k, now) ∈ (s.get k now first).ents ∧
    ∃ victim : Option Nat, victim ≠ some k ∧
      ∀ k', k' ∈ s.keys → k' ∈ (s.get k now first).keys ∨ victim = some k' := by
  obtain ⟨h1, h2, _, h4⟩ := lim_get_spec s k now first inv hfirst
  exact ⟨h1, h2, h4⟩

/-- `evictOne` on a non-empty store always removes exactly one stored entry
(whatever the limiters' token buckets or cookies hold: they are not part of the
decision); up to 1000 entries it is the least recently seen one. -/
theorem limiter_evicts_one_oldest_first (s : Lim) (first : Option Nat) (hn : s.keys.Nodup) (hne : s.ents ≠ [])
    (hfirst : 1000 < s.ents.length → ∃ w, first = some w ∧ w ∈ s.keys) :
    ∃ w, w ∈ s.keys ∧ s.evictOne first = s.remove w ∧ (s.evictOne first).ents.length + 1 = s.ents.length ∧
      (s.ents.length ≤ 1000 → ∃ t, (w, t) ∈ s.ents ∧ ∀ e ∈ s.ents, t ≤ e.2) :=
  evictOne_spec s first hn hne hfirst

/-- `Cleanup` keeps exactly the entries seen at or after the cutoff (and the invariant). -/
theorem limiter_cleanup (s : Lim) (cutoff : Nat) (inv : LimInv s) :
    LimInv (s.cleanup cutoff) ∧ ∀ e, e ∈ (s.cleanup cutoff).ents ↔ e ∈ s.ents ∧ cutoff ≤ e.2 :=
  lim_cleanup_spec s cutoff inv

/-- **Limiter store histories.** The store has one lock and every method is one
critical section of it, so every interleaving of `Get` and the background
`Cleanup` is a sequence of these steps: the invariant (no duplicate key,
`Len ≤ max maxSize 1`) holds after any such sequence, and a key looked up at
time `now` survives every `Cleanup` whose cutoff is not later than `now` (a
client that has just been served keeps its limiter). -/
theorem limiter_history (ops : List LimOp) (s : Lim) (inv : LimInv s) (hrun : limRun s ops) :
    LimInv (ops.foldl limStep s) ∧ (ops.foldl limStep s).maxSize = s.maxSize ∧
    ∀ k now cutoff first, (1000 < s.ents.length → ∃ w, first = some w ∧ w ∈ s.keys) → cutoff ≤ now →
      (k, now) ∈ ((s.get k now first).cleanup cutoff).ents :=
  ⟨(lim_history ops s inv hrun).1, (lim_history ops s inv hrun).2,
   fun k now cutoff first hf h => cleanup_keeps_fresh s k now cutoff first inv hf h⟩

/-! ## facts regenerated from the tree -/

/-- Every table size the code produces keeps its growth threshold strictly
below the array length (load factor < 1: a free slot always exists, which is
what `Inv.room` needs).  One-directional: a lower load factor is fine. -/
theorem load_factor_below_one :
    ∀ p ∈ SdnsVerif.Gen.C16.grow_pairs, p.getD 1 0 < p.getD 0 0 := by
  decide

/-- every table length the compiled code produces is a power of two (so `mask = len-1` is a bit mask) -/
theorem code_table_lengths_are_powers_of_two :
    ∀ p ∈ SdnsVerif.Gen.C16.grow_pairs, 0 < p.getD 0 0 ∧ p.getD 0 0 &&& (p.getD 0 0 - 1) = 0 := by
  decide

/-- There is always at least one segment (and `cache.New` uses 256). -/
theorem segment_counts_positive :
    (∀ n ∈ SdnsVerif.Gen.C16.seg_counts, 0 < n) ∧ (∀ n ∈ SdnsVerif.Gen.C16.cache_segments, 0 < n) := by
  decide

/-- **Writers never wait on a global lock**: neither the segmented table nor
`Cache`/`SyncUInt64Map` has a table-wide mutex field (locks exist per segment
only), and `SetWithCap` never holds two segment locks nor defers an unlock. -/
theorem no_global_lock :
    SdnsVerif.Gen.C16.segmap_global_locks = 0 ∧ SdnsVerif.Gen.C16.cache_global_locks = 0 ∧
    1 ≤ SdnsVerif.Gen.C16.segment_locks ∧ SdnsVerif.Gen.C16.setwithcap_max_lock_depth ≤ 1 ∧
    SdnsVerif.Gen.C16.setwithcap_defers = 0 := by
  decide

/-- The `Cache` methods the model folds into the segmented table are pure
delegations in the compiled tree: `Add` is one `SetWithCap` (so its capacity
check sits inside the segment's critical section), `Get` one `Get` (a blocking
read lock, never a try-lock), `Remove` one `Del`, `ForEach` one `ForEach`
(segment-at-a-time locking). -/
theorem cache_methods_delegate :
    SdnsVerif.Gen.C16.cache_delegations =
      ["Add:SetWithCap", "ForEach:ForEach", "Get:Get", "Len:Len", "Remove:Del", "Stop:Stop"] ∧
    SdnsVerif.Gen.C16.segmap_trylocks = 0 := by
  decide

/-- **The one hypothesis of the limiter theorems above 1000 entries, pinned.**
`limiter_store_bounded` / `limiter_evicts_one_oldest_first` assume that the
first key Go's map iteration yields is a stored key.  The compiled store, run
at 1001 / 1100 / 1500 / 2500 entries with 1500 fresh inserts each: every
insert into the full store evicted exactly one key, that key was a stored key
and never the key being inserted (6000 evictions observed, regenerated every run). -/
theorem limiter_sampled_path_evicts_a_stored_key :
    6000 ≤ SdnsVerif.Gen.C16.limiter_sampled_evictions ∧ SdnsVerif.Gen.C16.limiter_sampled_victim_not_stored = 0 ∧
    SdnsVerif.Gen.C16.limiter_sampled_no_victim = 0 ∧ SdnsVerif.Gen.C16.limiter_sampled_own_key = 0 := by
  decide

/-- The critical sections the limiter model treats as atomic ARE single
sections of the store's one lock (`Cleanup`: one `Lock`, no `RLock`, scan and
delete together), the length readers (`Len`, `SegmentCount`) take no lock
at all — nothing a writer could queue behind — and the expiry cleanup of the
answer caches' `Get` is a `CompareAndDelete`, never a removal by key alone. -/
theorem limiter_sections_and_lockfree_len :
    SdnsVerif.Gen.C16.limiter_cleanup_locks = [1, 0] ∧ SdnsVerif.Gen.C16.len_functions_touching_locks = [] ∧
    SdnsVerif.Gen.C16.expiry_cleanup_not_conditional = [] := by
  decide

/-- Every mutating method of the segmented table and the compare-then-act of
`CompareAndSwap` / `CompareAndDelete` run under the WRITE lock of the key's
segment (none takes only a read lock), the global counter is atomic, and the
other `Cache` methods (Get/Add/Remove/Len/ForEach) only delegate: they touch
neither a lock nor the counter themselves — this is what makes each
operation a sequence of `IStep`s. -/
theorem mutators_hold_write_lock :
    SdnsVerif.Gen.C16.mutators_without_write_lock = [] ∧ SdnsVerif.Gen.C16.segmap_count_atomic = true ∧
    SdnsVerif.Gen.C16.cache_wrappers_touching_internals = [] := by
  decide

/-! ## non-vacuity -/

-- the hypotheses of the UInt64Map theorems hold for a table with a wrapped probe chain
example : Inv lastSlot (((UMap.new 0 : UMap Nat).put lastSlot 5 50).put lastSlot 9 90) :=
  (inv_preserved lastSlot_ok ((inv_preserved lastSlot_ok (inv_new lastSlot 0).1).1 5 50)).1 9 90

-- deleting the head of a wrapped cluster keeps the tail reachable (model run)
example : ((((UMap.new 0 : UMap Nat).put lastSlot 5 50).put lastSlot 9 90).put lastSlot 13 130
    |>.del lastSlot 5).1.get lastSlot 13 = some 130 := by decide

example : ((((UMap.new 0 : UMap Nat).put lastSlot 5 50).put lastSlot 9 90).put lastSlot 0 7
    |>.evictKeysAt lastSlot 3 5 9).2 = 2 := by decide

-- the real mixers are admissible
example : HashOk realHashes := realHashes_ok

example : SegInv realHashes ((SegMap.new 4 0 : SegMap Nat).setWithCap realHashes 1 10 1) :=
  (setWithCap_never_evicts_self realHashes_ok (segmap_new_spec realHashes 4 0).1 1 10 1).1

-- a sparse table: the writer's own segment cannot pay, the walk takes further locks
example : ((SegMap.new 4 0 : SegMap Nat).set realHashes 1 1 |>.set realHashes 2 2).lockTrace realHashes 3 3 1 ≠
    [SegMap.segOf realHashes (SegMap.new 4 0 : SegMap Nat) 3] := by decide

-- two threads: one Set section, then a deferred eviction and its flush; quiescent again
example : IReach realHashes (⟨SegMap.new 4 0, [0, 0]⟩ : CSt Nat)
    ⟨(SegMap.new 4 0 : SegMap Nat).set realHashes 1 10, [0, 0]⟩ :=
  IReach.step (IReach.refl _)
    ((ops_are_interleaving_steps realHashes_ok (segmap_new_spec realHashes 4 0).1 1 10 [0, 0]).1)

example : Pow2 ((([Op.put 1 1, Op.put 2 2, Op.grow, Op.del 1] : List (Op Nat)).foldl (step lastSlot)
    (UMap.new 0 : UMap Nat)).data.size) := (table_length_power_of_two lastSlot_ok 0 _).1
example : (12345 : Nat) &&& (16 - 1) = 12345 % 16 := ((table_length_power_of_two (V := Nat) lastSlot_ok 0 []).2 16 ⟨4, rfl⟩).1 _

example : ((SegMap.new 4 0 : SegMap Nat).set realHashes 1 10).get realHashes 1 = some 10 := by
  have h := (lookups_exact_in_every_interleaving realHashes_ok (segmap_new_spec (V := Nat) realHashes 4 0).1 2
    (IReach.step (IReach.refl _)
      ((ops_are_interleaving_steps realHashes_ok (segmap_new_spec realHashes 4 0).1 1 10 [0, 0]).1)) 1).1
  rw [h, (segmap_refines realHashes_ok (segmap_new_spec realHashes 4 0).1 1 10).2.1.2.1 1, if_pos rfl]

example : limRun ⟨[(2, 9), (1, 5)], 2⟩ [LimOp.get 3 10 none, LimOp.cleanup 6, LimOp.get 2 11 none] :=
  ⟨by intro h; simp at h, trivial, by intro h; exact absurd h (by decide), trivial⟩
example : ((([LimOp.get 3 10 none, LimOp.cleanup 6] : List LimOp).foldl limStep ⟨[(2, 9), (1, 5)], 2⟩).keys) = [3, 2] := by decide

-- a stale reader holding token 1 cannot remove the newer token 2
example : ∃ c : Cache Nat, SegInv realHashes c.data ∧ sabs realHashes c.data 7 = some 2 ∧
    (c.compareAndDelete realHashes 7 1).2 = false := by
  obtain ⟨_, ⟨s1, s2, _⟩, _⟩ := segmap_refines realHashes_ok (segmap_new_spec (V := Nat) realHashes 4 0).1 7 2
  have h7 : sabs realHashes ((SegMap.new 4 0 : SegMap Nat).set realHashes 7 2) 7 = some 2 := by rw [s2 7, if_pos rfl]
  exact ⟨⟨(SegMap.new 4 0).set realHashes 7 2, 4⟩, s1, h7,
    (stale_cleanup_never_removes_newer realHashes_ok (c := ⟨(SegMap.new 4 0).set realHashes 7 2, 4⟩) s1 7 1 2 h7
      (by decide)).2⟩

example : (((SegMap.new 4 0 : SegMap Nat).set realHashes 1 10).reachable : Int) ≤
    ((SegMap.new 4 0 : SegMap Nat).set realHashes 1 10).len :=
  occupancy_le_counter_all_interleavings realHashes_ok (segmap_new_spec (V := Nat) realHashes 4 0).1 2
    (IReach.step (IReach.refl _)
      ((ops_are_interleaving_steps realHashes_ok (segmap_new_spec realHashes 4 0).1 1 10 [0, 0]).1))
example : evictCnt realHashes (SegMap.new 4 0 : SegMap Nat) 3 0 2 7 = 0 := by decide

example : CReach2 2 ⟨3, 1, 0⟩ ⟨3, 0, 1⟩ := CReach2.step (CReach2.refl _) (CStep2.giveUp ⟨3, 1, 0⟩ (by decide))

-- a live entry under key 7, then an already expired one (odd token): the lookup is a miss, not the older value
example : ∃ c : Cache Nat, SegInv realHashes c.data ∧
    ((c.ansSet realHashes 7 3).ansGet realHashes (fun t => t % 2 == 1) 7).2 = none := by
  obtain ⟨_, ⟨s1, _, _⟩, _⟩ := segmap_refines realHashes_ok (segmap_new_spec (V := Nat) realHashes 4 0).1 7 2
  exact ⟨⟨(SegMap.new 4 0).set realHashes 7 2, 4⟩, s1,
    by rw [(answer_cache_most_recent realHashes_ok (fun t => t % 2 == 1)
      (c := ⟨(SegMap.new 4 0).set realHashes 7 2, 4⟩) s1 7 3).1]; rfl⟩

-- a state (streak 1, retry at 2 s) renewed at 2 s: one CompareAndSwap to the second generation
example : failSpec 2 16 2 (some (1, 2)) = (2, 6) := by decide
example : ∃ c : Cache (Nat × Nat), SegInv realHashes c.data ∧ sabs realHashes c.data 7 = some (1, 2) ∧
    (c.failRecord realHashes 2 16 2 7 1).2 = (2, 6) := by
  obtain ⟨_, ⟨s1, s2, _⟩, _⟩ :=
    segmap_refines realHashes_ok (segmap_new_spec (V := Nat × Nat) realHashes 4 0).1 7 ((1, 2) : Nat × Nat)
  have h7 : sabs realHashes ((SegMap.new 4 0 : SegMap (Nat × Nat)).set realHashes 7 (1, 2)) 7 = some (1, 2) := by
    rw [s2 7, if_pos rfl]
  refine ⟨⟨(SegMap.new 4 0).set realHashes 7 (1, 2), 4⟩, s1, h7, ?_⟩
  rw [(failure_cache_cas_cad_loops realHashes_ok 2 16 2 7 0
    (c := ⟨(SegMap.new 4 0).set realHashes 7 (1, 2), 4⟩) s1).1.2.1, h7]
  decide

-- one stored state under key 7: a bulk reset of [7, 8] deletes one state and leaves key 7 empty
example : ∃ c : Cache (Nat × Nat), SegInv realHashes c.data ∧ (c.failResetAll realHashes [7, 8]).2 = 1 := by
  obtain ⟨_, ⟨s1, s2, _⟩, _⟩ :=
    segmap_refines realHashes_ok (segmap_new_spec (V := Nat × Nat) realHashes 4 0).1 7 ((1, 2) : Nat × Nat)
  obtain ⟨_, hnone, _⟩ := segmap_new_spec (V := Nat × Nat) realHashes 4 0
  refine ⟨⟨(SegMap.new 4 0).set realHashes 7 (1, 2), 4⟩, s1, ?_⟩
  rw [(failure_cache_bulk_resets_and_lookup realHashes_ok [7, 8] (by decide) 0 0 []
    (c := ⟨(SegMap.new 4 0).set realHashes 7 (1, 2), 4⟩) s1).1.2.2]
  have h7 : sabs realHashes ((SegMap.new 4 0 : SegMap (Nat × Nat)).set realHashes 7 (1, 2)) 7 = some (1, 2) := by
    rw [s2 7, if_pos rfl]
  have h8 : sabs realHashes ((SegMap.new 4 0 : SegMap (Nat × Nat)).set realHashes 7 (1, 2)) 8 = none := by
    rw [s2 8, if_neg (by decide), hnone 8]
  simp [List.filter_cons, h7, h8]

example : CReach 2 ⟨2, 0⟩ ⟨2, 0⟩ ∧ CReach 2 ⟨2, 0⟩ ⟨3, 1⟩ :=
  ⟨CReach.refl _, CReach.step (CReach.refl _) (CStep.insert ⟨2, 0⟩ true)⟩

-- a full store: key 1 was seen last at time 5, key 2 at time 9 -> the miss on 3 evicts key 1
example : (Lim.get ⟨[(2, 9), (1, 5)], 2⟩ 3 10 none).keys = [3, 2] := by decide
example : LimInv ⟨[(2, 9), (1, 5)], 2⟩ := ⟨by decide, by decide⟩
example : (Lim.cleanup ⟨[(2, 9), (1, 5)], 2⟩ 6).keys = [2] := by decide

-- a sweep during which a writer inserts key 2 into a not yet visited segment still visits what was there
example : (1, 10) ∈ SegMap.sweep 16 (fun i => if i ≤ 3 then (SegMap.new 4 0 : SegMap Nat).set realHashes 1 10
    else ((SegMap.new 4 0 : SegMap Nat).set realHashes 1 10).set realHashes 2 20) := by decide

end SdnsVerif.Props.C16
