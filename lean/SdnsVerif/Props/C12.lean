import SdnsVerif.Model.Work
import SdnsVerif.Lemmas.Work
import SdnsVerif.Gen.C12
/-!
# C12 — bounded work per request: resolution always terminates within its budgets

Property theorems only (helper lemmas live in `Lemmas/Work.lean`).

* the ledger is the transition system `lstep` of single atomic operations;
  "any number of goroutines, every interleaving" is "every `List Label`";
* one `resolve` frame and the request tree of nested frames are adversarial
  transition systems (`FStep`, `TStep`): the environment picks every response.
-/
namespace SdnsVerif.Props.C12
open SdnsVerif.Model.Work SdnsVerif.Lemmas.Work

/-! ### the ledger -/

/-- **CAS debit never lets an accepted counter pass its cap.** Enforce mode,
any number of concurrent debitors (thread ids are arbitrary naturals), every
interleaving of their `Load` / `CompareAndSwap` / `Or` steps, every mix of
kinds and of latching and best-effort debits, local-limit rejections
interleaved: for every kind the number of accepted debits equals the counter
and never exceeds the configured cap. -/
theorem accepted_le_limit (p : Policy) (hm : p.mode = .enforce) (ls : List Label) (k : Kind) :
    (lrun p {} ls).sh.acc.get k ≤ p.caps.get k ∧
    (lrun p {} ls).sh.ctr.get k = (lrun p {} ls).sh.acc.get k := by
  have h := enfInv_run p hm ls {} (enfInv_init p)
  exact ⟨by rw [h.acc]; exact h.le k, (h.acc k).symm⟩

/-- **Work is never refunded and an exhausted budget stays exhausted.** Once a
kind's counter has reached its cap, no continuation of the run — whatever the
schedule, including goroutines that loaded a stale value earlier — accepts
another debit of that kind. -/
theorem exhausted_is_final (p : Policy) (hm : p.mode = .enforce) (ls₁ ls₂ : List Label) (k : Kind)
    (hfull : (lrun p {} ls₁).sh.ctr.get k = p.caps.get k) :
    (lrun p {} (ls₁ ++ ls₂)).sh.acc.get k = (lrun p {} ls₁).sh.acc.get k := by
  have e : lrun p {} (ls₁ ++ ls₂) = lrun p (lrun p {} ls₁) ls₂ := by simp [lrun, List.foldl_append]
  have h1 := enfInv_run p hm ls₁ {} (enfInv_init p)
  have h2 := enfInv_run p hm (ls₁ ++ ls₂) {} (enfInv_init p)
  have hmono := ctr_mono_run p ls₂ (lrun p {} ls₁) k
  rw [← e] at hmono
  have := h2.le k
  rw [h2.acc, h1.acc]
  omega

/-- **Shadow (and off) never rejects.** In every reachable state of a ledger
whose mode is not enforce, under every interleaving, no goroutine is in or has
completed a rejection, the first-rejection latch is empty and
`EnforcementError` is nil. -/
theorem shadow_never_rejects (p : Policy) (hm : p.mode ≠ .enforce) (ls : List Label) :
    (∀ t k lim, (lrun p {} ls).pc t ≠ .done (.limit k lim)) ∧
    (lrun p {} ls).sh.first = 0 ∧
    enforcementError p (lrun p {} ls).sh = .ok := by
  have h := softInv_run p hm ls {} softInv_init
  refine ⟨?_, h.first, ?_⟩
  · intro t k lim hpc
    have := h.pcs t
    rw [hpc] at this
    exact this
  · unfold enforcementError
    simp [hm]

/-- **Shadow equals off for control flow.** For every sequential history of
ledger API calls (`Debit`, `DebitBestEffort`, `CheckLocal`, `Reject`,
`EnforcementError`) the results returned under a shadow policy are identical
to those under the off policy with the same caps (all nil); only counters and
exhaustion bits differ.  (`Retain` is not in this list: see notes/C12.md.) -/
theorem shadow_equals_off (caps : KTab Nat) (sh sh' : Shared) (hf : sh.first = 0) (ops : List ApiOp) :
    apiRun { mode := .shadow, caps := caps } sh ops = apiRun { mode := .off, caps := caps } sh' ops := by
  induction ops generalizing sh sh' with
  | nil => rfl
  | cons op t ih =>
    simp only [apiRun]
    have hoff : ∀ s, (apiStep { mode := .off, caps := caps } s op).2 = .ok := by
      intro s
      cases op with
      | debit k latch =>
        simp only [apiStep]
        split
        · simp only [debit, lrun, List.foldl, lstep, Policy.enabled]
          simp [setPC, resultOf]
        · rfl
      | check k used latch => simp only [apiStep]; split <;> simp [checkLocal, Policy.enabled]
      | reject k latch => simp only [apiStep]; split <;> simp [reject, Policy.enabled]
      | enf => simp [apiStep, enforcementError]
    have hsh : (apiStep { mode := .shadow, caps := caps } sh op).2 = .ok ∧
        (apiStep { mode := .shadow, caps := caps } sh op).1.first = 0 := by
      cases op with
      | debit k latch =>
        simp only [apiStep]
        split
        · have inv := softInv_run { mode := .shadow, caps := caps } (by simp)
            [.start 0 k latch, .tick 0, .tick 0, .tick 0] { sh := sh } ⟨fun _ => by simp [benign], hf⟩
          refine ⟨?_, inv.first⟩
          have hb := inv.pcs 0
          simp only [debit]
          generalize (lrun { mode := .shadow, caps := caps } { sh := sh } _).pc 0 = pc at hb
          cases pc with
          | done r => cases r with
            | ok => rfl
            | limit _ _ => exact hb.elim
          | _ => rfl
        · exact ⟨rfl, hf⟩
      | check k used latch =>
        simp only [apiStep]
        split
        · exact ⟨rfl, hf⟩
        · simp only [checkLocal, Policy.enabled]
          by_cases hu : used < caps.get k
          · simp [hu, hf]
          · by_cases he : used = caps.get k <;> simp [hu, he, markExhausted, hf]
      | reject k latch =>
        simp only [apiStep]
        split
        · exact ⟨rfl, hf⟩
        · simp [reject, Policy.enabled, markExhausted, hf]
      | enf => exact ⟨by simp [apiStep, enforcementError], hf⟩
    rw [hoff sh', hsh.1]
    congr 1
    exact ih _ _ hsh.2

/-- **The first rejection is latched.** `first` is write-once: from any state
in which it is set, no schedule of any steps changes it, so
`EnforcementError` keeps reporting the same kind for the rest of the request
tree. -/
theorem first_rejection_latched (p : Policy) (s : LState) (ls : List Label) (h : s.sh.first ≠ 0) :
    (lrun p s ls).sh.first = s.sh.first ∧
    enforcementError p (lrun p s ls).sh = enforcementError p s.sh := by
  have e := first_once_run p ls s h
  exact ⟨e, by unfold enforcementError; rw [e]⟩

/-- **A completed latching rejection sets the latch**, and from then on
`EnforcementError` is non-nil whatever else happens: the goroutine whose debit
is rejected in enforce mode with `latchRejection = true` leaves `first ≠ 0`
behind when it returns its error. -/
theorem rejection_latches (p : Policy) (hm : p.mode = .enforce) (s : LState) (t : Nat) (k : Kind)
    (hpc : s.pc t = .rejFirst k true) (hok : FirstOk s) (ls : List Label) :
    let s' := lstep p s (.tick t)
    s'.pc t = .done (.limit k (p.caps.get k)) ∧ s'.sh.first ≠ 0 ∧
    enforcementError p (lrun p s' ls).sh ≠ .ok := by
  intro s'
  have h1 : s'.pc t = .done (.limit k (p.caps.get k)) := by
    simp only [s', lstep, hpc, setPC_same]
  have h2 : s'.sh.first ≠ 0 := by
    simp only [s', lstep, hpc]
    by_cases h0 : s.sh.first = 0
    · simp [h0]
    · simp [h0]
  refine ⟨h1, h2, ?_⟩
  have hok' : FirstOk s' := firstOk_step p s _ hok
  have e := first_once_run p ls s' h2
  unfold enforcementError
  rw [e]
  rcases hok' with h0 | ⟨k', hk'⟩
  · exact (h2 h0).elim
  · simp [hm, hk', ofIdx_idx]

/-- `first` always names a kind in every reachable state (so `EnforcementError`
never falls through its range guards). -/
theorem first_names_a_kind (p : Policy) (ls : List Label) : FirstOk (lrun p {} ls) :=
  firstOk_run p ls {} (Or.inl rfl)

/-- `Retain` succeeds exactly while the policy accounts and the tree still
holds a reference; after the last release no detached helper can join. -/
theorem retain_iff (p : Policy) (sh : Shared) :
    (retain p sh).2 = true ↔ p.enabled = true ∧ sh.refs ≠ 0 := by
  unfold retain
  by_cases he : p.enabled = true <;> by_cases hr : sh.refs = 0 <;> simp [he, hr]

/-- **The policy grants exactly what was configured**: for every valid mode
string, every kind's cap in the policy every pipeline and resolver is built
from is the configured value, or the default where the configuration says 0 —
no dimension is raised to fit another (an aggregate DNSSEC budget below a
per-object allowance stays what the operator wrote). -/
theorem policy_caps_are_configured (mode : String) (raw dflt : KTab Nat) (p : Policy)
    (h : policyFromConfig mode raw dflt = some p) (k : Kind) :
    p.caps.get k = normCap (raw.get k) (dflt.get k) := by
  unfold policyFromConfig at h
  split at h
  · cases h
  · cases h
    cases k <;> rfl

/-- **One ledger per request tree, also for work that outlives the request.**
Through the server's request context (the pin: pending → ledger → finished, or
pending → closed) every history of debits and of the outer Chain's completion,
in any order, accepts at most `cap` units of each aggregate kind in enforce
mode: the ledger materialised by the first real work stays the tree's ledger
after `finish` (stale helpers keep charging it), and a request that completed
without one refuses everything afterwards — no history ever gets a second
budget. -/
theorem one_budget_per_tree (p : Policy) (hm : p.mode = .enforce) (k : Kind) (hk : k.isAggregate = true)
    (ops : List PinOp) :
    pinAccepted k ops (pinRun p .pending ops).2 ≤ p.caps.get k := by
  have := pin_budget p hm k hk ops .pending (by simp [pinCtr])
  simpa [pinCtr] using this

/-- a request that completed without recursive work is closed for good: every later debit is cancelled. -/
theorem closed_is_final (p : Policy) (ops : List PinOp) :
    (pinRun p .closed ops).1 = .closed ∧
    ∀ r ∈ (pinRun p .closed ops).2, r = .canceled ∨ r = .ok := by
  induction ops with
  | nil => simp [pinRun]
  | cons op t ih =>
    cases op <;> simp only [pinRun, pinStep] <;> refine ⟨ih.1, ?_⟩ <;> intro r hr <;>
      simp only [List.mem_cons] at hr <;> rcases hr with rfl | hr
    · exact Or.inl rfl
    · exact ih.2 r hr
    · exact Or.inr rfl
    · exact ih.2 r hr

/-! ### the attempt guard -/

/-- **At most `n` attempts per (question, endpoint, transport) tuple** for every
history of `begin` calls on one request tree (the guard's mutex makes each
call one atomic step, so histories are all interleavings), every mix of
tuples: the number of admitted attempts for each tuple never exceeds `n`. -/
theorem attempts_le_limit (n : Nat) (keys : List Nat) (key : Nat) :
    admitted (guardRun n [] keys).2 key ≤ n := by
  have h := guardRun_spec n keys [] key (by simp [Guard.count])
  have h0 : Guard.count [] key = 0 := rfl
  omega

/-- The code's limit is the RFC 9520 §3.1 value or stricter. -/
theorem attempt_limit_fact : 1 ≤ SdnsVerif.Gen.C12.max_resolution_attempts ∧
    SdnsVerif.Gen.C12.max_resolution_attempts ≤ 3 := by decide

/-! ### termination of one `resolve` frame -/

/-- **Every recursive call of `resolve` strictly decreases the measure**
`Frame.mu`, whichever of the six re-entry paths the environment forces. -/
theorem resolve_step_decreases {f f' : Frame} (h : FStep f f') : f'.mu < f.mu :=
  fstep_decreases h

/-- **A restart keeps the request tree's ledger.** None of the ways `resolve`
re-enters itself — in particular the parent-detection restart without
minimisation, which builds a fresh `resolveState` — drops `rs.work`: along every
run of a frame that started with the ledger, every `exchange` debits. -/
theorem restart_keeps_ledger {f g : Frame} {n : Nat} (h : FRun f n g) (hw : f.work = true) :
    g.exchangeDebits = true := by
  induction h with
  | nil f => exact hw
  | cons hs _ ih =>
    apply ih
    cases hs <;> exact hw

/-- **One frame terminates, with an explicit bound.** Whatever the upstream
servers answer, `resolve` re-enters itself at most
`(2·depth + 4)·(min(qnameMinLevel, labels − 1) + 1)` times, where `depth` is
the configured `Maxdepth` the frame started with. -/
theorem resolution_terminates {f g : Frame} {n : Nat} (h : FRun f n g) :
    n ≤ (2 * f.depth + 4) * (min f.minLevel (f.labels - 1) + 1) := by
  have := frun_measure h
  have := mu_le f
  unfold Frame.lim at this
  omega

/-- `checkLoop`: along one context chain a nameserver name is admitted at most
twice per query type. -/
theorem checkLoop_at_most_twice (l : List String) (name : String)
    (h : (l.filter (· == name)).length ≤ 2) :
    ((checkLoop l name).1.filter (· == name)).length ≤ 2 ∧
    ((checkLoop l name).2 = true → (checkLoop l name).1 = l) := by
  unfold checkLoop
  split
  · exact ⟨h, fun _ => rfl⟩
  · refine ⟨?_, fun hh => by simp at hh⟩
    simp only [List.filter_append, List.length_append]
    simp
    omega

/-! ### termination of the whole request tree -/

/-- **Every step of the request tree strictly decreases the potential**: a
`resolve` re-entry, a nested `Queryer.Query` (admitted or refused), a return. -/
theorem tree_step_decreases {c : TreeCfg} {st st' : List Act} (h : TStep c st st') :
    potential c st' < potential c st :=
  tstep_decreases h

/-- **The request tree terminates without the firewall**, with the explicit
(very large) bound `k · (k+1)^room`, `k = frameCap·(fanout+1) + fanout + 1`,
`room = maxQueryerRecursion`: nested sub-queries are at most `room` deep, each
activation performs at most `frameCap` `resolve` steps and starts at most
`fanout` sub-queries per step.  With the firewall in enforce mode the number
of admitted sub-queries and of transport attempts is instead bounded by the
caps (`accepted_le_limit`). -/
theorem request_tree_terminates (c : TreeCfg) (root : Act) (n : Nat) (st : List Act)
    (hmu : root.frame.mu ≤ c.frameCap) (hcr : root.credit ≤ c.fanout)
    (h : TRun c [root] n st) :
    n ≤ c.k * (c.k + 1) ^ root.room := by
  have hm := trun_measure h
  have hp : potential c [root] = root.pot c := by simp [potential]
  have hk := phi_lt_k c root.frame root.credit root.room hmu hcr
  have hw := weight_le_pow c root.room
  have : root.pot c ≤ c.k * (c.k + 1) ^ root.room := by
    unfold Act.pot
    exact Nat.mul_le_mul hk hw
  omega

/-- **The alias chase stops at the deadline.** Once the request deadline has
passed (`expired`, one-way), every hop of every chase level is refused before
its internal exchange, whatever the sub-responses look like: from an expired
state the chase starts no further sub-query (exchanges already in flight when
the deadline passes finish on their own, they are not part of this model). -/
theorem chase_stops_at_deadline (s : ChaseState) (evs : List ChaseEv) (h : s.expired = true) :
    (chaseRun s evs).started = s.started ∧ (chaseRun s evs).expired = true := by
  induction evs generalizing s with
  | nil => exact ⟨rfl, h⟩
  | cons e t ih =>
    have hs : (chaseStep s e).started = s.started ∧ (chaseStep s e).expired = true := by
      cases e <;> simp [chaseStep, h]
    have := ih (chaseStep s e) hs.2
    exact ⟨by rw [show chaseRun s (e :: t) = chaseRun (chaseStep s e) t from rfl, this.1, hs.1],
           by rw [show chaseRun s (e :: t) = chaseRun (chaseStep s e) t from rfl]; exact this.2⟩

/-- **One chase level follows at most `cnameDepth` hops and never the same
target twice**, whatever alias data the sub-queries reveal (any successor
function: loops that return to the start, rho-shaped loops, endless chains). -/
theorem chase_level_bounded (next : Nat → Option Nat) (fuel : Nat) (vis : List Nat) (t : Nat)
    (hn : vis.Nodup) :
    (chaseLevel next fuel vis t).length ≤ fuel + vis.length ∧ (chaseLevel next fuel vis t).Nodup := by
  induction fuel generalizing vis t with
  | zero => simp [chaseLevel, hn]
  | succ d ih =>
    unfold chaseLevel
    by_cases hc : vis.contains t = true
    · simp only [hc, if_true]; exact ⟨by omega, hn⟩
    · simp only [hc]
      have hnot : t ∉ vis := by simpa using hc
      have hn' : (t :: vis).Nodup := List.nodup_cons.mpr ⟨hnot, hn⟩
      cases hnx : next t with
      | none => simp only [Bool.false_eq_true, if_false]; exact ⟨by simp; omega, hn'⟩
      | some t' =>
        simp only [Bool.false_eq_true, if_false]
        have := ih (t :: vis) t' hn'
        exact ⟨by simp at this ⊢; omega, this.2⟩

/-- The nesting / chain caps the termination argument rests on are at most the
values it was stated for (raising one is flagged, lowering is not). -/
theorem nesting_caps_fact :
    SdnsVerif.Gen.C12.max_queryer_recursion ≤ 32 ∧ SdnsVerif.Gen.C12.max_dname_depth ≤ 10 ∧
    SdnsVerif.Gen.C12.max_cname_chase_depth ≤ 10 ∧ SdnsVerif.Gen.C12.default_maxdepth ≤ 30 ∧
    1 ≤ SdnsVerif.Gen.C12.default_maxdepth := by decide

/-! ### DNSSEC operations per RRset -/

/-- **Public-key operations per RRset never exceed `MaxRRsetSignatureChecks`**
in enforce mode — for every number of RRSIGs on the RRset, every number of
same-tag candidate keys per RRSIG, every order of signatures and keys and
every position (or absence) of the valid one: the operations spent on the
RRset (`ops`) equal the advance of the per-RRset counter, stay within the
per-RRset cap, and the tree's aggregate signature counter stays within its
budget. -/
theorem ops_le_rrset_cap (c : SigCaps) (sigs : List (Nat × Option Nat)) (spent : Nat)
    (hb : spent ≤ c.budget) :
    let r := verifyRRset true c sigs 0 spent
    r.1 ≤ c.rrset ∧ r.2.1 - spent = r.1 ∧ r.2.1 ≤ c.budget := by
  have h := verifyRRset_spec c sigs 0 spent
  simp only at h
  intro r
  have h2 := h.2.1 (Nat.zero_le _)
  have h3 := h.2.2.1
  have h4 := h.2.2.2 hb
  refine ⟨h2, ?_, h4⟩
  show (verifyRRset true c sigs 0 spent).2.1 - spent = (verifyRRset true c sigs 0 spent).1
  omega

/-- **… and the operations spent on one RRSIG never exceed `MaxDNSKEYCandidates`**
(nor the number of eligible candidates), whatever the counters were before. -/
theorem ops_le_candidate_cap (c : SigCaps) (hit : Option Nat) (k used spent : Nat) :
    (tryCands true c hit k 0 used spent).1 - used ≤ c.cand ∧
    (tryCands true c hit k 0 used spent).1 - used ≤ k := by
  have h := tryCands_spec c hit k 0 used spent
  simp only at h
  exact ⟨by omega, h.2.2.1⟩

/-- **One parent DS record never costs more digests than `MaxDNSKEYCandidates`**
(nor more than it has usable candidates) in enforce mode — plain and anchored
walk, whatever the number of same-tag KSKs, wherever (or whether) the genuine
key sits in the validator's order: the matching key spends a candidate slot
like every other. -/
theorem ds_ops_le_candidate_cap (anch : Bool) (candCap budget : Nat) (hit : Option Nat)
    (k spent : Nat) (m : Bool) :
    (dsCands true anch candCap budget hit k 0 spent m).1 - spent ≤ candCap ∧
    (dsCands true anch candCap budget hit k 0 spent m).1 - spent ≤ k := by
  have h := dsCands_spec anch candCap budget hit k 0 spent m
  simp only at h
  exact ⟨by omega, h.2.2.1⟩

/-- **… and a whole DS set never costs more than the tree's `MaxDSDigests`**, for
every number of DS records, every candidate count and every position of the
genuine DS and key, plain or anchored. -/
theorem ds_ops_le_budget (anch : Bool) (candCap budget : Nat) (recs : List (Nat × Option Nat))
    (spent : Nat) (any : Bool) (hb : spent ≤ budget) :
    (dsWalk true anch candCap budget recs spent any).1 ≤ budget :=
  (dsWalk_spec anch candCap budget recs spent any).2 hb

/-! ### hashed denial of existence: NSEC3 hashes are charged to the request tree -/

/-- **A denial proof never takes the tree past `MaxNSEC3Hashes`**, whatever the
queried name (any number of labels below any closest encloser), the ring, the
kind of proof (name error / NODATA), and whatever the request tree's memo
already holds: every hash `nsec3RingEvaluator.hash` computes is one debit of
the tree's NSEC3 counter, and the debit that would pass the cap is refused. -/
theorem nsec3_hashes_le_budget (p : Policy) (hm : p.mode = .enforce) (mc : Nat) (nodata : Bool)
    (ring : List String) (base : String) (labels : List String) (sh : Shared) (memo : N3Memo)
    (hle : sh.ctr.get .nsec3Hash ≤ p.caps.get .nsec3Hash) :
    (n3Verify p mc nodata ring base labels sh memo).1.ctr.get .nsec3Hash ≤ p.caps.get .nsec3Hash := by
  have hb := (n3Run_bounds p hm mc (n3Plan nodata ring (n3Suffixes base labels)).1 [] sh memo).2 hle
  unfold n3Verify
  generalize n3Run p mc (n3Plan nodata ring (n3Suffixes base labels)).1 [] sh memo = r at hb
  obtain ⟨s1, m1, r1⟩ := r
  cases r1 <;> exact hb

/-- **The exact price of a proof.** On a context without a memo, a proof whose
hash requests are `names` (pairwise distinct) reaches a verdict iff the tree can
still pay for all of them, and then the counter has grown by exactly that many;
otherwise it ends in the NSEC3 work-limit error with the counter at the cap.
In particular no verdict — secure or not — is reached for free. -/
theorem hashed_denial_exact_cost (p : Policy) (hm : p.mode = .enforce) (mc : Nat) (names : List String)
    (sh : Shared) (hnd : names.Nodup) (hle : sh.ctr.get .nsec3Hash ≤ p.caps.get .nsec3Hash) :
    (sh.ctr.get .nsec3Hash + names.length ≤ p.caps.get .nsec3Hash →
      (n3Run p mc names [] sh none).2.2 = .ok ∧
      (n3Run p mc names [] sh none).1.ctr.get .nsec3Hash = sh.ctr.get .nsec3Hash + names.length) ∧
    (p.caps.get .nsec3Hash < sh.ctr.get .nsec3Hash + names.length →
      (n3Run p mc names [] sh none).2.2 = .limit .nsec3Hash (p.caps.get .nsec3Hash) ∧
      (n3Run p mc names [] sh none).1.ctr.get .nsec3Hash = p.caps.get .nsec3Hash) :=
  n3Run_none_spec p hm mc names [] sh hnd (by simp) hle

/-- **An authenticated hashed denial has been paid for by the tree that asked**
(the class of C12-20: the required validation charged to something else than
the request's ledger, so that the ledger shows no hash at all): a proof that
reaches a verdict — `secure` or `bogus` — on a context whose memo does not hold
the queried name has raised the tree's NSEC3 counter. -/
theorem hashed_denial_is_paid_for (p : Policy) (hm : p.mode = .enforce) (mc : Nat) (nodata : Bool)
    (ring : List String) (base : String) (labels : List String) (sh : Shared) (memo : N3Memo)
    (hfresh : ∀ m, memo = some m → n3Full base labels ∉ m)
    (h : ∀ k lim, (n3Verify p mc nodata ring base labels sh memo).2.2 ≠ .work k lim) :
    sh.ctr.get .nsec3Hash < (n3Verify p mc nodata ring base labels sh memo).1.ctr.get .nsec3Hash := by
  obtain ⟨rest, hs⟩ := n3Suffixes_head base labels
  obtain ⟨t, hp⟩ := n3Plan_head nodata ring (n3Full base labels) rest
  have hpaid := n3Run_head_paid p hm mc (n3Full base labels) t sh memo hfresh
  unfold n3Verify at h ⊢
  rw [hs, hp] at h ⊢
  generalize n3Run p mc (n3Full base labels :: t) [] sh memo = r at hpaid h
  obtain ⟨s1, m1, r1⟩ := r
  cases r1 with
  | ok => exact hpaid rfl
  | limit k lim => exact absurd rfl (h k lim)

/-- a denial proof never lowers the tree's NSEC3 counter. -/
theorem nsec3_counter_mono (p : Policy) (hm : p.mode = .enforce) (mc : Nat) (nodata : Bool)
    (ring : List String) (base : String) (labels : List String) (sh : Shared) (memo : N3Memo) :
    sh.ctr.get .nsec3Hash ≤ (n3Verify p mc nodata ring base labels sh memo).1.ctr.get .nsec3Hash := by
  have hb := (n3Run_bounds p hm mc (n3Plan nodata ring (n3Suffixes base labels)).1 [] sh memo).1
  unfold n3Verify
  generalize n3Run p mc (n3Plan nodata ring (n3Suffixes base labels)).1 [] sh memo = r at hb
  obtain ⟨s1, m1, r1⟩ := r
  cases r1 <;> exact hb

/-- **A ring above the iteration ceiling costs nothing**: no hash is requested, the counter and
the memo are untouched, and the verdict is never `secure`. -/
theorem unsafe_ring_costs_nothing (p : Policy) (mc maxIter iters : Nat) (nodata : Bool) (ring : List String)
    (base : String) (labels : List String) (sh : Shared) (memo : N3Memo) (h : maxIter < iters) :
    n3VerifyIter p mc maxIter iters nodata ring base labels sh memo = (sh, memo, .bogus) := by
  simp [n3VerifyIter, h]

/-- **The SHA-1 rounds one request tree can be made to spend on hashed denials are bounded by
`MaxNSEC3Hashes × (maxNSEC3Iterations + 1)`**, whatever iteration count the zone advertises
(each hash of a ring advertising `iters` costs `iters + 1` rounds per label block): the rounds
this proof adds never exceed what the remaining allowance buys at the ceiling. -/
theorem nsec3_rounds_le_budget (p : Policy) (hm : p.mode = .enforce) (mc maxIter iters : Nat) (nodata : Bool)
    (ring : List String) (base : String) (labels : List String) (sh : Shared) (memo : N3Memo)
    (hle : sh.ctr.get .nsec3Hash ≤ p.caps.get .nsec3Hash) :
    ((n3VerifyIter p mc maxIter iters nodata ring base labels sh memo).1.ctr.get .nsec3Hash - sh.ctr.get .nsec3Hash) * (iters + 1)
      ≤ (p.caps.get .nsec3Hash - sh.ctr.get .nsec3Hash) * (maxIter + 1) := by
  unfold n3VerifyIter
  by_cases h : maxIter < iters
  · simp [h]
  · simp only [h, ↓reduceIte]
    have h1 := nsec3_hashes_le_budget p hm mc nodata ring base labels sh memo hle
    exact Nat.mul_le_mul (by omega) (by omega)

/-- the iteration ceiling the driver's model uses is the code's. -/
theorem nsec3_iteration_cap_fact : SdnsVerif.Gen.C12.max_nsec3_iterations = 150 := by decide

/-- the memo ceiling the driver's model uses is the code's, and every hashed-denial verifier the
resolver is required to run (name error, NODATA, insecure delegation, wildcard expansion: five call
sites in resolver.go) is handed `r.dnssecWork(ctx)`, the adapter that debits the request's ledger. -/
theorem required_denials_use_request_work_shape :
    SdnsVerif.Gen.C12.max_nsec3_memo_entries = 64 ∧
    5 ≤ SdnsVerif.Gen.C12.nsec3_verifier_calls ∧
    (∀ a ∈ SdnsVerif.Gen.C12.nsec3_verifier_work_args, a = "r.dnssecWork(ctx)") := by decide

/-! ### budget failures are request-local; shape of the over-budget reply -/

/-- **Budget failures are never cacheable for other clients.** A failure is
admitted to the shared failure cache only if the request context is live, the
work was not best-effort, the request tree latched no enforcement error and
the response carries no request-local mark. -/
theorem budget_failure_is_local (c : FailCtx) :
    cacheableFailure c = true ↔
      c.ctxErr = false ∧ c.bestEffort = false ∧ c.enforced = false ∧ c.localMark = false := by
  unfold cacheableFailure
  cases c.ctxErr <;> cases c.bestEffort <;> cases c.enforced <;> cases c.localMark <;> simp

/-- … in particular whenever the ledger (enforce mode) holds a latched
rejection in any reachable state, whatever the other inputs are. -/
theorem latched_rejection_not_cacheable (p : Policy) (hm : p.mode = .enforce) (ls : List Label)
    (hl : (lrun p {} ls).sh.first ≠ 0) (cErr bEff mark : Bool) :
    cacheableFailure ⟨cErr, bEff, enforcementError p (lrun p {} ls).sh != Res.ok, mark⟩ = false := by
  have hok := first_names_a_kind p ls
  have : enforcementError p (lrun p {} ls).sh ≠ .ok := by
    unfold enforcementError
    rcases hok with h0 | ⟨k, hk⟩
    · exact (hl h0).elim
    · simp [hm, hk, ofIdx_idx]
  unfold cacheableFailure
  simp [this]

/-- **… also when the budget runs out inside the cache's own alias chase.** The
downstream answer reached the cache writer with the budget intact (`sh` has
no latched rejection); the chase then spends `chase` against the same ledger.
If that leaves a latched rejection the failure is not admitted to the shared
cache — the decision looks at the ledger after the chase, not at a snapshot
taken before it. -/
theorem chased_budget_failure_not_cached (p : Policy) (sh : Shared) (chase : List ApiOp)
    (cErr bEff mark : Bool)
    (h : enforcementError p (chase.foldl (fun s op => (apiStep p s op).1) sh) ≠ .ok) :
    chasedFailureCacheable p sh chase cErr bEff mark = false := by
  unfold chasedFailureCacheable cacheableFailure
  simp [h]

/-- **Policy exhaustion is terminal in `lookup`.** Whenever one attempt of a
lookup was refused by the request tree's budget, `pickFallbackResponse` returns
that refusal — whatever error responses, bogus referrals or other errors the
other authorities produced, in any order: no authority's SERVFAIL can stand in
for it (and so be recorded as a zone-wide failure or hide the policy error). -/
theorem work_limit_is_terminal (rcodes : List Nat) (nconfig : Nat) (errs : List LookupErr)
    (h : LookupErr.workLimit ∈ errs) : pickFallback rcodes nconfig errs = .work := by
  unfold pickFallback
  simp [h]

/-- … and the zone-failure recorder itself refuses every request-local cause,
best-effort work and ended contexts. -/
theorem zone_failure_needs_shared_evidence (z b c : Bool) (cause : Option ErrClass)
    (h : zoneFailureRecordable z b c cause = true) :
    z = true ∧ b = false ∧ c = false ∧
    cause ≠ some .workLimit ∧ cause ≠ some .attemptLimit ∧ cause ≠ some .maxRecursion ∧
    cause ≠ some .canceled ∧ cause ≠ some .deadline := by
  unfold zoneFailureRecordable at h
  cases z <;> cases b <;> cases c <;> simp at h
  refine ⟨rfl, rfl, rfl, ?_⟩
  rcases cause with _ | e
  · simp
  · cases e <;> simp_all

/-- **A latched rejection decides the outcome, whatever `resolve()` returned** —
answer or failure: if a required debit was refused anywhere in the request tree
(in every reachable ledger state with `first ≠ 0`), `Resolve` returns the policy
error, so the client gets the over-budget SERVFAIL and nothing is cached as an
ordinary answer. -/
theorem latched_rejection_decides_outcome (p : Policy) (hm : p.mode = .enforce) (ls : List Label)
    (hl : (lrun p {} ls).sh.first ≠ 0) (inner : Inner) :
    ∃ k l, resolveOutcome p (lrun p {} ls).sh inner = .policy k l := by
  have hok := first_names_a_kind p ls
  rcases hok with h0 | ⟨k, hk⟩
  · exact (hl h0).elim
  · refine ⟨k, p.caps.get k, ?_⟩
    unfold resolveOutcome enforcementError
    simp [hm, hk, ofIdx_idx]

/-- … and without a latched rejection the outcome is `resolve()`'s own. -/
theorem unlatched_outcome_is_inner (p : Policy) (sh : Shared) (h : enforcementError p sh = .ok) :
    resolveOutcome p sh .answer = .answer ∧ resolveOutcome p sh .failure = .failure := by
  unfold resolveOutcome; rw [h]; exact ⟨rfl, rfl⟩

/-- **A wire-born request stays metered**: the detached meta keeps the policy with
or without request-tree state (model), and the compiled `detachedCopy` does so
for an enforce and a shadow policy on a meta without a ledger host (Gen fact). -/
theorem detached_request_stays_metered (p : Policy) (b : Bool) :
    detachedPolicy p b = p ∧ SdnsVerif.Gen.C12.detached_copy_keeps_policy = true := by
  exact ⟨rfl, by decide⟩

/-- every error class the resolver marks as request-local is one the property
lists (budget, attempt limit, probe limit, nesting bound, cancellation, deadline). -/
theorem request_local_classes (e : ErrClass) : e.isRequestLocal = true ↔ e ≠ .other := by
  cases e <;> simp [ErrClass.isRequestLocal]

/-- **Shape of the over-budget reply.** When the request tree latched an
enforcement error the client gets SERVFAIL; the reply carries an Extended DNS
Error exactly when the query carried OPT, and its code tells network budgets
(0, Other) from DNSSEC budgets (5, DNSSEC Indeterminate). -/
theorem overbudget_reply_shape (p : Policy) (sh : Shared) (k : Kind) (lim : Nat) (opt : Bool)
    (down : Option Nat) (h : enforcementError p sh = .limit k lim) :
    (servfailReply p sh opt down).rcode = 2 ∧
    ((servfailReply p sh opt down).ede.isSome = true ↔ opt = true) ∧
    (opt = true → (servfailReply p sh opt down).ede = some (if k.isDNSSEC then 5 else 0)) := by
  unfold servfailReply
  rw [h]
  cases opt <;> simp [edeCode]

/-- **Failover never works for an over-budget tree.** When the request tree
latched an enforcement error — outbound, internal-query or any DNSSEC budget —
the failover writer answers the policy SERVFAIL (EDE iff OPT, code by kind) and
does not query the fallback; and when the fallback attempt's own outbound debit
is refused the outcome is the same.  The fallback is queried only if the ledger
admits one more transport attempt. -/
theorem failover_respects_budget (p : Policy) (sh : Shared) (opt : Bool) :
    ((failoverReply p sh opt).2 = true →
        enforcementError p sh = .ok ∧ (apiStep p sh (.debit .outbound true)).2 = .ok) ∧
    ((failoverReply p sh opt).2 = false →
        (failoverReply p sh opt).1.rcode = 2 ∧ ((failoverReply p sh opt).1.ede.isSome = true ↔ opt = true)) := by
  unfold failoverReply
  cases h1 : enforcementError p sh with
  | limit k l => cases opt <;> simp
  | ok =>
    cases h2 : (apiStep p sh (.debit .outbound true)).2 with
    | limit k l => cases opt <;> simp
    | ok => simp

/-- **Forwarded queries never exceed the transport budget either.** In enforce
mode, for every sequence of ledger calls run until the first refusal — in
particular the work of an alias chain of any length through the forwarder
(`forwardOps`: one upstream query for the client's question, one internal
sub-query plus one upstream query per hop) — the upstream queries that are
really sent (admitted outbound debits) stay within `MaxOutboundQueries`. -/
theorem forwarded_queries_le_budget (p : Policy) (hm : p.mode = .enforce) (ops : List ApiOp) :
    (runOps p {} ops).2.1 ≤ p.caps.get .outbound := by
  have := runOps_outbound p hm ops {} (by simp [KTab.get_const])
  have e : ({} : Shared).ctr.get .outbound = 0 := by simp [KTab.get_const]
  omega

/-- the EDE codes of the code are the ones the model replies with. -/
theorem ede_codes_fact : SdnsVerif.Gen.C12.ede_code_network = 0 ∧ SdnsVerif.Gen.C12.ede_code_dnssec = 5 := by
  decide

/-- the kind tables of the code (which kinds own a graph-wide counter, which
count as DNSSEC work) are the model's. -/
theorem kind_tables_fact :
    SdnsVerif.Gen.C12.kind_aggregate = Kind.all.map Kind.isAggregate ∧
    SdnsVerif.Gen.C12.kind_dnssec = Kind.all.map Kind.isDNSSEC := by decide

/-! ### shape facts regenerated from the tree -/

/-- **Every transport attempt debits first** (shape of the current tree): in
`Resolver.exchange` the attempt-guard call and the outbound debit both precede
every network call and each is followed by an early return on error; the debit
is conditional on nothing but "a ledger exists" (and the best-effort switch);
`exchange` (with its helper `dialUDP`, called from nowhere else) is the only
function of the resolver package that touches the network;
`pipelineQueryer.Query` checks the nesting bound and debits before it
dispatches; `Resolver.subQuery` debits before it resolves. -/
theorem debit_dominates_network_shape :
    SdnsVerif.Gen.C12.shape_exchange_guard_dominates_dial = true ∧
    SdnsVerif.Gen.C12.shape_exchange_debit_dominates_dial = true ∧
    (∀ c ∈ SdnsVerif.Gen.C12.exchange_debit_conditions,
      c ∈ ["rs.work != nil", "middleware.IsBestEffortRecursionWork(ctx)"]) ∧
    (∀ f ∈ SdnsVerif.Gen.C12.net_call_funcs, f ∈ ["exchange", "dialUDP"]) ∧
    SdnsVerif.Gen.C12.shape_dialudp_only_from_exchange = true ∧
    SdnsVerif.Gen.C12.shape_queryer_depth_check_before_dispatch = true ∧
    SdnsVerif.Gen.C12.shape_queryer_debit_before_dispatch = true ∧
    SdnsVerif.Gen.C12.shape_subquery_debit_before_resolve = true := by decide

/-- **The guards the termination argument rests on are in place** (shape of
the current tree): `checkDname` refuses at `maxDnameDepth` and re-tags the
context with `depth+1` before the internal exchange; `processDelegation` and
`resolveWithCachedNameservers` decrement `rs.depth` and return at zero before
they re-enter `resolve` (`FStep.descend` / `FStep.cached`); `rs.level++` and
`rs.nomin = true` outside the cached descent happen only under `minimized`
(`FStep.levelUp` / `FStep.nominRetry`); NS-address lookups consult `checkLoop`
first; every `resolveState` literal in resolver.go carries `work` (`restart_keeps_ledger`);
`cacheableResolutionFailure` reads the ledger itself when it decides, taking no
snapshot parameter (`chased_budget_failure_not_cached`); `Resolve` / `subQuery` re-read the latch after
`resolve()` under no other condition than "a ledger exists" (`latched_rejection_decides_outcome`); `checkHosts`
runs its address lookups on the request's own context; the cache's alias chase (`additionalAnswer`) re-checks the request
deadline on every hop before it starts another internal exchange — the guard
that turns `request_tree_terminates`' astronomically large bound into "stops at
the query deadline" when no budget is enforced (see `chase_stops_at_deadline`). -/
theorem termination_guards_shape :
    SdnsVerif.Gen.C12.shape_dname_depth_guard = true ∧
    SdnsVerif.Gen.C12.shape_delegation_spends_depth = true ∧
    SdnsVerif.Gen.C12.shape_cached_descent_spends_depth = true ∧
    SdnsVerif.Gen.C12.shape_level_up_only_when_minimized = true ∧
    SdnsVerif.Gen.C12.shape_nomin_retry_only_when_minimized = true ∧
    SdnsVerif.Gen.C12.shape_checkloop_before_ns_lookup = true ∧
    SdnsVerif.Gen.C12.shape_chase_checks_deadline = true ∧
    SdnsVerif.Gen.C12.shape_chase_state_outside_loop = true ∧
    SdnsVerif.Gen.C12.shape_resolvestate_literals_carry_work = true ∧
    SdnsVerif.Gen.C12.shape_cacheable_reads_ledger_at_decision = true ∧
    SdnsVerif.Gen.C12.shape_resolve_relabels_unconditionally = true ∧
    SdnsVerif.Gen.C12.shape_checkhosts_uses_request_context = true := by decide

/-! ### non-vacuity -/

def pol2 : Policy := { mode := .enforce, caps := KTab.ofList 0 [2, 1, 4, 8, 2, 2, 2, 2] }

-- three goroutines race for a cap of two: with this schedule thread 2 loses its CAS, reloads and is rejected
example :
    let s := lrun pol2 {} [.start 0 .outbound true, .start 1 .outbound true, .start 2 .outbound true,
      .tick 0, .tick 2, .tick 1, .tick 1, .tick 2, .tick 2, .tick 2]
    s.sh.acc.get .outbound = 2 ∧ s.pc 2 = .done (.limit .outbound 2) ∧ s.sh.first = 1 := by decide

example : (lrun pol2 {} [.start 0 .outbound true, .start 1 .outbound true, .tick 0, .tick 1, .tick 1]).sh.ctr.get .outbound
    = pol2.caps.get .outbound := by decide

-- shadow: five debits against a cap of two are all accepted, the crossing is recorded
example :
    apiRun { pol2 with mode := .shadow } {} [.debit .outbound true, .debit .outbound true, .debit .outbound true, .enf]
      = [.ok, .ok, .ok, .ok] := by decide

-- the guard admits exactly three of five attempts for one tuple and is untouched by another
example : admitted (guardRun 3 [] [7, 7, 9, 7, 7, 7]).2 7 = 3 ∧ admitted (guardRun 3 [] [7, 7, 9, 7, 7, 7]).2 9 = 1 := by
  decide

-- a frame that can take every kind of step
def f0 : Frame := { labels := 6, minLevel := 5, nomin := false, depth := 30, hosts := true, level := 1 }
example : FStep f0 { f0 with level := 2 } := .levelUp f0 (by decide)
example : FStep f0 { f0 with depth := 20, level := 2, hosts := false } := .cached f0 10 false (Or.inr rfl) (by decide)
example : f0.mu ≤ 64 * 6 := by decide

-- a tree step: the root starts a nested activation
example : TStep ⟨400, 3⟩ [{ frame := f0, credit := 2, room := 32 }]
    [{ frame := f0, credit := 3, room := 31 }, { frame := f0, credit := 1, room := 32 }] :=
  .spawn { frame := f0, credit := 2, room := 32 } f0 3 [] (by decide) (by decide) (by decide) (by decide)

-- eight failing signatures × four colliding keys against caps 4 / 8: eight operations, then the RRset limit
example : verifyRRset true ⟨4, 8, 32⟩ ((List.range 8).map fun _ => (4, none)) 0 0 = (8, 8, .work .rrsetSig) := by decide
-- unmetered, the same RRset costs 32 operations
example : (verifyRRset false ⟨4, 8, 32⟩ ((List.range 8).map fun _ => (4, none)) 0 0).1 = 32 := by decide
-- the valid signature is third, its key second: 4 + 4 + 2 operations exceed the cap of 8 before it is reached
example : verifyRRset true ⟨4, 8, 32⟩ [(4, none), (4, none), (4, some 1)] 0 0 = (8, 8, .work .rrsetSig) := by decide
example : verifyRRset true ⟨4, 12, 32⟩ [(4, none), (4, none), (4, some 1)] 0 0 = (10, 10, .verified) := by decide

-- the budget is intact before the chase and gone after it: not cacheable
example : chasedFailureCacheable pol2 {} [.debit .internal true, .debit .internal true] false false false = false := by decide
example : chasedFailureCacheable pol2 {} [.debit .internal true] false false false = true := by decide
-- an aggregate below the per-object default stays as configured
example : (policyFromConfig "enforce" (KTab.ofList 0 [0, 0, 0, 0, 3, 2, 0, 0]) (KTab.ofList 0 [128, 32, 4, 8, 32, 32, 32, 32])).map
    (fun p => p.caps.toList) = some [128, 32, 4, 8, 3, 2, 32, 32] := by decide

-- seven KSKs share the DS's tag, the genuine one is second, cap 4: the anchored walk stops at four digests
example : dsCands true true 4 64 (some 1) 7 0 0 false = (4, true, some .dnskeyCand) := by decide
example : dsCands true false 4 64 (some 1) 7 0 0 false = (2, true, none) := by decide
example : dsWalk false true 4 64 [(7, none), (7, some 1)] 0 false = (14, true, none) := by decide
-- signature budget gone, outbound budget intact: the failover writer does not go to the fallback
example : failoverReply pol2 { first := Kind.signature.idx + 1 } true = ({ rcode := 2, ede := some 5 }, false) := by decide
example : failoverReply pol2 {} true = ({ rcode := 0, ede := none }, true) := by decide

-- two units before the request completes, three after it through the stale context: one budget of three
example : (pinRun pol2 .pending [.debit .outbound true, .debit .outbound true, .finish,
    .debit .outbound true]).2 = [.ok, .ok, .ok, .limit .outbound 2] := by decide
example : (pinRun pol2 .pending [.finish, .debit .outbound true]).2 = [.ok, .canceled] := by decide

-- four hops through the forwarder with a transport budget of two: two upstream queries, then the refusal
example : (runOps pol2 {} (forwardOps 4)).2 = (2, false) := by decide
example : (runOps { pol2 with caps := KTab.ofList 0 [9, 9, 4, 8, 2, 2, 2, 2] } {} (forwardOps 3)).2 = (4, true) := by decide

-- one lame SERVFAIL arrived, the next attempt was refused by the budget: the refusal is what lookup returns
example : pickFallback [2] 0 [.workLimit] = .work := by decide
example : pickFallback [2, 3] 1 [.other] = .resp 1 := by decide
example : zoneFailureRecordable true false false none = true := by decide

-- the refresh branch swallowed a refused debit, resolve() still found its answer: the outcome is the policy error
example : resolveOutcome pol2 { first := Kind.internal.idx + 1 } .answer = .policy .internal 1 := by decide
example : resolveOutcome pol2 {} .answer = .answer := by decide

-- a rho-shaped loop 5 → 4 → 3 → 2 → 1 → 0 → 2: six exchanges, then the loop detector stops the level
example : (chaseLevel (fun t => if t = 0 then some 2 else some (t - 1)) 10 [] 5).length = 6 := by decide
-- an endless chain: ten exchanges, not one more
example : (chaseLevel (fun t => some (t + 1)) 10 [] 0).length = 10 := by decide

-- a chase that took three hops, then the deadline passed: the next two hop attempts start nothing
example : (chaseRun {} [.hop, .hop, .hop, .deadline, .hop, .hop]).started = 3 := by decide

-- the over-budget reply for an EDNS client whose tree ran out of signature checks
example : servfailReply pol2 { first := Kind.signature.idx + 1 } true none = { rcode := 2, ede := some 5 } := by decide
example : cacheableFailure { ctxErr := false, bestEffort := false, enforced := false, localMark := false } = true := by decide


-- hashed denial: a.b.n3.test. below the apex costs four hashes (a.b, b, apex, *.apex); an allowance of
-- four reaches `secure` with the counter at four, an allowance of three ends in the work-limit error
def polN3 (c : Nat) : Policy := { mode := .enforce, caps := KTab.ofList 0 [128, 32, 4, 8, 32, 32, c, 32] }
def ringN3 : List String := ["n3.test.", "host.n3.test.", "other.n3.test."]

example : (n3Plan false ringN3 (n3Suffixes "n3.test." ["a", "b"])).1 =
    ["a.b.n3.test.", "b.n3.test.", "n3.test.", "*.n3.test."] := by decide
example : (n3Verify (polN3 4) 64 false ringN3 "n3.test." ["a", "b"] {} none).2.2 = .secure ∧
    (n3Verify (polN3 4) 64 false ringN3 "n3.test." ["a", "b"] {} none).1.ctr.get .nsec3Hash = 4 := by decide
example : (n3Verify (polN3 3) 64 false ringN3 "n3.test." ["a", "b"] {} none).2.2 = .work .nsec3Hash 3 := by decide
-- a second proof under the same memo pays only for the names it has not hashed yet (c.b: one new name)
example :
    let r := n3Verify (polN3 9) 64 false ringN3 "n3.test." ["a", "b"] {} (some [])
    (n3Verify (polN3 9) 64 false ringN3 "n3.test." ["c", "b"] r.1 r.2.1).1.ctr.get .nsec3Hash = 5 := by decide
-- NODATA at an existing name: one hash
example : (n3Verify (polN3 4) 64 true ringN3 "host.n3.test." [] {} none).2.2 = .secure ∧
    (n3Verify (polN3 4) 64 true ringN3 "host.n3.test." [] {} none).1.ctr.get .nsec3Hash = 1 := by decide

-- iteration ceiling: at 150 the proof is charged as usual, at 151 the ring is unusable and nothing is spent
example : (n3VerifyIter (polN3 4) 64 150 150 false ringN3 "n3.test." ["a", "b"] {} none).1.ctr.get .nsec3Hash = 4 := by decide
example : n3VerifyIter (polN3 4) 64 150 151 false ringN3 "n3.test." ["a", "b"] {} none = ({}, none, .bogus) := by decide

end SdnsVerif.Props.C12
