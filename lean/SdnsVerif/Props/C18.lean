import SdnsVerif.Model.Blocklist
import SdnsVerif.Lemmas.Blocklist
import SdnsVerif.Gen.C18
/-!
# C18 — blocklist matching is exact and its persisted form converges to memory

Property theorems only (helper lemmas live in `Lemmas/Blocklist.lean`).
-/
namespace SdnsVerif.Props.C18
open SdnsVerif.Model.Blocklist SdnsVerif.Lemmas.Blocklist

/-! ## 1. Matching -/

/-
Statement with no restriction at all (FALSE, counter-witness `exists_ne_spec_root_entry`):

  ∀ P Wd Wh K,  «exists» (memOf P Wd Wh) (pres K) = specBlocked P Wd Wh (lowerName K)

It fails when the ROOT is an entry (recorded as a known finding; the oracle of
harness/c18 keeps flagging it).  Everything else is covered by the theorem below:
every query name, including labels with escaped dots, escaped backslashes and
`\DDD` — since the fix of the parent walk (`nextLabel`) the escaped-dot
restriction of the earlier `…_partial` version is gone.
-/

/-- **`Exists` is the property's rule**, for ALL names and all entry sets that
do not contain the root: the name is reported blocked exactly when it or a
parent is a plain entry, or a strict parent is a wildcard entry, and neither it
nor a parent is whitelisted — compared on whole labels (an escaped dot is part of
its label), case-insensitively (the query is folded; entries are stored folded).
`hfq` says the rendered query is fully qualified as `dns.IsFqdn` sees it. -/
theorem exists_iff_spec (P Wd Wh : List Name) (K : Name)
    (hK : NameOK K) (hfq : isFqdn (pres K) = true)
    (hP : ∀ e ∈ P, EntryOK e) (hWd : ∀ e ∈ Wd, EntryOK e) (hWh : ∀ e ∈ Wh, EntryOK e) :
    «exists» (memOf P Wd Wh) (pres K) = specBlocked P Wd Wh (lowerName K) := by
  rw [Bool.eq_iff_iff]
  unfold «exists»
  rw [canonical_of_fqdn _ hfq, lower_pres, existsCanon_iff, specBlocked_iff]
  have hn := NameOK_lower K hK
  unfold memOf
  simp only
  rw [Hit_pres_iff _ hn Wh (fun e he => ⟨(hWh e he).1, (hWh e he).2.1⟩),
      Hit_pres_iff _ hn P (fun e he => ⟨(hP e he).1, (hP e he).2.1⟩),
      suffixHit_pres_iff _ hn Wd (fun e he => ⟨(hWd e he).1, (hWd e he).2.1⟩)]

/-- **Escaped dot is not a label boundary** (the former counter-witness, now in
agreement): with `example.com.` listed, the name whose labels are `x\.example`
and `com` is not blocked, for the code as for the rule; `x\\.example.com.`
(label `x\\`, then `example`, `com`) is a subdomain and is blocked. -/
theorem escaped_dot_not_boundary :
    «exists» (memOf [["example".toList, "com".toList]] [] [])
        (pres ["x\\.example".toList, "com".toList]) = false ∧
    specBlocked [["example".toList, "com".toList]] [] []
        (lowerName ["x\\.example".toList, "com".toList]) = false ∧
    «exists» (memOf [["example".toList, "com".toList]] [] [])
        (pres ["x\\\\".toList, "example".toList, "com".toList]) = true := by
  decide

/-- Counter-witness to the unrestricted statement — **root entry**: with the root
listed as a plain entry every name has a listed parent, but `Exists` only
reports the root itself. -/
theorem exists_ne_spec_root_entry :
    «exists» (memOf [[]] [] []) (pres ["example".toList, "com".toList]) = false ∧
    specBlocked [[]] [] [] (lowerName ["example".toList, "com".toList]) = true ∧
    «exists» (memOf [[]] [] []) (pres []) = true := by
  decide

-- non-vacuity of `exists_iff_spec`: plain parent, wildcard apex, whitelist precedence
example : «exists» (memOf [["example".toList, "com".toList]] [["ads".toList, "net".toList]] [["ok".toList, "example".toList, "com".toList]])
    (pres ["Sub".toList, "EXAMPLE".toList, "com".toList]) = true := by decide
example : «exists» (memOf [["example".toList, "com".toList]] [["ads".toList, "net".toList]] [["ok".toList, "example".toList, "com".toList]])
    (pres ["ads".toList, "net".toList]) = false := by decide
example : «exists» (memOf [["example".toList, "com".toList]] [["ads".toList, "net".toList]] [["ok".toList, "example".toList, "com".toList]])
    (pres ["x".toList, "ok".toList, "example".toList, "com".toList]) = false := by decide

/-- **Case-insensitive**: two spellings that differ only in ASCII case get the
same answer from every list — for queries … -/
theorem case_insensitive (b : Mem) (q q' : Str) (h : lower q = lower q') :
    «exists» b q = «exists» b q' := by
  unfold «exists»
  rw [canonical_congr q q' h]

/-- … and for entries: adding either spelling produces the same memory. -/
theorem case_insensitive_entry (b : Mem) (e e' : Str) (h : lower e = lower e') :
    setLocked b e = setLocked b e' ∧ removeLocked b e = removeLocked b e' := by
  unfold setLocked removeLocked
  rw [canonical_congr e e' h]
  exact ⟨rfl, rfl⟩

example : «exists» { m := ["example.com.".toList] } "Sub.EXAMPLE.Com".toList = true := by decide

/-- **Label boundary**: text without a dot glued in front of an entry is never
matched by that entry (`notexample.com.` vs `example.com.`), whether the entry is
plain or a wildcard suffix.  (`hc`: the glued name is already in canonical form.) -/
theorem label_boundary (e pre : Str) (hpre : pre ≠ []) (hdot : '.' ∉ pre)
    (hc : canonical (pre ++ e) = pre ++ e) :
    «exists» { m := [e], wild := [e], w := [] } (pre ++ e) = false := by
  unfold «exists»
  rw [hc, Bool.eq_false_iff]
  intro h
  rw [existsCanon_iff] at h
  have hne : pre ++ e ≠ e := by
    intro h'
    have := congrArg List.length h'
    simp at this
    exact hpre this
  have hsuf : ∀ s ∈ dotSuffixes (pre ++ e), s ≠ e := by
    intro s hs h'
    have := dotSuffixes_glued_lt pre e s hdot hs
    rw [h'] at this
    omega
  rcases h.2 with (h | ⟨s, hs, h⟩) | ⟨s, hs, h⟩
  · exact hne (by simpa using h)
  · exact hsuf s hs (by simpa using h)
  · exact hsuf s hs (by simpa using h)

theorem label_boundary_example :
    «exists» { m := ["example.com.".toList], wild := ["example.com.".toList] } "notexample.com.".toList = false ∧
    «exists» { m := ["example.com.".toList] } "example.com.evil.".toList = false ∧
    «exists» { m := ["example.com.".toList] } "ample.com.".toList = false := by
  decide

/-- A wildcard entry covers strict subdomains only, never its apex. -/
theorem wildcard_not_apex (s : Str) (hc : canonical s = s) :
    «exists» { m := [], wild := [s], w := [] } s = false := by
  unfold «exists»
  rw [hc, Bool.eq_false_iff]
  intro h
  rw [existsCanon_iff] at h
  rcases h.2 with (h | ⟨t, ht, h⟩) | ⟨t, ht, h⟩
  · simp at h
  · simp at h
  · have := dotSuffixes_length_lt _ _ ht
    simp only [List.mem_singleton] at h
    rw [h] at this
    omega

/-! ## 2. Replies -/

/-- **Blocked reply shape**: `ServeDNS` lets the chain continue, untouched and
unanswered, exactly for the names `Exists` does not report; for the others it
cancels the chain (nothing after the blocklist runs: no cache, no upstream),
and writes one NOERROR reply — for `A` the configured null route, for `AAAA`
the configured IPv6 null route, for every other type no answer record and one
SOA in the authority section. -/
theorem blocked_reply_shape (cfg : Cfg) (b : Mem) (q : Str) (t : Nat) :
    («exists» b q = false →
        serveDNS cfg b q t = { next := true, cancelled := false, written := none }) ∧
    («exists» b q = true →
        ∃ r, serveDNS cfg b q t = { next := false, cancelled := true, written := some r } ∧
          r.rcode = 0 ∧ r.authoritative = true ∧
          (t = typeA → r.answer = [{ name := q, rrtype := typeA, ttl := 3600, data := cfg.nullroute }] ∧ r.ns = []) ∧
          (t = typeAAAA → r.answer = [{ name := q, rrtype := typeAAAA, ttl := 3600, data := cfg.null6route }] ∧ r.ns = []) ∧
          (t ≠ typeA → t ≠ typeAAAA → r.answer = [] ∧ ∃ soa, r.ns = [soa] ∧ soa.rrtype = typeSOA ∧ soa.name = q)) := by
  constructor
  · intro h
    unfold serveDNS
    simp [h]
  · intro h
    have hent : (decide (b.m.length > 0) || decide (b.wild.length > 0)) = true := by
      -- a list that reports something is not empty
      unfold «exists» at h
      rw [existsCanon_iff] at h
      rcases h.2 with (h | ⟨s, _, h⟩) | ⟨s, _, h⟩
      · simp [List.length_pos_of_mem h]
      · simp [List.length_pos_of_mem h]
      · simp [List.length_pos_of_mem h]
    unfold serveDNS
    simp only [hent, h, Bool.not_true, Bool.false_eq_true, if_false]
    by_cases hA : t = typeA
    · subst hA
      refine ⟨_, rfl, ?_⟩
      simp [typeA, typeAAAA]
    · by_cases h6 : t = typeAAAA
      · subst h6
        refine ⟨_, rfl, ?_⟩
        simp [typeA, typeAAAA]
      · refine ⟨_, rfl, ?_⟩
        simp [hA, h6]

example : (serveDNS { nullroute := "0.0.0.0".toList, null6route := "::".toList } { m := ["example.com.".toList] }
    "ads.example.com.".toList typeAAAA).written.map (·.answer.map (·.data)) = some ["::".toList] := by decide

/-- Fact regenerated from the tree: in the default chain the blocklist runs
before every handler that caches or goes upstream. -/
theorem blocklist_before_cache_and_upstream :
    ∀ h ∈ ["cache", "failover", "resolver", "forwarder"],
      (SdnsVerif.Gen.C18.chain_order.idxOf "blocklist") < (SdnsVerif.Gen.C18.chain_order.idxOf h) ∧
      h ∈ SdnsVerif.Gen.C18.chain_order := by
  decide

end SdnsVerif.Props.C18
